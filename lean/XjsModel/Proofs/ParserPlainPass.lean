import XjsModel.Proofs.ParserPlain
/-
  The transparency pass (C04): one pass over the mutual block with the partial-correctness principle.
-/
namespace Xjs
set_option linter.unusedSimpArgs false

/-- what the pass shows for a parse function `f` (at the interceptor-free configuration) and a run of the
    intercepted function from `st` with result `r` -/
def PlainM {α : Type} (f : PS → Option (α × PS)) (st : PS) (r : α × PS) : Prop :=
  r.2.curPrec = st.curPrec ∧ f st.strip = some (r.1, r.2.strip)

set_option maxHeartbeats 3200000 in
theorem plain_mutual (cfg : PCfg) :
    (∀ is st r, parseStatementI cfg is st = some r → PlainM (parseStatementI cfg.plain []) st r) ∧
    (∀ st r, baseParseStatement cfg st = some r → PlainM (baseParseStatement cfg.plain) st r) ∧
    (∀ st r, parseExpressionStatement cfg st = some r → PlainM (parseExpressionStatement cfg.plain) st r) ∧
    (∀ is prec st r, parseExpressionI cfg is prec st = some r → PlainM (parseExpressionI cfg.plain [] prec) st r) ∧
    (∀ left prec st r, parseRemaining cfg left prec st = some r → PlainM (parseRemaining cfg.plain left prec) st r) ∧
    (∀ left st r, parseInfixExpression cfg left st = some r → PlainM (parseInfixExpression cfg.plain left) st r) ∧
    (∀ endTy st r, parseExpressionList cfg endTy st = some r → PlainM (parseExpressionList cfg.plain endTy) st r) ∧
    (∀ acc st r, exprListLoop cfg acc st = some r → PlainM (exprListLoop cfg.plain acc) st r) ∧
    (∀ st r, parsePrefixExpression cfg st = some r → PlainM (parsePrefixExpression cfg.plain) st r) ∧
    (∀ st r, parseFunctionExpression cfg st = some r → PlainM (parseFunctionExpression cfg.plain) st r) ∧
    (∀ st r, parseBlockStatement cfg st = some r → PlainM (parseBlockStatement cfg.plain) st r) ∧
    (∀ acc st r, blockLoop cfg acc st = some r → PlainM (blockLoop cfg.plain acc) st r) ∧
    (∀ st r, parseObjectLiteral cfg st = some r → PlainM (parseObjectLiteral cfg.plain) st r) ∧
    (∀ acc st r, objectLoop cfg acc st = some r → PlainM (objectLoop cfg.plain acc) st r) ∧
    (∀ st r, parseForStatement cfg st = some r → PlainM (parseForStatement cfg.plain) st r) ∧
    (∀ st r, parseForInit cfg st = some r → PlainM (parseForInit cfg.plain) st r) ∧
    (∀ st r, parseLetExpression cfg st = some r → PlainM (parseLetExpression cfg.plain) st r) ∧
    (∀ st r, parseWhileStatement cfg st = some r → PlainM (parseWhileStatement cfg.plain) st r) ∧
    (∀ st r, parseIfStatement cfg st = some r → PlainM (parseIfStatement cfg.plain) st r) ∧
    (∀ st r, parseReturnStatement cfg st = some r → PlainM (parseReturnStatement cfg.plain) st r) ∧
    (∀ st r, parseFunctionStatement cfg st = some r → PlainM (parseFunctionStatement cfg.plain) st r) ∧
    (∀ st r, parseLetStatement cfg st = some r → PlainM (parseLetStatement cfg.plain) st r) := by
  refine parseStatementI.mutual_partial_correctness cfg
    (fun is st r => PlainM (parseStatementI cfg.plain []) st r)
    (fun st r => PlainM (baseParseStatement cfg.plain) st r)
    (fun st r => PlainM (parseExpressionStatement cfg.plain) st r)
    (fun is prec st r => PlainM (parseExpressionI cfg.plain [] prec) st r)
    (fun left prec st r => PlainM (parseRemaining cfg.plain left prec) st r)
    (fun left st r => PlainM (parseInfixExpression cfg.plain left) st r)
    (fun endTy st r => PlainM (parseExpressionList cfg.plain endTy) st r)
    (fun acc st r => PlainM (exprListLoop cfg.plain acc) st r)
    (fun st r => PlainM (parsePrefixExpression cfg.plain) st r)
    (fun st r => PlainM (parseFunctionExpression cfg.plain) st r)
    (fun st r => PlainM (parseBlockStatement cfg.plain) st r)
    (fun acc st r => PlainM (blockLoop cfg.plain acc) st r)
    (fun st r => PlainM (parseObjectLiteral cfg.plain) st r)
    (fun acc st r => PlainM (objectLoop cfg.plain acc) st r)
    (fun st r => PlainM (parseForStatement cfg.plain) st r)
    (fun st r => PlainM (parseForInit cfg.plain) st r)
    (fun st r => PlainM (parseLetExpression cfg.plain) st r)
    (fun st r => PlainM (parseWhileStatement cfg.plain) st r)
    (fun st r => PlainM (parseIfStatement cfg.plain) st r)
    (fun st r => PlainM (parseReturnStatement cfg.plain) st r)
    (fun st r => PlainM (parseFunctionStatement cfg.plain) st r)
    (fun st r => PlainM (parseLetStatement cfg.plain) st r)
    ?_ ?_ ?_ ?_ ?_ ?_ ?_ ?_ ?_ ?_ ?_ ?_ ?_ ?_ ?_ ?_ ?_ ?_ ?_ ?_ ?_ ?_
  · -- parseStatementI
    intro pS bS ih_pS ih_bS is st r h
    replace ih_pS := curry2 ih_pS; replace ih_bS := curry1 ih_bS
    dsimp only [PlainM] at ih_pS ih_bS ⊢
    obtain ⟨x, st'⟩ := r
    pdecompW h [ih_pS, ih_bS, plain_parseFunctionParameters]
    all_goals refine ⟨by simp_all, ?_⟩
    all_goals first | (simp_all; done) | (rw [parseStatementI]; simp_all)
  · -- baseParseStatement
    intro f1 f2 f3 f4 f5 f6 f7 f8 ih_f1 ih_f2 ih_f3 ih_f4 ih_f5 ih_f6 ih_f7 ih_f8  st r h
    replace ih_f1 := curry1 ih_f1; replace ih_f2 := curry1 ih_f2; replace ih_f3 := curry1 ih_f3; replace ih_f4 := curry1 ih_f4; replace ih_f5 := curry1 ih_f5; replace ih_f6 := curry1 ih_f6; replace ih_f7 := curry1 ih_f7; replace ih_f8 := curry1 ih_f8
    dsimp only [PlainM] at ih_f1 ih_f2 ih_f3 ih_f4 ih_f5 ih_f6 ih_f7 ih_f8 ⊢
    obtain ⟨x, st'⟩ := r
    split at h
    all_goals (first | have hh := ih_f1 _ _ _ h | have hh := ih_f2 _ _ _ h | have hh := ih_f3 _ _ _ h | have hh := ih_f4 _ _ _ h
                     | have hh := ih_f5 _ _ _ h | have hh := ih_f6 _ _ _ h | have hh := ih_f7 _ _ _ h | have hh := ih_f8 _ _ _ h)
    all_goals refine ⟨hh.1, ?_⟩
    all_goals (rw [baseParseStatement.eq_def]; simp only [strip_cur])
    all_goals first
      | (split <;> first | (exfalso; solve_by_elim) | exact hh.2)
      | (simp only [*]; done)
      | (simp only [*]; exact hh.2)
  · -- parseExpressionStatement
    intro pE ih_pE  st r h
    replace ih_pE := curry3 ih_pE
    dsimp only [PlainM] at ih_pE ⊢
    obtain ⟨x, st'⟩ := r
    pdecompW h [ih_pE, plain_parseFunctionParameters]
    all_goals refine ⟨by simp_all, ?_⟩
    all_goals (rw [parseExpressionStatement]; simp_all [strip_next, strip_expectToken, strip_expectSemi, strip_addError, strip_push, strip_pop])
  · -- parseExpressionI
    intro pE pR pP ih_pE ih_pR ih_pP is prec st r h
    replace ih_pE := curry3 ih_pE; replace ih_pR := curry3 ih_pR; replace ih_pP := curry1 ih_pP
    dsimp only [PlainM] at ih_pE ih_pR ih_pP ⊢
    obtain ⟨x, st'⟩ := r
    pdecompW h [ih_pE, ih_pR, ih_pP, plain_parseFunctionParameters]
    all_goals refine ⟨by simp_all, ?_⟩
    all_goals first | (simp_all; done) | (rw [parseExpressionI]; simp_all)
  · -- parseRemaining
    intro pR pI ih_pR ih_pI left prec st r h
    replace ih_pR := curry3 ih_pR; replace ih_pI := curry2 ih_pI
    dsimp only [PlainM] at ih_pR ih_pI ⊢
    obtain ⟨x, st'⟩ := r
    pdecompW h [ih_pR, ih_pI, plain_parseFunctionParameters]
    all_goals refine ⟨by simp_all, ?_⟩
    all_goals rw [parseRemaining]
    all_goals simp only [strip_peek, strip_lt_peekPrec, plain_smart]
    all_goals simp only [*, ↓reduceIte]
    all_goals simp_all
  · -- parseInfixExpression
    intro pE pL ih_pE ih_pL left st r h
    replace ih_pE := curry3 ih_pE; replace ih_pL := curry2 ih_pL
    dsimp only [PlainM] at ih_pE ih_pL ⊢
    obtain ⟨x, st'⟩ := r
    pdecompW h [ih_pE, ih_pL, plain_parseFunctionParameters]
    all_goals refine ⟨by simp_all, ?_⟩
    all_goals (rw [parseInfixExpression]; simp_all [strip_next, strip_expectToken, strip_expectSemi, strip_addError, strip_push, strip_pop])
  · -- parseExpressionList
    intro pE eL ih_pE ih_eL endTy st r h
    replace ih_pE := curry3 ih_pE; replace ih_eL := curry2 ih_eL
    dsimp only [PlainM] at ih_pE ih_eL ⊢
    obtain ⟨x, st'⟩ := r
    pdecompW h [ih_pE, ih_eL, plain_parseFunctionParameters]
    all_goals refine ⟨by simp_all, ?_⟩
    all_goals (rw [parseExpressionList]; simp_all [strip_next, strip_expectToken, strip_expectSemi, strip_addError, strip_push, strip_pop])
  · -- exprListLoop
    intro pE eL ih_pE ih_eL acc st r h
    replace ih_pE := curry3 ih_pE; replace ih_eL := curry2 ih_eL
    dsimp only [PlainM] at ih_pE ih_eL ⊢
    obtain ⟨x, st'⟩ := r
    pdecompW h [ih_pE, ih_eL, plain_parseFunctionParameters]
    all_goals refine ⟨by simp_all, ?_⟩
    all_goals (rw [exprListLoop]; simp_all [strip_next, strip_expectToken, strip_expectSemi, strip_addError, strip_push, strip_pop])
  · -- parsePrefixExpression
    intro pE pL pFE pO ih_pE ih_pL ih_pFE ih_pO  st r h
    replace ih_pE := curry3 ih_pE; replace ih_pL := curry2 ih_pL; replace ih_pFE := curry1 ih_pFE; replace ih_pO := curry1 ih_pO
    dsimp only [PlainM] at ih_pE ih_pL ih_pFE ih_pO ⊢
    obtain ⟨x, st'⟩ := r
    pdecompW h [ih_pE, ih_pL, ih_pFE, ih_pO, plain_parseFunctionParameters]
    all_goals refine ⟨by simp_all, ?_⟩
    all_goals (rw [parsePrefixExpression]; simp_all [strip_next, strip_expectToken, strip_expectSemi, strip_addError, strip_push, strip_pop])
  · -- parseFunctionExpression
    intro pB ih_pB  st r h
    replace ih_pB := curry1 ih_pB
    dsimp only [PlainM] at ih_pB ⊢
    obtain ⟨x, st'⟩ := r
    pdecompW h [ih_pB, plain_parseFunctionParameters]
    all_goals refine ⟨by simp_all, ?_⟩
    all_goals (rw [parseFunctionExpression]; simp_all [strip_next, strip_expectToken, strip_expectSemi, strip_addError, strip_push, strip_pop])
  · -- parseBlockStatement
    intro bL ih_bL  st r h
    replace ih_bL := curry2 ih_bL
    dsimp only [PlainM] at ih_bL ⊢
    obtain ⟨x, st'⟩ := r
    pdecompW h [ih_bL, plain_parseFunctionParameters]
    all_goals refine ⟨by simp_all, ?_⟩
    all_goals rw [parseBlockStatement]
    all_goals simp only [strip_push, strip_next]
    all_goals simp only [*, Option.bind_eq_bind, Option.bind_some, strip_cur, plain_tolerant, ↓reduceIte]
    all_goals simp_all [strip_addError, strip_pop]
  · -- blockLoop
    intro pS bL ih_pS ih_bL acc st r h
    replace ih_pS := curry2 ih_pS; replace ih_bL := curry2 ih_bL
    dsimp only [PlainM] at ih_pS ih_bL ⊢
    obtain ⟨x, st'⟩ := r
    pdecompW h [ih_pS, ih_bL, plain_parseFunctionParameters]
    all_goals refine ⟨by simp_all, ?_⟩
    all_goals (rw [blockLoop]; simp_all [strip_next, strip_expectToken, strip_expectSemi, strip_addError, strip_push, strip_pop])
  · -- parseObjectLiteral
    intro oL ih_oL  st r h
    replace ih_oL := curry2 ih_oL
    dsimp only [PlainM] at ih_oL ⊢
    obtain ⟨x, st'⟩ := r
    pdecompW h [ih_oL, plain_parseFunctionParameters]
    all_goals refine ⟨by simp_all, ?_⟩
    all_goals (rw [parseObjectLiteral]; simp_all [strip_next, strip_expectToken, strip_expectSemi, strip_addError, strip_push, strip_pop])
  · -- objectLoop
    intro pE oL ih_pE ih_oL acc st r h
    replace ih_pE := curry3 ih_pE; replace ih_oL := curry2 ih_oL
    dsimp only [PlainM] at ih_pE ih_oL ⊢
    obtain ⟨x, st'⟩ := r
    pdecompW h [ih_pE, ih_oL, plain_parseFunctionParameters]
    all_goals refine ⟨by simp_all, ?_⟩
    all_goals (rw [objectLoop]; simp_all [strip_next, strip_expectToken, strip_expectSemi, strip_addError, strip_push, strip_pop])
  · -- parseForStatement
    intro pS pE pFI ih_pS ih_pE ih_pFI  st r h
    replace ih_pS := curry2 ih_pS; replace ih_pE := curry3 ih_pE; replace ih_pFI := curry1 ih_pFI
    dsimp only [PlainM] at ih_pS ih_pE ih_pFI ⊢
    obtain ⟨x, st'⟩ := r
    pdecompW h [ih_pS, ih_pE, ih_pFI, plain_parseFunctionParameters]
    all_goals refine ⟨by simp_all, ?_⟩
    all_goals (rw [parseForStatement]; simp_all [strip_next, strip_expectToken, strip_expectSemi, strip_addError, strip_push, strip_pop])
  · -- parseForInit
    intro pE pLE ih_pE ih_pLE  st r h
    replace ih_pE := curry3 ih_pE; replace ih_pLE := curry1 ih_pLE
    dsimp only [PlainM] at ih_pE ih_pLE ⊢
    obtain ⟨x, st'⟩ := r
    pdecompW h [ih_pE, ih_pLE, plain_parseFunctionParameters]
    all_goals refine ⟨by simp_all, ?_⟩
    all_goals (rw [parseForInit]; simp_all [strip_next, strip_expectToken, strip_expectSemi, strip_addError, strip_push, strip_pop])
  · -- parseLetExpression
    intro pE ih_pE  st r h
    replace ih_pE := curry3 ih_pE
    dsimp only [PlainM] at ih_pE ⊢
    obtain ⟨x, st'⟩ := r
    pdecompW h [ih_pE, plain_parseFunctionParameters]
    all_goals refine ⟨by simp_all, ?_⟩
    all_goals (rw [parseLetExpression]; simp_all [strip_next, strip_expectToken, strip_expectSemi, strip_addError, strip_push, strip_pop])
  · -- parseWhileStatement
    intro pS pE ih_pS ih_pE  st r h
    replace ih_pS := curry2 ih_pS; replace ih_pE := curry3 ih_pE
    dsimp only [PlainM] at ih_pS ih_pE ⊢
    obtain ⟨x, st'⟩ := r
    pdecompW h [ih_pS, ih_pE, plain_parseFunctionParameters]
    all_goals refine ⟨by simp_all, ?_⟩
    all_goals (rw [parseWhileStatement]; simp_all [strip_next, strip_expectToken, strip_expectSemi, strip_addError, strip_push, strip_pop])
  · -- parseIfStatement
    intro pS pE ih_pS ih_pE  st r h
    replace ih_pS := curry2 ih_pS; replace ih_pE := curry3 ih_pE
    dsimp only [PlainM] at ih_pS ih_pE ⊢
    obtain ⟨x, st'⟩ := r
    pdecompW h [ih_pS, ih_pE, plain_parseFunctionParameters]
    all_goals refine ⟨by simp_all, ?_⟩
    all_goals (rw [parseIfStatement]; simp_all [strip_next, strip_expectToken, strip_expectSemi, strip_addError, strip_push, strip_pop])
  · -- parseReturnStatement
    intro pE ih_pE  st r h
    replace ih_pE := curry3 ih_pE
    dsimp only [PlainM] at ih_pE ⊢
    obtain ⟨x, st'⟩ := r
    pdecompW h [ih_pE, plain_parseFunctionParameters]
    all_goals refine ⟨by simp_all, ?_⟩
    all_goals (rw [parseReturnStatement]; simp_all [strip_next, strip_expectToken, strip_expectSemi, strip_addError, strip_push, strip_pop])
  · -- parseFunctionStatement
    intro pB ih_pB  st r h
    replace ih_pB := curry1 ih_pB
    dsimp only [PlainM] at ih_pB ⊢
    obtain ⟨x, st'⟩ := r
    pdecompW h [ih_pB, plain_parseFunctionParameters]
    all_goals refine ⟨by simp_all, ?_⟩
    all_goals (rw [parseFunctionStatement]; simp_all [strip_next, strip_expectToken, strip_expectSemi, strip_addError, strip_push, strip_pop])
  · -- parseLetStatement
    intro pE ih_pE  st r h
    replace ih_pE := curry3 ih_pE
    dsimp only [PlainM] at ih_pE ⊢
    obtain ⟨x, st'⟩ := r
    pdecompW h [ih_pE, plain_parseFunctionParameters]
    all_goals refine ⟨by simp_all, ?_⟩
    all_goals (rw [parseLetStatement]; simp_all [strip_next, strip_expectToken, strip_expectSemi, strip_addError, strip_push, strip_pop])

end Xjs
