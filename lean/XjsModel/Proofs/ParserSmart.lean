import XjsModel.Proofs.ParserLen
/-
  Smart-semicolon mode vs default mode (C13 c): on a token stream without a `(` or `[` that starts a line,
  the smart-semicolon cut never fires, so both modes run identically.
-/
namespace Xjs

def PCfg.smartOff (cfg : PCfg) : PCfg := { cfg with smart := false }
def PCfg.smartOn (cfg : PCfg) : PCfg := { cfg with smart := true }

@[simp] theorem smartOff_stmtI (cfg : PCfg) : cfg.smartOff.stmtI = cfg.stmtI := rfl
@[simp] theorem smartOff_exprI (cfg : PCfg) : cfg.smartOff.exprI = cfg.exprI := rfl
@[simp] theorem smartOff_tolerant (cfg : PCfg) : cfg.smartOff.tolerant = cfg.tolerant := rfl
@[simp] theorem smartOff_smart (cfg : PCfg) : cfg.smartOff.smart = false := rfl
@[simp] theorem smartOff_prefixFns (cfg : PCfg) : cfg.smartOff.prefixFns = cfg.prefixFns := rfl
@[simp] theorem smartOff_infixFns (cfg : PCfg) : cfg.smartOff.infixFns = cfg.infixFns := rfl
@[simp] theorem smartOn_stmtI (cfg : PCfg) : cfg.smartOn.stmtI = cfg.stmtI := rfl
@[simp] theorem smartOn_exprI (cfg : PCfg) : cfg.smartOn.exprI = cfg.exprI := rfl
@[simp] theorem smartOn_tolerant (cfg : PCfg) : cfg.smartOn.tolerant = cfg.tolerant := rfl
@[simp] theorem smartOn_smart (cfg : PCfg) : cfg.smartOn.smart = true := rfl
@[simp] theorem smartOn_prefixFns (cfg : PCfg) : cfg.smartOn.prefixFns = cfg.prefixFns := rfl
@[simp] theorem smartOn_infixFns (cfg : PCfg) : cfg.smartOn.infixFns = cfg.infixFns := rfl
@[simp] theorem smartOn_curPrecedence (cfg : PCfg) (st : PS) : curPrecedence cfg.smartOn st = curPrecedence cfg.smartOff st := rfl
theorem smartOn_lt_peekPrec (cfg : PCfg) (st : PS) (prec : Nat) :
    decide (prec < peekPrecedence cfg.smartOn st) = decide (prec < peekPrecedence cfg.smartOff st) := rfl
@[simp] theorem smartOn_expectSemi (cfg : PCfg) (st : PS) : expectSemiASI cfg.smartOn st = expectSemiASI cfg.smartOff st := rfl

/-- a token that would trigger the smart-semicolon cut: `(` or `[` as the first token of a line -/
def Token.lineInitialOpen (t : Token) : Bool := t.nl && (t.type == .lparen || t.type == .lbracket)

/-- no token still to be read starts a line with `(` or `[` -/
def PS.noLI (st : PS) : Prop := ∀ t ∈ st.toks, t.lineInitialOpen = false

theorem noLI_next {st : PS} (h : st.noLI) : st.next.noLI := by
  unfold PS.next
  split
  · rename_i a b c heq
    intro t ht
    exact h t (by rw [heq]; exact List.mem_cons_of_mem _ ht)
  · rename_i a heq
    intro t ht
    simp only [List.mem_singleton] at ht
    subst ht
    simp [Token.lineInitialOpen, eofAgain]
  · exact h

@[simp] theorem noLI_push (st : PS) (c : Ctx) : (st.push c).noLI = st.noLI := rfl
@[simp] theorem noLI_pop (st : PS) : st.pop.noLI = st.noLI := rfl
@[simp] theorem noLI_addError (st : PS) (m : Bytes) : (st.addError m).noLI = st.noLI := rfl
@[simp] theorem noLI_addErrorAt (st : PS) (m : Bytes) (t : Token) : (st.addErrorAt m t).noLI = st.noLI := rfl
@[simp] theorem noLI_set (st : PS) (p : Nat) (t : List Event) : PS.noLI { st with curPrec := p, trace := t } = st.noLI := rfl
@[simp] theorem noLI_setPrec (st : PS) (p : Nat) : PS.noLI { st with curPrec := p } = st.noLI := rfl
@[simp] theorem noLI_setTrace (st : PS) (t : List Event) : PS.noLI { st with trace := t } = st.noLI := rfl

theorem noLI_push_next {st : PS} (c : Ctx) (h : st.noLI) : (st.push c).next.noLI := noLI_next (st := st.push c) h

theorem noLI_expectToken {st : PS} (ty : TokType) (h : st.noLI) : (expectToken ty st).2.noLI := by
  unfold expectToken; split
  · exact noLI_next h
  · exact h
theorem noLI_expectSemi {st : PS} (cfg : PCfg) (h : st.noLI) : (expectSemiASI cfg st).2.noLI := by
  unfold expectSemiASI; split
  · exact noLI_next h
  · split
    · exact h
    · split <;> exact h

theorem noLI_peek {st : PS} (h : st.noLI) : st.peek.lineInitialOpen = false := by
  unfold PS.peek
  split
  · rename_i a b c heq; exact h b (by rw [heq]; simp)
  · simp [Token.lineInitialOpen, eofAgain]
  · simp [Token.lineInitialOpen, dummyTok]

/-- under `noLI` the smart-semicolon cut of `ParseRemainingExpression` never fires -/
theorem smart_cut_never {st : PS} (h : st.noLI) (b : Bool) :
    (b && st.peek.nl && (st.peek.type == .lparen || st.peek.type == .lbracket)) = false := by
  have := noLI_peek h
  unfold Token.lineInitialOpen at this
  cases b <;> simp_all

theorem Steps.noLI {s s' : PS} (h : Steps s s') (h0 : s.noLI) : s'.noLI := by
  induction h with
  | refl => exact h0
  | next _ ih => exact noLI_next (ih h0)
  | addErr _ _ _ _ ih => exact ih h0
  | trace _ _ _ ih => exact ih h0
  | ctxBracket c _ _ ih1 ih2 => exact ih2 (ih1 h0)
  | precBracket _ _ _ _ ih1 ih2 => exact ih2 (ih1 h0)

theorem smart_parseFunctionParameters (st : PS) (x : List Ident) (st' : PS) (h : parseFunctionParameters st = some (x, st')) :
    st.noLI → (parseFunctionParameters st = some (x, st') ∧ st'.noLI) :=
  fun h0 => ⟨h, (steps_parseFunctionParameters st _ h st (.refl _)).noLI h0⟩

end Xjs
