import XjsModel.Model.Printer
/-
  The `PrettyPrint` flag is never changed by the writer; in compact mode leading comments are not written.
-/
namespace Xjs

@[simp] theorem pretty_mapAdvance (cw : CW) (f : Mapper → Mapper) : (cw.mapAdvance f).pretty = cw.pretty := by
  unfold CW.mapAdvance; cases cw.mapper <;> rfl
@[simp] theorem pretty_panic (cw : CW) : cw.panic.pretty = cw.pretty := rfl
@[simp] theorem pretty_rawIndent (cw : CW) : cw.rawIndent.pretty = cw.pretty := rfl
theorem pretty_flushOne (cw : CW) (ch : Nat) : (cw.flushOne ch).pretty = cw.pretty := by
  unfold CW.flushOne; split <;> rfl
theorem pretty_foldl_flushOne (l : List Nat) (cw : CW) : (l.foldl CW.flushOne cw).pretty = cw.pretty := by
  induction l generalizing cw with
  | nil => rfl
  | cons c r ih => simp only [List.foldl_cons, ih, pretty_flushOne]
@[simp] theorem pretty_flushPending (cw : CW) : cw.flushPending.pretty = cw.pretty := by
  unfold CW.flushPending; exact pretty_foldl_flushOne _ _
@[simp] theorem pretty_writeString (cw : CW) (s : Bytes) : (cw.writeString s).pretty = cw.pretty := by
  simp [CW.writeString]
@[simp] theorem pretty_writeRune (cw : CW) (r : Nat) : (cw.writeRune r).pretty = cw.pretty := by
  simp [CW.writeRune]
@[simp] theorem pretty_writeSemi (cw : CW) : cw.writeSemi.pretty = cw.pretty := by
  unfold CW.writeSemi; repeat' split
  all_goals simp
@[simp] theorem pretty_separateSigns (cw : CW) (op : Bytes) : (cw.separateSigns op).pretty = cw.pretty := by
  unfold CW.separateSigns
  cases op with
  | nil => rfl
  | cons c r => simp only; repeat' split
                all_goals simp
@[simp] theorem pretty_increaseIndent (cw : CW) : cw.increaseIndent.pretty = cw.pretty := by
  unfold CW.increaseIndent; split <;> rfl
@[simp] theorem pretty_decreaseIndent (cw : CW) : cw.decreaseIndent.pretty = cw.pretty := by
  unfold CW.decreaseIndent; split <;> rfl
@[simp] theorem pretty_writeIndent (cw : CW) : cw.writeIndent.pretty = cw.pretty := by
  unfold CW.writeIndent; repeat' split
  all_goals rfl
@[simp] theorem pretty_writeNewline (cw : CW) : cw.writeNewline.pretty = cw.pretty := by
  unfold CW.writeNewline; split <;> rfl
@[simp] theorem pretty_writeSpace (cw : CW) : cw.writeSpace.pretty = cw.pretty := by
  unfold CW.writeSpace; repeat' split
  all_goals rfl
theorem pretty_commentsLoop (cs : List Bytes) (first : Bool) (cw : CW) : (cw.commentsLoop cs first).pretty = cw.pretty := by
  induction cs generalizing cw first with
  | nil => rfl
  | cons c rest ih =>
    simp only [CW.commentsLoop, ih]
    cases first <;> simp only [Bool.false_eq_true, if_false, if_true] <;> (repeat' split) <;> rfl
@[simp] theorem pretty_leadingComments (cw : CW) (cs : List Bytes) : (cw.leadingComments cs).pretty = cw.pretty := by
  unfold CW.leadingComments
  split
  · rfl
  · simp [pretty_commentsLoop]
@[simp] theorem pretty_addMapping (cw : CW) (a b : Nat) : (cw.addMapping a b).pretty = cw.pretty := by simp [CW.addMapping]
@[simp] theorem pretty_addNamedMapping (cw : CW) (a b : Nat) (n : Bytes) : (cw.addNamedMapping a b n).pretty = cw.pretty := by
  simp [CW.addNamedMapping]
@[simp] theorem pretty_head (cw : CW) (t : Token) : (cw.head t).pretty = cw.pretty := by simp [CW.head]
@[simp] theorem pretty_openIf (cw : CW) (b : Bool) : (cw.openIf b).pretty = cw.pretty := by unfold CW.openIf; split <;> simp
@[simp] theorem pretty_closeIf (cw : CW) (b : Bool) : (cw.closeIf b).pretty = cw.pretty := by unfold CW.closeIf; split <;> simp
@[simp] theorem pretty_sepIf (cw : CW) (b : Bool) : (cw.sepIf b).pretty = cw.pretty := by unfold CW.sepIf; split <;> simp
@[simp] theorem pretty_newlineIf (cw : CW) (b : Bool) : (cw.newlineIf b).pretty = cw.pretty := by unfold CW.newlineIf; split <;> simp
@[simp] theorem pretty_writeIdent (id : Ident) (cw : CW) : (writeIdent id cw).pretty = cw.pretty := by simp [writeIdent]
@[simp] theorem pretty_writeParams (ps : List Ident) (first : Bool) (cw : CW) : (writeParams ps first cw).pretty = cw.pretty := by
  induction ps generalizing cw first with
  | nil => rfl
  | cons p rest ih => simp [writeParams, ih]

@[simp] theorem pretty_ite {c : Prop} [Decidable c] (a b : CW) : (if c then a else b).pretty = if c then a.pretty else b.pretty := by
  split <;> rfl

mutual
  theorem pretty_writeExpr : ∀ (e : Expr) (cw : CW), (writeExpr e cw).pretty = cw.pretty
    | .none, cw => by simp [writeExpr]
    | .ident id, cw => by simp [writeExpr]
    | .int tok, cw => by simp [writeExpr]
    | .float tok, cw => by simp [writeExpr]
    | .str tok v, cw => by simp [writeExpr]
    | .raw tok v, cw => by simp [writeExpr]
    | .bool tok b, cw => by simp [writeExpr]
    | .null tok, cw => by simp [writeExpr]
    | .letE tok name v, cw => by simp [writeExpr, pretty_writeExpr v]
    | .binary tok l op r, cw => by simp [writeExpr, pretty_writeExpr l, pretty_writeExpr r]
    | .unary tok op r, cw => by simp [writeExpr, pretty_writeExpr r]
    | .postfix tok l op, cw => by simp [writeExpr, pretty_writeExpr l]
    | .group tok e rp, cw => by simp [writeExpr, pretty_writeExpr e]
    | .call tok fn args, cw => by simp [writeExpr, pretty_writeExpr fn, pretty_writeExprList args]
    | .member tok obj prop c, cw => by simp [writeExpr, pretty_writeExpr obj, pretty_writeExpr prop]
    | .assign tok l v, cw => by simp [writeExpr, pretty_writeExpr l, pretty_writeExpr v]
    | .compound tok l op v, cw => by simp [writeExpr, pretty_writeExpr l, pretty_writeExpr v]
    | .func tok name params body, cw => by cases name <;> simp [writeExpr, pretty_writeStmt body]
    | .array tok elems rb, cw => by simp [writeExpr, pretty_writeExprList elems]
    | .object tok props rb, cw => by simp [writeExpr, pretty_writeProps props]
  theorem pretty_writeExprList : ∀ (es : ExprList) (first : Bool) (cw : CW), (writeExprList es first cw).pretty = cw.pretty
    | .nil, _, cw => by simp [writeExprList]
    | .cons e rest, first, cw => by simp [writeExprList, pretty_writeExpr e, pretty_writeExprList rest]
  theorem pretty_writeProps : ∀ (ps : PropList) (first : Bool) (cw : CW), (writeProps ps first cw).pretty = cw.pretty
    | .nil, _, cw => by simp [writeProps]
    | .cons k v rest, first, cw => by simp [writeProps, pretty_writeExpr k, pretty_writeExpr v, pretty_writeProps rest]
  theorem pretty_writeStmt : ∀ (s : Stmt) (cw : CW), (writeStmt s cw).pretty = cw.pretty
    | .none, cw => by simp [writeStmt]
    | .letS tok name v, cw => by simp [writeStmt, pretty_writeExpr v]
    | .ret tok v, cw => by simp [writeStmt, pretty_writeExpr v]
    | .exprS e, cw => by simp [writeStmt, pretty_writeExpr e]
    | .funcD tok name params body, cw => by simp [writeStmt, pretty_writeStmt body]
    | .block tok stmts rb, cw => by simp [writeStmt, pretty_writeBlockStmts stmts]
    | .ifS tok c a b, cw => by simp [writeStmt, pretty_writeExpr c, pretty_writeStmt a, pretty_writeStmt b]
    | .whileS tok c b, cw => by simp [writeStmt, pretty_writeExpr c, pretty_writeStmt b]
    | .forS tok i c u b, cw => by
      simp [writeStmt, pretty_writeExpr i, pretty_writeExpr c, pretty_writeExpr u, pretty_writeStmt b]
  theorem pretty_writeBlockStmts : ∀ (ss : StmtList) (first : Bool) (cw : CW), (writeBlockStmts ss first cw).pretty = cw.pretty
    | .nil, _, cw => by simp [writeBlockStmts]
    | .cons s rest, first, cw => by simp [writeBlockStmts, pretty_writeStmt s, pretty_writeBlockStmts rest]
  theorem pretty_writeProgramStmts : ∀ (ss : StmtList) (first : Bool) (cw : CW), (writeProgramStmts ss first cw).pretty = cw.pretty
    | .nil, _, cw => by simp [writeProgramStmts]
    | .cons s rest, first, cw => by simp [writeProgramStmts, pretty_writeStmt s, pretty_writeProgramStmts rest]
end

end Xjs

namespace Xjs

/-! ## compact mode ignores trivia -/

theorem leadingComments_compact (cw : CW) (cs : List Bytes) (h : cw.pretty = false) : cw.leadingComments cs = cw := by
  unfold CW.leadingComments; simp [h]

theorem head_compact (cw : CW) (t : Token) (h : cw.pretty = false) : cw.head t = cw.addMapping t.sl t.sc := by
  unfold CW.head; rw [leadingComments_compact _ _ h]

theorem writeIdent_compact (id : Ident) (cw : CW) (h : cw.pretty = false) :
    writeIdent id cw = (cw.addNamedMapping id.tok.sl id.tok.sc id.value).writeString id.value := by
  unfold writeIdent; rw [leadingComments_compact _ _ h]

end Xjs
