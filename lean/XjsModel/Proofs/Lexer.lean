import XjsModel.Model.Lexer
/-
  Lemmas about the lexer model: cursor invariant, reachability by `readChar`, progress.
-/
namespace Xjs

/-! ## positions -/

/-- line/column after the bytes `b`, starting from `p`: a line feed starts a new line -/
def advPos : Bytes → Nat × Nat → Nat × Nat
  | [], p => p
  | c :: r, (l, col) => advPos r (if c == 10 then (l + 1, 0) else (l, col + 1))

/-- SPEC: the line/column of byte offset `off` in `src` (0-based line, byte column) -/
def lc (src : Bytes) (off : Nat) : Nat × Nat := advPos (src.take off) (0, 0)

theorem advPos_append (a b : Bytes) (p : Nat × Nat) : advPos (a ++ b) p = advPos b (advPos a p) := by
  induction a generalizing p with
  | nil => rfl
  | cons c r ih => obtain ⟨l, col⟩ := p; simp only [List.cons_append, advPos, ih]

/-- the cursor agrees with the source: it stands at offset `off`, and its line/column are those of `off` -/
structure LInv (src : Bytes) (s : LS) : Prop where
  off_le : s.off ≤ src.length
  rest_eq : s.rest = src.drop s.off
  pos_eq : (s.line, s.col) = lc src s.off

theorem linv_init (src : Bytes) : LInv src (LS.init src) := by
  refine ⟨Nat.zero_le _, by simp [LS.init], by simp [LS.init, lc, advPos]⟩

theorem readChar_inv (src : Bytes) (s : LS) (h : LInv src s) : LInv src (readChar s) := by
  obtain ⟨h1, h2, h3⟩ := h
  unfold readChar
  split
  · exact ⟨h1, h2, h3⟩
  · rename_i c r hr
    have hlt : s.off < src.length := by
      rcases Nat.lt_or_ge s.off src.length with h | h
      · exact h
      · rw [hr, List.drop_eq_nil_of_le h] at h2; exact absurd h2 (by simp)
    have hdrop : src.drop s.off = src[s.off] :: src.drop (s.off + 1) := (List.drop_eq_getElem_cons hlt)
    rw [hr, hdrop] at h2
    injection h2 with hc hrr
    have htake : src.take (s.off + 1) = src.take s.off ++ [c] := by
      rw [List.take_add_one, List.getElem?_eq_getElem hlt, hc]; rfl
    have hpos : lc src (s.off + 1) = advPos [c] (s.line, s.col) := by
      have h3' : advPos (src.take s.off) (0, 0) = (s.line, s.col) := h3.symm
      unfold lc; rw [htake, advPos_append, h3']
    split
    · rename_i hc10
      refine ⟨hlt, hrr, ?_⟩
      simp only [hpos, advPos, hc10, if_true]
    · rename_i hc10
      refine ⟨hlt, hrr, ?_⟩
      simp only [hpos, advPos, hc10]
      rfl

theorem readChars_inv (src : Bytes) (n : Nat) (s : LS) (h : LInv src s) : LInv src (readChars n s) := by
  induction n generalizing s with
  | zero => exact h
  | succ n ih => exact ih _ (readChar_inv src s h)

/-! ## reachability: every state the lexer produces is obtained by `readChar`s -/

def Reach (s s' : LS) : Prop := ∃ n, s' = readChars n s

theorem reach_refl (s : LS) : Reach s s := ⟨0, rfl⟩

theorem readChars_add (m n : Nat) (s : LS) : readChars (m + n) s = readChars n (readChars m s) := by
  induction m generalizing s with
  | zero => simp [readChars]
  | succ m ih => rw [Nat.succ_add]; simp only [readChars]; exact ih _

theorem reach_readChar {s s' : LS} (h : Reach s s') : Reach s (readChar s') := by
  obtain ⟨n, rfl⟩ := h
  exact ⟨n + 1, by rw [readChars_add]; rfl⟩

theorem reach_readChars {s s' : LS} (k : Nat) (h : Reach s s') : Reach s (readChars k s') := by
  obtain ⟨n, rfl⟩ := h
  exact ⟨n + k, by rw [readChars_add]⟩

theorem reach_inv (src : Bytes) {s s' : LS} (h : Reach s s') (hi : LInv src s) : LInv src s' := by
  obtain ⟨n, rfl⟩ := h; exact readChars_inv src n s hi

theorem readChar_rest (s : LS) : (readChar s).rest = s.rest.drop 1 := by
  unfold readChar; split
  · rename_i h; simp [h]
  · rename_i c r h; split <;> simp [h]

theorem readChars_rest (n : Nat) (s : LS) : (readChars n s).rest = s.rest.drop n := by
  induction n generalizing s with
  | zero => simp [readChars]
  | succ n ih => simp only [readChars, ih, readChar_rest, List.drop_drop]; congr 1; omega

theorem readChar_off (s : LS) : (readChar s).off = s.off + min 1 s.rest.length := by
  unfold readChar; split
  · rename_i h; simp [h]
  · rename_i c r h; split <;> simp [h] <;> omega

theorem readChars_off (n : Nat) (s : LS) : (readChars n s).off = s.off + min n s.rest.length := by
  induction n generalizing s with
  | zero => simp [readChars]
  | succ n ih =>
    simp only [readChars, ih, readChar_off, readChar_rest, List.length_drop]
    omega

/-- reading at least one character from a non-empty rest makes it shorter -/
theorem readChars_shorter (n : Nat) (s : LS) (hn : 1 ≤ n) (hne : s.rest ≠ []) :
    (readChars n s).rest.length < s.rest.length := by
  rw [readChars_rest, List.length_drop]
  have : 0 < s.rest.length := List.length_pos_iff.mpr hne
  omega

theorem reach_rest_le {s s' : LS} (h : Reach s s') : s'.rest.length ≤ s.rest.length := by
  obtain ⟨n, rfl⟩ := h
  rw [readChars_rest, List.length_drop]; omega

theorem reach_off_le {s s' : LS} (h : Reach s s') : s.off ≤ s'.off := by
  obtain ⟨n, rfl⟩ := h
  rw [readChars_off]; omega

end Xjs

namespace Xjs

/-! ## baseNextToken -/

theorem reach_ite {s a b : LS} {c : Prop} [Decidable c] (ha : Reach s a) (hb : Reach s b) :
    Reach s (if c then a else b) := by split <;> assumption

theorem baseNextToken_reach (nl : Bool) (cs : List Bytes) (s : LS) : Reach s (baseNextToken nl cs s).2 := by
  unfold baseNextToken
  simp only [apply_ite Prod.snd]
  repeat' (first | apply reach_ite | exact reach_refl _ | apply reach_readChar | apply reach_readChars)

theorem and4_ite {c : Prop} [Decidable c] {α} {a b : α} {P : α → Prop} (ha : P a) (hb : P b) : P (if c then a else b) := by
  split <;> assumption

theorem baseNextToken_start (nl : Bool) (cs : List Bytes) (s : LS) :
    (baseNextToken nl cs s).1.sl = s.line ∧ (baseNextToken nl cs s).1.sc = s.col ∧
    (baseNextToken nl cs s).1.nl = nl ∧ (baseNextToken nl cs s).1.comments = cs := by
  unfold baseNextToken
  simp only [apply_ite Prod.fst]
  repeat' (first | exact ⟨rfl, rfl, rfl, rfl⟩ | apply and4_ite (P := fun t : Token => t.sl = s.line ∧ t.sc = s.col ∧ t.nl = nl ∧ t.comments = cs))

end Xjs

namespace Xjs

/-! ## progress -/

def Reach1 (s s' : LS) : Prop := ∃ n, 1 ≤ n ∧ s' = readChars n s

theorem reach1_ite {s a b : LS} {c : Prop} [Decidable c] (ha : c → Reach1 s a) (hb : ¬c → Reach1 s b) :
    Reach1 s (if c then a else b) := by
  split
  · exact ha ‹_›
  · exact hb ‹_›

theorem takeWhileLen_pos (p : Nat → Bool) (c : Nat) (r : Bytes) (h : p c = true) : 1 ≤ takeWhileLen p (c :: r) := by
  simp [takeWhileLen, List.takeWhile, h]

theorem scanNumber_pos (b : Bytes) (hne : b ≠ []) (h : isDigit (b.headD 0) = true) : 1 ≤ (scanNumber b).1 := by
  have hn1 : 1 ≤ takeWhileLen isDigit b := by
    cases b with
    | nil => exact absurd rfl hne
    | cons c r => exact takeWhileLen_pos _ _ _ (by simpa using h)
  unfold scanNumber radixLen
  simp only []
  repeat' split
  all_goals (simp only []; omega)

theorem cur_rest (s : LS) (hne : s.rest ≠ []) : ∃ r, s.rest = s.cur :: r := by
  cases h : s.rest with
  | nil => exact absurd h hne
  | cons c r => exact ⟨r, by simp [LS.cur, h]⟩

theorem baseNextToken_progress (nl : Bool) (cs : List Bytes) (s : LS) (hne : s.rest ≠ []) :
    Reach1 s (baseNextToken nl cs s).2 := by
  obtain ⟨r, hr⟩ := cur_rest s hne
  unfold baseNextToken
  simp only [apply_ite Prod.snd]
  repeat' (first
    | exact ⟨1, Nat.le_refl _, rfl⟩
    | exact ⟨2, by omega, rfl⟩
    | (apply reach1_ite <;> intro _))
  · -- string literal
    exact ⟨(1 + _) + 1, by omega, (readChars_add _ 1 s).symm⟩
  · -- raw string
    exact ⟨(1 + _) + 1, by omega, (readChars_add _ 1 s).symm⟩
  · -- end of input: impossible, the rest is not empty
    rename_i h
    simp [hr] at h
  · -- identifier
    rename_i h
    refine ⟨_, ?_, rfl⟩
    rw [hr]; exact takeWhileLen_pos _ _ _ (by simp [h])
  · -- number
    rename_i h
    exact ⟨_, scanNumber_pos _ hne (by rw [hr]; simpa using h), rfl⟩

end Xjs

namespace Xjs

/-! ## end of input -/

theorem baseNextToken_at_end (nl : Bool) (cs : List Bytes) (s : LS) (h : s.rest = []) :
    baseNextToken nl cs s = (mkTok .eof [] s s nl cs, s) := by
  unfold baseNextToken
  simp [LS.cur, h]

theorem keyword_not_eof : ∀ kv ∈ keywordTable, kv.2 ≠ TokType.eof := by decide

theorem lookupIdent_ne_eof (lit : Bytes) : lookupIdent lit ≠ .eof := by
  unfold lookupIdent
  split
  · rename_i kv h
    exact keyword_not_eof kv (List.mem_of_find?_eq_some h)
  · simp

theorem scanNumber_type (b : Bytes) : (scanNumber b).2 = .int ∨ (scanNumber b).2 = .float := by
  unfold scanNumber
  simp only []
  repeat' split
  all_goals simp

theorem type_ite {c : Prop} [Decidable c] {a b : Token} {P : TokType → Prop} (ha : c → P a.type) (hb : ¬c → P b.type) :
    P (if c then a else b).type := by
  split
  · exact ha ‹_›
  · exact hb ‹_›

/-- EOF is produced only at the real end of the input -/
theorem baseNextToken_eof_only_at_end (nl : Bool) (cs : List Bytes) (s : LS)
    (h : (baseNextToken nl cs s).1.type = .eof) : s.rest = [] := by
  revert h
  unfold baseNextToken
  simp only [apply_ite Prod.fst]
  repeat' (first
    | (apply type_ite (P := fun t => t = TokType.eof → s.rest = []) <;> intro _)
    | (intro h; simp only [mkTok] at h; first | cases h | (split at h <;> cases h) | skip))
  · rename_i h; simpa using h
  · rename_i h; exact absurd h (lookupIdent_ne_eof _)
  · rename_i h
    rcases scanNumber_type s.rest with h1 | h1 <;> simp [h1] at h

theorem nextToken_reach (s : LS) : Reach s (nextToken s).2 := by
  unfold nextToken
  dsimp only
  obtain ⟨n, hn⟩ := baseNextToken_reach (trivia s.rest).nl (trivia s.rest).comments (readChars (trivia s.rest).len s)
  exact ⟨(trivia s.rest).len + n, by rw [hn, readChars_add]⟩

/-- every token other than EOF consumes at least one byte -/
theorem nextToken_progress (s : LS) (h : (nextToken s).1.type ≠ .eof) :
    (nextToken s).2.rest.length < s.rest.length := by
  unfold nextToken at h ⊢
  dsimp only at h ⊢
  generalize hs1 : readChars (trivia s.rest).len s = s1 at h ⊢
  have hle : s1.rest.length ≤ s.rest.length := reach_rest_le ⟨_, hs1.symm⟩
  by_cases hne : s1.rest = []
  · rw [baseNextToken_at_end _ _ _ hne] at h
    exact absurd rfl h
  · obtain ⟨n, hn1, hn⟩ := baseNextToken_progress (trivia s.rest).nl (trivia s.rest).comments s1 hne
    rw [hn]
    exact Nat.lt_of_lt_of_le (readChars_shorter n s1 hn1 hne) hle

/-- at the end of the input `NextToken` returns EOF at the end position and does not move -/
theorem nextToken_at_end (s : LS) (h : s.rest = []) :
    nextToken s = (mkTok .eof [] s s false [], s) := by
  unfold nextToken
  dsimp only
  have ht : trivia s.rest = { nl := false, comments := [], len := 0 } := by rw [h]; rfl
  rw [ht]
  exact baseNextToken_at_end _ _ _ h

/-! ## the token list -/

/-- `lexGo` instrumented with the cursor offsets before (after trivia) and after each token -/
def lexGoO : Nat → LS → List (Token × Nat × Nat)
  | 0, _ => []
  | fuel + 1, s =>
    let s1 := readChars (trivia s.rest).len s
    let r := nextToken s
    if r.1.type == .eof then [(r.1, s1.off, r.2.off)] else (r.1, s1.off, r.2.off) :: lexGoO fuel r.2

theorem lexGoO_tokens (fuel : Nat) (s : LS) : (lexGoO fuel s).map (·.1) = lexGo fuel s := by
  induction fuel generalizing s with
  | zero => rfl
  | succ fuel ih =>
    simp only [lexGoO, lexGo]
    split <;> simp_all

end Xjs
