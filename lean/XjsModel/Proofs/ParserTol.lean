import XjsModel.Proofs.ParserLen
/-
  Tolerant vs strict mode (C13 a): definitions and primitive lemmas.
-/
namespace Xjs

def PCfg.strict (cfg : PCfg) : PCfg := { cfg with tolerant := false }
def PCfg.tol (cfg : PCfg) : PCfg := { cfg with tolerant := true }

@[simp] theorem strict_stmtI (cfg : PCfg) : cfg.strict.stmtI = cfg.stmtI := rfl
@[simp] theorem strict_exprI (cfg : PCfg) : cfg.strict.exprI = cfg.exprI := rfl
@[simp] theorem strict_tolerant (cfg : PCfg) : cfg.strict.tolerant = false := rfl
@[simp] theorem strict_smart (cfg : PCfg) : cfg.strict.smart = cfg.smart := rfl
@[simp] theorem strict_precs (cfg : PCfg) : cfg.strict.precs = cfg.precs := rfl
@[simp] theorem strict_prefixFns (cfg : PCfg) : cfg.strict.prefixFns = cfg.prefixFns := rfl
@[simp] theorem strict_infixFns (cfg : PCfg) : cfg.strict.infixFns = cfg.infixFns := rfl
@[simp] theorem tol_stmtI (cfg : PCfg) : cfg.tol.stmtI = cfg.stmtI := rfl
@[simp] theorem tol_exprI (cfg : PCfg) : cfg.tol.exprI = cfg.exprI := rfl
@[simp] theorem tol_tolerant (cfg : PCfg) : cfg.tol.tolerant = true := rfl
@[simp] theorem tol_smart (cfg : PCfg) : cfg.tol.smart = cfg.smart := rfl
@[simp] theorem tol_precs (cfg : PCfg) : cfg.tol.precs = cfg.precs := rfl
@[simp] theorem tol_prefixFns (cfg : PCfg) : cfg.tol.prefixFns = cfg.prefixFns := rfl
@[simp] theorem tol_infixFns (cfg : PCfg) : cfg.tol.infixFns = cfg.infixFns := rfl
@[simp] theorem tol_peekPrecedence (cfg : PCfg) (st : PS) : peekPrecedence cfg.tol st = peekPrecedence cfg.strict st := rfl
@[simp] theorem tol_curPrecedence (cfg : PCfg) (st : PS) : curPrecedence cfg.tol st = curPrecedence cfg.strict st := rfl

theorem tol_lt_peekPrec (cfg : PCfg) (st : PS) (prec : Nat) :
    decide (prec < peekPrecedence cfg.tol st) = decide (prec < peekPrecedence cfg.strict st) := rfl

/-- where strict mode accepts the statement end, tolerant mode does exactly the same -/
theorem tol_expectSemi_of_ok (cfg : PCfg) (st : PS) (h : (expectSemiASI cfg.strict st).1 = true) :
    expectSemiASI cfg.tol st = expectSemiASI cfg.strict st := by
  unfold expectSemiASI at h ⊢
  by_cases h1 : (st.peek.type == .semicolon) = true
  · simp [h1]
  · by_cases h2 : shouldInsertSemicolon st = true
    · simp [h1, h2]
    · simp [h1, h2] at h

/-- where strict mode refuses, it records an error -/
theorem strict_expectSemi_err (cfg : PCfg) (st : PS) (h : (expectSemiASI cfg.strict st).1 = false) :
    semiErr cfg.strict st = 1 := semiErr_of_false h

/-- `parseFunctionParameters` does not depend on the mode -/
theorem tol_parseFunctionParameters (st : PS) (x : List Ident) (st' : PS) (h : parseFunctionParameters st = some (x, st')) :
    st.elen ≤ st'.elen ∧ (parseFunctionParameters st = some (x, st') ∨ st.elen < st'.elen) :=
  ⟨elen_parseFunctionParameters h, Or.inl h⟩

end Xjs
