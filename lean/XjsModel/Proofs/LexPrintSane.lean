import XjsModel.Proofs.LexPrintTok
/-
  Tokens that come out of the lexer are lexically sane as far as spelling goes: an operator, delimiter or keyword token
  carries the fixed spelling of its type, an identifier token is an identifier. (For trees that come out of the parser
  only the number / string / backtick literals need a hypothesis in the print → lex theorem.)
-/
namespace Xjs.LP
open Xjs

theorem ite_P {c : Prop} [Decidable c] {α} {a b : α} {P : α → Prop} (ha : c → P a) (hb : ¬c → P b) : P (if c then a else b) := by
  split
  · exact ha ‹_›
  · exact hb ‹_›

theorem canon_lookupIdent (lit : Bytes) (h : canon (lookupIdent lit) ≠ []) : lit = canon (lookupIdent lit) := by
  by_cases hi : lookupIdent lit = .ident
  · rw [hi] at h; exact absurd rfl h
  · obtain ⟨kv, hm, h1, h2⟩ := (Tiling.keyword_iff lit (lookupIdent lit) hi).1 rfl
    rw [← h2, ← h1]
    revert hm
    simp only [keywordTable, List.mem_cons, List.not_mem_nil, or_false]
    rintro (h | h | h | h | h | h | h | h | h | h) <;> subst h <;> rfl

/-- FIXED SPELLING: a token of a type that has a fixed spelling carries that spelling -/
theorem lexed_fixed_spelling (nl : Bool) (cs : List Bytes) (s : LS) :
    canon (baseNextToken nl cs s).1.type ≠ [] → (baseNextToken nl cs s).1.lit = canon (baseNextToken nl cs s).1.type := by
  unfold baseNextToken
  simp only []
  repeat' (first
    | (apply ite_P (P := fun r : Token × LS => canon r.1.type ≠ [] → r.1.lit = canon r.1.type) <;> intro _)
    | (intro h; simp only [mkTok] at h ⊢; first
        | exact absurd rfl h
        | (split at h <;> exact absurd rfl h)
        | exact canon_lookupIdent _ h
        | (exfalso; rcases scanNumber_type s.rest with e | e <;> rw [e] at h <;> exact h rfl)
        | (simp_all [canon, byteAsRuneString, encodeUTF8, toByte]; done)))

theorem take_takeWhile_length (p : Nat → Bool) : ∀ (l : Bytes), l.take (l.takeWhile p).length = l.takeWhile p
  | [] => rfl
  | x :: l => by
    by_cases h : p x = true
    · simp [List.takeWhile_cons, h, take_takeWhile_length p l]
    · simp [List.takeWhile_cons, h]

/-- IDENTIFIERS: a token of type IDENT is a letter followed by letters and digits, and no keyword -/
theorem lexed_ident_ok (nl : Bool) (cs : List Bytes) (s : LS) :
    (baseNextToken nl cs s).1.type = .ident → identOk (baseNextToken nl cs s).1.lit = true := by
  by_cases hl : isLetter s.cur = true
  · rw [base_letter nl cs s hl]
    simp only [mkTok]
    intro h
    have hne : s.rest ≠ [] := by
      intro e; rw [cur_eq, e] at hl; exact absurd hl (by decide)
    obtain ⟨r, hr⟩ := cur_rest s hne
    have hlit : s.rest.take (identLen s.rest) = s.rest.takeWhile isWordByte := take_takeWhile_length isWordByte s.rest
    rw [hlit] at h ⊢
    have htw : s.rest.takeWhile isWordByte = s.cur :: r.takeWhile isWordByte := by
      rw [hr, List.takeWhile_cons]; simp [isWordByte, hl]
    unfold identOk
    rw [htw] at h ⊢
    simp only [Bool.and_eq_true, beq_iff_eq, List.all_eq_true]
    refine ⟨⟨hl, ?_⟩, h⟩
    intro x hx
    rw [← htw] at hx
    exact (List.all_eq_true.1 (List.all_takeWhile (p := isWordByte) (l := s.rest))) x hx
  · unfold baseNextToken
    simp only []
    repeat' (first
      | (apply ite_P (P := fun r : Token × LS => r.1.type = .ident → identOk r.1.lit = true) <;> intro _)
      | (intro h; simp only [mkTok] at h; first
          | exact absurd h (by decide)
          | (split at h <;> exact absurd h (by decide))
          | exact absurd ‹isLetter s.cur = true› hl
          | (exfalso; rcases scanNumber_type s.rest with e | e <;> rw [e] at h <;> exact absurd h (by decide))))

/-- the same for whole token requests -/
theorem nextToken_sane (s : LS) :
    (canon (nextToken s).1.type ≠ [] → (nextToken s).1.lit = canon (nextToken s).1.type) ∧
    ((nextToken s).1.type = .ident → identOk (nextToken s).1.lit = true) := by
  unfold nextToken
  exact ⟨lexed_fixed_spelling _ _ _, lexed_ident_ok _ _ _⟩

end Xjs.LP
