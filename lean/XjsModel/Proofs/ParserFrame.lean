import XjsModel.Proofs.ParserSteps
/-
  The frame pass: every function of the parser's mutual block satisfies `Steps st r.2`
  (one pass with the partial-correctness principle of the fixed-point definition).
-/
namespace Xjs

set_option maxHeartbeats 1600000 in
attribute [local irreducible] PS.pop PS.push PS.addError PS.addErrorAt PS.next in
theorem steps_mutual (cfg : PCfg) :
    (∀ is st r, parseStatementI cfg is st = some r → StepsM st r.2) ∧
    (∀ st r, baseParseStatement cfg st = some r → StepsM st r.2) ∧
    (∀ st r, parseExpressionStatement cfg st = some r → StepsM st r.2) ∧
    (∀ is prec st r, parseExpressionI cfg is prec st = some r → StepsM st r.2) ∧
    (∀ left prec st r, parseRemaining cfg left prec st = some r → StepsM st r.2) ∧
    (∀ left st r, parseInfixExpression cfg left st = some r → StepsM st r.2) ∧
    (∀ endTy st r, parseExpressionList cfg endTy st = some r → StepsM st r.2) ∧
    (∀ acc st r, exprListLoop cfg acc st = some r → StepsM st r.2) ∧
    (∀ st r, parsePrefixExpression cfg st = some r → StepsM st r.2) ∧
    (∀ st r, parseFunctionExpression cfg st = some r → StepsM st r.2) ∧
    (∀ st r, parseBlockStatement cfg st = some r → StepsM st r.2) ∧
    (∀ acc st r, blockLoop cfg acc st = some r → StepsM st r.2) ∧
    (∀ st r, parseObjectLiteral cfg st = some r → StepsM st r.2) ∧
    (∀ acc st r, objectLoop cfg acc st = some r → StepsM st r.2) ∧
    (∀ st r, parseForStatement cfg st = some r → StepsM st r.2) ∧
    (∀ st r, parseForInit cfg st = some r → StepsM st r.2) ∧
    (∀ st r, parseLetExpression cfg st = some r → StepsM st r.2) ∧
    (∀ st r, parseWhileStatement cfg st = some r → StepsM st r.2) ∧
    (∀ st r, parseIfStatement cfg st = some r → StepsM st r.2) ∧
    (∀ st r, parseReturnStatement cfg st = some r → StepsM st r.2) ∧
    (∀ st r, parseFunctionStatement cfg st = some r → StepsM st r.2) ∧
    (∀ st r, parseLetStatement cfg st = some r → StepsM st r.2) := by
  refine parseStatementI.mutual_partial_correctness cfg
    (fun _ st r => StepsM st r.2)
    (fun st r => StepsM st r.2)
    (fun st r => StepsM st r.2)
    (fun _ _ st r => StepsM st r.2)
    (fun _ _ st r => StepsM st r.2)
    (fun _ st r => StepsM st r.2)
    (fun _ st r => StepsM st r.2)
    (fun _ st r => StepsM st r.2)
    (fun st r => StepsM st r.2)
    (fun st r => StepsM st r.2)
    (fun st r => StepsM st r.2)
    (fun _ st r => StepsM st r.2)
    (fun st r => StepsM st r.2)
    (fun _ st r => StepsM st r.2)
    (fun st r => StepsM st r.2)
    (fun st r => StepsM st r.2)
    (fun st r => StepsM st r.2)
    (fun st r => StepsM st r.2)
    (fun st r => StepsM st r.2)
    (fun st r => StepsM st r.2)
    (fun st r => StepsM st r.2)
    (fun st r => StepsM st r.2)
    ?_ ?_ ?_ ?_ ?_ ?_ ?_ ?_ ?_ ?_ ?_ ?_ ?_ ?_ ?_ ?_ ?_ ?_ ?_ ?_ ?_ ?_
  · -- parseStatementI
    intro pS bS ih_pS ih_bS is st r h s0 hs
    replace ih_pS := curry2 ih_pS; replace ih_bS := curry1 ih_bS
    dsimp only [StepsM] at ih_pS ih_bS
    pdecomp h
    · steps_chain [ih_pS, ih_bS]
    · apply ih_pS; assumption
      exact .trace _ _ hs
  · -- baseParseStatement
    intro f1 f2 f3 f4 f5 f6 f7 f8 ih_f1 ih_f2 ih_f3 ih_f4 ih_f5 ih_f6 ih_f7 ih_f8  st r h s0 hs
    replace ih_f1 := curry1 ih_f1; replace ih_f2 := curry1 ih_f2; replace ih_f3 := curry1 ih_f3; replace ih_f4 := curry1 ih_f4; replace ih_f5 := curry1 ih_f5; replace ih_f6 := curry1 ih_f6; replace ih_f7 := curry1 ih_f7; replace ih_f8 := curry1 ih_f8
    dsimp only [StepsM] at ih_f1 ih_f2 ih_f3 ih_f4 ih_f5 ih_f6 ih_f7 ih_f8
    obtain ⟨x, st'⟩ := r
    split at h
    all_goals steps_chain [ih_f1, ih_f2, ih_f3, ih_f4, ih_f5, ih_f6, ih_f7, ih_f8]
  · -- parseExpressionStatement
    intro pE ih_pE  st r h s0 hs
    replace ih_pE := curry3 ih_pE
    dsimp only [StepsM] at ih_pE
    pdecomp h
    all_goals steps_chain [ih_pE]
  · -- parseExpressionI
    intro pE pR pP ih_pE ih_pR ih_pP is prec st r h s0 hs
    replace ih_pE := curry3 ih_pE; replace ih_pR := curry3 ih_pR; replace ih_pP := curry1 ih_pP
    dsimp only [StepsM] at ih_pE ih_pR ih_pP
    pdecomp h
    · steps_chain [ih_pE, ih_pR, ih_pP]
    · apply steps_prec hs; steps_chain0 [ih_pE, ih_pR, ih_pP]
    · apply steps_prec hs; steps_chain0 [ih_pE, ih_pR, ih_pP]
  · -- parseRemaining
    intro pR pI ih_pR ih_pI left prec st r h s0 hs
    replace ih_pR := curry3 ih_pR; replace ih_pI := curry2 ih_pI
    dsimp only [StepsM] at ih_pR ih_pI
    pdecomp h
    all_goals steps_chain [ih_pR, ih_pI]
  · -- parseInfixExpression
    intro pE pL ih_pE ih_pL left st r h s0 hs
    replace ih_pE := curry3 ih_pE; replace ih_pL := curry2 ih_pL
    dsimp only [StepsM] at ih_pE ih_pL
    pdecomp h
    all_goals steps_chain [ih_pE, ih_pL]
  · -- parseExpressionList
    intro pE eL ih_pE ih_eL endTy st r h s0 hs
    replace ih_pE := curry3 ih_pE; replace ih_eL := curry2 ih_eL
    dsimp only [StepsM] at ih_pE ih_eL
    pdecomp h
    all_goals steps_chain [ih_pE, ih_eL]
  · -- exprListLoop
    intro pE eL ih_pE ih_eL acc st r h s0 hs
    replace ih_pE := curry3 ih_pE; replace ih_eL := curry2 ih_eL
    dsimp only [StepsM] at ih_pE ih_eL
    pdecomp h
    all_goals steps_chain [ih_pE, ih_eL]
  · -- parsePrefixExpression
    intro pE pL pFE pO ih_pE ih_pL ih_pFE ih_pO  st r h s0 hs
    replace ih_pE := curry3 ih_pE; replace ih_pL := curry2 ih_pL; replace ih_pFE := curry1 ih_pFE; replace ih_pO := curry1 ih_pO
    dsimp only [StepsM] at ih_pE ih_pL ih_pFE ih_pO
    obtain ⟨x, st'⟩ := r
    pdecomp h
    all_goals steps_chain [ih_pE, ih_pL, ih_pFE, ih_pO]
  · -- parseFunctionExpression
    intro pB ih_pB  st r h s0 hs
    replace ih_pB := curry1 ih_pB
    dsimp only [StepsM] at ih_pB
    pdecomp h
    all_goals first
      | (dsimp only; apply steps_ctx; (case h => steps_chain0 [ih_pB]); (case hs => steps_chain [ih_pB]))
      | steps_chain [ih_pB]
  · -- parseBlockStatement
    intro bL ih_bL  st r h s0 hs
    replace ih_bL := curry2 ih_bL
    dsimp only [StepsM] at ih_bL
    pdecomp h
    all_goals first
      | (dsimp only; apply steps_ctx; (case h => steps_chain0 [ih_bL]); (case hs => steps_chain [ih_bL]))
      | steps_chain [ih_bL]
  · -- blockLoop
    intro pS bL ih_pS ih_bL acc st r h s0 hs
    replace ih_pS := curry2 ih_pS; replace ih_bL := curry2 ih_bL
    dsimp only [StepsM] at ih_pS ih_bL
    pdecomp h
    all_goals steps_chain [ih_pS, ih_bL]
  · -- parseObjectLiteral
    intro oL ih_oL  st r h s0 hs
    replace ih_oL := curry2 ih_oL
    dsimp only [StepsM] at ih_oL
    pdecomp h
    all_goals steps_chain [ih_oL]
  · -- objectLoop
    intro pE oL ih_pE ih_oL acc st r h s0 hs
    replace ih_pE := curry3 ih_pE; replace ih_oL := curry2 ih_oL
    dsimp only [StepsM] at ih_pE ih_oL
    pdecomp h
    all_goals steps_chain [ih_pE, ih_oL]
  · -- parseForStatement
    intro pS pE pFI ih_pS ih_pE ih_pFI  st r h s0 hs
    replace ih_pS := curry2 ih_pS; replace ih_pE := curry3 ih_pE; replace ih_pFI := curry1 ih_pFI
    dsimp only [StepsM] at ih_pS ih_pE ih_pFI
    pdecomp h
    all_goals steps_chain [ih_pS, ih_pE, ih_pFI]
  · -- parseForInit
    intro pE pLE ih_pE ih_pLE  st r h s0 hs
    replace ih_pE := curry3 ih_pE; replace ih_pLE := curry1 ih_pLE
    dsimp only [StepsM] at ih_pE ih_pLE
    pdecomp h
    all_goals steps_chain [ih_pE, ih_pLE]
  · -- parseLetExpression
    intro pE ih_pE  st r h s0 hs
    replace ih_pE := curry3 ih_pE
    dsimp only [StepsM] at ih_pE
    pdecomp h
    all_goals steps_chain [ih_pE]
  · -- parseWhileStatement
    intro pS pE ih_pS ih_pE  st r h s0 hs
    replace ih_pS := curry2 ih_pS; replace ih_pE := curry3 ih_pE
    dsimp only [StepsM] at ih_pS ih_pE
    pdecomp h
    all_goals steps_chain [ih_pS, ih_pE]
  · -- parseIfStatement
    intro pS pE ih_pS ih_pE  st r h s0 hs
    replace ih_pS := curry2 ih_pS; replace ih_pE := curry3 ih_pE
    dsimp only [StepsM] at ih_pS ih_pE
    pdecomp h
    all_goals steps_chain [ih_pS, ih_pE]
  · -- parseReturnStatement
    intro pE ih_pE  st r h s0 hs
    replace ih_pE := curry3 ih_pE
    dsimp only [StepsM] at ih_pE
    pdecomp h
    all_goals steps_chain [ih_pE]
  · -- parseFunctionStatement
    intro pB ih_pB  st r h s0 hs
    replace ih_pB := curry1 ih_pB
    dsimp only [StepsM] at ih_pB
    pdecomp h
    all_goals first
      | (dsimp only; apply steps_ctx; (case h => steps_chain0 [ih_pB]); (case hs => steps_chain [ih_pB]))
      | steps_chain [ih_pB]
  · -- parseLetStatement
    intro pE ih_pE  st r h s0 hs
    replace ih_pE := curry3 ih_pE
    dsimp only [StepsM] at ih_pE
    pdecomp h
    all_goals steps_chain [ih_pE]


/-! ## the statement loop of `ParseProgram` and the whole parse -/

theorem steps_parseStatementI (cfg : PCfg) (is : List SI) (st : PS) (r : Stmt × PS)
    (h : parseStatementI cfg is st = some r) : Steps st r.2 :=
  (steps_mutual cfg).1 is st r h st (.refl _)

theorem steps_parseExpressionI (cfg : PCfg) (is : List EI) (prec : Nat) (st : PS) (r : Expr × PS)
    (h : parseExpressionI cfg is prec st = some r) : Steps st r.2 :=
  (steps_mutual cfg).2.2.2.1 is prec st r h st (.refl _)

theorem steps_programLoop (cfg : PCfg) (acc : StmtList) (st : PS) (r : StmtList × PS)
    (h : programLoop cfg acc st = some r) : Steps st r.2 := by
  refine programLoop.partial_correctness cfg (fun _ st r => Steps st r.2) ?_ acc st r h
  intro f ih acc st r h
  split at h
  · obtain ⟨⟨s, st1⟩, h1, h2⟩ := bind_some h
    have a1 := steps_parseStatementI cfg _ _ _ h1
    exact Steps.trans (Steps.next a1) (ih _ _ _ h2)
  · cases h; exact .refl _

theorem steps_parseProgram (cfg : PCfg) (toks : List Token) (r : ParseResult)
    (h : parseProgram cfg toks = some r) : Steps (PS.init toks) r.final := by
  unfold parseProgram at h
  obtain ⟨⟨stmts, st⟩, h1, h2⟩ := bind_some h
  cases h2
  exact steps_programLoop cfg _ _ _ h1

/-! ## frame properties: each is an induction over `Steps` -/

theorem PS.next_ctx (s : PS) : s.next.ctx = s.ctx := by unfold PS.next; split <;> rfl
theorem PS.next_errors (s : PS) : s.next.errors = s.errors := by unfold PS.next; split <;> rfl
theorem PS.next_curPrec (s : PS) : s.next.curPrec = s.curPrec := by unfold PS.next; split <;> rfl
theorem PS.next_trace (s : PS) : s.next.trace = s.trace := by unfold PS.next; split <;> rfl
theorem PS.next_toks_length (s : PS) : s.next.toks.length ≤ s.toks.length := by
  unfold PS.next; split <;> simp_all

/-- context balance: every parse function returns with the context stack it was entered with -/
theorem Steps.ctx_eq {s s' : PS} (h : Steps s s') : s'.ctx = s.ctx := by
  induction h with
  | refl => rfl
  | next _ ih => rw [PS.next_ctx, ih]
  | addErr _ _ _ _ ih => exact ih
  | trace _ _ _ ih => exact ih
  | ctxBracket c _ _ ih1 ih2 =>
    simp only [PS.pop, PS.push] at *
    rw [ih2, List.tail_cons, ih1]
  | precBracket _ _ _ _ ih1 ih2 => simp only at *; rw [ih2, ih1]

/-- the error list only grows -/
theorem Steps.errors_prefix {s s' : PS} (h : Steps s s') : s.errors <+: s'.errors := by
  induction h with
  | refl => exact List.prefix_refl _
  | next _ ih => rw [PS.next_errors]; exact ih
  | addErr _ _ _ _ ih => exact List.IsPrefix.trans ih (List.prefix_append _ _)
  | trace _ _ _ ih => exact ih
  | ctxBracket c _ _ ih1 ih2 => exact List.IsPrefix.trans ih1 ih2
  | precBracket _ _ _ _ ih1 ih2 => exact List.IsPrefix.trans ih1 ih2

/-- the interceptor trace only grows -/
theorem Steps.trace_prefix {s s' : PS} (h : Steps s s') : s.trace <+: s'.trace := by
  induction h with
  | refl => exact List.prefix_refl _
  | next _ ih => rw [PS.next_trace]; exact ih
  | addErr _ _ _ _ ih => exact ih
  | trace _ _ _ ih => exact List.IsPrefix.trans ih (List.prefix_append _ _)
  | ctxBracket c _ _ ih1 ih2 => exact List.IsPrefix.trans ih1 ih2
  | precBracket _ _ _ _ ih1 ih2 =>
    exact List.IsPrefix.trans ih1 (List.IsPrefix.trans (List.prefix_append _ _) ih2)

/-- `currentExpressionPrecedence` is restored by every parse function -/
theorem Steps.curPrec_eq {s s' : PS} (h : Steps s s') : s'.curPrec = s.curPrec := by
  induction h with
  | refl => rfl
  | next _ ih => rw [PS.next_curPrec, ih]
  | addErr _ _ _ _ ih => exact ih
  | trace _ _ _ ih => exact ih
  | ctxBracket c _ _ ih1 ih2 => simp only [PS.pop, PS.push] at *; rw [ih2, ih1]
  | precBracket _ _ _ _ ih1 _ => exact ih1

/-- the token buffer never grows: the cursor never moves backwards -/
theorem Steps.toks_length {s s' : PS} (h : Steps s s') : s'.toks.length ≤ s.toks.length := by
  induction h with
  | refl => exact Nat.le_refl _
  | next _ ih => exact Nat.le_trans (PS.next_toks_length _) ih
  | addErr _ _ _ _ ih => exact ih
  | trace _ _ _ ih => exact ih
  | ctxBracket c _ _ ih1 ih2 => simp only [PS.pop, PS.push] at *; exact Nat.le_trans ih2 ih1
  | precBracket _ _ _ _ ih1 ih2 => simp only at *; exact Nat.le_trans ih2 ih1

/-! ### what interceptors observe -/

/-- an event reports the context stack of the moment it was recorded -/
def Event.Faithful (ev : Event) : Prop :=
  ev.inFunction = ev.stack.contains .function ∧ ev.ctx = ev.stack.headD .global ∧ ev.depth = ev.stack.length

theorem PS.event_faithful (s : PS) (b : Bool) (id : Nat) : (s.event b id).Faithful := ⟨rfl, rfl, rfl⟩

/-- every event recorded during a sub-parse is faithful and its context stack extends the stack the
    sub-parse was entered with: an interceptor never sees a stack shallower than, or different below, its caller's -/
theorem Steps.events {s s' : PS} (h : Steps s s') :
    ∃ new, s'.trace = s.trace ++ new ∧ ∀ ev ∈ new, ev.Faithful ∧ s.ctx <:+ ev.stack := by
  induction h with
  | refl => exact ⟨[], by simp, by simp⟩
  | next _ ih =>
    obtain ⟨new, h1, h2⟩ := ih
    exact ⟨new, by rw [PS.next_trace, h1], h2⟩
  | addErr _ _ _ _ ih => exact ih
  | @trace s s1 b id h ih =>
    obtain ⟨new, h1, h2⟩ := ih
    refine ⟨new ++ [s1.event b id], by simp only [h1, List.append_assoc], ?_⟩
    intro ev hev
    simp only [List.mem_append, List.mem_singleton] at hev
    rcases hev with hev | hev
    · exact h2 ev hev
    · subst hev
      refine ⟨PS.event_faithful _ _ _, ?_⟩
      show s.ctx <:+ s1.ctx
      rw [h.ctx_eq]; exact List.suffix_refl _
  | @ctxBracket s s1 s2 c h1 _ ih1 ih2 =>
    obtain ⟨n1, a1, b1⟩ := ih1
    obtain ⟨n2, a2, b2⟩ := ih2
    refine ⟨n1 ++ n2, ?_, ?_⟩
    · simp only [PS.pop, PS.push] at *; rw [a2, a1, List.append_assoc]
    · intro ev hev
      simp only [List.mem_append] at hev
      rcases hev with hev | hev
      · exact b1 ev hev
      · refine ⟨(b2 ev hev).1, ?_⟩
        have := (b2 ev hev).2
        simp only [PS.push] at this
        rw [← h1.ctx_eq]
        exact List.IsSuffix.trans (List.suffix_cons _ _) this
  | @precBracket s s1 s2 p id h1 _ ih1 ih2 =>
    obtain ⟨n1, a1, b1⟩ := ih1
    obtain ⟨n2, a2, b2⟩ := ih2
    refine ⟨n1 ++ [s1.event true id] ++ n2, ?_, ?_⟩
    · simp only at *; rw [a2, a1]; simp only [List.append_assoc]
    · intro ev hev
      simp only [List.mem_append, List.mem_singleton] at hev
      rcases hev with (hev | hev) | hev
      · exact b1 ev hev
      · subst hev
        refine ⟨PS.event_faithful _ _ _, ?_⟩
        show s.ctx <:+ s1.ctx
        rw [h1.ctx_eq]; exact List.suffix_refl _
      · refine ⟨(b2 ev hev).1, ?_⟩
        have := (b2 ev hev).2
        simp only at this
        rw [← h1.ctx_eq]; exact this

/-! ### error ranges are token ranges -/

def Token.range (t : Token) : Nat × Nat × Nat × Nat := (t.sl, t.sc, t.el, t.ec)
def PErr.range (e : PErr) : Nat × Nat × Nat × Nat := (e.sl, e.sc, e.el, e.ec)

/-- the ranges of the tokens still in the buffer of `s'` are ranges of tokens of `L`, and every error of `s'`
    is an error of `E` or lies on the range of a token of `L` -/
structure RangesIn (L : List Token) (E : List PErr) (s' : PS) : Prop where
  nonempty : s'.toks ≠ []
  toks : ∀ t ∈ s'.toks, ∃ t0 ∈ L, t.range = t0.range
  errs : ∀ e ∈ s'.errors, e ∈ E ∨ ∃ t0 ∈ L, e.range = t0.range

theorem RangesIn.cur {L E s'} (h : RangesIn L E s') : ∃ t0 ∈ L, s'.cur.range = t0.range := by
  have hn := h.nonempty
  unfold PS.cur
  cases hs : s'.toks with
  | nil => exact absurd hs hn
  | cons a as => exact h.toks a (by rw [hs]; exact List.mem_cons_self)

theorem RangesIn.peek {L E s'} (h : RangesIn L E s') : ∃ t0 ∈ L, s'.peek.range = t0.range := by
  have hn := h.nonempty
  unfold PS.peek
  split
  · rename_i a b c heq; exact h.toks b (by rw [heq]; simp)
  · rename_i a heq
    obtain ⟨t0, h0, h1⟩ := h.toks a (by rw [heq]; simp)
    exact ⟨t0, h0, by rw [← h1]; rfl⟩
  · rename_i heq; exact absurd heq hn

theorem RangesIn.next {L E s'} (h : RangesIn L E s') : RangesIn L E s'.next := by
  have hn := h.nonempty
  unfold PS.next
  split
  · rename_i a b c heq
    refine ⟨by simp, ?_, h.errs⟩
    intro t ht
    exact h.toks t (by rw [heq]; exact List.mem_cons_of_mem _ ht)
  · rename_i a heq
    refine ⟨by simp, ?_, h.errs⟩
    intro t ht
    simp only [List.mem_singleton] at ht
    obtain ⟨t0, h0, h1⟩ := h.toks a (by rw [heq]; simp)
    exact ⟨t0, h0, by rw [ht, ← h1]; rfl⟩
  · rename_i heq; exact absurd heq hn

theorem Steps.ranges {s s' : PS} (h : Steps s s') (L : List Token) (E : List PErr) (h0 : RangesIn L E s) :
    RangesIn L E s' := by
  induction h with
  | refl => exact h0
  | next _ ih => exact (ih h0).next
  | addErr msg t ht _ ih =>
    have i := ih h0
    refine ⟨i.nonempty, i.toks, ?_⟩
    intro e he
    simp only [PS.addErrorAt, List.mem_append, List.mem_singleton] at he
    rcases he with he | he
    · exact i.errs e he
    · right
      rcases ht with ht | ht
      · obtain ⟨t0, a, b⟩ := i.cur; exact ⟨t0, a, by rw [he, ht, ← b]; rfl⟩
      · obtain ⟨t0, a, b⟩ := i.peek; exact ⟨t0, a, by rw [he, ht, ← b]; rfl⟩
  | trace _ _ _ ih => exact ⟨(ih h0).nonempty, (ih h0).toks, (ih h0).errs⟩
  | ctxBracket c _ _ ih1 ih2 =>
    have i1 := ih1 h0
    have i2 := ih2 ⟨i1.nonempty, i1.toks, i1.errs⟩
    exact ⟨i2.nonempty, i2.toks, i2.errs⟩
  | precBracket _ _ _ _ ih1 ih2 =>
    have i1 := ih1 h0
    have i2 := ih2 ⟨i1.nonempty, i1.toks, i1.errs⟩
    exact ⟨i2.nonempty, i2.toks, i2.errs⟩

end Xjs
