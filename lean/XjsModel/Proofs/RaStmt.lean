import XjsModel.Proofs.RaCases
/-
  Round trip, statements: definitions of the invariants, blocks, and one lemma per statement kind.
-/
namespace Xjs.RA
open Xjs

variable {cfg : PCfg} {tol sm : Bool}

def _root_.Xjs.StmtList.app : StmtList → StmtList → StmtList
  | .nil, b => b
  | .cons e t, b => .cons e (t.app b)

theorem StmtList.snoc_app : ∀ (a : StmtList) (e : Stmt) (b : StmtList), (a.snoc e).app b = a.app (.cons e b)
  | .nil, _, _ => rfl
  | .cons x t, e, b => by simp [StmtList.snoc, StmtList.app, StmtList.snoc_app t e b]

theorem StmtList.app_nil : ∀ (a : StmtList), a.app .nil = a
  | .nil => rfl
  | .cons x t => by simp [StmtList.app, StmtList.app_nil t]

def _root_.Xjs.PropList.app : PropList → PropList → PropList
  | .nil, b => b
  | .cons k v t, b => .cons k v (t.app b)

theorem PropList.snoc_app : ∀ (a : PropList) (k v : Expr) (b : PropList), (a.snoc k v).app b = a.app (.cons k v b)
  | .nil, _, _, _ => rfl
  | .cons x y t, k, v, b => by simp [PropList.snoc, PropList.app, PropList.snoc_app t k v b]

theorem PropList.app_nil : ∀ (a : PropList), a.app .nil = a
  | .nil => rfl
  | .cons x y t => by simp [PropList.app, PropList.app_nil t]

theorem tree_not_none (s : SS) : s.tree.isNone = false := by cases s <;> rfl

/-- the statement-level invariant: a statement's tokens, followed by a token that may follow it (`followOk`: no `else`
    behind an open `if`; behind an expression that no `;` closes, a token at which a semicolon is inserted and that cannot
    continue the expression), parse back to the statement; the cursor stops on its last token -/
def StmtMain (cfg : PCfg) (tol sm : Bool) (s : SS) : Prop :=
  ∀ (st : PS) (rest : List Token), rest ≠ [] → st.toks = s.toks ++ rest → followOk tol sm s (rest.headD semiT) = true →
    parseStatementI cfg cfg.stmtI st = some (s.tree, nextK (s.toks.length - 1) st)

/-- the statement loop of a block (and of the program): up to a closing brace or the end of input -/
def BlockInv (cfg : PCfg) (ss : SSList) (closer : Token) : Prop :=
  ∀ (acc : StmtList) (st : PS) (rest : List Token), (closer.type = .rbrace ∨ closer.type = .eof) →
    st.toks = ss.toks ++ closer :: rest →
    blockLoop cfg acc st = some (acc.app ss.tree, nextK ss.toks.length st)

theorem prefix_types (ty : TokType) (h : (lookup basePrefixFns ty).isSome = true) :
    ty ≠ .rbrace ∧ ty ≠ .eof ∧ ty ≠ .else_ ∧ ty ≠ .semicolon ∧ ty ≠ .rparen ∧ ty ≠ .let_ ∧ ty ≠ .return_ ∧ ty ≠ .if_ ∧
    ty ≠ .while_ ∧ ty ≠ .for_ := by
  refine ⟨?_, ?_, ?_, ?_, ?_, ?_, ?_, ?_, ?_, ?_⟩ <;> (intro e; rw [e] at h; revert h; decide)

theorem stmt_toks_ne_nil (s : SS) : s.toks ≠ [] := by
  cases s <;> simp [SS.toks] <;> exact fun h => absurd h (toks_ne_nil _)

/-- a statement starts with a token that is neither `}` nor end-of-input nor `else` -/
theorem head_stmt (s : SS) (hw : s.wf = true) :
    ∃ t ts, s.toks = t :: ts ∧ t.type ≠ .rbrace ∧ t.type ≠ .eof ∧ t.type ≠ .else_ := by
  cases s with
  | exprS e semi =>
    have hw' : (e.wf && (e.toks.headD lpT).type != .lbrace && (e.toks.headD lpT).type != .function) = true := by
      simpa [SS.wf] using hw
    simp only [Bool.and_eq_true] at hw'
    obtain ⟨t, ts, h1, h2⟩ := head_prefix e hw'.1.1
    have := prefix_types t.type h2
    exact ⟨t, ts ++ semiToks semi, by simp [SS.toks, h1], this.1, this.2.1, this.2.2.1⟩
  | letS t name v semi =>
    have hw' : (t.type == .let_ && isIdentTok name && v.wf) = true := by simpa [SS.wf] using hw
    simp only [Bool.and_eq_true, beq_iff_eq] at hw'
    exact ⟨t, _, rfl, by rw [hw'.1.1]; decide, by rw [hw'.1.1]; decide, by rw [hw'.1.1]; decide⟩
  | letN t name =>
    have hw' : (t.type == .let_ && isIdentTok name) = true := by simpa [SS.wf] using hw
    simp only [Bool.and_eq_true, beq_iff_eq] at hw'
    exact ⟨t, _, rfl, by rw [hw'.1]; decide, by rw [hw'.1]; decide, by rw [hw'.1]; decide⟩
  | ret t v semi =>
    have hw' : (t.type == .return_ && v.wf && !(v.toks.headD lpT).nl) = true := by simpa [SS.wf] using hw
    simp only [Bool.and_eq_true, beq_iff_eq] at hw'
    exact ⟨t, _, rfl, by rw [hw'.1.1]; decide, by rw [hw'.1.1]; decide, by rw [hw'.1.1]; decide⟩
  | retN t =>
    have hw' : (t.type == .return_) = true := by simpa [SS.wf] using hw
    simp only [beq_iff_eq] at hw'
    exact ⟨t, _, rfl, by rw [hw']; decide, by rw [hw']; decide, by rw [hw']; decide⟩
  | ifS t c thn =>
    have hw' : (t.type == .if_ && c.wf && thn.wf) = true := by simpa [SS.wf] using hw
    simp only [Bool.and_eq_true, beq_iff_eq] at hw'
    exact ⟨t, _, rfl, by rw [hw'.1.1]; decide, by rw [hw'.1.1]; decide, by rw [hw'.1.1]; decide⟩
  | ifElse t c thn el els =>
    have hw' : (t.type == .if_ && c.wf && thn.wf && !thn.openIf && els.wf && el.type == .else_) = true := by simpa [SS.wf] using hw
    simp only [Bool.and_eq_true, beq_iff_eq] at hw'
    exact ⟨t, _, rfl, by rw [hw'.1.1.1.1.1]; decide, by rw [hw'.1.1.1.1.1]; decide, by rw [hw'.1.1.1.1.1]; decide⟩
  | whileS t c body =>
    have hw' : (t.type == .while_ && c.wf && body.wf) = true := by simpa [SS.wf] using hw
    simp only [Bool.and_eq_true, beq_iff_eq] at hw'
    exact ⟨t, _, rfl, by rw [hw'.1.1]; decide, by rw [hw'.1.1]; decide, by rw [hw'.1.1]; decide⟩
  | forS t init cond upd body =>
    have hw' : (t.type == .for_ && init.wf && cond.wf && upd.wf && body.wf) = true := by simpa [SS.wf] using hw
    simp only [Bool.and_eq_true, beq_iff_eq] at hw'
    exact ⟨t, _, rfl, by rw [hw'.1.1.1.1]; decide, by rw [hw'.1.1.1.1]; decide, by rw [hw'.1.1.1.1]; decide⟩
  | block body => exact ⟨lbrT, _, rfl, by decide, by decide, by decide⟩
  | funcD t name params body =>
    have hw' : (t.type == .function && isIdentTok name && params.all isIdentTok && body.wf) = true := by simpa [SS.wf] using hw
    simp only [Bool.and_eq_true, beq_iff_eq] at hw'
    exact ⟨t, _, rfl, by rw [hw'.1.1.1]; decide, by rw [hw'.1.1.1]; decide, by rw [hw'.1.1.1]; decide⟩

/-! ### blocks -/

theorem block_nil (closer : Token) : BlockInv cfg .nil closer := by
  intro acc st rest hcl ht
  have ht' : st.toks = closer :: rest := by simpa [SSList.toks] using ht
  rw [blockLoop]
  have : (st.cur.type != TokType.rbrace && st.cur.type != TokType.eof) = false := by
    rw [cur_of_toks ht']; rcases hcl with h | h <;> simp [h]
  simp [this, SSList.tree, SSList.toks, nextK, StmtList.app_nil]

theorem head_append (A : List Token) (c : Token) (rest : List Token) (d : Token) :
    (A ++ c :: rest).headD d = (A ++ [c]).headD c := by
  cases A <;> rfl

theorem block_cons (s : SS) (ss : SSList) (closer : Token) (hw : s.wf = true)
    (hfo : followOk tol sm s ((ss.toks ++ [closer]).headD closer) = true)
    (ihs : StmtMain cfg tol sm s) (ihl : BlockInv cfg ss closer) : BlockInv cfg (.cons s ss) closer := by
  intro acc st rest hcl ht
  obtain ⟨t, ts, h1, h2, h3, _⟩ := head_stmt s hw
  have ht' : st.toks = s.toks ++ (ss.toks ++ closer :: rest) := by rw [ht]; simp [SSList.toks]
  have hcur : st.cur = t := by rw [h1] at ht'; exact cur_of_toks (by simpa using ht')
  rw [blockLoop]
  have hgo : (st.cur.type != TokType.rbrace && st.cur.type != TokType.eof) = true := by
    rw [hcur]; simp [h2, h3]
  simp only [hgo, if_true]
  rw [ihs st (ss.toks ++ closer :: rest) (by simp) ht' (by rw [head_append]; exact hfo)]
  simp only [Option.bind_eq_bind, Option.bind_some, tree_not_none, Bool.false_eq_true, if_false]
  have hnext : (nextK (s.toks.length - 1) st).next = nextK s.toks.length st := by
    have : s.toks.length ≥ 1 := by rw [h1]; simp
    rw [← nextK_succ']; congr 1; omega
  rw [hnext]
  have htoks : (nextK s.toks.length st).toks = ss.toks ++ closer :: rest := by
    obtain ⟨a, as, has⟩ := List.exists_cons_of_ne_nil (show ss.toks ++ closer :: rest ≠ [] by simp)
    rw [has]; exact toks_nextK s.toks a as st (by rw [ht', has])
  rw [ihl (acc.snoc s.tree) _ rest hcl htoks, StmtList.snoc_app]
  congr 2
  simp only [SSList.toks, List.length_append]
  rw [nextK_add]

/-- `ParseBlockStatement` from the `{` to the `}` -/
theorem block_rt (body : SSList) (ih : BlockInv cfg body rbrT) (st : PS) (rest : List Token)
    (ht : st.toks = lbrT :: (body.toks ++ rbrT :: rest)) :
    parseBlockStatement cfg st = some (.block lbrT body.tree rbrT, nextK (body.toks.length + 1) st) := by
  rw [parseBlockStatement]
  have hcur : st.cur = lbrT := cur_of_toks ht
  obtain ⟨a, as, has⟩ := List.exists_cons_of_ne_nil (show body.toks ++ rbrT :: rest ≠ [] by simp)
  have hn : ((st.push .block).next).toks = body.toks ++ rbrT :: rest := by
    rw [next_push]; show st.next.toks = _
    rw [has]; exact next_toks_cons (by rw [ht, has])
  rw [ih .nil _ rest (Or.inl rfl) hn]
  simp only [Option.bind_eq_bind, Option.bind_some]
  have hend : (nextK body.toks.length ((st.push .block).next)).toks = rbrT :: rest :=
    toks_nextK body.toks rbrT rest _ hn
  have hc2 : (nextK body.toks.length ((st.push .block).next)).cur = rbrT := cur_of_toks hend
  have hne : ((nextK body.toks.length ((st.push .block).next)).cur.type != TokType.rbrace && !cfg.tolerant) = false := by
    rw [hc2]; rfl
  simp only [hne, Bool.false_eq_true, if_false]
  rw [hc2, hcur]
  simp only [StmtList.app]
  congr 2
  rw [next_push, nextK_push, pop_push]
  rw [show body.toks.length + 1 = 1 + body.toks.length by omega, nextK_add]
  rfl

/-! ### state arithmetic: every state is `nextK n st` -/

theorem next_eq (s : PS) : s.next = nextK 1 s := rfl
theorem nextK_nextK (a b : Nat) (s : PS) : nextK a (nextK b s) = nextK (b + a) s := (nextK_add b a s).symm

/-- the state after `pre` has been read -/
theorem toks_at (pre post : List Token) (st : PS) (h : st.toks = pre ++ post) (hp : post ≠ []) :
    (nextK pre.length st).toks = post := by
  obtain ⟨a, as, has⟩ := List.exists_cons_of_ne_nil hp
  rw [has]; exact toks_nextK pre a as st (by rw [h, has])

theorem semi_stops (q : Nat) (rest : List Token) : stops cfg q (semiT :: rest) := Or.inl rfl
theorem rparen_stops (hc : BaseCfg cfg) (q : Nat) (hq : 1 ≤ q) (rest : List Token) : stops cfg q (rpT :: rest) := by
  apply stops_prec; show precOf cfg .rparen ≤ q; rw [precOf_rparen hc]; exact hq

/-- an expression in a statement position (parsed at the lowest level), followed by `;` or `)` -/
theorem expr_then (hc : BaseCfg cfg) (e : SE) (hw : e.wf = true) (ih : Main cfg e) (st : PS) (closer : Token) (rest : List Token)
    (hcl : closer = semiT ∨ closer = rpT) (ht : st.toks = e.toks ++ closer :: rest) :
    parseExpressionI cfg cfg.exprI LOWEST st = some (e.tree, nextK (e.toks.length - 1) st) ∧
    ∃ last, (nextK (e.toks.length - 1) st).toks = last :: closer :: rest := by
  have hstop : ∀ q, 1 ≤ q → stops cfg q (closer :: rest) := by
    intro q hq
    rcases hcl with rfl | rfl
    · exact semi_stops q rest
    · exact rparen_stops hc q hq rest
  rw [hc.exprI]
  refine ⟨eval_of_main e ih LOWEST st (closer :: rest) (by simp) ht (fits_lowest e hw) (hstop _ (rbl_ge_one e hw))
    (hstop _ (by decide)), ?_⟩
  obtain ⟨last, hl, _⟩ := toks_after e.toks (toks_ne_nil e) (closer :: rest) st ht
  exact ⟨last, hl⟩

theorem base_default (st : PS) (h1 : st.cur.type ≠ .let_) (h2 : st.cur.type ≠ .function) (h3 : st.cur.type ≠ .return_)
    (h4 : st.cur.type ≠ .if_) (h5 : st.cur.type ≠ .while_) (h6 : st.cur.type ≠ .for_) (h7 : st.cur.type ≠ .lbrace) :
    baseParseStatement cfg st = parseExpressionStatement cfg st := by
  rw [baseParseStatement.eq_def]
  split <;> first | rfl | (rename_i h; exact absurd h ‹_›)

theorem stopsB_stops (hc : BaseCfg cfg) (hsm : sm = true → cfg.smart = true) (f : Token) (rest : List Token)
    (h : stopsB sm f = true) (q : Nat) (hq : 1 ≤ q) : stops cfg q (f :: rest) := by
  unfold stopsB at h
  simp only [Bool.or_eq_true, decide_eq_true_eq, Bool.and_eq_true, beq_iff_eq] at h
  rcases h with (h | h) | h
  · exact stops_prec (by rw [precOf_base hc]; exact Nat.le_trans h hq)
  · exact Or.inr (Or.inr (Or.inl h))
  · exact Or.inr (Or.inr (Or.inr ⟨hsm h.1.1, h.1.2, h.2⟩))

/-- `ExpectSemicolonASI` in front of a token at which a semicolon is inserted: nothing is consumed -/
theorem asi_ok (htol : tol = true → cfg.tolerant = true) {st : PS} {f : Token} (hp : st.peek = f) (h : asiOk tol f = true) :
    expectSemiASI cfg st = (true, st) := by
  unfold asiOk at h
  simp only [Bool.and_eq_true, bne_iff_ne, ne_eq, Bool.or_eq_true, beq_iff_eq] at h
  obtain ⟨hs, h⟩ := h
  unfold expectSemiASI shouldInsertSemicolon
  have h0 : (st.peek.type == TokType.semicolon) = false := by rw [hp]; simpa using hs
  simp only [h0, Bool.false_eq_true, if_false]
  by_cases he : st.peek.type = .eof
  · simp [he]
  · by_cases hb : st.peek.type = .rbrace
    · simp [hb]
    · have he' : (st.peek.type == TokType.eof) = false := by simpa using he
      have hb' : (st.peek.type == TokType.rbrace) = false := by simpa using hb
      simp only [he', hb', Bool.false_eq_true, if_false]
      rw [hp] at he hb ⊢
      rcases h with ((h | h) | h) | h
      · exact absurd h he
      · exact absurd h hb
      · have : (asiContinuation.contains f.type) = false := by
          unfold asiContinuation; simpa using h.2
        have hmem : ¬ f.type ∈ asiContinuation := by simpa using this
        simp [h.1, hmem]
      · by_cases hn : f.nl = true
        · by_cases hm : (asiContinuation.contains f.type) = true
          · simp [hn, hm, htol h]
          · have hmem : ¬ f.type ∈ asiContinuation := by simpa using hm
            simp [hn, hmem]
        · simp [hn, htol h]

/-- the end of a statement whose last part is the expression `e`: closed by `;`, or followed by a token at which a
    semicolon is inserted and which cannot continue the expression -/
theorem expr_end (hc : BaseCfg cfg) (htol : tol = true → cfg.tolerant = true) (hsm : sm = true → cfg.smart = true) (e : SE) (hw : e.wf = true) (ih : Main cfg e)
    (semi : Bool) (st : PS) (rest : List Token) (hr : rest ≠ []) (ht : st.toks = e.toks ++ (semiToks semi ++ rest))
    (hf : semi = false → asiOk tol (rest.headD semiT) = true ∧ stopsB sm (rest.headD semiT) = true) :
    parseExpressionI cfg cfg.exprI LOWEST st = some (e.tree, nextK (e.toks.length - 1) st) ∧
    expectSemiASI cfg (nextK (e.toks.length - 1) st) = (true, nextK ((e.toks ++ semiToks semi).length - 1) st) := by
  obtain ⟨r0, rs, hrs⟩ := List.exists_cons_of_ne_nil hr
  have hlen : e.toks.length ≥ 1 := by
    cases h : e.toks with | nil => exact absurd h (toks_ne_nil e) | cons _ _ => simp
  cases semi with
  | true =>
    have ht' : st.toks = e.toks ++ semiT :: rest := by simpa [semiToks] using ht
    obtain ⟨he, last, hl⟩ := expr_then hc e hw ih st semiT rest (Or.inl rfl) ht'
    refine ⟨he, ?_⟩
    rw [hrs] at hl
    rw [semi_ok (by rw [peek_of_toks hl]; rfl)]
    congr 1
    simp only [next_eq, nextK_nextK, semiToks, if_true, List.length_append, List.length_cons, List.length_nil]
    congr 1; omega
  | false =>
    have ht' : st.toks = e.toks ++ r0 :: rs := by simpa [semiToks, hrs] using ht
    obtain ⟨h1, h2⟩ := hf rfl
    rw [hrs] at h1 h2
    simp only [List.headD_cons] at h1 h2
    have hstop : ∀ q, 1 ≤ q → stops cfg q (r0 :: rs) := fun q hq => stopsB_stops hc hsm r0 rs h2 q hq
    obtain ⟨last, hl, _⟩ := toks_after e.toks (toks_ne_nil e) (r0 :: rs) st ht'
    have hev := eval_of_main e ih LOWEST st (r0 :: rs) (by simp) ht' (fits_lowest e hw)
      (hstop _ (rbl_ge_one e hw)) (hstop _ (by decide))
    refine ⟨by rw [hc.exprI]; exact hev, ?_⟩
    have hpk : (nextK (e.toks.length - 1) st).peek = r0 := peek_of_toks hl
    rw [asi_ok htol hpk h1]
    simp [semiToks]

theorem case_exprS (hc : BaseCfg cfg) (htol : tol = true → cfg.tolerant = true) (hsm : sm = true → cfg.smart = true) (e : SE) (semi : Bool)
    (hw : (SS.exprS e semi).wf = true) (ih : Main cfg e) : StmtMain cfg tol sm (.exprS e semi) := by
  intro st rest hr ht hfo
  have hw' : (e.wf && (e.toks.headD lpT).type != .lbrace && (e.toks.headD lpT).type != .function) = true := by
    simpa [SS.wf] using hw
  simp only [Bool.and_eq_true, bne_iff_ne, ne_eq] at hw'
  obtain ⟨⟨hwe, hlb⟩, hfn⟩ := hw'
  obtain ⟨t, ts, h1, h2⟩ := head_prefix e hwe
  have hpt := prefix_types t.type h2
  have ht' : st.toks = e.toks ++ (semiToks semi ++ rest) := by rw [ht]; simp [SS.toks]
  have hcur : st.cur = t := by rw [h1] at ht'; exact cur_of_toks (by simpa using ht')
  rw [h1] at hlb hfn
  simp only [List.headD_cons] at hlb hfn
  have hf : semi = false → asiOk tol (rest.headD semiT) = true ∧ stopsB sm (rest.headD semiT) = true := by
    intro hs; subst hs
    simpa [followOk, SS.openIf, SS.open] using hfo
  obtain ⟨e1, e2⟩ := expr_end hc htol hsm e hwe ih semi st rest hr ht' hf
  rw [stmtI_nil hc, base_default st (by rw [hcur]; exact hpt.2.2.2.2.2.1) (by rw [hcur]; exact hfn)
    (by rw [hcur]; exact hpt.2.2.2.2.2.2.1) (by rw [hcur]; exact hpt.2.2.2.2.2.2.2.1) (by rw [hcur]; exact hpt.2.2.2.2.2.2.2.2.1)
    (by rw [hcur]; exact hpt.2.2.2.2.2.2.2.2.2) (by rw [hcur]; exact hlb), parseExpressionStatement, e1]
  simp only [Option.bind_eq_bind, Option.bind_some, e2, Bool.not_true, Bool.false_eq_true, if_false]
  rfl

theorem base_let (st : PS) (h : st.cur.type = .let_) : baseParseStatement cfg st = parseLetStatement cfg st := by
  rw [baseParseStatement.eq_def, h]
theorem base_function (st : PS) (h : st.cur.type = .function) : baseParseStatement cfg st = parseFunctionStatement cfg st := by
  rw [baseParseStatement.eq_def, h]
theorem base_return (st : PS) (h : st.cur.type = .return_) : baseParseStatement cfg st = parseReturnStatement cfg st := by
  rw [baseParseStatement.eq_def, h]
theorem base_if (st : PS) (h : st.cur.type = .if_) : baseParseStatement cfg st = parseIfStatement cfg st := by
  rw [baseParseStatement.eq_def, h]
theorem base_while (st : PS) (h : st.cur.type = .while_) : baseParseStatement cfg st = parseWhileStatement cfg st := by
  rw [baseParseStatement.eq_def, h]
theorem base_for (st : PS) (h : st.cur.type = .for_) : baseParseStatement cfg st = parseForStatement cfg st := by
  rw [baseParseStatement.eq_def, h]
theorem base_block (st : PS) (h : st.cur.type = .lbrace) : baseParseStatement cfg st = parseBlockStatement cfg st := by
  rw [baseParseStatement.eq_def, h]

theorem case_letS (hc : BaseCfg cfg) (htol : tol = true → cfg.tolerant = true) (hsm : sm = true → cfg.smart = true) (t name : Token) (v : SE) (semi : Bool)
    (hw : (SS.letS t name v semi).wf = true) (ih : Main cfg v) : StmtMain cfg tol sm (.letS t name v semi) := by
  intro st rest hr ht hfo
  have hw' : (t.type == .let_ && isIdentTok name && v.wf) = true := by simpa [SS.wf] using hw
  simp only [Bool.and_eq_true, beq_iff_eq, isIdentTok] at hw'
  obtain ⟨⟨hty, hname⟩, hwv⟩ := hw'
  obtain ⟨a, as, has⟩ := List.exists_cons_of_ne_nil (toks_ne_nil v)
  have ht0 : st.toks = t :: name :: assignT :: (a :: (as ++ (semiToks semi ++ rest))) := by rw [ht]; simp [SS.toks, has]
  have hcur : st.cur = t := cur_of_toks ht0
  have h1 : st.next.toks = name :: assignT :: (a :: (as ++ (semiToks semi ++ rest))) := next_toks_cons ht0
  have h3 : st.next.next.next.toks = v.toks ++ (semiToks semi ++ rest) := by
    rw [next_toks_cons (next_toks_cons h1), has]; simp
  have hf : semi = false → asiOk tol (rest.headD semiT) = true ∧ stopsB sm (rest.headD semiT) = true := by
    intro hs; subst hs
    simpa [followOk, SS.openIf, SS.open] using hfo
  obtain ⟨e1, e2⟩ := expr_end hc htol hsm v hwv ih semi _ rest hr h3 hf
  rw [stmtI_nil hc, base_let st (by rw [hcur]; exact hty), parseLetStatement,
    expect_ok (show st.peek.type = .ident by rw [peek_of_toks ht0]; exact hname)]
  have hpk : (st.next.peek.type == TokType.assign) = true := by rw [peek_of_toks h1]; rfl
  simp only [Bool.not_true, Bool.false_eq_true, if_false, hpk, if_true, e1, Option.bind_eq_bind, Option.bind_some, e2, hcur]
  have hn : identOfCur st.next = identOf name := by unfold identOfCur identOf; rw [cur_of_toks h1]
  rw [hn]
  congr 2
  have : v.toks.length ≥ 1 := by rw [has]; simp
  simp only [next_eq, nextK_nextK, SS.toks, List.length_append, List.length_cons]
  congr 1; omega

theorem case_letN (hc : BaseCfg cfg) (t name : Token) (hw : (SS.letN t name).wf = true) : StmtMain cfg tol sm (.letN t name) := by
  intro st rest hr ht _
  have hw' : (t.type == .let_ && isIdentTok name) = true := by simpa [SS.wf] using hw
  simp only [Bool.and_eq_true, beq_iff_eq, isIdentTok] at hw'
  obtain ⟨hty, hname⟩ := hw'
  have ht0 : st.toks = t :: name :: semiT :: rest := by rw [ht]; simp [SS.toks]
  have hcur : st.cur = t := cur_of_toks ht0
  have h1 : st.next.toks = name :: semiT :: rest := next_toks_cons ht0
  rw [stmtI_nil hc, base_let st (by rw [hcur]; exact hty), parseLetStatement,
    expect_ok (show st.peek.type = .ident by rw [peek_of_toks ht0]; exact hname)]
  have hpk : (st.next.peek.type == TokType.assign) = false := by rw [peek_of_toks h1]; rfl
  simp only [Bool.not_true, Bool.false_eq_true, if_false, hpk]
  rw [semi_ok (by rw [peek_of_toks h1]; rfl)]
  simp only [Bool.not_true, Bool.false_eq_true, if_false, hcur]
  have hn : identOfCur st.next = identOf name := by unfold identOfCur identOf; rw [cur_of_toks h1]
  rw [hn]
  rfl

theorem case_ret (hc : BaseCfg cfg) (htol : tol = true → cfg.tolerant = true) (hsm : sm = true → cfg.smart = true) (t : Token) (v : SE) (semi : Bool)
    (hw : (SS.ret t v semi).wf = true) (ih : Main cfg v) : StmtMain cfg tol sm (.ret t v semi) := by
  intro st rest hr ht hfo
  have hw' : (t.type == .return_ && v.wf && !(v.toks.headD lpT).nl) = true := by simpa [SS.wf] using hw
  simp only [Bool.and_eq_true, beq_iff_eq, Bool.not_eq_true'] at hw'
  obtain ⟨⟨hty, hwv⟩, hnl⟩ := hw'
  obtain ⟨a, as, has, hpre⟩ := head_prefix v hwv
  have hpt := prefix_types a.type hpre
  have ht0 : st.toks = t :: (a :: (as ++ (semiToks semi ++ rest))) := by rw [ht]; simp [SS.toks, has]
  have hcur : st.cur = t := cur_of_toks ht0
  have h1 : st.next.toks = v.toks ++ (semiToks semi ++ rest) := by rw [next_toks_cons ht0, has]; simp
  have hf : semi = false → asiOk tol (rest.headD semiT) = true ∧ stopsB sm (rest.headD semiT) = true := by
    intro hs; subst hs
    simpa [followOk, SS.openIf, SS.open] using hfo
  obtain ⟨e1, e2⟩ := expr_end hc htol hsm v hwv ih semi _ rest hr h1 hf
  have hnl' : a.nl = false := by rw [has] at hnl; simpa using hnl
  have hgo : (st.peek.type != TokType.semicolon && st.peek.type != TokType.eof && st.peek.type != TokType.rbrace && !st.peek.nl) = true := by
    rw [peek_of_toks ht0]; simp [hpt.1, hpt.2.1, hpt.2.2.2.1, hnl']
  rw [stmtI_nil hc, base_return st (by rw [hcur]; exact hty), parseReturnStatement]
  simp only [hgo, if_true, e1, Option.bind_eq_bind, Option.bind_some, e2, Bool.not_true, Bool.false_eq_true, if_false, hcur]
  congr 2
  have : v.toks.length ≥ 1 := by rw [has]; simp
  simp only [next_eq, nextK_nextK, SS.toks, List.length_append, List.length_cons]
  congr 1; omega

theorem case_retN (hc : BaseCfg cfg) (t : Token) (hw : (SS.retN t).wf = true) : StmtMain cfg tol sm (.retN t) := by
  intro st rest hr ht _
  have hty : t.type = .return_ := by simpa [SS.wf] using hw
  have ht0 : st.toks = t :: semiT :: rest := by rw [ht]; simp [SS.toks]
  have hcur : st.cur = t := cur_of_toks ht0
  have hgo : (st.peek.type != TokType.semicolon && st.peek.type != TokType.eof && st.peek.type != TokType.rbrace && !st.peek.nl) = false := by
    rw [peek_of_toks ht0]; rfl
  rw [stmtI_nil hc, base_return st (by rw [hcur]; exact hty), parseReturnStatement]
  simp only [hgo, Bool.false_eq_true, if_false]
  rw [semi_ok (by rw [peek_of_toks ht0]; rfl)]
  simp only [Bool.not_true, Bool.false_eq_true, if_false, hcur]
  rfl

theorem follow_ifS {t : Token} {c : SE} {thn : SS} {f : Token} (h : followOk tol sm (.ifS t c thn) f = true) :
    followOk tol sm thn f = true ∧ f.type ≠ .else_ := by
  unfold followOk at h ⊢
  simp only [SS.openIf, SS.open, Bool.not_true, Bool.false_or, Bool.and_eq_true, bne_iff_ne, ne_eq] at h
  refine ⟨?_, h.1⟩
  simp only [Bool.and_eq_true, Bool.or_eq_true, bne_iff_ne, ne_eq]
  exact ⟨Or.inr h.1, by simpa using h.2⟩

/-- the common head `kw ( cond )` of `if` and `while` -/
theorem cond_head (hc : BaseCfg cfg) (c : SE) (hwc : c.wf = true) (ihc : Main cfg c) (st : PS) (t : Token) (X : List Token)
    (hX : X ≠ []) (ht : st.toks = t :: lpT :: (c.toks ++ rpT :: X)) :
    expectToken .lparen st = (true, st.next) ∧
    parseExpressionI cfg cfg.exprI LOWEST st.next.next = some (c.tree, nextK (c.toks.length + 1) st) ∧
    expectToken .rparen (nextK (c.toks.length + 1) st) = (true, nextK (c.toks.length + 2) st) ∧
    (nextK (c.toks.length + 3) st).toks = X := by
  obtain ⟨a, as, has⟩ := List.exists_cons_of_ne_nil (toks_ne_nil c)
  have ht0 : st.toks = t :: lpT :: (a :: (as ++ rpT :: X)) := by rw [ht, has]; simp
  have h2 : st.next.next.toks = c.toks ++ rpT :: X := by rw [next_toks_cons (next_toks_cons ht0), has]; simp
  obtain ⟨he, last, hl⟩ := expr_then hc c hwc ihc _ rpT X (Or.inr rfl) h2
  have hlen : c.toks.length ≥ 1 := by rw [has]; simp
  have hS2 : nextK (c.toks.length - 1) st.next.next = nextK (c.toks.length + 1) st := by
    simp only [next_eq, nextK_nextK]; congr 1; omega
  rw [hS2] at he hl
  obtain ⟨x0, xs, hxs⟩ := List.exists_cons_of_ne_nil hX
  refine ⟨expect_ok (by rw [peek_of_toks ht0]; rfl), he, ?_, ?_⟩
  · rw [expect_ok (by rw [hxs] at hl; rw [peek_of_toks hl]; rfl)]
    simp only [next_eq, nextK_nextK]
  · have := toks_at (t :: lpT :: (c.toks ++ [rpT])) X st (by rw [ht]; simp) hX
    simpa [Nat.add_assoc] using this

theorem case_ifS (hc : BaseCfg cfg) (t : Token) (c : SE) (thn : SS) (hw : (SS.ifS t c thn).wf = true)
    (ihc : Main cfg c) (iht : StmtMain cfg tol sm thn) : StmtMain cfg tol sm (.ifS t c thn) := by
  intro st rest hr ht hfo
  obtain ⟨hfo', helse⟩ := follow_ifS hfo
  have hw' : (t.type == .if_ && c.wf && thn.wf) = true := by simpa [SS.wf] using hw
  simp only [Bool.and_eq_true, beq_iff_eq] at hw'
  obtain ⟨⟨hty, hwc⟩, hwt⟩ := hw'
  have ht0 : st.toks = t :: lpT :: (c.toks ++ rpT :: (thn.toks ++ rest)) := by rw [ht]; simp [SS.toks]
  have hcur : st.cur = t := cur_of_toks ht0
  obtain ⟨e1, e2, e3, e4⟩ := cond_head hc c hwc ihc st t (thn.toks ++ rest) (by simp [stmt_toks_ne_nil thn]) ht0
  have e5 := iht (nextK (c.toks.length + 3) st) rest hr e4 hfo'
  obtain ⟨lastT, hlT, _⟩ := toks_after thn.toks (stmt_toks_ne_nil thn) rest _ e4
  obtain ⟨r0, rs, hrs⟩ := List.exists_cons_of_ne_nil hr
  have hpk : ((nextK (thn.toks.length - 1) (nextK (c.toks.length + 3) st)).peek.type == TokType.else_) = false := by
    rw [hrs] at hlT helse; rw [peek_of_toks hlT]; simpa using helse
  rw [stmtI_nil hc, base_if st (by rw [hcur]; exact hty), parseIfStatement, e1]
  simp only [Bool.not_true, Bool.false_eq_true, if_false, e2, Option.bind_eq_bind, Option.bind_some, e3]
  rw [show (nextK (c.toks.length + 2) st).next = nextK (c.toks.length + 3) st by simp only [next_eq, nextK_nextK]]
  rw [e5]
  simp only [Option.bind_some, hpk, Bool.false_eq_true, if_false, hcur]
  congr 2
  have : thn.toks.length ≥ 1 := by
    cases h : thn.toks with | nil => exact absurd h (stmt_toks_ne_nil thn) | cons _ _ => simp
  simp only [nextK_nextK, SS.toks, List.length_append, List.length_cons]
  congr 1; omega

theorem case_ifElse (hc : BaseCfg cfg) (t : Token) (c : SE) (thn : SS) (el : Token) (els : SS)
    (hw : (SS.ifElse t c thn el els).wf = true) (hthn : followOk tol sm thn el = true)
    (ihc : Main cfg c) (iht : StmtMain cfg tol sm thn) (ihe : StmtMain cfg tol sm els) : StmtMain cfg tol sm (.ifElse t c thn el els) := by
  intro st rest hr ht hfo
  have hw' : (t.type == .if_ && c.wf && thn.wf && !thn.openIf && els.wf && el.type == .else_) = true := by simpa [SS.wf] using hw
  simp only [Bool.and_eq_true, beq_iff_eq, Bool.not_eq_true'] at hw'
  obtain ⟨⟨⟨⟨⟨hty, hwc⟩, hwt⟩, hclosed⟩, hwe⟩, hel⟩ := hw'
  have ht0 : st.toks = t :: lpT :: (c.toks ++ rpT :: (thn.toks ++ (el :: (els.toks ++ rest)))) := by
    rw [ht]; simp [SS.toks]
  have hcur : st.cur = t := cur_of_toks ht0
  obtain ⟨e1, e2, e3, e4⟩ := cond_head hc c hwc ihc st t (thn.toks ++ (el :: (els.toks ++ rest)))
    (by simp [stmt_toks_ne_nil thn]) ht0
  have e5 := iht (nextK (c.toks.length + 3) st) (el :: (els.toks ++ rest)) (by simp) e4 hthn
  obtain ⟨lastT, hlT, _⟩ := toks_after thn.toks (stmt_toks_ne_nil thn) (el :: (els.toks ++ rest)) _ e4
  obtain ⟨b, bs, hbs⟩ := List.exists_cons_of_ne_nil (stmt_toks_ne_nil els)
  have hlT' : (nextK (thn.toks.length - 1) (nextK (c.toks.length + 3) st)).toks = lastT :: el :: b :: (bs ++ rest) := by
    rw [hlT, hbs]; simp
  have hpk : ((nextK (thn.toks.length - 1) (nextK (c.toks.length + 3) st)).peek.type == TokType.else_) = true := by
    rw [peek_of_toks hlT', hel]; rfl
  have hels : (nextK (thn.toks.length - 1) (nextK (c.toks.length + 3) st)).next.next.toks = els.toks ++ rest := by
    rw [next_toks_cons (next_toks_cons hlT'), hbs]; simp
  have e6 := ihe _ rest hr hels hfo
  rw [stmtI_nil hc, base_if st (by rw [hcur]; exact hty), parseIfStatement, e1]
  simp only [Bool.not_true, Bool.false_eq_true, if_false, e2, Option.bind_eq_bind, Option.bind_some, e3]
  rw [show (nextK (c.toks.length + 2) st).next = nextK (c.toks.length + 3) st by simp only [next_eq, nextK_nextK]]
  rw [e5]
  simp only [Option.bind_some, hpk, if_true, e6, hcur]
  congr 2
  have : thn.toks.length ≥ 1 := by
    cases h : thn.toks with | nil => exact absurd h (stmt_toks_ne_nil thn) | cons _ _ => simp
  have : els.toks.length ≥ 1 := by rw [hbs]; simp
  simp only [next_eq, nextK_nextK, SS.toks, List.length_append, List.length_cons]
  congr 1; omega

theorem case_whileS (hc : BaseCfg cfg) (t : Token) (c : SE) (body : SS) (hw : (SS.whileS t c body).wf = true)
    (ihc : Main cfg c) (ihb : StmtMain cfg tol sm body) : StmtMain cfg tol sm (.whileS t c body) := by
  intro st rest hr ht hfo
  have hw' : (t.type == .while_ && c.wf && body.wf) = true := by simpa [SS.wf] using hw
  simp only [Bool.and_eq_true, beq_iff_eq] at hw'
  obtain ⟨⟨hty, hwc⟩, hwb⟩ := hw'
  have ht0 : st.toks = t :: lpT :: (c.toks ++ rpT :: (body.toks ++ rest)) := by rw [ht]; simp [SS.toks]
  have hcur : st.cur = t := cur_of_toks ht0
  obtain ⟨e1, e2, e3, e4⟩ := cond_head hc c hwc ihc st t (body.toks ++ rest) (by simp [stmt_toks_ne_nil body]) ht0
  have e5 := ihb (nextK (c.toks.length + 3) st) rest hr e4 hfo
  rw [stmtI_nil hc, base_while st (by rw [hcur]; exact hty), parseWhileStatement, e1]
  simp only [Bool.not_true, Bool.false_eq_true, if_false, e2, Option.bind_eq_bind, Option.bind_some, e3]
  rw [show (nextK (c.toks.length + 2) st).next = nextK (c.toks.length + 3) st by simp only [next_eq, nextK_nextK]]
  rw [e5]
  simp only [Option.bind_some, hcur]
  congr 2
  have : body.toks.length ≥ 1 := by
    cases h : body.toks with | nil => exact absurd h (stmt_toks_ne_nil body) | cons _ _ => simp
  simp only [nextK_nextK, SS.toks, List.length_append, List.length_cons]
  congr 1; omega

theorem case_block (hc : BaseCfg cfg) (body : SSList) (ih : BlockInv cfg body rbrT) : StmtMain cfg tol sm (.block body) := by
  intro st rest hr ht _
  have ht0 : st.toks = lbrT :: (body.toks ++ rbrT :: rest) := by rw [ht]; simp [SS.toks]
  have hcur : st.cur = lbrT := cur_of_toks ht0
  rw [stmtI_nil hc, base_block st (by rw [hcur]; rfl), block_rt body ih st rest ht0]
  congr 2
  simp [SS.toks]

/-- the common tail `( params ) { body }` of function declarations and function expressions; `st0` stands on the
    token before the `(` -/
theorem func_tail (ps : List Token) (body : SSList) (hps : ps.all isIdentTok = true) (ih : BlockInv cfg body rbrT)
    (st0 : PS) (x : Token) (rest : List Token) (hr : rest ≠ [])
    (ht : st0.toks = x :: lpT :: (paramToks ps ++ rpT :: lbrT :: (body.toks ++ rbrT :: rest))) :
    expectToken .lparen st0 = (true, st0.next) ∧
    parseFunctionParameters st0.next = some (ps.map identOf, nextK ((paramToks ps).length + 2) st0) ∧
    expectToken .lbrace (nextK ((paramToks ps).length + 2) st0) = (true, nextK ((paramToks ps).length + 3) st0) ∧
    parseBlockStatement cfg ((nextK ((paramToks ps).length + 3) st0).push .function) =
      some (.block lbrT body.tree rbrT, (nextK ((paramToks ps).length + 3 + (body.toks.length + 1)) st0).push .function) := by
  have h0 : st0.toks = x :: lpT :: (paramToks ps ++ rpT :: lbrT :: (body.toks ++ rbrT :: rest)) := ht
  have hnx : st0.next.toks = lpT :: (paramToks ps ++ rpT :: (lbrT :: (body.toks ++ rbrT :: rest))) := by
    cases hp : paramToks ps with
    | nil => rw [hp] at h0; exact next_toks_cons (by simpa using h0)
    | cons a as => rw [hp] at h0; exact next_toks_cons (by simpa using h0)
  have e2 := params_rt ps hps st0.next lpT (lbrT :: (body.toks ++ rbrT :: rest)) hnx (by simp)
  have hS : nextK ((paramToks ps).length + 1) st0.next = nextK ((paramToks ps).length + 2) st0 := by
    simp only [next_eq, nextK_nextK]; congr 1; omega
  rw [hS] at e2
  have hrp : (nextK ((paramToks ps).length + 2) st0).toks = rpT :: lbrT :: (body.toks ++ rbrT :: rest) := by
    have := toks_at (x :: lpT :: paramToks ps) (rpT :: lbrT :: (body.toks ++ rbrT :: rest)) st0 (by rw [h0]; simp) (by simp)
    simpa using this
  have hlb : (nextK ((paramToks ps).length + 3) st0).toks = lbrT :: (body.toks ++ rbrT :: rest) := by
    have := toks_at (x :: lpT :: (paramToks ps ++ [rpT])) (lbrT :: (body.toks ++ rbrT :: rest)) st0 (by rw [h0]; simp) (by simp)
    simpa [Nat.add_assoc] using this
  refine ⟨expect_ok (by
      cases hp : paramToks ps with
      | nil => rw [hp] at h0; rw [peek_of_toks (by simpa using h0)]; rfl
      | cons a as => rw [hp] at h0; rw [peek_of_toks (by simpa using h0)]; rfl), e2, ?_, ?_⟩
  · rw [expect_ok (by
      obtain ⟨b, bs, hb⟩ := List.exists_cons_of_ne_nil (show body.toks ++ rbrT :: rest ≠ [] by simp)
      rw [hb] at hrp; rw [peek_of_toks hrp]; rfl)]
    simp only [next_eq, nextK_nextK]
  · rw [block_rt body ih _ rest (show ((nextK ((paramToks ps).length + 3) st0).push .function).toks = _ from hlb)]
    congr 2
    rw [nextK_push, nextK_nextK]

theorem case_funcD (hc : BaseCfg cfg) (t name : Token) (ps : List Token) (body : SSList)
    (hw : (SS.funcD t name ps body).wf = true) (ih : BlockInv cfg body rbrT) : StmtMain cfg tol sm (.funcD t name ps body) := by
  intro st rest hr ht _
  have hw' : (t.type == .function && isIdentTok name && ps.all isIdentTok && body.wf) = true := by simpa [SS.wf] using hw
  simp only [Bool.and_eq_true, beq_iff_eq, isIdentTok] at hw'
  obtain ⟨⟨⟨hty, hname⟩, hps⟩, _⟩ := hw'
  have ht0 : st.toks = t :: name :: lpT :: (paramToks ps ++ rpT :: lbrT :: (body.toks ++ rbrT :: rest)) := by
    rw [ht]; simp [SS.toks]
  have hcur : st.cur = t := cur_of_toks ht0
  have h1 : st.next.toks = name :: lpT :: (paramToks ps ++ rpT :: lbrT :: (body.toks ++ rbrT :: rest)) := next_toks_cons ht0
  obtain ⟨e1, e2, e3, e4⟩ := func_tail ps body (by simpa [isIdentTok] using hps) ih st.next name rest hr h1
  have hn : identOfCur st.next = identOf name := by unfold identOfCur identOf; rw [cur_of_toks h1]
  rw [stmtI_nil hc, base_function st (by rw [hcur]; exact hty), parseFunctionStatement,
    expect_ok (show st.peek.type = .ident by rw [peek_of_toks ht0]; exact hname)]
  simp only [Bool.not_true, Bool.false_eq_true, if_false, e1, e2, Option.bind_eq_bind, Option.bind_some, e3, e4, hcur, hn, pop_push]
  congr 2
  simp only [next_eq, nextK_nextK, SS.toks, List.length_append, List.length_cons, List.length_nil]
  congr 1; omega

/-- function expressions -/
theorem case_func (hc : BaseCfg cfg) (t : Token) (name : Option Token) (ps : List Token) (body : SSList)
    (hw : (SE.func t name ps body).wf = true) (ih : BlockInv cfg body rbrT) : Main cfg (.func t name ps body) := by
  intro p st rest hr ht _ _
  have hw' : (t.type == .function && (optTok name).all isIdentTok && ps.all isIdentTok && body.wf) = true := by
    simpa [SE.wf] using hw
  simp only [Bool.and_eq_true, beq_iff_eq] at hw'
  obtain ⟨⟨⟨hty, hname⟩, hps⟩, _⟩ := hw'
  have hcur : st.cur = t := by
    have : st.toks = t :: (optTok name ++ lpT :: (paramToks ps ++ rpT :: lbrT :: (body.toks ++ rbrT :: rest))) := by
      rw [ht]; simp [SE.toks]
    exact cur_of_toks this
  have hpre : lookup basePrefixFns TokType.function = some .func := by decide
  rw [unfold_expr, parsePrefixExpression, hc.prefixFns, hcur, hty, hpre]
  simp only
  rw [parseFunctionExpression]
  cases name with
  | none =>
    have ht0 : st.toks = t :: lpT :: (paramToks ps ++ rpT :: lbrT :: (body.toks ++ rbrT :: rest)) := by
      rw [ht]; simp [SE.toks, optTok]
    obtain ⟨e1, e2, e3, e4⟩ := func_tail ps body hps ih st t rest hr ht0
    have hpk : (st.peek.type == TokType.ident) = false := by
      cases hp : paramToks ps with
      | nil => rw [hp] at ht0; rw [peek_of_toks (by simpa using ht0)]; rfl
      | cons a as => rw [hp] at ht0; rw [peek_of_toks (by simpa using ht0)]; rfl
    simp only [hpk, Bool.false_eq_true, if_false, e1, Bool.not_true, e2, Option.bind_eq_bind, Option.bind_some, e3, e4,
      pop_push, hcur]
    show parseRemaining cfg (SE.func t none ps body).tree p _ = _
    congr 1
    simp only [SE.toks, optTok, List.nil_append, List.length_append, List.length_cons, List.length_nil]
    congr 1; omega
  | some nm =>
    have hnm : nm.type = .ident := by simpa [optTok, isIdentTok] using hname
    have ht0 : st.toks = t :: nm :: lpT :: (paramToks ps ++ rpT :: lbrT :: (body.toks ++ rbrT :: rest)) := by
      rw [ht]; simp [SE.toks, optTok]
    have h1 : st.next.toks = nm :: lpT :: (paramToks ps ++ rpT :: lbrT :: (body.toks ++ rbrT :: rest)) := next_toks_cons ht0
    obtain ⟨e1, e2, e3, e4⟩ := func_tail ps body hps ih st.next nm rest hr h1
    have hpk : (st.peek.type == TokType.ident) = true := by rw [peek_of_toks ht0, hnm]; rfl
    have hn : identOfCur st.next = identOf nm := by unfold identOfCur identOf; rw [cur_of_toks h1]
    simp only [hpk, if_true, e1, Bool.not_true, Bool.false_eq_true, if_false, e2, Option.bind_eq_bind, Option.bind_some, e3, e4,
      pop_push, hcur, hn]
    show parseRemaining cfg (SE.func t (some nm) ps body).tree p _ = _
    congr 1
    simp only [next_eq, nextK_nextK, SE.toks, optTok, List.length_append, List.length_cons, List.length_nil]
    congr 1; simp; omega

/-! ### `for` -/

def OptMain (cfg : PCfg) : SOpt → Prop
  | .none => True
  | .some e => Main cfg e

def InitMain (cfg : PCfg) : SInit → Prop
  | .none => True
  | .letV _ _ v => Main cfg v
  | .letN _ _ => True
  | .expr e => Main cfg e

/-- an optional clause (condition, update); `S` stands on the token in front of it -/
theorem opt_clause (hc : BaseCfg cfg) (o : SOpt) (hwo : o.wf = true) (iho : OptMain cfg o) (S : PS) (x closer : Token)
    (X : List Token) (hcl : closer = semiT ∨ closer = rpT) (ht : S.toks = x :: (o.toks ++ closer :: X)) :
    (if S.peek.type != closer.type then parseExpressionI cfg cfg.exprI LOWEST S.next else some (Expr.none, S)) =
      some (o.tree, nextK o.toks.length S) ∧
    ∃ last, (nextK o.toks.length S).toks = last :: closer :: X := by
  cases o with
  | none =>
    have ht' : S.toks = x :: closer :: X := by simpa [SOpt.toks] using ht
    have : (S.peek.type != closer.type) = false := by rw [peek_of_toks ht']; simp
    refine ⟨?_, x, by simpa [SOpt.toks, nextK] using ht'⟩
    simp [this, SOpt.tree, SOpt.toks, nextK]
  | some e =>
    have hwe : e.wf = true := by simpa [SOpt.wf] using hwo
    obtain ⟨a, as, has, hpre⟩ := head_prefix e hwe
    have hpt := prefix_types a.type hpre
    have ht' : S.toks = x :: a :: (as ++ closer :: X) := by rw [ht]; simp [SOpt.toks, has]
    have hne : (S.peek.type != closer.type) = true := by
      rw [peek_of_toks ht']
      rcases hcl with rfl | rfl
      · simpa [semiT] using hpt.2.2.2.1
      · simpa [rpT] using hpt.2.2.2.2.1
    have hn : S.next.toks = e.toks ++ closer :: X := by rw [next_toks_cons ht', has]; simp
    obtain ⟨he, last, hl⟩ := expr_then hc e hwe iho S.next closer X hcl hn
    have hlen : e.toks.length ≥ 1 := by rw [has]; simp
    have hS : nextK (e.toks.length - 1) S.next = nextK e.toks.length S := by
      simp only [next_eq, nextK_nextK]; congr 1; omega
    rw [hS] at he hl
    simp only [hne, if_true, SOpt.tree, SOpt.toks]
    exact ⟨he, last, hl⟩

/-- the first clause; `S` stands on the `(` -/
theorem init_clause (hc : BaseCfg cfg) (i : SInit) (hwi : i.wf = true) (ihi : InitMain cfg i) (S : PS) (x : Token)
    (X : List Token) (ht : S.toks = x :: (i.toks ++ semiT :: X)) :
    parseForInit cfg S = some (i.tree, nextK i.toks.length S) ∧
    ∃ last, (nextK i.toks.length S).toks = last :: semiT :: X := by
  rw [parseForInit]
  cases i with
  | none =>
    have ht' : S.toks = x :: semiT :: X := by simpa [SInit.toks] using ht
    have : (S.peek.type != TokType.semicolon) = false := by rw [peek_of_toks ht']; rfl
    refine ⟨?_, x, by simpa [SInit.toks, nextK] using ht'⟩
    simp [this, SInit.tree, SInit.toks, nextK]
  | expr e =>
    have hwe : e.wf = true := by simpa [SInit.wf] using hwi
    obtain ⟨a, as, has, hpre⟩ := head_prefix e hwe
    have hpt := prefix_types a.type hpre
    have ht' : S.toks = x :: a :: (as ++ semiT :: X) := by rw [ht]; simp [SInit.toks, has]
    have hne : (S.peek.type != TokType.semicolon) = true := by rw [peek_of_toks ht']; simpa using hpt.2.2.2.1
    have hn : S.next.toks = e.toks ++ semiT :: X := by rw [next_toks_cons ht', has]; simp
    have hnl : (S.next.cur.type == TokType.let_) = false := by
      rw [has] at hn; rw [cur_of_toks (by simpa using hn)]; simpa using hpt.2.2.2.2.2.1
    obtain ⟨he, last, hl⟩ := expr_then hc e hwe ihi S.next semiT X (Or.inl rfl) hn
    have hlen : e.toks.length ≥ 1 := by rw [has]; simp
    have hS : nextK (e.toks.length - 1) S.next = nextK e.toks.length S := by
      simp only [next_eq, nextK_nextK]; congr 1; omega
    rw [hS] at he hl
    simp only [hne, if_true, hnl, Bool.false_eq_true, if_false, SInit.tree, SInit.toks]
    exact ⟨he, last, hl⟩
  | letN t name =>
    have hw' : (t.type == .let_ && isIdentTok name) = true := by simpa [SInit.wf] using hwi
    simp only [Bool.and_eq_true, beq_iff_eq, isIdentTok] at hw'
    have ht' : S.toks = x :: t :: name :: semiT :: X := by simpa [SInit.toks] using ht
    have hne : (S.peek.type != TokType.semicolon) = true := by rw [peek_of_toks ht', hw'.1]; rfl
    have h1 : S.next.toks = t :: name :: semiT :: X := next_toks_cons ht'
    have h2 : S.next.next.toks = name :: semiT :: X := next_toks_cons h1
    have hl : (S.next.cur.type == TokType.let_) = true := by rw [cur_of_toks h1, hw'.1]; rfl
    have hpk : (S.next.next.peek.type == TokType.assign) = false := by rw [peek_of_toks h2]; rfl
    have hn : identOfCur S.next.next = identOf name := by unfold identOfCur identOf; rw [cur_of_toks h2]
    simp only [hne, if_true, hl, SInit.tree, SInit.toks]
    rw [parseLetExpression, expect_ok (show S.next.peek.type = .ident by rw [peek_of_toks h1]; exact hw'.2)]
    simp only [Bool.not_true, Bool.false_eq_true, if_false, hpk, hn, cur_of_toks h1]
    exact ⟨rfl, name, h2⟩
  | letV t name v =>
    have hw' : (t.type == .let_ && isIdentTok name && v.wf) = true := by simpa [SInit.wf] using hwi
    simp only [Bool.and_eq_true, beq_iff_eq, isIdentTok] at hw'
    obtain ⟨⟨hty, hname⟩, hwv⟩ := hw'
    obtain ⟨a, as, has⟩ := List.exists_cons_of_ne_nil (toks_ne_nil v)
    have ht' : S.toks = x :: t :: name :: assignT :: (a :: (as ++ semiT :: X)) := by rw [ht]; simp [SInit.toks, has]
    have hne : (S.peek.type != TokType.semicolon) = true := by rw [peek_of_toks ht', hty]; rfl
    have h1 : S.next.toks = t :: name :: assignT :: (a :: (as ++ semiT :: X)) := next_toks_cons ht'
    have h2 : S.next.next.toks = name :: assignT :: (a :: (as ++ semiT :: X)) := next_toks_cons h1
    have h4 : S.next.next.next.next.toks = v.toks ++ semiT :: X := by
      rw [next_toks_cons (next_toks_cons h2), has]; simp
    have hl : (S.next.cur.type == TokType.let_) = true := by rw [cur_of_toks h1, hty]; rfl
    have hpk : (S.next.next.peek.type == TokType.assign) = true := by rw [peek_of_toks h2]; rfl
    have hn : identOfCur S.next.next = identOf name := by unfold identOfCur identOf; rw [cur_of_toks h2]
    obtain ⟨he, last, hlast⟩ := expr_then hc v hwv ihi _ semiT X (Or.inl rfl) h4
    have hlen : v.toks.length ≥ 1 := by rw [has]; simp
    have hS : nextK (v.toks.length - 1) S.next.next.next.next = nextK (SInit.letV t name v).toks.length S := by
      simp only [next_eq, nextK_nextK, SInit.toks, List.length_cons]; congr 1; omega
    rw [hS] at he hlast
    simp only [hne, if_true, hl, SInit.tree]
    rw [parseLetExpression, expect_ok (show S.next.peek.type = .ident by rw [peek_of_toks h1]; exact hname)]
    simp only [Bool.not_true, Bool.false_eq_true, if_false, hpk, if_true, hn, cur_of_toks h1, he, Option.bind_eq_bind,
      Option.bind_some]
    exact ⟨trivial, last, hlast⟩

theorem case_forS (hc : BaseCfg cfg) (t : Token) (i : SInit) (c u : SOpt) (body : SS) (hw : (SS.forS t i c u body).wf = true)
    (ihi : InitMain cfg i) (ihc : OptMain cfg c) (ihu : OptMain cfg u) (ihb : StmtMain cfg tol sm body) :
    StmtMain cfg tol sm (.forS t i c u body) := by
  intro st rest hr ht hfo
  have hw' : (t.type == .for_ && i.wf && c.wf && u.wf && body.wf) = true := by simpa [SS.wf] using hw
  simp only [Bool.and_eq_true, beq_iff_eq] at hw'
  obtain ⟨⟨⟨⟨hty, hwi⟩, hwc⟩, hwu⟩, hwb⟩ := hw'
  have ht0 : st.toks = t :: lpT :: (i.toks ++ semiT :: (c.toks ++ semiT :: (u.toks ++ rpT :: (body.toks ++ rest)))) := by
    rw [ht]; simp [SS.toks]
  have hcur : st.cur = t := cur_of_toks ht0
  have hbne : body.toks ++ rest ≠ [] := by simp [stmt_toks_ne_nil body]
  -- ( init ;
  have h1 : st.next.toks = lpT :: (i.toks ++ semiT :: (c.toks ++ semiT :: (u.toks ++ rpT :: (body.toks ++ rest)))) := by
    cases hi : i.toks with
    | nil => rw [hi] at ht0; exact next_toks_cons (by simpa using ht0)
    | cons a as => rw [hi] at ht0; exact next_toks_cons (by simpa using ht0)
  have e0 : expectToken .lparen st = (true, st.next) := expect_ok (by
    cases hi : i.toks with
    | nil => rw [hi] at ht0; rw [peek_of_toks (by simpa using ht0)]; rfl
    | cons a as => rw [hi] at ht0; rw [peek_of_toks (by simpa using ht0)]; rfl)
  obtain ⟨e1, l1, hl1⟩ := init_clause hc i hwi ihi st.next lpT _ h1
  have hA : nextK i.toks.length st.next = nextK (i.toks.length + 1) st := by
    simp only [next_eq, nextK_nextK]; congr 1; omega
  rw [hA] at e1 hl1
  have e2 : expectToken .semicolon (nextK (i.toks.length + 1) st) = (true, nextK (i.toks.length + 2) st) := by
    rw [expect_ok (by
      cases hcx : c.toks with
      | nil => rw [hcx] at hl1; rw [peek_of_toks (by simpa using hl1)]; rfl
      | cons a as => rw [hcx] at hl1; rw [peek_of_toks (by simpa using hl1)]; rfl)]
    simp only [next_eq, nextK_nextK]
  -- cond ;
  have h2 : (nextK (i.toks.length + 2) st).toks = semiT :: (c.toks ++ semiT :: (u.toks ++ rpT :: (body.toks ++ rest))) := by
    have := toks_at (t :: lpT :: i.toks) (semiT :: (c.toks ++ semiT :: (u.toks ++ rpT :: (body.toks ++ rest)))) st
      (by rw [ht0]; simp) (by simp)
    simpa using this
  obtain ⟨e3, l3, hl3⟩ := opt_clause hc c hwc ihc (nextK (i.toks.length + 2) st) semiT semiT _ (Or.inl rfl) h2
  rw [nextK_nextK] at e3 hl3
  have e4 : expectToken .semicolon (nextK (i.toks.length + 2 + c.toks.length) st) =
      (true, nextK (i.toks.length + 2 + c.toks.length + 1) st) := by
    rw [expect_ok (by
      cases hux : u.toks with
      | nil => rw [hux] at hl3; rw [peek_of_toks (by simpa using hl3)]; rfl
      | cons a as => rw [hux] at hl3; rw [peek_of_toks (by simpa using hl3)]; rfl)]
    simp only [next_eq, nextK_nextK]
  -- update )
  have h3 : (nextK (i.toks.length + 2 + c.toks.length + 1) st).toks = semiT :: (u.toks ++ rpT :: (body.toks ++ rest)) := by
    have := toks_at (t :: lpT :: (i.toks ++ semiT :: c.toks)) (semiT :: (u.toks ++ rpT :: (body.toks ++ rest))) st
      (by rw [ht0]; simp) (by simp)
    have e : (t :: lpT :: (i.toks ++ semiT :: c.toks)).length = i.toks.length + 2 + c.toks.length + 1 := by simp; omega
    rw [e] at this; exact this
  obtain ⟨e5, l5, hl5⟩ := opt_clause hc u hwu ihu _ semiT rpT _ (Or.inr rfl) h3
  rw [nextK_nextK] at e5 hl5
  obtain ⟨b0, bs, hb0⟩ := List.exists_cons_of_ne_nil hbne
  have e6 : expectToken .rparen (nextK (i.toks.length + 2 + c.toks.length + 1 + u.toks.length) st) =
      (true, nextK (i.toks.length + 2 + c.toks.length + 1 + u.toks.length + 1) st) := by
    rw [expect_ok (by rw [hb0] at hl5; rw [peek_of_toks hl5]; rfl)]
    simp only [next_eq, nextK_nextK]
  -- body
  have h4 : (nextK (i.toks.length + 2 + c.toks.length + 1 + u.toks.length + 2) st).toks = body.toks ++ rest := by
    have := toks_at (t :: lpT :: (i.toks ++ semiT :: (c.toks ++ semiT :: (u.toks ++ [rpT])))) (body.toks ++ rest) st
      (by rw [ht0]; simp) hbne
    have e : (t :: lpT :: (i.toks ++ semiT :: (c.toks ++ semiT :: (u.toks ++ [rpT])))).length =
        i.toks.length + 2 + c.toks.length + 1 + u.toks.length + 2 := by simp; omega
    rw [e] at this; exact this
  have e7 := ihb _ rest hr h4 hfo
  rw [stmtI_nil hc, base_for st (by rw [hcur]; exact hty), parseForStatement, e0]
  simp only [Bool.not_true, Bool.false_eq_true, if_false, e1, Option.bind_eq_bind, Option.bind_some, e2]
  rw [show TokType.semicolon = semiT.type from rfl, e3]
  simp only [Option.bind_some]
  rw [show semiT.type = TokType.semicolon from rfl, e4]
  simp only [Bool.not_true, Bool.false_eq_true, if_false]
  rw [show TokType.rparen = rpT.type from rfl, e5]
  simp only [Option.bind_some]
  rw [show rpT.type = TokType.rparen from rfl, e6]
  simp only [Bool.not_true, Bool.false_eq_true, if_false]
  rw [show (nextK (i.toks.length + 2 + c.toks.length + 1 + u.toks.length + 1) st).next =
      nextK (i.toks.length + 2 + c.toks.length + 1 + u.toks.length + 2) st by simp only [next_eq, nextK_nextK], e7]
  simp only [Option.bind_some, hcur]
  congr 2
  have : body.toks.length ≥ 1 := by
    cases h : body.toks with | nil => exact absurd h (stmt_toks_ne_nil body) | cons _ _ => simp
  simp only [nextK_nextK, SS.toks, List.length_append, List.length_cons]
  congr 1; omega

/-! ### object literals -/

theorem precOf_colon (hc : BaseCfg cfg) : precOf cfg .colon = 1 := by rw [precOf_base hc]; decide
theorem precOf_rbrace (hc : BaseCfg cfg) : precOf cfg .rbrace = 1 := by rw [precOf_base hc]; decide

/-- an expression parsed at the lowest level, followed by a token that cannot continue it -/
theorem expr_then' (hc : BaseCfg cfg) (e : SE) (hw : e.wf = true) (ih : Main cfg e) (st : PS) (closer : Token) (rest : List Token)
    (hcl : precOf cfg closer.type ≤ 1) (ht : st.toks = e.toks ++ closer :: rest) :
    parseExpressionI cfg cfg.exprI LOWEST st = some (e.tree, nextK (e.toks.length - 1) st) ∧
    ∃ last, (nextK (e.toks.length - 1) st).toks = last :: closer :: rest := by
  have hstop : ∀ q, 1 ≤ q → stops cfg q (closer :: rest) := fun q hq => stops_prec (Nat.le_trans hcl hq)
  rw [hc.exprI]
  refine ⟨eval_of_main e ih LOWEST st (closer :: rest) (by simp) ht (fits_lowest e hw) (hstop _ (rbl_ge_one e hw))
    (hstop _ (by decide)), ?_⟩
  obtain ⟨last, hl, _⟩ := toks_after e.toks (toks_ne_nil e) (closer :: rest) st ht
  exact ⟨last, hl⟩

/-- the `key : value ,` loop of an object literal, from the first token of a key to the last token of the last value -/
def PropsInv (cfg : PCfg) (ps : SPList) : Prop :=
  ∀ (acc : PropList) (st : PS) (X : List Token), ps ≠ .nil → st.toks = ps.toks ++ rbrT :: X → X ≠ [] →
    objectLoop cfg acc st = some (some (acc.app ps.tree), nextK (ps.toks.length - 1) st)

theorem props_nil : PropsInv cfg .nil := fun _ _ _ h => absurd rfl h

theorem props_cons (hc : BaseCfg cfg) (k v : SE) (rest : SPList) (hwk : k.wf = true) (hwv : v.wf = true)
    (ihk : Main cfg k) (ihv : Main cfg v) (ihr : PropsInv cfg rest) : PropsInv cfg (.cons k v rest) := by
  intro acc st X _ ht hX
  obtain ⟨a, as, has⟩ := List.exists_cons_of_ne_nil (toks_ne_nil v)
  have ht0 : st.toks = k.toks ++ colonT :: (a :: (as ++ (rest.ctoks ++ rbrT :: X))) := by rw [ht]; simp [SPList.toks, has]
  obtain ⟨ek, lk, hlk⟩ := expr_then' hc k hwk ihk st colonT _ (by rw [show colonT.type = TokType.colon from rfl, precOf_colon hc]; exact Nat.le_refl _) ht0
  have hcolon : expectToken .colon (nextK (k.toks.length - 1) st) = (true, (nextK (k.toks.length - 1) st).next) :=
    expect_ok (by rw [peek_of_toks hlk]; rfl)
  have hv0 : (nextK (k.toks.length - 1) st).next.next.toks = v.toks ++ (rest.ctoks ++ rbrT :: X) := by
    rw [next_toks_cons (next_toks_cons hlk), has]; simp
  -- behind the value: a comma or the closing brace
  obtain ⟨cl, Y, hY, hclp⟩ : ∃ cl Y, rest.ctoks ++ rbrT :: X = cl :: Y ∧ precOf cfg cl.type ≤ 1 := by
    cases rest with
    | nil => exact ⟨rbrT, X, by simp [SPList.ctoks], by rw [show rbrT.type = TokType.rbrace from rfl, precOf_rbrace hc]; exact Nat.le_refl _⟩
    | cons k2 v2 r2 => exact ⟨commaT, k2.toks ++ colonT :: v2.toks ++ r2.ctoks ++ rbrT :: X, by simp [SPList.ctoks], by rw [show commaT.type = TokType.comma from rfl, precOf_comma hc]; exact Nat.le_refl _⟩
  rw [hY] at hv0
  obtain ⟨ev, lv, hlv⟩ := expr_then' hc v hwv ihv _ cl Y hclp hv0
  rw [objectLoop, ek]
  simp only [Option.bind_eq_bind, Option.bind_some, hcolon, Bool.not_true, Bool.false_eq_true, if_false, ev]
  have lenk : k.toks.length ≥ 1 := by
    cases h : k.toks with | nil => exact absurd h (toks_ne_nil k) | cons _ _ => simp
  have lenv : v.toks.length ≥ 1 := by rw [has]; simp
  cases rest with
  | nil =>
    have hcl : cl = rbrT ∧ Y = X := by simpa [SPList.ctoks] using hY.symm
    obtain ⟨x0, xs, hxs⟩ := List.exists_cons_of_ne_nil hX
    have hpk : ((nextK (v.toks.length - 1) (nextK (k.toks.length - 1) st).next.next).peek.type != TokType.comma) = true := by
      rw [hcl.1, hcl.2, hxs] at hlv; rw [peek_of_toks hlv]; rfl
    simp only [hpk, if_true]
    congr 2
    · congr 1; simp only [SPList.tree]
      have := PropList.snoc_app acc k.tree v.tree .nil
      rw [PropList.app_nil] at this; exact this
    · simp only [next_eq, nextK_nextK, SPList.toks, SPList.ctoks, List.length_append, List.length_cons, List.length_nil]
      congr 1; omega
  | cons k2 v2 r2 =>
    have hcl : cl = commaT ∧ Y = k2.toks ++ colonT :: v2.toks ++ r2.ctoks ++ rbrT :: X := by
      have := hY.symm; simp only [SPList.ctoks, List.cons_append, List.cons.injEq] at this
      exact ⟨this.1, by rw [this.2]⟩
    obtain ⟨b, bs, hbs⟩ := List.exists_cons_of_ne_nil (toks_ne_nil k2)
    have hlv' : (nextK (v.toks.length - 1) (nextK (k.toks.length - 1) st).next.next).toks =
        lv :: commaT :: b :: (bs ++ colonT :: v2.toks ++ r2.ctoks ++ rbrT :: X) := by
      rw [hlv, hcl.1, hcl.2, hbs]; simp
    have hpk : ((nextK (v.toks.length - 1) (nextK (k.toks.length - 1) st).next.next).peek.type != TokType.comma) = false := by
      rw [peek_of_toks hlv']; rfl
    have hnext : (nextK (v.toks.length - 1) (nextK (k.toks.length - 1) st).next.next).next.next.toks =
        (SPList.cons k2 v2 r2).toks ++ rbrT :: X := by
      rw [next_toks_cons (next_toks_cons hlv')]; simp [SPList.toks, hbs]
    simp only [hpk, Bool.false_eq_true, if_false]
    rw [ihr (acc.snoc k.tree v.tree) _ X (by simp) hnext hX, PropList.snoc_app]
    congr 2
    have : (SPList.cons k2 v2 r2).toks.length ≥ 1 := by simp [SPList.toks, hbs]
    simp only [next_eq, nextK_nextK]
    congr 1
    simp only [SPList.toks, SPList.ctoks, List.length_append, List.length_cons] at this ⊢
    omega

theorem case_obj (hc : BaseCfg cfg) (t : Token) (ps : SPList) (hw : (SE.obj t ps).wf = true) (ih : PropsInv cfg ps) :
    Main cfg (.obj t ps) := by
  intro p st rest hr ht _ _
  have hw' : (t.type == .lbrace && ps.wf) = true := by simpa [SE.wf] using hw
  simp only [Bool.and_eq_true, beq_iff_eq] at hw'
  have ht0 : st.toks = t :: (ps.toks ++ rbrT :: rest) := by rw [ht]; simp [SE.toks]
  have hcur : st.cur = t := cur_of_toks ht0
  have hpre : lookup basePrefixFns TokType.lbrace = some .object := by decide
  rw [unfold_expr, parsePrefixExpression, hc.prefixFns, hcur, hw'.1, hpre]
  simp only
  rw [parseObjectLiteral]
  cases ps with
  | nil =>
    have ht1 : st.toks = t :: rbrT :: rest := by simpa [SPList.toks] using ht0
    have hpk : (st.peek.type == TokType.rbrace) = true := by rw [peek_of_toks ht1]; rfl
    simp only [hpk, if_true, Option.bind_eq_bind, Option.bind_some, hcur]
    show parseRemaining cfg (SE.obj t .nil).tree p _ = _
    congr 1
  | cons k v r =>
    have hwk : k.wf = true := by
      have : (k.wf && v.wf && r.wf) = true := by simpa [SPList.wf] using hw'.2
      simp only [Bool.and_eq_true] at this; exact this.1.1
    obtain ⟨a, as, has, hpfx⟩ := head_prefix k hwk
    have hpt := prefix_types a.type hpfx
    have ht1 : st.toks = t :: a :: (as ++ colonT :: v.toks ++ r.ctoks ++ rbrT :: rest) := by
      rw [ht0]; simp [SPList.toks, has]
    have hpk : (st.peek.type == TokType.rbrace) = false := by rw [peek_of_toks ht1]; simpa using hpt.1
    have hn : st.next.toks = (SPList.cons k v r).toks ++ rbrT :: rest := by
      rw [next_toks_cons ht1]; simp [SPList.toks, has]
    have e1 := ih .nil st.next rest (by simp) hn hr
    obtain ⟨lastP, hlp, _⟩ := toks_after (SPList.cons k v r).toks (by simp [SPList.toks, has]) (rbrT :: rest) st.next hn
    obtain ⟨r0, rs, hrs⟩ := List.exists_cons_of_ne_nil hr
    have hexp : expectToken .rbrace (nextK ((SPList.cons k v r).toks.length - 1) st.next) =
        (true, (nextK ((SPList.cons k v r).toks.length - 1) st.next).next) := by
      rw [hrs] at hlp; exact expect_ok (by rw [peek_of_toks hlp]; rfl)
    have hend : (nextK ((SPList.cons k v r).toks.length - 1) st.next).next.toks = rbrT :: rest := by
      rw [hrs] at hlp ⊢; exact next_toks_cons hlp
    simp only [hpk, Bool.false_eq_true, if_false, e1, Option.bind_eq_bind, Option.bind_some, hexp, Bool.not_true, hcur,
      cur_of_toks hend]
    show parseRemaining cfg (SE.obj t (.cons k v r)).tree p _ = _
    congr 1
    · have : (SPList.cons k v r).toks.length ≥ 1 := by simp [SPList.toks, has]
      simp only [next_eq, nextK_nextK, SE.toks, List.length_append, List.length_cons, List.length_nil]
      congr 1; omega

end Xjs.RA
