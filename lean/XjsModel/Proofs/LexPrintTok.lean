import XjsModel.Proofs.Lexer
import XjsModel.Proofs.LexerTiling
import XjsModel.Model.Printer
/-
  Lexing what the printer spells, part 1: a position-free view of one token request (`ltok`), the relation
  `LexTo b ks r` ("the text `b` lexes to the keys `ks` and then `r` is left, up to blanks"), and one lemma per token
  class: the spelling of the token, followed by any text that its follow predicate admits, is read back as that token.
-/
namespace Xjs.LP
open Xjs

/-- what the parser reads of a token: its type and literal -/
abbrev Key := TokType × Bytes

/-- type and literal of the token, the text left, and the two fields that record trivia in front of it (after-newline
    flag, leading comments) -/
def key3 (r : Token × LS) : Key × Bytes × Bool × List Bytes := ((r.1.type, r.1.lit), r.2.rest, r.1.nl, r.1.comments)

theorem cur_eq (s : LS) : s.cur = s.rest.headD 0 := rfl
theorem peek_eq (s : LS) : s.peek = s.rest.tail.headD 0 := rfl

/-! ## dispatch of `baseNextToken` on the class of the first byte -/

theorem base_letter (nl : Bool) (cs : List Bytes) (s : LS) (h : isLetter s.cur = true) :
    baseNextToken nl cs s =
      (mkTok (lookupIdent (s.rest.take (identLen s.rest))) (s.rest.take (identLen s.rest)) s (readChars (identLen s.rest) s) nl cs,
       readChars (identLen s.rest) s) := by
  have L : ∀ k, isLetter k = false → (s.cur == k) = false := by
    intro k hk
    cases hck : s.cur == k
    · rfl
    · have := (beq_iff_eq).1 hck
      rw [this] at h; rw [h] at hk; cases hk
  unfold baseNextToken
  simp only [L 61 rfl, L 33 rfl, L 60 rfl, L 62 rfl, L 38 rfl, L 124 rfl, L 43 rfl, L 45 rfl, L 42 rfl, L 47 rfl, L 37 rfl,
    L 44 rfl, L 59 rfl, L 58 rfl, L 46 rfl, L 40 rfl, L 41 rfl, L 123 rfl, L 125 rfl, L 91 rfl, L 93 rfl, L 34 rfl, L 39 rfl,
    L 96 rfl, L 0 rfl, Bool.false_eq_true, if_false, Bool.or_false, h, if_true]

theorem base_digit (nl : Bool) (cs : List Bytes) (s : LS) (h : isDigit s.cur = true) :
    baseNextToken nl cs s =
      (mkTok (scanNumber s.rest).2 (s.rest.take (scanNumber s.rest).1) s (readChars (scanNumber s.rest).1 s) nl cs,
       readChars (scanNumber s.rest).1 s) := by
  have L : ∀ k, isDigit k = false → (s.cur == k) = false := by
    intro k hk
    cases hck : s.cur == k
    · rfl
    · have := (beq_iff_eq).1 hck
      rw [this] at h; rw [h] at hk; cases hk
  have hl : isLetter s.cur = false := by
    unfold isDigit at h; unfold isLetter
    simp only [Bool.and_eq_true, decide_eq_true_eq] at h
    simp only [Bool.or_eq_false_iff, Bool.and_eq_false_iff, decide_eq_false_iff_not, beq_eq_false_iff_ne]
    omega
  unfold baseNextToken
  simp only [L 61 rfl, L 33 rfl, L 60 rfl, L 62 rfl, L 38 rfl, L 124 rfl, L 43 rfl, L 45 rfl, L 42 rfl, L 47 rfl, L 37 rfl,
    L 44 rfl, L 59 rfl, L 58 rfl, L 46 rfl, L 40 rfl, L 41 rfl, L 123 rfl, L 125 rfl, L 91 rfl, L 93 rfl, L 34 rfl, L 39 rfl,
    L 96 rfl, L 0 rfl, Bool.false_eq_true, if_false, Bool.or_false, hl, h, if_true]

/-! ## no trivia in front of a token; one blank in front of a token -/

def noTriv : Trivia := { nl := false, comments := [], len := 0 }

theorem nextToken_of_trivia (s : LS) (h : trivia s.rest = noTriv) : nextToken s = baseNextToken false [] s := by
  unfold nextToken; rw [h]; rfl

theorem trivia_stop (c : Nat) (r : Bytes) (hw : isWs c = false) (h : c ≠ 47) : trivia (c :: r) = noTriv :=
  Tiling.st_n_stop c r _ hw h

theorem trivia_slash (r : Bytes) (h : r.headD 0 ≠ 47) : trivia (47 :: r) = noTriv := by
  cases r with
  | nil => exact Tiling.st_n_slash1 _
  | cons c2 r => exact Tiling.st_n_slash2 c2 r _ (by simpa using h)

theorem trivia_nil : trivia [] = noTriv := rfl

/-- the counter of consumed bytes is only ever added to -/
theorem scanTrivia_shift (k : Nat) : ∀ (n : Nat) (b : Bytes), b.length ≤ n → ∀ (m : Option Bytes) (t : Trivia),
    scanTrivia b m { t with len := t.len + k } = { scanTrivia b m t with len := (scanTrivia b m t).len + k } := by
  intro n
  induction n with
  | zero =>
    intro b hb m t
    have : b = [] := List.eq_nil_of_length_eq_zero (Nat.le_zero.1 hb)
    subst this
    cases m <;> simp [scanTrivia]
  | succ n ih =>
    intro b hb m t
    cases b with
    | nil => cases m <;> simp [scanTrivia]
    | cons c r =>
      have hr : r.length ≤ n := by simp at hb; omega
      cases m with
      | some acc =>
        simp only [scanTrivia]
        split
        · have := ih r hr none { nl := true, comments := t.comments ++ [trimRightSpaces acc], len := t.len + 1 }
          simp only [] at this
          rw [← this]; congr 1; simp; omega
        · split
          · rfl
          · have := ih r hr (some (acc ++ [c])) { t with len := t.len + 1 }
            simp only [] at this
            rw [← this]; congr 1; simp; omega
      | none =>
        by_cases hw : isWs c = true
        · by_cases h10 : c = 10
          · subst h10
            rw [Tiling.st_n_lf, Tiling.st_n_lf]
            have := ih r hr none { nl := true, comments := t.comments ++ [[]], len := t.len + 1 }
            simp only [] at this
            rw [← this]; congr 1; simp; omega
          · rw [Tiling.st_n_ws c r _ hw h10, Tiling.st_n_ws c r _ hw h10]
            have := ih r hr none { t with len := t.len + 1 }
            simp only [] at this
            rw [← this]; congr 1; simp; omega
        · have hw' : isWs c = false := by simpa using hw
          by_cases h47 : c = 47
          · subst h47
            cases r with
            | nil => rw [Tiling.st_n_slash1, Tiling.st_n_slash1]
            | cons c2 r2 =>
              by_cases h2 : c2 = 47
              · subst h2
                rw [Tiling.st_n_comment, Tiling.st_n_comment]
                have := ih r2 (by simp at hr; omega) (some []) { t with len := t.len + 2 }
                simp only [] at this
                rw [← this]; congr 1; simp; omega
              · rw [Tiling.st_n_slash2 c2 r2 _ h2, Tiling.st_n_slash2 c2 r2 _ h2]
          · rw [Tiling.st_n_stop c r _ hw' h47, Tiling.st_n_stop c r _ hw' h47]

/-- a blank in front of a token is skipped: the request is the request one byte later -/
theorem nextToken_blank (s : LS) (b : Bytes) (h : s.rest = 32 :: b) : nextToken s = nextToken (readChar s) := by
  have hr : (readChar s).rest = b := by rw [readChar_rest, h]; rfl
  unfold nextToken
  rw [h, hr]
  have e : trivia (32 :: b) = { trivia b with len := (trivia b).len + 1 } := by
    unfold trivia
    rw [Tiling.st_n_ws 32 b _ (by decide) (by decide)]
    have := scanTrivia_shift 1 b.length b (Nat.le_refl _) none { nl := false, comments := [], len := 0 }
    simpa using this
  rw [e]
  simp only []
  rw [Nat.add_comm, readChars_add]
  rfl

/-! ## the relation "this text lexes to these keys" -/

/-- `LexTo b ks r`: from any cursor standing at the text `b`, successive token requests return tokens with the keys
    `ks` (none of them end of input; each without a line break or a comment in front of it), and what is left then is `r`, possibly behind some blanks -/
inductive LexTo : Bytes → List Key → Bytes → Prop
  | done (n : Nat) (r : Bytes) : LexTo (List.replicate n 32 ++ r) [] r
  | tok {b b' r : Bytes} {k : Key} {ks : List Key} (h : ∀ s : LS, s.rest = b → key3 (nextToken s) = (k, b', false, []))
      (hk : k.1 ≠ .eof) (rest : LexTo b' ks r) : LexTo b (k :: ks) r

theorem LexTo.refl (r : Bytes) : LexTo r [] r := LexTo.done 0 r

theorem LexTo.blank' {b : Bytes} {ks : List Key} {r' : Bytes} (h : LexTo b ks r') : ∀ r, r' = 32 :: r → LexTo b ks r := by
  induction h with
  | done n r' =>
    intro r e
    subst e
    have : List.replicate n 32 ++ 32 :: r = List.replicate (n + 1) 32 ++ r := by
      rw [List.replicate_succ']; simp
    rw [this]
    exact LexTo.done (n + 1) r
  | tok h hk _ ih => intro r e; exact LexTo.tok h hk (ih r e)

/-- a blank behind the tokens is absorbed -/
theorem LexTo.blank {b : Bytes} {ks : List Key} {r : Bytes} (h : LexTo b ks (32 :: r)) : LexTo b ks r := h.blank' r rfl

/-- a blank in front of the text is skipped -/
theorem LexTo.lead {b : Bytes} {ks : List Key} {r : Bytes} (h : LexTo b ks r) : LexTo (32 :: b) ks r := by
  cases h with
  | done n r =>
    have : 32 :: (List.replicate n 32 ++ r) = List.replicate (n + 1) 32 ++ r := by simp [List.replicate_succ]
    rw [this]; exact LexTo.done (n + 1) r
  | tok h hk rest =>
    refine LexTo.tok (fun s hs => ?_) hk rest
    rw [nextToken_blank s _ hs]
    exact h (readChar s) (by rw [readChar_rest, hs]; rfl)

theorem LexTo.append {b : Bytes} {ks : List Key} {m : Bytes} (h : LexTo b ks m) :
    ∀ {ks' : List Key} {r : Bytes}, LexTo m ks' r → LexTo b (ks ++ ks') r := by
  induction h with
  | done n m =>
    intro ks' r h2
    induction n with
    | zero => simpa using h2
    | succ n ih => rw [List.replicate_succ]; exact LexTo.lead ih
  | tok h hk _ ih => intro ks' r h2; exact LexTo.tok h hk (ih h2)

/-- one more token at the end -/
theorem LexTo.snoc {b : Bytes} {ks : List Key} {m r : Bytes} {k : Key} (h : LexTo b ks m)
    (hm : ∀ s : LS, s.rest = m → key3 (nextToken s) = (k, r, false, [])) (hk : k.1 ≠ .eof) : LexTo b (ks ++ [k]) r :=
  h.append (LexTo.tok hm hk (LexTo.refl r))

/-! ## words: identifiers and keywords -/

def isWordByte (c : Nat) : Bool := isLetter c || isDigit c

theorem takeWhile_append_stop (p : Nat → Bool) (w r : Bytes) (hw : ∀ x ∈ w, p x = true) (hr : p (r.headD 0) = false ∨ r = []) :
    (w ++ r).takeWhile p = w := by
  induction w with
  | nil =>
    cases r with
    | nil => rfl
    | cons c r' =>
      rcases hr with hr | hr
      · simp [show p c = false by simpa using hr]
      · cases hr
  | cons x w ih =>
    have hx : p x = true := hw x (by simp)
    simp [hx, ih (fun y hy => hw y (by simp [hy]))]

/-- the text cannot continue a word -/
def folWord (r : Bytes) : Bool := !isWordByte (r.headD 0)

/-- a word, followed by something that is no word byte, is read back as that word, classified by the keyword table -/
theorem word_lexes (w r : Bytes) (c : Nat) (w' : Bytes) (hw : w = c :: w') (hc : isLetter c = true)
    (hall : ∀ x ∈ w, isWordByte x = true) (hr : folWord r = true) (s : LS) (hs : s.rest = w ++ r) :
    key3 (nextToken s) = ((lookupIdent w, w), r, false, []) := by
  have hws : isWs c = false := by
    unfold isLetter at hc; unfold isWs
    simp only [Bool.or_eq_true, Bool.and_eq_true, decide_eq_true_eq, beq_iff_eq] at hc
    simp only [Bool.or_eq_false_iff, beq_eq_false_iff_ne]
    omega
  have h47 : c ≠ 47 := by
    intro e; subst e; revert hc; decide
  have hcur : s.cur = c := by rw [cur_eq, hs, hw]; rfl
  rw [nextToken_of_trivia s (by rw [hs, hw]; exact trivia_stop c _ hws h47), base_letter false [] s (by rw [hcur]; exact hc)]
  have hlen : identLen s.rest = w.length := by
    rw [hs]
    show (List.takeWhile isWordByte (w ++ r)).length = w.length
    rw [takeWhile_append_stop isWordByte w r hall (Or.inl (by simpa [folWord] using hr))]
  rw [hs] at hlen
  simp only [key3, mkTok, readChars_rest, hs, hlen, List.take_left', List.drop_left']

/-! ## tokens with a fixed spelling -/

/-- the spelling of operators, delimiters and keywords (`[]`: the type has no fixed spelling) -/
def canon : TokType → Bytes
  | .assign => [61] | .plusAssign => [43, 61] | .minusAssign => [45, 61]
  | .plus => [43] | .minus => [45] | .multiply => [42] | .divide => [47] | .modulo => [37]
  | .eq => [61, 61] | .notEq => [33, 61] | .lt => [60] | .gt => [62] | .lte => [60, 61] | .gte => [62, 61]
  | .and => [38, 38] | .or => [124, 124] | .not => [33] | .increment => [43, 43] | .decrement => [45, 45]
  | .comma => [44] | .semicolon => [59] | .colon => [58] | .dot => [46]
  | .lparen => [40] | .rparen => [41] | .lbrace => [123] | .rbrace => [125] | .lbracket => [91] | .rbracket => [93]
  | .function => [102, 117, 110, 99, 116, 105, 111, 110] | .let_ => [108, 101, 116] | .if_ => [105, 102]
  | .else_ => [101, 108, 115, 101] | .while_ => [119, 104, 105, 108, 101] | .for_ => [102, 111, 114]
  | .return_ => [114, 101, 116, 117, 114, 110] | .true_ => [116, 114, 117, 101] | .false_ => [102, 97, 108, 115, 101]
  | .null => [110, 117, 108, 108]
  | _ => []

/-- FOLLOW: what may stand directly behind a token of this type without being drawn into it
    (sufficient conditions; one or two bytes of look-ahead, as the lexer has) -/
def fol (ty : TokType) (r : Bytes) : Bool :=
  let c := r.headD 0
  match ty with
  | .assign | .not | .lt | .gt => c != 61
  | .plus => c != 43 && c != 61
  | .minus => c != 45 && c != 61
  | .divide => c != 47
  | .ident | .function | .let_ | .if_ | .else_ | .while_ | .for_ | .return_ | .true_ | .false_ | .null => !isWordByte c
  | .int | .float => !isWordByte c && !(c == 46 && isDigit (r.tail.headD 0))
  | _ => true

theorem fixed_lexes (ty : TokType) (hf : canon ty ≠ []) (r : Bytes) (hfol : fol ty r = true) (s : LS)
    (hs : s.rest = canon ty ++ r) : key3 (nextToken s) = ((ty, canon ty), r, false, []) := by
  cases ty
  all_goals first
    | exact absurd rfl hf
    | (simp only [canon, List.cons_append, List.nil_append] at hs
       simp only [fol, bne_iff_ne, ne_eq, Bool.and_eq_true] at hfol
       rw [nextToken_of_trivia s (by rw [hs]; first | exact trivia_stop _ _ (by decide) (by decide) | exact trivia_slash _ hfol)]
       unfold baseNextToken
       simp_all [key3, cur_eq, peek_eq, mkTok, byteAsRuneString, encodeUTF8, toByte, readChar_rest, canon]
       done)
    | (refine (word_lexes _ r _ _ rfl (by decide) (by decide) (by simpa [fol, folWord] using hfol) s hs).trans ?_
       simp only [canon]; congr 1)

/-! ## identifiers -/

/-- an identifier as the lexer reads one: a letter, then letters and digits, not a keyword -/
def identOk (w : Bytes) : Bool :=
  match w with
  | [] => false
  | c :: _ => isLetter c && w.all isWordByte && lookupIdent w == .ident

theorem ident_lexes (w r : Bytes) (hw : identOk w = true) (hr : fol .ident r = true) (s : LS) (hs : s.rest = w ++ r) :
    key3 (nextToken s) = ((.ident, w), r, false, []) := by
  cases w with
  | nil => cases hw
  | cons c w' =>
    simp only [identOk, Bool.and_eq_true, List.all_eq_true, beq_iff_eq] at hw
    have := word_lexes (c :: w') r c w' rfl hw.1.1 hw.1.2 (by simpa [fol, folWord] using hr) s hs
    rw [this, hw.2]

/-! ## numbers, quoted strings, backtick strings: the literal re-lexes as itself -/

/-- the number literal, followed by anything that `fol` admits, is read as itself -/
def numOk (w : Bytes) (ty : TokType) : Prop :=
  isDigit (w.headD 0) = true ∧ ∀ r, fol .int r = true → scanNumber (w ++ r) = (w.length, ty)

theorem num_lexes (w r : Bytes) (ty : TokType) (hw : numOk w ty) (hr : fol .int r = true) (s : LS) (hs : s.rest = w ++ r) :
    key3 (nextToken s) = ((ty, w), r, false, []) := by
  obtain ⟨hd, hsc⟩ := hw
  cases w with
  | nil => exact absurd hd (by decide)
  | cons c w' =>
    have hd' : isDigit c = true := by simpa using hd
    have hws : isWs c = false := by
      unfold isDigit at hd'; unfold isWs
      simp only [Bool.and_eq_true, decide_eq_true_eq] at hd'
      simp only [Bool.or_eq_false_iff, beq_eq_false_iff_ne]
      omega
    have h47 : c ≠ 47 := by intro e; subst e; revert hd'; decide
    have hcur : s.cur = c := by rw [cur_eq, hs]; rfl
    rw [nextToken_of_trivia s (by rw [hs]; exact trivia_stop c _ hws h47), base_digit false [] s (by rw [hcur]; exact hd')]
    rw [hs, hsc r hr]
    simp only [key3, mkTok, readChars_rest, hs, List.take_left', List.drop_left']

/-- the body `v` of a double-quoted literal, closed by `"`, is read back as `v` -/
def strOk (v : Bytes) : Prop := ∀ r, scanString 34 (v ++ 34 :: r).length (v ++ 34 :: r) [] 0 = (v, v.length)

theorem str_lexes (v r : Bytes) (hv : strOk v) (s : LS) (hs : s.rest = 34 :: (v ++ 34 :: r)) :
    key3 (nextToken s) = ((.string, v), r, false, []) := by
  rw [nextToken_of_trivia s (by rw [hs]; exact trivia_stop 34 _ (by decide) (by decide))]
  unfold baseNextToken
  simp only [cur_eq, peek_eq, hs, List.headD_cons, List.tail_cons]
  simp only [show ((34 : Nat) == 61) = false from rfl, show ((34 : Nat) == 33) = false from rfl, show ((34 : Nat) == 60) = false from rfl,
    show ((34 : Nat) == 62) = false from rfl, show ((34 : Nat) == 38) = false from rfl, show ((34 : Nat) == 124) = false from rfl,
    show ((34 : Nat) == 43) = false from rfl, show ((34 : Nat) == 45) = false from rfl, show ((34 : Nat) == 42) = false from rfl,
    show ((34 : Nat) == 47) = false from rfl, show ((34 : Nat) == 37) = false from rfl, show ((34 : Nat) == 44) = false from rfl,
    show ((34 : Nat) == 59) = false from rfl, show ((34 : Nat) == 58) = false from rfl, show ((34 : Nat) == 46) = false from rfl,
    show ((34 : Nat) == 40) = false from rfl, show ((34 : Nat) == 41) = false from rfl, show ((34 : Nat) == 123) = false from rfl,
    show ((34 : Nat) == 125) = false from rfl, show ((34 : Nat) == 91) = false from rfl, show ((34 : Nat) == 93) = false from rfl,
    show ((34 : Nat) == 34) = true from rfl, Bool.false_eq_true, if_false, Bool.true_or, if_true, hv r]
  have e : (List.drop (1 + v.length) (34 :: (v ++ 34 :: r))) = 34 :: r := by
    rw [Nat.add_comm, List.drop_succ_cons, List.drop_left' rfl]
  simp only [key3, mkTok, readChars_rest, readChar_rest, hs, e, List.headD_cons, List.drop_succ_cons, List.drop_zero,
    show ((34 : Nat) == 34) = true from rfl, if_true]

/-- the value `v` of a backtick literal, as the printer spells it (every backtick escaped), is read back as `v` -/
def rawOk (v : Bytes) : Prop := ∀ r, scanRaw (escBackticks v ++ 96 :: r) [] 0 = (v, (escBackticks v).length)

theorem raw_lexes (v r : Bytes) (hv : rawOk v) (s : LS) (hs : s.rest = 96 :: (escBackticks v ++ 96 :: r)) :
    key3 (nextToken s) = ((.rawString, v), r, false, []) := by
  rw [nextToken_of_trivia s (by rw [hs]; exact trivia_stop 96 _ (by decide) (by decide))]
  unfold baseNextToken
  simp only [cur_eq, peek_eq, hs, List.headD_cons, List.tail_cons]
  simp only [show ((96 : Nat) == 61) = false from rfl, show ((96 : Nat) == 33) = false from rfl, show ((96 : Nat) == 60) = false from rfl,
    show ((96 : Nat) == 62) = false from rfl, show ((96 : Nat) == 38) = false from rfl, show ((96 : Nat) == 124) = false from rfl,
    show ((96 : Nat) == 43) = false from rfl, show ((96 : Nat) == 45) = false from rfl, show ((96 : Nat) == 42) = false from rfl,
    show ((96 : Nat) == 47) = false from rfl, show ((96 : Nat) == 37) = false from rfl, show ((96 : Nat) == 44) = false from rfl,
    show ((96 : Nat) == 59) = false from rfl, show ((96 : Nat) == 58) = false from rfl, show ((96 : Nat) == 46) = false from rfl,
    show ((96 : Nat) == 40) = false from rfl, show ((96 : Nat) == 41) = false from rfl, show ((96 : Nat) == 123) = false from rfl,
    show ((96 : Nat) == 125) = false from rfl, show ((96 : Nat) == 91) = false from rfl, show ((96 : Nat) == 93) = false from rfl,
    show ((96 : Nat) == 34) = false from rfl, show ((96 : Nat) == 39) = false from rfl, show ((96 : Nat) == 96) = true from rfl,
    Bool.false_eq_true, if_false, Bool.or_false, if_true, hv r]
  have e : (List.drop (1 + (escBackticks v).length) (96 :: (escBackticks v ++ 96 :: r))) = 96 :: r := by
    rw [Nat.add_comm, List.drop_succ_cons, List.drop_left' rfl]
  simp only [key3, mkTok, readChars_rest, readChar_rest, hs, e, List.headD_cons, List.drop_succ_cons, List.drop_zero,
    show ((96 : Nat) == 96) = true from rfl, if_true]

end Xjs.LP
