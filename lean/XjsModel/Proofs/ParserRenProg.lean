import XjsModel.Proofs.ParserRenPass
import XjsModel.Proofs.ParserTotalBuilder
/-
  Renaming, program level, and the instance for a registered operator: in the configuration a builder produces for
  one registered infix (prefix) operator, that operator's token can be replaced everywhere by a built-in operator of the
  same level (by a built-in prefix operator) without changing what the parser does, up to that replacement.
-/
namespace Xjs.Ren
open Xjs

variable {cfg : PCfg} (ρ : Renaming cfg)

theorem ren_programLoop (acc : StmtList) (st : PS) (r : StmtList × PS) (h : programLoop cfg acc st = some r) :
    programLoop cfg (stmtListR ρ acc) (psR ρ st) = some (stmtListR ρ r.1, psR ρ r.2) := by
  refine programLoop.partial_correctness cfg
    (fun acc st r => programLoop cfg (stmtListR ρ acc) (psR ρ st) = some (stmtListR ρ r.1, psR ρ r.2)) ?_ acc st r h
  intro f ih acc st r h
  rw [programLoop]
  have hc : ((psR ρ st).cur.type != TokType.eof) = (st.cur.type != TokType.eof) := by
    simp only [bne, psR_cur_type_const ρ st .eof rfl]
  rw [hc]
  split at h
  · rename_i hgo
    obtain ⟨⟨s, st1⟩, h1, h2⟩ := bind_some h
    have e1 := (ren_mutual ρ).1 _ _ _ h1
    have e2 := ih _ _ _ h2
    simp only [hgo, if_true, e1, Option.bind_eq_bind, Option.bind_some, stmtR_isNone, psR_next]
    rw [← e2]
    congr 1
    split <;> simp [stmtListR_snoc]
  · rename_i hgo
    cases h
    simp [hgo]

/-- PARSING COMMUTES WITH RENAMING: the parse of the renamed token list is the renamed parse -/
theorem ren_parseProgram (toks : List Token) (r : ParseResult) (h : parseProgram cfg toks = some r) :
    parseProgram cfg (toks.map (tokR ρ)) =
      some { prog := stmtListR ρ r.prog, errors := r.errors, hasErr := r.hasErr, final := psR ρ r.final } := by
  unfold parseProgram at h ⊢
  obtain ⟨⟨stmts, st⟩, h1, h2⟩ := bind_some h
  cases h2
  have hinit : PS.init (toks.map (tokR ρ)) = psR ρ (PS.init toks) := by simp [PS.init, psR]
  have := ren_programLoop ρ .nil (PS.init toks) _ h1
  simp only [stmtListR] at this
  rw [hinit, this]
  simp

/-! ### the instance: one registered infix operator and a built-in operator of its level -/

/-- the built-in binary operators that have no prefix role, one per level: `||` `&&` `==` `<` `+` `*` -/
def levelOp : Nat → Option TokType
  | 3 => some .or | 4 => some .and | 5 => some .eq | 6 => some .lt | 7 => some .plus | 8 => some .multiply
  | _ => none

/-- the configuration a fresh builder produces after `RegisterInfixOperator(dyn n, p)` -/
def cfgInfix (n p : Nat) (tolerant smart : Bool) : PCfg :=
  { tolerant := tolerant, smart := smart, precs := (.dyn n, p) :: basePrecedences,
    infixFns := (.dyn n, .binary) :: baseInfixFns }

theorem cfgInfix_is_builder (n p : Nat) :
    (Builder.new.registerInfix (.dyn n) p).1 = true ∧
    (Builder.new.registerInfix (.dyn n) p).2.config = cfgInfix n p false false := by
  have hn : (Builder.new.regInfix.contains (TokType.dyn n)) = false := by
    simp [Builder.new, basePrecedences]
  have hr : Builder.new.registerInfix (.dyn n) p =
      (true, { Builder.new with infixOps := [(.dyn n, p)], regInfix := .dyn n :: Builder.new.regInfix }) := by
    unfold Builder.registerInfix; rw [hn]; rfl
  rw [hr]
  exact ⟨rfl, rfl⟩

/-- replace the registered token type by the built-in operator -/
def swap (n : Nat) (b : TokType) : TokType → TokType := fun t => if t == .dyn n then b else t

theorem infixRenaming (n p : Nat) (b : TokType) (hb : levelOp p = some b) (tolerant smart : Bool) :
    ∃ ρ : Renaming (cfgInfix n p tolerant smart), ρ.f = swap n b := by
  have hcases : (p = 3 ∧ b = .or) ∨ (p = 4 ∧ b = .and) ∨ (p = 5 ∧ b = .eq) ∨ (p = 6 ∧ b = .lt) ∨ (p = 7 ∧ b = .plus) ∨
      (p = 8 ∧ b = .multiply) := by
    unfold levelOp at hb
    split at hb <;> simp_all
  refine ⟨{ f := swap n b, moves := ?_, precs := ?_, prefixFns := ?_, infixFns := ?_ }, rfl⟩
  · intro t ht
    unfold swap at ht ⊢
    by_cases e : (t == TokType.dyn n) = true
    · have : t = .dyn n := by simpa using e
      subst this
      simp only [beq_self_eq_true, if_true]
      rcases hcases with h | h | h | h | h | h <;> (rw [h.2]; exact ⟨rfl, rfl⟩)
    · simp [e] at ht
  all_goals
    intro t
    unfold swap cfgInfix
    by_cases e : (t == TokType.dyn n) = true
    · have : t = .dyn n := by simpa using e
      subst this
      simp only [beq_self_eq_true, if_true]
      rcases hcases with h | h | h | h | h | h <;> (obtain ⟨rfl, rfl⟩ := h; simp [Total.lookup_cons, lookup, basePrecedences, baseInfixFns, basePrefixFns, LOGICAL_OR, LOGICAL_AND, EQUALITY, COMPARISON, SUM, PRODUCT])
    · simp [e]

end Xjs.Ren
