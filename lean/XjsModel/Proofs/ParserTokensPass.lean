import XjsModel.Proofs.ParserTokens
import XjsModel.Proofs.Tactics
/-
  The token-faithfulness pass (C12, C01, C02): a parse step that records no error has consumed exactly the
  token sequence of the node it returns (without `;` and `,`), in order — nothing skipped, nothing invented.
-/
namespace Xjs
set_option linter.unusedSimpArgs false
set_option linter.unusedVariables false

syntax "tok_close" : tactic
macro_rules
  | `(tactic| tok_close) => `(tactic| (
      simp only [elen_next, elen_push, elen_pop, elen_addError, elen_addErrorAt, elen_set, elen_setPrec, elen_setTrace,
        elen_expectToken, elen_expectSemi] at *
      first
        | (refine ⟨?_, Or.inr ?_⟩ <;> first | omega | (simp_all [expErr, semiErr] <;> omega))
        | (refine ⟨?_, Or.inl ?_⟩
           · first | omega | (simp_all [expErr, semiErr] <;> omega)
           · first
               | (intro P hP; spec_all P
                  have hP' := append_ext hP
                  (simp_all (maxDischargeDepth := 6) [expErr, semiErr, Expr.flat, Stmt.flat, ExprList.flat, StmtList.flat, PropList.flat, ExprList.flat_snoc, StmtList.flat_snoc, PropList.flat_snoc, Expr.isNone, Stmt.isNone, identsFlat, F_cons_cons, F_cons_append, F_cons_eflat, F_cons_sflat, F_cons_elflat, F_cons_slflat, F_cons_plflat, F_cons_map, F_cons_ite, FL_expectToken_ok, FC_expectToken_ok, cur_expectToken_ok, FL_expectSemi_ok, next_cur, List.append_assoc]) <;> (try solve_by_elim); done)
               | (refine ⟨by simp_all [Expr.isNone], ?_⟩; intro P hP; spec_all P
                  have hP' := append_ext hP
                  (simp_all (maxDischargeDepth := 6) [expErr, semiErr, Expr.flat, Stmt.flat, ExprList.flat, StmtList.flat, PropList.flat, ExprList.flat_snoc, StmtList.flat_snoc, PropList.flat_snoc, Expr.isNone, Stmt.isNone, identsFlat, F_cons_cons, F_cons_append, F_cons_eflat, F_cons_sflat, F_cons_elflat, F_cons_slflat, F_cons_plflat, F_cons_map, F_cons_ite, FL_expectToken_ok, FC_expectToken_ok, cur_expectToken_ok, FL_expectSemi_ok, next_cur, List.append_assoc]) <;> (try solve_by_elim); done)
               | ((simp_all (maxDischargeDepth := 6) [expErr, semiErr, Expr.flat, Stmt.flat, ExprList.flat, StmtList.flat, PropList.flat, ExprList.flat_snoc, StmtList.flat_snoc, PropList.flat_snoc, Expr.isNone, Stmt.isNone, identsFlat, F_cons_cons, F_cons_append, F_cons_eflat, F_cons_sflat, F_cons_elflat, F_cons_slflat, F_cons_plflat, F_cons_map, F_cons_ite, FL_expectToken_ok, FC_expectToken_ok, cur_expectToken_ok, FL_expectSemi_ok, next_cur, List.append_assoc]) <;> (try solve_by_elim); done)
               | (spec_all (FC $(Lean.mkIdent `st)); (simp_all (maxDischargeDepth := 6) [expErr, semiErr, Expr.flat, Stmt.flat, ExprList.flat, StmtList.flat, PropList.flat, ExprList.flat_snoc, StmtList.flat_snoc, PropList.flat_snoc, Expr.isNone, Stmt.isNone, identsFlat, F_cons_cons, F_cons_append, F_cons_eflat, F_cons_sflat, F_cons_elflat, F_cons_slflat, F_cons_plflat, F_cons_map, F_cons_ite, FL_expectToken_ok, FC_expectToken_ok, cur_expectToken_ok, FL_expectSemi_ok, next_cur, List.append_assoc]) <;> (try solve_by_elim); done)
               | (spec_all (FL $(Lean.mkIdent `st)); (simp_all (maxDischargeDepth := 6) [expErr, semiErr, Expr.flat, Stmt.flat, ExprList.flat, StmtList.flat, PropList.flat, ExprList.flat_snoc, StmtList.flat_snoc, PropList.flat_snoc, Expr.isNone, Stmt.isNone, identsFlat, F_cons_cons, F_cons_append, F_cons_eflat, F_cons_sflat, F_cons_elflat, F_cons_slflat, F_cons_plflat, F_cons_map, F_cons_ite, FL_expectToken_ok, FC_expectToken_ok, cur_expectToken_ok, FL_expectSemi_ok, next_cur, List.append_assoc]) <;> (try solve_by_elim); done)
               | (spec_all (FL $(Lean.mkIdent `st)); simp only [FL_eq] at *; (simp_all (maxDischargeDepth := 6) [expErr, semiErr, Expr.flat, Stmt.flat, ExprList.flat, StmtList.flat, PropList.flat, ExprList.flat_snoc, StmtList.flat_snoc, PropList.flat_snoc, Expr.isNone, Stmt.isNone, identsFlat, F_cons_cons, F_cons_append, F_cons_eflat, F_cons_sflat, F_cons_elflat, F_cons_slflat, F_cons_plflat, F_cons_map, F_cons_ite, FL_expectToken_ok, FC_expectToken_ok, cur_expectToken_ok, FL_expectSemi_ok, next_cur, List.append_assoc]) <;> (try solve_by_elim); done))))

set_option maxHeartbeats 3200000 in
theorem tokens_mutual (cfg : PCfg) :
    (∀ is st r, parseStatementI cfg is st = some r → st.elen ≤ r.2.elen ∧ ((r.1.isNone = false ∧ FL r.2 = FC st ++ F r.1.flat) ∨ st.elen < r.2.elen)) ∧
    (∀ st r, baseParseStatement cfg st = some r → st.elen ≤ r.2.elen ∧ ((r.1.isNone = false ∧ FL r.2 = FC st ++ F r.1.flat) ∨ st.elen < r.2.elen)) ∧
    (∀ st r, parseExpressionStatement cfg st = some r → st.elen ≤ r.2.elen ∧ ((r.1.isNone = false ∧ FL r.2 = FC st ++ F r.1.flat) ∨ st.elen < r.2.elen)) ∧
    (∀ is prec st r, parseExpressionI cfg is prec st = some r → st.elen ≤ r.2.elen ∧ ((r.1.isNone = false ∧ FL r.2 = FC st ++ F r.1.flat) ∨ st.elen < r.2.elen)) ∧
    (∀ left prec st r, parseRemaining cfg left prec st = some r → st.elen ≤ r.2.elen ∧ (((left.isNone = false → r.1.isNone = false) ∧ ∀ P, FL st = P ++ F left.flat → FL r.2 = P ++ F r.1.flat) ∨ st.elen < r.2.elen)) ∧
    (∀ left st r, parseInfixExpression cfg left st = some r → st.elen ≤ r.2.elen ∧ (((left.isNone = false → r.1.isNone = false) ∧ ∀ P, FL st = P ++ F left.flat → FL r.2 = P ++ F r.1.flat) ∨ st.elen < r.2.elen)) ∧
    (∀ endTy st r, parseExpressionList cfg endTy st = some r → st.elen ≤ r.2.elen ∧ ((FL r.2 = FL st ++ F r.1.flat ++ F [endTy]) ∨ st.elen < r.2.elen)) ∧
    (∀ acc st r, exprListLoop cfg acc st = some r → st.elen ≤ r.2.elen ∧ ((∀ P, FL st = P ++ F acc.flat → FL r.2 = P ++ F r.1.flat) ∨ st.elen < r.2.elen)) ∧
    (∀ st r, parsePrefixExpression cfg st = some r → st.elen ≤ r.2.elen ∧ ((r.1.isNone = false ∧ FL r.2 = FC st ++ F r.1.flat) ∨ st.elen < r.2.elen)) ∧
    (∀ st r, parseFunctionExpression cfg st = some r → st.elen ≤ r.2.elen ∧ ((r.1.isNone = false ∧ FL r.2 = FC st ++ F r.1.flat) ∨ st.elen < r.2.elen)) ∧
    (∀ st r, parseBlockStatement cfg st = some r → st.elen ≤ r.2.elen ∧ ((r.1.isNone = false ∧ FL r.2 = FC st ++ F r.1.flat) ∨ st.elen < r.2.elen)) ∧
    (∀ acc st r, blockLoop cfg acc st = some r → st.elen ≤ r.2.elen ∧ ((∀ P, FC st = P ++ F acc.flat → FC r.2 = P ++ F r.1.flat) ∨ st.elen < r.2.elen)) ∧
    (∀ st r, parseObjectLiteral cfg st = some r → st.elen ≤ r.2.elen ∧ ((r.1.isNone = false ∧ FL r.2 = FC st ++ F r.1.flat) ∨ st.elen < r.2.elen)) ∧
    (∀ acc st r, objectLoop cfg acc st = some r → st.elen ≤ r.2.elen ∧ ((∀ P, FC st = P ++ F acc.flat → ∃ p, r.1 = some p ∧ FL r.2 = P ++ F p.flat) ∨ st.elen < r.2.elen)) ∧
    (∀ st r, parseForStatement cfg st = some r → st.elen ≤ r.2.elen ∧ ((r.1.isNone = false ∧ FL r.2 = FC st ++ F r.1.flat) ∨ st.elen < r.2.elen)) ∧
    (∀ st r, parseForInit cfg st = some r → st.elen ≤ r.2.elen ∧ ((FL r.2 = FL st ++ F r.1.flat) ∨ st.elen < r.2.elen)) ∧
    (∀ st r, parseLetExpression cfg st = some r → st.elen ≤ r.2.elen ∧ ((r.1.isNone = false ∧ FL r.2 = FC st ++ F r.1.flat) ∨ st.elen < r.2.elen)) ∧
    (∀ st r, parseWhileStatement cfg st = some r → st.elen ≤ r.2.elen ∧ ((r.1.isNone = false ∧ FL r.2 = FC st ++ F r.1.flat) ∨ st.elen < r.2.elen)) ∧
    (∀ st r, parseIfStatement cfg st = some r → st.elen ≤ r.2.elen ∧ ((r.1.isNone = false ∧ FL r.2 = FC st ++ F r.1.flat) ∨ st.elen < r.2.elen)) ∧
    (∀ st r, parseReturnStatement cfg st = some r → st.elen ≤ r.2.elen ∧ ((r.1.isNone = false ∧ FL r.2 = FC st ++ F r.1.flat) ∨ st.elen < r.2.elen)) ∧
    (∀ st r, parseFunctionStatement cfg st = some r → st.elen ≤ r.2.elen ∧ ((r.1.isNone = false ∧ FL r.2 = FC st ++ F r.1.flat) ∨ st.elen < r.2.elen)) ∧
    (∀ st r, parseLetStatement cfg st = some r → st.elen ≤ r.2.elen ∧ ((r.1.isNone = false ∧ FL r.2 = FC st ++ F r.1.flat) ∨ st.elen < r.2.elen)) := by
  refine parseStatementI.mutual_partial_correctness cfg
    (fun _ st r => st.elen ≤ r.2.elen ∧ ((r.1.isNone = false ∧ FL r.2 = FC st ++ F r.1.flat) ∨ st.elen < r.2.elen))
    (fun st r => st.elen ≤ r.2.elen ∧ ((r.1.isNone = false ∧ FL r.2 = FC st ++ F r.1.flat) ∨ st.elen < r.2.elen))
    (fun st r => st.elen ≤ r.2.elen ∧ ((r.1.isNone = false ∧ FL r.2 = FC st ++ F r.1.flat) ∨ st.elen < r.2.elen))
    (fun _ _ st r => st.elen ≤ r.2.elen ∧ ((r.1.isNone = false ∧ FL r.2 = FC st ++ F r.1.flat) ∨ st.elen < r.2.elen))
    (fun left _ st r => st.elen ≤ r.2.elen ∧ (((left.isNone = false → r.1.isNone = false) ∧ ∀ P, FL st = P ++ F left.flat → FL r.2 = P ++ F r.1.flat) ∨ st.elen < r.2.elen))
    (fun left st r => st.elen ≤ r.2.elen ∧ (((left.isNone = false → r.1.isNone = false) ∧ ∀ P, FL st = P ++ F left.flat → FL r.2 = P ++ F r.1.flat) ∨ st.elen < r.2.elen))
    (fun endTy st r => st.elen ≤ r.2.elen ∧ ((FL r.2 = FL st ++ F r.1.flat ++ F [endTy]) ∨ st.elen < r.2.elen))
    (fun acc st r => st.elen ≤ r.2.elen ∧ ((∀ P, FL st = P ++ F acc.flat → FL r.2 = P ++ F r.1.flat) ∨ st.elen < r.2.elen))
    (fun st r => st.elen ≤ r.2.elen ∧ ((r.1.isNone = false ∧ FL r.2 = FC st ++ F r.1.flat) ∨ st.elen < r.2.elen))
    (fun st r => st.elen ≤ r.2.elen ∧ ((r.1.isNone = false ∧ FL r.2 = FC st ++ F r.1.flat) ∨ st.elen < r.2.elen))
    (fun st r => st.elen ≤ r.2.elen ∧ ((r.1.isNone = false ∧ FL r.2 = FC st ++ F r.1.flat) ∨ st.elen < r.2.elen))
    (fun acc st r => st.elen ≤ r.2.elen ∧ ((∀ P, FC st = P ++ F acc.flat → FC r.2 = P ++ F r.1.flat) ∨ st.elen < r.2.elen))
    (fun st r => st.elen ≤ r.2.elen ∧ ((r.1.isNone = false ∧ FL r.2 = FC st ++ F r.1.flat) ∨ st.elen < r.2.elen))
    (fun acc st r => st.elen ≤ r.2.elen ∧ ((∀ P, FC st = P ++ F acc.flat → ∃ p, r.1 = some p ∧ FL r.2 = P ++ F p.flat) ∨ st.elen < r.2.elen))
    (fun st r => st.elen ≤ r.2.elen ∧ ((r.1.isNone = false ∧ FL r.2 = FC st ++ F r.1.flat) ∨ st.elen < r.2.elen))
    (fun st r => st.elen ≤ r.2.elen ∧ ((FL r.2 = FL st ++ F r.1.flat) ∨ st.elen < r.2.elen))
    (fun st r => st.elen ≤ r.2.elen ∧ ((r.1.isNone = false ∧ FL r.2 = FC st ++ F r.1.flat) ∨ st.elen < r.2.elen))
    (fun st r => st.elen ≤ r.2.elen ∧ ((r.1.isNone = false ∧ FL r.2 = FC st ++ F r.1.flat) ∨ st.elen < r.2.elen))
    (fun st r => st.elen ≤ r.2.elen ∧ ((r.1.isNone = false ∧ FL r.2 = FC st ++ F r.1.flat) ∨ st.elen < r.2.elen))
    (fun st r => st.elen ≤ r.2.elen ∧ ((r.1.isNone = false ∧ FL r.2 = FC st ++ F r.1.flat) ∨ st.elen < r.2.elen))
    (fun st r => st.elen ≤ r.2.elen ∧ ((r.1.isNone = false ∧ FL r.2 = FC st ++ F r.1.flat) ∨ st.elen < r.2.elen))
    (fun st r => st.elen ≤ r.2.elen ∧ ((r.1.isNone = false ∧ FL r.2 = FC st ++ F r.1.flat) ∨ st.elen < r.2.elen))
    ?_ ?_ ?_ ?_ ?_ ?_ ?_ ?_ ?_ ?_ ?_ ?_ ?_ ?_ ?_ ?_ ?_ ?_ ?_ ?_ ?_ ?_
  · -- parseStatementI
    intro pS bS ih_pS ih_bS is st r h
    replace ih_pS := curry2 ih_pS; replace ih_bS := curry1 ih_bS
    dsimp only at ih_pS ih_bS ⊢
    obtain ⟨x, st'⟩ := r
    have e0 := FL_eq st
    pdecompD h [ih_pS, ih_bS, tok_parseFunctionParameters]
    all_goals clear ih_pS ih_bS
    all_goals tok_close
  · -- baseParseStatement
    intro f1 f2 f3 f4 f5 f6 f7 f8 ih_f1 ih_f2 ih_f3 ih_f4 ih_f5 ih_f6 ih_f7 ih_f8  st r h
    replace ih_f1 := curry1 ih_f1; replace ih_f2 := curry1 ih_f2; replace ih_f3 := curry1 ih_f3; replace ih_f4 := curry1 ih_f4; replace ih_f5 := curry1 ih_f5; replace ih_f6 := curry1 ih_f6; replace ih_f7 := curry1 ih_f7; replace ih_f8 := curry1 ih_f8
    dsimp only at ih_f1 ih_f2 ih_f3 ih_f4 ih_f5 ih_f6 ih_f7 ih_f8 ⊢
    obtain ⟨x, st'⟩ := r
    split at h
    all_goals first | exact ih_f1 _ _ _ h | exact ih_f2 _ _ _ h | exact ih_f3 _ _ _ h | exact ih_f4 _ _ _ h
                    | exact ih_f5 _ _ _ h | exact ih_f6 _ _ _ h | exact ih_f7 _ _ _ h | exact ih_f8 _ _ _ h
  · -- parseExpressionStatement
    intro pE ih_pE  st r h
    replace ih_pE := curry3 ih_pE
    dsimp only at ih_pE ⊢
    obtain ⟨x, st'⟩ := r
    have e0 := FL_eq st
    pdecompD h [ih_pE, tok_parseFunctionParameters]
    all_goals clear ih_pE
    all_goals tok_close
  · -- parseExpressionI
    intro pE pR pP ih_pE ih_pR ih_pP is prec st r h
    replace ih_pE := curry3 ih_pE; replace ih_pR := curry3 ih_pR; replace ih_pP := curry1 ih_pP
    dsimp only at ih_pE ih_pR ih_pP ⊢
    obtain ⟨x, st'⟩ := r
    have e0 := FL_eq st
    pdecompD h [ih_pE, ih_pR, ih_pP, tok_parseFunctionParameters]
    all_goals clear ih_pE ih_pR ih_pP
    all_goals tok_close
  · -- parseRemaining
    intro pR pI ih_pR ih_pI left prec st r h
    replace ih_pR := curry3 ih_pR; replace ih_pI := curry2 ih_pI
    dsimp only at ih_pR ih_pI ⊢
    obtain ⟨x, st'⟩ := r
    have e0 := FL_eq st
    pdecompD h [ih_pR, ih_pI, tok_parseFunctionParameters]
    all_goals clear ih_pR ih_pI
    all_goals tok_close
  · -- parseInfixExpression
    intro pE pL ih_pE ih_pL left st r h
    replace ih_pE := curry3 ih_pE; replace ih_pL := curry2 ih_pL
    dsimp only at ih_pE ih_pL ⊢
    obtain ⟨x, st'⟩ := r
    have e0 := FL_eq st
    pdecompD h [ih_pE, ih_pL, tok_parseFunctionParameters]
    all_goals clear ih_pE ih_pL
    all_goals tok_close
  · -- parseExpressionList
    intro pE eL ih_pE ih_eL endTy st r h
    replace ih_pE := curry3 ih_pE; replace ih_eL := curry2 ih_eL
    dsimp only at ih_pE ih_eL ⊢
    obtain ⟨x, st'⟩ := r
    have e0 := FL_eq st
    pdecompD h [ih_pE, ih_eL, tok_parseFunctionParameters]
    all_goals clear ih_pE ih_eL
    all_goals tok_close
  · -- exprListLoop
    intro pE eL ih_pE ih_eL acc st r h
    replace ih_pE := curry3 ih_pE; replace ih_eL := curry2 ih_eL
    dsimp only at ih_pE ih_eL ⊢
    obtain ⟨x, st'⟩ := r
    have e0 := FL_eq st
    pdecompD h [ih_pE, ih_eL, tok_parseFunctionParameters]
    all_goals clear ih_pE ih_eL
    all_goals tok_close
  · -- parsePrefixExpression
    intro pE pL pFE pO ih_pE ih_pL ih_pFE ih_pO  st r h
    replace ih_pE := curry3 ih_pE; replace ih_pL := curry2 ih_pL; replace ih_pFE := curry1 ih_pFE; replace ih_pO := curry1 ih_pO
    dsimp only at ih_pE ih_pL ih_pFE ih_pO ⊢
    obtain ⟨x, st'⟩ := r
    have e0 := FL_eq st
    pdecompD h [ih_pE, ih_pL, ih_pFE, ih_pO, tok_parseFunctionParameters]
    all_goals clear ih_pE ih_pL ih_pFE ih_pO
    all_goals tok_close
  · -- parseFunctionExpression
    intro pB ih_pB  st r h
    replace ih_pB := curry1 ih_pB
    dsimp only at ih_pB ⊢
    obtain ⟨x, st'⟩ := r
    have e0 := FL_eq st
    pdecompD h [ih_pB, tok_parseFunctionParameters]
    all_goals clear ih_pB
    all_goals tok_close
  · -- parseBlockStatement
    intro bL ih_bL  st r h
    replace ih_bL := curry2 ih_bL
    dsimp only at ih_bL ⊢
    obtain ⟨x, st'⟩ := r
    have e0 := FL_eq st
    pdecompD h [ih_bL, tok_parseFunctionParameters]
    all_goals clear ih_bL
    all_goals (simp only [elen_next, elen_push, elen_pop, elen_addError, elen_addErrorAt] at *)
    all_goals first
      | (refine ⟨?_, Or.inr ?_⟩ <;> omega)
      | (refine ⟨?_, Or.inl ⟨by simp [Stmt.isNone], ?_⟩⟩
         · omega
         · spec_all (FL st)
           simp only [FC_next, FL_push, StmtList.flat, F_nil, List.append_nil, forall_const] at *
           simp only [FL_pop, FL_addError, cur_pop, cur_addError, Stmt.flat, F_cons_append, F_append, FL_eq]
           simp_all [List.append_assoc, F_cons_slflat])
  · -- blockLoop
    intro pS bL ih_pS ih_bL acc st r h
    replace ih_pS := curry2 ih_pS; replace ih_bL := curry2 ih_bL
    dsimp only at ih_pS ih_bL ⊢
    obtain ⟨x, st'⟩ := r
    have e0 := FL_eq st
    pdecompD h [ih_pS, ih_bL, tok_parseFunctionParameters]
    all_goals clear ih_pS ih_bL
    all_goals tok_close
  · -- parseObjectLiteral
    intro oL ih_oL  st r h
    replace ih_oL := curry2 ih_oL
    dsimp only at ih_oL ⊢
    obtain ⟨x, st'⟩ := r
    have e0 := FL_eq st
    pdecompD h [ih_oL, tok_parseFunctionParameters]
    all_goals clear ih_oL
    all_goals tok_close
  · -- objectLoop
    intro pE oL ih_pE ih_oL acc st r h
    replace ih_pE := curry3 ih_pE; replace ih_oL := curry2 ih_oL
    dsimp only at ih_pE ih_oL ⊢
    obtain ⟨x, st'⟩ := r
    have e0 := FL_eq st
    pdecompD h [ih_pE, ih_oL, tok_parseFunctionParameters]
    all_goals clear ih_pE ih_oL
    all_goals tok_close
  · -- parseForStatement
    intro pS pE pFI ih_pS ih_pE ih_pFI  st r h
    replace ih_pS := curry2 ih_pS; replace ih_pE := curry3 ih_pE; replace ih_pFI := curry1 ih_pFI
    dsimp only at ih_pS ih_pE ih_pFI ⊢
    obtain ⟨x, st'⟩ := r
    have e0 := FL_eq st
    pdecompD h [ih_pS, ih_pE, ih_pFI, tok_parseFunctionParameters]
    all_goals clear ih_pS ih_pE ih_pFI
    all_goals tok_close
  · -- parseForInit
    intro pE pLE ih_pE ih_pLE  st r h
    replace ih_pE := curry3 ih_pE; replace ih_pLE := curry1 ih_pLE
    dsimp only at ih_pE ih_pLE ⊢
    obtain ⟨x, st'⟩ := r
    have e0 := FL_eq st
    pdecompD h [ih_pE, ih_pLE, tok_parseFunctionParameters]
    all_goals clear ih_pE ih_pLE
    all_goals tok_close
  · -- parseLetExpression
    intro pE ih_pE  st r h
    replace ih_pE := curry3 ih_pE
    dsimp only at ih_pE ⊢
    obtain ⟨x, st'⟩ := r
    have e0 := FL_eq st
    pdecompD h [ih_pE, tok_parseFunctionParameters]
    all_goals clear ih_pE
    all_goals tok_close
  · -- parseWhileStatement
    intro pS pE ih_pS ih_pE  st r h
    replace ih_pS := curry2 ih_pS; replace ih_pE := curry3 ih_pE
    dsimp only at ih_pS ih_pE ⊢
    obtain ⟨x, st'⟩ := r
    have e0 := FL_eq st
    pdecompD h [ih_pS, ih_pE, tok_parseFunctionParameters]
    all_goals clear ih_pS ih_pE
    all_goals tok_close
  · -- parseIfStatement
    intro pS pE ih_pS ih_pE  st r h
    replace ih_pS := curry2 ih_pS; replace ih_pE := curry3 ih_pE
    dsimp only at ih_pS ih_pE ⊢
    obtain ⟨x, st'⟩ := r
    have e0 := FL_eq st
    pdecompD h [ih_pS, ih_pE, tok_parseFunctionParameters]
    all_goals clear ih_pS ih_pE
    all_goals tok_close
  · -- parseReturnStatement
    intro pE ih_pE  st r h
    replace ih_pE := curry3 ih_pE
    dsimp only at ih_pE ⊢
    obtain ⟨x, st'⟩ := r
    have e0 := FL_eq st
    pdecompD h [ih_pE, tok_parseFunctionParameters]
    all_goals clear ih_pE
    all_goals tok_close
  · -- parseFunctionStatement
    intro pB ih_pB  st r h
    replace ih_pB := curry1 ih_pB
    dsimp only at ih_pB ⊢
    obtain ⟨x, st'⟩ := r
    have e0 := FL_eq st
    pdecompD h [ih_pB, tok_parseFunctionParameters]
    all_goals clear ih_pB
    all_goals tok_close
  · -- parseLetStatement
    intro pE ih_pE  st r h
    replace ih_pE := curry3 ih_pE
    dsimp only at ih_pE ⊢
    obtain ⟨x, st'⟩ := r
    have e0 := FL_eq st
    pdecompD h [ih_pE, tok_parseFunctionParameters]
    all_goals clear ih_pE
    all_goals tok_close

end Xjs
