import XjsModel.Proofs.ParserTokens
import XjsModel.Proofs.ParserSteps
/-
  Restricted production in the tree (C15): every postfix `++` / `--` node the parser makes stands on the line of its
  operand — its token does not follow a line break. For every input, mode and table, whatever errors were reported.
-/
namespace Xjs
set_option linter.unusedSimpArgs false
set_option linter.unusedVariables false

/-- not a `++` / `--` after a line break -/
def Token.pfOk (t : Token) : Bool := !((t.type == .increment || t.type == .decrement) && t.nl)
/-- the table reads the token as a postfix operator -/
def Token.isPostfixOf (cfg : PCfg) (t : Token) : Bool := lookup cfg.infixFns t.type == some .postfix

mutual
  def Expr.pfOk (cfg : PCfg) : Expr → Bool
    | .none | .ident _ | .int _ | .float _ | .str _ _ | .raw _ _ | .bool _ _ | .null _ => true
    | .letE _ _ v => v.pfOk cfg
    | .binary _ l _ r => l.pfOk cfg && r.pfOk cfg
    | .unary _ _ r => r.pfOk cfg
    | .postfix tok l _ => tok.pfOk && tok.isPostfixOf cfg && l.pfOk cfg
    | .group _ e _ => e.pfOk cfg
    | .call _ f args => f.pfOk cfg && args.pfOk cfg
    | .member _ o p _ => o.pfOk cfg && p.pfOk cfg
    | .assign _ l v => l.pfOk cfg && v.pfOk cfg
    | .compound _ l _ v => l.pfOk cfg && v.pfOk cfg
    | .func _ _ _ body => body.pfOk cfg
    | .array _ es _ => es.pfOk cfg
    | .object _ ps _ => ps.pfOk cfg
  def Stmt.pfOk (cfg : PCfg) : Stmt → Bool
    | .none => true
    | .letS _ _ v => v.pfOk cfg
    | .ret _ v => v.pfOk cfg
    | .exprS e => e.pfOk cfg
    | .funcD _ _ _ body => body.pfOk cfg
    | .block _ ss _ => ss.pfOk cfg
    | .ifS _ c t e => c.pfOk cfg && t.pfOk cfg && e.pfOk cfg
    | .whileS _ c b => c.pfOk cfg && b.pfOk cfg
    | .forS _ i c u b => i.pfOk cfg && c.pfOk cfg && u.pfOk cfg && b.pfOk cfg
  def ExprList.pfOk (cfg : PCfg) : ExprList → Bool
    | .nil => true
    | .cons e t => e.pfOk cfg && t.pfOk cfg
  def StmtList.pfOk (cfg : PCfg) : StmtList → Bool
    | .nil => true
    | .cons s t => s.pfOk cfg && t.pfOk cfg
  def PropList.pfOk (cfg : PCfg) : PropList → Bool
    | .nil => true
    | .cons k v t => k.pfOk cfg && v.pfOk cfg && t.pfOk cfg
end

theorem StmtList.pfOk_snoc (cfg : PCfg) : ∀ (l : StmtList) (s : Stmt), (l.snoc s).pfOk cfg = (l.pfOk cfg && s.pfOk cfg)
  | .nil, s => by simp [StmtList.snoc, StmtList.pfOk]
  | .cons x t, s => by simp [StmtList.snoc, StmtList.pfOk, StmtList.pfOk_snoc cfg t s, Bool.and_assoc]
theorem ExprList.pfOk_snoc (cfg : PCfg) : ∀ (l : ExprList) (e : Expr), (l.snoc e).pfOk cfg = (l.pfOk cfg && e.pfOk cfg)
  | .nil, e => by simp [ExprList.snoc, ExprList.pfOk]
  | .cons x t, e => by simp [ExprList.snoc, ExprList.pfOk, ExprList.pfOk_snoc cfg t e, Bool.and_assoc]
theorem PropList.pfOk_snoc (cfg : PCfg) : ∀ (l : PropList) (k v : Expr), (l.snoc k v).pfOk cfg = (l.pfOk cfg && k.pfOk cfg && v.pfOk cfg)
  | .nil, k, v => by simp [PropList.snoc, PropList.pfOk]
  | .cons a b t, k, v => by simp [PropList.snoc, PropList.pfOk, PropList.pfOk_snoc cfg t k v, Bool.and_assoc]

set_option maxHeartbeats 3200000 in
theorem pf_mutual (cfg : PCfg) :
    (∀ is st r, parseStatementI cfg is st = some r → r.1.pfOk cfg = true) ∧
    (∀ st r, baseParseStatement cfg st = some r → r.1.pfOk cfg = true) ∧
    (∀ st r, parseExpressionStatement cfg st = some r → r.1.pfOk cfg = true) ∧
    (∀ is prec st r, parseExpressionI cfg is prec st = some r → r.1.pfOk cfg = true) ∧
    (∀ left prec st r, parseRemaining cfg left prec st = some r → left.pfOk cfg = true → r.1.pfOk cfg = true) ∧
    (∀ left st r, parseInfixExpression cfg left st = some r → st.peek.pfOk = true → left.pfOk cfg = true → r.1.pfOk cfg = true) ∧
    (∀ endTy st r, parseExpressionList cfg endTy st = some r → r.1.pfOk cfg = true) ∧
    (∀ acc st r, exprListLoop cfg acc st = some r → acc.pfOk cfg = true → r.1.pfOk cfg = true) ∧
    (∀ st r, parsePrefixExpression cfg st = some r → r.1.pfOk cfg = true) ∧
    (∀ st r, parseFunctionExpression cfg st = some r → r.1.pfOk cfg = true) ∧
    (∀ st r, parseBlockStatement cfg st = some r → r.1.pfOk cfg = true) ∧
    (∀ acc st r, blockLoop cfg acc st = some r → acc.pfOk cfg = true → r.1.pfOk cfg = true) ∧
    (∀ st r, parseObjectLiteral cfg st = some r → r.1.pfOk cfg = true) ∧
    (∀ acc st r, objectLoop cfg acc st = some r → acc.pfOk cfg = true → ∀ p, r.1 = some p → p.pfOk cfg = true) ∧
    (∀ st r, parseForStatement cfg st = some r → r.1.pfOk cfg = true) ∧
    (∀ st r, parseForInit cfg st = some r → r.1.pfOk cfg = true) ∧
    (∀ st r, parseLetExpression cfg st = some r → r.1.pfOk cfg = true) ∧
    (∀ st r, parseWhileStatement cfg st = some r → r.1.pfOk cfg = true) ∧
    (∀ st r, parseIfStatement cfg st = some r → r.1.pfOk cfg = true) ∧
    (∀ st r, parseReturnStatement cfg st = some r → r.1.pfOk cfg = true) ∧
    (∀ st r, parseFunctionStatement cfg st = some r → r.1.pfOk cfg = true) ∧
    (∀ st r, parseLetStatement cfg st = some r → r.1.pfOk cfg = true) := by
  refine parseStatementI.mutual_partial_correctness cfg
    (fun _ _ r => r.1.pfOk cfg = true)
    (fun _ r => r.1.pfOk cfg = true)
    (fun _ r => r.1.pfOk cfg = true)
    (fun _ _ _ r => r.1.pfOk cfg = true)
    (fun left _ _ r => left.pfOk cfg = true → r.1.pfOk cfg = true)
    (fun left st r => st.peek.pfOk = true → left.pfOk cfg = true → r.1.pfOk cfg = true)
    (fun _ _ r => r.1.pfOk cfg = true)
    (fun acc _ r => acc.pfOk cfg = true → r.1.pfOk cfg = true)
    (fun _ r => r.1.pfOk cfg = true)
    (fun _ r => r.1.pfOk cfg = true)
    (fun _ r => r.1.pfOk cfg = true)
    (fun acc _ r => acc.pfOk cfg = true → r.1.pfOk cfg = true)
    (fun _ r => r.1.pfOk cfg = true)
    (fun acc _ r => acc.pfOk cfg = true → ∀ p, r.1 = some p → p.pfOk cfg = true)
    (fun _ r => r.1.pfOk cfg = true)
    (fun _ r => r.1.pfOk cfg = true)
    (fun _ r => r.1.pfOk cfg = true)
    (fun _ r => r.1.pfOk cfg = true)
    (fun _ r => r.1.pfOk cfg = true)
    (fun _ r => r.1.pfOk cfg = true)
    (fun _ r => r.1.pfOk cfg = true)
    (fun _ r => r.1.pfOk cfg = true)
    ?_ ?_ ?_ ?_ ?_ ?_ ?_ ?_ ?_ ?_ ?_ ?_ ?_ ?_ ?_ ?_ ?_ ?_ ?_ ?_ ?_ ?_
  · -- parseStatementI
    intro pS bS ih_pS ih_bS is st r h
    replace ih_pS := curry2 ih_pS; replace ih_bS := curry1 ih_bS
    dsimp only at ih_pS ih_bS ⊢
    obtain ⟨x, st'⟩ := r
    pdecompW h [ih_pS, ih_bS]
    all_goals clear ih_pS ih_bS
    all_goals (try intro _ _)
    all_goals (try intro _)
    all_goals simp_all [Expr.pfOk, Stmt.pfOk, ExprList.pfOk, StmtList.pfOk, PropList.pfOk, StmtList.pfOk_snoc, ExprList.pfOk_snoc, PropList.pfOk_snoc, Stmt.isNone, Token.pfOk, Token.isPostfixOf, next_cur]
    all_goals (try (intro hh; subst hh; simp_all [Expr.pfOk, Stmt.pfOk, ExprList.pfOk, StmtList.pfOk, PropList.pfOk, StmtList.pfOk_snoc, ExprList.pfOk_snoc, PropList.pfOk_snoc, Stmt.isNone, Token.pfOk, Token.isPostfixOf, next_cur]))
    all_goals (try (subst_vars; simp_all [Expr.pfOk, Stmt.pfOk, ExprList.pfOk, StmtList.pfOk, PropList.pfOk, StmtList.pfOk_snoc, ExprList.pfOk_snoc, PropList.pfOk_snoc, Stmt.isNone, Token.pfOk, Token.isPostfixOf, next_cur]))
    all_goals (try (apply_assumption; apply_assumption; by_cases hn : st.peek.nl = true <;> simp_all))
  · -- baseParseStatement
    intro f1 f2 f3 f4 f5 f6 f7 f8 ih_f1 ih_f2 ih_f3 ih_f4 ih_f5 ih_f6 ih_f7 ih_f8  st r h
    replace ih_f1 := curry1 ih_f1; replace ih_f2 := curry1 ih_f2; replace ih_f3 := curry1 ih_f3; replace ih_f4 := curry1 ih_f4; replace ih_f5 := curry1 ih_f5; replace ih_f6 := curry1 ih_f6; replace ih_f7 := curry1 ih_f7; replace ih_f8 := curry1 ih_f8
    dsimp only at ih_f1 ih_f2 ih_f3 ih_f4 ih_f5 ih_f6 ih_f7 ih_f8 ⊢
    obtain ⟨x, st'⟩ := r
    split at h
    all_goals first | exact ih_f1 _ _ _ h | exact ih_f2 _ _ _ h | exact ih_f3 _ _ _ h | exact ih_f4 _ _ _ h
                    | exact ih_f5 _ _ _ h | exact ih_f6 _ _ _ h | exact ih_f7 _ _ _ h | exact ih_f8 _ _ _ h
  · -- parseExpressionStatement
    intro pE ih_pE  st r h
    replace ih_pE := curry3 ih_pE
    dsimp only at ih_pE ⊢
    obtain ⟨x, st'⟩ := r
    pdecompW h [ih_pE]
    all_goals clear ih_pE
    all_goals (try intro _ _)
    all_goals (try intro _)
    all_goals simp_all [Expr.pfOk, Stmt.pfOk, ExprList.pfOk, StmtList.pfOk, PropList.pfOk, StmtList.pfOk_snoc, ExprList.pfOk_snoc, PropList.pfOk_snoc, Stmt.isNone, Token.pfOk, Token.isPostfixOf, next_cur]
    all_goals (try (intro hh; subst hh; simp_all [Expr.pfOk, Stmt.pfOk, ExprList.pfOk, StmtList.pfOk, PropList.pfOk, StmtList.pfOk_snoc, ExprList.pfOk_snoc, PropList.pfOk_snoc, Stmt.isNone, Token.pfOk, Token.isPostfixOf, next_cur]))
    all_goals (try (subst_vars; simp_all [Expr.pfOk, Stmt.pfOk, ExprList.pfOk, StmtList.pfOk, PropList.pfOk, StmtList.pfOk_snoc, ExprList.pfOk_snoc, PropList.pfOk_snoc, Stmt.isNone, Token.pfOk, Token.isPostfixOf, next_cur]))
    all_goals (try (apply_assumption; apply_assumption; by_cases hn : st.peek.nl = true <;> simp_all))
  · -- parseExpressionI
    intro pE pR pP ih_pE ih_pR ih_pP is prec st r h
    replace ih_pE := curry3 ih_pE; replace ih_pR := curry3 ih_pR; replace ih_pP := curry1 ih_pP
    dsimp only at ih_pE ih_pR ih_pP ⊢
    obtain ⟨x, st'⟩ := r
    pdecompW h [ih_pE, ih_pR, ih_pP]
    all_goals clear ih_pE ih_pR ih_pP
    all_goals (try intro _ _)
    all_goals (try intro _)
    all_goals simp_all [Expr.pfOk, Stmt.pfOk, ExprList.pfOk, StmtList.pfOk, PropList.pfOk, StmtList.pfOk_snoc, ExprList.pfOk_snoc, PropList.pfOk_snoc, Stmt.isNone, Token.pfOk, Token.isPostfixOf, next_cur]
    all_goals (try (intro hh; subst hh; simp_all [Expr.pfOk, Stmt.pfOk, ExprList.pfOk, StmtList.pfOk, PropList.pfOk, StmtList.pfOk_snoc, ExprList.pfOk_snoc, PropList.pfOk_snoc, Stmt.isNone, Token.pfOk, Token.isPostfixOf, next_cur]))
    all_goals (try (subst_vars; simp_all [Expr.pfOk, Stmt.pfOk, ExprList.pfOk, StmtList.pfOk, PropList.pfOk, StmtList.pfOk_snoc, ExprList.pfOk_snoc, PropList.pfOk_snoc, Stmt.isNone, Token.pfOk, Token.isPostfixOf, next_cur]))
    all_goals (try (apply_assumption; apply_assumption; by_cases hn : st.peek.nl = true <;> simp_all))
  · -- parseRemaining
    intro pR pI ih_pR ih_pI left prec st r h
    replace ih_pR := curry3 ih_pR; replace ih_pI := curry2 ih_pI
    dsimp only at ih_pR ih_pI ⊢
    obtain ⟨x, st'⟩ := r
    pdecompW h [ih_pR, ih_pI]
    all_goals clear ih_pR ih_pI
    all_goals (try intro _ _)
    all_goals (try intro _)
    all_goals simp_all [Expr.pfOk, Stmt.pfOk, ExprList.pfOk, StmtList.pfOk, PropList.pfOk, StmtList.pfOk_snoc, ExprList.pfOk_snoc, PropList.pfOk_snoc, Stmt.isNone, Token.pfOk, Token.isPostfixOf, next_cur]
    all_goals (try (intro hh; subst hh; simp_all [Expr.pfOk, Stmt.pfOk, ExprList.pfOk, StmtList.pfOk, PropList.pfOk, StmtList.pfOk_snoc, ExprList.pfOk_snoc, PropList.pfOk_snoc, Stmt.isNone, Token.pfOk, Token.isPostfixOf, next_cur]))
    all_goals (try (subst_vars; simp_all [Expr.pfOk, Stmt.pfOk, ExprList.pfOk, StmtList.pfOk, PropList.pfOk, StmtList.pfOk_snoc, ExprList.pfOk_snoc, PropList.pfOk_snoc, Stmt.isNone, Token.pfOk, Token.isPostfixOf, next_cur]))
    all_goals (try (apply_assumption; apply_assumption; by_cases hn : st.peek.nl = true <;> simp_all))
  · -- parseInfixExpression
    intro pE pL ih_pE ih_pL left st r h
    replace ih_pE := curry3 ih_pE; replace ih_pL := curry2 ih_pL
    dsimp only at ih_pE ih_pL ⊢
    obtain ⟨x, st'⟩ := r
    pdecompW h [ih_pE, ih_pL]
    all_goals clear ih_pE ih_pL
    all_goals (try intro _ _)
    all_goals (try intro _)
    all_goals simp_all [Expr.pfOk, Stmt.pfOk, ExprList.pfOk, StmtList.pfOk, PropList.pfOk, StmtList.pfOk_snoc, ExprList.pfOk_snoc, PropList.pfOk_snoc, Stmt.isNone, Token.pfOk, Token.isPostfixOf, next_cur]
    all_goals (try (intro hh; subst hh; simp_all [Expr.pfOk, Stmt.pfOk, ExprList.pfOk, StmtList.pfOk, PropList.pfOk, StmtList.pfOk_snoc, ExprList.pfOk_snoc, PropList.pfOk_snoc, Stmt.isNone, Token.pfOk, Token.isPostfixOf, next_cur]))
    all_goals (try (subst_vars; simp_all [Expr.pfOk, Stmt.pfOk, ExprList.pfOk, StmtList.pfOk, PropList.pfOk, StmtList.pfOk_snoc, ExprList.pfOk_snoc, PropList.pfOk_snoc, Stmt.isNone, Token.pfOk, Token.isPostfixOf, next_cur]))
    all_goals (try (apply_assumption; apply_assumption; by_cases hn : st.peek.nl = true <;> simp_all))
  · -- parseExpressionList
    intro pE eL ih_pE ih_eL endTy st r h
    replace ih_pE := curry3 ih_pE; replace ih_eL := curry2 ih_eL
    dsimp only at ih_pE ih_eL ⊢
    obtain ⟨x, st'⟩ := r
    pdecompW h [ih_pE, ih_eL]
    all_goals clear ih_pE ih_eL
    all_goals (try intro _ _)
    all_goals (try intro _)
    all_goals simp_all [Expr.pfOk, Stmt.pfOk, ExprList.pfOk, StmtList.pfOk, PropList.pfOk, StmtList.pfOk_snoc, ExprList.pfOk_snoc, PropList.pfOk_snoc, Stmt.isNone, Token.pfOk, Token.isPostfixOf, next_cur]
    all_goals (try (intro hh; subst hh; simp_all [Expr.pfOk, Stmt.pfOk, ExprList.pfOk, StmtList.pfOk, PropList.pfOk, StmtList.pfOk_snoc, ExprList.pfOk_snoc, PropList.pfOk_snoc, Stmt.isNone, Token.pfOk, Token.isPostfixOf, next_cur]))
    all_goals (try (subst_vars; simp_all [Expr.pfOk, Stmt.pfOk, ExprList.pfOk, StmtList.pfOk, PropList.pfOk, StmtList.pfOk_snoc, ExprList.pfOk_snoc, PropList.pfOk_snoc, Stmt.isNone, Token.pfOk, Token.isPostfixOf, next_cur]))
    all_goals (try (apply_assumption; apply_assumption; by_cases hn : st.peek.nl = true <;> simp_all))
  · -- exprListLoop
    intro pE eL ih_pE ih_eL acc st r h
    replace ih_pE := curry3 ih_pE; replace ih_eL := curry2 ih_eL
    dsimp only at ih_pE ih_eL ⊢
    obtain ⟨x, st'⟩ := r
    pdecompW h [ih_pE, ih_eL]
    all_goals clear ih_pE ih_eL
    all_goals (try intro _ _)
    all_goals (try intro _)
    all_goals simp_all [Expr.pfOk, Stmt.pfOk, ExprList.pfOk, StmtList.pfOk, PropList.pfOk, StmtList.pfOk_snoc, ExprList.pfOk_snoc, PropList.pfOk_snoc, Stmt.isNone, Token.pfOk, Token.isPostfixOf, next_cur]
    all_goals (try (intro hh; subst hh; simp_all [Expr.pfOk, Stmt.pfOk, ExprList.pfOk, StmtList.pfOk, PropList.pfOk, StmtList.pfOk_snoc, ExprList.pfOk_snoc, PropList.pfOk_snoc, Stmt.isNone, Token.pfOk, Token.isPostfixOf, next_cur]))
    all_goals (try (subst_vars; simp_all [Expr.pfOk, Stmt.pfOk, ExprList.pfOk, StmtList.pfOk, PropList.pfOk, StmtList.pfOk_snoc, ExprList.pfOk_snoc, PropList.pfOk_snoc, Stmt.isNone, Token.pfOk, Token.isPostfixOf, next_cur]))
    all_goals (try (apply_assumption; apply_assumption; by_cases hn : st.peek.nl = true <;> simp_all))
  · -- parsePrefixExpression
    intro pE pL pFE pO ih_pE ih_pL ih_pFE ih_pO  st r h
    replace ih_pE := curry3 ih_pE; replace ih_pL := curry2 ih_pL; replace ih_pFE := curry1 ih_pFE; replace ih_pO := curry1 ih_pO
    dsimp only at ih_pE ih_pL ih_pFE ih_pO ⊢
    obtain ⟨x, st'⟩ := r
    pdecompW h [ih_pE, ih_pL, ih_pFE, ih_pO]
    all_goals clear ih_pE ih_pL ih_pFE ih_pO
    all_goals (try intro _ _)
    all_goals (try intro _)
    all_goals simp_all [Expr.pfOk, Stmt.pfOk, ExprList.pfOk, StmtList.pfOk, PropList.pfOk, StmtList.pfOk_snoc, ExprList.pfOk_snoc, PropList.pfOk_snoc, Stmt.isNone, Token.pfOk, Token.isPostfixOf, next_cur]
    all_goals (try (intro hh; subst hh; simp_all [Expr.pfOk, Stmt.pfOk, ExprList.pfOk, StmtList.pfOk, PropList.pfOk, StmtList.pfOk_snoc, ExprList.pfOk_snoc, PropList.pfOk_snoc, Stmt.isNone, Token.pfOk, Token.isPostfixOf, next_cur]))
    all_goals (try (subst_vars; simp_all [Expr.pfOk, Stmt.pfOk, ExprList.pfOk, StmtList.pfOk, PropList.pfOk, StmtList.pfOk_snoc, ExprList.pfOk_snoc, PropList.pfOk_snoc, Stmt.isNone, Token.pfOk, Token.isPostfixOf, next_cur]))
    all_goals (try (apply_assumption; apply_assumption; by_cases hn : st.peek.nl = true <;> simp_all))
  · -- parseFunctionExpression
    intro pB ih_pB  st r h
    replace ih_pB := curry1 ih_pB
    dsimp only at ih_pB ⊢
    obtain ⟨x, st'⟩ := r
    pdecompW h [ih_pB]
    all_goals clear ih_pB
    all_goals (try intro _ _)
    all_goals (try intro _)
    all_goals simp_all [Expr.pfOk, Stmt.pfOk, ExprList.pfOk, StmtList.pfOk, PropList.pfOk, StmtList.pfOk_snoc, ExprList.pfOk_snoc, PropList.pfOk_snoc, Stmt.isNone, Token.pfOk, Token.isPostfixOf, next_cur]
    all_goals (try (intro hh; subst hh; simp_all [Expr.pfOk, Stmt.pfOk, ExprList.pfOk, StmtList.pfOk, PropList.pfOk, StmtList.pfOk_snoc, ExprList.pfOk_snoc, PropList.pfOk_snoc, Stmt.isNone, Token.pfOk, Token.isPostfixOf, next_cur]))
    all_goals (try (subst_vars; simp_all [Expr.pfOk, Stmt.pfOk, ExprList.pfOk, StmtList.pfOk, PropList.pfOk, StmtList.pfOk_snoc, ExprList.pfOk_snoc, PropList.pfOk_snoc, Stmt.isNone, Token.pfOk, Token.isPostfixOf, next_cur]))
    all_goals (try (apply_assumption; apply_assumption; by_cases hn : st.peek.nl = true <;> simp_all))
  · -- parseBlockStatement
    intro bL ih_bL  st r h
    replace ih_bL := curry2 ih_bL
    dsimp only at ih_bL ⊢
    obtain ⟨x, st'⟩ := r
    pdecompW h [ih_bL]
    all_goals clear ih_bL
    all_goals (try intro _ _)
    all_goals (try intro _)
    all_goals simp_all [Expr.pfOk, Stmt.pfOk, ExprList.pfOk, StmtList.pfOk, PropList.pfOk, StmtList.pfOk_snoc, ExprList.pfOk_snoc, PropList.pfOk_snoc, Stmt.isNone, Token.pfOk, Token.isPostfixOf, next_cur]
    all_goals (try (intro hh; subst hh; simp_all [Expr.pfOk, Stmt.pfOk, ExprList.pfOk, StmtList.pfOk, PropList.pfOk, StmtList.pfOk_snoc, ExprList.pfOk_snoc, PropList.pfOk_snoc, Stmt.isNone, Token.pfOk, Token.isPostfixOf, next_cur]))
    all_goals (try (subst_vars; simp_all [Expr.pfOk, Stmt.pfOk, ExprList.pfOk, StmtList.pfOk, PropList.pfOk, StmtList.pfOk_snoc, ExprList.pfOk_snoc, PropList.pfOk_snoc, Stmt.isNone, Token.pfOk, Token.isPostfixOf, next_cur]))
    all_goals (try (apply_assumption; apply_assumption; by_cases hn : st.peek.nl = true <;> simp_all))
  · -- blockLoop
    intro pS bL ih_pS ih_bL acc st r h
    replace ih_pS := curry2 ih_pS; replace ih_bL := curry2 ih_bL
    dsimp only at ih_pS ih_bL ⊢
    obtain ⟨x, st'⟩ := r
    pdecompW h [ih_pS, ih_bL]
    all_goals clear ih_pS ih_bL
    all_goals (try intro _ _)
    all_goals (try intro _)
    all_goals simp_all [Expr.pfOk, Stmt.pfOk, ExprList.pfOk, StmtList.pfOk, PropList.pfOk, StmtList.pfOk_snoc, ExprList.pfOk_snoc, PropList.pfOk_snoc, Stmt.isNone, Token.pfOk, Token.isPostfixOf, next_cur]
    all_goals (try (intro hh; subst hh; simp_all [Expr.pfOk, Stmt.pfOk, ExprList.pfOk, StmtList.pfOk, PropList.pfOk, StmtList.pfOk_snoc, ExprList.pfOk_snoc, PropList.pfOk_snoc, Stmt.isNone, Token.pfOk, Token.isPostfixOf, next_cur]))
    all_goals (try (subst_vars; simp_all [Expr.pfOk, Stmt.pfOk, ExprList.pfOk, StmtList.pfOk, PropList.pfOk, StmtList.pfOk_snoc, ExprList.pfOk_snoc, PropList.pfOk_snoc, Stmt.isNone, Token.pfOk, Token.isPostfixOf, next_cur]))
    all_goals (try (apply_assumption; apply_assumption; by_cases hn : st.peek.nl = true <;> simp_all))
  · -- parseObjectLiteral
    intro oL ih_oL  st r h
    replace ih_oL := curry2 ih_oL
    dsimp only at ih_oL ⊢
    obtain ⟨x, st'⟩ := r
    pdecompW h [ih_oL]
    all_goals clear ih_oL
    all_goals (try intro _ _)
    all_goals (try intro _)
    all_goals simp_all [Expr.pfOk, Stmt.pfOk, ExprList.pfOk, StmtList.pfOk, PropList.pfOk, StmtList.pfOk_snoc, ExprList.pfOk_snoc, PropList.pfOk_snoc, Stmt.isNone, Token.pfOk, Token.isPostfixOf, next_cur]
    all_goals (try (intro hh; subst hh; simp_all [Expr.pfOk, Stmt.pfOk, ExprList.pfOk, StmtList.pfOk, PropList.pfOk, StmtList.pfOk_snoc, ExprList.pfOk_snoc, PropList.pfOk_snoc, Stmt.isNone, Token.pfOk, Token.isPostfixOf, next_cur]))
    all_goals (try (subst_vars; simp_all [Expr.pfOk, Stmt.pfOk, ExprList.pfOk, StmtList.pfOk, PropList.pfOk, StmtList.pfOk_snoc, ExprList.pfOk_snoc, PropList.pfOk_snoc, Stmt.isNone, Token.pfOk, Token.isPostfixOf, next_cur]))
    all_goals (try (apply_assumption; apply_assumption; by_cases hn : st.peek.nl = true <;> simp_all))
  · -- objectLoop
    intro pE oL ih_pE ih_oL acc st r h
    replace ih_pE := curry3 ih_pE; replace ih_oL := curry2 ih_oL
    dsimp only at ih_pE ih_oL ⊢
    obtain ⟨x, st'⟩ := r
    pdecompW h [ih_pE, ih_oL]
    all_goals clear ih_pE ih_oL
    all_goals (try intro _ _)
    all_goals (try intro _)
    all_goals simp_all [Expr.pfOk, Stmt.pfOk, ExprList.pfOk, StmtList.pfOk, PropList.pfOk, StmtList.pfOk_snoc, ExprList.pfOk_snoc, PropList.pfOk_snoc, Stmt.isNone, Token.pfOk, Token.isPostfixOf, next_cur]
    all_goals (try (intro hh; subst hh; simp_all [Expr.pfOk, Stmt.pfOk, ExprList.pfOk, StmtList.pfOk, PropList.pfOk, StmtList.pfOk_snoc, ExprList.pfOk_snoc, PropList.pfOk_snoc, Stmt.isNone, Token.pfOk, Token.isPostfixOf, next_cur]))
    all_goals (try (subst_vars; simp_all [Expr.pfOk, Stmt.pfOk, ExprList.pfOk, StmtList.pfOk, PropList.pfOk, StmtList.pfOk_snoc, ExprList.pfOk_snoc, PropList.pfOk_snoc, Stmt.isNone, Token.pfOk, Token.isPostfixOf, next_cur]))
    all_goals (try (apply_assumption; apply_assumption; by_cases hn : st.peek.nl = true <;> simp_all))
  · -- parseForStatement
    intro pS pE pFI ih_pS ih_pE ih_pFI  st r h
    replace ih_pS := curry2 ih_pS; replace ih_pE := curry3 ih_pE; replace ih_pFI := curry1 ih_pFI
    dsimp only at ih_pS ih_pE ih_pFI ⊢
    obtain ⟨x, st'⟩ := r
    pdecompW h [ih_pS, ih_pE, ih_pFI]
    all_goals clear ih_pS ih_pE ih_pFI
    all_goals (try intro _ _)
    all_goals (try intro _)
    all_goals simp_all [Expr.pfOk, Stmt.pfOk, ExprList.pfOk, StmtList.pfOk, PropList.pfOk, StmtList.pfOk_snoc, ExprList.pfOk_snoc, PropList.pfOk_snoc, Stmt.isNone, Token.pfOk, Token.isPostfixOf, next_cur]
    all_goals (try (intro hh; subst hh; simp_all [Expr.pfOk, Stmt.pfOk, ExprList.pfOk, StmtList.pfOk, PropList.pfOk, StmtList.pfOk_snoc, ExprList.pfOk_snoc, PropList.pfOk_snoc, Stmt.isNone, Token.pfOk, Token.isPostfixOf, next_cur]))
    all_goals (try (subst_vars; simp_all [Expr.pfOk, Stmt.pfOk, ExprList.pfOk, StmtList.pfOk, PropList.pfOk, StmtList.pfOk_snoc, ExprList.pfOk_snoc, PropList.pfOk_snoc, Stmt.isNone, Token.pfOk, Token.isPostfixOf, next_cur]))
    all_goals (try (apply_assumption; apply_assumption; by_cases hn : st.peek.nl = true <;> simp_all))
  · -- parseForInit
    intro pE pLE ih_pE ih_pLE  st r h
    replace ih_pE := curry3 ih_pE; replace ih_pLE := curry1 ih_pLE
    dsimp only at ih_pE ih_pLE ⊢
    obtain ⟨x, st'⟩ := r
    pdecompW h [ih_pE, ih_pLE]
    all_goals clear ih_pE ih_pLE
    all_goals (try intro _ _)
    all_goals (try intro _)
    all_goals simp_all [Expr.pfOk, Stmt.pfOk, ExprList.pfOk, StmtList.pfOk, PropList.pfOk, StmtList.pfOk_snoc, ExprList.pfOk_snoc, PropList.pfOk_snoc, Stmt.isNone, Token.pfOk, Token.isPostfixOf, next_cur]
    all_goals (try (intro hh; subst hh; simp_all [Expr.pfOk, Stmt.pfOk, ExprList.pfOk, StmtList.pfOk, PropList.pfOk, StmtList.pfOk_snoc, ExprList.pfOk_snoc, PropList.pfOk_snoc, Stmt.isNone, Token.pfOk, Token.isPostfixOf, next_cur]))
    all_goals (try (subst_vars; simp_all [Expr.pfOk, Stmt.pfOk, ExprList.pfOk, StmtList.pfOk, PropList.pfOk, StmtList.pfOk_snoc, ExprList.pfOk_snoc, PropList.pfOk_snoc, Stmt.isNone, Token.pfOk, Token.isPostfixOf, next_cur]))
    all_goals (try (apply_assumption; apply_assumption; by_cases hn : st.peek.nl = true <;> simp_all))
  · -- parseLetExpression
    intro pE ih_pE  st r h
    replace ih_pE := curry3 ih_pE
    dsimp only at ih_pE ⊢
    obtain ⟨x, st'⟩ := r
    pdecompW h [ih_pE]
    all_goals clear ih_pE
    all_goals (try intro _ _)
    all_goals (try intro _)
    all_goals simp_all [Expr.pfOk, Stmt.pfOk, ExprList.pfOk, StmtList.pfOk, PropList.pfOk, StmtList.pfOk_snoc, ExprList.pfOk_snoc, PropList.pfOk_snoc, Stmt.isNone, Token.pfOk, Token.isPostfixOf, next_cur]
    all_goals (try (intro hh; subst hh; simp_all [Expr.pfOk, Stmt.pfOk, ExprList.pfOk, StmtList.pfOk, PropList.pfOk, StmtList.pfOk_snoc, ExprList.pfOk_snoc, PropList.pfOk_snoc, Stmt.isNone, Token.pfOk, Token.isPostfixOf, next_cur]))
    all_goals (try (subst_vars; simp_all [Expr.pfOk, Stmt.pfOk, ExprList.pfOk, StmtList.pfOk, PropList.pfOk, StmtList.pfOk_snoc, ExprList.pfOk_snoc, PropList.pfOk_snoc, Stmt.isNone, Token.pfOk, Token.isPostfixOf, next_cur]))
    all_goals (try (apply_assumption; apply_assumption; by_cases hn : st.peek.nl = true <;> simp_all))
  · -- parseWhileStatement
    intro pS pE ih_pS ih_pE  st r h
    replace ih_pS := curry2 ih_pS; replace ih_pE := curry3 ih_pE
    dsimp only at ih_pS ih_pE ⊢
    obtain ⟨x, st'⟩ := r
    pdecompW h [ih_pS, ih_pE]
    all_goals clear ih_pS ih_pE
    all_goals (try intro _ _)
    all_goals (try intro _)
    all_goals simp_all [Expr.pfOk, Stmt.pfOk, ExprList.pfOk, StmtList.pfOk, PropList.pfOk, StmtList.pfOk_snoc, ExprList.pfOk_snoc, PropList.pfOk_snoc, Stmt.isNone, Token.pfOk, Token.isPostfixOf, next_cur]
    all_goals (try (intro hh; subst hh; simp_all [Expr.pfOk, Stmt.pfOk, ExprList.pfOk, StmtList.pfOk, PropList.pfOk, StmtList.pfOk_snoc, ExprList.pfOk_snoc, PropList.pfOk_snoc, Stmt.isNone, Token.pfOk, Token.isPostfixOf, next_cur]))
    all_goals (try (subst_vars; simp_all [Expr.pfOk, Stmt.pfOk, ExprList.pfOk, StmtList.pfOk, PropList.pfOk, StmtList.pfOk_snoc, ExprList.pfOk_snoc, PropList.pfOk_snoc, Stmt.isNone, Token.pfOk, Token.isPostfixOf, next_cur]))
    all_goals (try (apply_assumption; apply_assumption; by_cases hn : st.peek.nl = true <;> simp_all))
  · -- parseIfStatement
    intro pS pE ih_pS ih_pE  st r h
    replace ih_pS := curry2 ih_pS; replace ih_pE := curry3 ih_pE
    dsimp only at ih_pS ih_pE ⊢
    obtain ⟨x, st'⟩ := r
    pdecompW h [ih_pS, ih_pE]
    all_goals clear ih_pS ih_pE
    all_goals (try intro _ _)
    all_goals (try intro _)
    all_goals simp_all [Expr.pfOk, Stmt.pfOk, ExprList.pfOk, StmtList.pfOk, PropList.pfOk, StmtList.pfOk_snoc, ExprList.pfOk_snoc, PropList.pfOk_snoc, Stmt.isNone, Token.pfOk, Token.isPostfixOf, next_cur]
    all_goals (try (intro hh; subst hh; simp_all [Expr.pfOk, Stmt.pfOk, ExprList.pfOk, StmtList.pfOk, PropList.pfOk, StmtList.pfOk_snoc, ExprList.pfOk_snoc, PropList.pfOk_snoc, Stmt.isNone, Token.pfOk, Token.isPostfixOf, next_cur]))
    all_goals (try (subst_vars; simp_all [Expr.pfOk, Stmt.pfOk, ExprList.pfOk, StmtList.pfOk, PropList.pfOk, StmtList.pfOk_snoc, ExprList.pfOk_snoc, PropList.pfOk_snoc, Stmt.isNone, Token.pfOk, Token.isPostfixOf, next_cur]))
    all_goals (try (apply_assumption; apply_assumption; by_cases hn : st.peek.nl = true <;> simp_all))
  · -- parseReturnStatement
    intro pE ih_pE  st r h
    replace ih_pE := curry3 ih_pE
    dsimp only at ih_pE ⊢
    obtain ⟨x, st'⟩ := r
    pdecompW h [ih_pE]
    all_goals clear ih_pE
    all_goals (try intro _ _)
    all_goals (try intro _)
    all_goals simp_all [Expr.pfOk, Stmt.pfOk, ExprList.pfOk, StmtList.pfOk, PropList.pfOk, StmtList.pfOk_snoc, ExprList.pfOk_snoc, PropList.pfOk_snoc, Stmt.isNone, Token.pfOk, Token.isPostfixOf, next_cur]
    all_goals (try (intro hh; subst hh; simp_all [Expr.pfOk, Stmt.pfOk, ExprList.pfOk, StmtList.pfOk, PropList.pfOk, StmtList.pfOk_snoc, ExprList.pfOk_snoc, PropList.pfOk_snoc, Stmt.isNone, Token.pfOk, Token.isPostfixOf, next_cur]))
    all_goals (try (subst_vars; simp_all [Expr.pfOk, Stmt.pfOk, ExprList.pfOk, StmtList.pfOk, PropList.pfOk, StmtList.pfOk_snoc, ExprList.pfOk_snoc, PropList.pfOk_snoc, Stmt.isNone, Token.pfOk, Token.isPostfixOf, next_cur]))
    all_goals (try (apply_assumption; apply_assumption; by_cases hn : st.peek.nl = true <;> simp_all))
  · -- parseFunctionStatement
    intro pB ih_pB  st r h
    replace ih_pB := curry1 ih_pB
    dsimp only at ih_pB ⊢
    obtain ⟨x, st'⟩ := r
    pdecompW h [ih_pB]
    all_goals clear ih_pB
    all_goals (try intro _ _)
    all_goals (try intro _)
    all_goals simp_all [Expr.pfOk, Stmt.pfOk, ExprList.pfOk, StmtList.pfOk, PropList.pfOk, StmtList.pfOk_snoc, ExprList.pfOk_snoc, PropList.pfOk_snoc, Stmt.isNone, Token.pfOk, Token.isPostfixOf, next_cur]
    all_goals (try (intro hh; subst hh; simp_all [Expr.pfOk, Stmt.pfOk, ExprList.pfOk, StmtList.pfOk, PropList.pfOk, StmtList.pfOk_snoc, ExprList.pfOk_snoc, PropList.pfOk_snoc, Stmt.isNone, Token.pfOk, Token.isPostfixOf, next_cur]))
    all_goals (try (subst_vars; simp_all [Expr.pfOk, Stmt.pfOk, ExprList.pfOk, StmtList.pfOk, PropList.pfOk, StmtList.pfOk_snoc, ExprList.pfOk_snoc, PropList.pfOk_snoc, Stmt.isNone, Token.pfOk, Token.isPostfixOf, next_cur]))
    all_goals (try (apply_assumption; apply_assumption; by_cases hn : st.peek.nl = true <;> simp_all))
  · -- parseLetStatement
    intro pE ih_pE  st r h
    replace ih_pE := curry3 ih_pE
    dsimp only at ih_pE ⊢
    obtain ⟨x, st'⟩ := r
    pdecompW h [ih_pE]
    all_goals clear ih_pE
    all_goals (try intro _ _)
    all_goals (try intro _)
    all_goals simp_all [Expr.pfOk, Stmt.pfOk, ExprList.pfOk, StmtList.pfOk, PropList.pfOk, StmtList.pfOk_snoc, ExprList.pfOk_snoc, PropList.pfOk_snoc, Stmt.isNone, Token.pfOk, Token.isPostfixOf, next_cur]
    all_goals (try (intro hh; subst hh; simp_all [Expr.pfOk, Stmt.pfOk, ExprList.pfOk, StmtList.pfOk, PropList.pfOk, StmtList.pfOk_snoc, ExprList.pfOk_snoc, PropList.pfOk_snoc, Stmt.isNone, Token.pfOk, Token.isPostfixOf, next_cur]))
    all_goals (try (subst_vars; simp_all [Expr.pfOk, Stmt.pfOk, ExprList.pfOk, StmtList.pfOk, PropList.pfOk, StmtList.pfOk_snoc, ExprList.pfOk_snoc, PropList.pfOk_snoc, Stmt.isNone, Token.pfOk, Token.isPostfixOf, next_cur]))
    all_goals (try (apply_assumption; apply_assumption; by_cases hn : st.peek.nl = true <;> simp_all))

end Xjs

namespace Xjs
theorem pf_programLoop (cfg : PCfg) (acc : StmtList) (st : PS) (r : StmtList × PS)
    (h : programLoop cfg acc st = some r) : acc.pfOk cfg = true → r.1.pfOk cfg = true := by
  refine programLoop.partial_correctness cfg (fun acc _ r => acc.pfOk cfg = true → r.1.pfOk cfg = true) ?_ acc st r h
  intro f ih acc st r h hacc
  split at h
  · obtain ⟨⟨s, st1⟩, h1, h2⟩ := bind_some h
    have hs := (pf_mutual cfg).1 _ _ _ h1
    refine ih _ _ _ h2 ?_
    dsimp only at hs ⊢
    split
    · exact hacc
    · rw [StmtList.pfOk_snoc]; simp [hacc, hs]
  · cases h; exact hacc

/-- no postfix `++` / `--` of a parsed program follows a line break -/
theorem pf_parseProgram (cfg : PCfg) (toks : List Token) (r : ParseResult)
    (h : parseProgram cfg toks = some r) : r.prog.pfOk cfg = true := by
  unfold parseProgram at h
  obtain ⟨⟨stmts, st⟩, h1, h2⟩ := bind_some h
  cases h2
  exact pf_programLoop cfg _ _ _ h1 rfl
end Xjs
