import XjsModel.Proofs.LexerTiling
/-
  Trivia entries: which comment / blank-line entries a token carries, as a function of the source text of the gap
  before it. (C15: "comments travel as token attachments".)
-/
namespace Xjs.Tiling
open Xjs

/-- SPECIFICATION (trusted): the entries of a run of whitespace and `//` comments. Every line feed that is not the end
    of a comment gives an empty entry (a blank-line marker); every comment gives its text without trailing spaces. -/
inductive Entries : Bytes → List Bytes → Prop
  | nil : Entries [] []
  | lf (r : Bytes) (es : List Bytes) : Entries r es → Entries (10 :: r) ([] :: es)
  | ws (c : Nat) (r : Bytes) (es : List Bytes) : (c = 32 ∨ c = 9 ∨ c = 13) → Entries r es → Entries (c :: r) es
  | commentLF (text r : Bytes) (es : List Bytes) : (∀ c ∈ text, c ≠ 10 ∧ c ≠ 0) → Entries r es →
      Entries (47 :: 47 :: (text ++ 10 :: r)) (trimRightSpaces text :: es)
  | commentEnd (text : Bytes) : (∀ c ∈ text, c ≠ 10 ∧ c ≠ 0) → Entries (47 :: 47 :: text) [trimRightSpaces text]

/-- the rest of a comment whose first bytes `acc` have been read -/
def TailE (acc b : Bytes) (es : List Bytes) : Prop :=
  (∃ text r es', b = text ++ 10 :: r ∧ (∀ c ∈ text, c ≠ 10 ∧ c ≠ 0) ∧ Entries r es' ∧ es = trimRightSpaces (acc ++ text) :: es') ∨
  ((∀ c ∈ b, c ≠ 10 ∧ c ≠ 0) ∧ es = [trimRightSpaces (acc ++ b)])

theorem entries_of_tail {b : Bytes} {es : List Bytes} (h : TailE [] b es) : Entries (47 :: 47 :: b) es := by
  rcases h with ⟨text, r, es', rfl, ht, hr, rfl⟩ | ⟨h, rfl⟩
  · simpa using Entries.commentLF text r es' ht hr
  · simpa using Entries.commentEnd b h

theorem tailE_cons {c : Nat} {acc b : Bytes} {es : List Bytes} (h10 : c ≠ 10) (h0 : c ≠ 0) (h : TailE (acc ++ [c]) b es) :
    TailE acc (c :: b) es := by
  rcases h with ⟨text, r, es', rfl, ht, hr, rfl⟩ | ⟨h, rfl⟩
  · left; refine ⟨c :: text, r, es', rfl, ?_, hr, by simp⟩
    intro x hx; simp only [List.mem_cons] at hx
    rcases hx with rfl | hx
    · exact ⟨h10, h0⟩
    · exact ht x hx
  · right; refine ⟨?_, by simp⟩
    intro x hx; simp only [List.mem_cons] at hx
    rcases hx with rfl | hx
    · exact ⟨h10, h0⟩
    · exact h x hx

def ESpec (b : Bytes) (m : Option Bytes) (t : Trivia) : Prop :=
  ∃ k es, k ≤ b.length ∧ (scanTrivia b m t).len = t.len + k ∧
    (match m with | none => Entries (b.take k) es | some acc => TailE acc (b.take k) es) ∧
    (scanTrivia b m t).comments = t.comments ++ es

theorem scanTrivia_entries : ∀ (n : Nat) (b : Bytes), b.length ≤ n → ∀ (m : Option Bytes) (t : Trivia), ESpec b m t := by
  intro n
  induction n with
  | zero =>
    intro b hb m t
    have : b = [] := List.eq_nil_of_length_eq_zero (by omega)
    subst this
    cases m with
    | none => exact ⟨0, [], Nat.le_refl _, rfl, .nil, by simp [scanTrivia]⟩
    | some acc => exact ⟨0, _, Nat.le_refl _, rfl, Or.inr ⟨by simp, rfl⟩, by simp [scanTrivia]⟩
  | succ n ih =>
    intro b hb m t
    cases b with
    | nil =>
      cases m with
      | none => exact ⟨0, [], Nat.le_refl _, rfl, .nil, by simp [scanTrivia]⟩
      | some acc => exact ⟨0, _, Nat.le_refl _, rfl, Or.inr ⟨by simp, rfl⟩, by simp [scanTrivia]⟩
    | cons c r =>
      have hr : r.length ≤ n := by simp at hb; omega
      cases m with
      | some acc =>
        by_cases h10 : c = 10
        · subst h10
          obtain ⟨k, es, hk, hl, hs, hn⟩ := ih r hr none { nl := true, comments := t.comments ++ [trimRightSpaces acc], len := t.len + 1 }
          refine ⟨k + 1, trimRightSpaces acc :: es, by simp; omega, ?_, ?_, ?_⟩
          · rw [st_c_lf, hl]; simp only; omega
          · left; exact ⟨[], r.take k, es, by simp, by simp, hs, by simp⟩
          · rw [st_c_lf, hn]; simp
        · by_cases h0 : c = 0
          · subst h0
            exact ⟨0, _, Nat.zero_le _, by rw [st_c_nul]; rfl, Or.inr ⟨by simp, rfl⟩, by rw [st_c_nul]; simp⟩
          · obtain ⟨k, es, hk, hl, hs, hn⟩ := ih r hr (some (acc ++ [c])) { t with len := t.len + 1 }
            refine ⟨k + 1, es, by simp; omega, ?_, ?_, ?_⟩
            · rw [st_c_other c r acc t h10 h0, hl]; simp only; omega
            · simp only [List.take_succ_cons]; exact tailE_cons h10 h0 hs
            · rw [st_c_other c r acc t h10 h0, hn]
      | none =>
        by_cases h10 : c = 10
        · subst h10
          obtain ⟨k, es, hk, hl, hs, hn⟩ := ih r hr none { nl := true, comments := t.comments ++ [[]], len := t.len + 1 }
          refine ⟨k + 1, [] :: es, by simp; omega, ?_, ?_, ?_⟩
          · rw [st_n_lf, hl]; simp only; omega
          · simp only [List.take_succ_cons]; exact .lf _ _ hs
          · rw [st_n_lf, hn]; simp
        · by_cases hw : isWs c = true
          · have hw' : c = 32 ∨ c = 9 ∨ c = 13 := by
              unfold isWs at hw; simp only [Bool.or_eq_true, beq_iff_eq] at hw
              rcases hw with ((h | h) | h) | h
              · exact Or.inl h
              · exact Or.inr (Or.inl h)
              · exact absurd h h10
              · exact Or.inr (Or.inr h)
            obtain ⟨k, es, hk, hl, hs, hn⟩ := ih r hr none { t with len := t.len + 1 }
            refine ⟨k + 1, es, by simp; omega, ?_, ?_, ?_⟩
            · rw [st_n_ws c r t hw h10, hl]; simp only; omega
            · simp only [List.take_succ_cons]; exact .ws c _ _ hw' hs
            · rw [st_n_ws c r t hw h10, hn]
          · have hw' : isWs c = false := by simpa using hw
            by_cases h47 : c = 47
            · subst h47
              cases r with
              | nil => exact ⟨0, [], Nat.zero_le _, by rw [st_n_slash1]; rfl, .nil, by rw [st_n_slash1]; simp⟩
              | cons c2 r2 =>
                by_cases h2 : c2 = 47
                · subst h2
                  obtain ⟨k, es, hk, hl, hs, hn⟩ := ih r2 (by simp at hr; omega) (some []) { t with len := t.len + 2 }
                  refine ⟨k + 2, es, by simp; omega, ?_, ?_, ?_⟩
                  · rw [st_n_comment, hl]; simp only; omega
                  · simp only [List.take_succ_cons]; exact entries_of_tail hs
                  · rw [st_n_comment, hn]
                · exact ⟨0, [], Nat.zero_le _, by rw [st_n_slash2 c2 r2 t h2]; rfl, .nil, by rw [st_n_slash2 c2 r2 t h2]; simp⟩
            · exact ⟨0, [], Nat.zero_le _, by rw [st_n_stop c r t hw' h47]; rfl, .nil, by rw [st_n_stop c r t hw' h47]; simp⟩

/-- the trivia entries a token carries are exactly the entries of the source text between the previous token and it -/
theorem token_comments_are_gap_entries (s : LS) :
    Entries (s.rest.take (trivia s.rest).len) (nextToken s).1.comments := by
  obtain ⟨k, es, hk, hl, hs, hn⟩ := scanTrivia_entries s.rest.length s.rest (Nat.le_refl _) none { nl := false, comments := [], len := 0 }
  have hlen : (trivia s.rest).len = k := by unfold trivia; rw [hl]; simp
  have hc : (nextToken s).1.comments = (trivia s.rest).comments := by
    unfold nextToken; exact (baseNextToken_start _ _ _).2.2.2
  rw [hlen, hc]
  unfold trivia; rw [hn]; simpa using hs

/-- a text without line feeds is determined by what follows its first line feed -/
theorem split_at_lf {t1 t2 r1 r2 : Bytes} (h1 : ∀ c ∈ t1, c ≠ 10 ∧ c ≠ 0) (h2 : ∀ c ∈ t2, c ≠ 10 ∧ c ≠ 0)
    (h : t1 ++ 10 :: r1 = t2 ++ 10 :: r2) : t1 = t2 ∧ r1 = r2 := by
  induction t1 generalizing t2 with
  | nil =>
    cases t2 with
    | nil => simpa using h
    | cons c t2 =>
      simp only [List.nil_append, List.cons_append, List.cons.injEq] at h
      exact absurd h.1.symm (h2 c (by simp)).1
  | cons a t1 ih =>
    cases t2 with
    | nil =>
      simp only [List.nil_append, List.cons_append, List.cons.injEq] at h
      exact absurd h.1 (h1 a (by simp)).1
    | cons c t2 =>
      simp only [List.cons_append, List.cons.injEq] at h
      obtain ⟨e1, e2⟩ := ih (fun x hx => h1 x (by simp [hx])) (fun x hx => h2 x (by simp [hx])) h.2
      exact ⟨by rw [h.1, e1], e2⟩

/-- the specification is a function of the text: a gap has one list of entries -/
theorem Entries.unique {b : Bytes} {es es' : List Bytes} (h : Entries b es) (h' : Entries b es') : es = es' := by
  induction h generalizing es' with
  | nil => cases h'; rfl
  | lf r es _ ih =>
    cases h' with
    | lf _ _ h2 => rw [ih h2]
    | ws _ _ _ hc _ => omega
  | ws c r es hc _ ih =>
    cases h' with
    | lf _ _ _ => omega
    | ws _ _ _ _ h2 => exact ih h2
    | commentLF _ _ _ _ _ => omega
    | commentEnd _ _ => omega
  | commentLF text r es ht _ ih =>
    generalize hb : (47 :: 47 :: (text ++ 10 :: r)) = b at h'
    cases h' with
    | nil => cases hb
    | lf _ _ _ => cases hb
    | ws _ _ _ hc _ => simp only [List.cons.injEq] at hb; omega
    | commentLF text' r' es2 ht' h2 =>
      simp only [List.cons.injEq, true_and] at hb
      obtain ⟨e1, e2⟩ := split_at_lf ht ht' hb
      subst e1; subst e2; rw [ih h2]
    | commentEnd text' ht' =>
      simp only [List.cons.injEq, true_and] at hb
      exact absurd rfl (ht' 10 (by rw [← hb]; simp)).1
  | commentEnd text ht =>
    generalize hb : (47 :: 47 :: text) = b at h'
    cases h' with
    | nil => cases hb
    | lf _ _ _ => cases hb
    | ws _ _ _ hc _ => simp only [List.cons.injEq] at hb; omega
    | commentLF text' r' es2 ht' h2 =>
      simp only [List.cons.injEq, true_and] at hb
      exact absurd rfl (ht 10 (by rw [hb]; simp)).1
    | commentEnd text' ht' =>
      simp only [List.cons.injEq, true_and] at hb
      rw [hb]

/-! Non-vacuity: `⏎// a ⏎⏎//b` — blank-line marker, comment (trailing space cut), end of the comment line is not an
    entry, blank line, comment up to the end of input -/
example : Entries [10, 47, 47, 32, 97, 32, 10, 10, 47, 47, 98] [[], [32, 97], [], [98]] :=
  .lf _ _ (Entries.commentLF [32, 97, 32] _ _ (by decide) (.lf _ _ (Entries.commentEnd [98] (by decide))))

/-! ### entries and the after-newline flag -/

/-- either a line feed was crossed, or none was and then either no entry was added or the scan stopped at the end of
    the input / at a NUL byte (the only way a comment ends without a line feed) -/
def NSpec (b : Bytes) (m : Option Bytes) (t : Trivia) : Prop :=
  ∃ k, (scanTrivia b m t).len = t.len + k ∧
    ((scanTrivia b m t).nl = true ∨
     ((scanTrivia b m t).nl = t.nl ∧ ((m = none ∧ (scanTrivia b m t).comments = t.comments) ∨ (b.drop k).headD 0 = 0)))

theorem scanTrivia_nl : ∀ (n : Nat) (b : Bytes), b.length ≤ n → ∀ (m : Option Bytes) (t : Trivia), NSpec b m t := by
  intro n
  induction n with
  | zero =>
    intro b hb m t
    have : b = [] := List.eq_nil_of_length_eq_zero (by omega)
    subst this
    cases m with
    | none => exact ⟨0, rfl, Or.inr ⟨by simp [scanTrivia], Or.inl ⟨rfl, by simp [scanTrivia]⟩⟩⟩
    | some acc => exact ⟨0, rfl, Or.inr ⟨by simp [scanTrivia], Or.inr rfl⟩⟩
  | succ n ih =>
    intro b hb m t
    cases b with
    | nil =>
      cases m with
      | none => exact ⟨0, rfl, Or.inr ⟨by simp [scanTrivia], Or.inl ⟨rfl, by simp [scanTrivia]⟩⟩⟩
      | some acc => exact ⟨0, rfl, Or.inr ⟨by simp [scanTrivia], Or.inr rfl⟩⟩
    | cons c r =>
      have hr : r.length ≤ n := by simp at hb; omega
      cases m with
      | some acc =>
        by_cases h10 : c = 10
        · subst h10
          obtain ⟨k, hl, hd⟩ := ih r hr none { nl := true, comments := t.comments ++ [trimRightSpaces acc], len := t.len + 1 }
          refine ⟨k + 1, by rw [st_c_lf, hl]; simp only; omega, Or.inl ?_⟩
          rw [st_c_lf]
          rcases hd with hd | ⟨hd, _⟩
          · exact hd
          · exact hd
        · by_cases h0 : c = 0
          · subst h0
            exact ⟨0, by rw [st_c_nul]; rfl, Or.inr ⟨by rw [st_c_nul], Or.inr rfl⟩⟩
          · obtain ⟨k, hl, hd⟩ := ih r hr (some (acc ++ [c])) { t with len := t.len + 1 }
            refine ⟨k + 1, by rw [st_c_other c r acc t h10 h0, hl]; simp only; omega, ?_⟩
            rw [st_c_other c r acc t h10 h0]
            rcases hd with hd | ⟨hd, hd2⟩
            · exact Or.inl hd
            · refine Or.inr ⟨hd, Or.inr ?_⟩
              rcases hd2 with ⟨hx, _⟩ | hd2
              · cases hx
              · simpa using hd2
      | none =>
        by_cases h10 : c = 10
        · subst h10
          obtain ⟨k, hl, hd⟩ := ih r hr none { nl := true, comments := t.comments ++ [[]], len := t.len + 1 }
          refine ⟨k + 1, by rw [st_n_lf, hl]; simp only; omega, Or.inl ?_⟩
          rw [st_n_lf]
          rcases hd with hd | ⟨hd, _⟩
          · exact hd
          · exact hd
        · by_cases hw : isWs c = true
          · obtain ⟨k, hl, hd⟩ := ih r hr none { t with len := t.len + 1 }
            refine ⟨k + 1, by rw [st_n_ws c r t hw h10, hl]; simp only; omega, ?_⟩
            rw [st_n_ws c r t hw h10]
            rcases hd with hd | ⟨hd, hd2⟩
            · exact Or.inl hd
            · refine Or.inr ⟨hd, ?_⟩
              rcases hd2 with ⟨_, hd2⟩ | hd2
              · exact Or.inl ⟨rfl, hd2⟩
              · exact Or.inr (by simpa using hd2)
          · have hw' : isWs c = false := by simpa using hw
            by_cases h47 : c = 47
            · subst h47
              cases r with
              | nil => exact ⟨0, by rw [st_n_slash1]; rfl, Or.inr ⟨by rw [st_n_slash1], Or.inl ⟨rfl, by rw [st_n_slash1]⟩⟩⟩
              | cons c2 r2 =>
                by_cases h2 : c2 = 47
                · subst h2
                  obtain ⟨k, hl, hd⟩ := ih r2 (by simp at hr; omega) (some []) { t with len := t.len + 2 }
                  refine ⟨k + 2, by rw [st_n_comment, hl]; simp only; omega, ?_⟩
                  rw [st_n_comment]
                  rcases hd with hd | ⟨hd, hd2⟩
                  · exact Or.inl hd
                  · refine Or.inr ⟨hd, Or.inr ?_⟩
                    rcases hd2 with ⟨hx, _⟩ | hd2
                    · cases hx
                    · simpa using hd2
                · exact ⟨0, by rw [st_n_slash2 c2 r2 t h2]; rfl, Or.inr ⟨by rw [st_n_slash2 c2 r2 t h2], Or.inl ⟨rfl, by rw [st_n_slash2 c2 r2 t h2]⟩⟩⟩
            · exact ⟨0, by rw [st_n_stop c r t hw' h47]; rfl, Or.inr ⟨by rw [st_n_stop c r t hw' h47], Or.inl ⟨rfl, by rw [st_n_stop c r t hw' h47]⟩⟩⟩

/-- a token that carries entries but does not follow a line break stands at the end of the input or on a NUL byte —
    in particular it is no `++` / `--` (a comment ends at a line feed, except the last one of the input) -/
theorem entries_without_line_break (s : LS) (hc : (nextToken s).1.comments ≠ []) (hn : (nextToken s).1.nl = false) :
    (readChars (trivia s.rest).len s).cur = 0 ∧
    (nextToken s).1.type ≠ .increment ∧ (nextToken s).1.type ≠ .decrement := by
  obtain ⟨k, hl, hd⟩ := scanTrivia_nl s.rest.length s.rest (Nat.le_refl _) none { nl := false, comments := [], len := 0 }
  have hlen : (trivia s.rest).len = k := by unfold trivia; rw [hl]; simp
  have hnl : (nextToken s).1.nl = (trivia s.rest).nl := by
    unfold nextToken; exact (baseNextToken_start _ _ _).2.2.1
  have hcm : (nextToken s).1.comments = (trivia s.rest).comments := by
    unfold nextToken; exact (baseNextToken_start _ _ _).2.2.2
  rw [hnl] at hn; rw [hcm] at hc
  have hcur : (readChars (trivia s.rest).len s).cur = 0 := by
    unfold LS.cur; rw [readChars_rest, hlen]
    rcases hd with hd | ⟨_, hd⟩
    · unfold trivia at hn; rw [hd] at hn; cases hn
    · rcases hd with ⟨_, hd⟩ | hd
      · unfold trivia at hc; rw [hd] at hc; exact absurd rfl hc
      · exact hd
  refine ⟨hcur, ?_, ?_⟩ <;>
  · unfold nextToken baseNextToken
    simp only [hcur]
    simp
    split <;> simp [mkTok]

end Xjs.Tiling
