import XjsModel.Spec.Events
import XjsModel.Proofs.ParserAnchorPass
import XjsModel.Proofs.Tactics
/-
  THE TRACE IS A FUNCTION OF THE TREE (C04, C16): one more pass over the mutual block. A parse step that records no
  error appends to the trace exactly the events `Spec/Events` assigns to the node it returns: every statement and
  expression slot announced once, in source order, to the interceptors in installation order (those behind a re-entrant
  one excluded), on the slot's first token, with the context stack of the place — and leaves the stack as it found it.
-/
namespace Xjs
set_option linter.unusedSimpArgs false
set_option linter.unusedVariables false

@[simp] theorem ctx_next (st : PS) : st.next.ctx = st.ctx := by unfold PS.next; split <;> rfl
@[simp] theorem trace_next (st : PS) : st.next.trace = st.trace := by unfold PS.next; split <;> rfl
@[simp] theorem ctx_push (st : PS) (c : Ctx) : (st.push c).ctx = c :: st.ctx := rfl
@[simp] theorem trace_push (st : PS) (c : Ctx) : (st.push c).trace = st.trace := rfl
@[simp] theorem ctx_pop (st : PS) : st.pop.ctx = st.ctx.tail := rfl
@[simp] theorem trace_pop (st : PS) : st.pop.trace = st.trace := rfl
@[simp] theorem ctx_addError (st : PS) (m : Bytes) : (st.addError m).ctx = st.ctx := rfl
@[simp] theorem trace_addError (st : PS) (m : Bytes) : (st.addError m).trace = st.trace := rfl
@[simp] theorem ctx_addErrorAt (st : PS) (m : Bytes) (t : Token) : (st.addErrorAt m t).ctx = st.ctx := rfl
@[simp] theorem trace_addErrorAt (st : PS) (m : Bytes) (t : Token) : (st.addErrorAt m t).trace = st.trace := rfl
@[simp] theorem ctx_expectToken (ty : TokType) (st : PS) : (expectToken ty st).2.ctx = st.ctx := by unfold expectToken; split <;> simp
@[simp] theorem trace_expectToken (ty : TokType) (st : PS) : (expectToken ty st).2.trace = st.trace := by unfold expectToken; split <;> simp
@[simp] theorem ctx_expectSemi (cfg : PCfg) (st : PS) : (expectSemiASI cfg st).2.ctx = st.ctx := by
  unfold expectSemiASI; split <;> (try split) <;> (try split) <;> simp
@[simp] theorem trace_expectSemi (cfg : PCfg) (st : PS) : (expectSemiASI cfg st).2.trace = st.trace := by
  unfold expectSemiASI; split <;> (try split) <;> (try split) <;> simp
theorem Expr.isNone_iff (e : Expr) : e.isNone = true ↔ e = .none := by cases e <;> simp [Expr.isNone]
theorem Stmt.isNone_iff (s : Stmt) : s.isNone = true ↔ s = .none := by cases s <;> simp [Stmt.isNone]
@[simp] theorem tokOf_some (t : Token) : tokOf (some t) = t := rfl

theorem ev_paramsLoop (acc : List Ident) (st : PS) (r : List Ident × PS) (h : paramsLoop acc st = some r) :
    r.2.ctx = st.ctx ∧ r.2.trace = st.trace := by
  refine paramsLoop.partial_correctness (fun _ st r => r.2.ctx = st.ctx ∧ r.2.trace = st.trace) ?_ acc st r h
  intro f ih acc st r h
  split at h
  · have := ih _ _ _ h; simpa using this
  · cases h; exact ⟨rfl, rfl⟩

theorem ev_parseFunctionParameters (st : PS) (x : List Ident) (st' : PS) (h : parseFunctionParameters st = some (x, st')) :
    st.elen ≤ st'.elen ∧ ((st'.ctx = st.ctx ∧ st'.trace = st.trace) ∨ st.elen < st'.elen) := by
  refine ⟨elen_parseFunctionParameters h, Or.inl ?_⟩
  unfold parseFunctionParameters at h
  split at h
  · cases h; simp
  · obtain ⟨⟨ids, st1⟩, h1, h2⟩ := bind_some h
    have := ev_paramsLoop _ _ _ h1
    simp only at h2 this
    split at h2 <;> cases h2 <;> simp_all


open Lean Elab Tactic Meta in
/-- splits every hypothesis that is a conjunction or an existential statement (repeatedly) -/
elab "destruct_hyps" : tactic => do
  let mut fuel := 400
  let mut progress := true
  while progress && fuel > 0 do
    progress := false
    fuel := fuel - 1
    let g ← getMainGoal
    let decls ← g.withContext do pure ((← getLCtx).decls.toList.filterMap id)
    for d in decls do
      if d.isImplementationDetail then continue
      let ty ← g.withContext do whnfR (← instantiateMVars d.type)
      if ty.isAppOfArity ``And 2 || ty.isAppOfArity ``Exists 2 then
        let gs ← g.cases d.fvarId
        replaceMainGoal (gs.toList.map (·.mvarId))
        progress := true
        break

syntax "ev_fin" : tactic
macro_rules
  | `(tactic| ev_fin) => `(tactic| first
      | assumption
      | (simp_all (maxDischargeDepth := 6) [Expr.innerEv, Stmt.innerEv, ExprList.slotsEv, StmtList.stmtsEv, PropList.slotsEv, ExprList.slotsEv_snoc, StmtList.stmtsEv_snoc, PropList.slotsEv_snoc, forInitEv, Expr.isLet, Expr.firstTok, Stmt.firstTok, Expr.isNone_iff, Stmt.isNone_iff, stepS, stepE, effE, event_eq, identOfCur, next_cur, cur_push, cur_pop, cur_addError, cur_set, cur_setPrec, cur_setTrace, cur_expectToken_ok, expErr, semiErr, List.append_assoc, List.map_cons, List.map_nil]; done)
      | (simp only [Expr.innerEv, Stmt.innerEv, ExprList.slotsEv, StmtList.stmtsEv, PropList.slotsEv, ExprList.slotsEv_snoc, StmtList.stmtsEv_snoc, PropList.slotsEv_snoc, List.append_assoc, List.append_nil, List.nil_append]; exact rfl)
      | exact (List.append_nil _).symm
      | (intro hh; subst hh; simp_all [Expr.firstTok, Stmt.firstTok, Expr.isLet]; done)
      | (intro hh; simp_all [Expr.firstTok, Stmt.firstTok, Expr.isLet]; done)
      | exact rfl)

syntax "ev_close" : tactic
macro_rules
  | `(tactic| ev_close) => `(tactic| (
      simp only [elen_next, elen_push, elen_pop, elen_addError, elen_addErrorAt, elen_set, elen_setPrec, elen_setTrace,
        elen_expectToken, elen_expectSemi] at *
      first
        | (refine ⟨?_, Or.inr ?_⟩ <;> first | omega | (simp_all [expErr, semiErr] <;> omega))
        | (refine ⟨?_, Or.inl ?_⟩
           · first | omega | (simp_all [expErr, semiErr] <;> omega)
           · first
               | (simp_all (maxDischargeDepth := 6) [Expr.innerEv, Stmt.innerEv, ExprList.slotsEv, StmtList.stmtsEv, PropList.slotsEv, ExprList.slotsEv_snoc, StmtList.stmtsEv_snoc, PropList.slotsEv_snoc, forInitEv, Expr.isLet, Expr.firstTok, Stmt.firstTok, Expr.isNone_iff, Stmt.isNone_iff, stepS, stepE, effE, event_eq, identOfCur, next_cur, cur_push, cur_pop, cur_addError, cur_set, cur_setPrec, cur_setTrace, cur_expectToken_ok, expErr, semiErr, List.append_assoc, List.map_cons, List.map_nil]; done)
               | (try simp_all (maxDischargeDepth := 6) [Expr.innerEv, Stmt.innerEv, ExprList.slotsEv, StmtList.stmtsEv, PropList.slotsEv, ExprList.slotsEv_snoc, StmtList.stmtsEv_snoc, PropList.slotsEv_snoc, forInitEv, Expr.isLet, Expr.firstTok, Stmt.firstTok, Expr.isNone_iff, Stmt.isNone_iff, stepS, stepE, effE, event_eq, identOfCur, next_cur, cur_push, cur_pop, cur_addError, cur_set, cur_setPrec, cur_setTrace, cur_expectToken_ok, expErr, semiErr, List.append_assoc, List.map_cons, List.map_nil]
                  destruct_hyps
                  first
                    | (refine ⟨?_, ?_, _, ?_, ?_⟩ <;> ev_fin)
                    | (refine ⟨?_, _, ?_, ?_⟩ <;> ev_fin)
                    | (refine ⟨?_, _, _, ?_, ?_, ?_⟩ <;> ev_fin)
                    | (refine ⟨?_, ?_, ?_⟩ <;> ev_fin)
                    | (refine ⟨?_, ?_⟩ <;> ev_fin)
                    | (refine ⟨_, ?_, ?_⟩ <;> ev_fin)
                    | (refine ⟨_, _, ?_, ?_, ?_⟩ <;> ev_fin)
                    | ev_fin))))

set_option maxHeartbeats 6400000 in
theorem events_mutual (cfg : PCfg) :
    (∀ is st r, parseStatementI cfg is st = some r → st.elen ≤ r.2.elen ∧ ((r.2.ctx = st.ctx ∧ r.1.firstTok = some st.cur ∧ r.2.trace = st.trace ++ (stepS is st.ctx st.cur ++ r.1.innerEv cfg.stmtI cfg.exprI st.ctx)) ∨ st.elen < r.2.elen)) ∧
    (∀ st r, baseParseStatement cfg st = some r → st.elen ≤ r.2.elen ∧ ((r.2.ctx = st.ctx ∧ r.1.firstTok = some st.cur ∧ r.2.trace = st.trace ++ r.1.innerEv cfg.stmtI cfg.exprI st.ctx) ∨ st.elen < r.2.elen)) ∧
    (∀ st r, parseExpressionStatement cfg st = some r → st.elen ≤ r.2.elen ∧ ((r.2.ctx = st.ctx ∧ r.1.firstTok = some st.cur ∧ r.2.trace = st.trace ++ r.1.innerEv cfg.stmtI cfg.exprI st.ctx) ∨ st.elen < r.2.elen)) ∧
    (∀ is prec st r, parseExpressionI cfg is prec st = some r → st.elen ≤ r.2.elen ∧ ((r.2.ctx = st.ctx ∧ r.1.firstTok = some st.cur ∧ r.1.isLet = false ∧ r.2.trace = st.trace ++ (stepE is st.ctx st.cur ++ r.1.innerEv cfg.stmtI cfg.exprI st.ctx)) ∨ st.elen < r.2.elen)) ∧
    (∀ left prec st r, parseRemaining cfg left prec st = some r → st.elen ≤ r.2.elen ∧ ((r.2.ctx = st.ctx ∧ r.1.firstTok = left.firstTok ∧ (left.isLet = false → r.1.isLet = false) ∧ ∃ sfx, r.1.innerEv cfg.stmtI cfg.exprI st.ctx = left.innerEv cfg.stmtI cfg.exprI st.ctx ++ sfx ∧ r.2.trace = st.trace ++ sfx) ∨ st.elen < r.2.elen)) ∧
    (∀ left st r, parseInfixExpression cfg left st = some r → st.elen ≤ r.2.elen ∧ ((r.2.ctx = st.ctx ∧ r.1.firstTok = left.firstTok ∧ (left.isLet = false → r.1.isLet = false) ∧ ∃ sfx, r.1.innerEv cfg.stmtI cfg.exprI st.ctx = left.innerEv cfg.stmtI cfg.exprI st.ctx ++ sfx ∧ r.2.trace = st.trace ++ sfx) ∨ st.elen < r.2.elen)) ∧
    (∀ endTy st r, parseExpressionList cfg endTy st = some r → st.elen ≤ r.2.elen ∧ ((r.2.ctx = st.ctx ∧ r.2.trace = st.trace ++ r.1.slotsEv cfg.stmtI cfg.exprI st.ctx) ∨ st.elen < r.2.elen)) ∧
    (∀ acc st r, exprListLoop cfg acc st = some r → st.elen ≤ r.2.elen ∧ ((r.2.ctx = st.ctx ∧ ∃ sfx, r.1.slotsEv cfg.stmtI cfg.exprI st.ctx = acc.slotsEv cfg.stmtI cfg.exprI st.ctx ++ sfx ∧ r.2.trace = st.trace ++ sfx) ∨ st.elen < r.2.elen)) ∧
    (∀ st r, parsePrefixExpression cfg st = some r → st.elen ≤ r.2.elen ∧ ((r.2.ctx = st.ctx ∧ r.1.firstTok = some st.cur ∧ r.1.isLet = false ∧ r.2.trace = st.trace ++ r.1.innerEv cfg.stmtI cfg.exprI st.ctx) ∨ st.elen < r.2.elen)) ∧
    (∀ st r, parseFunctionExpression cfg st = some r → st.elen ≤ r.2.elen ∧ ((r.2.ctx = st.ctx ∧ r.1.firstTok = some st.cur ∧ r.1.isLet = false ∧ r.2.trace = st.trace ++ r.1.innerEv cfg.stmtI cfg.exprI st.ctx) ∨ st.elen < r.2.elen)) ∧
    (∀ st r, parseBlockStatement cfg st = some r → st.elen ≤ r.2.elen ∧ ((r.2.ctx = st.ctx ∧ r.1.firstTok = some st.cur ∧ r.2.trace = st.trace ++ r.1.innerEv cfg.stmtI cfg.exprI st.ctx) ∨ st.elen < r.2.elen)) ∧
    (∀ acc st r, blockLoop cfg acc st = some r → st.elen ≤ r.2.elen ∧ ((r.2.ctx = st.ctx ∧ ∃ sfx, r.1.stmtsEv cfg.stmtI cfg.exprI st.ctx = acc.stmtsEv cfg.stmtI cfg.exprI st.ctx ++ sfx ∧ r.2.trace = st.trace ++ sfx) ∨ st.elen < r.2.elen)) ∧
    (∀ st r, parseObjectLiteral cfg st = some r → st.elen ≤ r.2.elen ∧ ((r.2.ctx = st.ctx ∧ r.1.firstTok = some st.cur ∧ r.1.isLet = false ∧ r.2.trace = st.trace ++ r.1.innerEv cfg.stmtI cfg.exprI st.ctx) ∨ st.elen < r.2.elen)) ∧
    (∀ acc st r, objectLoop cfg acc st = some r → st.elen ≤ r.2.elen ∧ ((r.2.ctx = st.ctx ∧ ∃ p sfx, r.1 = some p ∧ p.slotsEv cfg.stmtI cfg.exprI st.ctx = acc.slotsEv cfg.stmtI cfg.exprI st.ctx ++ sfx ∧ r.2.trace = st.trace ++ sfx) ∨ st.elen < r.2.elen)) ∧
    (∀ st r, parseForStatement cfg st = some r → st.elen ≤ r.2.elen ∧ ((r.2.ctx = st.ctx ∧ r.1.firstTok = some st.cur ∧ r.2.trace = st.trace ++ r.1.innerEv cfg.stmtI cfg.exprI st.ctx) ∨ st.elen < r.2.elen)) ∧
    (∀ st r, parseForInit cfg st = some r → st.elen ≤ r.2.elen ∧ ((r.2.ctx = st.ctx ∧ r.2.trace = st.trace ++ forInitEv cfg.stmtI cfg.exprI st.ctx r.1) ∨ st.elen < r.2.elen)) ∧
    (∀ st r, parseLetExpression cfg st = some r → st.elen ≤ r.2.elen ∧ ((r.2.ctx = st.ctx ∧ r.1.firstTok = some st.cur ∧ r.1.isLet = true ∧ r.2.trace = st.trace ++ r.1.innerEv cfg.stmtI cfg.exprI st.ctx) ∨ st.elen < r.2.elen)) ∧
    (∀ st r, parseWhileStatement cfg st = some r → st.elen ≤ r.2.elen ∧ ((r.2.ctx = st.ctx ∧ r.1.firstTok = some st.cur ∧ r.2.trace = st.trace ++ r.1.innerEv cfg.stmtI cfg.exprI st.ctx) ∨ st.elen < r.2.elen)) ∧
    (∀ st r, parseIfStatement cfg st = some r → st.elen ≤ r.2.elen ∧ ((r.2.ctx = st.ctx ∧ r.1.firstTok = some st.cur ∧ r.2.trace = st.trace ++ r.1.innerEv cfg.stmtI cfg.exprI st.ctx) ∨ st.elen < r.2.elen)) ∧
    (∀ st r, parseReturnStatement cfg st = some r → st.elen ≤ r.2.elen ∧ ((r.2.ctx = st.ctx ∧ r.1.firstTok = some st.cur ∧ r.2.trace = st.trace ++ r.1.innerEv cfg.stmtI cfg.exprI st.ctx) ∨ st.elen < r.2.elen)) ∧
    (∀ st r, parseFunctionStatement cfg st = some r → st.elen ≤ r.2.elen ∧ ((r.2.ctx = st.ctx ∧ r.1.firstTok = some st.cur ∧ r.2.trace = st.trace ++ r.1.innerEv cfg.stmtI cfg.exprI st.ctx) ∨ st.elen < r.2.elen)) ∧
    (∀ st r, parseLetStatement cfg st = some r → st.elen ≤ r.2.elen ∧ ((r.2.ctx = st.ctx ∧ r.1.firstTok = some st.cur ∧ r.2.trace = st.trace ++ r.1.innerEv cfg.stmtI cfg.exprI st.ctx) ∨ st.elen < r.2.elen)) := by
  refine parseStatementI.mutual_partial_correctness cfg
    (fun is st r => st.elen ≤ r.2.elen ∧ ((r.2.ctx = st.ctx ∧ r.1.firstTok = some st.cur ∧ r.2.trace = st.trace ++ (stepS is st.ctx st.cur ++ r.1.innerEv cfg.stmtI cfg.exprI st.ctx)) ∨ st.elen < r.2.elen))
    (fun st r => st.elen ≤ r.2.elen ∧ ((r.2.ctx = st.ctx ∧ r.1.firstTok = some st.cur ∧ r.2.trace = st.trace ++ r.1.innerEv cfg.stmtI cfg.exprI st.ctx) ∨ st.elen < r.2.elen))
    (fun st r => st.elen ≤ r.2.elen ∧ ((r.2.ctx = st.ctx ∧ r.1.firstTok = some st.cur ∧ r.2.trace = st.trace ++ r.1.innerEv cfg.stmtI cfg.exprI st.ctx) ∨ st.elen < r.2.elen))
    (fun is prec st r => st.elen ≤ r.2.elen ∧ ((r.2.ctx = st.ctx ∧ r.1.firstTok = some st.cur ∧ r.1.isLet = false ∧ r.2.trace = st.trace ++ (stepE is st.ctx st.cur ++ r.1.innerEv cfg.stmtI cfg.exprI st.ctx)) ∨ st.elen < r.2.elen))
    (fun left prec st r => st.elen ≤ r.2.elen ∧ ((r.2.ctx = st.ctx ∧ r.1.firstTok = left.firstTok ∧ (left.isLet = false → r.1.isLet = false) ∧ ∃ sfx, r.1.innerEv cfg.stmtI cfg.exprI st.ctx = left.innerEv cfg.stmtI cfg.exprI st.ctx ++ sfx ∧ r.2.trace = st.trace ++ sfx) ∨ st.elen < r.2.elen))
    (fun left st r => st.elen ≤ r.2.elen ∧ ((r.2.ctx = st.ctx ∧ r.1.firstTok = left.firstTok ∧ (left.isLet = false → r.1.isLet = false) ∧ ∃ sfx, r.1.innerEv cfg.stmtI cfg.exprI st.ctx = left.innerEv cfg.stmtI cfg.exprI st.ctx ++ sfx ∧ r.2.trace = st.trace ++ sfx) ∨ st.elen < r.2.elen))
    (fun endTy st r => st.elen ≤ r.2.elen ∧ ((r.2.ctx = st.ctx ∧ r.2.trace = st.trace ++ r.1.slotsEv cfg.stmtI cfg.exprI st.ctx) ∨ st.elen < r.2.elen))
    (fun acc st r => st.elen ≤ r.2.elen ∧ ((r.2.ctx = st.ctx ∧ ∃ sfx, r.1.slotsEv cfg.stmtI cfg.exprI st.ctx = acc.slotsEv cfg.stmtI cfg.exprI st.ctx ++ sfx ∧ r.2.trace = st.trace ++ sfx) ∨ st.elen < r.2.elen))
    (fun st r => st.elen ≤ r.2.elen ∧ ((r.2.ctx = st.ctx ∧ r.1.firstTok = some st.cur ∧ r.1.isLet = false ∧ r.2.trace = st.trace ++ r.1.innerEv cfg.stmtI cfg.exprI st.ctx) ∨ st.elen < r.2.elen))
    (fun st r => st.elen ≤ r.2.elen ∧ ((r.2.ctx = st.ctx ∧ r.1.firstTok = some st.cur ∧ r.1.isLet = false ∧ r.2.trace = st.trace ++ r.1.innerEv cfg.stmtI cfg.exprI st.ctx) ∨ st.elen < r.2.elen))
    (fun st r => st.elen ≤ r.2.elen ∧ ((r.2.ctx = st.ctx ∧ r.1.firstTok = some st.cur ∧ r.2.trace = st.trace ++ r.1.innerEv cfg.stmtI cfg.exprI st.ctx) ∨ st.elen < r.2.elen))
    (fun acc st r => st.elen ≤ r.2.elen ∧ ((r.2.ctx = st.ctx ∧ ∃ sfx, r.1.stmtsEv cfg.stmtI cfg.exprI st.ctx = acc.stmtsEv cfg.stmtI cfg.exprI st.ctx ++ sfx ∧ r.2.trace = st.trace ++ sfx) ∨ st.elen < r.2.elen))
    (fun st r => st.elen ≤ r.2.elen ∧ ((r.2.ctx = st.ctx ∧ r.1.firstTok = some st.cur ∧ r.1.isLet = false ∧ r.2.trace = st.trace ++ r.1.innerEv cfg.stmtI cfg.exprI st.ctx) ∨ st.elen < r.2.elen))
    (fun acc st r => st.elen ≤ r.2.elen ∧ ((r.2.ctx = st.ctx ∧ ∃ p sfx, r.1 = some p ∧ p.slotsEv cfg.stmtI cfg.exprI st.ctx = acc.slotsEv cfg.stmtI cfg.exprI st.ctx ++ sfx ∧ r.2.trace = st.trace ++ sfx) ∨ st.elen < r.2.elen))
    (fun st r => st.elen ≤ r.2.elen ∧ ((r.2.ctx = st.ctx ∧ r.1.firstTok = some st.cur ∧ r.2.trace = st.trace ++ r.1.innerEv cfg.stmtI cfg.exprI st.ctx) ∨ st.elen < r.2.elen))
    (fun st r => st.elen ≤ r.2.elen ∧ ((r.2.ctx = st.ctx ∧ r.2.trace = st.trace ++ forInitEv cfg.stmtI cfg.exprI st.ctx r.1) ∨ st.elen < r.2.elen))
    (fun st r => st.elen ≤ r.2.elen ∧ ((r.2.ctx = st.ctx ∧ r.1.firstTok = some st.cur ∧ r.1.isLet = true ∧ r.2.trace = st.trace ++ r.1.innerEv cfg.stmtI cfg.exprI st.ctx) ∨ st.elen < r.2.elen))
    (fun st r => st.elen ≤ r.2.elen ∧ ((r.2.ctx = st.ctx ∧ r.1.firstTok = some st.cur ∧ r.2.trace = st.trace ++ r.1.innerEv cfg.stmtI cfg.exprI st.ctx) ∨ st.elen < r.2.elen))
    (fun st r => st.elen ≤ r.2.elen ∧ ((r.2.ctx = st.ctx ∧ r.1.firstTok = some st.cur ∧ r.2.trace = st.trace ++ r.1.innerEv cfg.stmtI cfg.exprI st.ctx) ∨ st.elen < r.2.elen))
    (fun st r => st.elen ≤ r.2.elen ∧ ((r.2.ctx = st.ctx ∧ r.1.firstTok = some st.cur ∧ r.2.trace = st.trace ++ r.1.innerEv cfg.stmtI cfg.exprI st.ctx) ∨ st.elen < r.2.elen))
    (fun st r => st.elen ≤ r.2.elen ∧ ((r.2.ctx = st.ctx ∧ r.1.firstTok = some st.cur ∧ r.2.trace = st.trace ++ r.1.innerEv cfg.stmtI cfg.exprI st.ctx) ∨ st.elen < r.2.elen))
    (fun st r => st.elen ≤ r.2.elen ∧ ((r.2.ctx = st.ctx ∧ r.1.firstTok = some st.cur ∧ r.2.trace = st.trace ++ r.1.innerEv cfg.stmtI cfg.exprI st.ctx) ∨ st.elen < r.2.elen))
    ?_ ?_ ?_ ?_ ?_ ?_ ?_ ?_ ?_ ?_ ?_ ?_ ?_ ?_ ?_ ?_ ?_ ?_ ?_ ?_ ?_ ?_
  · -- parseStatementI
    intro pS bS ih_pS ih_bS is st r h
    replace ih_pS := curry2 ih_pS; replace ih_bS := curry1 ih_bS
    dsimp only at ih_pS ih_bS ⊢
    obtain ⟨x, st'⟩ := r
    have evp := ev_parseFunctionParameters
    pdecompD h [ih_pS, ih_bS, evp]
    all_goals clear ih_pS ih_bS
    all_goals ev_close
  · -- baseParseStatement
    intro f1 f2 f3 f4 f5 f6 f7 f8 ih_f1 ih_f2 ih_f3 ih_f4 ih_f5 ih_f6 ih_f7 ih_f8  st r h
    replace ih_f1 := curry1 ih_f1; replace ih_f2 := curry1 ih_f2; replace ih_f3 := curry1 ih_f3; replace ih_f4 := curry1 ih_f4; replace ih_f5 := curry1 ih_f5; replace ih_f6 := curry1 ih_f6; replace ih_f7 := curry1 ih_f7; replace ih_f8 := curry1 ih_f8
    dsimp only at ih_f1 ih_f2 ih_f3 ih_f4 ih_f5 ih_f6 ih_f7 ih_f8 ⊢
    obtain ⟨x, st'⟩ := r
    split at h
    all_goals first | exact ih_f1 _ _ _ h | exact ih_f2 _ _ _ h | exact ih_f3 _ _ _ h | exact ih_f4 _ _ _ h
                    | exact ih_f5 _ _ _ h | exact ih_f6 _ _ _ h | exact ih_f7 _ _ _ h | exact ih_f8 _ _ _ h
  · -- parseExpressionStatement
    intro pE ih_pE  st r h
    replace ih_pE := curry3 ih_pE
    dsimp only at ih_pE ⊢
    obtain ⟨x, st'⟩ := r
    have evp := ev_parseFunctionParameters
    pdecompD h [ih_pE, evp]
    all_goals clear ih_pE
    all_goals ev_close
  · -- parseExpressionI
    intro pE pR pP ih_pE ih_pR ih_pP is prec st r h
    replace ih_pE := curry3 ih_pE; replace ih_pR := curry3 ih_pR; replace ih_pP := curry1 ih_pP
    dsimp only at ih_pE ih_pR ih_pP ⊢
    obtain ⟨x, st'⟩ := r
    have evp := ev_parseFunctionParameters
    pdecompD h [ih_pE, ih_pR, ih_pP, evp]
    all_goals clear ih_pE ih_pR ih_pP
    all_goals ev_close
  · -- parseRemaining
    intro pR pI ih_pR ih_pI left prec st r h
    replace ih_pR := curry3 ih_pR; replace ih_pI := curry2 ih_pI
    dsimp only at ih_pR ih_pI ⊢
    obtain ⟨x, st'⟩ := r
    have evp := ev_parseFunctionParameters
    pdecompD h [ih_pR, ih_pI, evp]
    all_goals clear ih_pR ih_pI
    all_goals ev_close
  · -- parseInfixExpression
    intro pE pL ih_pE ih_pL left st r h
    replace ih_pE := curry3 ih_pE; replace ih_pL := curry2 ih_pL
    dsimp only at ih_pE ih_pL ⊢
    obtain ⟨x, st'⟩ := r
    have evp := ev_parseFunctionParameters
    pdecompD h [ih_pE, ih_pL, evp]
    all_goals clear ih_pE ih_pL
    all_goals ev_close
  · -- parseExpressionList
    intro pE eL ih_pE ih_eL endTy st r h
    replace ih_pE := curry3 ih_pE; replace ih_eL := curry2 ih_eL
    dsimp only at ih_pE ih_eL ⊢
    obtain ⟨x, st'⟩ := r
    have evp := ev_parseFunctionParameters
    pdecompD h [ih_pE, ih_eL, evp]
    all_goals clear ih_pE ih_eL
    all_goals ev_close
  · -- exprListLoop
    intro pE eL ih_pE ih_eL acc st r h
    replace ih_pE := curry3 ih_pE; replace ih_eL := curry2 ih_eL
    dsimp only at ih_pE ih_eL ⊢
    obtain ⟨x, st'⟩ := r
    have evp := ev_parseFunctionParameters
    pdecompD h [ih_pE, ih_eL, evp]
    all_goals clear ih_pE ih_eL
    all_goals ev_close
  · -- parsePrefixExpression
    intro pE pL pFE pO ih_pE ih_pL ih_pFE ih_pO  st r h
    replace ih_pE := curry3 ih_pE; replace ih_pL := curry2 ih_pL; replace ih_pFE := curry1 ih_pFE; replace ih_pO := curry1 ih_pO
    dsimp only at ih_pE ih_pL ih_pFE ih_pO ⊢
    obtain ⟨x, st'⟩ := r
    have evp := ev_parseFunctionParameters
    pdecompD h [ih_pE, ih_pL, ih_pFE, ih_pO, evp]
    all_goals clear ih_pE ih_pL ih_pFE ih_pO
    all_goals ev_close
  · -- parseFunctionExpression
    intro pB ih_pB  st r h
    replace ih_pB := curry1 ih_pB
    dsimp only at ih_pB ⊢
    obtain ⟨x, st'⟩ := r
    have evp := ev_parseFunctionParameters
    pdecompD h [ih_pB, evp]
    all_goals clear ih_pB
    all_goals ev_close
  · -- parseBlockStatement
    intro bL ih_bL  st r h
    replace ih_bL := curry2 ih_bL
    dsimp only at ih_bL ⊢
    obtain ⟨x, st'⟩ := r
    have evp := ev_parseFunctionParameters
    pdecompD h [ih_bL, evp]
    all_goals clear ih_bL
    all_goals ev_close
  · -- blockLoop
    intro pS bL ih_pS ih_bL acc st r h
    replace ih_pS := curry2 ih_pS; replace ih_bL := curry2 ih_bL
    dsimp only at ih_pS ih_bL ⊢
    obtain ⟨x, st'⟩ := r
    have evp := ev_parseFunctionParameters
    pdecompD h [ih_pS, ih_bL, evp]
    all_goals clear ih_pS ih_bL
    all_goals ev_close
  · -- parseObjectLiteral
    intro oL ih_oL  st r h
    replace ih_oL := curry2 ih_oL
    dsimp only at ih_oL ⊢
    obtain ⟨x, st'⟩ := r
    have evp := ev_parseFunctionParameters
    pdecompD h [ih_oL, evp]
    all_goals clear ih_oL
    all_goals ev_close
  · -- objectLoop
    intro pE oL ih_pE ih_oL acc st r h
    replace ih_pE := curry3 ih_pE; replace ih_oL := curry2 ih_oL
    dsimp only at ih_pE ih_oL ⊢
    obtain ⟨x, st'⟩ := r
    have evp := ev_parseFunctionParameters
    pdecompD h [ih_pE, ih_oL, evp]
    all_goals clear ih_pE ih_oL
    all_goals ev_close
  · -- parseForStatement
    intro pS pE pFI ih_pS ih_pE ih_pFI  st r h
    replace ih_pS := curry2 ih_pS; replace ih_pE := curry3 ih_pE; replace ih_pFI := curry1 ih_pFI
    dsimp only at ih_pS ih_pE ih_pFI ⊢
    obtain ⟨x, st'⟩ := r
    have evp := ev_parseFunctionParameters
    pdecompD h [ih_pS, ih_pE, ih_pFI, evp]
    all_goals clear ih_pS ih_pE ih_pFI
    all_goals ev_close
  · -- parseForInit
    intro pE pLE ih_pE ih_pLE  st r h
    replace ih_pE := curry3 ih_pE; replace ih_pLE := curry1 ih_pLE
    dsimp only at ih_pE ih_pLE ⊢
    obtain ⟨x, st'⟩ := r
    have evp := ev_parseFunctionParameters
    pdecompD h [ih_pE, ih_pLE, evp]
    all_goals clear ih_pE ih_pLE
    all_goals ev_close
  · -- parseLetExpression
    intro pE ih_pE  st r h
    replace ih_pE := curry3 ih_pE
    dsimp only at ih_pE ⊢
    obtain ⟨x, st'⟩ := r
    have evp := ev_parseFunctionParameters
    pdecompD h [ih_pE, evp]
    all_goals clear ih_pE
    all_goals ev_close
  · -- parseWhileStatement
    intro pS pE ih_pS ih_pE  st r h
    replace ih_pS := curry2 ih_pS; replace ih_pE := curry3 ih_pE
    dsimp only at ih_pS ih_pE ⊢
    obtain ⟨x, st'⟩ := r
    have evp := ev_parseFunctionParameters
    pdecompD h [ih_pS, ih_pE, evp]
    all_goals clear ih_pS ih_pE
    all_goals ev_close
  · -- parseIfStatement
    intro pS pE ih_pS ih_pE  st r h
    replace ih_pS := curry2 ih_pS; replace ih_pE := curry3 ih_pE
    dsimp only at ih_pS ih_pE ⊢
    obtain ⟨x, st'⟩ := r
    have evp := ev_parseFunctionParameters
    pdecompD h [ih_pS, ih_pE, evp]
    all_goals clear ih_pS ih_pE
    all_goals ev_close
  · -- parseReturnStatement
    intro pE ih_pE  st r h
    replace ih_pE := curry3 ih_pE
    dsimp only at ih_pE ⊢
    obtain ⟨x, st'⟩ := r
    have evp := ev_parseFunctionParameters
    pdecompD h [ih_pE, evp]
    all_goals clear ih_pE
    all_goals ev_close
  · -- parseFunctionStatement
    intro pB ih_pB  st r h
    replace ih_pB := curry1 ih_pB
    dsimp only at ih_pB ⊢
    obtain ⟨x, st'⟩ := r
    have evp := ev_parseFunctionParameters
    pdecompD h [ih_pB, evp]
    all_goals clear ih_pB
    all_goals ev_close
  · -- parseLetStatement
    intro pE ih_pE  st r h
    replace ih_pE := curry3 ih_pE
    dsimp only at ih_pE ⊢
    obtain ⟨x, st'⟩ := r
    have evp := ev_parseFunctionParameters
    pdecompD h [ih_pE, evp]
    all_goals clear ih_pE
    all_goals ev_close

theorem ev_programLoop (cfg : PCfg) (acc : StmtList) (st : PS) (r : StmtList × PS)
    (h : programLoop cfg acc st = some r) :
    st.elen ≤ r.2.elen ∧ (r.2.elen = st.elen →
      r.2.ctx = st.ctx ∧ ∃ sfx, r.1.stmtsEv cfg.stmtI cfg.exprI st.ctx = acc.stmtsEv cfg.stmtI cfg.exprI st.ctx ++ sfx ∧
        r.2.trace = st.trace ++ sfx) := by
  refine programLoop.partial_correctness cfg
    (fun acc st r => st.elen ≤ r.2.elen ∧ (r.2.elen = st.elen → r.2.ctx = st.ctx ∧ ∃ sfx, r.1.stmtsEv cfg.stmtI cfg.exprI st.ctx =
      acc.stmtsEv cfg.stmtI cfg.exprI st.ctx ++ sfx ∧ r.2.trace = st.trace ++ sfx)) ?_ acc st r h
  intro f ih acc st r h
  split at h
  · obtain ⟨⟨s, st1⟩, h1, h2⟩ := bind_some h
    obtain ⟨l1, g1⟩ := (events_mutual cfg).1 _ _ _ h1
    dsimp only at l1 g1 h2
    obtain ⟨l2, g2⟩ := ih _ _ _ h2
    simp only [elen_next] at l2 g2
    refine ⟨by omega, fun hok => ?_⟩
    rcases g1 with ⟨c1, f1, t1⟩ | g1
    · have hn : s.isNone = false := by
        cases s <;> simp [Stmt.firstTok, Stmt.isNone] at f1 ⊢
      rw [hn] at g2
      obtain ⟨c2, sfx, e2, t2⟩ := g2 (by omega)
      simp only [ctx_next, trace_next] at c2 e2 t2
      rw [c1] at e2 c2
      refine ⟨c2, (stepS cfg.stmtI st.ctx st.cur ++ s.innerEv cfg.stmtI cfg.exprI st.ctx) ++ sfx, ?_, ?_⟩
      · rw [e2]; simp only [Bool.false_eq_true, if_false]; rw [StmtList.stmtsEv_snoc, f1]; simp only [tokOf_some, List.append_assoc]
      · rw [t2, t1]; simp only [List.append_assoc]
    · omega
  · cases h; exact ⟨Nat.le_refl _, fun _ => ⟨rfl, [], by simp, by simp⟩⟩

/-- THE TRACE IS A FUNCTION OF THE TREE: after an error-free parse the interceptor events are exactly the events the
    specification assigns to the returned tree — every statement and expression slot announced once, in source order,
    to the interceptors in installation order, on the slot's first token, with the context stack of its place -/
theorem trace_is_the_tree's (cfg : PCfg) (toks : List Token) (r : ParseResult)
    (h : parseProgram cfg toks = some r) (hok : r.errors = []) :
    r.final.trace = r.prog.stmtsEv cfg.stmtI cfg.exprI [.global] ∧ r.final.ctx = [.global] := by
  unfold parseProgram at h
  obtain ⟨⟨stmts, st⟩, h1, h2⟩ := bind_some h
  cases h2
  obtain ⟨_, g⟩ := ev_programLoop cfg _ _ _ h1
  have he : st.elen = (PS.init toks).elen := by
    simp only [PS.elen] at *; simp [PS.init, hok]
  obtain ⟨c, sfx, e, t⟩ := g he
  dsimp only at c e t ⊢
  refine ⟨?_, c⟩
  have e' : stmts.stmtsEv cfg.stmtI cfg.exprI [.global] = sfx := by simpa [PS.init, StmtList.stmtsEv] using e
  rw [t, e']; simp [PS.init]

end Xjs
