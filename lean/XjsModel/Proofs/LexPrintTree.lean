import XjsModel.Proofs.LexPrintStmt
import XjsModel.Proofs.RaTerm
/-
  Lexing what the printer spells, part 5: assembly by structural recursion over the seven mutually inductive spec-tree
  types — for every well-formed tree whose tokens are lexically sane, the text of the compact printer lexes to the
  token sequence `toks` of the tree.
-/
namespace Xjs.LP
open Xjs Xjs.RA

mutual
  /-- every token of the tree carries a literal the lexer could have produced for its type; the property name of a
      member access does not start with a digit -/
  def saneE : SE → Prop
    | .atom t => tokOk t
    | .grp lp e rp => tokOk lp ∧ tokOk rp ∧ saneE e
    | .un t r => tokOk t ∧ saneE r
    | .bin t l r => tokOk t ∧ saneE l ∧ saneE r
    | .post t l => tokOk t ∧ saneE l
    | .call t f args => tokOk t ∧ saneE f ∧ saneL args
    | .dot t o p => tokOk t ∧ saneE o ∧ tokOk p ∧ isDigit (p.lit.headD 0) = false
    | .idx t o p => tokOk t ∧ saneE o ∧ saneE p
    | .asg t l v => tokOk t ∧ saneE l ∧ saneE v
    | .casg t l v => tokOk t ∧ saneE l ∧ saneE v
    | .arr t es => tokOk t ∧ saneL es
    | .func t name params body => tokOk t ∧ (∀ n ∈ optTok name, tokOk n) ∧ (∀ p ∈ params, tokOk p) ∧ saneB body
    | .obj t props => tokOk t ∧ saneP props
  def saneL : SEList → Prop
    | .nil => True
    | .cons e rest => saneE e ∧ saneL rest
  def saneP : SPList → Prop
    | .nil => True
    | .cons k v rest => saneE k ∧ saneE v ∧ saneP rest
  def saneS : SS → Prop
    | .exprS e _ => saneE e
    | .letS t name v _ => tokOk t ∧ tokOk name ∧ saneE v
    | .letN t name => tokOk t ∧ tokOk name
    | .ret t v _ => tokOk t ∧ saneE v
    | .retN t => tokOk t
    | .ifS t c thn => tokOk t ∧ saneE c ∧ saneS thn
    | .ifElse t c thn el els => tokOk t ∧ saneE c ∧ saneS thn ∧ tokOk el ∧ saneS els
    | .whileS t c body => tokOk t ∧ saneE c ∧ saneS body
    | .forS t init cond upd body => tokOk t ∧ saneI init ∧ saneO cond ∧ saneO upd ∧ saneS body
    | .block body => saneB body
    | .funcD t name params body => tokOk t ∧ tokOk name ∧ (∀ p ∈ params, tokOk p) ∧ saneB body
  def saneB : SSList → Prop
    | .nil => True
    | .cons s rest => saneS s ∧ saneB rest
  def saneO : SOpt → Prop
    | .none => True
    | .some e => saneE e
  def saneI : SInit → Prop
    | .none => True
    | .letV t name v => tokOk t ∧ tokOk name ∧ saneE v
    | .letN t name => tokOk t ∧ tokOk name
    | .expr e => saneE e
end

theorem wrap_not_lt (r : SE) (my : Nat) (hmy : my ≤ 13) : ¬ (wrapTree (decide (r.level < my)) r.tree).prec < my := by
  rw [wrap_prec]
  by_cases h : r.level < my
  · simp only [h, decide_true, if_true, precAtomic]; omega
  · simpa only [h, decide_false, Bool.false_eq_true, if_false] using h

theorem wrap_not_le (r : SE) (my : Nat) (hmy : my < 13) : ¬ (wrapTree (decide (r.level ≤ my)) r.tree).prec ≤ my := by
  rw [wrap_prec]
  by_cases h : r.level ≤ my
  · simp only [h, decide_true, if_true, precAtomic]; omega
  · simpa only [h, decide_false, Bool.false_eq_true, if_false] using h

theorem idents_ok (ps : List Token) (h1 : ps.all isIdentTok = true) (h2 : ∀ p ∈ ps, tokOk p) : ∀ p ∈ ps, p.type = .ident ∧ tokOk p := by
  intro p hp
  have := (List.all_eq_true.1 h1) p hp
  exact ⟨by simpa [isIdentTok] using this, h2 p hp⟩

mutual
  theorem lexE : (s : SE) → s.wf = true → s.term = true → saneE s → ELex s.tree s.toks
    | .atom t, hw, _, hs => by
      intro h hst
      simp only [SE.wf] at hw
      simp only [saneE] at hs
      simpa only [SE.tree, SE.toks, List.map_cons, List.map_nil] using atom_lex t hw hs h (hst.d _)
    | .grp lp e rp, hw, ht, hs => by
      simp only [SE.wf, Bool.and_eq_true, beq_iff_eq] at hw
      simp only [SE.term] at ht
      simp only [saneE] at hs
      simp only [SE.tree, SE.toks]
      exact group_lex lp rp (keyOf_fixed lp hs.1 .lparen hw.1.1 (by decide)) (keyOf_fixed rp hs.2.1 .rparen hw.1.2 (by decide))
        e.tree e.toks (lexE e hw.2 ht hs.2.2)
    | .un t r, hw, ht, hs => by
      simp only [SE.wf, Bool.and_eq_true, beq_iff_eq] at hw
      simp only [SE.term] at ht
      simp only [saneE] at hs
      simp only [SE.tree, SE.toks]
      exact un_lex t hw.1 hs.1 _ _ (wrap_lex _ r (lexE r hw.2 ht hs.2)) (wrap_isNone _ r) (wrap_not_lt r precUnary (by decide))
    | .bin t l r, hw, ht, hs => by
      simp only [SE.wf, Bool.and_eq_true, beq_iff_eq] at hw
      simp only [SE.term, Bool.and_eq_true] at ht
      simp only [saneE] at hs
      simp only [SE.tree, SE.toks]
      have hb := binop_facts t.type hw.1.1
      exact bin_lex t hw.1.1 hs.1 _ _ _ _ (wrap_lex _ l (lexE l hw.1.2 ht.1 hs.2.1)) (wrap_lex _ r (lexE r hw.2 ht.2 hs.2.2))
        (wrap_isNone _ l) (wrap_isNone _ r) (wrap_not_lt l _ (by omega)) (wrap_not_le r _ (by omega))
    | .post t l, hw, ht, hs => by
      simp only [SE.wf, Bool.and_eq_true, beq_iff_eq] at hw
      simp only [SE.term] at ht
      simp only [saneE] at hs
      simp only [SE.tree, SE.toks]
      exact post_lex t hw.1.1 hs.1 _ _ (wrap_lex _ l (lexE l hw.1.2 ht hs.2)) (wrap_isNone _ l) (wrap_not_lt l precPostfix (by decide))
    | .call t f args, hw, ht, hs => by
      simp only [SE.wf, Bool.and_eq_true, beq_iff_eq] at hw
      simp only [SE.term, Bool.and_eq_true] at ht
      simp only [saneE] at hs
      simp only [SE.tree, SE.toks]
      exact call_lex t hw.1.1.1.1 hs.1 _ _ _ _ (lexE f hw.1.2 ht.1 hs.2.1) (lexL' args hw.2 ht.2 hs.2.2)
    | .dot t o p, hw, ht, hs => by
      simp only [SE.wf, Bool.and_eq_true, beq_iff_eq] at hw
      simp only [SE.term] at ht
      simp only [saneE] at hs
      simp only [SE.tree, SE.toks]
      exact dot_lex t p hw.1.1.1 hs.1 hw.2 hs.2.2.1 hs.2.2.2 _ _ (lexE o hw.1.2 ht hs.2.1)
    | .idx t o p, hw, ht, hs => by
      simp only [SE.wf, Bool.and_eq_true, beq_iff_eq] at hw
      simp only [SE.term, Bool.and_eq_true] at ht
      simp only [saneE] at hs
      simp only [SE.tree, SE.toks]
      exact idx_lex t hw.1.1.1.1 hs.1 _ _ _ _ (lexE o hw.1.2 ht.1 hs.2.1) (lexE p hw.2 ht.2 hs.2.2)
    | .asg t l v, hw, ht, hs => by
      simp only [SE.wf, Bool.and_eq_true, beq_iff_eq] at hw
      simp only [SE.term, Bool.and_eq_true] at ht
      simp only [saneE] at hs
      simp only [SE.tree, SE.toks]
      exact asg_lex t hw.1.1.1 hs.1 _ _ _ _ (lexE l hw.1.2 ht.1 hs.2.1) (lexE v hw.2 ht.2 hs.2.2)
    | .casg t l v, hw, ht, hs => by
      simp only [SE.wf, Bool.and_eq_true, beq_iff_eq, Bool.or_eq_true] at hw
      simp only [SE.term, Bool.and_eq_true] at ht
      simp only [saneE] at hs
      simp only [SE.tree, SE.toks]
      exact casg_lex t hw.1.1.1 hs.1 _ _ _ _ (lexE l hw.1.2 ht.1 hs.2.1) (lexE v hw.2 ht.2 hs.2.2)
    | .arr t es, hw, ht, hs => by
      simp only [SE.wf, Bool.and_eq_true, beq_iff_eq] at hw
      simp only [SE.term] at ht
      simp only [saneE] at hs
      simp only [SE.tree, SE.toks]
      exact arr_lex t rbT hw.1 hs.1 _ _ (lexL' es hw.2 ht hs.2)
    | .func t name params body, hw, ht, hs => by
      simp only [SE.wf, Bool.and_eq_true, beq_iff_eq] at hw
      simp only [SE.term] at ht
      simp only [saneE] at hs
      simp only [SE.tree, SE.toks]
      exact func_lex t hw.1.1.1 hs.1 name (idents_ok _ hw.1.1.2 hs.2.1) params (idents_ok _ hw.1.2 hs.2.2.1) _ _
        (lexB body hw.2 ht hs.2.2.2).1
    | .obj t props, hw, ht, hs => by
      simp only [SE.wf, Bool.and_eq_true, beq_iff_eq] at hw
      simp only [SE.term] at ht
      simp only [saneE] at hs
      simp only [SE.tree, SE.toks]
      exact obj_lex t _ hw.1 hs.1 _ _ (lexP' props hw.2 ht hs.2)
  theorem lexL : (es : SEList) → es.wf = true → es.term = true → saneL es → LLexC es.tree es.ctoks
    | .nil, _, _, _ => llexC_nil
    | .cons e rest, hw, ht, hs => by
      simp only [SEList.wf, Bool.and_eq_true] at hw
      simp only [SEList.term, Bool.and_eq_true] at ht
      simp only [saneL] at hs
      simp only [SEList.tree, SEList.ctoks]
      exact llexC_cons _ _ _ _ (lexE e hw.1 ht.1 hs.1) (lexL rest hw.2 ht.2 hs.2)
  theorem lexL' : (es : SEList) → es.wf = true → es.term = true → saneL es → LLex es.tree es.toks
    | .nil, _, _, _ => llex_nil
    | .cons e rest, hw, ht, hs => by
      simp only [SEList.wf, Bool.and_eq_true] at hw
      simp only [SEList.term, Bool.and_eq_true] at ht
      simp only [saneL] at hs
      simp only [SEList.tree, SEList.toks]
      exact llex_cons _ _ _ _ (lexE e hw.1 ht.1 hs.1) (lexL rest hw.2 ht.2 hs.2)
  theorem lexP : (ps : SPList) → ps.wf = true → ps.term = true → saneP ps → PLexC ps.tree ps.ctoks
    | .nil, _, _, _ => plexC_nil
    | .cons k v rest, hw, ht, hs => by
      simp only [SPList.wf, Bool.and_eq_true] at hw
      simp only [SPList.term, Bool.and_eq_true] at ht
      simp only [saneP] at hs
      simp only [SPList.tree, SPList.ctoks]
      exact plexC_cons _ _ _ _ _ _ (lexE k hw.1.1 ht.1.1 hs.1) (lexE v hw.1.2 ht.1.2 hs.2.1) (lexP rest hw.2 ht.2 hs.2.2)
  theorem lexP' : (ps : SPList) → ps.wf = true → ps.term = true → saneP ps → PLex ps.tree ps.toks
    | .nil, _, _, _ => plex_nil
    | .cons k v rest, hw, ht, hs => by
      simp only [SPList.wf, Bool.and_eq_true] at hw
      simp only [SPList.term, Bool.and_eq_true] at ht
      simp only [saneP] at hs
      simp only [SPList.tree, SPList.toks]
      exact plex_cons _ _ _ _ _ _ (lexE k hw.1.1 ht.1.1 hs.1) (lexE v hw.1.2 ht.1.2 hs.2.1) (lexP rest hw.2 ht.2 hs.2.2)
  theorem lexS : (s : SS) → s.wf = true → s.term = true → saneS s → SLex s.tree s.toks
    | .exprS e semi, hw, ht, hs => by
      simp only [SS.wf, Bool.and_eq_true] at hw
      simp only [SS.term, Bool.and_eq_true] at ht
      simp only [saneS] at hs
      simp only [SS.tree, SS.toks, ht.1, semiToks, if_true]
      exact exprS_lex _ _ (tree_isNone e) (lexE e hw.1.1 ht.2 hs)
    | .letS t name v semi, hw, ht, hs => by
      simp only [SS.wf, Bool.and_eq_true, beq_iff_eq, isIdentTok] at hw
      simp only [SS.term, Bool.and_eq_true] at ht
      simp only [saneS] at hs
      simp only [SS.tree, SS.toks, ht.1, semiToks, if_true]
      exact letS_lex t name hw.1.1 hs.1 hw.1.2 hs.2.1 _ _ (tree_isNone v) (lexE v hw.2 ht.2 hs.2.2)
    | .letN t name, hw, _, hs => by
      simp only [SS.wf, Bool.and_eq_true, beq_iff_eq, isIdentTok] at hw
      simp only [saneS] at hs
      simp only [SS.tree, SS.toks]
      exact letN_lex t name hw.1 hs.1 hw.2 hs.2
    | .ret t v semi, hw, ht, hs => by
      simp only [SS.wf, Bool.and_eq_true, beq_iff_eq] at hw
      simp only [SS.term, Bool.and_eq_true] at ht
      simp only [saneS] at hs
      simp only [SS.tree, SS.toks, ht.1, semiToks, if_true]
      exact (ret_lex t hw.1.1 hs.1).2 _ _ (tree_isNone v) (lexE v hw.1.2 ht.2 hs.2)
    | .retN t, hw, _, hs => by
      simp only [SS.wf, beq_iff_eq] at hw
      simp only [saneS] at hs
      simp only [SS.tree, SS.toks]
      exact (ret_lex t hw hs).1
    | .ifS t c thn, hw, ht, hs => by
      simp only [SS.wf, Bool.and_eq_true, beq_iff_eq] at hw
      simp only [SS.term, Bool.and_eq_true] at ht
      simp only [saneS] at hs
      simp only [SS.tree, SS.toks]
      exact if_lex t hw.1.1 hs.1 _ _ (lexE c hw.1.2 ht.1 hs.2.1) _ _ (lexS thn hw.2 ht.2 hs.2.2)
    | .ifElse t c thn el els, hw, ht, hs => by
      simp only [SS.wf, Bool.and_eq_true, beq_iff_eq] at hw
      simp only [SS.term, Bool.and_eq_true] at ht
      simp only [saneS] at hs
      simp only [SS.tree, SS.toks]
      exact ifElse_lex t el hw.1.1.1.1.1 hs.1 hw.2 hs.2.2.2.1 _ _ (lexE c hw.1.1.1.1.2 ht.1.1 hs.2.1) _ _ _ _
        (lexS thn hw.1.1.1.2 ht.1.2 hs.2.2.1) (lexS els hw.1.2 ht.2 hs.2.2.2.2) (tree_not_none els)
    | .whileS t c body, hw, ht, hs => by
      simp only [SS.wf, Bool.and_eq_true, beq_iff_eq] at hw
      simp only [SS.term, Bool.and_eq_true] at ht
      simp only [saneS] at hs
      simp only [SS.tree, SS.toks]
      exact while_lex t hw.1.1 hs.1 _ _ (lexE c hw.1.2 ht.1 hs.2.1) _ _ (lexS body hw.2 ht.2 hs.2.2)
    | .forS t init cond upd body, hw, ht, hs => by
      simp only [SS.wf, Bool.and_eq_true, beq_iff_eq] at hw
      simp only [SS.term, Bool.and_eq_true] at ht
      simp only [saneS] at hs
      simp only [SS.tree, SS.toks]
      exact for_lex t hw.1.1.1.1 hs.1 _ _ _ _ _ _ (lexI init hw.1.1.1.2 ht.1.1.1 hs.2.1) (lexO cond hw.1.1.2 ht.1.1.2 hs.2.2.1)
        (lexO upd hw.1.2 ht.1.2 hs.2.2.2.1) _ _ (lexS body hw.2 ht.2 hs.2.2.2.2)
    | .block body, hw, ht, hs => by
      simp only [SS.wf] at hw
      simp only [SS.term] at ht
      simp only [saneS] at hs
      simp only [SS.tree, SS.toks]
      exact block_lex lbrT rbrT rfl rfl _ _ (lexB body hw ht hs).1
    | .funcD t name params body, hw, ht, hs => by
      simp only [SS.wf, Bool.and_eq_true, beq_iff_eq, isIdentTok] at hw
      simp only [SS.term] at ht
      simp only [saneS] at hs
      simp only [SS.tree, SS.toks]
      exact funcD_lex t name hw.1.1.1 hs.1 hw.1.1.2 hs.2.1 params (idents_ok _ hw.1.2 hs.2.2.1) _ _ (lexB body hw.2 ht hs.2.2.2).1
  theorem lexB : (ss : SSList) → ss.wf = true → ss.term = true → saneB ss → BLex ss.tree ss.toks ∧ GLex ss.tree ss.toks
    | .nil, _, _, _ => ⟨blex_nil, glex_nil⟩
    | .cons s rest, hw, ht, hs => by
      simp only [SSList.wf, Bool.and_eq_true] at hw
      simp only [SSList.term, Bool.and_eq_true] at ht
      simp only [saneB] at hs
      simp only [SSList.tree, SSList.toks]
      exact ⟨blex_cons _ _ _ _ (lexS s hw.1 ht.1 hs.1) (lexB rest hw.2 ht.2 hs.2).1,
        glex_cons _ _ _ _ (lexS s hw.1 ht.1 hs.1) (lexB rest hw.2 ht.2 hs.2).2⟩
  theorem lexO : (o : SOpt) → o.wf = true → o.term = true → saneO o → OLex o.tree o.toks
    | .none, _, _, _ => olex_none
    | .some e, hw, ht, hs => by
      simp only [SOpt.wf] at hw
      simp only [SOpt.term] at ht
      simp only [saneO] at hs
      simp only [SOpt.tree, SOpt.toks]
      exact olex_some _ _ (tree_isNone e) (lexE e hw ht hs)
  theorem lexI : (i : SInit) → i.wf = true → i.term = true → saneI i → OLex i.tree i.toks
    | .none, _, _, _ => olex_none
    | .letV t name v, hw, ht, hs => by
      simp only [SInit.wf, Bool.and_eq_true, beq_iff_eq, isIdentTok] at hw
      simp only [SInit.term] at ht
      simp only [saneI] at hs
      simp only [SInit.tree, SInit.toks]
      exact olex_some _ _ rfl ((letE_lex t name hw.1.1 hs.1 hw.1.2 hs.2.1).2 _ _ (tree_isNone v) (lexE v hw.2 ht hs.2.2))
    | .letN t name, hw, _, hs => by
      simp only [SInit.wf, Bool.and_eq_true, beq_iff_eq, isIdentTok] at hw
      simp only [saneI] at hs
      simp only [SInit.tree, SInit.toks]
      exact olex_some _ _ rfl (letE_lex t name hw.1 hs.1 hw.2 hs.2).1
    | .expr e, hw, ht, hs => by
      simp only [SInit.wf] at hw
      simp only [SInit.term] at ht
      simp only [saneI] at hs
      simp only [SInit.tree, SInit.toks]
      exact olex_some _ _ (tree_isNone e) (lexE e hw ht hs)
end

end Xjs.LP
