import XjsModel.Proofs.ParserSteps
import XjsModel.Spec.TreeShape
/-
  C11 (c): statement lists in every tree the parser returns never contain nil entries — for every input,
  every mode, whatever errors were reported. One pass with the partial-correctness principle.
-/
namespace Xjs
set_option linter.unusedSimpArgs false
set_option linter.unusedVariables false

set_option maxHeartbeats 3200000 in
theorem wf_mutual (cfg : PCfg) :
    (∀ is st r, parseStatementI cfg is st = some r → r.1.wf = true) ∧
    (∀ st r, baseParseStatement cfg st = some r → r.1.wf = true) ∧
    (∀ st r, parseExpressionStatement cfg st = some r → r.1.wf = true) ∧
    (∀ is prec st r, parseExpressionI cfg is prec st = some r → r.1.wf = true) ∧
    (∀ left prec st r, parseRemaining cfg left prec st = some r → left.wf = true → r.1.wf = true) ∧
    (∀ left st r, parseInfixExpression cfg left st = some r → left.wf = true → r.1.wf = true) ∧
    (∀ endTy st r, parseExpressionList cfg endTy st = some r → r.1.wf = true) ∧
    (∀ acc st r, exprListLoop cfg acc st = some r → acc.wf = true → r.1.wf = true) ∧
    (∀ st r, parsePrefixExpression cfg st = some r → r.1.wf = true) ∧
    (∀ st r, parseFunctionExpression cfg st = some r → r.1.wf = true) ∧
    (∀ st r, parseBlockStatement cfg st = some r → r.1.wf = true) ∧
    (∀ acc st r, blockLoop cfg acc st = some r → acc.wf = true → r.1.wf = true) ∧
    (∀ st r, parseObjectLiteral cfg st = some r → r.1.wf = true) ∧
    (∀ acc st r, objectLoop cfg acc st = some r → acc.wf = true → ∀ p, r.1 = some p → p.wf = true) ∧
    (∀ st r, parseForStatement cfg st = some r → r.1.wf = true) ∧
    (∀ st r, parseForInit cfg st = some r → r.1.wf = true) ∧
    (∀ st r, parseLetExpression cfg st = some r → r.1.wf = true) ∧
    (∀ st r, parseWhileStatement cfg st = some r → r.1.wf = true) ∧
    (∀ st r, parseIfStatement cfg st = some r → r.1.wf = true) ∧
    (∀ st r, parseReturnStatement cfg st = some r → r.1.wf = true) ∧
    (∀ st r, parseFunctionStatement cfg st = some r → r.1.wf = true) ∧
    (∀ st r, parseLetStatement cfg st = some r → r.1.wf = true) := by
  refine parseStatementI.mutual_partial_correctness cfg
    (fun _ _ r => r.1.wf = true)
    (fun _ r => r.1.wf = true)
    (fun _ r => r.1.wf = true)
    (fun _ _ _ r => r.1.wf = true)
    (fun left _ _ r => left.wf = true → r.1.wf = true)
    (fun left _ r => left.wf = true → r.1.wf = true)
    (fun _ _ r => r.1.wf = true)
    (fun acc _ r => acc.wf = true → r.1.wf = true)
    (fun _ r => r.1.wf = true)
    (fun _ r => r.1.wf = true)
    (fun _ r => r.1.wf = true)
    (fun acc _ r => acc.wf = true → r.1.wf = true)
    (fun _ r => r.1.wf = true)
    (fun acc _ r => acc.wf = true → ∀ p, r.1 = some p → p.wf = true)
    (fun _ r => r.1.wf = true)
    (fun _ r => r.1.wf = true)
    (fun _ r => r.1.wf = true)
    (fun _ r => r.1.wf = true)
    (fun _ r => r.1.wf = true)
    (fun _ r => r.1.wf = true)
    (fun _ r => r.1.wf = true)
    (fun _ r => r.1.wf = true)
    ?_ ?_ ?_ ?_ ?_ ?_ ?_ ?_ ?_ ?_ ?_ ?_ ?_ ?_ ?_ ?_ ?_ ?_ ?_ ?_ ?_ ?_
  · -- parseStatementI
    intro pS bS ih_pS ih_bS is st r h
    replace ih_pS := curry2 ih_pS; replace ih_bS := curry1 ih_bS
    dsimp only at ih_pS ih_bS ⊢
    obtain ⟨x, st'⟩ := r
    pdecompW h [ih_pS, ih_bS]
    all_goals clear ih_pS ih_bS
    all_goals (try intro _ _)
    all_goals simp_all [Expr.wf, Stmt.wf, ExprList.wf, StmtList.wf, PropList.wf, StmtList.wf_snoc, ExprList.wf_snoc, PropList.wf_snoc, Stmt.isNone]
    all_goals (try (intro hh; subst hh; simp_all [Expr.wf, Stmt.wf, ExprList.wf, StmtList.wf, PropList.wf, StmtList.wf_snoc, ExprList.wf_snoc, PropList.wf_snoc, Stmt.isNone]))
  · -- baseParseStatement
    intro f1 f2 f3 f4 f5 f6 f7 f8 ih_f1 ih_f2 ih_f3 ih_f4 ih_f5 ih_f6 ih_f7 ih_f8  st r h
    replace ih_f1 := curry1 ih_f1; replace ih_f2 := curry1 ih_f2; replace ih_f3 := curry1 ih_f3; replace ih_f4 := curry1 ih_f4; replace ih_f5 := curry1 ih_f5; replace ih_f6 := curry1 ih_f6; replace ih_f7 := curry1 ih_f7; replace ih_f8 := curry1 ih_f8
    dsimp only at ih_f1 ih_f2 ih_f3 ih_f4 ih_f5 ih_f6 ih_f7 ih_f8 ⊢
    obtain ⟨x, st'⟩ := r
    split at h
    all_goals first | exact ih_f1 _ _ _ h | exact ih_f2 _ _ _ h | exact ih_f3 _ _ _ h | exact ih_f4 _ _ _ h
                    | exact ih_f5 _ _ _ h | exact ih_f6 _ _ _ h | exact ih_f7 _ _ _ h | exact ih_f8 _ _ _ h
  · -- parseExpressionStatement
    intro pE ih_pE  st r h
    replace ih_pE := curry3 ih_pE
    dsimp only at ih_pE ⊢
    obtain ⟨x, st'⟩ := r
    pdecompW h [ih_pE]
    all_goals clear ih_pE
    all_goals (try intro _ _)
    all_goals simp_all [Expr.wf, Stmt.wf, ExprList.wf, StmtList.wf, PropList.wf, StmtList.wf_snoc, ExprList.wf_snoc, PropList.wf_snoc, Stmt.isNone]
    all_goals (try (intro hh; subst hh; simp_all [Expr.wf, Stmt.wf, ExprList.wf, StmtList.wf, PropList.wf, StmtList.wf_snoc, ExprList.wf_snoc, PropList.wf_snoc, Stmt.isNone]))
  · -- parseExpressionI
    intro pE pR pP ih_pE ih_pR ih_pP is prec st r h
    replace ih_pE := curry3 ih_pE; replace ih_pR := curry3 ih_pR; replace ih_pP := curry1 ih_pP
    dsimp only at ih_pE ih_pR ih_pP ⊢
    obtain ⟨x, st'⟩ := r
    pdecompW h [ih_pE, ih_pR, ih_pP]
    all_goals clear ih_pE ih_pR ih_pP
    all_goals (try intro _ _)
    all_goals simp_all [Expr.wf, Stmt.wf, ExprList.wf, StmtList.wf, PropList.wf, StmtList.wf_snoc, ExprList.wf_snoc, PropList.wf_snoc, Stmt.isNone]
    all_goals (try (intro hh; subst hh; simp_all [Expr.wf, Stmt.wf, ExprList.wf, StmtList.wf, PropList.wf, StmtList.wf_snoc, ExprList.wf_snoc, PropList.wf_snoc, Stmt.isNone]))
  · -- parseRemaining
    intro pR pI ih_pR ih_pI left prec st r h
    replace ih_pR := curry3 ih_pR; replace ih_pI := curry2 ih_pI
    dsimp only at ih_pR ih_pI ⊢
    obtain ⟨x, st'⟩ := r
    pdecompW h [ih_pR, ih_pI]
    all_goals clear ih_pR ih_pI
    all_goals (try intro _ _)
    all_goals simp_all [Expr.wf, Stmt.wf, ExprList.wf, StmtList.wf, PropList.wf, StmtList.wf_snoc, ExprList.wf_snoc, PropList.wf_snoc, Stmt.isNone]
    all_goals (try (intro hh; subst hh; simp_all [Expr.wf, Stmt.wf, ExprList.wf, StmtList.wf, PropList.wf, StmtList.wf_snoc, ExprList.wf_snoc, PropList.wf_snoc, Stmt.isNone]))
  · -- parseInfixExpression
    intro pE pL ih_pE ih_pL left st r h
    replace ih_pE := curry3 ih_pE; replace ih_pL := curry2 ih_pL
    dsimp only at ih_pE ih_pL ⊢
    obtain ⟨x, st'⟩ := r
    pdecompW h [ih_pE, ih_pL]
    all_goals clear ih_pE ih_pL
    all_goals (try intro _ _)
    all_goals simp_all [Expr.wf, Stmt.wf, ExprList.wf, StmtList.wf, PropList.wf, StmtList.wf_snoc, ExprList.wf_snoc, PropList.wf_snoc, Stmt.isNone]
    all_goals (try (intro hh; subst hh; simp_all [Expr.wf, Stmt.wf, ExprList.wf, StmtList.wf, PropList.wf, StmtList.wf_snoc, ExprList.wf_snoc, PropList.wf_snoc, Stmt.isNone]))
  · -- parseExpressionList
    intro pE eL ih_pE ih_eL endTy st r h
    replace ih_pE := curry3 ih_pE; replace ih_eL := curry2 ih_eL
    dsimp only at ih_pE ih_eL ⊢
    obtain ⟨x, st'⟩ := r
    pdecompW h [ih_pE, ih_eL]
    all_goals clear ih_pE ih_eL
    all_goals (try intro _ _)
    all_goals simp_all [Expr.wf, Stmt.wf, ExprList.wf, StmtList.wf, PropList.wf, StmtList.wf_snoc, ExprList.wf_snoc, PropList.wf_snoc, Stmt.isNone]
    all_goals (try (intro hh; subst hh; simp_all [Expr.wf, Stmt.wf, ExprList.wf, StmtList.wf, PropList.wf, StmtList.wf_snoc, ExprList.wf_snoc, PropList.wf_snoc, Stmt.isNone]))
  · -- exprListLoop
    intro pE eL ih_pE ih_eL acc st r h
    replace ih_pE := curry3 ih_pE; replace ih_eL := curry2 ih_eL
    dsimp only at ih_pE ih_eL ⊢
    obtain ⟨x, st'⟩ := r
    pdecompW h [ih_pE, ih_eL]
    all_goals clear ih_pE ih_eL
    all_goals (try intro _ _)
    all_goals simp_all [Expr.wf, Stmt.wf, ExprList.wf, StmtList.wf, PropList.wf, StmtList.wf_snoc, ExprList.wf_snoc, PropList.wf_snoc, Stmt.isNone]
    all_goals (try (intro hh; subst hh; simp_all [Expr.wf, Stmt.wf, ExprList.wf, StmtList.wf, PropList.wf, StmtList.wf_snoc, ExprList.wf_snoc, PropList.wf_snoc, Stmt.isNone]))
  · -- parsePrefixExpression
    intro pE pL pFE pO ih_pE ih_pL ih_pFE ih_pO  st r h
    replace ih_pE := curry3 ih_pE; replace ih_pL := curry2 ih_pL; replace ih_pFE := curry1 ih_pFE; replace ih_pO := curry1 ih_pO
    dsimp only at ih_pE ih_pL ih_pFE ih_pO ⊢
    obtain ⟨x, st'⟩ := r
    pdecompW h [ih_pE, ih_pL, ih_pFE, ih_pO]
    all_goals clear ih_pE ih_pL ih_pFE ih_pO
    all_goals (try intro _ _)
    all_goals simp_all [Expr.wf, Stmt.wf, ExprList.wf, StmtList.wf, PropList.wf, StmtList.wf_snoc, ExprList.wf_snoc, PropList.wf_snoc, Stmt.isNone]
    all_goals (try (intro hh; subst hh; simp_all [Expr.wf, Stmt.wf, ExprList.wf, StmtList.wf, PropList.wf, StmtList.wf_snoc, ExprList.wf_snoc, PropList.wf_snoc, Stmt.isNone]))
  · -- parseFunctionExpression
    intro pB ih_pB  st r h
    replace ih_pB := curry1 ih_pB
    dsimp only at ih_pB ⊢
    obtain ⟨x, st'⟩ := r
    pdecompW h [ih_pB]
    all_goals clear ih_pB
    all_goals (try intro _ _)
    all_goals simp_all [Expr.wf, Stmt.wf, ExprList.wf, StmtList.wf, PropList.wf, StmtList.wf_snoc, ExprList.wf_snoc, PropList.wf_snoc, Stmt.isNone]
    all_goals (try (intro hh; subst hh; simp_all [Expr.wf, Stmt.wf, ExprList.wf, StmtList.wf, PropList.wf, StmtList.wf_snoc, ExprList.wf_snoc, PropList.wf_snoc, Stmt.isNone]))
  · -- parseBlockStatement
    intro bL ih_bL  st r h
    replace ih_bL := curry2 ih_bL
    dsimp only at ih_bL ⊢
    obtain ⟨x, st'⟩ := r
    pdecompW h [ih_bL]
    all_goals clear ih_bL
    all_goals (try intro _ _)
    all_goals simp_all [Expr.wf, Stmt.wf, ExprList.wf, StmtList.wf, PropList.wf, StmtList.wf_snoc, ExprList.wf_snoc, PropList.wf_snoc, Stmt.isNone]
    all_goals (try (intro hh; subst hh; simp_all [Expr.wf, Stmt.wf, ExprList.wf, StmtList.wf, PropList.wf, StmtList.wf_snoc, ExprList.wf_snoc, PropList.wf_snoc, Stmt.isNone]))
  · -- blockLoop
    intro pS bL ih_pS ih_bL acc st r h
    replace ih_pS := curry2 ih_pS; replace ih_bL := curry2 ih_bL
    dsimp only at ih_pS ih_bL ⊢
    obtain ⟨x, st'⟩ := r
    pdecompW h [ih_pS, ih_bL]
    all_goals clear ih_pS ih_bL
    all_goals (try intro _ _)
    all_goals simp_all [Expr.wf, Stmt.wf, ExprList.wf, StmtList.wf, PropList.wf, StmtList.wf_snoc, ExprList.wf_snoc, PropList.wf_snoc, Stmt.isNone]
    all_goals (try (intro hh; subst hh; simp_all [Expr.wf, Stmt.wf, ExprList.wf, StmtList.wf, PropList.wf, StmtList.wf_snoc, ExprList.wf_snoc, PropList.wf_snoc, Stmt.isNone]))
  · -- parseObjectLiteral
    intro oL ih_oL  st r h
    replace ih_oL := curry2 ih_oL
    dsimp only at ih_oL ⊢
    obtain ⟨x, st'⟩ := r
    pdecompW h [ih_oL]
    all_goals clear ih_oL
    all_goals (try intro _ _)
    all_goals simp_all [Expr.wf, Stmt.wf, ExprList.wf, StmtList.wf, PropList.wf, StmtList.wf_snoc, ExprList.wf_snoc, PropList.wf_snoc, Stmt.isNone]
    all_goals (try (intro hh; subst hh; simp_all [Expr.wf, Stmt.wf, ExprList.wf, StmtList.wf, PropList.wf, StmtList.wf_snoc, ExprList.wf_snoc, PropList.wf_snoc, Stmt.isNone]))
  · -- objectLoop
    intro pE oL ih_pE ih_oL acc st r h
    replace ih_pE := curry3 ih_pE; replace ih_oL := curry2 ih_oL
    dsimp only at ih_pE ih_oL ⊢
    obtain ⟨x, st'⟩ := r
    pdecompW h [ih_pE, ih_oL]
    all_goals clear ih_pE ih_oL
    all_goals (try intro _ _)
    all_goals simp_all [Expr.wf, Stmt.wf, ExprList.wf, StmtList.wf, PropList.wf, StmtList.wf_snoc, ExprList.wf_snoc, PropList.wf_snoc, Stmt.isNone]
    all_goals (try (intro hh; subst hh; simp_all [Expr.wf, Stmt.wf, ExprList.wf, StmtList.wf, PropList.wf, StmtList.wf_snoc, ExprList.wf_snoc, PropList.wf_snoc, Stmt.isNone]))
  · -- parseForStatement
    intro pS pE pFI ih_pS ih_pE ih_pFI  st r h
    replace ih_pS := curry2 ih_pS; replace ih_pE := curry3 ih_pE; replace ih_pFI := curry1 ih_pFI
    dsimp only at ih_pS ih_pE ih_pFI ⊢
    obtain ⟨x, st'⟩ := r
    pdecompW h [ih_pS, ih_pE, ih_pFI]
    all_goals clear ih_pS ih_pE ih_pFI
    all_goals (try intro _ _)
    all_goals simp_all [Expr.wf, Stmt.wf, ExprList.wf, StmtList.wf, PropList.wf, StmtList.wf_snoc, ExprList.wf_snoc, PropList.wf_snoc, Stmt.isNone]
    all_goals (try (intro hh; subst hh; simp_all [Expr.wf, Stmt.wf, ExprList.wf, StmtList.wf, PropList.wf, StmtList.wf_snoc, ExprList.wf_snoc, PropList.wf_snoc, Stmt.isNone]))
  · -- parseForInit
    intro pE pLE ih_pE ih_pLE  st r h
    replace ih_pE := curry3 ih_pE; replace ih_pLE := curry1 ih_pLE
    dsimp only at ih_pE ih_pLE ⊢
    obtain ⟨x, st'⟩ := r
    pdecompW h [ih_pE, ih_pLE]
    all_goals clear ih_pE ih_pLE
    all_goals (try intro _ _)
    all_goals simp_all [Expr.wf, Stmt.wf, ExprList.wf, StmtList.wf, PropList.wf, StmtList.wf_snoc, ExprList.wf_snoc, PropList.wf_snoc, Stmt.isNone]
    all_goals (try (intro hh; subst hh; simp_all [Expr.wf, Stmt.wf, ExprList.wf, StmtList.wf, PropList.wf, StmtList.wf_snoc, ExprList.wf_snoc, PropList.wf_snoc, Stmt.isNone]))
  · -- parseLetExpression
    intro pE ih_pE  st r h
    replace ih_pE := curry3 ih_pE
    dsimp only at ih_pE ⊢
    obtain ⟨x, st'⟩ := r
    pdecompW h [ih_pE]
    all_goals clear ih_pE
    all_goals (try intro _ _)
    all_goals simp_all [Expr.wf, Stmt.wf, ExprList.wf, StmtList.wf, PropList.wf, StmtList.wf_snoc, ExprList.wf_snoc, PropList.wf_snoc, Stmt.isNone]
    all_goals (try (intro hh; subst hh; simp_all [Expr.wf, Stmt.wf, ExprList.wf, StmtList.wf, PropList.wf, StmtList.wf_snoc, ExprList.wf_snoc, PropList.wf_snoc, Stmt.isNone]))
  · -- parseWhileStatement
    intro pS pE ih_pS ih_pE  st r h
    replace ih_pS := curry2 ih_pS; replace ih_pE := curry3 ih_pE
    dsimp only at ih_pS ih_pE ⊢
    obtain ⟨x, st'⟩ := r
    pdecompW h [ih_pS, ih_pE]
    all_goals clear ih_pS ih_pE
    all_goals (try intro _ _)
    all_goals simp_all [Expr.wf, Stmt.wf, ExprList.wf, StmtList.wf, PropList.wf, StmtList.wf_snoc, ExprList.wf_snoc, PropList.wf_snoc, Stmt.isNone]
    all_goals (try (intro hh; subst hh; simp_all [Expr.wf, Stmt.wf, ExprList.wf, StmtList.wf, PropList.wf, StmtList.wf_snoc, ExprList.wf_snoc, PropList.wf_snoc, Stmt.isNone]))
  · -- parseIfStatement
    intro pS pE ih_pS ih_pE  st r h
    replace ih_pS := curry2 ih_pS; replace ih_pE := curry3 ih_pE
    dsimp only at ih_pS ih_pE ⊢
    obtain ⟨x, st'⟩ := r
    pdecompW h [ih_pS, ih_pE]
    all_goals clear ih_pS ih_pE
    all_goals (try intro _ _)
    all_goals simp_all [Expr.wf, Stmt.wf, ExprList.wf, StmtList.wf, PropList.wf, StmtList.wf_snoc, ExprList.wf_snoc, PropList.wf_snoc, Stmt.isNone]
    all_goals (try (intro hh; subst hh; simp_all [Expr.wf, Stmt.wf, ExprList.wf, StmtList.wf, PropList.wf, StmtList.wf_snoc, ExprList.wf_snoc, PropList.wf_snoc, Stmt.isNone]))
  · -- parseReturnStatement
    intro pE ih_pE  st r h
    replace ih_pE := curry3 ih_pE
    dsimp only at ih_pE ⊢
    obtain ⟨x, st'⟩ := r
    pdecompW h [ih_pE]
    all_goals clear ih_pE
    all_goals (try intro _ _)
    all_goals simp_all [Expr.wf, Stmt.wf, ExprList.wf, StmtList.wf, PropList.wf, StmtList.wf_snoc, ExprList.wf_snoc, PropList.wf_snoc, Stmt.isNone]
    all_goals (try (intro hh; subst hh; simp_all [Expr.wf, Stmt.wf, ExprList.wf, StmtList.wf, PropList.wf, StmtList.wf_snoc, ExprList.wf_snoc, PropList.wf_snoc, Stmt.isNone]))
  · -- parseFunctionStatement
    intro pB ih_pB  st r h
    replace ih_pB := curry1 ih_pB
    dsimp only at ih_pB ⊢
    obtain ⟨x, st'⟩ := r
    pdecompW h [ih_pB]
    all_goals clear ih_pB
    all_goals (try intro _ _)
    all_goals simp_all [Expr.wf, Stmt.wf, ExprList.wf, StmtList.wf, PropList.wf, StmtList.wf_snoc, ExprList.wf_snoc, PropList.wf_snoc, Stmt.isNone]
    all_goals (try (intro hh; subst hh; simp_all [Expr.wf, Stmt.wf, ExprList.wf, StmtList.wf, PropList.wf, StmtList.wf_snoc, ExprList.wf_snoc, PropList.wf_snoc, Stmt.isNone]))
  · -- parseLetStatement
    intro pE ih_pE  st r h
    replace ih_pE := curry3 ih_pE
    dsimp only at ih_pE ⊢
    obtain ⟨x, st'⟩ := r
    pdecompW h [ih_pE]
    all_goals clear ih_pE
    all_goals (try intro _ _)
    all_goals simp_all [Expr.wf, Stmt.wf, ExprList.wf, StmtList.wf, PropList.wf, StmtList.wf_snoc, ExprList.wf_snoc, PropList.wf_snoc, Stmt.isNone]
    all_goals (try (intro hh; subst hh; simp_all [Expr.wf, Stmt.wf, ExprList.wf, StmtList.wf, PropList.wf, StmtList.wf_snoc, ExprList.wf_snoc, PropList.wf_snoc, Stmt.isNone]))

end Xjs
