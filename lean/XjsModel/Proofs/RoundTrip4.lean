import XjsModel.Proofs.RoundTrip3
/-
  Round trip, part 4: the induction.
-/
namespace Xjs.RT
open Xjs

variable {cfg : PCfg}

theorem fits_unary_operand (r : SE) (hw : r.wf = true) (h : precUnary ≤ r.level) : r.fits UNARY := by
  cases r with
  | atom t => trivial
  | grp e => trivial
  | un t r => trivial
  | bin t l r =>
    have hw' : (lookup baseInfixFns t.type == some .binary && l.wf && r.wf) = true := hw
    simp only [Bool.and_eq_true, beq_iff_eq] at hw'
    have := (binary_prec t.type hw'.1.1).2.2.1
    have h' : precUnary ≤ operatorPrecedence t.type := h
    unfold precUnary at h'; omega
  | post t l =>
    exact fits_of_level (.post t l) hw UNARY (by show 9 < precPostfix; decide)

theorem nextK_shift (st : PS) : ∀ n, n ≥ 1 → nextK (n - 1) st.next = nextK n st := by
  intro n hn
  cases n with
  | zero => omega
  | succ m => rfl

theorem stops_atomic_of {q : Nat} {rest : List Token} (h : stops cfg q rest) (hq : q ≤ precAtomic) : stops cfg precAtomic rest :=
  stops_mono h hq

theorem main (hc : BaseCfg cfg) (s : SE) (hw : s.wf = true) : Main cfg s := by
  induction s with
  | atom t =>
    intro p st rest hr ht _ _
    have ht' : st.toks = t :: rest := by simpa [SE.toks] using ht
    have hcur : st.cur = t := cur_of_toks ht'
    rw [unfold_expr, prefix_atom hc st (by rw [hcur]; exact hw)]
    simp only [Option.bind_eq_bind, Option.bind_some, hcur]
    rfl
  | grp e ih =>
    intro p st rest hr ht _ _
    exact group_case hc e hw (ih hw) p st rest hr ht
  | un t r ih =>
    intro p st rest hr ht _ hs
    have hw' : (lookup basePrefixFns t.type == some .unary && r.wf) = true := hw
    simp only [Bool.and_eq_true, beq_iff_eq] at hw'
    have ht' : st.toks = t :: (wrapToks (parenUnary r) r.toks ++ rest) := by simpa [SE.toks] using ht
    have hcur : st.cur = t := cur_of_toks ht'
    obtain ⟨a, as, has⟩ := List.exists_cons_of_ne_nil (wrapToks_ne_nil (parenUnary r) r)
    have hn : st.next.toks = wrapToks (parenUnary r) r.toks ++ rest := by
      rw [has] at ht' ⊢; exact next_toks_cons (by simpa using ht')
    -- the loop opened by the prefix operator stops behind the operand
    have hrbl : (SE.un t r).rbl = if parenUnary r then precUnary else min precUnary r.rbl := rfl
    have hs9 : stops cfg UNARY rest := by
      refine stops_mono hs ?_
      rw [hrbl]; split
      · exact Nat.le_refl _
      · exact Nat.min_le_left _ _
    have hsr : stops cfg (if parenUnary r then precAtomic else r.rbl) rest := by
      by_cases hb : parenUnary r = true
      · rw [if_pos hb]; exact stops_mono hs9 (by decide)
      · rw [if_neg hb]; refine stops_mono hs ?_
        rw [hrbl, if_neg hb]; exact Nat.min_le_right _ _
    have hfit : parenUnary r = false → r.fits UNARY := by
      intro hb
      exact fits_unary_operand r hw'.2 (by simpa [parenUnary] using hb)
    have e1 := wrapped hc r hw'.2 (ih hw'.2) (parenUnary r) UNARY st.next rest hr hn hfit hsr hs9
    rw [unfold_expr, prefix_unary hc st (by rw [hcur]; exact hw'.1), e1]
    simp only [Option.bind_eq_bind, Option.bind_some, hcur]
    show parseRemaining cfg (SE.un t r).tree p _ = parseRemaining cfg (SE.un t r).tree p _
    congr 1
    have hlen : (wrapToks (parenUnary r) r.toks).length ≥ 1 := by rw [has]; simp
    have : (SE.un t r).toks.length - 1 = (wrapToks (parenUnary r) r.toks).length := by simp [SE.toks]
    rw [this]
    exact nextK_shift st _ hlen
  | bin t l r ihl ihr =>
    intro p st rest hr ht hf hs
    have hw' : (lookup baseInfixFns t.type == some .binary && l.wf && r.wf) = true := hw
    simp only [Bool.and_eq_true, beq_iff_eq] at hw'
    obtain ⟨hprec, h3, h8, hsemi, hlp, hlb⟩ := binary_prec t.type hw'.1.1
    have hprec' : precOf cfg t.type = operatorPrecedence t.type := by rw [precOf_base hc]; exact hprec
    generalize hmy : operatorPrecedence t.type = my at *
    have hfits : p < my ∧ (parenLeft my l = true ∨ l.fits p) := by
      have : (SE.bin t l r).fits p = (p < operatorPrecedence t.type ∧ (parenLeft (operatorPrecedence t.type) l = true ∨ l.fits p)) := rfl
      rw [this, hmy] at hf; exact hf
    have hrbl : (SE.bin t l r).rbl = if parenRight my r then my else min my r.rbl := by
      show (if parenRight (operatorPrecedence t.type) r then operatorPrecedence t.type else min (operatorPrecedence t.type) r.rbl) = _
      rw [hmy]
    have htoks : (SE.bin t l r).toks = wrapToks (parenLeft my l) l.toks ++ t :: wrapToks (parenRight my r) r.toks := by
      show wrapToks (parenLeft (operatorPrecedence t.type) l) l.toks ++ t :: wrapToks (parenRight (operatorPrecedence t.type) r) r.toks = _
      rw [hmy]
    have htree : (SE.bin t l r).tree = .binary t (wrapTree (parenLeft my l) l.tree) t.lit (wrapTree (parenRight my r) r.tree) := by
      show Expr.binary t (wrapTree (parenLeft (operatorPrecedence t.type) l) l.tree) t.lit (wrapTree (parenRight (operatorPrecedence t.type) r) r.tree) = _
      rw [hmy]
    have hWLne : wrapToks (parenLeft my l) l.toks ≠ [] := wrapToks_ne_nil _ l
    have hWRne : wrapToks (parenRight my r) r.toks ≠ [] := wrapToks_ne_nil _ r
    generalize hWL : wrapToks (parenLeft my l) l.toks = WL at *
    generalize hWR : wrapToks (parenRight my r) r.toks = WR at *
    have ht1 : st.toks = WL ++ (t :: WR ++ rest) := by rw [ht, htoks]; simp
    -- left operand
    have hsL : stops cfg (if parenLeft my l then precAtomic else l.rbl) (t :: WR ++ rest) := by
      right; show precOf cfg t.type ≤ _
      rw [hprec']
      by_cases hb : parenLeft my l = true
      · rw [if_pos hb]; unfold precAtomic; omega
      · rw [if_neg hb]
        have : my ≤ l.level := by simpa [parenLeft] using hb
        exact Nat.le_trans this (level_le_rbl l)
    have hfL : parenLeft my l = false → l.fits p := by
      intro hb; rcases hfits.2 with h | h
      · rw [hb] at h; exact absurd h (by simp)
      · exact h
    -- we need the left operand only up to the loop (not its value): use the invariant, not `wrapped`
    have eL : parseExpressionI cfg [] p st =
        parseRemaining cfg (wrapTree (parenLeft my l) l.tree) p (nextK (WL.length - 1) st) := by
      cases hb : parenLeft my l with
      | false =>
        have hWL' : WL = l.toks := by rw [← hWL, hb]; simp [wrapToks]
        have := ihl hw'.1.2 p st (t :: WR ++ rest) (by simp) (by rw [ht1, hWL']) (hfL hb)
          (by simpa [hb] using hsL)
        rw [this, hWL']; simp [wrapTree]
      | true =>
        have hWL' : WL = lpT :: l.toks ++ [rpT] := by rw [← hWL, hb]; simp [wrapToks]
        have := group_case hc l hw'.1.2 (ihl hw'.1.2) p st (t :: WR ++ rest) (by simp) (by rw [ht1, hWL'])
        rw [this, hWL']; simp [wrapTree]
    obtain ⟨lastL, hS1, _⟩ := toks_after WL hWLne (t :: WR ++ rest) st ht1
    generalize hS1def : nextK (WL.length - 1) st = S1 at *
    obtain ⟨b0, bs, hbs⟩ := List.exists_cons_of_ne_nil hWRne
    obtain ⟨r0, rs, hrs⟩ := List.exists_cons_of_ne_nil hr
    have hS1' : S1.toks = lastL :: t :: b0 :: (bs ++ rest) := by rw [hS1, hbs]; simp
    have hpeek : S1.peek = t := peek_of_toks hS1'
    have hS2 : S1.next.next.toks = WR ++ rest := by
      have a1 : S1.next.toks = t :: b0 :: (bs ++ rest) := next_toks_cons hS1'
      rw [next_toks_cons a1, hbs]; simp
    -- right operand
    have hsR : stops cfg (if parenRight my r then precAtomic else r.rbl) rest := by
      by_cases hb : parenRight my r = true
      · rw [if_pos hb]; refine stops_mono hs ?_; rw [hrbl, if_pos hb]; unfold precAtomic; omega
      · rw [if_neg hb]; refine stops_mono hs ?_; rw [hrbl, if_neg hb]; exact Nat.min_le_right _ _
    have hsMy : stops cfg my rest := by
      refine stops_mono hs ?_; rw [hrbl]; split
      · exact Nat.le_refl _
      · exact Nat.min_le_left _ _
    have hfR : parenRight my r = false → r.fits my := by
      intro hb
      exact fits_of_level r hw'.2 my (by simpa [parenRight] using hb)
    have eR := wrapped hc r hw'.2 (ihr hw'.2) (parenRight my r) my S1.next.next rest hr (by rw [hS2, hWR]) hfR hsR hsMy
    rw [hWR] at eR
    rw [eL, remaining_step _ p S1 (by rw [hpeek]; exact hsemi) (by rw [hpeek, hprec']; exact hfits.1)
      (by rw [hpeek]; exact ⟨hlp, hlb⟩),
      infix_binary hc _ S1 (by rw [hpeek]; exact hw'.1.1), hpeek, hprec', eR]
    simp only [Option.bind_eq_bind, Option.bind_some]
    rw [htree]
    congr 1
    have l1 : WL.length ≥ 1 := by cases WL with | nil => exact absurd rfl hWLne | cons _ _ => simp
    have l2 : WR.length ≥ 1 := by rw [hbs]; simp
    have hlen : (SE.bin t l r).toks.length - 1 = (WL.length - 1) + (2 + (WR.length - 1)) := by
      rw [htoks]; simp; omega
    rw [hlen, nextK_add, nextK_add, hS1def]
    rfl
  | post t l ihl =>
    intro p st rest hr ht hf hs
    have hw' : (lookup baseInfixFns t.type == some .postfix && l.wf) = true := hw
    simp only [Bool.and_eq_true, beq_iff_eq] at hw'
    obtain ⟨hprec, hsemi, hlp, hlb⟩ := postfix_prec t.type hw'.1
    have hprec' : precOf cfg t.type = precPostfix := by rw [precOf_base hc]; exact hprec
    have hfits : p < precPostfix ∧ (parenPostfix l = true ∨ l.fits p) := hf
    have hWLne : wrapToks (parenPostfix l) l.toks ≠ [] := wrapToks_ne_nil _ l
    have ht1 : st.toks = wrapToks (parenPostfix l) l.toks ++ (t :: rest) := by rw [ht]; simp [SE.toks]
    have hlen0 : (SE.post t l).toks.length - 1 = ((wrapToks (parenPostfix l) l.toks).length - 1) + 1 := by
      have : (wrapToks (parenPostfix l) l.toks).length ≥ 1 := by
        cases h : wrapToks (parenPostfix l) l.toks with | nil => exact absurd h hWLne | cons _ _ => simp
      simp [SE.toks]; omega
    generalize hWL : wrapToks (parenPostfix l) l.toks = WL at *
    have hsL : stops cfg (if parenPostfix l then precAtomic else l.rbl) (t :: rest) := by
      right; show precOf cfg t.type ≤ _
      rw [hprec']
      by_cases hb : parenPostfix l = true
      · rw [if_pos hb]; decide
      · rw [if_neg hb]
        have : precPostfix ≤ l.level := by simpa [parenPostfix] using hb
        exact Nat.le_trans this (level_le_rbl l)
    have eL : parseExpressionI cfg [] p st =
        parseRemaining cfg (wrapTree (parenPostfix l) l.tree) p (nextK (WL.length - 1) st) := by
      cases hb : parenPostfix l with
      | false =>
        have hfl : l.fits p := by
          rcases hfits.2 with h | h
          · rw [hb] at h; exact absurd h (by simp)
          · exact h
        have hWL' : WL = l.toks := by rw [← hWL, hb]; simp [wrapToks]
        have := ihl hw'.2 p st (t :: rest) (by simp) (by rw [ht1, hWL']) hfl (by simpa [hb] using hsL)
        rw [this, hWL']; simp [wrapTree]
      | true =>
        have hWL' : WL = lpT :: l.toks ++ [rpT] := by rw [← hWL, hb]; simp [wrapToks]
        have := group_case hc l hw'.2 (ihl hw'.2) p st (t :: rest) (by simp) (by rw [ht1, hWL'])
        rw [this, hWL']; simp [wrapTree]
    obtain ⟨lastL, hS1, _⟩ := toks_after WL hWLne (t :: rest) st ht1
    generalize hS1def : nextK (WL.length - 1) st = S1 at *
    obtain ⟨r0, rs, hrs⟩ := List.exists_cons_of_ne_nil hr
    have hS1' : S1.toks = lastL :: t :: rest := hS1
    have hpeek : S1.peek = t := by rw [hrs] at hS1'; exact peek_of_toks hS1'
    rw [eL, remaining_step _ p S1 (by rw [hpeek]; exact hsemi) (by rw [hpeek, hprec']; exact hfits.1)
      (by rw [hpeek]; exact ⟨hlp, hlb⟩),
      infix_postfix hc _ S1 (by rw [hpeek]; exact hw'.1), hpeek]
    simp only [Option.bind_eq_bind, Option.bind_some]
    show parseRemaining cfg (SE.post t l).tree p _ = parseRemaining cfg (SE.post t l).tree p _
    congr 1
    rw [hlen0, nextK_succ', hS1def]

end Xjs.RT
