import XjsModel.Model.Printer
/-
  C06 (c): the indentation option changes only leading whitespace.
  `nrmB` deletes every run of spaces/tabs that directly follows a line feed (or stands at the very beginning);
  `Eqv x y` says that two outputs agree after this deletion and agree on whether they currently stand in such a
  run. Two writers that differ only in their indent string stay `Eqv` under every writer operation and every printer.
-/
namespace Xjs

def isWs (c : Nat) : Bool := c == 32 || c == 9

/-- normalised bytes, starting in state `s` (`true` = inside leading whitespace of a line) -/
def nrmB : Bool → Bytes → Bytes
  | _, [] => []
  | s, c :: r =>
    if c == 10 then 10 :: nrmB true r
    else if s && isWs c then nrmB true r
    else c :: nrmB false r

/-- the state after the bytes -/
def nrmS : Bool → Bytes → Bool
  | s, [] => s
  | s, c :: r =>
    if c == 10 then nrmS true r
    else if s && isWs c then nrmS true r
    else nrmS false r

theorem nrmB_append (s : Bool) (x y : Bytes) : nrmB s (x ++ y) = nrmB s x ++ nrmB (nrmS s x) y := by
  induction x generalizing s with
  | nil => simp [nrmB, nrmS]
  | cons c r ih =>
    simp only [List.cons_append, nrmB, nrmS]
    split
    · simp [ih]
    · split <;> simp [ih]

theorem nrmS_append (s : Bool) (x y : Bytes) : nrmS s (x ++ y) = nrmS (nrmS s x) y := by
  induction x generalizing s with
  | nil => simp [nrmS]
  | cons c r ih =>
    simp only [List.cons_append, nrmS]
    split
    · simp [ih]
    · split <;> simp [ih]

def AllWs (u : Bytes) : Prop := ∀ c ∈ u, isWs c = true

theorem nrm_ws (u : Bytes) (h : AllWs u) : nrmB true u = [] ∧ nrmS true u = true := by
  induction u with
  | nil => simp [nrmB, nrmS]
  | cons c r ih =>
    have hc : isWs c = true := h c List.mem_cons_self
    have hr := ih (fun x hx => h x (List.mem_cons_of_mem _ hx))
    have h10 : (c == 10) = false := by
      unfold isWs at hc; cases h32 : c == 32 <;> cases h9 : c == 9 <;> simp_all <;> omega
    simp [nrmB, nrmS, h10, hc, hr]

def Eqv (x y : Bytes) : Prop := nrmB true x = nrmB true y ∧ nrmS true x = nrmS true y

theorem Eqv.refl (x : Bytes) : Eqv x x := ⟨rfl, rfl⟩

theorem Eqv.append {x y : Bytes} (h : Eqv x y) (s : Bytes) : Eqv (x ++ s) (y ++ s) := by
  unfold Eqv at *
  rw [nrmB_append, nrmB_append, nrmS_append, nrmS_append, h.1, h.2]
  exact ⟨rfl, rfl⟩

/-- after a line feed, different amounts of white space do not matter -/
theorem Eqv.append_nl_ws {x y : Bytes} (h : Eqv x y) (u v : Bytes) (hu : AllWs u) (hv : AllWs v) :
    Eqv (x ++ [10] ++ u) (y ++ [10] ++ v) := by
  unfold Eqv at *
  simp only [nrmB_append, nrmS_append, nrmB, nrmS, beq_self_eq_true, if_true, h.1, h.2,
    (nrm_ws u hu).1, (nrm_ws u hu).2, (nrm_ws v hv).1, (nrm_ws v hv).2]
  simp

/-- inside leading white space, more white space does not matter -/
theorem Eqv.append_ws {x y : Bytes} (h : Eqv x y) (hs : nrmS true x = true) (u v : Bytes) (hu : AllWs u) (hv : AllWs v) :
    Eqv (x ++ u) (y ++ v) := by
  have hs' : nrmS true y = true := by rw [← h.2]; exact hs
  unfold Eqv at *
  simp only [nrmB_append, nrmS_append, hs, hs', h.1, (nrm_ws u hu).1, (nrm_ws u hu).2, (nrm_ws v hv).1, (nrm_ws v hv).2]
  simp

theorem AllWs_replicate_flatten (n : Nat) (u : Bytes) (h : AllWs u) : AllWs (List.replicate n u).flatten := by
  intro c hc
  simp only [List.mem_flatten, List.mem_replicate] at hc
  obtain ⟨l, ⟨_, rfl⟩, hcl⟩ := hc
  exact h c hcl

/-! ### the last byte (for `separateSigns`) -/

theorem last_of_state (s : Bool) (x : Bytes) :
    (nrmS s x = true → x = [] ∧ s = true ∨ ∃ c, x.getLast? = some c ∧ (c = 10 ∨ isWs c = true)) ∧
    (nrmS s x = false → (x = [] ∧ s = false) ∨ (x ≠ [] ∧ x.getLast? = (nrmB s x).getLast? ∧ nrmB s x ≠ [])) := by
  induction x generalizing s with
  | nil => cases s <;> simp [nrmS]
  | cons c r ih =>
    simp only [nrmS, nrmB]
    by_cases h10 : (c == 10) = true
    · simp only [h10, if_true]
      have := ih true
      constructor
      · intro h
        rcases this.1 h with ⟨hr, _⟩ | ⟨d, hd, hd2⟩
        · subst hr; right; exact ⟨c, by simp, Or.inl (by simpa using h10)⟩
        · right; refine ⟨d, ?_, hd2⟩
          cases r with
          | nil => simp at hd
          | cons a t => simpa [List.getLast?_cons_cons] using hd
      · intro h
        rcases this.2 h with ⟨hr, hf⟩ | ⟨hne, hl, hnn⟩
        · simp at hf
        · right
          refine ⟨by simp, ?_, by simp⟩
          cases r with
          | nil => exact absurd rfl hne
          | cons a t =>
            rw [List.getLast?_cons_cons, hl]
            cases hb : nrmB true (a :: t) with
            | nil => exact absurd hb hnn
            | cons b bs => rw [List.getLast?_cons_cons]
    · simp only [h10, if_false, Bool.false_eq_true]
      by_cases hw : (s && isWs c) = true
      · simp only [hw, if_true]
        have := ih true
        have hcw : isWs c = true := by simp at hw; exact hw.2
        constructor
        · intro h
          rcases this.1 h with ⟨hr, _⟩ | ⟨d, hd, hd2⟩
          · subst hr; right; exact ⟨c, by simp, Or.inr hcw⟩
          · right; refine ⟨d, ?_, hd2⟩
            cases r with
            | nil => simp at hd
            | cons a t => simpa [List.getLast?_cons_cons] using hd
        · intro h
          rcases this.2 h with ⟨hr, hf⟩ | ⟨hne, hl, hnn⟩
          · simp at hf
          · right
            refine ⟨by simp, ?_, hnn⟩
            cases r with
            | nil => exact absurd rfl hne
            | cons a t => rw [List.getLast?_cons_cons, hl]
      · simp only [hw, if_false, Bool.false_eq_true]
        have := ih false
        constructor
        · intro h
          rcases this.1 h with ⟨_, hf⟩ | ⟨d, hd, hd2⟩
          · simp at hf
          · right; refine ⟨d, ?_, hd2⟩
            cases r with
            | nil => simp at hd
            | cons a t => simpa [List.getLast?_cons_cons] using hd
        · intro h
          rcases this.2 h with ⟨hr, _⟩ | ⟨hne, hl, hnn⟩
          · subst hr; right; simp [nrmB]
          · right
            refine ⟨by simp, ?_, by simp⟩
            cases r with
            | nil => exact absurd rfl hne
            | cons a t =>
              rw [List.getLast?_cons_cons, hl]
              cases hb : nrmB false (a :: t) with
              | nil => exact absurd hb hnn
              | cons b bs => rw [List.getLast?_cons_cons]

/-- two equivalent outputs end in the same sign character or in none -/
theorem Eqv.last_sign {x y : Bytes} (h : Eqv x y) (c : Nat) (hc : c ≠ 10 ∧ isWs c = false) :
    (x.getLast? == some c) = (y.getLast? == some c) := by
  have key : ∀ z : Bytes, (z.getLast? == some c) = ((nrmS true z == false) && ((nrmB true z).getLast? == some c)) := by
    intro z
    cases hz : nrmS true z with
    | true =>
      rcases (last_of_state true z).1 hz with ⟨rfl, _⟩ | ⟨d, hd, hd2⟩
      · simp
      · rw [hd]
        have : d ≠ c := by
          rcases hd2 with rfl | hw
          · exact fun e => hc.1 e.symm
          · intro e; subst e; rw [hc.2] at hw; exact absurd hw (by simp)
        simp [this]
    | false =>
      rcases (last_of_state true z).2 hz with ⟨_, hf⟩ | ⟨_, hl, _⟩
      · simp at hf
      · simp [hl]
  rw [key x, key y, h.1, h.2]

end Xjs
