import XjsModel.Proofs.RaLemmas
/-
  Round trip, part 4: one lemma per node kind, each from the invariant of the children.
-/
namespace Xjs.RA
open Xjs

variable {cfg : PCfg}

theorem fits_unary_operand (r : SE) (hw : r.wf = true) (h : precUnary ≤ r.level) : r.fits UNARY := by
  by_cases h9 : r.level = precUnary
  · cases r with
    | un t r => trivial
    | bin t l r =>
      have hw' : (lookup baseInfixFns t.type == some .binary && l.wf && r.wf) = true := by simpa [SE.wf] using hw
      simp only [Bool.and_eq_true, beq_iff_eq] at hw'
      have := (binary_prec t.type hw'.1.1).2.2.1
      have h' : operatorPrecedence t.type = precUnary := h9
      unfold precUnary at h'; omega
    | _ => simp [SE.level, precUnary, precAtomic, precPostfix, precCall, precMember, precAssignment] at h9
  · exact fits_of_level r hw UNARY (by unfold UNARY; unfold precUnary at *; omega) (by decide)

theorem nextK_shift (st : PS) : ∀ n, n ≥ 1 → nextK (n - 1) st.next = nextK n st := by
  intro n hn
  cases n with
  | zero => omega
  | succ m => rfl

theorem case_atom (hc : BaseCfg cfg) (t : Token) (hw : (SE.atom t).wf = true) : Main cfg (.atom t) := by
  intro p st rest hr ht _ _
  have ht' : st.toks = t :: rest := by simpa [SE.toks] using ht
  have hcur : st.cur = t := cur_of_toks ht'
  rw [unfold_expr, prefix_atom hc st (by rw [hcur]; exact hw)]
  simp only [Option.bind_eq_bind, Option.bind_some, hcur]
  simp [SE.tree, SE.toks, nextK]

theorem case_grp (hc : BaseCfg cfg) (lp : Token) (e : SE) (rp : Token) (hw : (SE.grp lp e rp).wf = true) (ih : Main cfg e) :
    Main cfg (.grp lp e rp) := by
  intro p st rest hr ht _ _
  have hw' : (lp.type == .lparen && rp.type == .rparen && e.wf) = true := by simpa [SE.wf] using hw
  simp only [Bool.and_eq_true, beq_iff_eq] at hw'
  have := group_case' hc lp rp hw'.1.1 hw'.1.2 e hw'.2 ih p st rest hr (by simpa [SE.toks] using ht)
  simpa [SE.tree, SE.toks] using this

theorem case_un (hc : BaseCfg cfg) (t : Token) (r : SE) (hw : (SE.un t r).wf = true) (ih : Main cfg r) : Main cfg (.un t r) := by
  intro p st rest hr ht _ hs
  have hw' : (lookup basePrefixFns t.type == some .unary && r.wf) = true := by simpa [SE.wf] using hw
  simp only [Bool.and_eq_true, beq_iff_eq] at hw'
  have ht' : st.toks = t :: (wrapToks (parenUnary r) r.toks ++ rest) := by simpa [SE.toks] using ht
  have hcur : st.cur = t := cur_of_toks ht'
  obtain ⟨a, as, has⟩ := List.exists_cons_of_ne_nil (wrapToks_ne_nil (parenUnary r) r)
  have hn : st.next.toks = wrapToks (parenUnary r) r.toks ++ rest := by
    rw [has] at ht' ⊢; exact next_toks_cons (by simpa using ht')
  -- the loop opened by the prefix operator stops behind the operand
  have hrbl : (SE.un t r).rbl = if parenUnary r then precUnary else min precUnary r.rbl := rfl
  have hs9 : stops cfg UNARY rest := by
    refine stops_mono hs ?_
    rw [hrbl]; split
    · exact Nat.le_refl _
    · exact Nat.min_le_left _ _
  have hsr : stops cfg (if parenUnary r then precAtomic else r.rbl) rest := by
    by_cases hb : parenUnary r = true
    · rw [if_pos hb]; exact stops_mono hs9 (by decide)
    · rw [if_neg hb]; refine stops_mono hs ?_
      rw [hrbl, if_neg hb]; exact Nat.min_le_right _ _
  have hfit : parenUnary r = false → r.fits UNARY := by
    intro hb
    exact fits_unary_operand r hw'.2 (by simpa [parenUnary] using hb)
  have e1 := wrapped hc r hw'.2 ih (parenUnary r) UNARY st.next rest hr hn hfit hsr hs9
  rw [unfold_expr, prefix_unary hc st (by rw [hcur]; exact hw'.1), e1]
  simp only [Option.bind_eq_bind, Option.bind_some, hcur]
  show parseRemaining cfg (SE.un t r).tree p _ = parseRemaining cfg (SE.un t r).tree p _
  congr 1
  have hlen : (wrapToks (parenUnary r) r.toks).length ≥ 1 := by rw [has]; simp
  have : (SE.un t r).toks.length - 1 = (wrapToks (parenUnary r) r.toks).length := by simp [SE.toks]
  rw [this]
  exact nextK_shift st _ hlen

theorem case_bin (hc : BaseCfg cfg) (t : Token) (l r : SE) (hw : (SE.bin t l r).wf = true) (ihl : Main cfg l) (ihr : Main cfg r) :
    Main cfg (.bin t l r) := by
  intro p st rest hr ht hf hs
  have hw' : (lookup baseInfixFns t.type == some .binary && l.wf && r.wf) = true := by simpa [SE.wf] using hw
  simp only [Bool.and_eq_true, beq_iff_eq] at hw'
  obtain ⟨hprec, h3, h8, hsemi, hlp, hlb⟩ := binary_prec t.type hw'.1.1
  have hprec' : precOf cfg t.type = operatorPrecedence t.type := by rw [precOf_base hc]; exact hprec
  generalize hmy : operatorPrecedence t.type = my at *
  have hfits : p < my ∧ (parenLeft my l = true ∨ l.fits p) := by
    have : (SE.bin t l r).fits p = (p < operatorPrecedence t.type ∧ (parenLeft (operatorPrecedence t.type) l = true ∨ l.fits p)) := rfl
    rw [this, hmy] at hf; exact hf
  have hrbl : (SE.bin t l r).rbl = if parenRight my r then my else min my r.rbl := by
    show (if parenRight (operatorPrecedence t.type) r then operatorPrecedence t.type else min (operatorPrecedence t.type) r.rbl) = _
    rw [hmy]
  have htoks : (SE.bin t l r).toks = wrapToks (parenLeft my l) l.toks ++ t :: wrapToks (parenRight my r) r.toks := by
    show wrapToks (parenLeft (operatorPrecedence t.type) l) l.toks ++ t :: wrapToks (parenRight (operatorPrecedence t.type) r) r.toks = _
    rw [hmy]
  have htree : (SE.bin t l r).tree = .binary t (wrapTree (parenLeft my l) l.tree) t.lit (wrapTree (parenRight my r) r.tree) := by
    show Expr.binary t (wrapTree (parenLeft (operatorPrecedence t.type) l) l.tree) t.lit (wrapTree (parenRight (operatorPrecedence t.type) r) r.tree) = _
    rw [hmy]
  have hWLne : wrapToks (parenLeft my l) l.toks ≠ [] := wrapToks_ne_nil _ l
  have hWRne : wrapToks (parenRight my r) r.toks ≠ [] := wrapToks_ne_nil _ r
  generalize hWL : wrapToks (parenLeft my l) l.toks = WL at *
  generalize hWR : wrapToks (parenRight my r) r.toks = WR at *
  have ht1 : st.toks = WL ++ (t :: WR ++ rest) := by rw [ht, htoks]; simp
  -- left operand
  have hsL : stops cfg (if parenLeft my l then precAtomic else l.rbl) (t :: WR ++ rest) := by
    apply stops_prec; show precOf cfg t.type ≤ _
    rw [hprec']
    by_cases hb : parenLeft my l = true
    · rw [if_pos hb]; unfold precAtomic; omega
    · rw [if_neg hb]
      have : my ≤ l.level := by simpa [parenLeft] using hb
      exact Nat.le_trans this (level_le_rbl l hw'.1.2 (by unfold precAssignment; omega))
  have hfL : parenLeft my l = false → l.fits p := by
    intro hb; rcases hfits.2 with h | h
    · rw [hb] at h; exact absurd h (by simp)
    · exact h
  -- we need the left operand only up to the loop (not its value): use the invariant, not `wrapped`
  have eL : parseExpressionI cfg [] p st =
      parseRemaining cfg (wrapTree (parenLeft my l) l.tree) p (nextK (WL.length - 1) st) := by
    cases hb : parenLeft my l with
    | false =>
      have hWL' : WL = l.toks := by rw [← hWL, hb]; simp [wrapToks]
      have := ihl p st (t :: WR ++ rest) (by simp) (by rw [ht1, hWL']) (hfL hb)
        (by simpa [hb] using hsL)
      rw [this, hWL']; simp [wrapTree]
    | true =>
      have hWL' : WL = lpT :: l.toks ++ [rpT] := by rw [← hWL, hb]; simp [wrapToks]
      have := group_case hc l hw'.1.2 ihl p st (t :: WR ++ rest) (by simp) (by rw [ht1, hWL'])
      rw [this, hWL']; simp [wrapTree]
  obtain ⟨lastL, hS1, _⟩ := toks_after WL hWLne (t :: WR ++ rest) st ht1
  generalize hS1def : nextK (WL.length - 1) st = S1 at *
  obtain ⟨b0, bs, hbs⟩ := List.exists_cons_of_ne_nil hWRne
  obtain ⟨r0, rs, hrs⟩ := List.exists_cons_of_ne_nil hr
  have hS1' : S1.toks = lastL :: t :: b0 :: (bs ++ rest) := by rw [hS1, hbs]; simp
  have hpeek : S1.peek = t := peek_of_toks hS1'
  have hS2 : S1.next.next.toks = WR ++ rest := by
    have a1 : S1.next.toks = t :: b0 :: (bs ++ rest) := next_toks_cons hS1'
    rw [next_toks_cons a1, hbs]; simp
  -- right operand
  have hsR : stops cfg (if parenRight my r then precAtomic else r.rbl) rest := by
    by_cases hb : parenRight my r = true
    · rw [if_pos hb]; refine stops_mono hs ?_; rw [hrbl, if_pos hb]; unfold precAtomic; omega
    · rw [if_neg hb]; refine stops_mono hs ?_; rw [hrbl, if_neg hb]; exact Nat.min_le_right _ _
  have hsMy : stops cfg my rest := by
    refine stops_mono hs ?_; rw [hrbl]; split
    · exact Nat.le_refl _
    · exact Nat.min_le_left _ _
  have hfR : parenRight my r = false → r.fits my := by
    intro hb
    exact fits_of_level r hw'.2 my (by simpa [parenRight] using hb) (by omega)
  have eR := wrapped hc r hw'.2 ihr (parenRight my r) my S1.next.next rest hr (by rw [hS2, hWR]) hfR hsR hsMy
  rw [hWR] at eR
  rw [eL, remaining_step _ p S1 (by rw [hpeek]; exact hsemi) (by rw [hpeek, hprec']; exact hfits.1)
    (by rw [hpeek]; exact Or.inr ⟨hlp, hlb⟩) (by rw [hpeek]; exact Or.inr (binary_not_update t.type hw'.1.1)),
    infix_binary hc _ S1 (by rw [hpeek]; exact hw'.1.1), hpeek, hprec', eR]
  simp only [Option.bind_eq_bind, Option.bind_some]
  rw [htree]
  congr 1
  have l1 : WL.length ≥ 1 := by cases WL with | nil => exact absurd rfl hWLne | cons _ _ => simp
  have l2 : WR.length ≥ 1 := by rw [hbs]; simp
  have hlen : (SE.bin t l r).toks.length - 1 = (WL.length - 1) + (2 + (WR.length - 1)) := by
    rw [htoks]; simp; omega
  rw [hlen, nextK_add, nextK_add, hS1def]
  rfl

theorem case_post (hc : BaseCfg cfg) (t : Token) (l : SE) (hw : (SE.post t l).wf = true) (ihl : Main cfg l) : Main cfg (.post t l) := by
  intro p st rest hr ht hf hs
  have hw0 : (lookup baseInfixFns t.type == some .postfix && l.wf && !t.nl) = true := by simpa [SE.wf] using hw
  simp only [Bool.and_eq_true, beq_iff_eq, Bool.not_eq_true'] at hw0
  have hw' := hw0.1
  have hnl : t.nl = false := hw0.2
  obtain ⟨hprec, hsemi, hlp, hlb⟩ := postfix_prec t.type hw'.1
  have hprec' : precOf cfg t.type = precPostfix := by rw [precOf_base hc]; exact hprec
  have hfits : p < precPostfix ∧ (parenPostfix l = true ∨ l.fits p) := hf
  have hWLne : wrapToks (parenPostfix l) l.toks ≠ [] := wrapToks_ne_nil _ l
  have ht1 : st.toks = wrapToks (parenPostfix l) l.toks ++ (t :: rest) := by rw [ht]; simp [SE.toks]
  have hlen0 : (SE.post t l).toks.length - 1 = ((wrapToks (parenPostfix l) l.toks).length - 1) + 1 := by
    have : (wrapToks (parenPostfix l) l.toks).length ≥ 1 := by
      cases h : wrapToks (parenPostfix l) l.toks with | nil => exact absurd h hWLne | cons _ _ => simp
    simp [SE.toks]; omega
  generalize hWL : wrapToks (parenPostfix l) l.toks = WL at *
  have hsL : stops cfg (if parenPostfix l then precAtomic else l.rbl) (t :: rest) := by
    apply stops_prec; show precOf cfg t.type ≤ _
    rw [hprec']
    by_cases hb : parenPostfix l = true
    · rw [if_pos hb]; decide
    · rw [if_neg hb]
      have : precPostfix ≤ l.level := by simpa [parenPostfix] using hb
      exact Nat.le_trans this (level_le_rbl l hw'.2 (by unfold precAssignment precPostfix at *; omega))
  have eL : parseExpressionI cfg [] p st =
      parseRemaining cfg (wrapTree (parenPostfix l) l.tree) p (nextK (WL.length - 1) st) := by
    cases hb : parenPostfix l with
    | false =>
      have hfl : l.fits p := by
        rcases hfits.2 with h | h
        · rw [hb] at h; exact absurd h (by simp)
        · exact h
      have hWL' : WL = l.toks := by rw [← hWL, hb]; simp [wrapToks]
      have := ihl p st (t :: rest) (by simp) (by rw [ht1, hWL']) hfl (by simpa [hb] using hsL)
      rw [this, hWL']; simp [wrapTree]
    | true =>
      have hWL' : WL = lpT :: l.toks ++ [rpT] := by rw [← hWL, hb]; simp [wrapToks]
      have := group_case hc l hw'.2 ihl p st (t :: rest) (by simp) (by rw [ht1, hWL'])
      rw [this, hWL']; simp [wrapTree]
  obtain ⟨lastL, hS1, _⟩ := toks_after WL hWLne (t :: rest) st ht1
  generalize hS1def : nextK (WL.length - 1) st = S1 at *
  obtain ⟨r0, rs, hrs⟩ := List.exists_cons_of_ne_nil hr
  have hS1' : S1.toks = lastL :: t :: rest := hS1
  have hpeek : S1.peek = t := by rw [hrs] at hS1'; exact peek_of_toks hS1'
  rw [eL, remaining_step _ p S1 (by rw [hpeek]; exact hsemi) (by rw [hpeek, hprec']; exact hfits.1)
    (by rw [hpeek]; exact Or.inr ⟨hlp, hlb⟩) (by rw [hpeek]; exact Or.inl hnl),
    infix_postfix hc _ S1 (by rw [hpeek]; exact hw'.1), hpeek]
  simp only [Option.bind_eq_bind, Option.bind_some]
  show parseRemaining cfg (SE.post t l).tree p _ = parseRemaining cfg (SE.post t l).tree p _
  congr 1
  rw [hlen0, nextK_succ', hS1def]


/-! ### the suffix forms: call, member access, assignment — the left part stands unparenthesised -/

theorem rbl_of_call_level (s : SE) (h : precCall ≤ s.level) (hw : s.wf = true) : s.rbl = precAtomic := by
  cases s with
  | un t r => simp [SE.level, precCall, precUnary] at h
  | post t l => simp [SE.level, precCall, precPostfix] at h
  | asg t l v => simp [SE.level, precCall, precAssignment] at h
  | casg t l v => simp [SE.level, precCall, precAssignment] at h
  | bin t l r =>
    have hw' : (lookup baseInfixFns t.type == some .binary && l.wf && r.wf) = true := by simpa [SE.wf] using hw
    simp only [Bool.and_eq_true, beq_iff_eq] at hw'
    have := (binary_prec t.type hw'.1.1).2.2.1
    have h' : precCall ≤ operatorPrecedence t.type := h
    unfold precCall at h'; omega
  | _ => rfl

theorem suffix_left (hc : BaseCfg cfg) (l : SE) (hw : l.wf = true) (hl : precCall ≤ l.level) (ih : Main cfg l)
    (p : Nat) (st : PS) (t : Token) (more : List Token) (hfit : l.fits p) (ht : st.toks = l.toks ++ t :: more) :
    ∃ lastL, parseExpressionI cfg [] p st = parseRemaining cfg l.tree p (nextK (l.toks.length - 1) st) ∧
      (nextK (l.toks.length - 1) st).toks = lastL :: t :: more := by
  obtain ⟨lastL, hS1, _⟩ := toks_after l.toks (toks_ne_nil l) (t :: more) st ht
  refine ⟨lastL, ?_, hS1⟩
  apply ih p st (t :: more) (by simp) ht hfit
  apply stops_prec
  show precOf cfg t.type ≤ l.rbl
  rw [rbl_of_call_level l hl hw, precOf_base hc]
  exact Nat.le_trans (precOf_le_member t.type) (by decide)

theorem precOf_lparen (hc : BaseCfg cfg) : precOf cfg .lparen = precCall := by rw [precOf_base hc]; decide
theorem precOf_lbracket (hc : BaseCfg cfg) : precOf cfg .lbracket = precMember := by rw [precOf_base hc]; decide
theorem precOf_dot (hc : BaseCfg cfg) : precOf cfg .dot = precMember := by rw [precOf_base hc]; decide
theorem precOf_assign (hc : BaseCfg cfg) : precOf cfg .assign = precAssignment := by rw [precOf_base hc]; decide
theorem precOf_plusAssign (hc : BaseCfg cfg) : precOf cfg .plusAssign = precAssignment := by rw [precOf_base hc]; decide
theorem precOf_minusAssign (hc : BaseCfg cfg) : precOf cfg .minusAssign = precAssignment := by rw [precOf_base hc]; decide

theorem case_call (hc : BaseCfg cfg) (t : Token) (f : SE) (args : SEList) (hw : (SE.call t f args).wf = true)
    (ihf : Main cfg f) (iha : MainList cfg args) : Main cfg (.call t f args) := by
  intro p st rest hr ht hf hs
  have hw' : (t.type == .lparen && !t.nl && decide (precCall ≤ f.level) && f.wf && args.wf) = true := by simpa [SE.wf] using hw
  simp only [Bool.and_eq_true, beq_iff_eq, decide_eq_true_eq, Bool.not_eq_true'] at hw'
  obtain ⟨⟨⟨⟨hty, hnl⟩, hlev⟩, hwf⟩, hwa⟩ := hw'
  have hfit : p < precCall ∧ f.fits p := hf
  have ht1 : st.toks = f.toks ++ t :: (args.toks ++ rpT :: rest) := by rw [ht]; simp [SE.toks]
  obtain ⟨lastL, eL, hS1⟩ := suffix_left hc f hwf hlev ihf p st t _ hfit.2 ht1
  generalize hS1def : nextK (f.toks.length - 1) st = S1 at *
  have hpeek : S1.peek = t := peek_of_toks hS1
  have hS1n : S1.next.toks = t :: (args.toks ++ rpT :: rest) := next_toks_cons hS1
  have e2 : parseExpressionList cfg .rparen S1.next = some (args.tree, nextK (args.toks.length + 1) S1.next) :=
    iha S1.next t rpT rest hr hS1n (Or.inl rfl)
  rw [eL, remaining_step _ p S1 (by rw [hpeek, hty]; decide) (by rw [hpeek, hty, precOf_lparen hc]; exact hfit.1)
      (by rw [hpeek]; exact Or.inl hnl) (by rw [hpeek]; exact Or.inl hnl),
    infix_call hc _ S1 (by rw [hpeek]; exact hty), e2]
  simp only [Option.bind_eq_bind, Option.bind_some, hpeek]
  show parseRemaining cfg (SE.call t f args).tree p _ = _
  congr 1
  have l1 : f.toks.length ≥ 1 := by
    cases h : f.toks with | nil => exact absurd h (toks_ne_nil f) | cons _ _ => simp
  have hlen : (SE.call t f args).toks.length - 1 = (f.toks.length - 1) + (1 + (args.toks.length + 1)) := by
    simp [SE.toks]; omega
  have hsh : nextK (args.toks.length + 1) S1.next = nextK (1 + (args.toks.length + 1)) S1 := by rw [nextK_add 1]; rfl
  rw [hlen, nextK_add (f.toks.length - 1), hS1def, hsh]

theorem case_dot (hc : BaseCfg cfg) (t : Token) (o : SE) (pr : Token) (hw : (SE.dot t o pr).wf = true)
    (iho : Main cfg o) : Main cfg (.dot t o pr) := by
  intro p st rest hr ht hf hs
  have hw' : (t.type == .dot && decide (precCall ≤ o.level) && o.wf && atomWf pr) = true := by simpa [SE.wf] using hw
  simp only [Bool.and_eq_true, beq_iff_eq, decide_eq_true_eq] at hw'
  obtain ⟨⟨⟨hty, hlev⟩, hwf⟩, hwp⟩ := hw'
  have hfit : p < precMember ∧ o.fits p := hf
  obtain ⟨r0, rs, hrs⟩ := List.exists_cons_of_ne_nil hr
  have ht1 : st.toks = o.toks ++ t :: (pr :: r0 :: rs) := by rw [ht, hrs]; simp [SE.toks]
  obtain ⟨lastL, eL, hS1⟩ := suffix_left hc o hwf hlev iho p st t _ hfit.2 ht1
  generalize hS1def : nextK (o.toks.length - 1) st = S1 at *
  have hpeek : S1.peek = t := peek_of_toks hS1
  have hS2 : S1.next.next.toks = pr :: r0 :: rs := next_toks_cons (next_toks_cons hS1)
  have hcur2 : S1.next.next.cur = pr := cur_of_toks hS2
  have e2 : parseExpressionI cfg [] MEMBER S1.next.next = some (atomTree pr, S1.next.next) := by
    rw [unfold_expr, prefix_atom hc _ (by rw [hcur2]; simpa [SE.wf] using hwp)]
    simp only [Option.bind_eq_bind, Option.bind_some, hcur2]
    apply remaining_stop
    right; left
    rw [peek_of_toks hS2, precOf_base hc]
    exact precOf_le_member _
  rw [eL, remaining_step _ p S1 (by rw [hpeek, hty]; decide) (by rw [hpeek, hty, precOf_dot hc]; exact hfit.1)
      (by rw [hpeek, hty]; exact Or.inr ⟨by decide, by decide⟩) (by rw [hpeek, hty]; exact Or.inr ⟨by decide, by decide⟩),
    infix_member hc _ S1 (by rw [hpeek]; exact hty), e2]
  simp only [Option.bind_eq_bind, Option.bind_some, hpeek]
  show parseRemaining cfg (SE.dot t o pr).tree p _ = _
  congr 1
  have l1 : o.toks.length ≥ 1 := by
    cases h : o.toks with | nil => exact absurd h (toks_ne_nil o) | cons _ _ => simp
  have hlen : (SE.dot t o pr).toks.length - 1 = (o.toks.length - 1) + 2 := by
    simp [SE.toks]; omega
  rw [hlen, nextK_add, hS1def]
  rfl

theorem case_idx (hc : BaseCfg cfg) (t : Token) (o pe : SE) (hw : (SE.idx t o pe).wf = true)
    (iho : Main cfg o) (ihp : Main cfg pe) : Main cfg (.idx t o pe) := by
  intro p st rest hr ht hf hs
  have hw' : (t.type == .lbracket && !t.nl && decide (precCall ≤ o.level) && o.wf && pe.wf) = true := by simpa [SE.wf] using hw
  simp only [Bool.and_eq_true, beq_iff_eq, decide_eq_true_eq, Bool.not_eq_true'] at hw'
  obtain ⟨⟨⟨⟨hty, hnl⟩, hlev⟩, hwf⟩, hwp⟩ := hw'
  have hfit : p < precMember ∧ o.fits p := hf
  obtain ⟨r0, rs, hrs⟩ := List.exists_cons_of_ne_nil hr
  obtain ⟨a, as, has⟩ := List.exists_cons_of_ne_nil (toks_ne_nil pe)
  have ht1 : st.toks = o.toks ++ t :: (a :: (as ++ rbT :: rest)) := by rw [ht]; simp [SE.toks, has]
  obtain ⟨lastL, eL, hS1⟩ := suffix_left hc o hwf hlev iho p st t _ hfit.2 ht1
  generalize hS1def : nextK (o.toks.length - 1) st = S1 at *
  have hpeek : S1.peek = t := peek_of_toks hS1
  have hS2 : S1.next.next.toks = pe.toks ++ rbT :: rest := by
    rw [next_toks_cons (next_toks_cons hS1), has]; simp
  have hstop : ∀ q, 1 ≤ q → stops cfg q (rbT :: rest) := by
    intro q hq; apply stops_prec; show precOf cfg .rbracket ≤ q; rw [precOf_rbracket hc]; exact hq
  have e2 := eval_of_main pe ihp LOWEST S1.next.next (rbT :: rest) (by simp) hS2 (fits_lowest pe hwp)
    (hstop _ (rbl_ge_one pe hwp)) (hstop _ (by decide))
  obtain ⟨lastP, hl, _⟩ := toks_after pe.toks (toks_ne_nil pe) (rbT :: rest) S1.next.next hS2
  have hpk : (nextK (pe.toks.length - 1) S1.next.next).peek = rbT := by rw [hrs] at hl; exact peek_of_toks hl
  have hexp : expectToken .rbracket (nextK (pe.toks.length - 1) S1.next.next) =
      (true, (nextK (pe.toks.length - 1) S1.next.next).next) := by
    unfold expectToken; rw [hpk]; rfl
  rw [eL, remaining_step _ p S1 (by rw [hpeek, hty]; decide) (by rw [hpeek, hty, precOf_lbracket hc]; exact hfit.1)
      (by rw [hpeek]; exact Or.inl hnl) (by rw [hpeek]; exact Or.inl hnl),
    infix_index hc _ S1 (by rw [hpeek]; exact hty), e2]
  simp only [Option.bind_eq_bind, Option.bind_some, hpeek, hexp, if_true]
  show parseRemaining cfg (SE.idx t o pe).tree p _ = _
  congr 1
  have l1 : o.toks.length ≥ 1 := by
    cases h : o.toks with | nil => exact absurd h (toks_ne_nil o) | cons _ _ => simp
  have l2 : pe.toks.length ≥ 1 := by rw [has]; simp
  have hlen : (SE.idx t o pe).toks.length - 1 = (o.toks.length - 1) + (2 + ((pe.toks.length - 1) + 1)) := by
    simp [SE.toks]; omega
  rw [hlen, nextK_add, nextK_add, nextK_add, hS1def]
  rfl

/-- assignment and compound assignment share everything but the node that is built -/
theorem assign_like (hc : BaseCfg cfg) (t : Token) (l v : SE) (hwl : l.wf = true) (hlev : precCall ≤ l.level)
    (hwv : v.wf = true) (ihl : Main cfg l) (ihv : Main cfg v)
    (p : Nat) (st : PS) (rest : List Token) (hr : rest ≠ []) (ht : st.toks = l.toks ++ t :: v.toks ++ rest)
    (hfl : l.fits p) (hs : stops cfg precLowest rest) :
    ∃ S1, parseExpressionI cfg [] p st = parseRemaining cfg l.tree p S1 ∧ S1.peek = t ∧
      parseExpressionI cfg [] LOWEST S1.next.next = some (v.tree, nextK ((l.toks ++ t :: v.toks).length - 1) st) := by
  obtain ⟨a, as, has⟩ := List.exists_cons_of_ne_nil (toks_ne_nil v)
  have ht1 : st.toks = l.toks ++ t :: (a :: (as ++ rest)) := by rw [ht, has]; simp
  obtain ⟨lastL, eL, hS1⟩ := suffix_left hc l hwl hlev ihl p st t _ hfl ht1
  refine ⟨nextK (l.toks.length - 1) st, eL, peek_of_toks hS1, ?_⟩
  generalize hS1def : nextK (l.toks.length - 1) st = S1 at *
  have hS2 : S1.next.next.toks = v.toks ++ rest := by rw [next_toks_cons (next_toks_cons hS1), has]; simp
  have e2 := eval_of_main v ihv LOWEST S1.next.next rest hr hS2 (fits_lowest v hwv)
    (stops_mono hs (rbl_ge_one v hwv)) hs
  rw [e2]
  congr 2
  have l1 : l.toks.length ≥ 1 := by
    cases h : l.toks with | nil => exact absurd h (toks_ne_nil l) | cons _ _ => simp
  have l2 : v.toks.length ≥ 1 := by rw [has]; simp
  have hlen : (l.toks ++ t :: v.toks).length - 1 = (l.toks.length - 1) + (2 + (v.toks.length - 1)) := by
    simp; omega
  rw [hlen, nextK_add, nextK_add, hS1def]
  rfl

theorem case_asg (hc : BaseCfg cfg) (t : Token) (l v : SE) (hw : (SE.asg t l v).wf = true)
    (ihl : Main cfg l) (ihv : Main cfg v) : Main cfg (.asg t l v) := by
  intro p st rest hr ht hf hs
  have hw' : (t.type == .assign && decide (precCall ≤ l.level) && l.wf && v.wf) = true := by simpa [SE.wf] using hw
  simp only [Bool.and_eq_true, beq_iff_eq, decide_eq_true_eq] at hw'
  obtain ⟨⟨⟨hty, hlev⟩, hwl⟩, hwv⟩ := hw'
  have hfit : p < precAssignment ∧ l.fits p := hf
  obtain ⟨S1, eL, hpeek, e2⟩ := assign_like hc t l v hwl hlev hwv ihl ihv
    p st rest hr (by rw [ht]; simp [SE.toks]) hfit.2 hs
  rw [eL, remaining_step _ p S1 (by rw [hpeek, hty]; decide) (by rw [hpeek, hty, precOf_assign hc]; exact hfit.1)
      (by rw [hpeek, hty]; exact Or.inr ⟨by decide, by decide⟩) (by rw [hpeek, hty]; exact Or.inr ⟨by decide, by decide⟩),
    infix_assign hc _ S1 (by rw [hpeek]; exact hty), e2]
  simp only [Option.bind_eq_bind, Option.bind_some, hpeek]
  simp [SE.tree, SE.toks]

theorem case_casg (hc : BaseCfg cfg) (t : Token) (l v : SE) (hw : (SE.casg t l v).wf = true)
    (ihl : Main cfg l) (ihv : Main cfg v) : Main cfg (.casg t l v) := by
  intro p st rest hr ht hf hs
  have hw' : ((t.type == .plusAssign || t.type == .minusAssign) && decide (precCall ≤ l.level) && l.wf && v.wf) = true := by
    simpa [SE.wf] using hw
  simp only [Bool.and_eq_true, Bool.or_eq_true, beq_iff_eq, decide_eq_true_eq] at hw'
  obtain ⟨⟨⟨hty, hlev⟩, hwl⟩, hwv⟩ := hw'
  have hfit : p < precAssignment ∧ l.fits p := hf
  have hprec : precOf cfg t.type = precAssignment := by
    rcases hty with h | h <;> rw [h]
    · exact precOf_plusAssign hc
    · exact precOf_minusAssign hc
  have hsemi : t.type ≠ .semicolon := by rcases hty with h | h <;> rw [h] <;> decide
  have hnp : t.type ≠ .lparen ∧ t.type ≠ .lbracket := by rcases hty with h | h <;> rw [h] <;> exact ⟨by decide, by decide⟩
  obtain ⟨S1, eL, hpeek, e2⟩ := assign_like hc t l v hwl hlev hwv ihl ihv
    p st rest hr (by rw [ht]; simp [SE.toks]) hfit.2 hs
  rw [eL, remaining_step _ p S1 (by rw [hpeek]; exact hsemi) (by rw [hpeek, hprec]; exact hfit.1)
      (by rw [hpeek]; exact Or.inr hnp) (by rw [hpeek]; rcases hty with h | h <;> rw [h] <;> exact Or.inr ⟨by decide, by decide⟩),
    infix_compound hc _ S1 (by rw [hpeek]; exact hty), e2]
  simp only [Option.bind_eq_bind, Option.bind_some, hpeek]
  simp [SE.tree, SE.toks]

theorem case_arr (hc : BaseCfg cfg) (t : Token) (es : SEList) (hw : (SE.arr t es).wf = true)
    (ihe : MainList cfg es) : Main cfg (.arr t es) := by
  intro p st rest hr ht _ _
  have hw' : (t.type == .lbracket && es.wf) = true := by simpa [SE.wf] using hw
  simp only [Bool.and_eq_true, beq_iff_eq] at hw'
  have ht1 : st.toks = t :: (es.toks ++ rbT :: rest) := by rw [ht]; simp [SE.toks]
  have hcur : st.cur = t := cur_of_toks ht1
  have e2 : parseExpressionList cfg .rbracket st = some (es.tree, nextK (es.toks.length + 1) st) :=
    ihe st t rbT rest hr ht1 (Or.inr rfl)
  have hend : (nextK (es.toks.length + 1) st).toks = rbT :: rest := by
    have := toks_nextK (t :: es.toks) rbT rest st (by rw [ht1]; simp)
    simpa using this
  rw [unfold_expr, prefix_array hc st (by rw [hcur]; exact hw'.1), e2]
  simp only [Option.bind_eq_bind, Option.bind_some, hcur, cur_of_toks hend]
  show parseRemaining cfg (SE.arr t es).tree p _ = _
  congr 1
  simp [SE.toks]

end Xjs.RA
