import XjsModel.Model.Parser
import XjsModel.Model.Printer
/-
  Print → parse round trip at token level, for the expression grammar without function literals and object
  literals: atoms, explicit parentheses, prefix operators, the thirteen binary operators, postfix operators,
  calls, member access (dot and computed), assignment and compound assignment, array literals:

    the token sequence that the PRINTER'S parenthesisation rule produces for a tree
    (left operand parenthesised iff its precedence is lower, right operand iff lower OR EQUAL, unary operand iff
    lower than UNARY, postfix operand iff lower than POSTFIX — `ast.go`) is parsed by the Pratt loop of the PARSER
    (binding powers of `parser.go`, right operand parsed at the operator's own level) back to exactly that tree,
    with the printer's parentheses as grouping nodes — for EVERY tree, any depth, any operator combination.

  The proof is the classical Pratt invariant
      parseExpression p (toks s ++ rest) = parseRemaining (tree s) p (last token of s :: rest)
  under `fits p s` (every operator on the left spine binds tighter than p) and `stops (rbl s) rest`
  (the next token cannot continue a loop still open at the right end of s). The two side conditions are exactly
  the printer's `<` (left) and `≤` (right) tests, which is why a slip there, or a disagreement between the two
  precedence tables, breaks the proof.
-/
namespace Xjs.RA
open Xjs

mutual
  /-- spec expressions: a shape together with the tokens its nodes carry -/
  inductive SE where
    | atom (t : Token)
    | grp (lp : Token) (e : SE) (rp : Token)
    | un (t : Token) (r : SE)
    | bin (t : Token) (l r : SE)
    | post (t : Token) (l : SE)
    | call (t : Token) (f : SE) (args : SEList)
    | dot (t : Token) (o : SE) (p : Token)
    | idx (t : Token) (o : SE) (p : SE)
    | asg (t : Token) (l v : SE)
    | casg (t : Token) (l v : SE)
    | arr (t : Token) (es : SEList)
    | func (t : Token) (name : Option Token) (params : List Token) (body : SSList)
    | obj (t : Token) (props : SPList)
  inductive SEList where
    | nil
    | cons (e : SE) (rest : SEList)
  /-- `key : value` pairs of an object literal -/
  inductive SPList where
    | nil
    | cons (k v : SE) (rest : SPList)
  /-- spec statements -/
  inductive SS where
    | exprS (e : SE) (semi : Bool)
    | letS (t name : Token) (v : SE) (semi : Bool)
    | letN (t name : Token)
    | ret (t : Token) (v : SE) (semi : Bool)
    | retN (t : Token)
    | ifS (t : Token) (c : SE) (thn : SS)
    | ifElse (t : Token) (c : SE) (thn : SS) (el : Token) (els : SS)
    | whileS (t : Token) (c : SE) (body : SS)
    | forS (t : Token) (init : SInit) (cond upd : SOpt) (body : SS)
    | block (body : SSList)
    | funcD (t name : Token) (params : List Token) (body : SSList)
  inductive SSList where
    | nil
    | cons (s : SS) (rest : SSList)
  inductive SOpt where
    | none
    | some (e : SE)
  /-- first clause of a `for` -/
  inductive SInit where
    | none
    | letV (t name : Token) (v : SE)
    | letN (t name : Token)
    | expr (e : SE)
end

def lpT : Token := { type := .lparen, lit := [40], sl := 0, sc := 0, el := 0, ec := 0 }
def rpT : Token := { type := .rparen, lit := [41], sl := 0, sc := 0, el := 0, ec := 0 }
def rbT : Token := { type := .rbracket, lit := [93], sl := 0, sc := 0, el := 0, ec := 0 }
def commaT : Token := { type := .comma, lit := [44], sl := 0, sc := 0, el := 0, ec := 0 }
def semiT : Token := { type := .semicolon, lit := [59], sl := 0, sc := 0, el := 0, ec := 0 }
def colonT : Token := { type := .colon, lit := [58], sl := 0, sc := 0, el := 0, ec := 0 }
def lbrT : Token := { type := .lbrace, lit := [123], sl := 0, sc := 0, el := 0, ec := 0 }
def rbrT : Token := { type := .rbrace, lit := [125], sl := 0, sc := 0, el := 0, ec := 0 }
def assignT : Token := { type := .assign, lit := [61], sl := 0, sc := 0, el := 0, ec := 0 }
def elseT : Token := { type := .else_, lit := [101, 108, 115, 101], sl := 0, sc := 0, el := 0, ec := 0 }

/-- `Precedence()` of the node (the printer's side) -/
def SE.level : SE → Nat
  | .atom _ => precAtomic
  | .grp _ _ _ => precAtomic
  | .un _ _ => precUnary
  | .bin t _ _ => operatorPrecedence t.type
  | .post _ _ => precPostfix
  | .call _ _ _ => precCall
  | .dot _ _ _ => precMember
  | .idx _ _ _ => precMember
  | .asg _ _ _ => precAssignment
  | .casg _ _ _ => precAssignment
  | .arr _ _ => precAtomic
  | .func _ _ _ _ => precAtomic
  | .obj _ _ => precAtomic

def wrapToks (b : Bool) (ts : List Token) : List Token := if b then lpT :: ts ++ [rpT] else ts
def wrapTree (b : Bool) (e : Expr) : Expr := if b then .group lpT e rpT else e

/-- the printer's parenthesisation tests (ast.go) -/
def parenLeft (my : Nat) (l : SE) : Bool := l.level < my
def parenRight (my : Nat) (r : SE) : Bool := r.level ≤ my
def parenUnary (r : SE) : Bool := r.level < precUnary
def parenPostfix (l : SE) : Bool := l.level < precPostfix

/-- parameter names separated by commas -/
def paramToks : List Token → List Token
  | [] => []
  | [p] => [p]
  | p :: ps => p :: commaT :: paramToks ps

/-- the statement terminator, when it is written -/
def semiToks (b : Bool) : List Token := if b then [semiT] else []

def optTok : Option Token → List Token
  | none => []
  | some t => [t]

mutual
  /-- the token sequence the printer emits -/
  def SE.toks : SE → List Token
    | .atom t => [t]
    | .grp lp e rp => lp :: e.toks ++ [rp]
    | .un t r => t :: wrapToks (parenUnary r) r.toks
    | .bin t l r => wrapToks (parenLeft (operatorPrecedence t.type) l) l.toks ++ t ::
                    wrapToks (parenRight (operatorPrecedence t.type) r) r.toks
    | .post t l => wrapToks (parenPostfix l) l.toks ++ [t]
    | .call t f args => f.toks ++ t :: args.toks ++ [rpT]
    | .dot t o p => o.toks ++ [t, p]
    | .idx t o p => o.toks ++ t :: p.toks ++ [rbT]
    | .asg t l v => l.toks ++ t :: v.toks
    | .casg t l v => l.toks ++ t :: v.toks
    | .arr t es => t :: es.toks ++ [rbT]
    | .func t name params body => t :: optTok name ++ lpT :: paramToks params ++ rpT :: lbrT :: body.toks ++ [rbrT]
    | .obj t props => t :: props.toks ++ [rbrT]
  /-- comma-separated -/
  def SEList.toks : SEList → List Token
    | .nil => []
    | .cons e rest => e.toks ++ rest.ctoks
  /-- every element preceded by a comma -/
  def SEList.ctoks : SEList → List Token
    | .nil => []
    | .cons e rest => commaT :: e.toks ++ rest.ctoks
  def SPList.toks : SPList → List Token
    | .nil => []
    | .cons k v rest => k.toks ++ colonT :: v.toks ++ rest.ctoks
  def SPList.ctoks : SPList → List Token
    | .nil => []
    | .cons k v rest => commaT :: k.toks ++ colonT :: v.toks ++ rest.ctoks
  /-- statements: `;` after expression, `let` and `return` statements, none after `}` -/
  def SS.toks : SS → List Token
    | .exprS e semi => e.toks ++ semiToks semi
    | .letS t name v semi => t :: name :: assignT :: v.toks ++ semiToks semi
    | .letN t name => [t, name, semiT]
    | .ret t v semi => t :: v.toks ++ semiToks semi
    | .retN t => [t, semiT]
    | .ifS t c thn => t :: lpT :: c.toks ++ rpT :: thn.toks
    | .ifElse t c thn el els => t :: lpT :: c.toks ++ rpT :: thn.toks ++ el :: els.toks
    | .whileS t c body => t :: lpT :: c.toks ++ rpT :: body.toks
    | .forS t init cond upd body => t :: lpT :: init.toks ++ semiT :: cond.toks ++ semiT :: upd.toks ++ rpT :: body.toks
    | .block body => lbrT :: body.toks ++ [rbrT]
    | .funcD t name params body => t :: name :: lpT :: paramToks params ++ rpT :: lbrT :: body.toks ++ [rbrT]
  def SSList.toks : SSList → List Token
    | .nil => []
    | .cons s rest => s.toks ++ rest.toks
  def SOpt.toks : SOpt → List Token
    | .none => []
    | .some e => e.toks
  def SInit.toks : SInit → List Token
    | .none => []
    | .letV t name v => t :: name :: assignT :: v.toks
    | .letN t name => [t, name]
    | .expr e => e.toks
end

def atomTree (t : Token) : Expr :=
  match lookup basePrefixFns t.type with
  | some .ident => .ident { tok := t, value := t.lit }
  | some .int => .int t
  | some .float => .float t
  | some .string => .str t t.lit
  | some .rawString => .raw t t.lit
  | some .bool => .bool t (t.type == .true_)
  | _ => .null t

def compoundOp (t : Token) : Bytes :=
  if t.type == .plusAssign then [43] else if t.type == .minusAssign then [45] else []

def identOf (t : Token) : Ident := { tok := t, value := t.lit }

mutual
  /-- the tree the parser is expected to return: the printer's parentheses are grouping nodes -/
  def SE.tree : SE → Expr
    | .atom t => atomTree t
    | .grp lp e rp => .group lp e.tree rp
    | .un t r => .unary t t.lit (wrapTree (parenUnary r) r.tree)
    | .bin t l r => .binary t (wrapTree (parenLeft (operatorPrecedence t.type) l) l.tree) t.lit
                      (wrapTree (parenRight (operatorPrecedence t.type) r) r.tree)
    | .post t l => .postfix t (wrapTree (parenPostfix l) l.tree) t.lit
    | .call t f args => .call t f.tree args.tree
    | .dot t o p => .member t o.tree (atomTree p) false
    | .idx t o p => .member t o.tree p.tree true
    | .asg t l v => .assign t l.tree v.tree
    | .casg t l v => .compound t l.tree (compoundOp t) v.tree
    | .arr t es => .array t es.tree rbT
    | .func t name params body => .func t (name.map identOf) (params.map identOf) (.block lbrT body.tree rbrT)
    | .obj t props => .object t props.tree (match props with | .nil => zeroTok | .cons _ _ _ => rbrT)
  def SEList.tree : SEList → ExprList
    | .nil => .nil
    | .cons e rest => .cons e.tree rest.tree
  def SPList.tree : SPList → PropList
    | .nil => .nil
    | .cons k v rest => .cons k.tree v.tree rest.tree
  def SS.tree : SS → Stmt
    | .exprS e _ => .exprS e.tree
    | .letS t name v _ => .letS t (identOf name) v.tree
    | .letN t name => .letS t (identOf name) .none
    | .ret t v _ => .ret t v.tree
    | .retN t => .ret t .none
    | .ifS t c thn => .ifS t c.tree thn.tree .none
    | .ifElse t c thn _ els => .ifS t c.tree thn.tree els.tree
    | .whileS t c body => .whileS t c.tree body.tree
    | .forS t init cond upd body => .forS t init.tree cond.tree upd.tree body.tree
    | .block body => .block lbrT body.tree rbrT
    | .funcD t name params body => .funcD t (identOf name) (params.map identOf) (.block lbrT body.tree rbrT)
  def SSList.tree : SSList → StmtList
    | .nil => .nil
    | .cons s rest => .cons s.tree rest.tree
  def SOpt.tree : SOpt → Expr
    | .none => .none
    | .some e => e.tree
  def SInit.tree : SInit → Expr
    | .none => .none
    | .letV t name v => .letE t (identOf name) v.tree
    | .letN t name => .letE t (identOf name) .none
    | .expr e => e.tree
end

def atomWf (t : Token) : Bool :=
  match lookup basePrefixFns t.type with
  | some .ident | some .string | some .rawString | some .bool | some .null => true
  | some .int => parseIntOk t.lit
  | some .float => parseFloatOk t.lit
  | _ => false

/-- ends with an `if` that has no `else`: an `else` behind it would attach to that `if` -/
def SS.openIf : SS → Bool
  | .ifS _ _ _ => true
  | .ifElse _ _ _ _ els => els.openIf
  | .whileS _ _ body => body.openIf
  | .forS _ _ _ _ body => body.openIf
  | _ => false

def isIdentTok (t : Token) : Bool := t.type == .ident

mutual
  /-- well-formed: every token is of the class its position needs; callee / object / assignment-target positions
      hold call-level-or-tighter expressions (C03's quantifier); an expression statement does not start with `{` or
      `function`; the value of a `return` starts on the line of the `return`, a postfix operator stands on the line of its
      operand; the then-branch of an `if` with `else` does not end with an open `if` -/
  def SE.wf : SE → Bool
    | .atom t => atomWf t
    | .grp lp e rp => lp.type == .lparen && rp.type == .rparen && e.wf
    | .un t r => lookup basePrefixFns t.type == some .unary && r.wf
    | .bin t l r => lookup baseInfixFns t.type == some .binary && l.wf && r.wf
    | .post t l => lookup baseInfixFns t.type == some .postfix && l.wf && !t.nl
    | .call t f args => t.type == .lparen && !t.nl && decide (precCall ≤ f.level) && f.wf && args.wf
    | .dot t o p => t.type == .dot && decide (precCall ≤ o.level) && o.wf && atomWf p
    | .idx t o p => t.type == .lbracket && !t.nl && decide (precCall ≤ o.level) && o.wf && p.wf
    | .asg t l v => t.type == .assign && decide (precCall ≤ l.level) && l.wf && v.wf
    | .casg t l v => (t.type == .plusAssign || t.type == .minusAssign) && decide (precCall ≤ l.level) && l.wf && v.wf
    | .arr t es => t.type == .lbracket && es.wf
    | .func t name params body =>
        t.type == .function && (optTok name).all isIdentTok && params.all isIdentTok && body.wf
    | .obj t props => t.type == .lbrace && props.wf
  def SEList.wf : SEList → Bool
    | .nil => true
    | .cons e rest => e.wf && rest.wf
  def SPList.wf : SPList → Bool
    | .nil => true
    | .cons k v rest => k.wf && v.wf && rest.wf
  def SS.wf : SS → Bool
    | .exprS e _ => e.wf && (e.toks.headD lpT).type != .lbrace && (e.toks.headD lpT).type != .function
    | .letS t name v _ => t.type == .let_ && isIdentTok name && v.wf
    | .letN t name => t.type == .let_ && isIdentTok name
    | .ret t v _ => t.type == .return_ && v.wf && !(v.toks.headD lpT).nl
    | .retN t => t.type == .return_
    | .ifS t c thn => t.type == .if_ && c.wf && thn.wf
    | .ifElse t c thn el els => t.type == .if_ && c.wf && thn.wf && !thn.openIf && els.wf && el.type == .else_
    | .whileS t c body => t.type == .while_ && c.wf && body.wf
    | .forS t init cond upd body => t.type == .for_ && init.wf && cond.wf && upd.wf && body.wf
    | .block body => body.wf
    | .funcD t name params body => t.type == .function && isIdentTok name && params.all isIdentTok && body.wf
  def SSList.wf : SSList → Bool
    | .nil => true
    | .cons s rest => s.wf && rest.wf
  def SOpt.wf : SOpt → Bool
    | .none => true
    | .some e => e.wf
  def SInit.wf : SInit → Bool
    | .none => true
    | .letV t name v => t.type == .let_ && isIdentTok name && v.wf
    | .letN t name => t.type == .let_ && isIdentTok name
    | .expr e => e.wf
end

/-- the statement ends with an expression that no `;` closes -/
def SS.open : SS → Bool
  | .exprS _ semi => !semi
  | .letS _ _ _ semi => !semi
  | .ret _ _ semi => !semi
  | .ifS _ _ thn => thn.open
  | .ifElse _ _ _ _ els => els.open
  | .whileS _ _ body => body.open
  | .forS _ _ _ _ body => body.open
  | _ => false

/-- `ExpectSemicolonASI` accepts the token `f` in place of a `;` (strict mode when `tol = false`) -/
def asiOk (tol : Bool) (f : Token) : Bool :=
  f.type != .semicolon && (f.type == .eof || f.type == .rbrace || (f.nl && f.type != .minusAssign) || tol)

/-- `f` cannot continue an expression at statement level (built-in tables); `sm`: smart-semicolon mode, in which a `(`
    or `[` on a new line does not continue it either -/
def stopsB (sm : Bool) (f : Token) : Bool :=
  decide (precOf { } f.type ≤ 1) || (f.nl && (f.type == .increment || f.type == .decrement)) ||
  (sm && f.nl && (f.type == .lparen || f.type == .lbracket))

/-- the token `f` may follow the statement `s` -/
def followOk (tol sm : Bool) (s : SS) (f : Token) : Bool :=
  (!s.openIf || f.type != .else_) && (!s.open || (asiOk tol f && stopsB sm f))

mutual
  /-- LAYOUT: wherever a statement is not closed by `;`, the token behind it is one at which a semicolon is inserted
      (end of input, `}`, or a token on a new line — anything in tolerant mode) and which cannot continue the
      expression. Depends on the mode only through `tol` (tolerant) and `sm` (smart semicolons). -/
  def SE.lay (tol sm : Bool) : SE → Bool
    | .atom _ => true
    | .grp _ e _ => e.lay tol sm
    | .un _ r => r.lay tol sm
    | .bin _ l r => l.lay tol sm && r.lay tol sm
    | .post _ l => l.lay tol sm
    | .call _ f args => f.lay tol sm && args.lay tol sm
    | .dot _ o _ => o.lay tol sm
    | .idx _ o p => o.lay tol sm && p.lay tol sm
    | .asg _ l v => l.lay tol sm && v.lay tol sm
    | .casg _ l v => l.lay tol sm && v.lay tol sm
    | .arr _ es => es.lay tol sm
    | .func _ _ _ body => body.lay tol sm rbrT
    | .obj _ props => props.lay tol sm
  def SEList.lay (tol sm : Bool) : SEList → Bool
    | .nil => true
    | .cons e rest => e.lay tol sm && rest.lay tol sm
  def SPList.lay (tol sm : Bool) : SPList → Bool
    | .nil => true
    | .cons k v rest => k.lay tol sm && v.lay tol sm && rest.lay tol sm
  def SS.lay (tol sm : Bool) : SS → Bool
    | .exprS e _ => e.lay tol sm
    | .letS _ _ v _ => v.lay tol sm
    | .letN _ _ => true
    | .ret _ v _ => v.lay tol sm
    | .retN _ => true
    | .ifS _ c thn => c.lay tol sm && thn.lay tol sm
    | .ifElse _ c thn el els => c.lay tol sm && thn.lay tol sm && followOk tol sm thn el && els.lay tol sm
    | .whileS _ c body => c.lay tol sm && body.lay tol sm
    | .forS _ i c u body => i.lay tol sm && c.lay tol sm && u.lay tol sm && body.lay tol sm
    | .block body => body.lay tol sm rbrT
    | .funcD _ _ _ body => body.lay tol sm rbrT
  /-- `closer`: the token behind the list (`}` or end of input) -/
  def SSList.lay (tol sm : Bool) : SSList → Token → Bool
    | .nil, _ => true
    | .cons s rest, closer => s.lay tol sm && followOk tol sm s ((rest.toks ++ [closer]).headD closer) && rest.lay tol sm closer
  def SOpt.lay (tol sm : Bool) : SOpt → Bool
    | .none => true
    | .some e => e.lay tol sm
  def SInit.lay (tol sm : Bool) : SInit → Bool
    | .none => true
    | .letV _ _ v => v.lay tol sm
    | .letN _ _ => true
    | .expr e => e.lay tol sm
end

/-- the lowest level of a loop still open at the right end of the expression -/
def SE.rbl : SE → Nat
  | .atom _ => precAtomic
  | .grp _ _ _ => precAtomic
  | .un _ r => if parenUnary r then precUnary else min precUnary r.rbl
  | .bin t _ r => if parenRight (operatorPrecedence t.type) r then operatorPrecedence t.type
                  else min (operatorPrecedence t.type) r.rbl
  | .post _ _ => precAtomic
  | .call _ _ _ => precAtomic
  | .dot _ _ _ => precAtomic
  | .idx _ _ _ => precAtomic
  | .asg _ _ _ => precLowest      -- the value is parsed at the lowest level
  | .casg _ _ _ => precLowest
  | .arr _ _ => precAtomic
  | .func _ _ _ _ => precAtomic
  | .obj _ _ => precAtomic

/-- every operator on the left spine binds tighter than `p` -/
def SE.fits (p : Nat) : SE → Prop
  | .atom _ => True
  | .grp _ _ _ => True
  | .un _ _ => True
  | .arr _ _ => True
  | .func _ _ _ _ => True
  | .obj _ _ => True
  | .bin t l _ => p < operatorPrecedence t.type ∧ (parenLeft (operatorPrecedence t.type) l = true ∨ l.fits p)
  | .post _ l => p < precPostfix ∧ (parenPostfix l = true ∨ l.fits p)
  | .call _ f _ => p < precCall ∧ f.fits p
  | .dot _ o _ => p < precMember ∧ o.fits p
  | .idx _ o _ => p < precMember ∧ o.fits p
  | .asg _ l _ => p < precAssignment ∧ l.fits p
  | .casg _ l _ => p < precAssignment ∧ l.fits p

/-- the parser configurations covered: built-in tables, no interceptors (C04 removes interceptors) -/
structure BaseCfg (cfg : PCfg) : Prop where
  precs : cfg.precs = basePrecedences
  prefixFns : cfg.prefixFns = basePrefixFns
  infixFns : cfg.infixFns = baseInfixFns
  exprI : cfg.exprI = []
  stmtI : cfg.stmtI = []

/-- the next token cannot continue a loop at level `q`: a `;`, a token binding no tighter than `q`, a postfix operator on
    a new line (restricted production), or — in smart-semicolon mode — a `(` / `[` on a new line -/
def stops (cfg : PCfg) (q : Nat) (rest : List Token) : Prop :=
  match rest with
  | t :: _ => t.type = .semicolon ∨ precOf cfg t.type ≤ q ∨
      (t.nl = true ∧ (t.type = .increment ∨ t.type = .decrement)) ∨
      (cfg.smart = true ∧ t.nl = true ∧ (t.type = .lparen ∨ t.type = .lbracket))
  | [] => False

theorem stops_mono {cfg : PCfg} {q q' : Nat} {rest : List Token} (h : stops cfg q rest) (hq : q ≤ q') : stops cfg q' rest := by
  cases rest with
  | nil => exact h
  | cons t r =>
    rcases h with h | h | h | h
    · exact Or.inl h
    · exact Or.inr (Or.inl (Nat.le_trans h hq))
    · exact Or.inr (Or.inr (Or.inl h))
    · exact Or.inr (Or.inr (Or.inr h))

theorem stops_prec {cfg : PCfg} {q : Nat} {t : Token} {rest : List Token} (h : precOf cfg t.type ≤ q) :
    stops cfg q (t :: rest) := Or.inr (Or.inl h)

/-! ### facts about the tables -/

theorem binary_prec (ty : TokType) (h : lookup baseInfixFns ty = some .binary) :
    precOf { } ty = operatorPrecedence ty ∧ 3 ≤ operatorPrecedence ty ∧ operatorPrecedence ty ≤ 8 ∧
    ty ≠ .semicolon ∧ ty ≠ .lparen ∧ ty ≠ .lbracket := by
  cases ty <;> simp [lookup, baseInfixFns] at h <;> decide

theorem binary_not_update (ty : TokType) (h : lookup baseInfixFns ty = some .binary) : ty ≠ .increment ∧ ty ≠ .decrement := by
  cases ty <;> simp [lookup, baseInfixFns] at h <;> decide

theorem postfix_prec (ty : TokType) (h : lookup baseInfixFns ty = some .postfix) :
    precOf { } ty = precPostfix ∧ ty ≠ .semicolon ∧ ty ≠ .lparen ∧ ty ≠ .lbracket := by
  cases ty <;> simp [lookup, baseInfixFns] at h <;> decide

theorem precOf_base {cfg : PCfg} (hc : BaseCfg cfg) (ty : TokType) : precOf cfg ty = precOf { } ty := by
  unfold precOf; rw [hc.precs]

theorem level_ge_two (s : SE) (hw : s.wf = true) : 2 ≤ s.level := by
  cases s with
  | bin t l r =>
    have hw' : (lookup baseInfixFns t.type == some .binary && l.wf && r.wf) = true := by simpa [SE.wf] using hw
    simp only [Bool.and_eq_true, beq_iff_eq] at hw'
    have := (binary_prec t.type hw'.1.1).2.1
    show 2 ≤ operatorPrecedence t.type; omega
  | _ => simp [SE.level] <;> decide

theorem level_ge_three (s : SE) (hw : s.wf = true) (h : s.level ≠ precAssignment) : 3 ≤ s.level := by
  cases s with
  | bin t l r =>
    have hw' : (lookup baseInfixFns t.type == some .binary && l.wf && r.wf) = true := by simpa [SE.wf] using hw
    simp only [Bool.and_eq_true, beq_iff_eq] at hw'
    exact (binary_prec t.type hw'.1.1).2.1
  | asg t l v => exact absurd rfl h
  | casg t l v => exact absurd rfl h
  | _ => simp [SE.level] <;> decide

theorem rbl_ge_one : ∀ (s : SE), s.wf = true → 1 ≤ s.rbl
  | .atom _, _ => by simp [SE.rbl, precAtomic, precLowest]
  | .grp _ _ _, _ => by simp [SE.rbl, precAtomic, precLowest]
  | .un t r, hw => by
    have hw' : (lookup basePrefixFns t.type == some .unary && r.wf) = true := by simpa [SE.wf] using hw
    simp only [Bool.and_eq_true] at hw'
    show 1 ≤ (if parenUnary r then precUnary else min precUnary r.rbl)
    split
    · decide
    · exact Nat.le_min.mpr ⟨by decide, rbl_ge_one r hw'.2⟩
  | .bin t l r, hw => by
    have hw' : (lookup baseInfixFns t.type == some .binary && l.wf && r.wf) = true := by simpa [SE.wf] using hw
    simp only [Bool.and_eq_true, beq_iff_eq] at hw'
    have h3 := (binary_prec t.type hw'.1.1).2.1
    show 1 ≤ (if parenRight (operatorPrecedence t.type) r then operatorPrecedence t.type else min (operatorPrecedence t.type) r.rbl)
    split
    · omega
    · exact Nat.le_min.mpr ⟨by omega, rbl_ge_one r hw'.2⟩
  | .post _ _, _ => by simp [SE.rbl, precAtomic, precLowest]
  | .call _ _ _, _ => by simp [SE.rbl, precAtomic, precLowest]
  | .dot _ _ _, _ => by simp [SE.rbl, precAtomic, precLowest]
  | .idx _ _ _, _ => by simp [SE.rbl, precAtomic, precLowest]
  | .asg _ _ _, _ => by simp [SE.rbl, precAtomic, precLowest]
  | .casg _ _ _, _ => by simp [SE.rbl, precAtomic, precLowest]
  | .arr _ _, _ => by simp [SE.rbl, precAtomic]
  | .func _ _ _ _, _ => by simp [SE.rbl, precAtomic]
  | .obj _ _, _ => by simp [SE.rbl, precAtomic]

/-- except for assignments (whose value is parsed at the lowest level) nothing below the node's own level is open at
    its right end -/
theorem level_le_rbl : ∀ (s : SE), s.wf = true → s.level ≠ precAssignment → s.level ≤ s.rbl
  | .atom _, _, _ => Nat.le_refl _
  | .grp _ _ _, _, _ => Nat.le_refl _
  | .un t r, hw, _ => by
    have hw' : (lookup basePrefixFns t.type == some .unary && r.wf) = true := by simpa [SE.wf] using hw
    simp only [Bool.and_eq_true] at hw'
    show precUnary ≤ (if parenUnary r then precUnary else min precUnary r.rbl)
    by_cases h : parenUnary r = true
    · rw [if_pos h]; exact Nat.le_refl _
    · rw [if_neg h]
      have h' : precUnary ≤ r.level := by simpa [parenUnary] using h
      have hne : r.level ≠ precAssignment := by unfold precUnary precAssignment at *; omega
      exact Nat.le_min.mpr ⟨Nat.le_refl _, Nat.le_trans h' (level_le_rbl r hw'.2 hne)⟩
  | .bin t l r, hw, _ => by
    have hw' : (lookup baseInfixFns t.type == some .binary && l.wf && r.wf) = true := by simpa [SE.wf] using hw
    simp only [Bool.and_eq_true, beq_iff_eq] at hw'
    have h3 := (binary_prec t.type hw'.1.1).2.1
    show operatorPrecedence t.type ≤ (if parenRight (operatorPrecedence t.type) r then operatorPrecedence t.type
        else min (operatorPrecedence t.type) r.rbl)
    by_cases h : parenRight (operatorPrecedence t.type) r = true
    · rw [if_pos h]; exact Nat.le_refl _
    · rw [if_neg h]
      have h' : operatorPrecedence t.type < r.level := by simpa [parenRight] using h
      have hr : r.level ≠ precAssignment := by unfold precAssignment; omega
      exact Nat.le_min.mpr ⟨Nat.le_refl _, Nat.le_trans (Nat.le_of_lt h') (level_le_rbl r hw'.2 hr)⟩
  | .post _ _, _, _ => by show precPostfix ≤ precAtomic; decide
  | .call _ _ _, _, _ => by show precCall ≤ precAtomic; decide
  | .dot _ _ _, _, _ => by show precMember ≤ precAtomic; decide
  | .idx _ _ _, _, _ => by show precMember ≤ precAtomic; decide
  | .asg _ _ _, _, h => absurd rfl h
  | .casg _ _ _, _, h => absurd rfl h
  | .arr _ _, _, _ => Nat.le_refl _
  | .func _ _ _ _, _, _ => Nat.le_refl _
  | .obj _ _, _, _ => Nat.le_refl _

def _root_.Xjs.ExprList.app : ExprList → ExprList → ExprList
  | .nil, b => b
  | .cons e t, b => .cons e (t.app b)

theorem ExprList.snoc_app : ∀ (a : ExprList) (e : Expr) (b : ExprList), (a.snoc e).app b = a.app (.cons e b)
  | .nil, _, _ => rfl
  | .cons x t, e, b => by simp [ExprList.snoc, ExprList.app, ExprList.snoc_app t e b]

theorem ExprList.app_nil : ∀ (a : ExprList), a.app .nil = a
  | .nil => rfl
  | .cons x t => by simp [ExprList.app, ExprList.app_nil t]

theorem toks_ne_nil (s : SE) : s.toks ≠ [] := by
  cases s <;> simp [SE.toks, wrapToks] <;> (try split) <;> simp

theorem wrapToks_ne_nil (b : Bool) (s : SE) : wrapToks b s.toks ≠ [] := by
  unfold wrapToks; split
  · simp
  · exact toks_ne_nil s

/-- every operator of the left spine binds tighter than `q`, when the node itself does; the parser only ever asks at
    levels up to UNARY -/
theorem fits_of_level : ∀ (s : SE), s.wf = true → ∀ (q : Nat), q < s.level → q ≤ 10 → s.fits q
  | .atom _, _, _, _, _ => trivial
  | .grp _ _ _, _, _, _, _ => trivial
  | .un _ _, _, _, _, _ => trivial
  | .arr _ _, _, _, _, _ => trivial
  | .func _ _ _ _, _, _, _, _ => trivial
  | .obj _ _, _, _, _, _ => trivial
  | .bin t l r, hw, q, h, h10 => by
    have hw' : (lookup baseInfixFns t.type == some .binary && l.wf && r.wf) = true := by simpa [SE.wf] using hw
    simp only [Bool.and_eq_true] at hw'
    have h' : q < operatorPrecedence t.type := h
    refine ⟨h', ?_⟩
    by_cases hp : parenLeft (operatorPrecedence t.type) l = true
    · exact Or.inl hp
    · right
      have hp' : operatorPrecedence t.type ≤ l.level := by simpa [parenLeft] using hp
      exact fits_of_level l hw'.1.2 q (Nat.lt_of_lt_of_le h' hp') h10
  | .post t l, hw, q, h, h10 => by
    have hw0 : (lookup baseInfixFns t.type == some .postfix && l.wf && !t.nl) = true := by simpa [SE.wf] using hw
    simp only [Bool.and_eq_true] at hw0
    have hw' := hw0.1
    have h' : q < precPostfix := h
    refine ⟨h', ?_⟩
    by_cases hp : parenPostfix l = true
    · exact Or.inl hp
    · right
      have hp' : precPostfix ≤ l.level := by simpa [parenPostfix] using hp
      exact fits_of_level l hw'.2 q (Nat.lt_of_lt_of_le h' hp') h10
  | .call t f args, hw, q, h, h10 => by
    have hw' : (t.type == .lparen && !t.nl && decide (precCall ≤ f.level) && f.wf && args.wf) = true := by simpa [SE.wf] using hw
    simp only [Bool.and_eq_true, decide_eq_true_eq] at hw'
    exact ⟨h, fits_of_level f hw'.1.2 q (by have := hw'.1.1.2; unfold precCall at this; omega) h10⟩
  | .dot t o p, hw, q, h, h10 => by
    have hw' : (t.type == .dot && decide (precCall ≤ o.level) && o.wf && atomWf p) = true := by simpa [SE.wf] using hw
    simp only [Bool.and_eq_true, decide_eq_true_eq] at hw'
    exact ⟨h, fits_of_level o hw'.1.2 q (by have := hw'.1.1.2; unfold precCall at this; omega) h10⟩
  | .idx t o p, hw, q, h, h10 => by
    have hw' : (t.type == .lbracket && !t.nl && decide (precCall ≤ o.level) && o.wf && p.wf) = true := by simpa [SE.wf] using hw
    simp only [Bool.and_eq_true, decide_eq_true_eq] at hw'
    exact ⟨h, fits_of_level o hw'.1.2 q (by have := hw'.1.1.2; unfold precCall at this; omega) h10⟩
  | .asg t l v, hw, q, h, h10 => by
    have hw' : (t.type == .assign && decide (precCall ≤ l.level) && l.wf && v.wf) = true := by simpa [SE.wf] using hw
    simp only [Bool.and_eq_true, decide_eq_true_eq] at hw'
    exact ⟨h, fits_of_level l hw'.1.2 q (by have := hw'.1.1.2; unfold precCall at this; omega) h10⟩
  | .casg t l v, hw, q, h, h10 => by
    have hw' : ((t.type == .plusAssign || t.type == .minusAssign) && decide (precCall ≤ l.level) && l.wf && v.wf) = true := by
      simpa [SE.wf] using hw
    simp only [Bool.and_eq_true, decide_eq_true_eq] at hw'
    exact ⟨h, fits_of_level l hw'.1.2 q (by have := hw'.1.1.2; unfold precCall at this; omega) h10⟩

/-- everything may stand where an expression is parsed at the lowest level -/
theorem fits_lowest (s : SE) (hw : s.wf = true) : s.fits LOWEST :=
  fits_of_level s hw LOWEST (by have := level_ge_two s hw; unfold LOWEST; omega) (by decide)

/-- an expression starts with a token that has a prefix role -/
theorem head_prefix : ∀ (s : SE), s.wf = true → ∃ t ts, s.toks = t :: ts ∧ (lookup basePrefixFns t.type).isSome = true
  | .atom t, hw => by
    refine ⟨t, [], rfl, ?_⟩
    have hw' : atomWf t = true := by simpa [SE.wf] using hw
    unfold atomWf at hw'
    cases h : lookup basePrefixFns t.type <;> simp_all
  | .grp lp e rp, hw => by
    have hw' : (lp.type == .lparen && rp.type == .rparen && e.wf) = true := by simpa [SE.wf] using hw
    simp only [Bool.and_eq_true, beq_iff_eq] at hw'
    exact ⟨lp, e.toks ++ [rp], rfl, by rw [hw'.1.1]; decide⟩
  | .un t r, hw => by
    have hw' : (lookup basePrefixFns t.type == some .unary && r.wf) = true := by simpa [SE.wf] using hw
    simp only [Bool.and_eq_true, beq_iff_eq] at hw'
    exact ⟨t, _, rfl, by rw [hw'.1]; rfl⟩
  | .arr t es, hw => by
    have hw' : (t.type == .lbracket && es.wf) = true := by simpa [SE.wf] using hw
    simp only [Bool.and_eq_true, beq_iff_eq] at hw'
    exact ⟨t, _, rfl, by rw [hw'.1]; decide⟩
  | .func t name params body, hw => by
    have hw' : (t.type == .function && (optTok name).all isIdentTok && params.all isIdentTok && body.wf) = true := by
      simpa [SE.wf] using hw
    simp only [Bool.and_eq_true, beq_iff_eq] at hw'
    exact ⟨t, _, rfl, by rw [hw'.1.1.1]; decide⟩
  | .obj t props, hw => by
    have hw' : (t.type == .lbrace && props.wf) = true := by simpa [SE.wf] using hw
    simp only [Bool.and_eq_true, beq_iff_eq] at hw'
    exact ⟨t, _, rfl, by rw [hw'.1]; decide⟩
  | .bin t l r, hw => by
    have hw' : (lookup baseInfixFns t.type == some .binary && l.wf && r.wf) = true := by simpa [SE.wf] using hw
    simp only [Bool.and_eq_true] at hw'
    obtain ⟨a, as, h1, h2⟩ := head_prefix l hw'.1.2
    by_cases hp : parenLeft (operatorPrecedence t.type) l = true
    · exact ⟨lpT, _, by simp [SE.toks, wrapToks, hp]; rfl, by decide⟩
    · exact ⟨a, _, by simp [SE.toks, wrapToks, hp, h1]; rfl, h2⟩
  | .post t l, hw => by
    have hw0 : (lookup baseInfixFns t.type == some .postfix && l.wf && !t.nl) = true := by simpa [SE.wf] using hw
    simp only [Bool.and_eq_true] at hw0
    have hw' := hw0.1
    obtain ⟨a, as, h1, h2⟩ := head_prefix l hw'.2
    by_cases hp : parenPostfix l = true
    · exact ⟨lpT, _, by simp [SE.toks, wrapToks, hp]; rfl, by decide⟩
    · exact ⟨a, _, by simp [SE.toks, wrapToks, hp, h1]; rfl, h2⟩
  | .call t f args, hw => by
    have hw' : (t.type == .lparen && !t.nl && decide (precCall ≤ f.level) && f.wf && args.wf) = true := by simpa [SE.wf] using hw
    simp only [Bool.and_eq_true] at hw'
    obtain ⟨a, as, h1, h2⟩ := head_prefix f hw'.1.2
    exact ⟨a, _, by simp [SE.toks, h1]; rfl, h2⟩
  | .dot t o p, hw => by
    have hw' : (t.type == .dot && decide (precCall ≤ o.level) && o.wf && atomWf p) = true := by simpa [SE.wf] using hw
    simp only [Bool.and_eq_true] at hw'
    obtain ⟨a, as, h1, h2⟩ := head_prefix o hw'.1.2
    exact ⟨a, _, by simp [SE.toks, h1]; rfl, h2⟩
  | .idx t o p, hw => by
    have hw' : (t.type == .lbracket && !t.nl && decide (precCall ≤ o.level) && o.wf && p.wf) = true := by simpa [SE.wf] using hw
    simp only [Bool.and_eq_true] at hw'
    obtain ⟨a, as, h1, h2⟩ := head_prefix o hw'.1.2
    exact ⟨a, _, by simp [SE.toks, h1]; rfl, h2⟩
  | .asg t l v, hw => by
    have hw' : (t.type == .assign && decide (precCall ≤ l.level) && l.wf && v.wf) = true := by simpa [SE.wf] using hw
    simp only [Bool.and_eq_true] at hw'
    obtain ⟨a, as, h1, h2⟩ := head_prefix l hw'.1.2
    exact ⟨a, _, by simp [SE.toks, h1]; rfl, h2⟩
  | .casg t l v, hw => by
    have hw' : ((t.type == .plusAssign || t.type == .minusAssign) && decide (precCall ≤ l.level) && l.wf && v.wf) = true := by
      simpa [SE.wf] using hw
    simp only [Bool.and_eq_true] at hw'
    obtain ⟨a, as, h1, h2⟩ := head_prefix l hw'.1.2
    exact ⟨a, _, by simp [SE.toks, h1]; rfl, h2⟩

/-- nothing binds tighter than MEMBER -/
theorem precOf_le_member (ty : TokType) : precOf { } ty ≤ 12 := by
  cases ty <;> first | decide | simp [precOf, lookup, basePrecedences, LOWEST]

end Xjs.RA
