import XjsModel.Proofs.IndentWriter
/-
  The indent relation is preserved by every printer (structural recursion over the tree).
-/
namespace Xjs

theorem PendNL_writeNewline (cw : CW) : PendNL cw.writeNewline := by
  intro hp
  have : cw.pretty = true := by simpa [CW.writeNewline] using (by
    unfold CW.writeNewline at hp; split at hp <;> simp_all)
  simp [CW.writeNewline, this]

theorem PendNL_increaseIndent {cw : CW} (h : PendNL cw) : PendNL cw.increaseIndent := by
  unfold CW.increaseIndent; split
  · exact h
  · intro _; exact h (by simp_all)
theorem PendNL_decreaseIndent {cw : CW} (h : PendNL cw) : PendNL cw.decreaseIndent := by
  unfold CW.decreaseIndent; split
  · exact h
  · intro _; exact h (by simp_all)
theorem PendNL_newlineIf {cw : CW} (first : Bool) (h : first = true → PendNL cw) : PendNL (cw.newlineIf first) := by
  unfold CW.newlineIf; split
  · rename_i hf; exact h hf
  · exact PendNL_writeNewline cw

macro "ind_step" : tactic => `(tactic| first
  | assumption
  | apply IndRel.panic
  | apply IndRel.writeString
  | apply IndRel.writeRune
  | apply IndRel.writeSemi
  | apply IndRel.separateSigns
  | apply IndRel.increaseIndent
  | apply IndRel.decreaseIndent
  | apply IndRel.writeNewline
  | apply IndRel.writeSpace
  | apply IndRel.leadingComments
  | apply IndRel.addMapping
  | apply IndRel.addNamedMapping
  | apply IndRel.head
  | apply IndRel.writeIdent
  | apply IndRel.writeParams
  | apply IndRel.openIf
  | apply IndRel.closeIf
  | apply IndRel.sepIf
  | apply IndRel.newlineIf)

theorem indrel_ite {c : Prop} [Decidable c] {a b a' b' : CW} (h1 : IndRel a b) (h2 : IndRel a' b') :
    IndRel (if c then a else a') (if c then b else b') := by split <;> assumption

attribute [local irreducible] CW.openIf CW.closeIf CW.sepIf CW.newlineIf CW.head CW.writeString CW.writeRune CW.writeSemi
  CW.separateSigns CW.increaseIndent CW.decreaseIndent CW.writeIndent CW.writeNewline CW.writeSpace CW.leadingComments
  CW.addMapping CW.addNamedMapping CW.panic writeIdent writeParams

mutual
  theorem ind_writeExpr : ∀ (e : Expr) (a b : CW), IndRel a b → IndRel (writeExpr e a) (writeExpr e b)
    | .none, a, b, h => by simp only [writeExpr]; repeat' ind_step
    | .ident id, a, b, h => by simp only [writeExpr]; repeat' ind_step
    | .int tok, a, b, h => by simp only [writeExpr]; repeat' ind_step
    | .float tok, a, b, h => by simp only [writeExpr]; repeat' ind_step
    | .str tok v, a, b, h => by simp only [writeExpr]; repeat' ind_step
    | .raw tok v, a, b, h => by simp only [writeExpr]; repeat' ind_step
    | .bool tok v, a, b, h => by simp only [writeExpr]; repeat' ind_step
    | .null tok, a, b, h => by simp only [writeExpr]; repeat' ind_step
    | .letE tok name v, a, b, h => by
      simp only [writeExpr]; repeat' (first | apply indrel_ite | apply ind_writeExpr v | ind_step)
    | .binary tok l op r, a, b, h => by
      simp only [writeExpr]; repeat' (first | apply indrel_ite | apply ind_writeExpr l | apply ind_writeExpr r | ind_step)
    | .unary tok op r, a, b, h => by
      simp only [writeExpr]; repeat' (first | apply indrel_ite | apply ind_writeExpr r | ind_step)
    | .postfix tok l op, a, b, h => by
      simp only [writeExpr]; repeat' (first | apply indrel_ite | apply ind_writeExpr l | ind_step)
    | .group tok e rp, a, b, h => by
      simp only [writeExpr]; repeat' (first | apply ind_writeExpr e | ind_step)
    | .call tok fn args, a, b, h => by
      simp only [writeExpr]; repeat' (first | apply ind_writeExpr fn | apply ind_writeExprList args | ind_step)
    | .member tok obj prop c, a, b, h => by
      simp only [writeExpr]; repeat' (first | apply indrel_ite | apply ind_writeExpr obj | apply ind_writeExpr prop | ind_step)
    | .assign tok l v, a, b, h => by
      simp only [writeExpr]; repeat' (first | apply ind_writeExpr l | apply ind_writeExpr v | ind_step)
    | .compound tok l op v, a, b, h => by
      simp only [writeExpr]; repeat' (first | apply ind_writeExpr l | apply ind_writeExpr v | ind_step)
    | .func tok name params body, a, b, h => by
      cases name <;> simp only [writeExpr] <;> repeat' (first | apply ind_writeStmt body | ind_step)
    | .array tok elems rb, a, b, h => by
      simp only [writeExpr]; repeat' (first | apply ind_writeExprList elems | ind_step)
    | .object tok props rb, a, b, h => by
      simp only [writeExpr]; repeat' (first | apply ind_writeProps props | ind_step)
  theorem ind_writeExprList : ∀ (es : ExprList) (first : Bool) (a b : CW), IndRel a b →
      IndRel (writeExprList es first a) (writeExprList es first b)
    | .nil, _, a, b, h => by simp only [writeExprList]; exact h
    | .cons e rest, first, a, b, h => by
      simp only [writeExprList]; repeat' (first | apply ind_writeExprList rest | apply ind_writeExpr e | ind_step)
  theorem ind_writeProps : ∀ (ps : PropList) (first : Bool) (a b : CW), IndRel a b →
      IndRel (writeProps ps first a) (writeProps ps first b)
    | .nil, _, a, b, h => by simp only [writeProps]; exact h
    | .cons k v rest, first, a, b, h => by
      simp only [writeProps]
      repeat' (first | apply ind_writeProps rest | apply ind_writeExpr k | apply ind_writeExpr v | ind_step)
  theorem ind_writeStmt : ∀ (s : Stmt) (a b : CW), IndRel a b → IndRel (writeStmt s a) (writeStmt s b)
    | .none, a, b, h => by simp only [writeStmt]; repeat' ind_step
    | .letS tok name v, a, b, h => by
      simp only [writeStmt]; repeat' (first | apply indrel_ite | apply ind_writeExpr v | ind_step)
    | .ret tok v, a, b, h => by
      simp only [writeStmt]; repeat' (first | apply indrel_ite | apply ind_writeExpr v | ind_step)
    | .exprS e, a, b, h => by
      simp only [writeStmt]; repeat' (first | apply indrel_ite | apply ind_writeExpr e | ind_step)
    | .funcD tok name params body, a, b, h => by
      simp only [writeStmt]; repeat' (first | apply ind_writeStmt body | ind_step)
    | .block tok stmts rb, a, b, h => by
      simp only [writeStmt]
      have h1 : IndRel ((((a.head tok).writeRune 123).writeNewline).increaseIndent) ((((b.head tok).writeRune 123).writeNewline).increaseIndent) := by
        repeat' ind_step
      have p1 : PendNL ((((a.head tok).writeRune 123).writeNewline).increaseIndent) :=
        PendNL_increaseIndent (PendNL_writeNewline _)
      have h2 := ind_writeBlockStmts stmts true _ _ h1 (fun _ => p1)
      have h3 := (h2.decreaseIndent).writeNewline
      have p3 : PendNL ((writeBlockStmts stmts true ((((a.head tok).writeRune 123).writeNewline).increaseIndent)).decreaseIndent.writeNewline) :=
        PendNL_writeNewline _
      have h4 := (h3.leadingComments rb.comments).writeIndent (leadingComments_pendNL _ p3)
      exact h4.writeRune 125
    | .ifS tok c t e, a, b, h => by
      simp only [writeStmt]
      repeat' (first | apply indrel_ite | apply ind_writeExpr c | apply ind_writeStmt t | apply ind_writeStmt e | ind_step)
    | .whileS tok c body, a, b, h => by
      simp only [writeStmt]; repeat' (first | apply ind_writeExpr c | apply ind_writeStmt body | ind_step)
    | .forS tok i c u body, a, b, h => by
      simp only [writeStmt]
      repeat' (first | apply indrel_ite | apply ind_writeExpr i | apply ind_writeExpr c | apply ind_writeExpr u | apply ind_writeStmt body | ind_step)
  theorem ind_writeBlockStmts : ∀ (ss : StmtList) (first : Bool) (a b : CW), IndRel a b → (first = true → PendNL a) →
      IndRel (writeBlockStmts ss first a) (writeBlockStmts ss first b)
    | .nil, _, a, b, h, _ => by simp only [writeBlockStmts]; exact h
    | .cons s rest, first, a, b, h, hp => by
      simp only [writeBlockStmts]
      have h1 := (h.newlineIf first).writeIndent (PendNL_newlineIf first hp)
      exact ind_writeBlockStmts rest false _ _ (ind_writeStmt s _ _ h1) (fun hf => absurd hf (by simp))
  theorem ind_writeProgramStmts : ∀ (ss : StmtList) (first : Bool) (a b : CW), IndRel a b →
      IndRel (writeProgramStmts ss first a) (writeProgramStmts ss first b)
    | .nil, _, a, b, h => by simp only [writeProgramStmts]; exact h
    | .cons s rest, first, a, b, h => by
      simp only [writeProgramStmts]; repeat' (first | apply ind_writeProgramStmts rest | apply ind_writeStmt s | ind_step)
end

end Xjs
