import XjsModel.Proofs.RaMain
/-
  Round trip, last part: the layout the PRINTER produces — every expression, `let` and `return` statement closed by
  `;` — is admissible in every mode (`lay false`), so the printed tokens of every well-formed tree parse back to it.
-/
namespace Xjs.RA
open Xjs

mutual
  /-- every statement that can carry a `;` carries it (the compact printer's output) -/
  def SE.term : SE → Bool
    | .atom _ => true
    | .grp _ e _ => e.term
    | .un _ r => r.term
    | .bin _ l r => l.term && r.term
    | .post _ l => l.term
    | .call _ f args => f.term && args.term
    | .dot _ o _ => o.term
    | .idx _ o p => o.term && p.term
    | .asg _ l v => l.term && v.term
    | .casg _ l v => l.term && v.term
    | .arr _ es => es.term
    | .func _ _ _ body => body.term
    | .obj _ props => props.term
  def SEList.term : SEList → Bool
    | .nil => true
    | .cons e rest => e.term && rest.term
  def SPList.term : SPList → Bool
    | .nil => true
    | .cons k v rest => k.term && v.term && rest.term
  def SS.term : SS → Bool
    | .exprS e semi => semi && e.term
    | .letS _ _ v semi => semi && v.term
    | .letN _ _ => true
    | .ret _ v semi => semi && v.term
    | .retN _ => true
    | .ifS _ c thn => c.term && thn.term
    | .ifElse _ c thn _ els => c.term && thn.term && els.term
    | .whileS _ c body => c.term && body.term
    | .forS _ i c u body => i.term && c.term && u.term && body.term
    | .block body => body.term
    | .funcD _ _ _ body => body.term
  def SSList.term : SSList → Bool
    | .nil => true
    | .cons s rest => s.term && rest.term
  def SOpt.term : SOpt → Bool
    | .none => true
    | .some e => e.term
  def SInit.term : SInit → Bool
    | .none => true
    | .letV _ _ v => v.term
    | .letN _ _ => true
    | .expr e => e.term
end

theorem open_of_term : ∀ (s : SS), s.term = true → s.open = false
  | .exprS _ semi, h => by simp only [SS.term, Bool.and_eq_true] at h; simp [SS.open, h.1]
  | .letS _ _ _ semi, h => by simp only [SS.term, Bool.and_eq_true] at h; simp [SS.open, h.1]
  | .letN _ _, _ => rfl
  | .ret _ _ semi, h => by simp only [SS.term, Bool.and_eq_true] at h; simp [SS.open, h.1]
  | .retN _, _ => rfl
  | .ifS _ _ thn, h => by simp only [SS.term, Bool.and_eq_true] at h; simpa [SS.open] using open_of_term thn h.2
  | .ifElse _ _ _ _ els, h => by simp only [SS.term, Bool.and_eq_true] at h; simpa [SS.open] using open_of_term els h.2
  | .whileS _ _ body, h => by simp only [SS.term, Bool.and_eq_true] at h; simpa [SS.open] using open_of_term body h.2
  | .forS _ _ _ _ body, h => by simp only [SS.term, Bool.and_eq_true] at h; simpa [SS.open] using open_of_term body h.2
  | .block _, _ => rfl
  | .funcD _ _ _ _, _ => rfl

/-- behind a terminated statement anything but an `else` after an open `if` may follow -/
theorem follow_of_term (tol sm : Bool) (s : SS) (h : s.term = true) (f : Token) (hf : s.openIf = true → f.type ≠ .else_) :
    followOk tol sm s f = true := by
  unfold followOk
  rw [open_of_term s h]
  simp only [Bool.not_false, Bool.true_or, Bool.and_true, Bool.or_eq_true, Bool.not_eq_true', bne_iff_ne, ne_eq]
  cases ho : s.openIf with
  | false => exact Or.inl rfl
  | true => exact Or.inr (hf ho)

mutual
  theorem lay_of_term (tol sm : Bool) : ∀ (s : SE), s.wf = true → s.term = true → s.lay tol sm = true
    | .atom _, _, _ => rfl
    | .grp lp e rp, hw, ht => by
      have hw' : (lp.type == .lparen && rp.type == .rparen && e.wf) = true := by simpa [SE.wf] using hw
      simp only [Bool.and_eq_true] at hw'
      simpa [SE.lay] using lay_of_term tol sm e hw'.2 (by simpa [SE.term] using ht)
    | .un t r, hw, ht => by
      have hw' : (lookup basePrefixFns t.type == some .unary && r.wf) = true := by simpa [SE.wf] using hw
      simp only [Bool.and_eq_true] at hw'
      simpa [SE.lay] using lay_of_term tol sm r hw'.2 (by simpa [SE.term] using ht)
    | .bin t l r, hw, ht => by
      have hw' : (lookup baseInfixFns t.type == some .binary && l.wf && r.wf) = true := by simpa [SE.wf] using hw
      simp only [Bool.and_eq_true] at hw'
      have ht' : l.term = true ∧ r.term = true := by simpa [SE.term] using ht
      simp [SE.lay, lay_of_term tol sm l hw'.1.2 ht'.1, lay_of_term tol sm r hw'.2 ht'.2]
    | .post t l, hw, ht => by
      have hw' : (lookup baseInfixFns t.type == some .postfix && l.wf && !t.nl) = true := by simpa [SE.wf] using hw
      simp only [Bool.and_eq_true] at hw'
      simpa [SE.lay] using lay_of_term tol sm l hw'.1.2 (by simpa [SE.term] using ht)
    | .call t f args, hw, ht => by
      have hw' : (t.type == .lparen && !t.nl && decide (precCall ≤ f.level) && f.wf && args.wf) = true := by simpa [SE.wf] using hw
      simp only [Bool.and_eq_true] at hw'
      have ht' : f.term = true ∧ args.term = true := by simpa [SE.term] using ht
      simp [SE.lay, lay_of_term tol sm f hw'.1.2 ht'.1, layL_of_term tol sm args hw'.2 ht'.2]
    | .dot t o p, hw, ht => by
      have hw' : (t.type == .dot && decide (precCall ≤ o.level) && o.wf && atomWf p) = true := by simpa [SE.wf] using hw
      simp only [Bool.and_eq_true] at hw'
      simpa [SE.lay] using lay_of_term tol sm o hw'.1.2 (by simpa [SE.term] using ht)
    | .idx t o p, hw, ht => by
      have hw' : (t.type == .lbracket && !t.nl && decide (precCall ≤ o.level) && o.wf && p.wf) = true := by simpa [SE.wf] using hw
      simp only [Bool.and_eq_true] at hw'
      have ht' : o.term = true ∧ p.term = true := by simpa [SE.term] using ht
      simp [SE.lay, lay_of_term tol sm o hw'.1.2 ht'.1, lay_of_term tol sm p hw'.2 ht'.2]
    | .asg t l v, hw, ht => by
      have hw' : (t.type == .assign && decide (precCall ≤ l.level) && l.wf && v.wf) = true := by simpa [SE.wf] using hw
      simp only [Bool.and_eq_true] at hw'
      have ht' : l.term = true ∧ v.term = true := by simpa [SE.term] using ht
      simp [SE.lay, lay_of_term tol sm l hw'.1.2 ht'.1, lay_of_term tol sm v hw'.2 ht'.2]
    | .casg t l v, hw, ht => by
      have hw' : ((t.type == .plusAssign || t.type == .minusAssign) && decide (precCall ≤ l.level) && l.wf && v.wf) = true := by
        simpa [SE.wf] using hw
      simp only [Bool.and_eq_true] at hw'
      have ht' : l.term = true ∧ v.term = true := by simpa [SE.term] using ht
      simp [SE.lay, lay_of_term tol sm l hw'.1.2 ht'.1, lay_of_term tol sm v hw'.2 ht'.2]
    | .arr t es, hw, ht => by
      have hw' : (t.type == .lbracket && es.wf) = true := by simpa [SE.wf] using hw
      simp only [Bool.and_eq_true] at hw'
      simpa [SE.lay] using layL_of_term tol sm es hw'.2 (by simpa [SE.term] using ht)
    | .func t name ps body, hw, ht => by
      have hw' : (t.type == .function && (optTok name).all isIdentTok && ps.all isIdentTok && body.wf) = true := by
        simpa [SE.wf] using hw
      simp only [Bool.and_eq_true] at hw'
      simpa [SE.lay] using layB_of_term tol sm body hw'.2 (by simpa [SE.term] using ht) rbrT (Or.inl rfl)
    | .obj t ps, hw, ht => by
      have hw' : (t.type == .lbrace && ps.wf) = true := by simpa [SE.wf] using hw
      simp only [Bool.and_eq_true] at hw'
      simpa [SE.lay] using layP_of_term tol sm ps hw'.2 (by simpa [SE.term] using ht)
  theorem layL_of_term (tol sm : Bool) : ∀ (es : SEList), es.wf = true → es.term = true → es.lay tol sm = true
    | .nil, _, _ => rfl
    | .cons e rest, hw, ht => by
      have hw' : e.wf = true ∧ rest.wf = true := by simpa [SEList.wf] using hw
      have ht' : e.term = true ∧ rest.term = true := by simpa [SEList.term] using ht
      simp [SEList.lay, lay_of_term tol sm e hw'.1 ht'.1, layL_of_term tol sm rest hw'.2 ht'.2]
  theorem layP_of_term (tol sm : Bool) : ∀ (ps : SPList), ps.wf = true → ps.term = true → ps.lay tol sm = true
    | .nil, _, _ => rfl
    | .cons k v rest, hw, ht => by
      have hw' : (k.wf = true ∧ v.wf = true) ∧ rest.wf = true := by simpa [SPList.wf] using hw
      have ht' : (k.term = true ∧ v.term = true) ∧ rest.term = true := by simpa [SPList.term] using ht
      simp [SPList.lay, lay_of_term tol sm k hw'.1.1 ht'.1.1, lay_of_term tol sm v hw'.1.2 ht'.1.2, layP_of_term tol sm rest hw'.2 ht'.2]
  theorem layS_of_term (tol sm : Bool) : ∀ (s : SS), s.wf = true → s.term = true → s.lay tol sm = true
    | .exprS e semi, hw, ht => by
      have hw' : (e.wf && (e.toks.headD lpT).type != .lbrace && (e.toks.headD lpT).type != .function) = true := by
        simpa [SS.wf] using hw
      simp only [Bool.and_eq_true] at hw'
      have ht' : semi = true ∧ e.term = true := by simpa [SS.term] using ht
      simpa [SS.lay] using lay_of_term tol sm e hw'.1.1 ht'.2
    | .letS t name v semi, hw, ht => by
      have hw' : (t.type == .let_ && isIdentTok name && v.wf) = true := by simpa [SS.wf] using hw
      simp only [Bool.and_eq_true] at hw'
      have ht' : semi = true ∧ v.term = true := by simpa [SS.term] using ht
      simpa [SS.lay] using lay_of_term tol sm v hw'.2 ht'.2
    | .letN _ _, _, _ => rfl
    | .ret t v semi, hw, ht => by
      have hw' : (t.type == .return_ && v.wf && !(v.toks.headD lpT).nl) = true := by simpa [SS.wf] using hw
      simp only [Bool.and_eq_true] at hw'
      have ht' : semi = true ∧ v.term = true := by simpa [SS.term] using ht
      simpa [SS.lay] using lay_of_term tol sm v hw'.1.2 ht'.2
    | .retN _, _, _ => rfl
    | .ifS t c thn, hw, ht => by
      have hw' : (t.type == .if_ && c.wf && thn.wf) = true := by simpa [SS.wf] using hw
      simp only [Bool.and_eq_true] at hw'
      have ht' : c.term = true ∧ thn.term = true := by simpa [SS.term] using ht
      simp [SS.lay, lay_of_term tol sm c hw'.1.2 ht'.1, layS_of_term tol sm thn hw'.2 ht'.2]
    | .ifElse t c thn el els, hw, ht => by
      have hw' : (t.type == .if_ && c.wf && thn.wf && !thn.openIf && els.wf && el.type == .else_) = true := by simpa [SS.wf] using hw
      simp only [Bool.and_eq_true, Bool.not_eq_true'] at hw'
      have ht' : (c.term = true ∧ thn.term = true) ∧ els.term = true := by simpa [SS.term] using ht
      have hf := follow_of_term tol sm thn ht'.1.2 el (fun h => by rw [hw'.1.1.2] at h; cases h)
      simp [SS.lay, lay_of_term tol sm c hw'.1.1.1.1.2 ht'.1.1, layS_of_term tol sm thn hw'.1.1.1.2 ht'.1.2, hf,
        layS_of_term tol sm els hw'.1.2 ht'.2]
    | .whileS t c body, hw, ht => by
      have hw' : (t.type == .while_ && c.wf && body.wf) = true := by simpa [SS.wf] using hw
      simp only [Bool.and_eq_true] at hw'
      have ht' : c.term = true ∧ body.term = true := by simpa [SS.term] using ht
      simp [SS.lay, lay_of_term tol sm c hw'.1.2 ht'.1, layS_of_term tol sm body hw'.2 ht'.2]
    | .forS t i c u body, hw, ht => by
      have hw' : (t.type == .for_ && i.wf && c.wf && u.wf && body.wf) = true := by simpa [SS.wf] using hw
      simp only [Bool.and_eq_true] at hw'
      have ht' : ((i.term = true ∧ c.term = true) ∧ u.term = true) ∧ body.term = true := by simpa [SS.term] using ht
      simp [SS.lay, layI_of_term tol sm i hw'.1.1.1.2 ht'.1.1.1, layO_of_term tol sm c hw'.1.1.2 ht'.1.1.2,
        layO_of_term tol sm u hw'.1.2 ht'.1.2, layS_of_term tol sm body hw'.2 ht'.2]
    | .block body, hw, ht => by
      simpa [SS.lay] using layB_of_term tol sm body (by simpa [SS.wf] using hw) (by simpa [SS.term] using ht) rbrT (Or.inl rfl)
    | .funcD t name ps body, hw, ht => by
      have hw' : (t.type == .function && isIdentTok name && ps.all isIdentTok && body.wf) = true := by simpa [SS.wf] using hw
      simp only [Bool.and_eq_true] at hw'
      simpa [SS.lay] using layB_of_term tol sm body hw'.2 (by simpa [SS.term] using ht) rbrT (Or.inl rfl)
  theorem layB_of_term (tol sm : Bool) : ∀ (ss : SSList), ss.wf = true → ss.term = true →
      ∀ (closer : Token), (closer.type = .rbrace ∨ closer.type = .eof) → ss.lay tol sm closer = true
    | .nil, _, _, _, _ => rfl
    | .cons s rest, hw, ht, closer, hcl => by
      have hw' : s.wf = true ∧ rest.wf = true := by simpa [SSList.wf] using hw
      have ht' : s.term = true ∧ rest.term = true := by simpa [SSList.term] using ht
      have hf : followOk tol sm s ((rest.toks ++ [closer]).headD closer) = true := by
        apply follow_of_term tol sm s ht'.1
        intro _
        cases rest with
        | nil => simp only [SSList.toks, List.nil_append, List.headD_cons]; rcases hcl with h | h <;> rw [h] <;> decide
        | cons s2 r2 =>
          have hw2 : s2.wf = true := by
            have : s2.wf = true ∧ r2.wf = true := by simpa [SSList.wf] using hw'.2
            exact this.1
          obtain ⟨t2, ts2, e1, _, _, e4⟩ := head_stmt s2 hw2
          simp only [SSList.toks, e1, List.cons_append, List.headD_cons]; exact e4
      simp only [SSList.lay, Bool.and_eq_true]
      exact ⟨⟨layS_of_term tol sm s hw'.1 ht'.1, hf⟩, layB_of_term tol sm rest hw'.2 ht'.2 closer hcl⟩
  theorem layO_of_term (tol sm : Bool) : ∀ (o : SOpt), o.wf = true → o.term = true → o.lay tol sm = true
    | .none, _, _ => rfl
    | .some e, hw, ht => by simpa [SOpt.lay] using lay_of_term tol sm e (by simpa [SOpt.wf] using hw) (by simpa [SOpt.term] using ht)
  theorem layI_of_term (tol sm : Bool) : ∀ (i : SInit), i.wf = true → i.term = true → i.lay tol sm = true
    | .none, _, _ => rfl
    | .letN _ _, _, _ => rfl
    | .expr e, hw, ht => by simpa [SInit.lay] using lay_of_term tol sm e (by simpa [SInit.wf] using hw) (by simpa [SInit.term] using ht)
    | .letV t name v, hw, ht => by
      have hw' : (t.type == .let_ && isIdentTok name && v.wf) = true := by simpa [SInit.wf] using hw
      simp only [Bool.and_eq_true] at hw'
      simpa [SInit.lay] using lay_of_term tol sm v hw'.2 (by simpa [SInit.term] using ht)
end

/-- THE PRINTER'S LAYOUT: every well-formed program with all its statement terminators written parses back to its tree in
    EVERY mode -/
theorem printed_program_round_trip {cfg : PCfg} (hc : BaseCfg cfg) (prog : SSList) (hw : prog.wf = true) (ht : prog.term = true)
    (eofTok : Token) (he : eofTok.type = .eof) :
    ∃ r, parseProgram cfg (prog.toks ++ [eofTok]) = some r ∧ r.prog = prog.tree ∧ r.errors = [] ∧ r.hasErr = false :=
  program_round_trip (tol := false) (sm := false) hc (fun h => by cases h) (fun h => by cases h) prog hw eofTok he
    (layB_of_term false false prog hw ht eofTok (Or.inr he))

end Xjs.RA
