import XjsModel.Model.SourceMap
import XjsModel.Spec.SourceMapV3
/-
  Helper lemmas for C09: VLQ round trip, encoder pieces, decoder steps.
-/
namespace Xjs
open Xjs.Spec

/-! ## Base64 table facts (finite, by kernel evaluation) -/

theorem b64val_base64Char : ∀ d, d < 64 → b64val (base64Char d) = some d := by decide

theorem base64Char_not_sep : ∀ d, d < 64 → base64Char d ≠ 44 ∧ base64Char d ≠ 59 := by decide

/-! ## VLQ -/

theorem vlqGroups_lt (fuel n : Nat) : ∀ d ∈ vlqGroups fuel n, d < 64 := by
  induction fuel generalizing n with
  | zero => intro d hd; simp [vlqGroups] at hd; omega
  | succ fuel ih =>
    intro d hd
    unfold vlqGroups at hd
    split at hd
    · simp only [List.mem_cons] at hd
      rcases hd with h | h
      · omega
      · exact ih _ d h
    · simp at hd; omega

theorem vlqGroups_ne_nil (fuel n : Nat) : vlqGroups fuel n ≠ [] := by
  cases fuel <;> simp [vlqGroups] <;> split <;> simp

theorem decVlqNat_groups (fuel n : Nat) (h : n ≤ fuel) (rest : Bytes) :
    decVlqNat ((vlqGroups fuel n).map base64Char ++ rest) = some (n, rest) := by
  induction fuel generalizing n with
  | zero =>
    have : n = 0 := by omega
    subst this
    simp [vlqGroups, decVlqNat, b64val_base64Char 0 (by omega)]
  | succ fuel ih =>
    unfold vlqGroups
    split
    · rename_i hpos
      have hle : n / 32 ≤ fuel := by omega
      simp only [List.map_cons, List.cons_append, decVlqNat]
      rw [b64val_base64Char _ (by omega)]
      have h1 : ¬ (n % 32 + 32 < 32) := by omega
      simp only [h1, if_false, ih (n / 32) hle]
      have : n % 32 + 32 - 32 + 32 * (n / 32) = n := by omega
      simp only [this]
    · have h1 : n < 32 := by omega
      have h2 : n % 32 = n := by omega
      simp only [List.map_cons, List.map_nil, List.cons_append, List.nil_append, decVlqNat]
      rw [b64val_base64Char _ (by omega)]
      simp [h2, h1]

theorem fromVlqSigned_vlqSigned (n : Int) : fromVlqSigned (vlqSigned n) = n := by
  unfold fromVlqSigned vlqSigned
  split <;> split <;> omega

/-- C09(e): the spec VLQ decoder inverts `encodeVLQ`, for every integer and any following text -/
theorem decVlq_encodeVLQ (n : Int) (rest : Bytes) : decVlq (encodeVLQ n ++ rest) = some (n, rest) := by
  unfold decVlq encodeVLQ
  rw [decVlqNat_groups _ _ (Nat.le_refl _)]
  simp [fromVlqSigned_vlqSigned]

theorem encodeVLQ_ne_nil (n : Int) : encodeVLQ n ≠ [] := by
  unfold encodeVLQ
  simp [vlqGroups_ne_nil]

/-- every emitted digit is a character of the Base64 alphabet -/
theorem encodeVLQ_alphabet (n : Int) : ∀ c ∈ encodeVLQ n, ∃ d, d < 64 ∧ c = base64Char d := by
  intro c hc
  unfold encodeVLQ at hc
  rw [List.mem_map] at hc
  obtain ⟨d, hd, rfl⟩ := hc
  exact ⟨d, vlqGroups_lt _ _ d hd, rfl⟩

theorem encodeVLQ_head (n : Int) : ∃ c cs, encodeVLQ n = c :: cs ∧ c ≠ 44 ∧ c ≠ 59 := by
  have hne := encodeVLQ_ne_nil n
  match h : encodeVLQ n with
  | [] => exact absurd h hne
  | c :: cs =>
    obtain ⟨d, hd, hcd⟩ := encodeVLQ_alphabet n c (by rw [h]; simp)
    have := base64Char_not_sep d hd
    exact ⟨c, cs, rfl, by rw [hcd]; exact this.1, by rw [hcd]; exact this.2⟩

/-! ## readFields on encoder output -/

/-- `rest` is the end of the string or begins with a separator -/
def AtSep (rest : Bytes) : Prop := rest = [] ∨ ∃ r, rest = 44 :: r ∨ rest = 59 :: r

theorem readFields_atSep (rest : Bytes) (h : AtSep rest) : readFields rest = some ([], rest) := by
  rw [readFields.eq_def]
  rcases h with h | ⟨r, h | h⟩ <;> subst h <;> simp

theorem readFields_vlq (n : Int) (rest : Bytes) (vs : List Int) (r : Bytes)
    (h : readFields rest = some (vs, r)) : readFields (encodeVLQ n ++ rest) = some (n :: vs, r) := by
  obtain ⟨c, cs, hc, h44, h59⟩ := encodeVLQ_head n
  rw [readFields.eq_def]
  have hd := decVlq_encodeVLQ n rest
  rw [hc] at hd ⊢
  simp only [List.cons_append] at hd ⊢
  simp only [h44, h59, or_self, if_false, hd]
  simp [h]

end Xjs

namespace Xjs
open Xjs.Spec

/-! ## decoder steps -/

theorem decodeFrom_nil (d : DState) : decodeFrom [] d = some [] := by
  rw [decodeFrom.eq_def]

theorem decodeFrom_semi (rest : Bytes) (d : DState) :
    decodeFrom (59 :: rest) d = decodeFrom rest { d with genLine := d.genLine + 1, genCol := 0 } := by
  rw [decodeFrom.eq_def]; simp

theorem decodeFrom_comma (rest : Bytes) (d : DState) : decodeFrom (44 :: rest) d = decodeFrom rest d := by
  rw [decodeFrom.eq_def]; simp

theorem decodeFrom_semis (k : Nat) (rest : Bytes) (d : DState) (hk : 0 < k) :
    decodeFrom (List.replicate k 59 ++ rest) d
      = decodeFrom rest { d with genLine := d.genLine + k, genCol := 0 } := by
  induction k generalizing d with
  | zero => omega
  | succ k ih =>
    simp only [List.replicate_succ, List.cons_append]
    rw [decodeFrom_semi]
    by_cases hk0 : k = 0
    · subst hk0; simp
    · rw [ih _ (by omega)]
      congr 1
      simp only [DState.mk.injEq, and_true]
      omega

/-- the relation between encoder and decoder running state -/
structure Rel (st : EncState) (d : DState) : Prop where
  line : d.genLine = st.curLine
  col : d.genCol = st.prevGenCol
  idx : d.srcIdx = 0
  sl : d.srcLine = st.prevSrcLine
  sc : d.srcCol = st.prevSrcCol
  nm : d.name = st.prevName

/-- generated lines never decrease along the recorded mappings, starting from `cur` -/
def Mono (cur : Int) : List Mapping → Prop
  | [] => True
  | m :: ms => cur ≤ m.genLine ∧ Mono m.genLine ms

def Mapping.toSeg (m : Mapping) : Seg :=
  { genLine := m.genLine, genCol := m.genCol, source := some (0, m.srcLine, m.srcCol),
    name := m.name.map (fun i => (i : Int)) }

theorem encodeStep_segs (st : EncState) (m : Mapping) : 0 < (encodeStep st m).2.segs := by
  unfold encodeStep; cases m.name <;> simp

theorem encodeStep_curLine (st : EncState) (m : Mapping) (h : st.curLine ≤ m.genLine) :
    (encodeStep st m).2.curLine = m.genLine := by
  have key : (st.newLines (m.genLine - st.curLine).toNat).curLine = m.genLine := by
    unfold EncState.newLines
    split
    · simp only; omega
    · omega
  unfold encodeStep
  cases m.name <;> simpa using key

theorem encodeFrom_atSep (st : EncState) (ms : List Mapping) (h : 0 < st.segs) :
    AtSep (encodeFrom st ms) := by
  cases ms with
  | nil => left; rfl
  | cons m ms =>
    right
    unfold encodeFrom encodeStep
    by_cases hk : 0 < (m.genLine - st.curLine).toNat
    · obtain ⟨k, hk'⟩ : ∃ k, (m.genLine - st.curLine).toNat = k + 1 := ⟨_, (Nat.succ_pred_eq_of_pos hk).symm⟩
      cases m.name <;> simp [hk', List.replicate_succ]
    · have hk0 : (m.genLine - st.curLine).toNat = 0 := by omega
      cases m.name <;> simp [hk0, h, EncState.newLines]

/-- the four or five fields of one segment, read back -/
theorem readFields_segment (a c d : Int) (e : Option Int) (rest : Bytes) (h : AtSep rest) :
    readFields (encodeVLQ a ++ encodeVLQ 0 ++ encodeVLQ c ++ encodeVLQ d ++
        (match e with | some x => encodeVLQ x | none => []) ++ rest)
      = some (match e with | some x => [a, 0, c, d, x] | none => [a, 0, c, d], rest) := by
  have h0 := readFields_atSep rest h
  cases e with
  | none =>
    simp only [List.append_nil, List.append_assoc]
    exact readFields_vlq _ _ _ _ (readFields_vlq _ _ _ _ (readFields_vlq _ _ _ _ (readFields_vlq _ _ _ _ h0)))
  | some x =>
    simp only [List.append_assoc]
    exact readFields_vlq _ _ _ _ (readFields_vlq _ _ _ _ (readFields_vlq _ _ _ _
      (readFields_vlq _ _ _ _ (readFields_vlq _ _ _ _ h0))))

end Xjs

namespace Xjs
open Xjs.Spec

theorem decodeFrom_fields (a c dd : Int) (e : Option Int) (rest : Bytes) (h : AtSep rest) (d : DState) :
    decodeFrom (encodeVLQ a ++ encodeVLQ 0 ++ encodeVLQ c ++ encodeVLQ dd ++
        (match e with | some x => encodeVLQ x | none => []) ++ rest) d
      = (decodeFrom rest { d with genCol := d.genCol + a, srcIdx := d.srcIdx + 0, srcLine := d.srcLine + c,
                                  srcCol := d.srcCol + dd,
                                  name := match e with | some x => d.name + x | none => d.name }) >>= fun segs =>
          some ({ genLine := d.genLine, genCol := d.genCol + a,
                  source := some (d.srcIdx + 0, d.srcLine + c, d.srcCol + dd),
                  name := match e with | some x => some (d.name + x) | none => none } :: segs) := by
  have hr := readFields_segment a c dd e rest h
  obtain ⟨ch, cs, hc, h44, h59⟩ := encodeVLQ_head a
  rw [decodeFrom.eq_def]
  -- expose the head of the string
  have hshape : ∀ t : Bytes, encodeVLQ a ++ t = ch :: (cs ++ t) := by intro t; rw [hc]; rfl
  simp only [List.append_assoc] at hr ⊢
  rw [hshape] at hr ⊢
  simp only [h44, h59, if_false, hr]
  cases e <;> rfl

theorem decode_encodeFrom (ms : List Mapping) (st : EncState) (d : DState) (hR : Rel st d)
    (hM : Mono st.curLine ms) : decodeFrom (encodeFrom st ms) d = some (ms.map Mapping.toSeg) := by
  induction ms generalizing st d with
  | nil => simp [encodeFrom, decodeFrom_nil]
  | cons m ms ih =>
    obtain ⟨hle, hM'⟩ := hM
    have hsep := encodeFrom_atSep (encodeStep st m).2 ms (encodeStep_segs st m)
    have hcur := encodeStep_curLine st m hle
    obtain ⟨k, hkdef⟩ : ∃ k, k = (m.genLine - st.curLine).toNat := ⟨_, rfl⟩
    obtain ⟨st1, hst1⟩ : ∃ st1, st1 = st.newLines k := ⟨_, rfl⟩
    obtain ⟨d1, hd1⟩ : ∃ d1 : DState, d1 = if 0 < k then { d with genLine := d.genLine + k, genCol := 0 } else d :=
      ⟨_, rfl⟩
    obtain ⟨h1, h2, h3, h4, h5, h6⟩ := hR
    have hR1 : Rel st1 d1 := by
      by_cases hk : 0 < k
      · simp only [hst1, hd1, EncState.newLines, hk, if_true]
        exact ⟨by simp [h1], rfl, h3, h4, h5, h6⟩
      · simp only [hst1, hd1, EncState.newLines, hk, if_false]
        exact ⟨h1, h2, h3, h4, h5, h6⟩
    have hline : d1.genLine = m.genLine := by
      by_cases hk : 0 < k
      · simp only [hd1, hk, if_true, h1]; omega
      · simp only [hd1, hk, if_false, h1]; omega
    -- the decoder skips the semicolons and the comma
    have hskip : ∀ tail : Bytes,
        decodeFrom (List.replicate k 59 ++ (if st1.segs > 0 then [44] else []) ++ tail) d = decodeFrom tail d1 := by
      intro tail
      have hcomma : ∀ dd : DState, decodeFrom ((if st1.segs > 0 then [44] else []) ++ tail) dd = decodeFrom tail dd := by
        intro dd
        split
        · simp [decodeFrom_comma]
        · simp
      by_cases hk : 0 < k
      · rw [List.append_assoc, decodeFrom_semis k _ d hk, hcomma]
        simp [hd1, hk]
      · have hk0 : k = 0 := by omega
        rw [hk0]
        simp only [List.replicate_zero, List.nil_append]
        rw [hcomma]
        simp [hd1, hk0]
    obtain ⟨_, hc, hi, hsl, hsc, hnm⟩ := hR1
    unfold encodeFrom
    -- one segment
    have hstep : (encodeStep st m).1 ++ encodeFrom (encodeStep st m).2 ms
        = List.replicate k 59 ++ (if st1.segs > 0 then [44] else []) ++
          (encodeVLQ (m.genCol - st1.prevGenCol) ++ encodeVLQ 0 ++ encodeVLQ (m.srcLine - st1.prevSrcLine)
            ++ encodeVLQ (m.srcCol - st1.prevSrcCol)
            ++ (match m.name.map (fun i => ((i : Nat) : Int) - st1.prevName) with
                | some x => encodeVLQ x | none => [])
            ++ encodeFrom (encodeStep st m).2 ms) := by
      unfold encodeStep
      cases m.name <;> simp [hkdef, hst1, List.append_assoc]
    rw [hstep, hskip, decodeFrom_fields _ _ _ _ _ hsep]
    -- the state after the segment satisfies the relation again
    have hst2 : (encodeStep st m).2 =
        { st1 with prevGenCol := m.genCol, prevSrcLine := m.srcLine, prevSrcCol := m.srcCol,
                   prevName := (match m.name with | some i => (i : Int) | none => st1.prevName),
                   segs := st1.segs + 1 } := by
      unfold encodeStep
      cases m.name <;> simp [hkdef, hst1]
    have hcur1 : st1.curLine = m.genLine := by
      have := hcur; rw [hst2] at this; exact this
    have hR2 : Rel (encodeStep st m).2
        { d1 with genCol := d1.genCol + (m.genCol - st1.prevGenCol), srcIdx := d1.srcIdx + 0,
                  srcLine := d1.srcLine + (m.srcLine - st1.prevSrcLine),
                  srcCol := d1.srcCol + (m.srcCol - st1.prevSrcCol),
                  name := match m.name.map (fun i => ((i : Nat) : Int) - st1.prevName) with
                          | some x => d1.name + x | none => d1.name } := by
      rw [hst2]
      cases hn : m.name with
      | none =>
        refine ⟨?_, ?_, ?_, ?_, ?_, ?_⟩ <;> simp only [Option.map_none, hline, hc, hi, hsl, hsc, hnm, hcur1] <;> omega
      | some i =>
        refine ⟨?_, ?_, ?_, ?_, ?_, ?_⟩ <;> simp only [Option.map_some, hline, hc, hi, hsl, hsc, hnm, hcur1] <;> omega
    rw [ih _ _ hR2 (by rw [hcur]; exact hM')]
    simp only [List.map_cons, Option.bind_eq_bind, Option.bind_some, Option.some.injEq, List.cons.injEq, and_true]
    unfold Mapping.toSeg
    cases hn : m.name <;> simp [hline, hc, hi, hsl, hsc, hnm] <;> omega

end Xjs

namespace Xjs
open Xjs.Spec

/-! ## invariants of the builder over operation sequences -/

def lastLine (cur : Int) (ms : List Mapping) : Int :=
  match ms.getLast? with
  | some m => m.genLine
  | none => cur

theorem mono_snoc (cur : Int) (ms : List Mapping) (x : Mapping) :
    Mono cur (ms ++ [x]) ↔ Mono cur ms ∧ lastLine cur ms ≤ x.genLine := by
  induction ms generalizing cur with
  | nil => simp [Mono, lastLine]
  | cons m ms ih =>
    simp only [List.cons_append, Mono, ih]
    have : lastLine cur (m :: ms) = lastLine m.genLine ms := by
      unfold lastLine
      cases ms with
      | nil => simp
      | cons a t =>
        simp only [List.getLast?_cons_cons]
        have : (a :: t).getLast? = some ((a :: t).getLast (by simp)) := List.getLast?_eq_some_getLast (by simp)
        rw [this]
    rw [this]
    constructor
    · rintro ⟨h1, h2, h3⟩; exact ⟨⟨h1, h2⟩, h3⟩
    · rintro ⟨⟨h1, h2⟩, h3⟩; exact ⟨h1, h2, h3⟩

theorem lastLine_snoc (cur : Int) (ms : List Mapping) (x : Mapping) : lastLine cur (ms ++ [x]) = x.genLine := by
  simp [lastLine]

theorem advanceBytes_line_ge (s : Bytes) (p : Int × Int) : p.1 ≤ (advanceBytes s p).1 := by
  fun_induction advanceBytes s p <;> simp_all <;> omega

/-- invariant: recorded generated lines are non-decreasing and not beyond the current line -/
def MapperInv (m : Mapper) : Prop := Mono 0 m.mappings ∧ lastLine 0 m.mappings ≤ m.genLine

theorem mapperInv_new : MapperInv Mapper.new := by
  simp [MapperInv, Mapper.new, Mono, lastLine]

theorem mapperInv_step (m : Mapper) (op : MapOp) (h : MapperInv m) : MapperInv (m.step op) := by
  obtain ⟨h1, h2⟩ := h
  cases op with
  | map sl sc =>
    simp only [Mapper.step, Mapper.addMapping, MapperInv]
    exact ⟨(mono_snoc _ _ _).2 ⟨h1, h2⟩, by rw [lastLine_snoc]; exact Int.le_refl _⟩
  | named sl sc n =>
    simp only [Mapper.step, Mapper.addNamedMapping, MapperInv]
    split <;> exact ⟨(mono_snoc _ _ _).2 ⟨h1, h2⟩, by rw [lastLine_snoc]; exact Int.le_refl _⟩
  | advCol n => exact ⟨h1, h2⟩
  | advStr s =>
    simp only [Mapper.step, Mapper.advanceString, MapperInv]
    exact ⟨h1, Int.le_trans h2 (advanceBytes_line_ge s (m.genLine, m.genCol))⟩
  | advLine =>
    simp only [Mapper.step, Mapper.advanceLine, MapperInv]
    exact ⟨h1, by omega⟩

theorem mapperInv_foldl (ops : List MapOp) (m : Mapper) (h : MapperInv m) : MapperInv (ops.foldl Mapper.step m) := by
  induction ops generalizing m with
  | nil => exact h
  | cons op ops ih => exact ih _ (mapperInv_step m op h)

theorem mapperInv_run (ops : List MapOp) : MapperInv (Mapper.run ops) :=
  mapperInv_foldl ops _ mapperInv_new

/-! ## names -/

/-- names are distinct, and every name index stored in a mapping points into `names` -/
def NamesInv (m : Mapper) : Prop :=
  m.names.Nodup ∧ ∀ mp ∈ m.mappings, ∀ i, mp.name = some i → i < m.names.length

theorem nameIndexOf_some (names : List Bytes) (name : Bytes) (i : Nat) (h : nameIndexOf names name = some i) :
    i < names.length ∧ names[i]? = some name := by
  unfold nameIndexOf at h
  simp only at h
  split at h
  · rename_i hlt
    simp only [Option.some.injEq] at h
    subst h
    refine ⟨hlt, ?_⟩
    have := List.findIdx_getElem (w := hlt)
    simp only [beq_iff_eq] at this
    rw [List.getElem?_eq_getElem hlt, this]
  · exact absurd h (by simp)

theorem nameIndexOf_none (names : List Bytes) (name : Bytes) (h : nameIndexOf names name = none) : name ∉ names := by
  unfold nameIndexOf at h
  simp only at h
  split at h
  · exact absurd h (by simp)
  · rename_i hge
    intro hmem
    have : names.findIdx (· == name) < names.length := List.findIdx_lt_length_of_exists ⟨name, hmem, by simp⟩
    exact hge this

/-- the index returned for a name is that of its FIRST occurrence -/
theorem nameIndexOf_first (names : List Bytes) (name : Bytes) (i : Nat) (h : nameIndexOf names name = some i) :
    ∀ j, j < i → names[j]? ≠ some name := by
  unfold nameIndexOf at h
  simp only at h
  split at h
  · simp only [Option.some.injEq] at h
    subst h
    intro j hj hjn
    have hlt : j < names.length := by
      rcases Nat.lt_or_ge j names.length with h | h
      · exact h
      · rw [List.getElem?_eq_none h] at hjn; exact absurd hjn (by simp)
    have := List.not_of_lt_findIdx hj
    rw [List.getElem?_eq_getElem hlt] at hjn
    simp only [Option.some.injEq] at hjn
    simp [hjn] at this
  · exact absurd h (by simp)

end Xjs

namespace Xjs
open Xjs.Spec

/-! ## position tracking equals the counting specification -/

theorem countBreaks_of_none (s : Bytes) (h : afterLastBreak s = none) : countBreaks s = 0 := by
  induction s with
  | nil => rfl
  | cons c rest ih =>
    simp only [afterLastBreak] at h
    cases hr : afterLastBreak rest with
    | some t => simp [hr] at h
    | none =>
      simp only [hr] at h
      by_cases hb : endsBreak c rest = true
      · simp [hb] at h
      · simp only [countBreaks, hb, ih hr]; simp

theorem advanceBytes_spec (s : Bytes) (p : Int × Int) : advanceBytes s p = positionAfter s p := by
  unfold positionAfter
  fun_induction advanceBytes s p with
  | case1 p => simp [afterLastBreak]
  | case2 rest l c ih =>
    rw [ih]
    simp only [afterLastBreak, countBreaks, endsBreak]
    cases hr : afterLastBreak rest <;> simp [countBreaks_of_none, hr] <;> omega
  | case3 rest l c hne ih =>
    rw [ih]
    have hb : endsBreak 13 rest = true := by
      simp only [endsBreak]
      cases rest with
      | nil => simp
      | cons a t =>
        have : a ≠ 10 := by intro h; exact hne t (by rw [h])
        simp [this]
    simp only [afterLastBreak, countBreaks, hb]
    cases hr : afterLastBreak rest <;> simp [countBreaks_of_none, hr] <;> omega
  | case4 rest l c ih =>
    rw [ih]
    simp only [afterLastBreak, countBreaks, endsBreak]
    cases hr : afterLastBreak rest <;> simp [countBreaks_of_none, hr] <;> omega
  | case5 ch rest l c h1 h2 h3 ih =>
    rw [ih]
    have hb : endsBreak ch rest = false := by
      simp only [endsBreak]
      have h10 : ch ≠ 10 := fun h => h3 h
      have h13 : ch ≠ 13 := fun h => h2 h
      simp [h10, h13]
    simp only [afterLastBreak, countBreaks, hb]
    cases hr : afterLastBreak rest <;> simp [countBreaks_of_none, hr] <;> omega

end Xjs
