import XjsModel.Proofs.Lexer
/-
  Tiling: what lies between two tokens is whitespace and `//` comments only, the after-newline flag says whether that
  gap contains a line feed, and identifier / keyword / number tokens carry exactly the bytes they span.
-/
namespace Xjs.Tiling
open Xjs

/-- SPECIFICATION (trusted): a run of whitespace (space, tab, CR, LF) and `//` comments. A comment extends to the next
    line feed, which belongs to the run, or — as the last thing in the run — up to the end of the input or a NUL byte,
    which do not. -/
inductive TriviaRun : Bytes → Prop
  | nil : TriviaRun []
  | ws (c : Nat) (r : Bytes) : (c = 32 ∨ c = 9 ∨ c = 13 ∨ c = 10) → TriviaRun r → TriviaRun (c :: r)
  | commentLF (text r : Bytes) : (∀ c ∈ text, c ≠ 10 ∧ c ≠ 0) → TriviaRun r → TriviaRun (47 :: 47 :: (text ++ 10 :: r))
  | commentEnd (text : Bytes) : (∀ c ∈ text, c ≠ 10 ∧ c ≠ 0) → TriviaRun (47 :: 47 :: text)

/-- the rest of a comment whose `//` has been read -/
def CommentTail (b : Bytes) : Prop :=
  (∃ text r, b = text ++ 10 :: r ∧ (∀ c ∈ text, c ≠ 10 ∧ c ≠ 0) ∧ TriviaRun r) ∨ (∀ c ∈ b, c ≠ 10 ∧ c ≠ 0)

theorem run_of_tail {b : Bytes} (h : CommentTail b) : TriviaRun (47 :: 47 :: b) := by
  rcases h with ⟨text, r, rfl, ht, hr⟩ | h
  · exact .commentLF text r ht hr
  · exact .commentEnd b h

theorem tail_cons {c : Nat} {b : Bytes} (h10 : c ≠ 10) (h0 : c ≠ 0) (h : CommentTail b) : CommentTail (c :: b) := by
  rcases h with ⟨text, r, rfl, ht, hr⟩ | h
  · left; refine ⟨c :: text, r, rfl, ?_, hr⟩
    intro x hx; simp only [List.mem_cons] at hx
    rcases hx with rfl | hx
    · exact ⟨h10, h0⟩
    · exact ht x hx
  · right; intro x hx; simp only [List.mem_cons] at hx
    rcases hx with rfl | hx
    · exact ⟨h10, h0⟩
    · exact h x hx

/-! one step of `readLeadingComments` on each shape of input -/
theorem st_c_lf (r acc : Bytes) (t : Trivia) : scanTrivia (10 :: r) (some acc) t =
    scanTrivia r none { nl := true, comments := t.comments ++ [trimRightSpaces acc], len := t.len + 1 } := by
  rw [scanTrivia.eq_def]; simp
theorem st_c_nul (r acc : Bytes) (t : Trivia) : scanTrivia (0 :: r) (some acc) t =
    { t with comments := t.comments ++ [trimRightSpaces acc] } := by
  rw [scanTrivia.eq_def]; simp
theorem st_c_other (c : Nat) (r acc : Bytes) (t : Trivia) (h10 : c ≠ 10) (h0 : c ≠ 0) : scanTrivia (c :: r) (some acc) t =
    scanTrivia r (some (acc ++ [c])) { t with len := t.len + 1 } := by
  rw [scanTrivia.eq_def]; simp [h10, h0]
theorem st_n_lf (r : Bytes) (t : Trivia) : scanTrivia (10 :: r) none t =
    scanTrivia r none { nl := true, comments := t.comments ++ [[]], len := t.len + 1 } := by
  rw [scanTrivia.eq_def]; simp [isWs]
theorem st_n_ws (c : Nat) (r : Bytes) (t : Trivia) (hw : isWs c = true) (h10 : c ≠ 10) : scanTrivia (c :: r) none t =
    scanTrivia r none { t with len := t.len + 1 } := by
  rw [scanTrivia.eq_def]; simp [hw, h10]
theorem st_n_comment (r : Bytes) (t : Trivia) : scanTrivia (47 :: 47 :: r) none t =
    scanTrivia r (some []) { t with len := t.len + 2 } := by
  rw [scanTrivia.eq_def]; simp [isWs]
theorem st_n_slash1 (t : Trivia) : scanTrivia [47] none t = t := by
  rw [scanTrivia.eq_def]; simp [isWs]
theorem st_n_slash2 (c2 : Nat) (r : Bytes) (t : Trivia) (h : c2 ≠ 47) : scanTrivia (47 :: c2 :: r) none t = t := by
  rw [scanTrivia.eq_def]; simp [isWs, h]
theorem st_n_stop (c : Nat) (r : Bytes) (t : Trivia) (hw : isWs c = false) (h : c ≠ 47) : scanTrivia (c :: r) none t = t := by
  rw [scanTrivia.eq_def]; simp [hw, h]

/-- what `readLeadingComments` consumes, in either mode (between comments / inside a comment) -/
def TSpec (b : Bytes) (m : Option Bytes) (t : Trivia) : Prop :=
  ∃ k, k ≤ b.length ∧ (scanTrivia b m t).len = t.len + k ∧
    (match m with | none => TriviaRun (b.take k) | some _ => CommentTail (b.take k)) ∧
    (scanTrivia b m t).nl = (t.nl || (b.take k).contains 10)

theorem scanTrivia_spec : ∀ (n : Nat) (b : Bytes), b.length ≤ n → ∀ (m : Option Bytes) (t : Trivia), TSpec b m t := by
  intro n
  induction n with
  | zero =>
    intro b hb m t
    have : b = [] := List.eq_nil_of_length_eq_zero (by omega)
    subst this
    cases m with
    | none => exact ⟨0, Nat.le_refl _, rfl, .nil, by simp [scanTrivia]⟩
    | some acc => exact ⟨0, Nat.le_refl _, rfl, Or.inr (by simp), by simp [scanTrivia]⟩
  | succ n ih =>
    intro b hb m t
    cases b with
    | nil =>
      cases m with
      | none => exact ⟨0, Nat.le_refl _, rfl, .nil, by simp [scanTrivia]⟩
      | some acc => exact ⟨0, Nat.le_refl _, rfl, Or.inr (by simp), by simp [scanTrivia]⟩
    | cons c r =>
      have hr : r.length ≤ n := by simp at hb; omega
      cases m with
      | some acc =>
        by_cases h10 : c = 10
        · subst h10
          obtain ⟨k, hk, hl, hs, hn⟩ := ih r hr none { nl := true, comments := t.comments ++ [trimRightSpaces acc], len := t.len + 1 }
          refine ⟨k + 1, by simp; omega, ?_, ?_, ?_⟩
          · rw [st_c_lf, hl]; simp only; omega
          · left; exact ⟨[], r.take k, by simp, by simp, hs⟩
          · rw [st_c_lf, hn]; simp
        · by_cases h0 : c = 0
          · subst h0
            exact ⟨0, Nat.zero_le _, by rw [st_c_nul]; rfl, Or.inr (by simp), by rw [st_c_nul]; simp⟩
          · obtain ⟨k, hk, hl, hs, hn⟩ := ih r hr (some (acc ++ [c])) { t with len := t.len + 1 }
            refine ⟨k + 1, by simp; omega, ?_, ?_, ?_⟩
            · rw [st_c_other c r acc t h10 h0, hl]; simp only; omega
            · simp only [List.take_succ_cons]; exact tail_cons h10 h0 hs
            · rw [st_c_other c r acc t h10 h0, hn]
              have : ¬ (10 = c) := fun h => h10 h.symm
              simp [List.take_succ_cons, this]
      | none =>
        by_cases h10 : c = 10
        · subst h10
          obtain ⟨k, hk, hl, hs, hn⟩ := ih r hr none { nl := true, comments := t.comments ++ [[]], len := t.len + 1 }
          refine ⟨k + 1, by simp; omega, ?_, ?_, ?_⟩
          · rw [st_n_lf, hl]; simp only; omega
          · simp only [List.take_succ_cons]; exact .ws 10 _ (by simp) hs
          · rw [st_n_lf, hn]; simp
        · by_cases hw : isWs c = true
          · have hw' : c = 32 ∨ c = 9 ∨ c = 13 ∨ c = 10 := by
              unfold isWs at hw; simp only [Bool.or_eq_true, beq_iff_eq] at hw
              rcases hw with ((h | h) | h) | h
              · exact Or.inl h
              · exact Or.inr (Or.inl h)
              · exact Or.inr (Or.inr (Or.inr h))
              · exact Or.inr (Or.inr (Or.inl h))
            obtain ⟨k, hk, hl, hs, hn⟩ := ih r hr none { t with len := t.len + 1 }
            refine ⟨k + 1, by simp; omega, ?_, ?_, ?_⟩
            · rw [st_n_ws c r t hw h10, hl]; simp only; omega
            · simp only [List.take_succ_cons]; exact .ws c _ hw' hs
            · rw [st_n_ws c r t hw h10, hn]
              have : ¬ (10 = c) := fun h => h10 h.symm
              simp [List.take_succ_cons, this]
          · have hw' : isWs c = false := by simpa using hw
            by_cases h47 : c = 47
            · subst h47
              cases r with
              | nil => exact ⟨0, Nat.zero_le _, by rw [st_n_slash1]; rfl, .nil, by rw [st_n_slash1]; simp⟩
              | cons c2 r2 =>
                by_cases h2 : c2 = 47
                · subst h2
                  obtain ⟨k, hk, hl, hs, hn⟩ := ih r2 (by simp at hr; omega) (some []) { t with len := t.len + 2 }
                  refine ⟨k + 2, by simp; omega, ?_, ?_, ?_⟩
                  · rw [st_n_comment, hl]; simp only; omega
                  · simp only [List.take_succ_cons]; exact run_of_tail hs
                  · rw [st_n_comment, hn]; simp [List.take_succ_cons]
                · exact ⟨0, Nat.zero_le _, by rw [st_n_slash2 c2 r2 t h2]; rfl, .nil, by rw [st_n_slash2 c2 r2 t h2]; simp⟩
            · exact ⟨0, Nat.zero_le _, by rw [st_n_stop c r t hw' h47]; rfl, .nil, by rw [st_n_stop c r t hw' h47]; simp⟩

/-! ### the gap before a token -/

/-- what `NextToken` skips before the token is a run of whitespace and comments inside the input, and the token's
    after-newline flag says exactly whether that run contains a line feed -/
theorem gap_is_trivia (s : LS) :
    (trivia s.rest).len ≤ s.rest.length ∧ TriviaRun (s.rest.take (trivia s.rest).len) ∧
    (nextToken s).1.nl = (s.rest.take (trivia s.rest).len).contains 10 := by
  obtain ⟨k, hk, hl, hs, hn⟩ := scanTrivia_spec s.rest.length s.rest (Nat.le_refl _) none { nl := false, comments := [], len := 0 }
  have hlen : (trivia s.rest).len = k := by unfold trivia; rw [hl]; simp
  have hnl : (nextToken s).1.nl = (trivia s.rest).nl := by
    unfold nextToken; exact (baseNextToken_start _ _ _).2.2.1
  rw [hlen, hnl]
  refine ⟨hk, hs, ?_⟩
  unfold trivia; rw [hn]; simp

/-! ### the token itself -/

/-- the token types whose literal is the source text -/
def sliceTypes : List TokType :=
  [.ident, .int, .float, .function, .let_, .if_, .else_, .while_, .for_, .return_, .true_, .false_, .null]

theorem pair_ite {c : Prop} [Decidable c] {α} {a b : α} {P : α → Prop} (ha : P a) (hb : P b) : P (if c then a else b) := by
  split <;> assumption

theorem lookupIdent_slice (lit : Bytes) : lookupIdent lit ∈ sliceTypes := by
  unfold lookupIdent
  split
  · rename_i kv h
    have := List.mem_of_find?_eq_some h
    revert this
    simp only [keywordTable, List.mem_cons, List.not_mem_nil, or_false]
    rintro (h | h | h | h | h | h | h | h | h | h) <;> subst h <;> decide
  · decide

/-- identifier, keyword and number tokens carry exactly the bytes the cursor moved over -/
theorem literal_is_slice (nl : Bool) (cs : List Bytes) (s : LS) :
    (baseNextToken nl cs s).1.type ∈ sliceTypes →
      (baseNextToken nl cs s).1.lit ++ (baseNextToken nl cs s).2.rest = s.rest := by
  unfold baseNextToken
  simp only []
  repeat' (first
    | apply pair_ite (P := fun r : Token × LS => r.1.type ∈ sliceTypes → r.1.lit ++ r.2.rest = s.rest)
    | (intro h; simp only [mkTok] at h; first
        | exact absurd h (by decide)
        | (split at h <;> exact absurd h (by decide)))
    | (intro _; simp only [mkTok, readChars_rest, List.take_append_drop]))

def wordTypes : List TokType :=
  [.ident, .function, .let_, .if_, .else_, .while_, .for_, .return_, .true_, .false_, .null]

/-- a token of identifier or keyword type is classified by the keyword table applied to its own text -/
theorem word_is_classified (nl : Bool) (cs : List Bytes) (s : LS) :
    (baseNextToken nl cs s).1.type ∈ wordTypes →
      (baseNextToken nl cs s).1.type = lookupIdent (baseNextToken nl cs s).1.lit := by
  unfold baseNextToken
  simp only []
  repeat' (first
    | apply pair_ite (P := fun r : Token × LS => r.1.type ∈ wordTypes → r.1.type = lookupIdent r.1.lit)
    | (intro h; simp only [mkTok] at h; first
        | exact absurd h (by decide)
        | (split at h <;> exact absurd h (by decide)))
    | (intro _; rfl)
    | (intro h; exfalso; simp only [mkTok] at h
       rcases scanNumber_type s.rest with e | e <;> rw [e] at h <;> exact absurd h (by decide)))

/-- keywords are exactly the entries of the keyword table (which is re-extracted from /repo on every run) -/
theorem keyword_iff (lit : Bytes) (ty : TokType) (hty : ty ≠ .ident) :
    lookupIdent lit = ty ↔ ∃ kv ∈ keywordTable, kv.1 = lit ∧ kv.2 = ty := by
  unfold lookupIdent
  constructor
  · intro h
    split at h
    · rename_i kv hf
      exact ⟨kv, List.mem_of_find?_eq_some hf, by simpa using List.find?_some hf, h⟩
    · exact absurd h.symm hty
  · rintro ⟨kv, hm, h1, h2⟩
    -- the keys of the table are pairwise different, so the first match is the entry itself
    revert hm h1 h2
    simp only [keywordTable, List.mem_cons, List.not_mem_nil, or_false]
    rintro (h | h | h | h | h | h | h | h | h | h) h1 h2 <;> subst h <;> subst h1 <;> subst h2 <;> decide

/-- the end position recorded in a token is the position of a cursor state `e` reached from the start, and the
    cursor after the token is `e` itself or one byte further: the end lies on, or immediately after, the last byte -/
theorem end_is_cursor (nl : Bool) (cs : List Bytes) (s : LS) :
    ∃ e, Reach s e ∧ ((baseNextToken nl cs s).1.el, (baseNextToken nl cs s).1.ec) = (e.line, e.col) ∧
      ((baseNextToken nl cs s).2 = e ∨ (baseNextToken nl cs s).2 = readChar e) := by
  unfold baseNextToken
  simp only []
  repeat' (first
    | apply pair_ite (P := fun r : Token × LS => ∃ e, Reach s e ∧ (r.1.el, r.1.ec) = (e.line, e.col) ∧ (r.2 = e ∨ r.2 = readChar e))
    | exact ⟨s, reach_refl s, rfl, Or.inr rfl⟩
    | exact ⟨s, reach_refl s, rfl, Or.inl rfl⟩
    | exact ⟨readChar s, reach_readChar (reach_refl s), rfl, Or.inr rfl⟩
    | exact ⟨_, reach_readChars _ (reach_refl s), rfl, Or.inr rfl⟩
    | exact ⟨_, reach_readChars _ (reach_refl s), rfl, Or.inl rfl⟩)

end Xjs.Tiling
