import XjsModel.Proofs.ParserFrame
/-
  Totality of the parser, part 1: the measure and the per-step facts.

  The parser functions are defined with `partial_fixpoint`: "the function returns" is `(f x).isSome`.
  Measure: the number of tokens from the cursor on. `NextToken` shortens the list unless the cursor already stands
  on the last token; the lexer ends every token list with EOF (`EofEnd`), and every loop of the parser continues
  only on a token that is not EOF, so every loop iteration and every recursive descent strictly shortens the list.
-/
namespace Xjs.Total
open Xjs

/-- the token list ends with an EOF token (what the lexer delivers) -/
def EofEnd (st : PS) : Prop := ∃ pre e, st.toks = pre ++ [e] ∧ e.type = .eof

theorem EofEnd.len_pos {st : PS} (h : EofEnd st) : 1 ≤ st.toks.length := by
  obtain ⟨pre, e, ht, _⟩ := h; rw [ht]; simp

theorem EofEnd.of_toks {st st' : PS} (h : EofEnd st) (e : st'.toks = st.toks) : EofEnd st' := by
  obtain ⟨pre, x, ht, hx⟩ := h; exact ⟨pre, x, e.trans ht, hx⟩

theorem EofEnd.next {st : PS} (h : EofEnd st) : EofEnd st.next := by
  obtain ⟨pre, e, ht, he⟩ := h
  unfold PS.next
  cases pre with
  | nil =>
    simp only [List.nil_append] at ht
    rw [ht]; exact ⟨[], eofAgain e, rfl, he⟩
  | cons a pre' =>
    cases pre' with
    | nil => simp only [List.cons_append, List.nil_append] at ht; rw [ht]; exact ⟨[], e, rfl, he⟩
    | cons b pre'' =>
      simp only [List.cons_append] at ht; rw [ht]
      exact ⟨b :: pre'', e, by simp, he⟩

theorem EofEnd.cur {st : PS} (h : EofEnd st) (hc : st.cur.type ≠ .eof) : 2 ≤ st.toks.length := by
  obtain ⟨pre, e, ht, he⟩ := h
  cases pre with
  | nil => simp only [List.nil_append] at ht; exact absurd (by unfold PS.cur; rw [ht]; exact he) hc
  | cons a pre' => rw [ht]; simp

theorem EofEnd.peek {st : PS} (h : EofEnd st) (hc : st.peek.type ≠ .eof) : 2 ≤ st.toks.length := by
  obtain ⟨pre, e, ht, he⟩ := h
  cases pre with
  | nil => simp only [List.nil_append] at ht; exact absurd (by unfold PS.peek; rw [ht]; exact he) hc
  | cons a pre' => rw [ht]; simp

theorem next_len (st : PS) : st.next.toks.length ≤ st.toks.length ∧
    (2 ≤ st.toks.length → st.next.toks.length + 1 = st.toks.length) := by
  unfold PS.next; split <;> simp_all

theorem _root_.Xjs.Steps.eofEnd {s s' : PS} (h : Steps s s') : EofEnd s → EofEnd s' := by
  induction h with
  | refl => exact id
  | next _ ih => exact fun h => (ih h).next
  | addErr _ _ _ _ ih => exact fun h => (ih h).of_toks rfl
  | trace _ _ _ ih => exact fun h => (ih h).of_toks rfl
  | ctxBracket c _ _ ih1 ih2 => exact fun h => (ih2 ((ih1 h).of_toks rfl)).of_toks rfl
  | precBracket _ _ _ _ ih1 ih2 => exact fun h => (ih2 ((ih1 h).of_toks rfl)).of_toks rfl

/-- size bound: at most `k` tokens left, EOF-terminated -/
def M (k : Nat) (st : PS) : Prop := EofEnd st ∧ st.toks.length ≤ k

theorem M.mono {k k' : Nat} {st : PS} (h : M k st) (hk : k ≤ k') : M k' st := ⟨h.1, Nat.le_trans h.2 hk⟩

/-- after a successful `ExpectToken` (for a type other than EOF) the list is shorter -/
theorem expect_facts {ty : TokType} {st : PS} {ok : Bool} {st' : PS} (h : expectToken ty st = (ok, st'))
    (hty : ty ≠ .eof) (hE : EofEnd st) :
    EofEnd st' ∧ st'.toks.length ≤ st.toks.length ∧ (ok = true → st'.toks.length < st.toks.length ∧ st'.cur.type = ty) := by
  unfold expectToken at h
  split at h
  next hp =>
    cases h
    have hp' : st.peek.type = ty := by simpa using hp
    have h2 := hE.peek (by rw [hp']; exact hty)
    have := next_len st
    refine ⟨hE.next, this.1, fun _ => ⟨by omega, ?_⟩⟩
    rw [← hp']
    unfold PS.next PS.cur PS.peek
    split <;> simp_all
  next => cases h; exact ⟨hE.of_toks rfl, Nat.le_refl _, fun h => by cases h⟩

theorem semi_facts {cfg : PCfg} {st : PS} {ok : Bool} {st' : PS} (h : expectSemiASI cfg st = (ok, st')) (hE : EofEnd st) :
    EofEnd st' ∧ st'.toks.length ≤ st.toks.length := by
  have hs : Steps st st' := steps_expectSemi' h (.refl _)
  exact ⟨hs.eofEnd hE, hs.toks_length⟩

/-- sequencing: a sub-call that returns, followed by a continuation that returns on every smaller-or-equal state -/
theorem bind_ok {α β : Type} {f : Option (α × PS)} {s : PS} {k : α × PS → Option β}
    (hS : ∀ r, f = some r → Steps s r.2) (hE : EofEnd s) (h1 : f.isSome = true)
    (h2 : ∀ a s', EofEnd s' → s'.toks.length ≤ s.toks.length → (k (a, s')).isSome = true) : (f >>= k).isSome = true := by
  cases hf : f with
  | none => rw [hf] at h1; cases h1
  | some r =>
    obtain ⟨a, s'⟩ := r
    have := hS _ hf
    simp only [Option.bind_eq_bind, Option.bind_some]
    exact h2 a s' (this.eofEnd hE) this.toks_length

@[simp] theorem push_toks (s : PS) (c : Ctx) : (s.push c).toks = s.toks := rfl
@[simp] theorem pop_toks (s : PS) : s.pop.toks = s.toks := rfl
@[simp] theorem addError_toks (s : PS) (m : Bytes) : (s.addError m).toks = s.toks := rfl
@[simp] theorem addErrorAt_toks (s : PS) (m : Bytes) (t : Token) : (s.addErrorAt m t).toks = s.toks := rfl
@[simp] theorem push_cur (s : PS) (c : Ctx) : (s.push c).cur = s.cur := rfl
theorem EofEnd.push {s : PS} (h : EofEnd s) (c : Ctx) : EofEnd (s.push c) := h.of_toks rfl
theorem EofEnd.pop {s : PS} (h : EofEnd s) : EofEnd s.pop := h.of_toks rfl
theorem EofEnd.addError {s : PS} (h : EofEnd s) (m : Bytes) : EofEnd (s.addError m) := h.of_toks rfl

/-- what termination needs from the operator tables -/
structure TablesOk (cfg : PCfg) : Prop where
  /-- a token that can continue an expression has an infix parse function -/
  infix_of_prec : ∀ ty, 1 < precOf cfg ty → (lookup cfg.infixFns ty).isSome = true
  /-- binding powers start at LOWEST -/
  prec_pos : ∀ ty, 1 ≤ precOf cfg ty
  eof_no_infix : lookup cfg.infixFns .eof = none
  eof_no_prefix : lookup cfg.prefixFns .eof = none

theorem tablesOk_base (tolerant smart : Bool) (si : List SI) (ei : List EI) :
    TablesOk { tolerant := tolerant, smart := smart, stmtI := si, exprI := ei } := by
  refine ⟨?_, ?_, by show lookup baseInfixFns .eof = none; decide, by show lookup basePrefixFns .eof = none; decide⟩
  · intro ty
    show 1 < precOf { } ty → (lookup baseInfixFns ty).isSome = true
    cases ty <;> first | decide | simp [precOf, lookup, basePrecedences, LOWEST]
  · intro ty
    show 1 ≤ precOf { } ty
    cases ty <;> first | decide | simp [precOf, lookup, basePrecedences, LOWEST]

end Xjs.Total
