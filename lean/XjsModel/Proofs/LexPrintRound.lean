import XjsModel.Proofs.LexPrintAll
import XjsModel.Proofs.ParserPosProg
import XjsModel.Proofs.ParserTotalBuilder
import XjsModel.Props.C10
/-
  Print → lex → parse, end to end (compact mode): the three theorems put together —
    `compact_text_lexes4`   the compact text of a tree lexes to its printed tokens (keys, no line breaks, no comments),
    `pos_parseProgram`      parsing commutes with erasing token positions,
    `printed_program_round_trip`  the printed tokens parse back to the tree —
  and termination of the parser: compiling a tree and parsing the text gives the tree again, up to token positions.
-/
namespace Xjs.LP
open Xjs Xjs.RA

/-- a token that does not stand after a line break and carries no comment (what a programmatic tree carries, and
    what erasing the trivia of a parsed tree leaves); its position is arbitrary -/
def quietTok (t : Token) : Prop := t.nl = false ∧ t.comments = []

instance : DecidablePred quietTok := fun t => by unfold quietTok; infer_instance

theorem tokZ_of_key (l p : Token) (h : keyOf4 l = quietKey p) (hp : quietTok p) : Pos.tokZ l = Pos.tokZ p := by
  obtain ⟨h5, h6⟩ := hp
  simp only [keyOf4, quietKey, Prod.mk.injEq] at h
  obtain ⟨⟨ht, hl⟩, hn, hc⟩ := h
  cases l; cases p
  simp only [Pos.tokZ] at *
  subst ht hl hn hc h5 h6
  rfl

theorem map_tokZ_of_keys : ∀ (L Q : List Token), L.map keyOf4 = Q.map quietKey → (∀ q ∈ Q, quietTok q) →
    L.map Pos.tokZ = Q.map Pos.tokZ
  | [], [], _, _ => rfl
  | [], _ :: _, h, _ => by simp at h
  | _ :: _, [], h, _ => by simp at h
  | l :: L, q :: Q, h, hq => by
    simp only [List.map_cons, List.cons.injEq] at h
    simp only [List.map_cons, tokZ_of_key l q h.1 (hq q (by simp)), map_tokZ_of_keys L Q h.2 (fun x hx => hq x (by simp [hx]))]

theorem quiet_dummy : quietTok dummyTok := ⟨rfl, rfl⟩

theorem errZ_nil (es : List PErr) (h : es.map Pos.errZ = []) : es = [] := by
  cases es with
  | nil => rfl
  | cons e es => simp at h

/-- PRINT → LEX → PARSE: for every well-formed program tree with lexically sane tokens, none of which stands after a line
    break or carries a comment, in every parser mode: parsing the text that the compiler emits in compact mode returns —
    without any error — a tree that equals the original one up to the positions of its tokens -/
theorem compact_round_trip (tolerant smart : Bool) (ccfg : CompCfg) (hc : ccfg.pretty = false) (prog : SSList)
    (hw : prog.wf = true) (ht : prog.term = true) (hs : saneB prog) (hn : ∀ t ∈ prog.toks, quietTok t) :
    ∃ r, parseSource { tolerant := tolerant, smart := smart } (compile ccfg prog.tree).code = some r ∧
      Pos.stmtListZ r.prog = Pos.stmtListZ prog.tree ∧ r.errors = [] ∧ r.hasErr = false := by
  -- the parser returns on the lexed text
  obtain ⟨ts, e, h1, h2, _⟩ := Xjs.C10.lexAll_total (compile ccfg prog.tree).code
  obtain ⟨r, hr⟩ := Total.parseProgram_total (Total.tablesOk_base tolerant smart [] []) (lexAll (compile ccfg prog.tree).code) ⟨ts, e, h1, h2⟩
  refine ⟨r, hr, ?_⟩
  -- position-free, the lexed tokens are the printed tokens and an end marker
  have hk := compact_text_lexes4 ccfg hc prog hw ht hs
  have hL : (lexAll (compile ccfg prog.tree).code).map Pos.tokZ = (prog.toks ++ [dummyTok]).map Pos.tokZ := by
    apply map_tokZ_of_keys
    · rw [hk]; simp [quietKey, eofKey, dummyTok]
    · intro q hq
      rcases List.mem_append.1 hq with hq | hq
      · exact hn q hq
      · have : q = dummyTok := by simpa using hq
        rw [this]; exact quiet_dummy
  -- parsing commutes with erasing positions (on both token lists); the printed tokens parse back to the tree
  have hz := Pos.pos_parseProgram (cfg := { tolerant := tolerant, smart := smart }) _ r hr
  obtain ⟨r0, hr0, hp0, he0, hh0⟩ := printed_program_round_trip (cfg := { tolerant := tolerant, smart := smart })
    ⟨rfl, rfl, rfl, rfl, rfl⟩ prog hw ht dummyTok rfl
  have hz0 := Pos.pos_parseProgram (cfg := { tolerant := tolerant, smart := smart }) _ r0 hr0
  rw [hL, hz0] at hz
  have hh := Option.some.inj hz
  simp only [ParseResult.mk.injEq] at hh
  refine ⟨?_, ?_, ?_⟩
  · rw [← hh.1, hp0]
  · apply errZ_nil; rw [← hh.2.1, he0]; rfl
  · rw [← hh.2.2.1, hh0]

end Xjs.LP
