import XjsModel.Proofs.LexPrintAll
import XjsModel.Proofs.ParserPosProg
import XjsModel.Proofs.ParserTotalBuilder
import XjsModel.Props.C10
/-
  Print → lex → parse, end to end (compact mode): the three theorems put together —
    `compact_text_lexes4`   the compact text of a tree lexes to its printed tokens (keys, no line breaks, no comments),
    `pos_parseProgram`      parsing commutes with erasing token positions,
    `printed_program_round_trip`  the printed tokens parse back to the tree —
  and termination of the parser: compiling a tree and parsing the text gives the tree again, up to token positions.
-/
namespace Xjs.LP
open Xjs Xjs.RA

/-- a token without position, line-break flag and comments (what a programmatic tree carries, and what erasing the
    trivia of a parsed tree leaves) -/
def normalTok (t : Token) : Prop := t.sl = 0 ∧ t.sc = 0 ∧ t.el = 0 ∧ t.ec = 0 ∧ t.nl = false ∧ t.comments = []

instance : DecidablePred normalTok := fun t => by unfold normalTok; infer_instance

theorem tokZ_of_key (l p : Token) (h : keyOf4 l = quietKey p) (hp : normalTok p) : Pos.tokZ l = p := by
  obtain ⟨h1, h2, h3, h4, h5, h6⟩ := hp
  simp only [keyOf4, quietKey, Prod.mk.injEq] at h
  obtain ⟨⟨ht, hl⟩, hn, hc⟩ := h
  cases l; cases p
  simp only [Pos.tokZ] at *
  subst ht hl hn hc h1 h2 h3 h4 h5 h6
  rfl

theorem map_tokZ_of_keys : ∀ (L Q : List Token), L.map keyOf4 = Q.map quietKey → (∀ q ∈ Q, normalTok q) → L.map Pos.tokZ = Q
  | [], [], _, _ => rfl
  | [], _ :: _, h, _ => by simp at h
  | _ :: _, [], h, _ => by simp at h
  | l :: L, q :: Q, h, hq => by
    simp only [List.map_cons, List.cons.injEq] at h
    simp only [List.map_cons, tokZ_of_key l q h.1 (hq q (by simp)), map_tokZ_of_keys L Q h.2 (fun x hx => hq x (by simp [hx]))]

theorem normal_dummy : normalTok dummyTok := ⟨rfl, rfl, rfl, rfl, rfl, rfl⟩

/-- PRINT → LEX → PARSE: for every well-formed program tree with lexically sane, position-free tokens, in every parser
    mode: parsing the text that the compiler emits in compact mode returns — without any error — a tree that is the
    original one once its token positions are erased -/
theorem compact_round_trip (tolerant smart : Bool) (ccfg : CompCfg) (hc : ccfg.pretty = false) (prog : SSList)
    (hw : prog.wf = true) (ht : prog.term = true) (hs : saneB prog) (hn : ∀ t ∈ prog.toks, normalTok t) :
    ∃ r, parseSource { tolerant := tolerant, smart := smart } (compile ccfg prog.tree).code = some r ∧
      Pos.stmtListZ r.prog = prog.tree ∧ r.errors = [] ∧ r.hasErr = false := by
  -- the parser returns on the lexed text
  obtain ⟨ts, e, h1, h2, _⟩ := Xjs.C10.lexAll_total (compile ccfg prog.tree).code
  obtain ⟨r, hr⟩ := Total.parseProgram_total (Total.tablesOk_base tolerant smart [] []) (lexAll (compile ccfg prog.tree).code) ⟨ts, e, h1, h2⟩
  refine ⟨r, hr, ?_⟩
  -- the position-free lexed tokens are the printed tokens and an end marker
  have hk := compact_text_lexes4 ccfg hc prog hw ht hs
  have hL : (lexAll (compile ccfg prog.tree).code).map Pos.tokZ = prog.toks ++ [dummyTok] := by
    apply map_tokZ_of_keys
    · rw [hk]; simp [quietKey, eofKey, dummyTok]
    · intro q hq
      rcases List.mem_append.1 hq with hq | hq
      · exact hn q hq
      · have : q = dummyTok := by simpa using hq
        rw [this]; exact normal_dummy
  -- parsing commutes with erasing positions; the printed tokens parse back to the tree
  have hz := Pos.pos_parseProgram (cfg := { tolerant := tolerant, smart := smart }) _ r hr
  rw [hL] at hz
  obtain ⟨r0, hr0, hp0, he0, hh0⟩ := printed_program_round_trip (cfg := { tolerant := tolerant, smart := smart })
    ⟨rfl, rfl, rfl, rfl, rfl⟩ prog hw ht dummyTok rfl
  rw [hr0] at hz
  have := Option.some.inj hz
  rw [this] at hp0 he0 hh0
  simp only at hp0 he0 hh0
  exact ⟨hp0, by simpa using he0, hh0⟩

end Xjs.LP
