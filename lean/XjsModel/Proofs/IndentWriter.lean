import XjsModel.Proofs.Indent
/-
  Two writers that differ only in their indent string stay equivalent (`IndRel`) under every writer operation.
-/
namespace Xjs

/-- a tab (deferred indentation) is only ever pending behind a pending line feed -/
def PendShape (p : List Nat) : Prop :=
  p = [] ∨ p = [32] ∨ ∃ r, p = 10 :: r ∧ ∀ c ∈ r, c = 9 ∨ c = 32

structure IndRel (a b : CW) : Prop where
  pretty : a.pretty = b.pretty
  level : a.indentLevel = b.indentLevel
  semis : a.semis = b.semis
  pend : a.pendings = b.pendings
  ok : a.ok = b.ok
  mapA : a.mapper = none
  mapB : b.mapper = none
  out : Eqv a.out b.out
  wsA : AllWs a.indentUnit
  wsB : AllWs b.indentUnit
  shape : PendShape a.pendings

def CW.indentBytes (cw : CW) : Bytes := (List.replicate cw.indentLevel cw.indentUnit).flatten

def flushBytes (cw : CW) (l : List Nat) : Bytes := l.flatMap (fun c => if c == 9 then cw.indentBytes else [c])

theorem foldl_flushOne (l : List Nat) (cw : CW) :
    l.foldl CW.flushOne cw = { cw with out := cw.out ++ flushBytes cw l } := by
  induction l generalizing cw with
  | nil => simp [flushBytes]
  | cons c r ih =>
    simp only [List.foldl_cons]
    rw [ih]
    unfold CW.flushOne CW.rawIndent flushBytes CW.indentBytes CW.indentUnit
    split <;> simp_all [List.flatMap_cons]

theorem flushPending_eq (cw : CW) :
    cw.flushPending = { cw with out := cw.out ++ flushBytes cw cw.pendings, pendings := [] } := by
  unfold CW.flushPending; rw [foldl_flushOne]

theorem AllWs_indentBytes {cw : CW} (h : AllWs cw.indentUnit) : AllWs cw.indentBytes :=
  AllWs_replicate_flatten _ _ h

theorem AllWs_flushBytes_tail {cw : CW} (h : AllWs cw.indentUnit) (r : List Nat) (hr : ∀ c ∈ r, c = 9 ∨ c = 32) :
    AllWs (flushBytes cw r) := by
  intro c hc
  simp only [flushBytes, List.mem_flatMap] at hc
  obtain ⟨d, hd, hcd⟩ := hc
  rcases hr d hd with rfl | rfl
  · simp at hcd; exact AllWs_indentBytes h c hcd
  · simp at hcd; subst hcd; rfl

/-- flushing the pending white space keeps the two writers equivalent -/
theorem IndRel.flush {a b : CW} (h : IndRel a b) : IndRel a.flushPending b.flushPending := by
  rw [flushPending_eq, flushPending_eq]
  refine ⟨h.pretty, h.level, h.semis, rfl, h.ok, h.mapA, h.mapB, ?_, h.wsA, h.wsB, Or.inl rfl⟩
  simp only
  rw [← h.pend]
  rcases h.shape with hp | hp | ⟨r, hp, hr⟩
  · rw [hp]; simp [flushBytes]; exact h.out
  · rw [hp]; simp [flushBytes]; exact h.out.append [32]
  · rw [hp]
    have e1 : flushBytes a (10 :: r) = [10] ++ flushBytes a r := by simp [flushBytes, List.flatMap_cons]
    have e2 : flushBytes b (10 :: r) = [10] ++ flushBytes b r := by simp [flushBytes, List.flatMap_cons]
    rw [e1, e2, ← List.append_assoc, ← List.append_assoc]
    exact h.out.append_nl_ws _ _ (AllWs_flushBytes_tail h.wsA r hr) (AllWs_flushBytes_tail h.wsB r hr)

theorem IndRel.appendOut {a b : CW} (h : IndRel a b) (s : Bytes) :
    IndRel { a with out := a.out ++ s } { b with out := b.out ++ s } :=
  ⟨h.pretty, h.level, h.semis, h.pend, h.ok, h.mapA, h.mapB, h.out.append s, h.wsA, h.wsB, h.shape⟩

theorem mapAdvance_none {cw : CW} (h : cw.mapper = none) (f : Mapper → Mapper) : cw.mapAdvance f = cw := by
  unfold CW.mapAdvance; rw [h]

theorem IndRel.writeString {a b : CW} (h : IndRel a b) (s : Bytes) : IndRel (a.writeString s) (b.writeString s) := by
  unfold CW.writeString
  have hf := h.flush
  have := hf.appendOut s
  rw [mapAdvance_none (by exact hf.mapA), mapAdvance_none (by exact hf.mapB)]
  exact this

theorem IndRel.writeRune {a b : CW} (h : IndRel a b) (r : Nat) : IndRel (a.writeRune r) (b.writeRune r) := by
  unfold CW.writeRune
  have hf := h.flush
  have := hf.appendOut [r]
  rw [mapAdvance_none (by exact hf.mapA), mapAdvance_none (by exact hf.mapB)]
  exact this

theorem IndRel.panic {a b : CW} (h : IndRel a b) : IndRel a.panic b.panic :=
  ⟨h.pretty, h.level, h.semis, h.pend, rfl, h.mapA, h.mapB, h.out, h.wsA, h.wsB, h.shape⟩

theorem IndRel.writeSemi {a b : CW} (h : IndRel a b) : IndRel a.writeSemi b.writeSemi := by
  unfold CW.writeSemi
  rw [← h.pretty, ← h.semis]
  split
  · exact h.writeRune 59
  · split
    · exact h.writeRune 59
    · exact h

theorem IndRel.separateSigns {a b : CW} (h : IndRel a b) (op : Bytes) : IndRel (a.separateSigns op) (b.separateSigns op) := by
  unfold CW.separateSigns
  cases op with
  | nil => exact h
  | cons c r =>
    simp only
    split
    · exact h
    · rename_i hc
      have hf := h.flush
      have hsign : c ≠ 10 ∧ isWs c = false := by
        simp only [Bool.and_eq_true, bne_iff_ne, ne_eq, not_and, Decidable.not_not] at hc
        by_cases h43 : c = 43
        · subst h43; decide
        · have := hc h43; subst this; decide
      rw [hf.out.last_sign c hsign]
      split
      · exact hf.writeRune 32
      · exact hf

theorem IndRel.increaseIndent {a b : CW} (h : IndRel a b) : IndRel a.increaseIndent b.increaseIndent := by
  unfold CW.increaseIndent; rw [← h.pretty]; split
  · exact h
  · exact ⟨by simp, by simp [h.level], h.semis, h.pend, h.ok, h.mapA, h.mapB, h.out, h.wsA, h.wsB, h.shape⟩
theorem IndRel.decreaseIndent {a b : CW} (h : IndRel a b) : IndRel a.decreaseIndent b.decreaseIndent := by
  unfold CW.decreaseIndent; rw [← h.pretty]; split
  · exact h
  · exact ⟨by simp, by simp [h.level], h.semis, h.pend, h.ok, h.mapA, h.mapB, h.out, h.wsA, h.wsB, h.shape⟩

theorem IndRel.writeNewline {a b : CW} (h : IndRel a b) : IndRel a.writeNewline b.writeNewline := by
  unfold CW.writeNewline; rw [← h.pretty]; split
  · exact h
  · exact ⟨by simp, h.level, h.semis, rfl, h.ok, h.mapA, h.mapB, h.out, h.wsA, h.wsB, Or.inr (Or.inr ⟨[], rfl, by simp⟩)⟩

theorem IndRel.writeSpace {a b : CW} (h : IndRel a b) : IndRel a.writeSpace b.writeSpace := by
  unfold CW.writeSpace; rw [← h.pretty, ← h.pend]; split
  · exact h
  · split
    · exact h
    · refine ⟨by simp, h.level, h.semis, by simp [h.pend], h.ok, h.mapA, h.mapB, h.out, h.wsA, h.wsB, ?_⟩
      rename_i hl
      rcases h.shape with hp | hp | ⟨r, hp, hr⟩
      · rw [hp]; exact Or.inr (Or.inl rfl)
      · rw [hp] at hl; simp at hl
      · rw [hp]
        refine Or.inr (Or.inr ⟨r ++ [32], by simp, ?_⟩)
        intro c hc; simp only [List.mem_append, List.mem_singleton] at hc
        rcases hc with hc | rfl
        · exact hr c hc
        · exact Or.inr rfl

/-- deferred indentation is requested only behind a pending line feed -/
def PendNL (cw : CW) : Prop := cw.pretty = true → cw.pendings.head? = some 10

theorem IndRel.writeIndent {a b : CW} (h : IndRel a b) (hn : PendNL a) : IndRel a.writeIndent b.writeIndent := by
  unfold CW.writeIndent; rw [← h.pretty, ← h.pend]; split
  · exact h
  · rename_i hp
    have hpt : a.pretty = true := by simpa using hp
    split
    · exact h
    · refine ⟨by simp, h.level, h.semis, by simp [h.pend], h.ok, h.mapA, h.mapB, h.out, h.wsA, h.wsB, ?_⟩
      have hh := hn hpt
      rcases h.shape with hs | hs | ⟨r, hs, hr⟩
      · rw [hs] at hh; simp at hh
      · rw [hs] at hh; simp at hh
      · rw [hs]
        refine Or.inr (Or.inr ⟨r ++ [9], by simp, ?_⟩)
        intro c hc; simp only [List.mem_append, List.mem_singleton] at hc
        rcases hc with hc | rfl
        · exact hr c hc
        · exact Or.inl rfl

theorem IndRel.rawIndent_nl {a b : CW} (h : IndRel a b) :
    IndRel ({ a with out := a.out ++ [10] }).rawIndent ({ b with out := b.out ++ [10] }).rawIndent := by
  unfold CW.rawIndent
  refine ⟨h.pretty, h.level, h.semis, h.pend, h.ok, h.mapA, h.mapB, ?_, h.wsA, h.wsB, h.shape⟩
  exact h.out.append_nl_ws _ _ (AllWs_indentBytes h.wsA) (AllWs_indentBytes h.wsB)

theorem commentsLoop_pretty (cs : List Bytes) (f : Bool) (cw : CW) : (cw.commentsLoop cs f).pretty = cw.pretty := by
  induction cs generalizing f cw with
  | nil => rfl
  | cons c r ih => simp only [CW.commentsLoop]; rw [ih]; split <;> (try split) <;> rfl

theorem IndRel.commentsLoop {a b : CW} (cs : List Bytes) (first : Bool) (h : IndRel a b) :
    IndRel (a.commentsLoop cs first) (b.commentsLoop cs first) := by
  induction cs generalizing a b first with
  | nil => exact h
  | cons c rest ih =>
    simp only [CW.commentsLoop]
    apply ih
    by_cases hf : first = true
    · subst hf
      simp only [if_true]
      by_cases hc : (!c.isEmpty) = true
      · simp only [hc, if_true]
        exact (((h.appendOut [32]).appendOut [47, 47]).appendOut c)
      · simp only [hc]
        exact h.appendOut c
    · have hf' : first = false := by simpa using hf
      subst hf'
      simp only [Bool.false_eq_true, if_false]
      have h1 := h.rawIndent_nl
      by_cases hc : (!c.isEmpty) = true
      · simp only [hc, if_true]
        exact (h1.appendOut [47, 47]).appendOut c
      · simp only [hc]
        exact h1.appendOut c

theorem IndRel.leadingComments {a b : CW} (h : IndRel a b) (cs : List Bytes) :
    IndRel (a.leadingComments cs) (b.leadingComments cs) := by
  unfold CW.leadingComments
  rw [← h.pretty]
  split
  · exact h
  · rename_i hc
    have hpt : a.pretty = true := by
      simp only [Bool.or_eq_true, Bool.not_eq_true', not_or] at hc; simpa using hc.1
    have h1 := IndRel.commentsLoop cs true h
    have h2 : IndRel ({ a.commentsLoop cs true with pendings := [], clog := (a.commentsLoop cs true).clog ++ cs })
        ({ b.commentsLoop cs true with pendings := [], clog := (b.commentsLoop cs true).clog ++ cs }) :=
      ⟨h1.pretty, h1.level, h1.semis, rfl, h1.ok, h1.mapA, h1.mapB, h1.out, h1.wsA, h1.wsB, Or.inl rfl⟩
    have h3 := h2.writeNewline
    refine h3.writeIndent ?_
    intro _
    have hp1 : (a.commentsLoop cs true).pretty = true := by rw [commentsLoop_pretty]; exact hpt
    simp [CW.writeNewline, hp1]

/-- what `leadingComments` leaves pending: nothing new, or `[line feed, indent]` -/
theorem leadingComments_pendNL {cw : CW} (cs : List Bytes) (h : PendNL cw) : PendNL (cw.leadingComments cs) := by
  unfold CW.leadingComments
  split
  · exact h
  · rename_i hc
    have hpt : cw.pretty = true := by
      simp only [Bool.or_eq_true, Bool.not_eq_true', not_or] at hc; simpa using hc.1
    intro _
    simp [CW.writeIndent, CW.writeNewline, commentsLoop_pretty, hpt]

theorem IndRel.addMapping {a b : CW} (h : IndRel a b) (x y : Nat) : IndRel (a.addMapping x y) (b.addMapping x y) := by
  unfold CW.addMapping; rw [mapAdvance_none h.mapA, mapAdvance_none h.mapB]; exact h
theorem IndRel.addNamedMapping {a b : CW} (h : IndRel a b) (x y : Nat) (n : Bytes) :
    IndRel (a.addNamedMapping x y n) (b.addNamedMapping x y n) := by
  unfold CW.addNamedMapping; rw [mapAdvance_none h.mapA, mapAdvance_none h.mapB]; exact h
theorem IndRel.head {a b : CW} (h : IndRel a b) (t : Token) : IndRel (a.head t) (b.head t) := by
  unfold CW.head; exact (h.leadingComments _).addMapping _ _
theorem IndRel.openIf {a b : CW} (h : IndRel a b) (x : Bool) : IndRel (a.openIf x) (b.openIf x) := by
  unfold CW.openIf; split; exact h.writeRune 40; exact h
theorem IndRel.closeIf {a b : CW} (h : IndRel a b) (x : Bool) : IndRel (a.closeIf x) (b.closeIf x) := by
  unfold CW.closeIf; split; exact h.writeRune 41; exact h
theorem IndRel.sepIf {a b : CW} (h : IndRel a b) (x : Bool) : IndRel (a.sepIf x) (b.sepIf x) := by
  unfold CW.sepIf; split; exact h; exact (h.writeRune 44).writeSpace
theorem IndRel.newlineIf {a b : CW} (h : IndRel a b) (x : Bool) : IndRel (a.newlineIf x) (b.newlineIf x) := by
  unfold CW.newlineIf; split; exact h; exact h.writeNewline
theorem IndRel.writeIdent {a b : CW} (h : IndRel a b) (id : Ident) : IndRel (writeIdent id a) (writeIdent id b) := by
  unfold Xjs.writeIdent; exact ((h.leadingComments _).addNamedMapping _ _ _).writeString _
theorem IndRel.writeParams {a b : CW} (ps : List Ident) (f : Bool) (h : IndRel a b) :
    IndRel (Xjs.writeParams ps f a) (Xjs.writeParams ps f b) := by
  induction ps generalizing f a b with
  | nil => exact h
  | cons p rest ih => simp only [Xjs.writeParams]; exact ih _ ((h.sepIf f).writeIdent p)

end Xjs
