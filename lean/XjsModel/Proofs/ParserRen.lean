import XjsModel.Proofs.ParserFrame
/-
  Renaming operator tokens (C05): the parser looks at an operator token's type only through its tables. If `f` maps
  every token type to one with the same table entries (binding power, prefix role, infix role) and moves only
  operator-like types, then parsing commutes with `f`.
-/
namespace Xjs.Ren
open Xjs

/-- token types the parser never tests for directly: registered (dynamic) types and the built-in operators that occur
    only in the tables -/
def movable : TokType → Bool
  | .dyn _ => true
  | .plus | .minus | .multiply | .divide | .modulo | .eq | .notEq | .lt | .gt | .lte | .gte | .and | .or | .not => true
  | _ => false

structure Renaming (cfg : PCfg) where
  f : TokType → TokType
  moves : ∀ t, f t ≠ t → movable t = true ∧ movable (f t) = true
  precs : ∀ t, lookup cfg.precs (f t) = lookup cfg.precs t
  prefixFns : ∀ t, lookup cfg.prefixFns (f t) = lookup cfg.prefixFns t
  infixFns : ∀ t, lookup cfg.infixFns (f t) = lookup cfg.infixFns t

variable {cfg : PCfg} (ρ : Renaming cfg)

theorem Renaming.eq_const (c : TokType) (hc : movable c = false) (t : TokType) : (ρ.f t == c) = (t == c) := by
  by_cases h : ρ.f t = t
  · rw [h]
  · have hm := ρ.moves t h
    have h1 : ρ.f t ≠ c := by intro e; rw [e, hc] at hm; cases hm.2
    have h2 : t ≠ c := by intro e; rw [e, hc] at hm; cases hm.1
    have a : (ρ.f t == c) = false := by simpa using h1
    have b : (t == c) = false := by simpa using h2
    rw [a, b]


theorem Renaming.eq_const_iff (c : TokType) (hc : movable c = false) (t : TokType) : ρ.f t = c ↔ t = c := by
  have := ρ.eq_const c hc t
  constructor
  · intro h; have h' : (ρ.f t == c) = true := by simpa using h
    rw [this] at h'; simpa using h'
  · intro h; have h' : (t == c) = true := by simpa using h
    rw [← this] at h'; simpa using h'
theorem eqc_semicolon (t : TokType) : ρ.f t = .semicolon ↔ t = .semicolon := ρ.eq_const_iff _ rfl t
theorem eqc_eof (t : TokType) : ρ.f t = .eof ↔ t = .eof := ρ.eq_const_iff _ rfl t
theorem eqc_rbrace (t : TokType) : ρ.f t = .rbrace ↔ t = .rbrace := ρ.eq_const_iff _ rfl t
theorem eqc_rparen (t : TokType) : ρ.f t = .rparen ↔ t = .rparen := ρ.eq_const_iff _ rfl t
theorem eqc_lparen (t : TokType) : ρ.f t = .lparen ↔ t = .lparen := ρ.eq_const_iff _ rfl t
theorem eqc_lbracket (t : TokType) : ρ.f t = .lbracket ↔ t = .lbracket := ρ.eq_const_iff _ rfl t
theorem eqc_comma (t : TokType) : ρ.f t = .comma ↔ t = .comma := ρ.eq_const_iff _ rfl t
theorem eqc_colon (t : TokType) : ρ.f t = .colon ↔ t = .colon := ρ.eq_const_iff _ rfl t
theorem eqc_assign (t : TokType) : ρ.f t = .assign ↔ t = .assign := ρ.eq_const_iff _ rfl t
theorem eqc_else_ (t : TokType) : ρ.f t = .else_ ↔ t = .else_ := ρ.eq_const_iff _ rfl t
theorem eqc_ident (t : TokType) : ρ.f t = .ident ↔ t = .ident := ρ.eq_const_iff _ rfl t
theorem eqc_let_ (t : TokType) : ρ.f t = .let_ ↔ t = .let_ := ρ.eq_const_iff _ rfl t
theorem eqc_function (t : TokType) : ρ.f t = .function ↔ t = .function := ρ.eq_const_iff _ rfl t
theorem eqc_return_ (t : TokType) : ρ.f t = .return_ ↔ t = .return_ := ρ.eq_const_iff _ rfl t
theorem eqc_if_ (t : TokType) : ρ.f t = .if_ ↔ t = .if_ := ρ.eq_const_iff _ rfl t
theorem eqc_while_ (t : TokType) : ρ.f t = .while_ ↔ t = .while_ := ρ.eq_const_iff _ rfl t
theorem eqc_for_ (t : TokType) : ρ.f t = .for_ ↔ t = .for_ := ρ.eq_const_iff _ rfl t
theorem eqc_lbrace (t : TokType) : ρ.f t = .lbrace ↔ t = .lbrace := ρ.eq_const_iff _ rfl t
theorem eqc_rbracket (t : TokType) : ρ.f t = .rbracket ↔ t = .rbracket := ρ.eq_const_iff _ rfl t
theorem eqc_plusAssign (t : TokType) : ρ.f t = .plusAssign ↔ t = .plusAssign := ρ.eq_const_iff _ rfl t
theorem eqc_minusAssign (t : TokType) : ρ.f t = .minusAssign ↔ t = .minusAssign := ρ.eq_const_iff _ rfl t
theorem eqc_increment (t : TokType) : ρ.f t = .increment ↔ t = .increment := ρ.eq_const_iff _ rfl t
theorem eqc_decrement (t : TokType) : ρ.f t = .decrement ↔ t = .decrement := ρ.eq_const_iff _ rfl t
theorem eqc_true_ (t : TokType) : ρ.f t = .true_ ↔ t = .true_ := ρ.eq_const_iff _ rfl t

def tokR (t : Token) : Token := { t with type := ρ.f t.type }

@[simp] theorem tokR_type (t : Token) : (tokR ρ t).type = ρ.f t.type := rfl
@[simp] theorem tokR_lit (t : Token) : (tokR ρ t).lit = t.lit := rfl
@[simp] theorem tokR_nl (t : Token) : (tokR ρ t).nl = t.nl := rfl

def identR (i : Ident) : Ident := { i with tok := tokR ρ i.tok }

mutual
  def exprR : Expr → Expr
    | .none => .none
    | .ident id => .ident (identR ρ id)
    | .int t => .int (tokR ρ t)
    | .float t => .float (tokR ρ t)
    | .str t v => .str (tokR ρ t) v
    | .raw t v => .raw (tokR ρ t) v
    | .bool t v => .bool (tokR ρ t) v
    | .null t => .null (tokR ρ t)
    | .letE t n v => .letE (tokR ρ t) (identR ρ n) (exprR v)
    | .binary t l op r => .binary (tokR ρ t) (exprR l) op (exprR r)
    | .unary t op r => .unary (tokR ρ t) op (exprR r)
    | .postfix t l op => .postfix (tokR ρ t) (exprR l) op
    | .group t e rp => .group (tokR ρ t) (exprR e) (tokR ρ rp)
    | .call t f args => .call (tokR ρ t) (exprR f) (exprListR args)
    | .member t o p c => .member (tokR ρ t) (exprR o) (exprR p) c
    | .assign t l v => .assign (tokR ρ t) (exprR l) (exprR v)
    | .compound t l op v => .compound (tokR ρ t) (exprR l) op (exprR v)
    | .func t name ps body => .func (tokR ρ t) (name.map (identR ρ)) (ps.map (identR ρ)) (stmtR body)
    | .array t es rb => .array (tokR ρ t) (exprListR es) (tokR ρ rb)
    | .object t ps rb => .object (tokR ρ t) (propListR ps) (tokR ρ rb)
  def stmtR : Stmt → Stmt
    | .none => .none
    | .letS t n v => .letS (tokR ρ t) (identR ρ n) (exprR v)
    | .ret t v => .ret (tokR ρ t) (exprR v)
    | .exprS e => .exprS (exprR e)
    | .funcD t n ps body => .funcD (tokR ρ t) (identR ρ n) (ps.map (identR ρ)) (stmtR body)
    | .block t ss rb => .block (tokR ρ t) (stmtListR ss) (tokR ρ rb)
    | .ifS t c a b => .ifS (tokR ρ t) (exprR c) (stmtR a) (stmtR b)
    | .whileS t c b => .whileS (tokR ρ t) (exprR c) (stmtR b)
    | .forS t i c u b => .forS (tokR ρ t) (exprR i) (exprR c) (exprR u) (stmtR b)
  def exprListR : ExprList → ExprList
    | .nil => .nil
    | .cons e t => .cons (exprR e) (exprListR t)
  def stmtListR : StmtList → StmtList
    | .nil => .nil
    | .cons s t => .cons (stmtR s) (stmtListR t)
  def propListR : PropList → PropList
    | .nil => .nil
    | .cons k v t => .cons (exprR k) (exprR v) (propListR t)
end

def eventR (e : Event) : Event := { e with cur := tokR ρ e.cur }

/-- the parser state over the renamed token list -/
def psR (st : PS) : PS :=
  { st with toks := st.toks.map (tokR ρ), trace := st.trace.map (eventR ρ), consumed := st.consumed.map ρ.f }

theorem Renaming.fix (c : TokType) (hc : movable c = false) : ρ.f c = c := by
  by_cases h : ρ.f c = c
  · exact h
  · have := (ρ.moves c h).1; rw [hc] at this; cases this

@[simp] theorem tokR_dummy : tokR ρ dummyTok = dummyTok := by
  unfold tokR dummyTok; simp [ρ.fix .eof rfl]

@[simp] theorem tokR_zero : tokR ρ zeroTok = zeroTok := by
  unfold tokR zeroTok; simp [ρ.fix .illegal rfl]

@[simp] theorem tokR_eofAgain (t : Token) : tokR ρ (eofAgain t) = eofAgain (tokR ρ t) := rfl

@[simp] theorem psR_toks (st : PS) : (psR ρ st).toks = st.toks.map (tokR ρ) := rfl
@[simp] theorem psR_errors (st : PS) : (psR ρ st).errors = st.errors := rfl
@[simp] theorem psR_ctx (st : PS) : (psR ρ st).ctx = st.ctx := rfl
@[simp] theorem psR_curPrec (st : PS) : (psR ρ st).curPrec = st.curPrec := rfl

@[simp] theorem psR_cur (st : PS) : (psR ρ st).cur = tokR ρ st.cur := by
  unfold PS.cur; simp only [psR_toks]
  cases st.toks <;> simp

@[simp] theorem psR_peek (st : PS) : (psR ρ st).peek = tokR ρ st.peek := by
  unfold PS.peek; simp only [psR_toks]
  match st.toks with
  | [] => simp
  | [a] => simp
  | a :: b :: r => simp

theorem psR_next (st : PS) : (psR ρ st).next = psR ρ st.next := by
  unfold PS.next
  simp only [psR_toks]
  match h : st.toks with
  | [] => simp [psR, h, ρ.fix .eof rfl, dummyTok]
  | [a] => simp [psR, h]
  | a :: b :: r => simp [psR, h]

theorem psR_addErrorAt (st : PS) (m : Bytes) (t : Token) : (psR ρ st).addErrorAt m (tokR ρ t) = psR ρ (st.addErrorAt m t) := rfl
theorem psR_addError (st : PS) (m : Bytes) : (psR ρ st).addError m = psR ρ (st.addError m) := by
  unfold PS.addError; rw [psR_cur, psR_addErrorAt]
theorem psR_push (st : PS) (c : Ctx) : (psR ρ st).push c = psR ρ (st.push c) := rfl
theorem psR_pop (st : PS) : (psR ρ st).pop = psR ρ st.pop := rfl

@[simp] theorem psR_peek_type_const (st : PS) (c : TokType) (hc : movable c = false) :
    ((psR ρ st).peek.type == c) = (st.peek.type == c) := by
  rw [psR_peek, tokR_type, ρ.eq_const c hc]

@[simp] theorem psR_cur_type_const (st : PS) (c : TokType) (hc : movable c = false) :
    ((psR ρ st).cur.type == c) = (st.cur.type == c) := by
  rw [psR_cur, tokR_type, ρ.eq_const c hc]

theorem psR_expectToken (ty : TokType) (hty : movable ty = false) (st : PS) :
    expectToken ty (psR ρ st) = ((expectToken ty st).1, psR ρ (expectToken ty st).2) := by
  unfold expectToken
  rw [psR_peek_type_const ρ st ty hty]
  split
  · simp [psR_next]
  · simp only [psR_peek]; rw [psR_addErrorAt]


theorem et_ident (st : PS) : expectToken .ident (psR ρ st) = ((expectToken .ident st).1, psR ρ (expectToken .ident st).2) := psR_expectToken ρ _ rfl st
theorem et_lparen (st : PS) : expectToken .lparen (psR ρ st) = ((expectToken .lparen st).1, psR ρ (expectToken .lparen st).2) := psR_expectToken ρ _ rfl st
theorem et_rparen (st : PS) : expectToken .rparen (psR ρ st) = ((expectToken .rparen st).1, psR ρ (expectToken .rparen st).2) := psR_expectToken ρ _ rfl st
theorem et_lbrace (st : PS) : expectToken .lbrace (psR ρ st) = ((expectToken .lbrace st).1, psR ρ (expectToken .lbrace st).2) := psR_expectToken ρ _ rfl st
theorem et_rbrace (st : PS) : expectToken .rbrace (psR ρ st) = ((expectToken .rbrace st).1, psR ρ (expectToken .rbrace st).2) := psR_expectToken ρ _ rfl st
theorem et_colon (st : PS) : expectToken .colon (psR ρ st) = ((expectToken .colon st).1, psR ρ (expectToken .colon st).2) := psR_expectToken ρ _ rfl st
theorem et_semicolon (st : PS) : expectToken .semicolon (psR ρ st) = ((expectToken .semicolon st).1, psR ρ (expectToken .semicolon st).2) := psR_expectToken ρ _ rfl st
theorem et_rbracket (st : PS) : expectToken .rbracket (psR ρ st) = ((expectToken .rbracket st).1, psR ρ (expectToken .rbracket st).2) := psR_expectToken ρ _ rfl st
theorem eqb_true (t : TokType) : (ρ.f t == .true_) = (t == .true_) := ρ.eq_const _ rfl t
theorem eqb_plusAssign (t : TokType) : (ρ.f t == .plusAssign) = (t == .plusAssign) := ρ.eq_const _ rfl t
theorem eqb_minusAssign (t : TokType) : (ρ.f t == .minusAssign) = (t == .minusAssign) := ρ.eq_const _ rfl t

theorem psR_shouldInsert (st : PS) : shouldInsertSemicolon (psR ρ st) = shouldInsertSemicolon st := by
  unfold shouldInsertSemicolon
  rw [psR_peek_type_const ρ st .eof rfl, psR_peek_type_const ρ st .rbrace rfl]
  simp only [psR_peek, tokR_nl, tokR_type]
  congr 3
  unfold asiContinuation
  simp only [List.contains_cons, List.contains_nil, Bool.or_false]
  rw [show (ρ.f st.peek.type == TokType.minusAssign) = (st.peek.type == TokType.minusAssign) from ρ.eq_const _ rfl _]

theorem psR_expectSemi (st : PS) :
    expectSemiASI cfg (psR ρ st) = ((expectSemiASI cfg st).1, psR ρ (expectSemiASI cfg st).2) := by
  unfold expectSemiASI
  rw [psR_peek_type_const ρ st .semicolon rfl, psR_shouldInsert]
  split
  · simp [psR_next]
  · split
    · rfl
    · split
      · rfl
      · simp only [psR_peek]; rw [psR_addErrorAt]

@[simp] theorem precOf_ren (t : TokType) : precOf cfg (ρ.f t) = precOf cfg t := by
  unfold precOf; rw [ρ.precs]

@[simp] theorem peekPrec_ren (st : PS) : peekPrecedence cfg (psR ρ st) = peekPrecedence cfg st := by
  unfold peekPrecedence; rw [psR_peek, tokR_type, precOf_ren]
@[simp] theorem curPrec_ren (st : PS) : curPrecedence cfg (psR ρ st) = curPrecedence cfg st := by
  unfold curPrecedence; rw [psR_cur, tokR_type, precOf_ren]

@[simp] theorem identOfCur_ren (st : PS) : identOfCur (psR ρ st) = identR ρ (identOfCur st) := by
  unfold identOfCur identR; simp

theorem exprR_isNone (e : Expr) : (exprR ρ e).isNone = e.isNone := by cases e <;> simp [exprR, Expr.isNone]
theorem stmtR_isNone (s : Stmt) : (stmtR ρ s).isNone = s.isNone := by cases s <;> simp [stmtR, Stmt.isNone]

theorem exprListR_snoc : ∀ (l : ExprList) (e : Expr), exprListR ρ (l.snoc e) = (exprListR ρ l).snoc (exprR ρ e)
  | .nil, e => by simp [ExprList.snoc, exprListR]
  | .cons x t, e => by simp [ExprList.snoc, exprListR, exprListR_snoc t e]
theorem stmtListR_snoc : ∀ (l : StmtList) (e : Stmt), stmtListR ρ (l.snoc e) = (stmtListR ρ l).snoc (stmtR ρ e)
  | .nil, e => by simp [StmtList.snoc, stmtListR]
  | .cons x t, e => by simp [StmtList.snoc, stmtListR, stmtListR_snoc t e]
theorem propListR_snoc : ∀ (l : PropList) (k v : Expr), propListR ρ (l.snoc k v) = (propListR ρ l).snoc (exprR ρ k) (exprR ρ v)
  | .nil, k, v => by simp [PropList.snoc, propListR]
  | .cons a b t, k, v => by simp [PropList.snoc, propListR, propListR_snoc t k v]

theorem psR_event (st : PS) (b : Bool) (id : Nat) : (psR ρ st).event b id = eventR ρ (st.event b id) := by
  unfold PS.event eventR; simp [PS.isInFunction, PS.currentContext]

end Xjs.Ren
