import XjsModel.Proofs.PrinterCompact
import XjsModel.Spec.Comments
import XjsModel.Spec.TreeShape
/-
  The comment inventory of the pretty printer (C15): the comment entries handed to `WriteLeadingComments`, in order,
  are exactly the comment entries of the tree's tokens in source order — each one once, none invented, none dropped.
  (`clog` is a ghost field of the writer model; what `WriteLeadingComments` does with an entry is `commentsLoop`:
  the entry's text is appended verbatim behind `//`.)
-/
namespace Xjs

@[simp] theorem clog_mapAdvance (cw : CW) (f : Mapper → Mapper) : (cw.mapAdvance f).clog = cw.clog := by
  unfold CW.mapAdvance; split <;> rfl
@[simp] theorem clog_panic (cw : CW) : cw.panic.clog = cw.clog := rfl
@[simp] theorem clog_rawIndent (cw : CW) : cw.rawIndent.clog = cw.clog := rfl
theorem clog_flushOne (cw : CW) (ch : Nat) : (cw.flushOne ch).clog = cw.clog := by
  unfold CW.flushOne; split <;> rfl
theorem clog_foldl_flushOne (l : List Nat) (cw : CW) : (l.foldl CW.flushOne cw).clog = cw.clog := by
  induction l generalizing cw with
  | nil => rfl
  | cons a l ih => simp [List.foldl_cons, ih, clog_flushOne]
@[simp] theorem clog_flushPending (cw : CW) : cw.flushPending.clog = cw.clog := by
  unfold CW.flushPending; simp [clog_foldl_flushOne]
@[simp] theorem clog_writeString (cw : CW) (s : Bytes) : (cw.writeString s).clog = cw.clog := by
  unfold CW.writeString; simp
@[simp] theorem clog_writeRune (cw : CW) (r : Nat) : (cw.writeRune r).clog = cw.clog := by
  unfold CW.writeRune; simp
@[simp] theorem clog_writeSemi (cw : CW) : cw.writeSemi.clog = cw.clog := by
  unfold CW.writeSemi; split <;> (try split) <;> simp
@[simp] theorem clog_separateSigns (cw : CW) (op : Bytes) : (cw.separateSigns op).clog = cw.clog := by
  unfold CW.separateSigns
  split
  · rfl
  · split
    · rfl
    · simp only []
      split <;> simp
@[simp] theorem clog_increaseIndent (cw : CW) : cw.increaseIndent.clog = cw.clog := by
  unfold CW.increaseIndent; split <;> rfl
@[simp] theorem clog_decreaseIndent (cw : CW) : cw.decreaseIndent.clog = cw.clog := by
  unfold CW.decreaseIndent; split <;> rfl
@[simp] theorem clog_writeIndent (cw : CW) : cw.writeIndent.clog = cw.clog := by
  unfold CW.writeIndent; split <;> (try split) <;> rfl
@[simp] theorem clog_writeNewline (cw : CW) : cw.writeNewline.clog = cw.clog := by
  unfold CW.writeNewline; split <;> rfl
@[simp] theorem clog_writeSpace (cw : CW) : cw.writeSpace.clog = cw.clog := by
  unfold CW.writeSpace; split <;> (try split) <;> rfl
@[simp] theorem clog_addMapping (cw : CW) (a b : Nat) : (cw.addMapping a b).clog = cw.clog := by simp [CW.addMapping]
@[simp] theorem clog_addNamedMapping (cw : CW) (a b : Nat) (n : Bytes) : (cw.addNamedMapping a b n).clog = cw.clog := by
  simp [CW.addNamedMapping]
theorem clog_commentsLoop (cs : List Bytes) (first : Bool) (cw : CW) : (cw.commentsLoop cs first).clog = cw.clog := by
  induction cs generalizing cw first with
  | nil => rfl
  | cons c rest ih =>
    simp only [CW.commentsLoop]
    rw [ih]
    split <;> (try split) <;> (try split) <;> rfl

/-- what `WriteLeadingComments` records in pretty mode: exactly the entries it was given -/
theorem clog_leadingComments (cw : CW) (cs : List Bytes) (hp : cw.pretty = true) : (cw.leadingComments cs).clog = cw.clog ++ cs := by
  unfold CW.leadingComments
  by_cases he : cs.isEmpty = true
  · have : cs = [] := List.isEmpty_iff.mp he
    simp [hp, this]
  · simp [hp, he, clog_commentsLoop]

/-- … and in compact mode nothing -/
theorem clog_leadingComments_compact (cw : CW) (cs : List Bytes) (hp : cw.pretty = false) : (cw.leadingComments cs).clog = cw.clog := by
  unfold CW.leadingComments; simp [hp]

theorem clog_head (cw : CW) (t : Token) (hp : cw.pretty = true) : (cw.head t).clog = cw.clog ++ t.comments := by
  unfold CW.head; simp [clog_leadingComments cw _ hp]

@[simp] theorem clog_sepIf (cw : CW) (b : Bool) : (cw.sepIf b).clog = cw.clog := by unfold CW.sepIf; split <;> simp
@[simp] theorem clog_newlineIf (cw : CW) (b : Bool) : (cw.newlineIf b).clog = cw.clog := by unfold CW.newlineIf; split <;> simp

theorem clog_writeIdent (id : Ident) (cw : CW) (hp : cw.pretty = true) : (writeIdent id cw).clog = cw.clog ++ identCmts id := by
  unfold writeIdent identCmts; simp [clog_leadingComments cw _ hp]

theorem clog_writeParams (ps : List Ident) (first : Bool) (cw : CW) (hp : cw.pretty = true) :
    (writeParams ps first cw).clog = cw.clog ++ identsCmts ps := by
  induction ps generalizing cw first with
  | nil => simp [writeParams, identsCmts]
  | cons p rest ih =>
    simp only [writeParams]
    rw [ih _ _ (by simp [hp]), clog_writeIdent _ _ (by simp [hp])]
    simp [identsCmts]

theorem Expr.cmts_of_isNone {e : Expr} (h : e.isNone = true) : e.cmts = [] := by
  cases e <;> simp_all [Expr.isNone, Expr.cmts]
theorem Stmt.cmts_of_isNone {s : Stmt} (h : s.isNone = true) : s.cmts = [] := by
  cases s <;> simp_all [Stmt.isNone, Stmt.cmts]

@[simp] theorem clog_openIf (cw : CW) (b : Bool) : (cw.openIf b).clog = cw.clog := by unfold CW.openIf; split <;> simp
@[simp] theorem clog_closeIf (cw : CW) (b : Bool) : (cw.closeIf b).clog = cw.clog := by unfold CW.closeIf; split <;> simp

mutual
  /-- in pretty mode the printer hands the comment entries of a complete tree to `WriteLeadingComments` exactly once
      each, in source order -/
  theorem clog_writeExpr : ∀ (e : Expr) (cw : CW), cw.pretty = true → e.complete = true →
      (writeExpr e cw).clog = cw.clog ++ e.cmts
    | .none, cw, _, hc => by simp [Expr.complete] at hc
    | .ident id, cw, hp, _ => by simp [writeExpr, Expr.cmts, clog_writeIdent _ _ hp]
    | .int tok, cw, hp, _ => by simp [writeExpr, Expr.cmts, clog_head _ _ hp]
    | .float tok, cw, hp, _ => by simp [writeExpr, Expr.cmts, clog_head _ _ hp]
    | .str tok v, cw, hp, _ => by simp [writeExpr, Expr.cmts, clog_head _ _ hp]
    | .raw tok v, cw, hp, _ => by simp [writeExpr, Expr.cmts, clog_head _ _ hp]
    | .bool tok b, cw, hp, _ => by simp [writeExpr, Expr.cmts, clog_head _ _ hp]
    | .null tok, cw, hp, _ => by simp [writeExpr, Expr.cmts, clog_head _ _ hp]
    | .letE tok name v, cw, hp, hc => by
      simp only [Expr.complete, Bool.or_eq_true] at hc
      simp only [writeExpr, Expr.cmts]
      split
      · rename_i hn; simp [Expr.cmts_of_isNone hn, clog_head, clog_leadingComments, clog_writeIdent, clog_writeParams, clog_openIf, clog_closeIf, pretty_writeExpr, pretty_writeStmt, pretty_writeExprList, pretty_writeProps, pretty_writeBlockStmts, hp, List.append_assoc]
      · rename_i hn
        have hv : v.complete = true := by rcases hc with h | h; exact absurd h hn; exact h
        simp [clog_writeExpr v _ _ hv, clog_head, clog_leadingComments, clog_writeIdent, clog_writeParams, clog_openIf, clog_closeIf, pretty_writeExpr, pretty_writeStmt, pretty_writeExprList, pretty_writeProps, pretty_writeBlockStmts, hp, List.append_assoc]
    | .binary tok l op r, cw, hp, hc => by
      simp only [Expr.complete, Bool.and_eq_true] at hc
      simp [writeExpr, Expr.cmts, Expr.complete_not_none hc.1, Expr.complete_not_none hc.2, clog_writeExpr l _ _ hc.1,
        clog_writeExpr r _ _ hc.2, clog_head, clog_leadingComments, clog_writeIdent, clog_writeParams, clog_openIf, clog_closeIf, pretty_writeExpr, pretty_writeStmt, pretty_writeExprList, pretty_writeProps, pretty_writeBlockStmts, hp, List.append_assoc]
    | .unary tok op r, cw, hp, hc => by
      simp only [Expr.complete] at hc
      simp only [writeExpr, Expr.cmts, Expr.complete_not_none hc, Bool.false_eq_true, if_false]
      split <;> simp [clog_writeExpr r _ _ hc, clog_head, clog_leadingComments, clog_writeIdent, clog_writeParams, clog_openIf, clog_closeIf, pretty_writeExpr, pretty_writeStmt, pretty_writeExprList, pretty_writeProps, pretty_writeBlockStmts, hp, List.append_assoc]
    | .postfix tok l op, cw, hp, hc => by
      simp only [Expr.complete] at hc
      simp [writeExpr, Expr.cmts, Expr.complete_not_none hc, clog_writeExpr l _ _ hc, clog_head, clog_leadingComments, clog_writeIdent, clog_writeParams, clog_openIf, clog_closeIf, pretty_writeExpr, pretty_writeStmt, pretty_writeExprList, pretty_writeProps, pretty_writeBlockStmts, hp, List.append_assoc]
    | .group tok e rp, cw, hp, hc => by
      simp only [Expr.complete] at hc
      simp [writeExpr, Expr.cmts, clog_writeExpr e _ _ hc, clog_head, clog_leadingComments, clog_writeIdent, clog_writeParams, clog_openIf, clog_closeIf, pretty_writeExpr, pretty_writeStmt, pretty_writeExprList, pretty_writeProps, pretty_writeBlockStmts, hp, List.append_assoc]
    | .call tok fn args, cw, hp, hc => by
      simp only [Expr.complete, Bool.and_eq_true] at hc
      simp [writeExpr, Expr.cmts, clog_writeExpr fn _ _ hc.1, clog_writeExprList args _ _ _ hc.2, clog_head, clog_leadingComments, clog_writeIdent, clog_writeParams, clog_openIf, clog_closeIf, pretty_writeExpr, pretty_writeStmt, pretty_writeExprList, pretty_writeProps, pretty_writeBlockStmts, hp, List.append_assoc]
    | .member tok obj prop c, cw, hp, hc => by
      simp only [Expr.complete, Bool.and_eq_true] at hc
      simp only [writeExpr, Expr.cmts]
      split
      · simp [clog_writeExpr obj _ _ hc.1, clog_writeExpr prop _ _ hc.2, clog_head, clog_leadingComments, clog_writeIdent, clog_writeParams, clog_openIf, clog_closeIf, pretty_writeExpr, pretty_writeStmt, pretty_writeExprList, pretty_writeProps, pretty_writeBlockStmts, hp, List.append_assoc]
      · split <;> simp [clog_writeExpr obj _ _ hc.1, clog_writeExpr prop _ _ hc.2, clog_head, clog_leadingComments, clog_writeIdent, clog_writeParams, clog_openIf, clog_closeIf, pretty_writeExpr, pretty_writeStmt, pretty_writeExprList, pretty_writeProps, pretty_writeBlockStmts, hp, List.append_assoc]
    | .assign tok l v, cw, hp, hc => by
      simp only [Expr.complete, Bool.and_eq_true] at hc
      simp [writeExpr, Expr.cmts, clog_writeExpr l _ _ hc.1, clog_writeExpr v _ _ hc.2, clog_head, clog_leadingComments, clog_writeIdent, clog_writeParams, clog_openIf, clog_closeIf, pretty_writeExpr, pretty_writeStmt, pretty_writeExprList, pretty_writeProps, pretty_writeBlockStmts, hp, List.append_assoc]
    | .compound tok l op v, cw, hp, hc => by
      simp only [Expr.complete, Bool.and_eq_true] at hc
      simp [writeExpr, Expr.cmts, clog_writeExpr l _ _ hc.1, clog_writeExpr v _ _ hc.2, clog_head, clog_leadingComments, clog_writeIdent, clog_writeParams, clog_openIf, clog_closeIf, pretty_writeExpr, pretty_writeStmt, pretty_writeExprList, pretty_writeProps, pretty_writeBlockStmts, hp, List.append_assoc]
    | .func tok name params body, cw, hp, hc => by
      simp only [Expr.complete] at hc
      cases name <;> simp [writeExpr, Expr.cmts, clog_writeStmt body _ _ hc, clog_head, clog_leadingComments, clog_writeIdent, clog_writeParams, clog_openIf, clog_closeIf, pretty_writeExpr, pretty_writeStmt, pretty_writeExprList, pretty_writeProps, pretty_writeBlockStmts, hp, List.append_assoc]
    | .array tok elems rb, cw, hp, hc => by
      simp only [Expr.complete] at hc
      simp [writeExpr, Expr.cmts, clog_writeExprList elems _ _ _ hc, clog_head, clog_leadingComments, clog_writeIdent, clog_writeParams, clog_openIf, clog_closeIf, pretty_writeExpr, pretty_writeStmt, pretty_writeExprList, pretty_writeProps, pretty_writeBlockStmts, hp, List.append_assoc]
    | .object tok props rb, cw, hp, hc => by
      simp only [Expr.complete] at hc
      simp [writeExpr, Expr.cmts, clog_writeProps props _ _ _ hc, clog_head, clog_leadingComments, clog_writeIdent, clog_writeParams, clog_openIf, clog_closeIf, pretty_writeExpr, pretty_writeStmt, pretty_writeExprList, pretty_writeProps, pretty_writeBlockStmts, hp, List.append_assoc]
  theorem clog_writeExprList : ∀ (es : ExprList) (first : Bool) (cw : CW), cw.pretty = true → es.complete = true →
      (writeExprList es first cw).clog = cw.clog ++ es.cmts
    | .nil, _, cw, _, _ => by simp [writeExprList, ExprList.cmts]
    | .cons e rest, first, cw, hp, hc => by
      simp only [ExprList.complete, Bool.and_eq_true] at hc
      simp [writeExprList, ExprList.cmts, clog_writeExprList rest _ _ _ hc.2, clog_writeExpr e _ _ hc.1, clog_head, clog_leadingComments, clog_writeIdent, clog_writeParams, clog_openIf, clog_closeIf, pretty_writeExpr, pretty_writeStmt, pretty_writeExprList, pretty_writeProps, pretty_writeBlockStmts, hp, List.append_assoc]
  theorem clog_writeProps : ∀ (ps : PropList) (first : Bool) (cw : CW), cw.pretty = true → ps.complete = true →
      (writeProps ps first cw).clog = cw.clog ++ ps.cmts
    | .nil, _, cw, _, _ => by simp [writeProps, PropList.cmts]
    | .cons k v rest, first, cw, hp, hc => by
      simp only [PropList.complete, Bool.and_eq_true] at hc
      simp [writeProps, PropList.cmts, clog_writeProps rest _ _ _ hc.2, clog_writeExpr v _ _ hc.1.2, clog_writeExpr k _ _ hc.1.1, clog_head, clog_leadingComments, clog_writeIdent, clog_writeParams, clog_openIf, clog_closeIf, pretty_writeExpr, pretty_writeStmt, pretty_writeExprList, pretty_writeProps, pretty_writeBlockStmts, hp, List.append_assoc]
  theorem clog_writeStmt : ∀ (s : Stmt) (cw : CW), cw.pretty = true → s.complete = true →
      (writeStmt s cw).clog = cw.clog ++ s.cmts
    | .none, cw, _, hc => by simp [Stmt.complete] at hc
    | .letS tok name v, cw, hp, hc => by
      simp only [Stmt.complete, Bool.or_eq_true] at hc
      simp only [writeStmt, Stmt.cmts]
      split
      · rename_i hn; simp [Expr.cmts_of_isNone hn, clog_head, clog_leadingComments, clog_writeIdent, clog_writeParams, clog_openIf, clog_closeIf, pretty_writeExpr, pretty_writeStmt, pretty_writeExprList, pretty_writeProps, pretty_writeBlockStmts, hp, List.append_assoc]
      · rename_i hn
        have hv : v.complete = true := by rcases hc with h | h; exact absurd h hn; exact h
        simp [clog_writeExpr v _ _ hv, clog_head, clog_leadingComments, clog_writeIdent, clog_writeParams, clog_openIf, clog_closeIf, pretty_writeExpr, pretty_writeStmt, pretty_writeExprList, pretty_writeProps, pretty_writeBlockStmts, hp, List.append_assoc]
    | .ret tok v, cw, hp, hc => by
      simp only [Stmt.complete, Bool.or_eq_true] at hc
      simp only [writeStmt, Stmt.cmts]
      split
      · rename_i hn; simp [Expr.cmts_of_isNone hn, clog_head, clog_leadingComments, clog_writeIdent, clog_writeParams, clog_openIf, clog_closeIf, pretty_writeExpr, pretty_writeStmt, pretty_writeExprList, pretty_writeProps, pretty_writeBlockStmts, hp, List.append_assoc]
      · rename_i hn
        have hv : v.complete = true := by rcases hc with h | h; exact absurd h hn; exact h
        simp [clog_writeExpr v _ _ hv, clog_head, clog_leadingComments, clog_writeIdent, clog_writeParams, clog_openIf, clog_closeIf, pretty_writeExpr, pretty_writeStmt, pretty_writeExprList, pretty_writeProps, pretty_writeBlockStmts, hp, List.append_assoc]
    | .exprS e, cw, hp, hc => by
      simp only [Stmt.complete] at hc
      simp [writeStmt, Stmt.cmts, Expr.complete_not_none hc, clog_writeExpr e _ _ hc, clog_head, clog_leadingComments, clog_writeIdent, clog_writeParams, clog_openIf, clog_closeIf, pretty_writeExpr, pretty_writeStmt, pretty_writeExprList, pretty_writeProps, pretty_writeBlockStmts, hp, List.append_assoc]
    | .funcD tok name params body, cw, hp, hc => by
      simp only [Stmt.complete] at hc
      simp [writeStmt, Stmt.cmts, clog_writeStmt body _ _ hc, clog_head, clog_leadingComments, clog_writeIdent, clog_writeParams, clog_openIf, clog_closeIf, pretty_writeExpr, pretty_writeStmt, pretty_writeExprList, pretty_writeProps, pretty_writeBlockStmts, hp, List.append_assoc]
    | .block tok stmts rb, cw, hp, hc => by
      simp only [Stmt.complete] at hc
      simp [writeStmt, Stmt.cmts, clog_writeBlockStmts stmts _ _ _ hc, clog_head, clog_leadingComments, clog_writeIdent, clog_writeParams, clog_openIf, clog_closeIf, pretty_writeExpr, pretty_writeStmt, pretty_writeExprList, pretty_writeProps, pretty_writeBlockStmts, hp, List.append_assoc]
    | .ifS tok c a b, cw, hp, hc => by
      simp only [Stmt.complete, Bool.and_eq_true, Bool.or_eq_true] at hc
      simp only [writeStmt, Stmt.cmts]
      split
      · rename_i hn; simp [Stmt.cmts_of_isNone hn, clog_writeExpr c _ _ hc.1.1, clog_writeStmt a _ _ hc.1.2, clog_head, clog_leadingComments, clog_writeIdent, clog_writeParams, clog_openIf, clog_closeIf, pretty_writeExpr, pretty_writeStmt, pretty_writeExprList, pretty_writeProps, pretty_writeBlockStmts, hp, List.append_assoc]
      · rename_i hn
        have hb : b.complete = true := by rcases hc.2 with h | h; exact absurd h hn; exact h
        simp [clog_writeExpr c _ _ hc.1.1, clog_writeStmt a _ _ hc.1.2, clog_writeStmt b _ _ hb, clog_head, clog_leadingComments, clog_writeIdent, clog_writeParams, clog_openIf, clog_closeIf, pretty_writeExpr, pretty_writeStmt, pretty_writeExprList, pretty_writeProps, pretty_writeBlockStmts, hp, List.append_assoc]
    | .whileS tok c b, cw, hp, hc => by
      simp only [Stmt.complete, Bool.and_eq_true] at hc
      simp [writeStmt, Stmt.cmts, clog_writeExpr c _ _ hc.1, clog_writeStmt b _ _ hc.2, clog_head, clog_leadingComments, clog_writeIdent, clog_writeParams, clog_openIf, clog_closeIf, pretty_writeExpr, pretty_writeStmt, pretty_writeExprList, pretty_writeProps, pretty_writeBlockStmts, hp, List.append_assoc]
    | .forS tok i c u b, cw, hp, hc => by
      simp only [Stmt.complete, Bool.and_eq_true, Bool.or_eq_true] at hc
      obtain ⟨⟨⟨hi, hcc⟩, hu⟩, hb⟩ := hc
      have opt : ∀ (e : Expr), (e.isNone = true ∨ e.complete = true) →
          (∀ cw : CW, cw.pretty = true → (writeExpr e cw).clog = cw.clog ++ e.cmts) →
          ∀ cw : CW, cw.pretty = true → (if e.isNone = true then cw else writeExpr e cw).clog = cw.clog ++ e.cmts := by
        intro e _ h cw hp
        split
        · rename_i hn; simp [Expr.cmts_of_isNone hn]
        · exact h cw hp
      have optp : ∀ (e : Expr) (cw : CW), (if e.isNone = true then cw else writeExpr e cw).pretty = cw.pretty := by
        intro e cw; split <;> simp [pretty_writeExpr]
      have Hi := opt i hi (fun cw hp => by
        by_cases hn : i.isNone = true
        · cases i <;> simp [Expr.isNone] at hn; simp [writeExpr, Expr.cmts]
        · exact clog_writeExpr i cw hp (by rcases hi with h | h; exact absurd h hn; exact h))
      have Hc := opt c hcc (fun cw hp => by
        by_cases hn : c.isNone = true
        · cases c <;> simp [Expr.isNone] at hn; simp [writeExpr, Expr.cmts]
        · exact clog_writeExpr c cw hp (by rcases hcc with h | h; exact absurd h hn; exact h))
      have Hu := opt u hu (fun cw hp => by
        by_cases hn : u.isNone = true
        · cases u <;> simp [Expr.isNone] at hn; simp [writeExpr, Expr.cmts]
        · exact clog_writeExpr u cw hp (by rcases hu with h | h; exact absurd h hn; exact h))
      simp [writeStmt, Stmt.cmts, Hi, Hc, Hu, optp, clog_writeStmt b _ _ hb, clog_head, clog_leadingComments, clog_writeIdent, clog_writeParams, clog_openIf, clog_closeIf, pretty_writeExpr, pretty_writeStmt, pretty_writeExprList, pretty_writeProps, pretty_writeBlockStmts, hp, List.append_assoc]
  theorem clog_writeBlockStmts : ∀ (ss : StmtList) (first : Bool) (cw : CW), cw.pretty = true → ss.complete = true →
      (writeBlockStmts ss first cw).clog = cw.clog ++ ss.cmts
    | .nil, _, cw, _, _ => by simp [writeBlockStmts, StmtList.cmts]
    | .cons s rest, first, cw, hp, hc => by
      simp only [StmtList.complete, Bool.and_eq_true] at hc
      simp [writeBlockStmts, StmtList.cmts, clog_writeBlockStmts rest _ _ _ hc.2, clog_writeStmt s _ _ hc.1, clog_head, clog_leadingComments, clog_writeIdent, clog_writeParams, clog_openIf, clog_closeIf, pretty_writeExpr, pretty_writeStmt, pretty_writeExprList, pretty_writeProps, pretty_writeBlockStmts, hp, List.append_assoc]
  theorem clog_writeProgramStmts : ∀ (ss : StmtList) (first : Bool) (cw : CW), cw.pretty = true → ss.complete = true →
      (writeProgramStmts ss first cw).clog = cw.clog ++ ss.cmts
    | .nil, _, cw, _, _ => by simp [writeProgramStmts, StmtList.cmts]
    | .cons s rest, first, cw, hp, hc => by
      simp only [StmtList.complete, Bool.and_eq_true] at hc
      simp [writeProgramStmts, StmtList.cmts, clog_writeProgramStmts rest _ _ _ hc.2, clog_writeStmt s _ _ hc.1, clog_head, clog_leadingComments, clog_writeIdent, clog_writeParams, clog_openIf, clog_closeIf, pretty_writeExpr, pretty_writeStmt, pretty_writeExprList, pretty_writeProps, pretty_writeBlockStmts, hp, List.append_assoc]
end

theorem clog_head_compact (cw : CW) (t : Token) (hp : cw.pretty = false) : (cw.head t).clog = cw.clog := by
  simp [CW.head, clog_leadingComments_compact _ _ hp]
theorem clog_writeIdent_compact (id : Ident) (cw : CW) (hp : cw.pretty = false) : (writeIdent id cw).clog = cw.clog := by
  simp [writeIdent, clog_leadingComments_compact _ _ hp]
theorem clog_writeParams_compact (ps : List Ident) (first : Bool) (cw : CW) (hp : cw.pretty = false) :
    (writeParams ps first cw).clog = cw.clog := by
  induction ps generalizing first cw with
  | nil => simp [writeParams]
  | cons p rest ih => simp [writeParams, ih, clog_writeIdent_compact, pretty_writeIdent, hp]

mutual
  /-- in compact mode no comment entry is ever written -/
  theorem clog_c_writeExpr : ∀ (e : Expr) (cw : CW), cw.pretty = false → (writeExpr e cw).clog = cw.clog
    | .none, cw, hp => by
      simp only [writeExpr]
      repeat' split
      all_goals simp [clog_head_compact, clog_leadingComments_compact, clog_writeIdent_compact, clog_writeParams_compact, clog_openIf, clog_closeIf, pretty_writeExpr, pretty_writeStmt, pretty_writeExprList, pretty_writeProps, pretty_writeBlockStmts, hp]
    | .ident id, cw, hp => by
      simp only [writeExpr]
      repeat' split
      all_goals simp [clog_head_compact, clog_leadingComments_compact, clog_writeIdent_compact, clog_writeParams_compact, clog_openIf, clog_closeIf, pretty_writeExpr, pretty_writeStmt, pretty_writeExprList, pretty_writeProps, pretty_writeBlockStmts, hp]
    | .int tok, cw, hp => by
      simp only [writeExpr]
      repeat' split
      all_goals simp [clog_head_compact, clog_leadingComments_compact, clog_writeIdent_compact, clog_writeParams_compact, clog_openIf, clog_closeIf, pretty_writeExpr, pretty_writeStmt, pretty_writeExprList, pretty_writeProps, pretty_writeBlockStmts, hp]
    | .float tok, cw, hp => by
      simp only [writeExpr]
      repeat' split
      all_goals simp [clog_head_compact, clog_leadingComments_compact, clog_writeIdent_compact, clog_writeParams_compact, clog_openIf, clog_closeIf, pretty_writeExpr, pretty_writeStmt, pretty_writeExprList, pretty_writeProps, pretty_writeBlockStmts, hp]
    | .str tok v, cw, hp => by
      simp only [writeExpr]
      repeat' split
      all_goals simp [clog_head_compact, clog_leadingComments_compact, clog_writeIdent_compact, clog_writeParams_compact, clog_openIf, clog_closeIf, pretty_writeExpr, pretty_writeStmt, pretty_writeExprList, pretty_writeProps, pretty_writeBlockStmts, hp]
    | .raw tok v, cw, hp => by
      simp only [writeExpr]
      repeat' split
      all_goals simp [clog_head_compact, clog_leadingComments_compact, clog_writeIdent_compact, clog_writeParams_compact, clog_openIf, clog_closeIf, pretty_writeExpr, pretty_writeStmt, pretty_writeExprList, pretty_writeProps, pretty_writeBlockStmts, hp]
    | .bool tok b, cw, hp => by
      simp only [writeExpr]
      repeat' split
      all_goals simp [clog_head_compact, clog_leadingComments_compact, clog_writeIdent_compact, clog_writeParams_compact, clog_openIf, clog_closeIf, pretty_writeExpr, pretty_writeStmt, pretty_writeExprList, pretty_writeProps, pretty_writeBlockStmts, hp]
    | .null tok, cw, hp => by
      simp only [writeExpr]
      repeat' split
      all_goals simp [clog_head_compact, clog_leadingComments_compact, clog_writeIdent_compact, clog_writeParams_compact, clog_openIf, clog_closeIf, pretty_writeExpr, pretty_writeStmt, pretty_writeExprList, pretty_writeProps, pretty_writeBlockStmts, hp]
    | .letE tok name v, cw, hp => by
      simp only [writeExpr]
      repeat' split
      all_goals simp [clog_c_writeExpr v, clog_head_compact, clog_leadingComments_compact, clog_writeIdent_compact, clog_writeParams_compact, clog_openIf, clog_closeIf, pretty_writeExpr, pretty_writeStmt, pretty_writeExprList, pretty_writeProps, pretty_writeBlockStmts, hp]
    | .binary tok l op r, cw, hp => by
      simp only [writeExpr]
      repeat' split
      all_goals simp [clog_c_writeExpr l, clog_c_writeExpr r, clog_head_compact, clog_leadingComments_compact, clog_writeIdent_compact, clog_writeParams_compact, clog_openIf, clog_closeIf, pretty_writeExpr, pretty_writeStmt, pretty_writeExprList, pretty_writeProps, pretty_writeBlockStmts, hp]
    | .unary tok op r, cw, hp => by
      simp only [writeExpr]
      repeat' split
      all_goals simp [clog_c_writeExpr r, clog_head_compact, clog_leadingComments_compact, clog_writeIdent_compact, clog_writeParams_compact, clog_openIf, clog_closeIf, pretty_writeExpr, pretty_writeStmt, pretty_writeExprList, pretty_writeProps, pretty_writeBlockStmts, hp]
    | .postfix tok l op, cw, hp => by
      simp only [writeExpr]
      repeat' split
      all_goals simp [clog_c_writeExpr l, clog_head_compact, clog_leadingComments_compact, clog_writeIdent_compact, clog_writeParams_compact, clog_openIf, clog_closeIf, pretty_writeExpr, pretty_writeStmt, pretty_writeExprList, pretty_writeProps, pretty_writeBlockStmts, hp]
    | .group tok e rp, cw, hp => by
      simp only [writeExpr]
      repeat' split
      all_goals simp [clog_c_writeExpr e, clog_head_compact, clog_leadingComments_compact, clog_writeIdent_compact, clog_writeParams_compact, clog_openIf, clog_closeIf, pretty_writeExpr, pretty_writeStmt, pretty_writeExprList, pretty_writeProps, pretty_writeBlockStmts, hp]
    | .call tok fn args, cw, hp => by
      simp only [writeExpr]
      repeat' split
      all_goals simp [clog_c_writeExpr fn, clog_c_writeExprList args, clog_head_compact, clog_leadingComments_compact, clog_writeIdent_compact, clog_writeParams_compact, clog_openIf, clog_closeIf, pretty_writeExpr, pretty_writeStmt, pretty_writeExprList, pretty_writeProps, pretty_writeBlockStmts, hp]
    | .member tok obj prop c, cw, hp => by
      simp only [writeExpr]
      repeat' split
      all_goals simp [clog_c_writeExpr obj, clog_c_writeExpr prop, clog_head_compact, clog_leadingComments_compact, clog_writeIdent_compact, clog_writeParams_compact, clog_openIf, clog_closeIf, pretty_writeExpr, pretty_writeStmt, pretty_writeExprList, pretty_writeProps, pretty_writeBlockStmts, hp]
    | .assign tok l v, cw, hp => by
      simp only [writeExpr]
      repeat' split
      all_goals simp [clog_c_writeExpr l, clog_c_writeExpr v, clog_head_compact, clog_leadingComments_compact, clog_writeIdent_compact, clog_writeParams_compact, clog_openIf, clog_closeIf, pretty_writeExpr, pretty_writeStmt, pretty_writeExprList, pretty_writeProps, pretty_writeBlockStmts, hp]
    | .compound tok l op v, cw, hp => by
      simp only [writeExpr]
      repeat' split
      all_goals simp [clog_c_writeExpr l, clog_c_writeExpr v, clog_head_compact, clog_leadingComments_compact, clog_writeIdent_compact, clog_writeParams_compact, clog_openIf, clog_closeIf, pretty_writeExpr, pretty_writeStmt, pretty_writeExprList, pretty_writeProps, pretty_writeBlockStmts, hp]
    | .func tok name params body, cw, hp => by
      simp only [writeExpr]
      repeat' split
      all_goals simp [clog_c_writeStmt body, clog_head_compact, clog_leadingComments_compact, clog_writeIdent_compact, clog_writeParams_compact, clog_openIf, clog_closeIf, pretty_writeExpr, pretty_writeStmt, pretty_writeExprList, pretty_writeProps, pretty_writeBlockStmts, hp]
    | .array tok elems rb, cw, hp => by
      simp only [writeExpr]
      repeat' split
      all_goals simp [clog_c_writeExprList elems, clog_head_compact, clog_leadingComments_compact, clog_writeIdent_compact, clog_writeParams_compact, clog_openIf, clog_closeIf, pretty_writeExpr, pretty_writeStmt, pretty_writeExprList, pretty_writeProps, pretty_writeBlockStmts, hp]
    | .object tok props rb, cw, hp => by
      simp only [writeExpr]
      repeat' split
      all_goals simp [clog_c_writeProps props, clog_head_compact, clog_leadingComments_compact, clog_writeIdent_compact, clog_writeParams_compact, clog_openIf, clog_closeIf, pretty_writeExpr, pretty_writeStmt, pretty_writeExprList, pretty_writeProps, pretty_writeBlockStmts, hp]
  theorem clog_c_writeExprList : ∀ (es : ExprList) (first : Bool) (cw : CW), cw.pretty = false → (writeExprList es first cw).clog = cw.clog
    | .nil, _, cw, _ => by simp [writeExprList]
    | .cons e rest, first, cw, hp => by simp [writeExprList, clog_c_writeExprList rest, clog_c_writeExpr e, clog_head_compact, clog_leadingComments_compact, clog_writeIdent_compact, clog_writeParams_compact, clog_openIf, clog_closeIf, pretty_writeExpr, pretty_writeStmt, pretty_writeExprList, pretty_writeProps, pretty_writeBlockStmts, hp]
  theorem clog_c_writeProps : ∀ (ps : PropList) (first : Bool) (cw : CW), cw.pretty = false → (writeProps ps first cw).clog = cw.clog
    | .nil, _, cw, _ => by simp [writeProps]
    | .cons k v rest, first, cw, hp => by simp [writeProps, clog_c_writeProps rest, clog_c_writeExpr v, clog_c_writeExpr k, clog_head_compact, clog_leadingComments_compact, clog_writeIdent_compact, clog_writeParams_compact, clog_openIf, clog_closeIf, pretty_writeExpr, pretty_writeStmt, pretty_writeExprList, pretty_writeProps, pretty_writeBlockStmts, hp]
  theorem clog_c_writeStmt : ∀ (s : Stmt) (cw : CW), cw.pretty = false → (writeStmt s cw).clog = cw.clog
    | .none, cw, hp => by
      simp only [writeStmt]
      repeat' split
      all_goals simp [clog_head_compact, clog_leadingComments_compact, clog_writeIdent_compact, clog_writeParams_compact, clog_openIf, clog_closeIf, pretty_writeExpr, pretty_writeStmt, pretty_writeExprList, pretty_writeProps, pretty_writeBlockStmts, hp]
    | .letS tok name v, cw, hp => by
      simp only [writeStmt]
      repeat' split
      all_goals simp [clog_c_writeExpr v, clog_head_compact, clog_leadingComments_compact, clog_writeIdent_compact, clog_writeParams_compact, clog_openIf, clog_closeIf, pretty_writeExpr, pretty_writeStmt, pretty_writeExprList, pretty_writeProps, pretty_writeBlockStmts, hp]
    | .ret tok v, cw, hp => by
      simp only [writeStmt]
      repeat' split
      all_goals simp [clog_c_writeExpr v, clog_head_compact, clog_leadingComments_compact, clog_writeIdent_compact, clog_writeParams_compact, clog_openIf, clog_closeIf, pretty_writeExpr, pretty_writeStmt, pretty_writeExprList, pretty_writeProps, pretty_writeBlockStmts, hp]
    | .exprS e, cw, hp => by
      simp only [writeStmt]
      repeat' split
      all_goals simp [clog_c_writeExpr e, clog_head_compact, clog_leadingComments_compact, clog_writeIdent_compact, clog_writeParams_compact, clog_openIf, clog_closeIf, pretty_writeExpr, pretty_writeStmt, pretty_writeExprList, pretty_writeProps, pretty_writeBlockStmts, hp]
    | .funcD tok name params body, cw, hp => by
      simp only [writeStmt]
      repeat' split
      all_goals simp [clog_c_writeStmt body, clog_head_compact, clog_leadingComments_compact, clog_writeIdent_compact, clog_writeParams_compact, clog_openIf, clog_closeIf, pretty_writeExpr, pretty_writeStmt, pretty_writeExprList, pretty_writeProps, pretty_writeBlockStmts, hp]
    | .block tok stmts rb, cw, hp => by
      simp only [writeStmt]
      repeat' split
      all_goals simp [clog_c_writeBlockStmts stmts, clog_head_compact, clog_leadingComments_compact, clog_writeIdent_compact, clog_writeParams_compact, clog_openIf, clog_closeIf, pretty_writeExpr, pretty_writeStmt, pretty_writeExprList, pretty_writeProps, pretty_writeBlockStmts, hp]
    | .ifS tok c a b, cw, hp => by
      simp only [writeStmt]
      repeat' split
      all_goals simp [clog_c_writeExpr c, clog_c_writeStmt a, clog_c_writeStmt b, clog_head_compact, clog_leadingComments_compact, clog_writeIdent_compact, clog_writeParams_compact, clog_openIf, clog_closeIf, pretty_writeExpr, pretty_writeStmt, pretty_writeExprList, pretty_writeProps, pretty_writeBlockStmts, hp]
    | .whileS tok c b, cw, hp => by
      simp only [writeStmt]
      repeat' split
      all_goals simp [clog_c_writeExpr c, clog_c_writeStmt b, clog_head_compact, clog_leadingComments_compact, clog_writeIdent_compact, clog_writeParams_compact, clog_openIf, clog_closeIf, pretty_writeExpr, pretty_writeStmt, pretty_writeExprList, pretty_writeProps, pretty_writeBlockStmts, hp]
    | .forS tok i c u b, cw, hp => by
      simp only [writeStmt]
      repeat' split
      all_goals simp [clog_c_writeExpr i, clog_c_writeExpr c, clog_c_writeExpr u, clog_c_writeStmt b, clog_head_compact, clog_leadingComments_compact, clog_writeIdent_compact, clog_writeParams_compact, clog_openIf, clog_closeIf, pretty_writeExpr, pretty_writeStmt, pretty_writeExprList, pretty_writeProps, pretty_writeBlockStmts, hp]
  theorem clog_c_writeBlockStmts : ∀ (ss : StmtList) (first : Bool) (cw : CW), cw.pretty = false → (writeBlockStmts ss first cw).clog = cw.clog
    | .nil, _, cw, _ => by simp [writeBlockStmts]
    | .cons s rest, first, cw, hp => by simp [writeBlockStmts, clog_c_writeBlockStmts rest, clog_c_writeStmt s, clog_head_compact, clog_leadingComments_compact, clog_writeIdent_compact, clog_writeParams_compact, clog_openIf, clog_closeIf, pretty_writeExpr, pretty_writeStmt, pretty_writeExprList, pretty_writeProps, pretty_writeBlockStmts, hp]
  theorem clog_c_writeProgramStmts : ∀ (ss : StmtList) (first : Bool) (cw : CW), cw.pretty = false → (writeProgramStmts ss first cw).clog = cw.clog
    | .nil, _, cw, _ => by simp [writeProgramStmts]
    | .cons s rest, first, cw, hp => by simp [writeProgramStmts, clog_c_writeProgramStmts rest, clog_c_writeStmt s, clog_head_compact, clog_leadingComments_compact, clog_writeIdent_compact, clog_writeParams_compact, clog_openIf, clog_closeIf, pretty_writeExpr, pretty_writeStmt, pretty_writeExprList, pretty_writeProps, pretty_writeBlockStmts, hp]
end

/-- the bytes `WriteLeadingComments` appends: every entry verbatim, `//` in front of the non-empty ones -/
theorem out_commentsLoop (cs : List Bytes) (first : Bool) (cw : CW) :
    (cw.commentsLoop cs first).out = cw.out ++ commentText (List.replicate cw.indentLevel cw.indentUnit).flatten cs first ∧
    (cw.commentsLoop cs first).indentLevel = cw.indentLevel ∧ (cw.commentsLoop cs first).indentString = cw.indentString := by
  induction cs generalizing first cw with
  | nil => simp [CW.commentsLoop, commentText]
  | cons c rest ih =>
    unfold CW.commentsLoop
    obtain ⟨h1, h2, h3⟩ := ih false { (if (!c.isEmpty) = true then
        { (if first = true then (if (!c.isEmpty) = true then { cw with out := cw.out ++ [32] } else cw)
            else ({ cw with out := cw.out ++ [10] } : CW).rawIndent) with
          out := (if first = true then (if (!c.isEmpty) = true then { cw with out := cw.out ++ [32] } else cw)
            else ({ cw with out := cw.out ++ [10] } : CW).rawIndent).out ++ [47, 47] }
        else (if first = true then (if (!c.isEmpty) = true then { cw with out := cw.out ++ [32] } else cw)
            else ({ cw with out := cw.out ++ [10] } : CW).rawIndent)) with
      out := (if (!c.isEmpty) = true then
        { (if first = true then (if (!c.isEmpty) = true then { cw with out := cw.out ++ [32] } else cw)
            else ({ cw with out := cw.out ++ [10] } : CW).rawIndent) with
          out := (if first = true then (if (!c.isEmpty) = true then { cw with out := cw.out ++ [32] } else cw)
            else ({ cw with out := cw.out ++ [10] } : CW).rawIndent).out ++ [47, 47] }
        else (if first = true then (if (!c.isEmpty) = true then { cw with out := cw.out ++ [32] } else cw)
            else ({ cw with out := cw.out ++ [10] } : CW).rawIndent)).out ++ c }
    dsimp only at h1 h2 h3 ⊢
    refine ⟨?_, ?_, ?_⟩
    · rw [h1]; cases first <;> cases hc : c.isEmpty <;> simp [commentText, commentSeg, CW.rawIndent, CW.indentUnit, hc]
    · rw [h2]; cases first <;> cases hc : c.isEmpty <;> simp [CW.rawIndent, hc]
    · rw [h3]; cases first <;> cases hc : c.isEmpty <;> simp [CW.rawIndent, hc]

/-- one call of `WriteLeadingComments` in pretty mode: the entries go to the output verbatim and to the ghost log in
    the same step, and the code that follows starts on a fresh indented line -/
theorem leadingComments_pretty (cw : CW) (cs : List Bytes) (hp : cw.pretty = true) (hne : cs ≠ []) :
    (cw.leadingComments cs).out = cw.out ++ commentText (List.replicate cw.indentLevel cw.indentUnit).flatten cs true ∧
    (cw.leadingComments cs).pendings = [10, 9] ∧ (cw.leadingComments cs).clog = cw.clog ++ cs := by
  refine ⟨?_, ?_, clog_leadingComments cw cs hp⟩
  · unfold CW.leadingComments
    have : cs.isEmpty = false := by cases cs <;> simp_all
    simp [hp, this, CW.writeNewline, CW.writeIndent, pretty_commentsLoop, (out_commentsLoop cs true cw).1]
  · unfold CW.leadingComments
    have : cs.isEmpty = false := by cases cs <;> simp_all
    simp [hp, this, CW.writeNewline, CW.writeIndent, pretty_commentsLoop]

end Xjs
