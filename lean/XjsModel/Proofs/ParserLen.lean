import XjsModel.Proofs.ParserFrame
/-
  Error counting: `st.elen` = number of errors recorded so far. Used by every "error-free run ⇒ …" pass:
  the motive there is `st.elen ≤ r.2.elen ∧ (P ∨ st.elen < r.2.elen)` — either the run has the property or it
  recorded an error — which composes along a sequence of sub-parses by linear arithmetic.
-/
namespace Xjs

def PS.elen (st : PS) : Nat := st.errors.length

@[simp] theorem elen_next (st : PS) : st.next.elen = st.elen := by simp [PS.elen, PS.next_errors]
@[simp] theorem elen_push (st : PS) (c : Ctx) : (st.push c).elen = st.elen := rfl
@[simp] theorem elen_pop (st : PS) : st.pop.elen = st.elen := rfl
@[simp] theorem elen_addError (st : PS) (m : Bytes) : (st.addError m).elen = st.elen + 1 := by
  simp [PS.elen, PS.addError, PS.addErrorAt]
@[simp] theorem elen_addErrorAt (st : PS) (m : Bytes) (t : Token) : (st.addErrorAt m t).elen = st.elen + 1 := by
  simp [PS.elen, PS.addErrorAt]
@[simp] theorem elen_set (st : PS) (p : Nat) (t : List Event) :
    PS.elen { st with curPrec := p, trace := t } = st.elen := rfl
@[simp] theorem elen_setPrec (st : PS) (p : Nat) : PS.elen { st with curPrec := p } = st.elen := rfl
@[simp] theorem elen_setTrace (st : PS) (t : List Event) : PS.elen { st with trace := t } = st.elen := rfl

/-- 0 if the expected token was there, 1 if an error was recorded -/
def expErr (ty : TokType) (st : PS) : Nat := if (expectToken ty st).1 then 0 else 1
def semiErr (cfg : PCfg) (st : PS) : Nat := if (expectSemiASI cfg st).1 then 0 else 1

@[simp] theorem elen_expectToken (ty : TokType) (st : PS) : (expectToken ty st).2.elen = st.elen + expErr ty st := by
  unfold expErr expectToken
  split <;> simp
@[simp] theorem elen_expectSemi (cfg : PCfg) (st : PS) : (expectSemiASI cfg st).2.elen = st.elen + semiErr cfg st := by
  unfold semiErr expectSemiASI
  split
  · simp
  · split
    · simp
    · split <;> simp

theorem expErr_of_true {ty : TokType} {st : PS} (h : (expectToken ty st).1 = true) : expErr ty st = 0 := by simp [expErr, h]
theorem expErr_of_false {ty : TokType} {st : PS} (h : (expectToken ty st).1 = false) : expErr ty st = 1 := by simp [expErr, h]
theorem semiErr_of_true {cfg : PCfg} {st : PS} (h : (expectSemiASI cfg st).1 = true) : semiErr cfg st = 0 := by simp [semiErr, h]
theorem semiErr_of_false {cfg : PCfg} {st : PS} (h : (expectSemiASI cfg st).1 = false) : semiErr cfg st = 1 := by simp [semiErr, h]

theorem expErr_of_not {ty : TokType} {st : PS} (h : (!(expectToken ty st).fst) = true) : expErr ty st = 1 := by
  simp [expErr] at *; simp [h]
theorem expErr_of_ok {ty : TokType} {st : PS} (h : ¬(!(expectToken ty st).fst) = true) : expErr ty st = 0 := by
  simp [expErr] at *; simp [h]
theorem semiErr_of_not {cfg : PCfg} {st : PS} (h : (!(expectSemiASI cfg st).fst) = true) : semiErr cfg st = 1 := by
  simp [semiErr] at *; simp [h]
theorem semiErr_of_ok {cfg : PCfg} {st : PS} (h : ¬(!(expectSemiASI cfg st).fst) = true) : semiErr cfg st = 0 := by
  simp [semiErr] at *; simp [h]
theorem expErr_le (ty : TokType) (st : PS) : expErr ty st ≤ 1 := by unfold expErr; split <;> omega
theorem semiErr_le (cfg : PCfg) (st : PS) : semiErr cfg st ≤ 1 := by unfold semiErr; split <;> omega

theorem Steps.elen_le {s s' : PS} (h : Steps s s') : s.elen ≤ s'.elen := h.errors_prefix.length_le

theorem elen_parseFunctionParameters {st : PS} {r : List Ident × PS} (h : parseFunctionParameters st = some r) :
    st.elen ≤ r.2.elen := (steps_parseFunctionParameters st r h st (.refl _)).elen_le

end Xjs
