import XjsModel.Proofs.ParserPostfixPass
import XjsModel.Proofs.ParserProvPass
import XjsModel.Proofs.LexerTrivia
import XjsModel.Proofs.CommentsHead
/-
  The chain for statement-level comments (C15): lexer (a token with entries and no line break before it is no
  `++`/`--`) + parser (postfix `++`/`--` never follows a line break; the tree's tokens are the input's tokens)
  ⇒ no postfix operator of a lexed-and-parsed tree carries entries ⇒ in every statement list, at any depth, what is
  replayed for a statement begins with the entries of its first token.
-/

namespace Xjs

/-- a token that carries trivia entries although no line break precedes it is no `++` / `--` -/
def Token.quiet (t : Token) : Prop := t.comments ≠ [] → t.nl = false → t.type ≠ .increment ∧ t.type ≠ .decrement

theorem quiet_closed : Closed Token.quiet :=
  ⟨fun h => absurd rfl h, fun h => absurd rfl h, fun _ _ h => absurd rfl h⟩

/-- every token the lexer produces is quiet -/
theorem nextToken_quiet (s : LS) : (nextToken s).1.quiet := fun hc hn =>
  (Tiling.entries_without_line_break s hc hn).2

/-- `++` and `--` are the only postfix operators of the table (true of the built-in table; a registered postfix
    operator is not subject to the restricted production) -/
def PostfixIsUpdate (cfg : PCfg) : Prop :=
  ∀ ty, lookup cfg.infixFns ty = some .postfix → ty = .increment ∨ ty = .decrement

theorem postfix_token_bare {cfg : PCfg} (hpf : PostfixIsUpdate cfg) {tok : Token}
    (h1 : tok.pfOk = true) (h2 : tok.isPostfixOf cfg = true) (h3 : tok.quiet) : tok.comments = [] := by
  have hty := hpf tok.type (by simpa [Token.isPostfixOf] using h2)
  have hnl : tok.nl = false := by
    unfold Token.pfOk at h1
    rcases hty with h | h <;> simpa [h] using h1
  cases hcm : tok.comments with
  | nil => rfl
  | cons c cs =>
    have := h3 (by rw [hcm]; simp) hnl
    rcases hty with h | h
    · exact absurd h this.1
    · exact absurd h this.2

/-- the left spine of a parsed expression carries no trivia on postfix operators -/
theorem Expr.bare_of {cfg : PCfg} (hpf : PostfixIsUpdate cfg) :
    ∀ (e : Expr), e.pfOk cfg = true → e.allT Token.quiet → e.postfixBare = true
  | .binary _ l _ _, h, q => by
    simp only [Expr.pfOk, Bool.and_eq_true] at h; simp only [Expr.allT] at q
    simpa [Expr.postfixBare] using Expr.bare_of hpf l h.1 q.2.1
  | .call _ l _, h, q => by
    simp only [Expr.pfOk, Bool.and_eq_true] at h; simp only [Expr.allT] at q
    simpa [Expr.postfixBare] using Expr.bare_of hpf l h.1 q.2.1
  | .member _ l _ _, h, q => by
    simp only [Expr.pfOk, Bool.and_eq_true] at h; simp only [Expr.allT] at q
    simpa [Expr.postfixBare] using Expr.bare_of hpf l h.1 q.2.1
  | .assign _ l _, h, q => by
    simp only [Expr.pfOk, Bool.and_eq_true] at h; simp only [Expr.allT] at q
    simpa [Expr.postfixBare] using Expr.bare_of hpf l h.1 q.2.1
  | .compound _ l _ _, h, q => by
    simp only [Expr.pfOk, Bool.and_eq_true] at h; simp only [Expr.allT] at q
    simpa [Expr.postfixBare] using Expr.bare_of hpf l h.1 q.2.1
  | .postfix tok l _, h, q => by
    simp only [Expr.pfOk, Bool.and_eq_true] at h; simp only [Expr.allT] at q
    simp only [Expr.postfixBare, Bool.and_eq_true, List.isEmpty_iff]
    exact ⟨postfix_token_bare hpf h.1.1 h.1.2 q.1, Expr.bare_of hpf l h.2 q.2⟩
  | .none, _, _ | .ident _, _, _ | .int _, _, _ | .float _, _, _ | .str _ _, _, _ | .raw _ _, _, _ | .bool _ _, _, _
  | .null _, _, _ | .letE _ _ _, _, _ | .unary _ _ _, _, _ | .group _ _ _, _, _ | .func _ _ _ _, _, _
  | .array _ _ _, _, _ | .object _ _ _, _, _ => by simp [Expr.postfixBare]

theorem Stmt.bare_of {cfg : PCfg} (hpf : PostfixIsUpdate cfg) (s : Stmt) (h : s.pfOk cfg = true) (q : s.allT Token.quiet) :
    s.postfixBare = true := by
  cases s with
  | exprS e => simpa [Stmt.postfixBare] using Expr.bare_of hpf e (by simpa [Stmt.pfOk] using h) (by simpa [Stmt.allT] using q)
  | _ => simp [Stmt.postfixBare]

mutual
  /-- in every statement list of the tree, at any depth, what is replayed for a statement starts with the entries of
      its first token -/
  def Expr.headsFirst : Expr → Prop
    | .none | .ident _ | .int _ | .float _ | .str _ _ | .raw _ _ | .bool _ _ | .null _ => True
    | .letE _ _ v => v.headsFirst
    | .binary _ l _ r => l.headsFirst ∧ r.headsFirst
    | .unary _ _ r => r.headsFirst
    | .postfix _ l _ => l.headsFirst
    | .group _ e _ => e.headsFirst
    | .call _ f args => f.headsFirst ∧ args.headsFirst
    | .member _ o p _ => o.headsFirst ∧ p.headsFirst
    | .assign _ l v => l.headsFirst ∧ v.headsFirst
    | .compound _ l _ v => l.headsFirst ∧ v.headsFirst
    | .func _ _ _ body => body.headsFirst
    | .array _ es _ => es.headsFirst
    | .object _ ps _ => ps.headsFirst
  def Stmt.headsFirst : Stmt → Prop
    | .none => True
    | .letS _ _ v => v.headsFirst
    | .ret _ v => v.headsFirst
    | .exprS e => e.headsFirst
    | .funcD _ _ _ body => body.headsFirst
    | .block _ ss _ => ss.headsFirst
    | .ifS _ c t e => c.headsFirst ∧ t.headsFirst ∧ e.headsFirst
    | .whileS _ c b => c.headsFirst ∧ b.headsFirst
    | .forS _ i c u b => i.headsFirst ∧ c.headsFirst ∧ u.headsFirst ∧ b.headsFirst
  def ExprList.headsFirst : ExprList → Prop
    | .nil => True
    | .cons e t => e.headsFirst ∧ t.headsFirst
  def StmtList.headsFirst : StmtList → Prop
    | .nil => True
    | .cons s t => (∃ rest, s.cmts = headCmts s.firstTok ++ rest) ∧ s.headsFirst ∧ t.headsFirst
  def PropList.headsFirst : PropList → Prop
    | .nil => True
    | .cons k v t => k.headsFirst ∧ v.headsFirst ∧ t.headsFirst
end

mutual
  theorem Expr.headsFirst_of {cfg : PCfg} (hpf : PostfixIsUpdate cfg) :
      ∀ (e : Expr), e.pfOk cfg = true → e.allT Token.quiet → e.headsFirst
    | .none, _, _ | .ident _, _, _ | .int _, _, _ | .float _, _, _ | .str _ _, _, _ | .raw _ _, _, _ | .bool _ _, _, _
    | .null _, _, _ => by simp [Expr.headsFirst]
    | .letE _ _ v, h, q => by
      simp only [Expr.pfOk] at h; simp only [Expr.allT] at q
      simpa [Expr.headsFirst] using Expr.headsFirst_of hpf v h q.2.2
    | .binary _ l _ r, h, q => by
      simp only [Expr.pfOk, Bool.and_eq_true] at h; simp only [Expr.allT] at q
      exact ⟨Expr.headsFirst_of hpf l h.1 q.2.1, Expr.headsFirst_of hpf r h.2 q.2.2⟩
    | .unary _ _ r, h, q => by
      simp only [Expr.pfOk] at h; simp only [Expr.allT] at q
      simpa [Expr.headsFirst] using Expr.headsFirst_of hpf r h q.2
    | .postfix _ l _, h, q => by
      simp only [Expr.pfOk, Bool.and_eq_true] at h; simp only [Expr.allT] at q
      simpa [Expr.headsFirst] using Expr.headsFirst_of hpf l h.2 q.2
    | .group _ e _, h, q => by
      simp only [Expr.pfOk] at h; simp only [Expr.allT] at q
      simpa [Expr.headsFirst] using Expr.headsFirst_of hpf e h q.2.1
    | .call _ f args, h, q => by
      simp only [Expr.pfOk, Bool.and_eq_true] at h; simp only [Expr.allT] at q
      exact ⟨Expr.headsFirst_of hpf f h.1 q.2.1, ExprList.headsFirst_of hpf args h.2 q.2.2⟩
    | .member _ o p _, h, q => by
      simp only [Expr.pfOk, Bool.and_eq_true] at h; simp only [Expr.allT] at q
      exact ⟨Expr.headsFirst_of hpf o h.1 q.2.1, Expr.headsFirst_of hpf p h.2 q.2.2⟩
    | .assign _ l v, h, q => by
      simp only [Expr.pfOk, Bool.and_eq_true] at h; simp only [Expr.allT] at q
      exact ⟨Expr.headsFirst_of hpf l h.1 q.2.1, Expr.headsFirst_of hpf v h.2 q.2.2⟩
    | .compound _ l _ v, h, q => by
      simp only [Expr.pfOk, Bool.and_eq_true] at h; simp only [Expr.allT] at q
      exact ⟨Expr.headsFirst_of hpf l h.1 q.2.1, Expr.headsFirst_of hpf v h.2 q.2.2⟩
    | .func _ _ _ body, h, q => by
      simp only [Expr.pfOk] at h; simp only [Expr.allT] at q
      simpa [Expr.headsFirst] using Stmt.headsFirst_of hpf body h q.2.2.2
    | .array _ es _, h, q => by
      simp only [Expr.pfOk] at h; simp only [Expr.allT] at q
      simpa [Expr.headsFirst] using ExprList.headsFirst_of hpf es h q.2.1
    | .object _ ps _, h, q => by
      simp only [Expr.pfOk] at h; simp only [Expr.allT] at q
      simpa [Expr.headsFirst] using PropList.headsFirst_of hpf ps h q.2.1
  theorem Stmt.headsFirst_of {cfg : PCfg} (hpf : PostfixIsUpdate cfg) :
      ∀ (s : Stmt), s.pfOk cfg = true → s.allT Token.quiet → s.headsFirst
    | .none, _, _ => by simp [Stmt.headsFirst]
    | .letS _ _ v, h, q => by
      simp only [Stmt.pfOk] at h; simp only [Stmt.allT] at q
      simpa [Stmt.headsFirst] using Expr.headsFirst_of hpf v h q.2.2
    | .ret _ v, h, q => by
      simp only [Stmt.pfOk] at h; simp only [Stmt.allT] at q
      simpa [Stmt.headsFirst] using Expr.headsFirst_of hpf v h q.2
    | .exprS e, h, q => by
      simp only [Stmt.pfOk] at h; simp only [Stmt.allT] at q
      simpa [Stmt.headsFirst] using Expr.headsFirst_of hpf e h q
    | .funcD _ _ _ body, h, q => by
      simp only [Stmt.pfOk] at h; simp only [Stmt.allT] at q
      simpa [Stmt.headsFirst] using Stmt.headsFirst_of hpf body h q.2.2.2
    | .block _ ss _, h, q => by
      simp only [Stmt.pfOk] at h; simp only [Stmt.allT] at q
      simpa [Stmt.headsFirst] using StmtList.headsFirst_of hpf ss h q.2.1
    | .ifS _ c t e, h, q => by
      simp only [Stmt.pfOk, Bool.and_eq_true] at h; simp only [Stmt.allT] at q
      exact ⟨Expr.headsFirst_of hpf c h.1.1 q.2.1, Stmt.headsFirst_of hpf t h.1.2 q.2.2.1, Stmt.headsFirst_of hpf e h.2 q.2.2.2⟩
    | .whileS _ c b, h, q => by
      simp only [Stmt.pfOk, Bool.and_eq_true] at h; simp only [Stmt.allT] at q
      exact ⟨Expr.headsFirst_of hpf c h.1 q.2.1, Stmt.headsFirst_of hpf b h.2 q.2.2⟩
    | .forS _ i c u b, h, q => by
      simp only [Stmt.pfOk, Bool.and_eq_true] at h; simp only [Stmt.allT] at q
      exact ⟨Expr.headsFirst_of hpf i h.1.1.1 q.2.1, Expr.headsFirst_of hpf c h.1.1.2 q.2.2.1,
        Expr.headsFirst_of hpf u h.1.2 q.2.2.2.1, Stmt.headsFirst_of hpf b h.2 q.2.2.2.2⟩
  theorem ExprList.headsFirst_of {cfg : PCfg} (hpf : PostfixIsUpdate cfg) :
      ∀ (es : ExprList), es.pfOk cfg = true → es.allT Token.quiet → es.headsFirst
    | .nil, _, _ => by simp [ExprList.headsFirst]
    | .cons e t, h, q => by
      simp only [ExprList.pfOk, Bool.and_eq_true] at h; simp only [ExprList.allT] at q
      exact ⟨Expr.headsFirst_of hpf e h.1 q.1, ExprList.headsFirst_of hpf t h.2 q.2⟩
  theorem StmtList.headsFirst_of {cfg : PCfg} (hpf : PostfixIsUpdate cfg) :
      ∀ (ss : StmtList), ss.pfOk cfg = true → ss.allT Token.quiet → ss.headsFirst
    | .nil, _, _ => by simp [StmtList.headsFirst]
    | .cons s t, h, q => by
      simp only [StmtList.pfOk, Bool.and_eq_true] at h; simp only [StmtList.allT] at q
      exact ⟨s.cmts_head (Stmt.bare_of hpf s h.1 q.1), Stmt.headsFirst_of hpf s h.1 q.1, StmtList.headsFirst_of hpf t h.2 q.2⟩
  theorem PropList.headsFirst_of {cfg : PCfg} (hpf : PostfixIsUpdate cfg) :
      ∀ (ps : PropList), ps.pfOk cfg = true → ps.allT Token.quiet → ps.headsFirst
    | .nil, _, _ => by simp [PropList.headsFirst]
    | .cons k v t, h, q => by
      simp only [PropList.pfOk, Bool.and_eq_true] at h; simp only [PropList.allT] at q
      exact ⟨Expr.headsFirst_of hpf k h.1.1 q.1, Expr.headsFirst_of hpf v h.1.2 q.2.1, PropList.headsFirst_of hpf t h.2 q.2.2⟩
end

theorem prov_programLoop (cfg : PCfg) (P : Token → Prop) (hc : Closed P) (acc : StmtList) (st : PS) (r : StmtList × PS)
    (h : programLoop cfg acc st = some r) : st.ok P → acc.allT P → (r.2.ok P ∧ r.1.allT P) := by
  refine programLoop.partial_correctness cfg (fun acc st r => st.ok P → acc.allT P → (r.2.ok P ∧ r.1.allT P)) ?_ acc st r h
  intro f ih acc st r h hok hacc
  split at h
  · obtain ⟨⟨s, st1⟩, h1, h2⟩ := bind_some h
    obtain ⟨a, b⟩ := (prov_mutual cfg P hc).1 _ _ _ h1 hok
    refine ih _ _ _ h2 (ok_next hc a) ?_
    try dsimp only
    split
    · exact hacc
    · rw [StmtList.allT_snoc]; exact ⟨hacc, b⟩
  · cases h; exact ⟨hok, hacc⟩

/-- PROVENANCE: every token stored in the tree of a parsed program satisfies what all input tokens satisfy -/
theorem prov_parseProgram (cfg : PCfg) (P : Token → Prop) (hc : Closed P) (toks : List Token) (r : ParseResult)
    (h : parseProgram cfg toks = some r) (ht : ∀ t ∈ toks, P t) : r.prog.allT P := by
  unfold parseProgram at h
  obtain ⟨⟨stmts, st⟩, h1, h2⟩ := bind_some h
  cases h2
  exact (prov_programLoop cfg P hc _ _ _ h1 ht trivial).2

end Xjs
