import XjsModel.Proofs.ParserTokens
import XjsModel.Spec.Comments
/-
  Anchors (C15): a parse step that records no error returns a node whose first token — the token its comments
  travel on — is the token the parser stood on when the step began.
-/
namespace Xjs
set_option linter.unusedSimpArgs false
set_option linter.unusedVariables false

theorem anc_parseFunctionParameters (st : PS) (x : List Ident) (st' : PS) (h : parseFunctionParameters st = some (x, st')) :
    st.elen ≤ st'.elen ∧ (True ∨ st.elen < st'.elen) := ⟨elen_parseFunctionParameters h, Or.inl trivial⟩

syntax "anc_close" : tactic
macro_rules
  | `(tactic| anc_close) => `(tactic| (
      simp only [elen_next, elen_push, elen_pop, elen_addError, elen_addErrorAt, elen_set, elen_setPrec, elen_setTrace,
        elen_expectToken, elen_expectSemi] at *
      first
        | (refine ⟨?_, Or.inr ?_⟩ <;> first | omega | (simp_all [expErr, semiErr] <;> omega))
        | (refine ⟨?_, Or.inl ?_⟩
           · first | omega | (simp_all [expErr, semiErr] <;> omega)
           · simp_all [Expr.firstTok, Stmt.firstTok, Expr.isNone, Stmt.isNone, expErr, semiErr, identOfCur, next_cur])))

set_option maxHeartbeats 3200000 in
theorem anchor_mutual (cfg : PCfg) :
    (∀ is st r, parseStatementI cfg is st = some r → st.elen ≤ r.2.elen ∧ ((r.1.firstTok = some st.cur) ∨ st.elen < r.2.elen)) ∧
    (∀ st r, baseParseStatement cfg st = some r → st.elen ≤ r.2.elen ∧ ((r.1.firstTok = some st.cur) ∨ st.elen < r.2.elen)) ∧
    (∀ st r, parseExpressionStatement cfg st = some r → st.elen ≤ r.2.elen ∧ ((r.1.firstTok = some st.cur) ∨ st.elen < r.2.elen)) ∧
    (∀ is prec st r, parseExpressionI cfg is prec st = some r → st.elen ≤ r.2.elen ∧ ((r.1.firstTok = some st.cur) ∨ st.elen < r.2.elen)) ∧
    (∀ left prec st r, parseRemaining cfg left prec st = some r → st.elen ≤ r.2.elen ∧ ((r.1.firstTok = left.firstTok) ∨ st.elen < r.2.elen)) ∧
    (∀ left st r, parseInfixExpression cfg left st = some r → st.elen ≤ r.2.elen ∧ ((r.1.firstTok = left.firstTok) ∨ st.elen < r.2.elen)) ∧
    (∀ endTy st r, parseExpressionList cfg endTy st = some r → st.elen ≤ r.2.elen ∧ ((True) ∨ st.elen < r.2.elen)) ∧
    (∀ acc st r, exprListLoop cfg acc st = some r → st.elen ≤ r.2.elen ∧ ((True) ∨ st.elen < r.2.elen)) ∧
    (∀ st r, parsePrefixExpression cfg st = some r → st.elen ≤ r.2.elen ∧ ((r.1.firstTok = some st.cur) ∨ st.elen < r.2.elen)) ∧
    (∀ st r, parseFunctionExpression cfg st = some r → st.elen ≤ r.2.elen ∧ ((r.1.firstTok = some st.cur) ∨ st.elen < r.2.elen)) ∧
    (∀ st r, parseBlockStatement cfg st = some r → st.elen ≤ r.2.elen ∧ ((r.1.firstTok = some st.cur) ∨ st.elen < r.2.elen)) ∧
    (∀ acc st r, blockLoop cfg acc st = some r → st.elen ≤ r.2.elen ∧ ((True) ∨ st.elen < r.2.elen)) ∧
    (∀ st r, parseObjectLiteral cfg st = some r → st.elen ≤ r.2.elen ∧ ((r.1.firstTok = some st.cur) ∨ st.elen < r.2.elen)) ∧
    (∀ acc st r, objectLoop cfg acc st = some r → st.elen ≤ r.2.elen ∧ ((∃ p, r.1 = some p) ∨ st.elen < r.2.elen)) ∧
    (∀ st r, parseForStatement cfg st = some r → st.elen ≤ r.2.elen ∧ ((r.1.firstTok = some st.cur) ∨ st.elen < r.2.elen)) ∧
    (∀ st r, parseForInit cfg st = some r → st.elen ≤ r.2.elen ∧ ((r.1.isNone = true ∨ r.1.firstTok = some st.peek) ∨ st.elen < r.2.elen)) ∧
    (∀ st r, parseLetExpression cfg st = some r → st.elen ≤ r.2.elen ∧ ((r.1.firstTok = some st.cur) ∨ st.elen < r.2.elen)) ∧
    (∀ st r, parseWhileStatement cfg st = some r → st.elen ≤ r.2.elen ∧ ((r.1.firstTok = some st.cur) ∨ st.elen < r.2.elen)) ∧
    (∀ st r, parseIfStatement cfg st = some r → st.elen ≤ r.2.elen ∧ ((r.1.firstTok = some st.cur) ∨ st.elen < r.2.elen)) ∧
    (∀ st r, parseReturnStatement cfg st = some r → st.elen ≤ r.2.elen ∧ ((r.1.firstTok = some st.cur) ∨ st.elen < r.2.elen)) ∧
    (∀ st r, parseFunctionStatement cfg st = some r → st.elen ≤ r.2.elen ∧ ((r.1.firstTok = some st.cur) ∨ st.elen < r.2.elen)) ∧
    (∀ st r, parseLetStatement cfg st = some r → st.elen ≤ r.2.elen ∧ ((r.1.firstTok = some st.cur) ∨ st.elen < r.2.elen)) := by
  refine parseStatementI.mutual_partial_correctness cfg
    (fun _ st r => st.elen ≤ r.2.elen ∧ ((r.1.firstTok = some st.cur) ∨ st.elen < r.2.elen))
    (fun st r => st.elen ≤ r.2.elen ∧ ((r.1.firstTok = some st.cur) ∨ st.elen < r.2.elen))
    (fun st r => st.elen ≤ r.2.elen ∧ ((r.1.firstTok = some st.cur) ∨ st.elen < r.2.elen))
    (fun _ _ st r => st.elen ≤ r.2.elen ∧ ((r.1.firstTok = some st.cur) ∨ st.elen < r.2.elen))
    (fun left _ st r => st.elen ≤ r.2.elen ∧ ((r.1.firstTok = left.firstTok) ∨ st.elen < r.2.elen))
    (fun left st r => st.elen ≤ r.2.elen ∧ ((r.1.firstTok = left.firstTok) ∨ st.elen < r.2.elen))
    (fun _ st r => st.elen ≤ r.2.elen ∧ ((True) ∨ st.elen < r.2.elen))
    (fun acc st r => st.elen ≤ r.2.elen ∧ ((True) ∨ st.elen < r.2.elen))
    (fun st r => st.elen ≤ r.2.elen ∧ ((r.1.firstTok = some st.cur) ∨ st.elen < r.2.elen))
    (fun st r => st.elen ≤ r.2.elen ∧ ((r.1.firstTok = some st.cur) ∨ st.elen < r.2.elen))
    (fun st r => st.elen ≤ r.2.elen ∧ ((r.1.firstTok = some st.cur) ∨ st.elen < r.2.elen))
    (fun acc st r => st.elen ≤ r.2.elen ∧ ((True) ∨ st.elen < r.2.elen))
    (fun st r => st.elen ≤ r.2.elen ∧ ((r.1.firstTok = some st.cur) ∨ st.elen < r.2.elen))
    (fun acc st r => st.elen ≤ r.2.elen ∧ ((∃ p, r.1 = some p) ∨ st.elen < r.2.elen))
    (fun st r => st.elen ≤ r.2.elen ∧ ((r.1.firstTok = some st.cur) ∨ st.elen < r.2.elen))
    (fun st r => st.elen ≤ r.2.elen ∧ ((r.1.isNone = true ∨ r.1.firstTok = some st.peek) ∨ st.elen < r.2.elen))
    (fun st r => st.elen ≤ r.2.elen ∧ ((r.1.firstTok = some st.cur) ∨ st.elen < r.2.elen))
    (fun st r => st.elen ≤ r.2.elen ∧ ((r.1.firstTok = some st.cur) ∨ st.elen < r.2.elen))
    (fun st r => st.elen ≤ r.2.elen ∧ ((r.1.firstTok = some st.cur) ∨ st.elen < r.2.elen))
    (fun st r => st.elen ≤ r.2.elen ∧ ((r.1.firstTok = some st.cur) ∨ st.elen < r.2.elen))
    (fun st r => st.elen ≤ r.2.elen ∧ ((r.1.firstTok = some st.cur) ∨ st.elen < r.2.elen))
    (fun st r => st.elen ≤ r.2.elen ∧ ((r.1.firstTok = some st.cur) ∨ st.elen < r.2.elen))
    ?_ ?_ ?_ ?_ ?_ ?_ ?_ ?_ ?_ ?_ ?_ ?_ ?_ ?_ ?_ ?_ ?_ ?_ ?_ ?_ ?_ ?_
  · -- parseStatementI
    intro pS bS ih_pS ih_bS is st r h
    replace ih_pS := curry2 ih_pS; replace ih_bS := curry1 ih_bS
    dsimp only at ih_pS ih_bS ⊢
    obtain ⟨x, st'⟩ := r
    pdecompD h [ih_pS, ih_bS, anc_parseFunctionParameters]
    all_goals clear ih_pS ih_bS
    all_goals anc_close
  · -- baseParseStatement
    intro f1 f2 f3 f4 f5 f6 f7 f8 ih_f1 ih_f2 ih_f3 ih_f4 ih_f5 ih_f6 ih_f7 ih_f8  st r h
    replace ih_f1 := curry1 ih_f1; replace ih_f2 := curry1 ih_f2; replace ih_f3 := curry1 ih_f3; replace ih_f4 := curry1 ih_f4; replace ih_f5 := curry1 ih_f5; replace ih_f6 := curry1 ih_f6; replace ih_f7 := curry1 ih_f7; replace ih_f8 := curry1 ih_f8
    dsimp only at ih_f1 ih_f2 ih_f3 ih_f4 ih_f5 ih_f6 ih_f7 ih_f8 ⊢
    obtain ⟨x, st'⟩ := r
    split at h
    all_goals first | exact ih_f1 _ _ _ h | exact ih_f2 _ _ _ h | exact ih_f3 _ _ _ h | exact ih_f4 _ _ _ h
                    | exact ih_f5 _ _ _ h | exact ih_f6 _ _ _ h | exact ih_f7 _ _ _ h | exact ih_f8 _ _ _ h
  · -- parseExpressionStatement
    intro pE ih_pE  st r h
    replace ih_pE := curry3 ih_pE
    dsimp only at ih_pE ⊢
    obtain ⟨x, st'⟩ := r
    pdecompD h [ih_pE, anc_parseFunctionParameters]
    all_goals clear ih_pE
    all_goals anc_close
  · -- parseExpressionI
    intro pE pR pP ih_pE ih_pR ih_pP is prec st r h
    replace ih_pE := curry3 ih_pE; replace ih_pR := curry3 ih_pR; replace ih_pP := curry1 ih_pP
    dsimp only at ih_pE ih_pR ih_pP ⊢
    obtain ⟨x, st'⟩ := r
    pdecompD h [ih_pE, ih_pR, ih_pP, anc_parseFunctionParameters]
    all_goals clear ih_pE ih_pR ih_pP
    all_goals anc_close
  · -- parseRemaining
    intro pR pI ih_pR ih_pI left prec st r h
    replace ih_pR := curry3 ih_pR; replace ih_pI := curry2 ih_pI
    dsimp only at ih_pR ih_pI ⊢
    obtain ⟨x, st'⟩ := r
    pdecompD h [ih_pR, ih_pI, anc_parseFunctionParameters]
    all_goals clear ih_pR ih_pI
    all_goals anc_close
  · -- parseInfixExpression
    intro pE pL ih_pE ih_pL left st r h
    replace ih_pE := curry3 ih_pE; replace ih_pL := curry2 ih_pL
    dsimp only at ih_pE ih_pL ⊢
    obtain ⟨x, st'⟩ := r
    pdecompD h [ih_pE, ih_pL, anc_parseFunctionParameters]
    all_goals clear ih_pE ih_pL
    all_goals anc_close
  · -- parseExpressionList
    intro pE eL ih_pE ih_eL endTy st r h
    replace ih_pE := curry3 ih_pE; replace ih_eL := curry2 ih_eL
    dsimp only at ih_pE ih_eL ⊢
    obtain ⟨x, st'⟩ := r
    pdecompD h [ih_pE, ih_eL, anc_parseFunctionParameters]
    all_goals clear ih_pE ih_eL
    all_goals anc_close
  · -- exprListLoop
    intro pE eL ih_pE ih_eL acc st r h
    replace ih_pE := curry3 ih_pE; replace ih_eL := curry2 ih_eL
    dsimp only at ih_pE ih_eL ⊢
    obtain ⟨x, st'⟩ := r
    pdecompD h [ih_pE, ih_eL, anc_parseFunctionParameters]
    all_goals clear ih_pE ih_eL
    all_goals anc_close
  · -- parsePrefixExpression
    intro pE pL pFE pO ih_pE ih_pL ih_pFE ih_pO  st r h
    replace ih_pE := curry3 ih_pE; replace ih_pL := curry2 ih_pL; replace ih_pFE := curry1 ih_pFE; replace ih_pO := curry1 ih_pO
    dsimp only at ih_pE ih_pL ih_pFE ih_pO ⊢
    obtain ⟨x, st'⟩ := r
    pdecompD h [ih_pE, ih_pL, ih_pFE, ih_pO, anc_parseFunctionParameters]
    all_goals clear ih_pE ih_pL ih_pFE ih_pO
    all_goals anc_close
  · -- parseFunctionExpression
    intro pB ih_pB  st r h
    replace ih_pB := curry1 ih_pB
    dsimp only at ih_pB ⊢
    obtain ⟨x, st'⟩ := r
    pdecompD h [ih_pB, anc_parseFunctionParameters]
    all_goals clear ih_pB
    all_goals anc_close
  · -- parseBlockStatement
    intro bL ih_bL  st r h
    replace ih_bL := curry2 ih_bL
    dsimp only at ih_bL ⊢
    obtain ⟨x, st'⟩ := r
    pdecompD h [ih_bL, anc_parseFunctionParameters]
    all_goals clear ih_bL
    all_goals anc_close
  · -- blockLoop
    intro pS bL ih_pS ih_bL acc st r h
    replace ih_pS := curry2 ih_pS; replace ih_bL := curry2 ih_bL
    dsimp only at ih_pS ih_bL ⊢
    obtain ⟨x, st'⟩ := r
    pdecompD h [ih_pS, ih_bL, anc_parseFunctionParameters]
    all_goals clear ih_pS ih_bL
    all_goals anc_close
  · -- parseObjectLiteral
    intro oL ih_oL  st r h
    replace ih_oL := curry2 ih_oL
    dsimp only at ih_oL ⊢
    obtain ⟨x, st'⟩ := r
    pdecompD h [ih_oL, anc_parseFunctionParameters]
    all_goals clear ih_oL
    all_goals anc_close
  · -- objectLoop
    intro pE oL ih_pE ih_oL acc st r h
    replace ih_pE := curry3 ih_pE; replace ih_oL := curry2 ih_oL
    dsimp only at ih_pE ih_oL ⊢
    obtain ⟨x, st'⟩ := r
    pdecompD h [ih_pE, ih_oL, anc_parseFunctionParameters]
    all_goals clear ih_pE ih_oL
    all_goals anc_close
  · -- parseForStatement
    intro pS pE pFI ih_pS ih_pE ih_pFI  st r h
    replace ih_pS := curry2 ih_pS; replace ih_pE := curry3 ih_pE; replace ih_pFI := curry1 ih_pFI
    dsimp only at ih_pS ih_pE ih_pFI ⊢
    obtain ⟨x, st'⟩ := r
    pdecompD h [ih_pS, ih_pE, ih_pFI, anc_parseFunctionParameters]
    all_goals clear ih_pS ih_pE ih_pFI
    all_goals anc_close
  · -- parseForInit
    intro pE pLE ih_pE ih_pLE  st r h
    replace ih_pE := curry3 ih_pE; replace ih_pLE := curry1 ih_pLE
    dsimp only at ih_pE ih_pLE ⊢
    obtain ⟨x, st'⟩ := r
    pdecompD h [ih_pE, ih_pLE, anc_parseFunctionParameters]
    all_goals clear ih_pE ih_pLE
    all_goals anc_close
  · -- parseLetExpression
    intro pE ih_pE  st r h
    replace ih_pE := curry3 ih_pE
    dsimp only at ih_pE ⊢
    obtain ⟨x, st'⟩ := r
    pdecompD h [ih_pE, anc_parseFunctionParameters]
    all_goals clear ih_pE
    all_goals anc_close
  · -- parseWhileStatement
    intro pS pE ih_pS ih_pE  st r h
    replace ih_pS := curry2 ih_pS; replace ih_pE := curry3 ih_pE
    dsimp only at ih_pS ih_pE ⊢
    obtain ⟨x, st'⟩ := r
    pdecompD h [ih_pS, ih_pE, anc_parseFunctionParameters]
    all_goals clear ih_pS ih_pE
    all_goals anc_close
  · -- parseIfStatement
    intro pS pE ih_pS ih_pE  st r h
    replace ih_pS := curry2 ih_pS; replace ih_pE := curry3 ih_pE
    dsimp only at ih_pS ih_pE ⊢
    obtain ⟨x, st'⟩ := r
    pdecompD h [ih_pS, ih_pE, anc_parseFunctionParameters]
    all_goals clear ih_pS ih_pE
    all_goals anc_close
  · -- parseReturnStatement
    intro pE ih_pE  st r h
    replace ih_pE := curry3 ih_pE
    dsimp only at ih_pE ⊢
    obtain ⟨x, st'⟩ := r
    pdecompD h [ih_pE, anc_parseFunctionParameters]
    all_goals clear ih_pE
    all_goals anc_close
  · -- parseFunctionStatement
    intro pB ih_pB  st r h
    replace ih_pB := curry1 ih_pB
    dsimp only at ih_pB ⊢
    obtain ⟨x, st'⟩ := r
    pdecompD h [ih_pB, anc_parseFunctionParameters]
    all_goals clear ih_pB
    all_goals anc_close
  · -- parseLetStatement
    intro pE ih_pE  st r h
    replace ih_pE := curry3 ih_pE
    dsimp only at ih_pE ⊢
    obtain ⟨x, st'⟩ := r
    pdecompD h [ih_pE, anc_parseFunctionParameters]
    all_goals clear ih_pE
    all_goals anc_close

end Xjs
