import XjsModel.Proofs.PrinterPos
/-
  The position invariant is preserved by every printer (structural recursion over the tree).
-/
namespace Xjs

attribute [local irreducible] CW.openIf CW.closeIf CW.sepIf CW.newlineIf CW.head CW.writeString CW.writeRune CW.writeSemi
  CW.separateSigns CW.increaseIndent CW.decreaseIndent CW.writeIndent CW.writeNewline CW.writeSpace CW.leadingComments
  CW.addMapping CW.addNamedMapping CW.panic writeIdent writeParams

theorem posinv_ite {c : Prop} [Decidable c] {a b : CW} (h1 : PosInv a) (h2 : PosInv b) : PosInv (if c then a else b) := by
  split <;> assumption

/-- destructure the `nocr` hypothesis of the current node into atomic facts -/
macro "nocr_facts" h:ident : tactic => `(tactic|
  (simp only [Expr.nocr, Stmt.nocr, ExprList.nocr, StmtList.nocr, PropList.nocr, identNocr, Bool.and_eq_true] at $h:ident))

mutual
  theorem pos_writeExpr : ∀ (e : Expr) (cw : CW), e.nocr = true → PosInv cw → PosInv (writeExpr e cw)
    | .none, cw, h, hi => by simp only [writeExpr]; repeat' pos_step
    | .ident id, cw, h, hi => by nocr_facts h; simp only [writeExpr]; repeat' pos_step
    | .int tok, cw, h, hi => by nocr_facts h; simp only [writeExpr]; repeat' pos_step
    | .float tok, cw, h, hi => by nocr_facts h; simp only [writeExpr]; repeat' pos_step
    | .str tok v, cw, h, hi => by nocr_facts h; simp only [writeExpr]; repeat' pos_step
    | .raw tok v, cw, h, hi => by nocr_facts h; simp only [writeExpr]; repeat' pos_step
    | .bool tok v, cw, h, hi => by nocr_facts h; simp only [writeExpr]; repeat' pos_step
    | .null tok, cw, h, hi => by simp only [writeExpr]; repeat' pos_step
    | .letE tok name v, cw, h, hi => by
      nocr_facts h; obtain ⟨h1, h2⟩ := h
      simp only [writeExpr]
      repeat' (first | apply posinv_ite | (apply pos_writeExpr v _ h2) | pos_step)
    | .binary tok l op r, cw, h, hi => by
      nocr_facts h; obtain ⟨⟨h1, h2⟩, h3⟩ := h
      simp only [writeExpr]
      repeat' (first | apply posinv_ite | (apply pos_writeExpr l _ h1) | (apply pos_writeExpr r _ h3) | pos_step)
    | .unary tok op r, cw, h, hi => by
      nocr_facts h; obtain ⟨h1, h2⟩ := h
      simp only [writeExpr]
      repeat' (first | apply posinv_ite | (apply pos_writeExpr r _ h2) | pos_step)
    | .postfix tok l op, cw, h, hi => by
      nocr_facts h; obtain ⟨h1, h2⟩ := h
      simp only [writeExpr]
      repeat' (first | apply posinv_ite | (apply pos_writeExpr l _ h1) | pos_step)
    | .group tok e rp, cw, h, hi => by
      nocr_facts h
      simp only [writeExpr]
      repeat' (first | (apply pos_writeExpr e _ h) | pos_step)
    | .call tok fn args, cw, h, hi => by
      nocr_facts h; obtain ⟨h1, h2⟩ := h
      simp only [writeExpr]
      repeat' (first | (apply pos_writeExpr fn _ h1) | (apply pos_writeExprList args _ _ h2) | pos_step)
    | .member tok obj prop c, cw, h, hi => by
      nocr_facts h; obtain ⟨h1, h2⟩ := h
      simp only [writeExpr]
      repeat' (first | apply posinv_ite | (apply pos_writeExpr obj _ h1) | (apply pos_writeExpr prop _ h2) | pos_step)
    | .assign tok l v, cw, h, hi => by
      nocr_facts h; obtain ⟨h1, h2⟩ := h
      simp only [writeExpr]
      repeat' (first | (apply pos_writeExpr l _ h1) | (apply pos_writeExpr v _ h2) | pos_step)
    | .compound tok l op v, cw, h, hi => by
      nocr_facts h; obtain ⟨⟨h1, h2⟩, h3⟩ := h
      simp only [writeExpr]
      repeat' (first | (apply pos_writeExpr l _ h1) | (apply pos_writeExpr v _ h3) | pos_step)
    | .func tok name params body, cw, h, hi => by
      cases name with
      | none =>
        simp only [Expr.nocr, Bool.and_eq_true, Bool.true_and] at h; obtain ⟨h2, h3⟩ := h
        simp only [writeExpr]
        repeat' (first | (apply pos_writeStmt body _ h3) | pos_step)
      | some n =>
        simp only [Expr.nocr, identNocr, Bool.and_eq_true] at h; obtain ⟨⟨h1, h2⟩, h3⟩ := h
        simp only [writeExpr]
        repeat' (first | (apply pos_writeStmt body _ h3) | pos_step)
    | .array tok elems rb, cw, h, hi => by
      nocr_facts h
      simp only [writeExpr]
      repeat' (first | (apply pos_writeExprList elems _ _ h) | pos_step)
    | .object tok props rb, cw, h, hi => by
      nocr_facts h
      simp only [writeExpr]
      repeat' (first | (apply pos_writeProps props _ _ h) | pos_step)
  theorem pos_writeExprList : ∀ (es : ExprList) (first : Bool) (cw : CW), es.nocr = true → PosInv cw →
      PosInv (writeExprList es first cw)
    | .nil, _, cw, _, hi => by simp only [writeExprList]; exact hi
    | .cons e rest, first, cw, h, hi => by
      nocr_facts h; obtain ⟨h1, h2⟩ := h
      simp only [writeExprList]
      repeat' (first | (apply pos_writeExprList rest _ _ h2) | (apply pos_writeExpr e _ h1) | pos_step)
  theorem pos_writeProps : ∀ (ps : PropList) (first : Bool) (cw : CW), ps.nocr = true → PosInv cw →
      PosInv (writeProps ps first cw)
    | .nil, _, cw, _, hi => by simp only [writeProps]; exact hi
    | .cons k v rest, first, cw, h, hi => by
      nocr_facts h; obtain ⟨⟨h1, h2⟩, h3⟩ := h
      simp only [writeProps]
      repeat' (first | (apply pos_writeProps rest _ _ h3) | (apply pos_writeExpr k _ h1) | (apply pos_writeExpr v _ h2) | pos_step)
  theorem pos_writeStmt : ∀ (s : Stmt) (cw : CW), s.nocr = true → PosInv cw → PosInv (writeStmt s cw)
    | .none, cw, h, hi => by simp only [writeStmt]; repeat' pos_step
    | .letS tok name v, cw, h, hi => by
      nocr_facts h; obtain ⟨h1, h2⟩ := h
      simp only [writeStmt]
      repeat' (first | apply posinv_ite | (apply pos_writeExpr v _ h2) | pos_step)
    | .ret tok v, cw, h, hi => by
      nocr_facts h
      simp only [writeStmt]
      repeat' (first | apply posinv_ite | (apply pos_writeExpr v _ h) | pos_step)
    | .exprS e, cw, h, hi => by
      nocr_facts h
      simp only [writeStmt]
      repeat' (first | apply posinv_ite | (apply pos_writeExpr e _ h) | pos_step)
    | .funcD tok name params body, cw, h, hi => by
      nocr_facts h; obtain ⟨⟨h1, h2⟩, h3⟩ := h
      simp only [writeStmt]
      repeat' (first | (apply pos_writeStmt body _ h3) | pos_step)
    | .block tok stmts rb, cw, h, hi => by
      nocr_facts h
      simp only [writeStmt]
      repeat' (first | (apply pos_writeBlockStmts stmts _ _ h) | pos_step)
    | .ifS tok c t e, cw, h, hi => by
      nocr_facts h; obtain ⟨⟨h1, h2⟩, h3⟩ := h
      simp only [writeStmt]
      repeat' (first | apply posinv_ite | (apply pos_writeExpr c _ h1) | (apply pos_writeStmt t _ h2) | (apply pos_writeStmt e _ h3) | pos_step)
    | .whileS tok c body, cw, h, hi => by
      nocr_facts h; obtain ⟨h1, h2⟩ := h
      simp only [writeStmt]
      repeat' (first | (apply pos_writeExpr c _ h1) | (apply pos_writeStmt body _ h2) | pos_step)
    | .forS tok i c u body, cw, h, hi => by
      nocr_facts h; obtain ⟨⟨⟨h1, h2⟩, h3⟩, h4⟩ := h
      simp only [writeStmt]
      repeat' (first | apply posinv_ite | (apply pos_writeExpr i _ h1) | (apply pos_writeExpr c _ h2) | (apply pos_writeExpr u _ h3)
                     | (apply pos_writeStmt body _ h4) | pos_step)
  theorem pos_writeBlockStmts : ∀ (ss : StmtList) (first : Bool) (cw : CW), ss.nocr = true → PosInv cw →
      PosInv (writeBlockStmts ss first cw)
    | .nil, _, cw, _, hi => by simp only [writeBlockStmts]; exact hi
    | .cons s rest, first, cw, h, hi => by
      nocr_facts h; obtain ⟨h1, h2⟩ := h
      simp only [writeBlockStmts]
      repeat' (first | (apply pos_writeBlockStmts rest _ _ h2) | (apply pos_writeStmt s _ h1) | pos_step)
  theorem pos_writeProgramStmts : ∀ (ss : StmtList) (first : Bool) (cw : CW), ss.nocr = true → PosInv cw →
      PosInv (writeProgramStmts ss first cw)
    | .nil, _, cw, _, hi => by simp only [writeProgramStmts]; exact hi
    | .cons s rest, first, cw, h, hi => by
      nocr_facts h; obtain ⟨h1, h2⟩ := h
      simp only [writeProgramStmts]
      repeat' (first | (apply pos_writeProgramStmts rest _ _ h2) | (apply pos_writeStmt s _ h1) | pos_step)
end

end Xjs
