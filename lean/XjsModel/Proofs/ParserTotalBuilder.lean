import XjsModel.Proofs.ParserTotal
import XjsModel.Model.Builder
/-
  Totality, part 3: the operator tables of every parser a `Builder` produces satisfy `TablesOk`, provided no
  operator is registered for the EOF token and infix operators are registered at a level ≥ LOWEST.
-/
namespace Xjs.Total
open Xjs

theorem lookup_cons {β} (t : TokType) (v : β) (l : List (TokType × β)) (ty : TokType) :
    lookup ((t, v) :: l) ty = if t == ty then some v else lookup l ty := by
  unfold lookup
  simp only [List.find?_cons]
  cases h : (t == ty) <;> simp

/-- the two tables that the Pratt loop consults, extended in lockstep -/
def Lock (precs : List (TokType × Nat)) (infixFns : List (TokType × InfixKind)) : Prop :=
  (∀ ty, 1 < (lookup precs ty).getD LOWEST → (lookup infixFns ty).isSome = true) ∧
  (∀ ty, 1 ≤ (lookup precs ty).getD LOWEST) ∧ lookup infixFns .eof = none

theorem Lock.cons {precs infixFns} (h : Lock precs infixFns) (t : TokType) (p : Nat) (k : InfixKind)
    (ht : t ≠ .eof) (hp : 1 ≤ p) : Lock ((t, p) :: precs) ((t, k) :: infixFns) := by
  refine ⟨?_, ?_, ?_⟩
  · intro ty
    rw [lookup_cons, lookup_cons]
    by_cases e : (t == ty) = true
    · simp [e]
    · simp only [e, Bool.false_eq_true, if_false]; exact h.1 ty
  · intro ty
    rw [lookup_cons]
    by_cases e : (t == ty) = true
    · simp [e, hp]
    · simp only [e, Bool.false_eq_true, if_false]; exact h.2.1 ty
  · rw [lookup_cons]
    have : (t == TokType.eof) = false := by simpa using ht
    simp only [this, Bool.false_eq_true, if_false]; exact h.2.2

theorem lock_base : Lock basePrecedences baseInfixFns := by
  have h := tablesOk_base false false [] []
  exact ⟨h.infix_of_prec, h.prec_pos, h.eof_no_infix⟩

theorem lock_infix (ops : List (TokType × Nat)) (h0 : ∀ op ∈ ops, op.1 ≠ .eof ∧ 1 ≤ op.2) :
    ∀ acc : List (TokType × Nat) × List (TokType × InfixKind), Lock acc.1 acc.2 →
      Lock (ops.foldl (fun acc op => ((op.1, op.2) :: acc.1, (op.1, InfixKind.binary) :: acc.2)) acc).1
           (ops.foldl (fun acc op => ((op.1, op.2) :: acc.1, (op.1, InfixKind.binary) :: acc.2)) acc).2 := by
  induction ops with
  | nil => intro acc h; exact h
  | cons op ops ih =>
    intro acc h
    simp only [List.foldl_cons]
    have := h0 op (by simp)
    exact ih (fun o ho => h0 o (by simp [ho])) _ (h.cons op.1 op.2 .binary this.1 this.2)

theorem lock_postfix (ops : List TokType) (h0 : ∀ t ∈ ops, t ≠ .eof) :
    ∀ acc : List (TokType × Nat) × List (TokType × InfixKind), Lock acc.1 acc.2 →
      Lock (ops.foldl (fun acc t => ((t, CALL) :: acc.1, (t, InfixKind.postfix) :: acc.2)) acc).1
           (ops.foldl (fun acc t => ((t, CALL) :: acc.1, (t, InfixKind.postfix) :: acc.2)) acc).2 := by
  induction ops with
  | nil => intro acc h; exact h
  | cons t ops ih =>
    intro acc h
    simp only [List.foldl_cons]
    exact ih (fun o ho => h0 o (by simp [ho])) _ (h.cons t CALL .postfix (h0 t (by simp)) (by decide))

theorem prefix_eof (ops : List TokType) (h0 : ∀ t ∈ ops, t ≠ .eof) :
    ∀ acc : List (TokType × PrefixKind), lookup acc .eof = none →
      lookup (ops.foldl (fun fns t => (t, PrefixKind.unary) :: fns) acc) .eof = none := by
  induction ops with
  | nil => intro acc h; exact h
  | cons t ops ih =>
    intro acc h
    simp only [List.foldl_cons]
    refine ih (fun o ho => h0 o (by simp [ho])) _ ?_
    rw [lookup_cons]
    have : (t == TokType.eof) = false := by simpa using h0 t (by simp)
    simp only [this, Bool.false_eq_true, if_false]; exact h

/-- every configuration a builder produces has tables the Pratt loop terminates on -/
theorem tablesOk_builder (b : Builder) (si : List SI) (ei : List EI)
    (hp : ∀ t ∈ b.prefixOps, t ≠ .eof) (hi : ∀ op ∈ b.infixOps, op.1 ≠ .eof ∧ 1 ≤ op.2) (hq : ∀ t ∈ b.postfixOps, t ≠ .eof) :
    TablesOk (b.config si ei) := by
  have h1 := lock_infix b.infixOps.reverse (fun op ho => hi op (by simpa using ho)) (basePrecedences, baseInfixFns) lock_base
  have h2 := lock_postfix b.postfixOps hq _ h1
  have h3 := prefix_eof b.prefixOps.reverse (fun t ht => hp t (by simpa using ht)) basePrefixFns (by decide)
  unfold Builder.config
  exact ⟨h2.1, h2.2.1, h2.2.2, h3⟩

end Xjs.Total
