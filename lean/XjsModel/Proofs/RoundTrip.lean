import XjsModel.Model.Parser
import XjsModel.Model.Printer
/-
  Print → parse round trip at token level, for the operator core of the expression grammar
  (atoms, explicit parentheses, prefix operators, the thirteen binary operators, postfix operators):

    the token sequence that the PRINTER'S parenthesisation rule produces for a tree
    (left operand parenthesised iff its precedence is lower, right operand iff lower OR EQUAL, unary operand iff
    lower than UNARY, postfix operand iff lower than POSTFIX — `ast.go`) is parsed by the Pratt loop of the PARSER
    (binding powers of `parser.go`, right operand parsed at the operator's own level) back to exactly that tree,
    with the printer's parentheses as grouping nodes — for EVERY tree, any depth, any operator combination.

  The proof is the classical Pratt invariant
      parseExpression p (toks s ++ rest) = parseRemaining (tree s) p (last token of s :: rest)
  under `fits p s` (every operator on the left spine binds tighter than p) and `stops (rbl s) rest`
  (the next token cannot continue a loop still open at the right end of s). The two side conditions are exactly
  the printer's `<` (left) and `≤` (right) tests, which is why a slip there, or a disagreement between the two
  precedence tables, breaks the proof.
-/
namespace Xjs.RT
open Xjs

/-- spec expressions: a shape together with the tokens its nodes carry -/
inductive SE where
  | atom (t : Token)
  | grp (e : SE)
  | un (t : Token) (r : SE)
  | bin (t : Token) (l r : SE)
  | post (t : Token) (l : SE)

def lpT : Token := { type := .lparen, lit := [40], sl := 0, sc := 0, el := 0, ec := 0 }
def rpT : Token := { type := .rparen, lit := [41], sl := 0, sc := 0, el := 0, ec := 0 }

/-- `Precedence()` of the node (the printer's side) -/
def SE.level : SE → Nat
  | .atom _ => precAtomic
  | .grp _ => precAtomic
  | .un _ _ => precUnary
  | .bin t _ _ => operatorPrecedence t.type
  | .post _ _ => precPostfix

def wrapToks (b : Bool) (ts : List Token) : List Token := if b then lpT :: ts ++ [rpT] else ts
def wrapTree (b : Bool) (e : Expr) : Expr := if b then .group lpT e rpT else e

/-- the printer's parenthesisation tests (ast.go) -/
def parenLeft (my : Nat) (l : SE) : Bool := l.level < my
def parenRight (my : Nat) (r : SE) : Bool := r.level ≤ my
def parenUnary (r : SE) : Bool := r.level < precUnary
def parenPostfix (l : SE) : Bool := l.level < precPostfix

/-- the token sequence the printer emits -/
def SE.toks : SE → List Token
  | .atom t => [t]
  | .grp e => lpT :: e.toks ++ [rpT]
  | .un t r => t :: wrapToks (parenUnary r) r.toks
  | .bin t l r => wrapToks (parenLeft (operatorPrecedence t.type) l) l.toks ++ t ::
                  wrapToks (parenRight (operatorPrecedence t.type) r) r.toks
  | .post t l => wrapToks (parenPostfix l) l.toks ++ [t]

def atomTree (t : Token) : Expr :=
  match lookup basePrefixFns t.type with
  | some .ident => .ident { tok := t, value := t.lit }
  | some .int => .int t
  | some .float => .float t
  | some .string => .str t t.lit
  | some .rawString => .raw t t.lit
  | some .bool => .bool t (t.type == .true_)
  | _ => .null t

/-- the tree the parser is expected to return: the printer's parentheses are grouping nodes -/
def SE.tree : SE → Expr
  | .atom t => atomTree t
  | .grp e => .group lpT e.tree rpT
  | .un t r => .unary t t.lit (wrapTree (parenUnary r) r.tree)
  | .bin t l r => .binary t (wrapTree (parenLeft (operatorPrecedence t.type) l) l.tree) t.lit
                    (wrapTree (parenRight (operatorPrecedence t.type) r) r.tree)
  | .post t l => .postfix t (wrapTree (parenPostfix l) l.tree) t.lit

/-- well-formed: every token is of the class its position needs -/
def SE.wf : SE → Bool
  | .atom t =>
    match lookup basePrefixFns t.type with
    | some .ident | some .string | some .rawString | some .bool | some .null => true
    | some .int => parseIntOk t.lit
    | some .float => parseFloatOk t.lit
    | _ => false
  | .grp e => e.wf
  | .un t r => lookup basePrefixFns t.type == some .unary && r.wf
  | .bin t l r => lookup baseInfixFns t.type == some .binary && l.wf && r.wf
  | .post t l => lookup baseInfixFns t.type == some .postfix && l.wf

/-- the lowest level of a loop still open at the right end of the expression -/
def SE.rbl : SE → Nat
  | .atom _ => precAtomic
  | .grp _ => precAtomic
  | .un _ r => if parenUnary r then precUnary else min precUnary r.rbl
  | .bin t _ r => if parenRight (operatorPrecedence t.type) r then operatorPrecedence t.type
                  else min (operatorPrecedence t.type) r.rbl
  | .post _ _ => precAtomic

/-- every operator on the left spine binds tighter than `p` -/
def SE.fits (p : Nat) : SE → Prop
  | .atom _ => True
  | .grp _ => True
  | .un _ _ => True
  | .bin t l _ => p < operatorPrecedence t.type ∧ (parenLeft (operatorPrecedence t.type) l = true ∨ l.fits p)
  | .post _ l => p < precPostfix ∧ (parenPostfix l = true ∨ l.fits p)

/-- the parser configurations covered: built-in tables, no interceptors (C04 removes interceptors) -/
structure BaseCfg (cfg : PCfg) : Prop where
  precs : cfg.precs = basePrecedences
  prefixFns : cfg.prefixFns = basePrefixFns
  infixFns : cfg.infixFns = baseInfixFns
  exprI : cfg.exprI = []

/-- the next token cannot continue a loop at level `q` -/
def stops (cfg : PCfg) (q : Nat) (rest : List Token) : Prop :=
  match rest with
  | t :: _ => t.type = .semicolon ∨ precOf cfg t.type ≤ q
  | [] => False

theorem stops_mono {cfg : PCfg} {q q' : Nat} {rest : List Token} (h : stops cfg q rest) (hq : q ≤ q') : stops cfg q' rest := by
  cases rest with
  | nil => exact h
  | cons t r => rcases h with h | h
                · exact Or.inl h
                · exact Or.inr (Nat.le_trans h hq)

/-! ### facts about the tables -/

theorem binary_prec (ty : TokType) (h : lookup baseInfixFns ty = some .binary) :
    precOf { } ty = operatorPrecedence ty ∧ 3 ≤ operatorPrecedence ty ∧ operatorPrecedence ty ≤ 8 ∧
    ty ≠ .semicolon ∧ ty ≠ .lparen ∧ ty ≠ .lbracket := by
  cases ty <;> simp [lookup, baseInfixFns] at h <;> decide

theorem postfix_prec (ty : TokType) (h : lookup baseInfixFns ty = some .postfix) :
    precOf { } ty = precPostfix ∧ ty ≠ .semicolon ∧ ty ≠ .lparen ∧ ty ≠ .lbracket := by
  cases ty <;> simp [lookup, baseInfixFns] at h <;> decide

theorem precOf_base {cfg : PCfg} (hc : BaseCfg cfg) (ty : TokType) : precOf cfg ty = precOf { } ty := by
  unfold precOf; rw [hc.precs]

theorem level_le_rbl (s : SE) : s.level ≤ s.rbl := by
  induction s with
  | atom t => exact Nat.le_refl _
  | grp e _ => exact Nat.le_refl _
  | un t r ih =>
    show precUnary ≤ (if parenUnary r then precUnary else min precUnary r.rbl)
    by_cases h : parenUnary r = true
    · rw [if_pos h]; exact Nat.le_refl _
    · rw [if_neg h]
      have h' : precUnary ≤ r.level := by simpa [parenUnary] using h
      exact Nat.le_min.mpr ⟨Nat.le_refl _, Nat.le_trans h' ih⟩
  | bin t l r _ ih =>
    show operatorPrecedence t.type ≤ (if parenRight (operatorPrecedence t.type) r then operatorPrecedence t.type
        else min (operatorPrecedence t.type) r.rbl)
    by_cases h : parenRight (operatorPrecedence t.type) r = true
    · rw [if_pos h]; exact Nat.le_refl _
    · rw [if_neg h]
      have h' : operatorPrecedence t.type < r.level := by simpa [parenRight] using h
      exact Nat.le_min.mpr ⟨Nat.le_refl _, Nat.le_trans (Nat.le_of_lt h') ih⟩
  | post t l _ => show precPostfix ≤ precAtomic; decide

theorem fits_of_level (s : SE) (hw : s.wf = true) (q : Nat) (h : q < s.level) : s.fits q := by
  induction s with
  | atom t => trivial
  | grp e _ => trivial
  | un t r _ => trivial
  | bin t l r ihl _ =>
    have hw' : (lookup baseInfixFns t.type == some .binary && l.wf && r.wf) = true := hw
    simp only [Bool.and_eq_true] at hw'
    have h' : q < operatorPrecedence t.type := h
    refine ⟨h', ?_⟩
    by_cases hp : parenLeft (operatorPrecedence t.type) l = true
    · exact Or.inl hp
    · right
      have hp' : operatorPrecedence t.type ≤ l.level := by simpa [parenLeft] using hp
      exact ihl hw'.1.2 (Nat.lt_of_lt_of_le h' hp')
  | post t l ihl =>
    have hw' : (lookup baseInfixFns t.type == some .postfix && l.wf) = true := hw
    simp only [Bool.and_eq_true] at hw'
    have h' : q < precPostfix := h
    refine ⟨h', ?_⟩
    by_cases hp : parenPostfix l = true
    · exact Or.inl hp
    · right
      have hp' : precPostfix ≤ l.level := by simpa [parenPostfix] using hp
      exact ihl hw'.2 (Nat.lt_of_lt_of_le h' hp')

theorem toks_ne_nil (s : SE) : s.toks ≠ [] := by
  cases s <;> simp [SE.toks, wrapToks] <;> (try split) <;> simp

end Xjs.RT
