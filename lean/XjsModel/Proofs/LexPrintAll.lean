import XjsModel.Proofs.LexPrintTree
/-
  Lexing what the printer spells, part 6: from `LexTo` to the token list `lexAll` returns; the compact compiler's text;
  decidable sufficient conditions for the sanity of literals.
-/
namespace Xjs.LP
open Xjs Xjs.RA

/-- everything the parser can see of a token but its position -/
def keyOf4 (t : Token) : Key × Bool × List Bytes := ((t.type, t.lit), t.nl, t.comments)
/-- the key of a token that stands on the line of its predecessor with no comment in between -/
def quietKey (t : Token) : Key × Bool × List Bytes := ((t.type, t.lit), false, [])
def eofKey : Key × Bool × List Bytes := ((.eof, []), false, [])

theorem blanks_eof : ∀ (n : Nat) (s : LS), s.rest = List.replicate n 32 → keyOf4 (nextToken s).1 = eofKey
  | 0, s, h => by rw [nextToken_at_end s (by simpa using h)]; rfl
  | n + 1, s, h => by
    rw [nextToken_blank s (List.replicate n 32) (by rw [h, List.replicate_succ])]
    exact blanks_eof n (readChar s) (by rw [readChar_rest, h, List.replicate_succ]; rfl)

/-- if the text lexes to `ks` and nothing is left, `lexGo` (with enough fuel) returns tokens with exactly those keys, none
    of them after a line break or a comment, followed by the end-of-input token -/
theorem lexGo_of_LexTo {b : Bytes} {ks : List Key} {r : Bytes} (h : LexTo b ks r) (hr : r = []) :
    ∀ (fuel : Nat) (s : LS), s.rest = b → b.length < fuel →
      (lexGo fuel s).map keyOf4 = ks.map (fun k => (k, false, [])) ++ [eofKey] := by
  induction h with
  | done n r =>
    intro fuel s hs hf
    subst hr
    cases fuel with
    | zero => omega
    | succ fuel =>
      have h1 := blanks_eof n s (by simpa using hs)
      have hty : (nextToken s).1.type = .eof := by
        have := congrArg (fun x => x.1.1) h1; simpa [keyOf4, eofKey] using this
      simp only [lexGo, hty, beq_self_eq_true, if_true, List.map_cons, List.map_nil, List.nil_append, h1]
  | @tok b b' r k ks hk hne _ ih =>
    intro fuel s hs hf
    cases fuel with
    | zero => omega
    | succ fuel =>
      have h3 := hk s hs
      simp only [key3, Prod.mk.injEq] at h3
      have hty : (nextToken s).1.type ≠ .eof := by rw [show (nextToken s).1.type = k.1 from by rw [← h3.1]]; exact hne
      have hlt := nextToken_progress s hty
      have hrest : (nextToken s).2.rest = b' := h3.2.1
      have := ih hr fuel (nextToken s).2 hrest (by rw [hrest] at hlt; rw [hs] at hlt; omega)
      simp only [lexGo, show ((nextToken s).1.type == TokType.eof) = false from by simpa using hty, Bool.false_eq_true, if_false,
        List.map_cons, this, List.cons_append]
      congr 1
      simp only [keyOf4, h3.2.2.1, h3.2.2.2]
      rw [← h3.1]

theorem lexAll_of_LexTo {src : Bytes} {ks : List Key} (h : LexTo src ks []) :
    (lexAll src).map keyOf4 = ks.map (fun k => (k, false, [])) ++ [eofKey] :=
  lexGo_of_LexTo h rfl (src.length + 1) (LS.init src) rfl (Nat.lt_succ_self _)

theorem compact_LexTo (cfg : CompCfg) (hc : cfg.pretty = false) (prog : SSList) (hw : prog.wf = true) (ht : prog.term = true)
    (hs : saneB prog) : LexTo (compile cfg prog.tree).code (prog.toks.map keyOf) [] := by
  unfold compile
  simp only [hc, Bool.false_eq_true, if_false]
  obtain ⟨fc, h, ha⟩ := (lexB prog hw ht hs).2 true
    (WInv.init { pretty := cfg.pretty, indentString := cfg.indent, semis := cfg.semis,
                 mapper := if cfg.sourceMap then some Mapper.new else none } hc rfl rfl) allOK_any
  have := h.lex [] (ha [])
  simpa [hc] using this

/-- COMPACT TEXT → TOKENS: for every well-formed program tree with lexically sane tokens, the text the compiler emits in
    compact mode (with or without a source map) is read by the lexer as exactly the tokens `toks` of the tree — type and
    literal of each, no token after a line break, none with a comment — followed by end of input -/
theorem compact_text_lexes4 (cfg : CompCfg) (hc : cfg.pretty = false) (prog : SSList) (hw : prog.wf = true) (ht : prog.term = true)
    (hs : saneB prog) : (lexAll (compile cfg prog.tree).code).map keyOf4 = prog.toks.map quietKey ++ [eofKey] := by
  rw [lexAll_of_LexTo (compact_LexTo cfg hc prog hw ht hs), List.map_map]
  rfl

theorem compact_text_lexes (cfg : CompCfg) (hc : cfg.pretty = false) (prog : SSList) (hw : prog.wf = true) (ht : prog.term = true)
    (hs : saneB prog) : (lexAll (compile cfg prog.tree).code).map keyOf = prog.toks.map keyOf ++ [(.eof, [])] := by
  have := congrArg (List.map Prod.fst) (compact_text_lexes4 cfg hc prog hw ht hs)
  have e : keyOf = fun x : Token => (x.type, x.lit) := rfl
  rw [e]
  simpa [List.map_map, Function.comp_def, keyOf4, quietKey, eofKey] using this

/-! ## decidable sufficient conditions for literal sanity -/

/-- a body without NUL, `"` and backslash -/
def plainStr (v : Bytes) : Bool := v.all (fun c => c != 0 && c != 34 && c != 92)

theorem scanString_plain (r : Bytes) : ∀ (v : Bytes), plainStr v = true → ∀ (fuel : Nat) (acc : Bytes) (n : Nat), v.length < fuel →
    scanString 34 fuel (v ++ 34 :: r) acc n = (acc ++ v, n + v.length)
  | [], _, fuel, acc, n, hf => by
    cases fuel with
    | zero => simp at hf
    | succ fuel => simp [scanString]
  | c :: v, hv, fuel, acc, n, hf => by
    cases fuel with
    | zero => simp at hf
    | succ fuel =>
      simp only [plainStr, List.all_cons, Bool.and_eq_true, bne_iff_ne, ne_eq] at hv
      have ih := scanString_plain r v (by simpa [plainStr] using hv.2) fuel (acc ++ [c]) (n + 1) (by simp at hf; omega)
      simp only [List.cons_append, scanString, beq_iff_eq, hv.1.1.1, hv.1.2, hv.1.1.2, if_false]
      rw [ih]; simp; omega

theorem strOk_plain (v : Bytes) (h : plainStr v = true) : strOk v := fun r => by
  have := scanString_plain r v h (v ++ 34 :: r).length [] 0 (by simp)
  simpa using this

/-- a value without NUL and backslash (backticks allowed: the printer escapes them, the lexer unescapes them) -/
def plainRaw (v : Bytes) : Bool := v.all (fun c => c != 0 && c != 92)

theorem scanRaw_plain (r : Bytes) : ∀ (v : Bytes), plainRaw v = true → ∀ (acc : Bytes) (n : Nat),
    scanRaw (escBackticks v ++ 96 :: r) acc n = (acc ++ v, n + (escBackticks v).length)
  | [], _, acc, n => by
    show scanRaw (96 :: r) acc n = _
    rw [scanRaw.eq_def]; simp [escBackticks]
  | c :: v, hv, acc, n => by
    simp only [plainRaw, List.all_cons, Bool.and_eq_true, bne_iff_ne, ne_eq] at hv
    by_cases h96 : c = 96
    · subst h96
      have ih := scanRaw_plain r v (by simpa [plainRaw] using hv.2) (acc ++ [96]) (n + 2)
      have e : escBackticks (96 :: v) = 92 :: 96 :: escBackticks v := by simp [escBackticks]
      rw [e]
      show scanRaw (92 :: 96 :: (escBackticks v ++ 96 :: r)) acc n = _
      rw [scanRaw.eq_def]; simp only [beq_self_eq_true, if_true, show ((92 : Nat) == 0) = false from rfl, Bool.false_eq_true, if_false]
      rw [ih]; simp; omega
    · have ih := scanRaw_plain r v (by simpa [plainRaw] using hv.2) (acc ++ [c]) (n + 1)
      have e : escBackticks (c :: v) = c :: escBackticks v := by simp [escBackticks, h96]
      rw [e]
      show scanRaw (c :: (escBackticks v ++ 96 :: r)) acc n = _
      rw [scanRaw.eq_def]; simp only [beq_iff_eq, hv.1.1, hv.1.2, h96, if_false]
      rw [ih]; simp; omega

theorem rawOk_plain (v : Bytes) (h : plainRaw v = true) : rawOk v := fun r => by
  simpa using scanRaw_plain r v h [] 0

/-- a non-empty run of decimal digits -/
def decimalLit (w : Bytes) : Bool := !w.isEmpty && w.all isDigit

theorem digit_not_letter (c : Nat) (h : isDigit c = true) : isLetter c = false := by
  unfold isDigit at h; unfold isLetter
  simp only [Bool.and_eq_true, decide_eq_true_eq] at h
  simp only [Bool.or_eq_false_iff, Bool.and_eq_false_iff, decide_eq_false_iff_not, beq_eq_false_iff_ne]
  omega

theorem ne_of_not_letter (c k : Nat) (h : isLetter c = false) (hk : isLetter k = true) : (c == k) = false := by
  cases e : c == k
  · rfl
  · have : c = k := by simpa using e
    subst this; rw [h] at hk; cases hk

theorem numOk_decimal (w : Bytes) (h : decimalLit w = true) : numOk w .int := by
  cases w with
  | nil => cases h
  | cons c w' =>
    simp only [decimalLit, List.isEmpty_cons, Bool.not_false, Bool.true_and, List.all_cons, Bool.and_eq_true] at h
    refine ⟨by simpa using h.1, fun r hr => ?_⟩
    simp only [fol, Bool.and_eq_true, Bool.not_eq_true', isWordByte, Bool.or_eq_false_iff] at hr
    -- the second byte is a digit or the first byte of `r`: never a letter
    have hp : isLetter (((c :: w') ++ r).tail.headD 0) = false := by
      cases w' with
      | nil => simpa using hr.1.1
      | cons d w'' => simp only [List.all_cons, Bool.and_eq_true] at h; simpa using digit_not_letter d h.2.1
    have hn1 : takeWhileLen isDigit ((c :: w') ++ r) = (c :: w').length := by
      unfold takeWhileLen
      rw [takeWhile_append_stop isDigit (c :: w') r (by
        intro x hx; rcases List.mem_cons.1 hx with rfl | hx
        · exact h.1
        · exact (List.all_eq_true.1 h.2) x hx) (Or.inl hr.1.2)]
    unfold scanNumber
    simp only [ne_of_not_letter _ 120 hp rfl, ne_of_not_letter _ 88 hp rfl, ne_of_not_letter _ 98 hp rfl, ne_of_not_letter _ 66 hp rfl,
      ne_of_not_letter _ 111 hp rfl, ne_of_not_letter _ 79 hp rfl, Bool.or_self, Bool.and_false, Bool.false_eq_true, if_false, hn1,
      List.drop_left']
    have hfrac : (r.headD 0 == 46 && isDigit (r.tail.headD 0)) = false := by simpa using hr.2
    simp only [hfrac, Bool.false_eq_true, if_false, List.drop_left', ne_of_not_letter _ 101 hr.1.1 rfl, ne_of_not_letter _ 69 hr.1.1 rfl,
      Bool.or_self]

/-- digits `.` digits: a decimal literal with a fraction -/
def fractionLit (d1 d2 : Bytes) : Bool := !d1.isEmpty && d1.all isDigit && !d2.isEmpty && d2.all isDigit

theorem takeWhileLen_digits (d rest : Bytes) (hd : d.all isDigit = true) (hr : isDigit (rest.headD 0) = false) :
    takeWhileLen isDigit (d ++ rest) = d.length := by
  unfold takeWhileLen
  rw [takeWhile_append_stop isDigit d rest (fun x hx => (List.all_eq_true.1 hd) x hx) (Or.inl hr)]

theorem numOk_fraction (d1 d2 : Bytes) (h : fractionLit d1 d2 = true) : numOk (d1 ++ 46 :: d2) .float := by
  simp only [fractionLit, Bool.and_eq_true, Bool.not_eq_true', List.isEmpty_eq_false_iff] at h
  obtain ⟨⟨⟨hne1, hd1⟩, hne2⟩, hd2⟩ := h
  obtain ⟨c, w1, rfl⟩ : ∃ c w1, d1 = c :: w1 := by cases d1 with | nil => exact absurd rfl hne1 | cons c w => exact ⟨c, w, rfl⟩
  obtain ⟨e, w2, rfl⟩ : ∃ e w2, d2 = e :: w2 := by cases d2 with | nil => exact absurd rfl hne2 | cons c w => exact ⟨c, w, rfl⟩
  have hc : isDigit c = true := by simp only [List.all_cons, Bool.and_eq_true] at hd1; exact hd1.1
  have he : isDigit e = true := by simp only [List.all_cons, Bool.and_eq_true] at hd2; exact hd2.1
  refine ⟨by simpa using hc, fun r hr => ?_⟩
  simp only [fol, Bool.and_eq_true, Bool.not_eq_true', isWordByte, Bool.or_eq_false_iff] at hr
  -- the whole text in one normal form
  have hB : (c :: w1 ++ 46 :: (e :: w2)) ++ r = c :: (w1 ++ 46 :: e :: (w2 ++ r)) := by simp
  rw [hB]
  have hp : isLetter ((w1 ++ 46 :: e :: (w2 ++ r)).headD 0) = false := by
    cases w1 with
    | nil => show isLetter 46 = false; decide
    | cons d w => simp only [List.all_cons, Bool.and_eq_true] at hd1; simpa using digit_not_letter d hd1.2.1
  have hn1 : takeWhileLen isDigit (c :: (w1 ++ 46 :: e :: (w2 ++ r))) = w1.length + 1 := by
    have := takeWhileLen_digits (c :: w1) (46 :: e :: (w2 ++ r)) hd1 (show isDigit 46 = false by decide)
    simpa using this
  have hdr1 : List.drop (w1.length + 1) (c :: (w1 ++ 46 :: e :: (w2 ++ r))) = 46 :: e :: (w2 ++ r) := by
    rw [List.drop_succ_cons, List.drop_left' rfl]
  have hn2 : takeWhileLen isDigit (e :: (w2 ++ r)) = w2.length + 1 := by
    have := takeWhileLen_digits (e :: w2) r hd2 hr.1.2
    simpa using this
  have hdr2 : List.drop (w1.length + 1 + 1 + (w2.length + 1)) (c :: (w1 ++ 46 :: e :: (w2 ++ r))) = r := by
    have e1 : c :: (w1 ++ 46 :: e :: (w2 ++ r)) = (c :: w1 ++ 46 :: (e :: w2)) ++ r := by simp
    rw [e1, List.drop_left' (by simp; omega)]
  unfold scanNumber
  simp only [List.headD_cons, List.tail_cons, ne_of_not_letter _ 120 hp rfl, ne_of_not_letter _ 88 hp rfl, ne_of_not_letter _ 98 hp rfl,
    ne_of_not_letter _ 66 hp rfl, ne_of_not_letter _ 111 hp rfl, ne_of_not_letter _ 79 hp rfl, Bool.or_self, Bool.and_false,
    Bool.false_eq_true, if_false, hn1, hdr1, beq_self_eq_true, Bool.true_and, he, if_true, List.drop_succ_cons, List.drop_zero, hn2, hdr2,
    ne_of_not_letter _ 101 hr.1.1 rfl, ne_of_not_letter _ 69 hr.1.1 rfl]
  simp; omega

end Xjs.LP
