import XjsModel.Model.Lexer
import XjsModel.Spec.Utf8
/-
  The UTF-8 encoder of `lexer/helpers.go` against RFC 3629, and what `keepEscaped` guarantees about decoded escapes.
  (Part of the C07 property theorems; stated in namespace `Xjs.C07`.)
-/
namespace Xjs.C07
open Xjs Xjs.Spec

theorem or_low : ∀ (b : Nat), b < 64 → 128 ||| b = 128 + b := by decide
theorem or_c0 : ∀ (b : Nat), b < 32 → 192 ||| b = 192 + b := by decide
theorem or_e0 : ∀ (b : Nat), b < 16 → 224 ||| b = 224 + b := by decide
theorem or_f0 : ∀ (b : Nat), b < 8 → 240 ||| b = 240 + b := by decide

theorem b80 (x : Nat) (h : x < 64) : 128 ||| (x % 256) = 128 + x := by
  rw [Nat.mod_eq_of_lt (by omega)]; exact or_low x h
theorem bC0 (x : Nat) (h : x < 32) : 192 ||| (x % 256) = 192 + x := by
  rw [Nat.mod_eq_of_lt (by omega)]; exact or_c0 x h
theorem bE0 (x : Nat) (h : x < 16) : 224 ||| (x % 256) = 224 + x := by
  rw [Nat.mod_eq_of_lt (by omega)]; exact or_e0 x h
theorem bF0 (x : Nat) (h : x < 8) : 240 ||| (x % 256) = 240 + x := by
  rw [Nat.mod_eq_of_lt (by omega)]; exact or_f0 x h

theorem and_3f (x : Nat) : x &&& 0x3F = x % 64 := by
  have := Nat.and_two_pow_sub_one_eq_mod x 6
  simpa using this

/-- the encoder of `lexer/helpers.go` is UTF-8, for every code point -/
theorem encodeUTF8_is_utf8 (cp : Nat) (h : cp ≤ 0x10FFFF) : encodeUTF8 cp = utf8Encode cp := by
  unfold encodeUTF8 utf8Encode toByte
  simp only [and_3f, Nat.shiftRight_eq_div_pow]
  have p6 : (2 : Nat) ^ 6 = 64 := by decide
  have p12 : (2 : Nat) ^ 12 = 4096 := by decide
  have p18 : (2 : Nat) ^ 18 = 262144 := by decide
  rw [p6, p12, p18]
  by_cases h1 : cp ≤ 0x7F
  · have : cp < 0x80 := by omega
    simp only [h1, this, if_true]
    rw [Nat.mod_eq_of_lt (by omega)]
  · by_cases h2 : cp ≤ 0x7FF
    · have a : ¬ cp < 0x80 := by omega
      have b : cp < 0x800 := by omega
      simp only [h1, h2, a, b, if_true, if_false]
      rw [bC0 _ (by omega), b80 _ (by omega)]
    · by_cases h3 : cp ≤ 0xFFFF
      · have a : ¬ cp < 0x80 := by omega
        have b : ¬ cp < 0x800 := by omega
        have c : cp < 0x10000 := by omega
        simp only [h1, h2, h3, a, b, c, if_true, if_false]
        rw [bE0 _ (by omega), b80 (cp / 64 % 64) (by omega), b80 (cp % 64) (by omega)]
      · have a : ¬ cp < 0x80 := by omega
        have b : ¬ cp < 0x800 := by omega
        have c : ¬ cp < 0x10000 := by omega
        simp only [h1, h2, h3, h, a, b, c, if_true, if_false]
        rw [bF0 _ (by omega), b80 (cp / 4096 % 64) (by omega), b80 (cp / 64 % 64) (by omega), b80 (cp % 64) (by omega)]

/-- bytes that must not appear raw inside the re-quoted literal -/
def structural (b : Nat) : Bool := b == 34 || b == 92 || b == 10 || b == 13 || (48 ≤ b && b ≤ 57)

/-- a decoded escape never injects a quote, a backslash, a line terminator or a digit -/
theorem decoded_escape_is_harmless (v : Nat) (hv : v ≤ 0x10FFFF) (hk : keepEscaped v = false) :
    ∀ b ∈ encodeUTF8 v, structural b = false := by
  rw [encodeUTF8_is_utf8 v hv]
  unfold keepEscaped at hk
  simp only [Bool.or_eq_false_iff, beq_eq_false_iff_ne, Bool.and_eq_false_imp, decide_eq_true_eq, decide_eq_false_iff_not] at hk
  unfold utf8Encode
  intro b hb
  unfold structural
  split at hb
  · simp only [List.mem_singleton] at hb; subst hb
    simp only [Bool.or_eq_false_iff, beq_eq_false_iff_ne, Bool.and_eq_false_imp, decide_eq_true_eq, decide_eq_false_iff_not]
    omega
  · have : 128 ≤ b := by
      split at hb
      · simp at hb; omega
      · split at hb <;> simp at hb <;> omega
    simp only [Bool.or_eq_false_iff, beq_eq_false_iff_ne, Bool.and_eq_false_imp, decide_eq_true_eq, decide_eq_false_iff_not]
    omega

/-- surrogate halves are never decoded (their "encoding" would not be UTF-8) -/
theorem surrogates_stay_escaped (v : Nat) (h : 0xD800 ≤ v ∧ v ≤ 0xDFFF) : keepEscaped v = true := by
  unfold keepEscaped; simp; omega

/-- everything the lexer decodes is a Unicode scalar value -/
theorem decoded_is_scalar (v : Nat) (hv : v ≤ 0x10FFFF) (hk : keepEscaped v = false) : isScalar v = true := by
  unfold keepEscaped at hk
  unfold isScalar
  simp only [Bool.or_eq_false_iff, beq_eq_false_iff_ne, Bool.and_eq_false_imp, decide_eq_true_eq, decide_eq_false_iff_not] at hk
  simp; omega

end Xjs.C07
