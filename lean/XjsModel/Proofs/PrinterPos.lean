import XjsModel.Model.Printer
/-
  C08 (a, d) for compact output: the writer's position bookkeeping.
  Invariant `PosInv`: the mapper's generated position is the line/column of the end of the output written so far,
  and every recorded mapping carries the line/column of a prefix of the output (the prefix that had been written
  when the mapping was recorded). Line/column are those of `advanceBytes` — proved equal to the counting
  specification `Spec.positionAfter` in Proofs/SourceMap.lean.
  Scope: compact mode (in pretty mode the bookkeeping is wrong in the code itself: known finding D12), output
  free of CR bytes (a CR/LF pair split over two writes is counted twice by the mapper, by design of its API).
-/
namespace Xjs
set_option linter.unusedSimpArgs false

def NoCR (s : Bytes) : Prop := ∀ c ∈ s, c ≠ 13

theorem NoCR.append {a b : Bytes} (ha : NoCR a) (hb : NoCR b) : NoCR (a ++ b) := by
  intro c hc; rcases List.mem_append.mp hc with h | h
  · exact ha c h
  · exact hb c h

theorem advanceBytes_cons (c : Nat) (rest : Bytes) (p : Int × Int) (hc : c ≠ 13) :
    advanceBytes (c :: rest) p = advanceBytes rest (if c = 10 then (p.1 + 1, 0) else (p.1, p.2 + 1)) := by
  obtain ⟨l, col⟩ := p
  by_cases h10 : c = 10
  · subst h10; simp [advanceBytes]
  · rw [advanceBytes]
    · simp [h10]
    all_goals (intros; simp_all)

theorem advanceBytes_append (a b : Bytes) (p : Int × Int) (ha : NoCR a) :
    advanceBytes (a ++ b) p = advanceBytes b (advanceBytes a p) := by
  induction a generalizing p with
  | nil => simp [advanceBytes]
  | cons c a ih =>
    have hc : c ≠ 13 := ha c List.mem_cons_self
    have ha' : NoCR a := fun x hx => ha x (List.mem_cons_of_mem _ hx)
    rw [List.cons_append, advanceBytes_cons _ _ _ hc, advanceBytes_cons _ _ _ hc, ih _ ha']

/-- lexicographic order on (line, column) -/
def le2 (a b : Int × Int) : Prop := a.1 < b.1 ∨ (a.1 = b.1 ∧ a.2 ≤ b.2)
theorem le2_refl (a : Int × Int) : le2 a a := Or.inr ⟨rfl, Int.le_refl _⟩
theorem le2_trans {a b c : Int × Int} (h1 : le2 a b) (h2 : le2 b c) : le2 a c := by
  unfold le2 at *; omega
theorem le2_advanceBytes (s : Bytes) (p : Int × Int) (hs : NoCR s) : le2 p (advanceBytes s p) := by
  induction s generalizing p with
  | nil => simp [advanceBytes]; exact le2_refl _
  | cons c s ih =>
    have hc : c ≠ 13 := hs c List.mem_cons_self
    rw [advanceBytes_cons _ _ _ hc]
    refine le2_trans ?_ (ih _ (fun x hx => hs x (List.mem_cons_of_mem _ hx)))
    unfold le2; split <;> simp <;> omega

def Mapping.gpos (m : Mapping) : Int × Int := (m.genLine, m.genCol)

/-- the recorded mappings are in generated-position order and none lies beyond the current position -/
def SortedUpTo (ms : List Mapping) (cur : Int × Int) : Prop :=
  ms.Pairwise (fun a b => le2 a.gpos b.gpos) ∧ ∀ mp ∈ ms, le2 mp.gpos cur

theorem SortedUpTo.mono {ms : List Mapping} {p q : Int × Int} (h : SortedUpTo ms p) (hpq : le2 p q) : SortedUpTo ms q :=
  ⟨h.1, fun mp hmp => le2_trans (h.2 mp hmp) hpq⟩

theorem SortedUpTo.snoc {ms : List Mapping} {p : Int × Int} (h : SortedUpTo ms p) (x : Mapping) (hx : x.gpos = p) :
    SortedUpTo (ms ++ [x]) p := by
  refine ⟨?_, ?_⟩
  · rw [List.pairwise_append]
    refine ⟨h.1, by simp, ?_⟩
    intro a ha b hb
    simp only [List.mem_singleton] at hb; subst hb
    rw [hx]; exact h.2 a ha
  · intro mp hmp
    simp only [List.mem_append, List.mem_singleton] at hmp
    rcases hmp with hmp | hmp
    · exact h.2 mp hmp
    · subst hmp; rw [hx]; exact le2_refl _

structure PosInv (cw : CW) : Prop where
  compact : cw.pretty = false
  pend : cw.pendings = []
  nocr : NoCR cw.out
  pos : ∀ m, cw.mapper = some m → (m.genLine, m.genCol) = advanceBytes cw.out (0, 0)
  maps : ∀ m, cw.mapper = some m → ∀ mp ∈ m.mappings,
    ∃ pre, pre <+: cw.out ∧ (mp.genLine, mp.genCol) = advanceBytes pre (0, 0)
  sorted : ∀ m, cw.mapper = some m → SortedUpTo m.mappings (m.genLine, m.genCol)

theorem flushPending_id {cw : CW} (h : cw.pendings = []) : cw.flushPending = cw := by
  unfold CW.flushPending; rw [h]; simp; cases cw; simp_all

theorem PosInv.writeString {cw : CW} (h : PosInv cw) (s : Bytes) (hs : NoCR s) : PosInv (cw.writeString s) := by
  unfold CW.writeString
  rw [flushPending_id h.pend]
  unfold CW.mapAdvance
  cases hm : cw.mapper with
  | none =>
    simp only [hm]
    exact ⟨h.compact, h.pend, h.nocr.append hs, by intro m h'; simp [hm] at h', by intro m h'; simp [hm] at h', by intro m h'; simp [hm] at h'⟩
  | some m =>
    simp only [hm]
    refine ⟨h.compact, h.pend, h.nocr.append hs, ?_, ?_, ?_⟩
    · intro m' hm'
      simp only [Option.some.injEq] at hm'
      subst hm'
      simp only [Mapper.advanceString]
      rw [advanceBytes_append _ _ _ h.nocr, ← h.pos m hm]
    · intro m' hm' mp hmp
      simp only [Option.some.injEq] at hm'
      subst hm'
      simp only [Mapper.advanceString] at hmp
      obtain ⟨pre, hp, he⟩ := h.maps m hm mp hmp
      exact ⟨pre, List.IsPrefix.trans hp (List.prefix_append _ _), he⟩
    · intro m' hm'
      simp only [Option.some.injEq] at hm'
      subst hm'
      simp only [Mapper.advanceString]
      exact (h.sorted m hm).mono (le2_advanceBytes s _ hs)

theorem PosInv.writeRune {cw : CW} (h : PosInv cw) (r : Nat) (hr : r ≠ 13) : PosInv (cw.writeRune r) := by
  unfold CW.writeRune
  rw [flushPending_id h.pend]
  have hs : NoCR [r] := by intro c hc; simp at hc; subst hc; exact hr
  unfold CW.mapAdvance
  cases hm : cw.mapper with
  | none =>
    simp only [hm]
    exact ⟨h.compact, h.pend, h.nocr.append hs, by intro m h'; simp [hm] at h', by intro m h'; simp [hm] at h', by intro m h'; simp [hm] at h'⟩
  | some m =>
    simp only [hm]
    refine ⟨h.compact, h.pend, h.nocr.append hs, ?_, ?_, ?_⟩
    rotate_left 2
    · intro m' hm'
      simp only [Option.some.injEq] at hm'
      subst hm'
      have hs0 := h.sorted m hm
      by_cases h10 : (r == 10) = true
      · simp only [h10, if_true, Mapper.advanceLine]
        exact hs0.mono (by unfold le2; simp; omega)
      · simp only [h10, Mapper.advanceColumn]
        exact hs0.mono (by unfold le2; simp; omega)
    · intro m' hm'
      simp only [Option.some.injEq] at hm'
      subst hm'
      rw [advanceBytes_append _ _ _ h.nocr, ← h.pos m hm, advanceBytes_cons _ _ _ hr]
      by_cases h10 : r = 10
      · simp [h10, Mapper.advanceLine, advanceBytes]
      · simp [h10, Mapper.advanceColumn, advanceBytes]
    · intro m' hm' mp hmp
      simp only [Option.some.injEq] at hm'
      subst hm'
      have : mp ∈ m.mappings := by
        by_cases h10 : (r == 10) = true
        · simpa [h10, Mapper.advanceLine] using hmp
        · simpa [h10, Mapper.advanceColumn] using hmp
      obtain ⟨pre, hp, he⟩ := h.maps m hm mp this
      exact ⟨pre, List.IsPrefix.trans hp (List.prefix_append _ _), he⟩

theorem PosInv.addMapping {cw : CW} (h : PosInv cw) (a b : Nat) : PosInv (cw.addMapping a b) := by
  unfold CW.addMapping CW.mapAdvance
  cases hm : cw.mapper with
  | none => simpa [hm] using h
  | some m =>
    simp only [hm]
    refine ⟨h.compact, h.pend, h.nocr, ?_, ?_, ?_⟩
    · intro m' hm'; simp only [Option.some.injEq] at hm'; subst hm'
      simpa [Mapper.addMapping] using h.pos m hm
    · intro m' hm' mp hmp
      simp only [Option.some.injEq] at hm'; subst hm'
      simp only [Mapper.addMapping, List.mem_append, List.mem_singleton] at hmp
      rcases hmp with hmp | hmp
      · exact h.maps m hm mp hmp
      · subst hmp; exact ⟨cw.out, List.prefix_refl _, h.pos m hm⟩
    · intro m' hm'; simp only [Option.some.injEq] at hm'; subst hm'
      simp only [Mapper.addMapping]
      exact (h.sorted m hm).snoc _ rfl

theorem PosInv.addNamedMapping {cw : CW} (h : PosInv cw) (a b : Nat) (n : Bytes) : PosInv (cw.addNamedMapping a b n) := by
  unfold CW.addNamedMapping CW.mapAdvance
  cases hm : cw.mapper with
  | none => simpa [hm] using h
  | some m =>
    simp only [hm]
    refine ⟨h.compact, h.pend, h.nocr, ?_, ?_, ?_⟩
    · intro m' hm'; simp only [Option.some.injEq] at hm'; subst hm'
      unfold Mapper.addNamedMapping; split <;> simpa using h.pos m hm
    · intro m' hm' mp hmp
      simp only [Option.some.injEq] at hm'; subst hm'
      unfold Mapper.addNamedMapping at hmp
      split at hmp <;>
      · simp only [List.mem_append, List.mem_singleton] at hmp
        rcases hmp with hmp | hmp
        · exact h.maps m hm mp hmp
        · subst hmp; exact ⟨cw.out, List.prefix_refl _, h.pos m hm⟩
    · intro m' hm'; simp only [Option.some.injEq] at hm'; subst hm'
      unfold Mapper.addNamedMapping
      split <;> exact (h.sorted m hm).snoc _ rfl

theorem PosInv.panic {cw : CW} (h : PosInv cw) : PosInv cw.panic := ⟨h.compact, h.pend, h.nocr, h.pos, h.maps, h.sorted⟩

theorem writeSpace_compact {cw : CW} (h : cw.pretty = false) : cw.writeSpace = cw := by simp [CW.writeSpace, h]
theorem writeNewline_compact {cw : CW} (h : cw.pretty = false) : cw.writeNewline = cw := by simp [CW.writeNewline, h]
theorem writeIndent_compact {cw : CW} (h : cw.pretty = false) : cw.writeIndent = cw := by simp [CW.writeIndent, h]
theorem increaseIndent_compact {cw : CW} (h : cw.pretty = false) : cw.increaseIndent = cw := by simp [CW.increaseIndent, h]
theorem decreaseIndent_compact {cw : CW} (h : cw.pretty = false) : cw.decreaseIndent = cw := by simp [CW.decreaseIndent, h]
theorem leadingComments_compact {cw : CW} (h : cw.pretty = false) (cs : List Bytes) : cw.leadingComments cs = cw := by
  simp [CW.leadingComments, h]

theorem PosInv.writeSpace {cw : CW} (h : PosInv cw) : PosInv cw.writeSpace := by rw [writeSpace_compact h.compact]; exact h
theorem PosInv.writeNewline {cw : CW} (h : PosInv cw) : PosInv cw.writeNewline := by rw [writeNewline_compact h.compact]; exact h
theorem PosInv.writeIndent {cw : CW} (h : PosInv cw) : PosInv cw.writeIndent := by rw [writeIndent_compact h.compact]; exact h
theorem PosInv.increaseIndent {cw : CW} (h : PosInv cw) : PosInv cw.increaseIndent := by rw [increaseIndent_compact h.compact]; exact h
theorem PosInv.decreaseIndent {cw : CW} (h : PosInv cw) : PosInv cw.decreaseIndent := by rw [decreaseIndent_compact h.compact]; exact h
theorem PosInv.leadingComments {cw : CW} (h : PosInv cw) (cs : List Bytes) : PosInv (cw.leadingComments cs) := by
  rw [leadingComments_compact h.compact]; exact h
theorem PosInv.writeSemi {cw : CW} (h : PosInv cw) : PosInv cw.writeSemi := by
  unfold CW.writeSemi; simp only [h.compact]; exact h.writeRune 59 (by decide)
theorem PosInv.separateSigns {cw : CW} (h : PosInv cw) (op : Bytes) : PosInv (cw.separateSigns op) := by
  unfold CW.separateSigns
  split
  · exact h
  · split
    · exact h
    · dsimp only; rw [flushPending_id h.pend]; split
      · exact h.writeRune 32 (by decide)
      · exact h
theorem PosInv.head {cw : CW} (h : PosInv cw) (t : Token) : PosInv (cw.head t) := by
  unfold CW.head; exact (h.leadingComments _).addMapping _ _
theorem PosInv.openIf {cw : CW} (h : PosInv cw) (b : Bool) : PosInv (cw.openIf b) := by
  unfold CW.openIf; split; exact h.writeRune 40 (by decide); exact h
theorem PosInv.closeIf {cw : CW} (h : PosInv cw) (b : Bool) : PosInv (cw.closeIf b) := by
  unfold CW.closeIf; split; exact h.writeRune 41 (by decide); exact h
theorem PosInv.sepIf {cw : CW} (h : PosInv cw) (b : Bool) : PosInv (cw.sepIf b) := by
  unfold CW.sepIf; split; exact h; exact (h.writeRune 44 (by decide)).writeSpace
theorem PosInv.newlineIf {cw : CW} (h : PosInv cw) (b : Bool) : PosInv (cw.newlineIf b) := by
  unfold CW.newlineIf; split; exact h; exact h.writeNewline
theorem PosInv.writeIdent {cw : CW} (h : PosInv cw) (id : Ident) (hv : NoCR id.value) : PosInv (writeIdent id cw) := by
  unfold Xjs.writeIdent; exact ((h.leadingComments _).addNamedMapping _ _ _).writeString _ hv

def identsNoCR (ps : List Ident) : Prop := ∀ p ∈ ps, NoCR p.value

theorem PosInv.writeParams {cw : CW} (ps : List Ident) (f : Bool) (h : PosInv cw) (hp : identsNoCR ps) :
    PosInv (Xjs.writeParams ps f cw) := by
  induction ps generalizing f cw with
  | nil => exact h
  | cons p rest ih =>
    simp only [Xjs.writeParams]
    exact ih _ ((h.sepIf f).writeIdent p (hp p List.mem_cons_self)) (fun q hq => hp q (List.mem_cons_of_mem _ hq))

theorem NoCR_strBytes (s : String) (h : ∀ c ∈ strBytes s, c ≠ 13 := by decide) : NoCR (strBytes s) := h

theorem NoCR_escBackticks {v : Bytes} (h : NoCR v) : NoCR (escBackticks v) := by
  intro c hc
  simp only [escBackticks, List.mem_flatMap] at hc
  obtain ⟨y, hy, hcy⟩ := hc
  split at hcy
  · simp at hcy; rcases hcy with rfl | rfl <;> decide
  · simp at hcy; rw [hcy]; exact h y hy

/-! ### trees whose written strings contain no CR -/

def bnocr (s : Bytes) : Bool := s.all (· != 13)
theorem NoCR_of_bnocr {s : Bytes} (h : bnocr s = true) : NoCR s := by
  intro c hc; have := List.all_eq_true.mp h c hc; simpa using this

def identNocr (id : Ident) : Bool := bnocr id.value

mutual
  def Expr.nocr : Expr → Bool
    | .none => true
    | .ident id => identNocr id
    | .int tok | .float tok => bnocr tok.lit
    | .str _ v | .raw _ v => bnocr v
    | .bool tok _ => bnocr tok.lit
    | .null _ => true
    | .letE _ name v => identNocr name && v.nocr
    | .binary _ l op r => l.nocr && bnocr op && r.nocr
    | .unary _ op r => bnocr op && r.nocr
    | .postfix _ l op => l.nocr && bnocr op
    | .group _ e _ => e.nocr
    | .call _ f args => f.nocr && args.nocr
    | .member _ o p _ => o.nocr && p.nocr
    | .assign _ l v => l.nocr && v.nocr
    | .compound _ l op v => l.nocr && bnocr op && v.nocr
    | .func _ name params body => (match name with | some n => identNocr n | none => true) && params.all identNocr && body.nocr
    | .array _ es _ => es.nocr
    | .object _ ps _ => ps.nocr
  def Stmt.nocr : Stmt → Bool
    | .none => true
    | .letS _ name v => identNocr name && v.nocr
    | .ret _ v => v.nocr
    | .exprS e => e.nocr
    | .funcD _ name params body => identNocr name && params.all identNocr && body.nocr
    | .block _ ss _ => ss.nocr
    | .ifS _ c t e => c.nocr && t.nocr && e.nocr
    | .whileS _ c b => c.nocr && b.nocr
    | .forS _ i c u b => i.nocr && c.nocr && u.nocr && b.nocr
  def ExprList.nocr : ExprList → Bool
    | .nil => true
    | .cons e t => e.nocr && t.nocr
  def StmtList.nocr : StmtList → Bool
    | .nil => true
    | .cons s t => s.nocr && t.nocr
  def PropList.nocr : PropList → Bool
    | .nil => true
    | .cons k v t => k.nocr && v.nocr && t.nocr
end

theorem identsNoCR_of_all {ps : List Ident} (h : ps.all identNocr = true) : identsNoCR ps := by
  intro p hp; exact NoCR_of_bnocr (List.all_eq_true.mp h p hp)

/-- one printer step on the invariant -/
macro "pos_step" : tactic => `(tactic| first
  | assumption
  | apply PosInv.panic
  | (refine PosInv.writeString ?_ _ (by first | exact NoCR_of_bnocr (by assumption) | exact NoCR_of_bnocr (by decide +kernel) | exact NoCR_escBackticks (NoCR_of_bnocr (by assumption))))
  | (refine PosInv.writeRune ?_ _ (by decide))
  | apply PosInv.writeSemi
  | apply PosInv.separateSigns
  | apply PosInv.increaseIndent
  | apply PosInv.decreaseIndent
  | apply PosInv.writeIndent
  | apply PosInv.writeNewline
  | apply PosInv.writeSpace
  | apply PosInv.leadingComments
  | apply PosInv.addMapping
  | apply PosInv.head
  | (refine PosInv.writeIdent ?_ _ (NoCR_of_bnocr (by assumption)))
  | (refine PosInv.writeParams _ _ ?_ (identsNoCR_of_all (by assumption)))
  | apply PosInv.openIf
  | apply PosInv.closeIf
  | apply PosInv.sepIf
  | apply PosInv.newlineIf)

end Xjs
