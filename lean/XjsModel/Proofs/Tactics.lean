import Lean
/-
  `spec_all t`: every local hypothesis of the form `∀ x : T, …` (a dependent ∀, not an implication) whose bound
  variable has the type of `t` is replaced by its instance at `t`.
-/
open Lean Elab Tactic Meta

elab "spec_all " t:term : tactic => withMainContext do
  let e ← elabTerm t none
  let ty ← inferType e
  let lctx ← getLCtx
  for ldecl in lctx do
    if ldecl.isImplementationDetail then continue
    let hty ← instantiateMVars ldecl.type
    if hty.isForall && !hty.isArrow then
      let dom := hty.bindingDomain!
      if ← withMainContext (isDefEq dom ty) then
        let newVal := mkApp ldecl.toExpr e
        liftMetaTactic fun g => g.withContext do
          let newTy ← inferType newVal
          let newTy ← Core.betaReduce newTy
          let g ← g.assert ldecl.userName newTy newVal
          let (_, g) ← g.intro1P
          try
            let g' ← g.clear ldecl.fvarId
            return [g']
          catch _ => return [g]

example (f : Nat → Nat) (h : ∀ n : Nat, f n = n) (k : ∀ b : Bool, b = b) : f 3 = 3 := by
  spec_all (3 : Nat)
  exact h
