import XjsModel.Proofs.ParserSmart
/-
  The smart-semicolon pass (C13 c).
-/
namespace Xjs
set_option linter.unusedSimpArgs false

def SmartM {α : Type} (f : PS → Option (α × PS)) (st : PS) (r : α × PS) : Prop :=
  st.noLI → (f st = some r ∧ r.2.noLI)

set_option maxHeartbeats 3200000 in
theorem smart_mutual (cfg : PCfg) :
    (∀ is st r, parseStatementI cfg.smartOff is st = some r → SmartM (parseStatementI cfg.smartOn is) st r) ∧
    (∀ st r, baseParseStatement cfg.smartOff st = some r → SmartM (baseParseStatement cfg.smartOn) st r) ∧
    (∀ st r, parseExpressionStatement cfg.smartOff st = some r → SmartM (parseExpressionStatement cfg.smartOn) st r) ∧
    (∀ is prec st r, parseExpressionI cfg.smartOff is prec st = some r → SmartM (parseExpressionI cfg.smartOn is prec) st r) ∧
    (∀ left prec st r, parseRemaining cfg.smartOff left prec st = some r → SmartM (parseRemaining cfg.smartOn left prec) st r) ∧
    (∀ left st r, parseInfixExpression cfg.smartOff left st = some r → SmartM (parseInfixExpression cfg.smartOn left) st r) ∧
    (∀ endTy st r, parseExpressionList cfg.smartOff endTy st = some r → SmartM (parseExpressionList cfg.smartOn endTy) st r) ∧
    (∀ acc st r, exprListLoop cfg.smartOff acc st = some r → SmartM (exprListLoop cfg.smartOn acc) st r) ∧
    (∀ st r, parsePrefixExpression cfg.smartOff st = some r → SmartM (parsePrefixExpression cfg.smartOn) st r) ∧
    (∀ st r, parseFunctionExpression cfg.smartOff st = some r → SmartM (parseFunctionExpression cfg.smartOn) st r) ∧
    (∀ st r, parseBlockStatement cfg.smartOff st = some r → SmartM (parseBlockStatement cfg.smartOn) st r) ∧
    (∀ acc st r, blockLoop cfg.smartOff acc st = some r → SmartM (blockLoop cfg.smartOn acc) st r) ∧
    (∀ st r, parseObjectLiteral cfg.smartOff st = some r → SmartM (parseObjectLiteral cfg.smartOn) st r) ∧
    (∀ acc st r, objectLoop cfg.smartOff acc st = some r → SmartM (objectLoop cfg.smartOn acc) st r) ∧
    (∀ st r, parseForStatement cfg.smartOff st = some r → SmartM (parseForStatement cfg.smartOn) st r) ∧
    (∀ st r, parseForInit cfg.smartOff st = some r → SmartM (parseForInit cfg.smartOn) st r) ∧
    (∀ st r, parseLetExpression cfg.smartOff st = some r → SmartM (parseLetExpression cfg.smartOn) st r) ∧
    (∀ st r, parseWhileStatement cfg.smartOff st = some r → SmartM (parseWhileStatement cfg.smartOn) st r) ∧
    (∀ st r, parseIfStatement cfg.smartOff st = some r → SmartM (parseIfStatement cfg.smartOn) st r) ∧
    (∀ st r, parseReturnStatement cfg.smartOff st = some r → SmartM (parseReturnStatement cfg.smartOn) st r) ∧
    (∀ st r, parseFunctionStatement cfg.smartOff st = some r → SmartM (parseFunctionStatement cfg.smartOn) st r) ∧
    (∀ st r, parseLetStatement cfg.smartOff st = some r → SmartM (parseLetStatement cfg.smartOn) st r) := by
  refine parseStatementI.mutual_partial_correctness cfg.smartOff
    (fun is st r => SmartM (parseStatementI cfg.smartOn is) st r)
    (fun st r => SmartM (baseParseStatement cfg.smartOn) st r)
    (fun st r => SmartM (parseExpressionStatement cfg.smartOn) st r)
    (fun is prec st r => SmartM (parseExpressionI cfg.smartOn is prec) st r)
    (fun left prec st r => SmartM (parseRemaining cfg.smartOn left prec) st r)
    (fun left st r => SmartM (parseInfixExpression cfg.smartOn left) st r)
    (fun endTy st r => SmartM (parseExpressionList cfg.smartOn endTy) st r)
    (fun acc st r => SmartM (exprListLoop cfg.smartOn acc) st r)
    (fun st r => SmartM (parsePrefixExpression cfg.smartOn) st r)
    (fun st r => SmartM (parseFunctionExpression cfg.smartOn) st r)
    (fun st r => SmartM (parseBlockStatement cfg.smartOn) st r)
    (fun acc st r => SmartM (blockLoop cfg.smartOn acc) st r)
    (fun st r => SmartM (parseObjectLiteral cfg.smartOn) st r)
    (fun acc st r => SmartM (objectLoop cfg.smartOn acc) st r)
    (fun st r => SmartM (parseForStatement cfg.smartOn) st r)
    (fun st r => SmartM (parseForInit cfg.smartOn) st r)
    (fun st r => SmartM (parseLetExpression cfg.smartOn) st r)
    (fun st r => SmartM (parseWhileStatement cfg.smartOn) st r)
    (fun st r => SmartM (parseIfStatement cfg.smartOn) st r)
    (fun st r => SmartM (parseReturnStatement cfg.smartOn) st r)
    (fun st r => SmartM (parseFunctionStatement cfg.smartOn) st r)
    (fun st r => SmartM (parseLetStatement cfg.smartOn) st r)
    ?_ ?_ ?_ ?_ ?_ ?_ ?_ ?_ ?_ ?_ ?_ ?_ ?_ ?_ ?_ ?_ ?_ ?_ ?_ ?_ ?_ ?_
  · -- parseStatementI
    intro pS bS ih_pS ih_bS is st r h
    replace ih_pS := curry2 ih_pS; replace ih_bS := curry1 ih_bS
    dsimp only [SmartM] at ih_pS ih_bS ⊢
    obtain ⟨x, st'⟩ := r
    intro h0
    pdecompW h [ih_pS, ih_bS, smart_parseFunctionParameters]
    all_goals clear ih_pS ih_bS
    all_goals refine ⟨?_, by simp_all (maxDischargeDepth := 8) [noLI_next, noLI_push_next, noLI_expectToken, noLI_expectSemi]⟩
    all_goals (rw [parseStatementI]; simp_all (maxDischargeDepth := 8) [noLI_next, noLI_push_next, noLI_expectToken, noLI_expectSemi])
  · -- baseParseStatement
    intro f1 f2 f3 f4 f5 f6 f7 f8 ih_f1 ih_f2 ih_f3 ih_f4 ih_f5 ih_f6 ih_f7 ih_f8  st r h
    replace ih_f1 := curry1 ih_f1; replace ih_f2 := curry1 ih_f2; replace ih_f3 := curry1 ih_f3; replace ih_f4 := curry1 ih_f4; replace ih_f5 := curry1 ih_f5; replace ih_f6 := curry1 ih_f6; replace ih_f7 := curry1 ih_f7; replace ih_f8 := curry1 ih_f8
    dsimp only [SmartM] at ih_f1 ih_f2 ih_f3 ih_f4 ih_f5 ih_f6 ih_f7 ih_f8 ⊢
    obtain ⟨x, st'⟩ := r
    intro h0
    split at h
    all_goals (first | have hh := ih_f1 _ _ _ h h0 | have hh := ih_f2 _ _ _ h h0 | have hh := ih_f3 _ _ _ h h0 | have hh := ih_f4 _ _ _ h h0
                     | have hh := ih_f5 _ _ _ h h0 | have hh := ih_f6 _ _ _ h h0 | have hh := ih_f7 _ _ _ h h0 | have hh := ih_f8 _ _ _ h h0)
    all_goals refine ⟨?_, hh.2⟩
    all_goals (rw [baseParseStatement.eq_def])
    all_goals first
      | (split <;> first | (exfalso; solve_by_elim) | exact hh.1)
      | (simp only [*]; done)
      | (simp only [*]; exact hh.1)
  · -- parseExpressionStatement
    intro pE ih_pE  st r h
    replace ih_pE := curry3 ih_pE
    dsimp only [SmartM] at ih_pE ⊢
    obtain ⟨x, st'⟩ := r
    intro h0
    pdecompW h [ih_pE, smart_parseFunctionParameters]
    all_goals clear ih_pE
    all_goals refine ⟨?_, by simp_all (maxDischargeDepth := 8) [noLI_next, noLI_push_next, noLI_expectToken, noLI_expectSemi]⟩
    all_goals (rw [parseExpressionStatement]; simp_all (maxDischargeDepth := 8) [noLI_next, noLI_push_next, noLI_expectToken, noLI_expectSemi])
  · -- parseExpressionI
    intro pE pR pP ih_pE ih_pR ih_pP is prec st r h
    replace ih_pE := curry3 ih_pE; replace ih_pR := curry3 ih_pR; replace ih_pP := curry1 ih_pP
    dsimp only [SmartM] at ih_pE ih_pR ih_pP ⊢
    obtain ⟨x, st'⟩ := r
    intro h0
    pdecompW h [ih_pE, ih_pR, ih_pP, smart_parseFunctionParameters]
    all_goals clear ih_pE ih_pR ih_pP
    all_goals refine ⟨?_, by simp_all (maxDischargeDepth := 8) [noLI_next, noLI_push_next, noLI_expectToken, noLI_expectSemi]⟩
    all_goals (rw [parseExpressionI]; simp_all (maxDischargeDepth := 8) [noLI_next, noLI_push_next, noLI_expectToken, noLI_expectSemi])
  · -- parseRemaining
    intro pR pI ih_pR ih_pI left prec st r h
    replace ih_pR := curry3 ih_pR; replace ih_pI := curry2 ih_pI
    dsimp only [SmartM] at ih_pR ih_pI ⊢
    obtain ⟨x, st'⟩ := r
    intro h0
    pdecompW h [ih_pR, ih_pI, smart_parseFunctionParameters]
    all_goals clear ih_pR ih_pI
    all_goals (have hc := smart_cut_never h0 true)
    all_goals refine ⟨?_, by simp_all (maxDischargeDepth := 8) [noLI_next, noLI_push_next, noLI_expectToken, noLI_expectSemi]⟩
    all_goals rw [parseRemaining]
    all_goals simp only [smartOn_lt_peekPrec, smartOn_smart, smartOff_smart, hc, Bool.false_and, Bool.false_eq_true, ↓reduceIte] at *
    all_goals simp only [*, ↓reduceIte]
    all_goals try simp_all (maxDischargeDepth := 8) [noLI_next, noLI_push_next, noLI_expectToken, noLI_expectSemi]
  · -- parseInfixExpression
    intro pE pL ih_pE ih_pL left st r h
    replace ih_pE := curry3 ih_pE; replace ih_pL := curry2 ih_pL
    dsimp only [SmartM] at ih_pE ih_pL ⊢
    obtain ⟨x, st'⟩ := r
    intro h0
    pdecompW h [ih_pE, ih_pL, smart_parseFunctionParameters]
    all_goals clear ih_pE ih_pL
    all_goals refine ⟨?_, by simp_all (maxDischargeDepth := 8) [noLI_next, noLI_push_next, noLI_expectToken, noLI_expectSemi]⟩
    all_goals (rw [parseInfixExpression]; simp_all (maxDischargeDepth := 8) [noLI_next, noLI_push_next, noLI_expectToken, noLI_expectSemi])
  · -- parseExpressionList
    intro pE eL ih_pE ih_eL endTy st r h
    replace ih_pE := curry3 ih_pE; replace ih_eL := curry2 ih_eL
    dsimp only [SmartM] at ih_pE ih_eL ⊢
    obtain ⟨x, st'⟩ := r
    intro h0
    pdecompW h [ih_pE, ih_eL, smart_parseFunctionParameters]
    all_goals clear ih_pE ih_eL
    all_goals refine ⟨?_, by simp_all (maxDischargeDepth := 8) [noLI_next, noLI_push_next, noLI_expectToken, noLI_expectSemi]⟩
    all_goals (rw [parseExpressionList]; simp_all (maxDischargeDepth := 8) [noLI_next, noLI_push_next, noLI_expectToken, noLI_expectSemi])
  · -- exprListLoop
    intro pE eL ih_pE ih_eL acc st r h
    replace ih_pE := curry3 ih_pE; replace ih_eL := curry2 ih_eL
    dsimp only [SmartM] at ih_pE ih_eL ⊢
    obtain ⟨x, st'⟩ := r
    intro h0
    pdecompW h [ih_pE, ih_eL, smart_parseFunctionParameters]
    all_goals clear ih_pE ih_eL
    all_goals refine ⟨?_, by simp_all (maxDischargeDepth := 8) [noLI_next, noLI_push_next, noLI_expectToken, noLI_expectSemi]⟩
    all_goals (rw [exprListLoop]; simp_all (maxDischargeDepth := 8) [noLI_next, noLI_push_next, noLI_expectToken, noLI_expectSemi])
  · -- parsePrefixExpression
    intro pE pL pFE pO ih_pE ih_pL ih_pFE ih_pO  st r h
    replace ih_pE := curry3 ih_pE; replace ih_pL := curry2 ih_pL; replace ih_pFE := curry1 ih_pFE; replace ih_pO := curry1 ih_pO
    dsimp only [SmartM] at ih_pE ih_pL ih_pFE ih_pO ⊢
    obtain ⟨x, st'⟩ := r
    intro h0
    pdecompW h [ih_pE, ih_pL, ih_pFE, ih_pO, smart_parseFunctionParameters]
    all_goals clear ih_pE ih_pL ih_pFE ih_pO
    all_goals refine ⟨?_, by simp_all (maxDischargeDepth := 8) [noLI_next, noLI_push_next, noLI_expectToken, noLI_expectSemi]⟩
    all_goals (rw [parsePrefixExpression]; simp_all (maxDischargeDepth := 8) [noLI_next, noLI_push_next, noLI_expectToken, noLI_expectSemi])
  · -- parseFunctionExpression
    intro pB ih_pB  st r h
    replace ih_pB := curry1 ih_pB
    dsimp only [SmartM] at ih_pB ⊢
    obtain ⟨x, st'⟩ := r
    intro h0
    pdecompW h [ih_pB, smart_parseFunctionParameters]
    all_goals clear ih_pB
    all_goals refine ⟨?_, by simp_all (maxDischargeDepth := 8) [noLI_next, noLI_push_next, noLI_expectToken, noLI_expectSemi]⟩
    all_goals (rw [parseFunctionExpression]; simp_all (maxDischargeDepth := 8) [noLI_next, noLI_push_next, noLI_expectToken, noLI_expectSemi])
  · -- parseBlockStatement
    intro bL ih_bL  st r h
    replace ih_bL := curry2 ih_bL
    dsimp only [SmartM] at ih_bL ⊢
    obtain ⟨x, st'⟩ := r
    intro h0
    pdecompW h [ih_bL, smart_parseFunctionParameters]
    all_goals clear ih_bL
    all_goals (have hq := noLI_push_next Ctx.block h0)
    all_goals simp only [hq, forall_const, true_implies] at *
    all_goals refine ⟨?_, by simp_all⟩
    all_goals rw [parseBlockStatement]
    all_goals simp only [*, Option.bind_eq_bind, Option.bind_some, smartOn_tolerant, smartOff_tolerant, ↓reduceIte]
    all_goals try simp_all
    all_goals (split <;> simp_all)
  · -- blockLoop
    intro pS bL ih_pS ih_bL acc st r h
    replace ih_pS := curry2 ih_pS; replace ih_bL := curry2 ih_bL
    dsimp only [SmartM] at ih_pS ih_bL ⊢
    obtain ⟨x, st'⟩ := r
    intro h0
    pdecompW h [ih_pS, ih_bL, smart_parseFunctionParameters]
    all_goals clear ih_pS ih_bL
    all_goals refine ⟨?_, by simp_all (maxDischargeDepth := 8) [noLI_next, noLI_push_next, noLI_expectToken, noLI_expectSemi]⟩
    all_goals (rw [blockLoop]; simp_all (maxDischargeDepth := 8) [noLI_next, noLI_push_next, noLI_expectToken, noLI_expectSemi])
  · -- parseObjectLiteral
    intro oL ih_oL  st r h
    replace ih_oL := curry2 ih_oL
    dsimp only [SmartM] at ih_oL ⊢
    obtain ⟨x, st'⟩ := r
    intro h0
    pdecompW h [ih_oL, smart_parseFunctionParameters]
    all_goals clear ih_oL
    all_goals refine ⟨?_, by simp_all (maxDischargeDepth := 8) [noLI_next, noLI_push_next, noLI_expectToken, noLI_expectSemi]⟩
    all_goals (rw [parseObjectLiteral]; simp_all (maxDischargeDepth := 8) [noLI_next, noLI_push_next, noLI_expectToken, noLI_expectSemi])
  · -- objectLoop
    intro pE oL ih_pE ih_oL acc st r h
    replace ih_pE := curry3 ih_pE; replace ih_oL := curry2 ih_oL
    dsimp only [SmartM] at ih_pE ih_oL ⊢
    obtain ⟨x, st'⟩ := r
    intro h0
    pdecompW h [ih_pE, ih_oL, smart_parseFunctionParameters]
    all_goals clear ih_pE ih_oL
    all_goals refine ⟨?_, by simp_all (maxDischargeDepth := 8) [noLI_next, noLI_push_next, noLI_expectToken, noLI_expectSemi]⟩
    all_goals (rw [objectLoop]; simp_all (maxDischargeDepth := 8) [noLI_next, noLI_push_next, noLI_expectToken, noLI_expectSemi])
  · -- parseForStatement
    intro pS pE pFI ih_pS ih_pE ih_pFI  st r h
    replace ih_pS := curry2 ih_pS; replace ih_pE := curry3 ih_pE; replace ih_pFI := curry1 ih_pFI
    dsimp only [SmartM] at ih_pS ih_pE ih_pFI ⊢
    obtain ⟨x, st'⟩ := r
    intro h0
    pdecompW h [ih_pS, ih_pE, ih_pFI, smart_parseFunctionParameters]
    all_goals clear ih_pS ih_pE ih_pFI
    all_goals refine ⟨?_, by simp_all (maxDischargeDepth := 8) [noLI_next, noLI_push_next, noLI_expectToken, noLI_expectSemi]⟩
    all_goals (rw [parseForStatement]; simp_all (maxDischargeDepth := 8) [noLI_next, noLI_push_next, noLI_expectToken, noLI_expectSemi])
  · -- parseForInit
    intro pE pLE ih_pE ih_pLE  st r h
    replace ih_pE := curry3 ih_pE; replace ih_pLE := curry1 ih_pLE
    dsimp only [SmartM] at ih_pE ih_pLE ⊢
    obtain ⟨x, st'⟩ := r
    intro h0
    pdecompW h [ih_pE, ih_pLE, smart_parseFunctionParameters]
    all_goals clear ih_pE ih_pLE
    all_goals refine ⟨?_, by simp_all (maxDischargeDepth := 8) [noLI_next, noLI_push_next, noLI_expectToken, noLI_expectSemi]⟩
    all_goals (rw [parseForInit]; simp_all (maxDischargeDepth := 8) [noLI_next, noLI_push_next, noLI_expectToken, noLI_expectSemi])
  · -- parseLetExpression
    intro pE ih_pE  st r h
    replace ih_pE := curry3 ih_pE
    dsimp only [SmartM] at ih_pE ⊢
    obtain ⟨x, st'⟩ := r
    intro h0
    pdecompW h [ih_pE, smart_parseFunctionParameters]
    all_goals clear ih_pE
    all_goals refine ⟨?_, by simp_all (maxDischargeDepth := 8) [noLI_next, noLI_push_next, noLI_expectToken, noLI_expectSemi]⟩
    all_goals (rw [parseLetExpression]; simp_all (maxDischargeDepth := 8) [noLI_next, noLI_push_next, noLI_expectToken, noLI_expectSemi])
  · -- parseWhileStatement
    intro pS pE ih_pS ih_pE  st r h
    replace ih_pS := curry2 ih_pS; replace ih_pE := curry3 ih_pE
    dsimp only [SmartM] at ih_pS ih_pE ⊢
    obtain ⟨x, st'⟩ := r
    intro h0
    pdecompW h [ih_pS, ih_pE, smart_parseFunctionParameters]
    all_goals clear ih_pS ih_pE
    all_goals refine ⟨?_, by simp_all (maxDischargeDepth := 8) [noLI_next, noLI_push_next, noLI_expectToken, noLI_expectSemi]⟩
    all_goals (rw [parseWhileStatement]; simp_all (maxDischargeDepth := 8) [noLI_next, noLI_push_next, noLI_expectToken, noLI_expectSemi])
  · -- parseIfStatement
    intro pS pE ih_pS ih_pE  st r h
    replace ih_pS := curry2 ih_pS; replace ih_pE := curry3 ih_pE
    dsimp only [SmartM] at ih_pS ih_pE ⊢
    obtain ⟨x, st'⟩ := r
    intro h0
    pdecompW h [ih_pS, ih_pE, smart_parseFunctionParameters]
    all_goals clear ih_pS ih_pE
    all_goals refine ⟨?_, by simp_all (maxDischargeDepth := 8) [noLI_next, noLI_push_next, noLI_expectToken, noLI_expectSemi]⟩
    all_goals (rw [parseIfStatement]; simp_all (maxDischargeDepth := 8) [noLI_next, noLI_push_next, noLI_expectToken, noLI_expectSemi])
  · -- parseReturnStatement
    intro pE ih_pE  st r h
    replace ih_pE := curry3 ih_pE
    dsimp only [SmartM] at ih_pE ⊢
    obtain ⟨x, st'⟩ := r
    intro h0
    pdecompW h [ih_pE, smart_parseFunctionParameters]
    all_goals clear ih_pE
    all_goals refine ⟨?_, by simp_all (maxDischargeDepth := 8) [noLI_next, noLI_push_next, noLI_expectToken, noLI_expectSemi]⟩
    all_goals (rw [parseReturnStatement]; simp_all (maxDischargeDepth := 8) [noLI_next, noLI_push_next, noLI_expectToken, noLI_expectSemi])
  · -- parseFunctionStatement
    intro pB ih_pB  st r h
    replace ih_pB := curry1 ih_pB
    dsimp only [SmartM] at ih_pB ⊢
    obtain ⟨x, st'⟩ := r
    intro h0
    pdecompW h [ih_pB, smart_parseFunctionParameters]
    all_goals clear ih_pB
    all_goals refine ⟨?_, by simp_all (maxDischargeDepth := 8) [noLI_next, noLI_push_next, noLI_expectToken, noLI_expectSemi]⟩
    all_goals (rw [parseFunctionStatement]; simp_all (maxDischargeDepth := 8) [noLI_next, noLI_push_next, noLI_expectToken, noLI_expectSemi])
  · -- parseLetStatement
    intro pE ih_pE  st r h
    replace ih_pE := curry3 ih_pE
    dsimp only [SmartM] at ih_pE ⊢
    obtain ⟨x, st'⟩ := r
    intro h0
    pdecompW h [ih_pE, smart_parseFunctionParameters]
    all_goals clear ih_pE
    all_goals refine ⟨?_, by simp_all (maxDischargeDepth := 8) [noLI_next, noLI_push_next, noLI_expectToken, noLI_expectSemi]⟩
    all_goals (rw [parseLetStatement]; simp_all (maxDischargeDepth := 8) [noLI_next, noLI_push_next, noLI_expectToken, noLI_expectSemi])

end Xjs
