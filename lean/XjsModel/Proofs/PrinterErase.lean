import XjsModel.Proofs.PrinterCompact
import XjsModel.Spec.Erase
namespace Xjs

@[simp] theorem erase_isNone_expr (e : Expr) : e.erase.isNone = e.isNone := by cases e <;> rfl
@[simp] theorem erase_isNone_stmt (s : Stmt) : s.erase.isNone = s.isNone := by cases s <;> rfl
@[simp] theorem erase_prec (e : Expr) : e.erase.prec = e.prec := by cases e <;> rfl

theorem writeIdent_erase (id : Ident) (cw : CW) (h : cw.pretty = false) :
    writeIdent id.noComments cw = writeIdent id cw := by
  rw [writeIdent_compact _ _ h, writeIdent_compact _ _ h]; rfl

theorem writeParams_erase (ps : List Ident) (first : Bool) (cw : CW) (h : cw.pretty = false) :
    writeParams (ps.map Ident.noComments) first cw = writeParams ps first cw := by
  induction ps generalizing cw first with
  | nil => rfl
  | cons p rest ih =>
    simp only [List.map_cons, writeParams]
    rw [writeIdent_erase _ _ (by simp [h]), ih _ _ (by simp [h])]

theorem head_erase (cw : CW) (t : Token) (h : cw.pretty = false) : cw.head t.noComments = cw.head t := by
  rw [head_compact _ _ h, head_compact _ _ h]; rfl

theorem leadingComments_erase (cw : CW) (t : Token) (h : cw.pretty = false) :
    cw.leadingComments t.noComments.comments = cw.leadingComments t.comments := by
  rw [leadingComments_compact _ _ h, leadingComments_compact _ _ h]

mutual
  theorem writeExpr_erase : ∀ (e : Expr) (cw : CW), cw.pretty = false → writeExpr e.erase cw = writeExpr e cw
    | .none, cw, h => rfl
    | .ident id, cw, h => by simp only [Expr.erase, writeExpr]; exact writeIdent_erase id cw h
    | .int tok, cw, h => by simp only [Expr.erase, writeExpr, head_erase _ _ h]; rfl
    | .float tok, cw, h => by simp only [Expr.erase, writeExpr, head_erase _ _ h]; rfl
    | .str tok v, cw, h => by simp only [Expr.erase, writeExpr, head_erase _ _ h]
    | .raw tok v, cw, h => by simp only [Expr.erase, writeExpr, head_erase _ _ h]
    | .bool tok b, cw, h => by simp only [Expr.erase, writeExpr, head_erase _ _ h]; rfl
    | .null tok, cw, h => by simp only [Expr.erase, writeExpr, head_erase _ _ h]
    | .letE tok name v, cw, h => by
      simp only [Expr.erase, writeExpr, erase_isNone_expr, head_erase _ _ h]
      rw [writeIdent_erase _ _ (by simp [h])]
      split
      · rfl
      · exact writeExpr_erase v _ (by simp [h])
    | .binary tok l op r, cw, h => by
      simp only [Expr.erase, writeExpr, erase_isNone_expr, erase_prec]
      rw [writeExpr_erase l _ (by simp [h])]
      rw [head_erase _ _ (by simp [h, pretty_writeExpr])]
      rw [writeExpr_erase r _ (by simp [h, pretty_writeExpr])]
      rfl
    | .unary tok op r, cw, h => by
      have hd : r.erase.isDecrement = r.isDecrement := by cases r <;> rfl
      simp only [Expr.erase, writeExpr, erase_isNone_expr, erase_prec, hd]
      rw [leadingComments_erase _ _ h, writeExpr_erase r _ (by split <;> simp [h])]
      rfl
    | .postfix tok l op, cw, h => by
      simp only [Expr.erase, writeExpr, erase_isNone_expr, erase_prec]
      rw [leadingComments_erase _ _ h, writeExpr_erase l _ (by simp [h])]
      rfl
    | .group tok e rp, cw, h => by
      simp only [Expr.erase, writeExpr]
      rw [head_erase _ _ h, writeExpr_erase e _ (by simp [h]),
        leadingComments_erase _ _ (by simp [h, pretty_writeExpr])]
    | .call tok fn args, cw, h => by
      simp only [Expr.erase, writeExpr]
      rw [writeExpr_erase fn _ h, head_erase _ _ (by simp [h, pretty_writeExpr]),
        writeExprList_erase args _ _ (by simp [h, pretty_writeExpr])]
    | .member tok obj prop c, cw, h => by
      have hd : obj.erase.isDecimalInt = obj.isDecimalInt := by
        cases obj <;> simp [Expr.erase, Expr.isDecimalInt, Token.noComments]
      simp only [Expr.erase, writeExpr, hd]
      rw [writeExpr_erase obj _ h, leadingComments_erase _ _ (by simp [h, pretty_writeExpr])]
      split
      · rw [writeExpr_erase prop _ (by simp [h, pretty_writeExpr])]; rfl
      · split
        · rw [writeExpr_erase prop _ (by simp [h, pretty_writeExpr])]; rfl
        · rw [writeExpr_erase prop _ (by simp [h, pretty_writeExpr])]; rfl
    | .assign tok l v, cw, h => by
      simp only [Expr.erase, writeExpr]
      rw [writeExpr_erase l _ h, head_erase _ _ (by simp [h, pretty_writeExpr]),
        writeExpr_erase v _ (by simp [h, pretty_writeExpr])]
    | .compound tok l op v, cw, h => by
      simp only [Expr.erase, writeExpr]
      rw [writeExpr_erase l _ h, head_erase _ _ (by simp [h, pretty_writeExpr]),
        writeExpr_erase v _ (by simp [h, pretty_writeExpr])]
    | .func tok name params body, cw, h => by
      cases name with
      | none =>
        simp only [Expr.erase, writeExpr, Option.map_none]
        rw [head_erase _ _ h, writeParams_erase _ _ _ (by simp [h]), writeStmt_erase body _ (by simp [h])]
      | some n =>
        simp only [Expr.erase, writeExpr, Option.map_some]
        rw [head_erase _ _ h, writeIdent_erase _ _ (by simp [h]), writeParams_erase _ _ _ (by simp [h]),
          writeStmt_erase body _ (by simp [h])]
    | .array tok elems rb, cw, h => by
      simp only [Expr.erase, writeExpr]
      rw [head_erase _ _ h, writeExprList_erase elems _ _ (by simp [h]),
        leadingComments_erase _ _ (by simp [h, pretty_writeExprList])]
    | .object tok props rb, cw, h => by
      simp only [Expr.erase, writeExpr]
      rw [head_erase _ _ h, writeProps_erase props _ _ (by simp [h]),
        leadingComments_erase _ _ (by simp [h, pretty_writeProps])]
  theorem writeExprList_erase : ∀ (es : ExprList) (first : Bool) (cw : CW), cw.pretty = false →
      writeExprList es.erase first cw = writeExprList es first cw
    | .nil, _, cw, h => rfl
    | .cons e rest, first, cw, h => by
      simp only [ExprList.erase, writeExprList]
      rw [writeExpr_erase e _ (by simp [h]), writeExprList_erase rest _ _ (by simp [h, pretty_writeExpr])]
  theorem writeProps_erase : ∀ (ps : PropList) (first : Bool) (cw : CW), cw.pretty = false →
      writeProps ps.erase first cw = writeProps ps first cw
    | .nil, _, cw, h => rfl
    | .cons k v rest, first, cw, h => by
      simp only [PropList.erase, writeProps]
      rw [writeExpr_erase k _ (by simp [h]), writeExpr_erase v _ (by simp [h, pretty_writeExpr]),
        writeProps_erase rest _ _ (by simp [h, pretty_writeExpr])]
  theorem writeStmt_erase : ∀ (s : Stmt) (cw : CW), cw.pretty = false → writeStmt s.erase cw = writeStmt s cw
    | .none, cw, h => rfl
    | .letS tok name v, cw, h => by
      simp only [Stmt.erase, writeStmt, erase_isNone_expr, head_erase _ _ h]
      rw [writeIdent_erase _ _ (by simp [h])]
      split
      · rfl
      · rw [writeExpr_erase v _ (by simp [h])]
    | .ret tok v, cw, h => by
      simp only [Stmt.erase, writeStmt, erase_isNone_expr, head_erase _ _ h]
      split
      · rfl
      · rw [writeExpr_erase v _ (by simp [h])]
    | .exprS e, cw, h => by
      simp only [Stmt.erase, writeStmt, erase_isNone_expr]
      rw [writeExpr_erase e _ h]
    | .funcD tok name params body, cw, h => by
      simp only [Stmt.erase, writeStmt]
      rw [head_erase _ _ h, writeIdent_erase _ _ (by simp [h]), writeParams_erase _ _ _ (by simp [h]),
        writeStmt_erase body _ (by simp [h])]
    | .block tok stmts rb, cw, h => by
      simp only [Stmt.erase, writeStmt]
      rw [head_erase _ _ h, writeBlockStmts_erase stmts _ _ (by simp [h]),
        leadingComments_erase _ _ (by simp [h, pretty_writeBlockStmts])]
    | .ifS tok c a b, cw, h => by
      simp only [Stmt.erase, writeStmt, erase_isNone_stmt]
      rw [head_erase _ _ h, writeExpr_erase c _ (by simp [h]), writeStmt_erase a _ (by simp [h, pretty_writeExpr])]
      split
      · rfl
      · rw [writeStmt_erase b _ (by simp [h, pretty_writeExpr, pretty_writeStmt])]
    | .whileS tok c b, cw, h => by
      simp only [Stmt.erase, writeStmt]
      rw [head_erase _ _ h, writeExpr_erase c _ (by simp [h]), writeStmt_erase b _ (by simp [h, pretty_writeExpr])]
    | .forS tok i c u b, cw, h => by
      simp only [Stmt.erase, writeStmt, erase_isNone_expr]
      rw [head_erase _ _ h]
      rw [writeExpr_erase i _ (by simp [h])]
      have h1 : ∀ x : CW, x.pretty = false → (if c.isNone then x else writeExpr c.erase x) = (if c.isNone then x else writeExpr c x) := by
        intro x hx; split
        · rfl
        · exact writeExpr_erase c x hx
      have h2 : ∀ x : CW, x.pretty = false → (if u.isNone then x else writeExpr u.erase x) = (if u.isNone then x else writeExpr u x) := by
        intro x hx; split
        · rfl
        · exact writeExpr_erase u x hx
      rw [h1 _ (by simp [h, pretty_writeExpr]), h2 _ (by simp [h, pretty_writeExpr]),
        writeStmt_erase b _ (by simp [h, pretty_writeExpr])]
  theorem writeBlockStmts_erase : ∀ (ss : StmtList) (first : Bool) (cw : CW), cw.pretty = false →
      writeBlockStmts ss.erase first cw = writeBlockStmts ss first cw
    | .nil, _, cw, h => rfl
    | .cons s rest, first, cw, h => by
      simp only [StmtList.erase, writeBlockStmts]
      rw [writeStmt_erase s _ (by simp [h]), writeBlockStmts_erase rest _ _ (by simp [h, pretty_writeStmt])]
  theorem writeProgramStmts_erase : ∀ (ss : StmtList) (first : Bool) (cw : CW), cw.pretty = false →
      writeProgramStmts ss.erase first cw = writeProgramStmts ss first cw
    | .nil, _, cw, h => rfl
    | .cons s rest, first, cw, h => by
      simp only [StmtList.erase, writeProgramStmts]
      rw [writeStmt_erase s _ (by simp [h]), writeProgramStmts_erase rest _ _ (by simp [h, pretty_writeStmt])]
end

end Xjs
