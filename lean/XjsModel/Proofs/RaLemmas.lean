import XjsModel.Proofs.RaUnfold
/-
  Round trip, part 3: the Pratt invariant by induction on the tree.
-/
namespace Xjs.RA
open Xjs

variable {cfg : PCfg}

/-- the Pratt invariant for one spec expression -/
def Main (cfg : PCfg) (s : SE) : Prop :=
  ∀ (p : Nat) (st : PS) (rest : List Token), rest ≠ [] → st.toks = s.toks ++ rest → s.fits p → stops cfg s.rbl rest →
    parseExpressionI cfg [] p st = parseRemaining cfg s.tree p (nextK (s.toks.length - 1) st)

theorem toks_split (s : SE) : ∃ pre last, s.toks = pre ++ [last] ∧ pre.length = s.toks.length - 1 := by
  have h := toks_ne_nil s
  refine ⟨s.toks.dropLast, s.toks.getLast h, (List.dropLast_concat_getLast h).symm, by simp⟩

/-- where the cursor stands after the expression has been read -/
theorem toks_after (ts : List Token) (hne : ts ≠ []) (rest : List Token) (st : PS) (h : st.toks = ts ++ rest) :
    ∃ last, (nextK (ts.length - 1) st).toks = last :: rest ∧ ts.getLast? = some last := by
  refine ⟨ts.getLast hne, ?_, List.getLast?_eq_some_getLast hne⟩
  have e := List.dropLast_concat_getLast hne
  have h' : st.toks = ts.dropLast ++ ts.getLast hne :: rest := by
    rw [h]; calc ts ++ rest = (ts.dropLast ++ [ts.getLast hne]) ++ rest := by rw [e]
      _ = _ := by simp
  have := toks_nextK ts.dropLast (ts.getLast hne) rest st h'
  simpa using this

theorem precOf_rparen (hc : BaseCfg cfg) : precOf cfg .rparen = 1 := by
  rw [precOf_base hc]; decide

/-- the value of a whole sub-expression, once the loop at level `q` stops behind it -/
theorem eval_of_main (s : SE) (ih : Main cfg s) (q : Nat) (st : PS) (rest : List Token) (hr : rest ≠ [])
    (ht : st.toks = s.toks ++ rest) (hf : s.fits q) (hs : stops cfg s.rbl rest) (hq : stops cfg q rest) :
    parseExpressionI cfg [] q st = some (s.tree, nextK (s.toks.length - 1) st) := by
  rw [ih q st rest hr ht hf hs]
  obtain ⟨last, hl, _⟩ := toks_after s.toks (toks_ne_nil s) rest st ht
  apply remaining_stop
  cases rest with
  | nil => exact absurd rfl hr
  | cons t r =>
    rw [peek_of_toks hl]
    exact hq

/-- explicit (or printer-made) parentheses around an expression -/
theorem group_case' (hc : BaseCfg cfg) (lp rp : Token) (hlp : lp.type = .lparen) (hrp : rp.type = .rparen) (s : SE)
    (hw : s.wf = true) (ih : Main cfg s) :
    ∀ (p : Nat) (st : PS) (rest : List Token), rest ≠ [] → st.toks = (lp :: s.toks ++ [rp]) ++ rest →
      parseExpressionI cfg [] p st =
        parseRemaining cfg (.group lp s.tree rp) p (nextK ((lp :: s.toks ++ [rp]).length - 1) st) := by
  intro p st rest hr ht
  have hne := toks_ne_nil s
  obtain ⟨a, as, has⟩ := List.exists_cons_of_ne_nil hne
  have ht1 : st.toks = lp :: a :: (as ++ rp :: rest) := by rw [ht, has]; simp
  have hcur : st.cur = lp := cur_of_toks ht1
  have hn : st.next.toks = s.toks ++ (rp :: rest) := by rw [next_toks_cons ht1, has]; simp
  have hfit : s.fits LOWEST := fits_lowest s hw
  have hstop1 : stops cfg s.rbl (rp :: rest) := by
    apply stops_prec; show precOf cfg rp.type ≤ s.rbl
    rw [hrp, precOf_rparen hc]
    exact rbl_ge_one s hw
  have hstop2 : stops cfg LOWEST (rp :: rest) := by
    apply stops_prec; show precOf cfg rp.type ≤ LOWEST
    rw [hrp, precOf_rparen hc]; decide
  have e1 := eval_of_main s ih LOWEST st.next (rp :: rest) (by simp) hn hfit hstop1 hstop2
  obtain ⟨last, hl, _⟩ := toks_after s.toks hne (rp :: rest) st.next hn
  have hpeek : (nextK (s.toks.length - 1) st.next).peek = rp := by
    cases rest with
    | nil => exact absurd rfl hr
    | cons t r => exact peek_of_toks hl
  have hexp : expectToken .rparen (nextK (s.toks.length - 1) st.next) = (true, (nextK (s.toks.length - 1) st.next).next) := by
    unfold expectToken; rw [hpeek, hrp]; rfl
  rw [unfold_expr, prefix_group hc st (by rw [hcur]; exact hlp), e1]
  simp only [Option.bind_eq_bind, Option.bind_some, hexp, if_true]
  rw [next_cur, hpeek, hcur]
  congr 1
  have hlen : s.toks.length ≥ 1 := by rw [has]; simp
  rw [← nextK_succ', show s.toks.length - 1 + 1 = s.toks.length by omega]
  show nextK (s.toks.length + 1) st = _
  congr 1
  simp

theorem group_case (hc : BaseCfg cfg) (s : SE) (hw : s.wf = true) (ih : Main cfg s) :
    ∀ (p : Nat) (st : PS) (rest : List Token), rest ≠ [] → st.toks = (lpT :: s.toks ++ [rpT]) ++ rest →
      parseExpressionI cfg [] p st =
        parseRemaining cfg (.group lpT s.tree rpT) p (nextK ((lpT :: s.toks ++ [rpT]).length - 1) st) :=
  group_case' hc lpT rpT rfl rfl s hw ih

/-- a sub-expression in operand position: parenthesised by the printer (`b`) or not -/
theorem wrapped (hc : BaseCfg cfg) (s : SE) (hw : s.wf = true) (ih : Main cfg s) (b : Bool) :
    ∀ (q : Nat) (st : PS) (rest : List Token), rest ≠ [] → st.toks = wrapToks b s.toks ++ rest →
      (b = false → s.fits q) → stops cfg (if b then precAtomic else s.rbl) rest → stops cfg q rest →
      parseExpressionI cfg [] q st = some (wrapTree b s.tree, nextK ((wrapToks b s.toks).length - 1) st) := by
  intro q st rest hr ht hf hs hq
  cases b with
  | false =>
    simp only [wrapToks, wrapTree, Bool.false_eq_true, if_false] at ht hs ⊢
    exact eval_of_main s ih q st rest hr ht (hf rfl) hs hq
  | true =>
    simp only [wrapToks, wrapTree, if_true] at ht hs ⊢
    rw [group_case hc s hw ih q st rest hr ht]
    obtain ⟨last, hl, _⟩ := toks_after (lpT :: s.toks ++ [rpT]) (by simp) rest st ht
    apply remaining_stop
    cases rest with
    | nil => exact absurd rfl hr
    | cons t r => rw [peek_of_toks hl]; exact hq

theorem precOf_rbracket (hc : BaseCfg cfg) : precOf cfg .rbracket = 1 := by
  rw [precOf_base hc]; decide
theorem precOf_comma (hc : BaseCfg cfg) : precOf cfg .comma = 1 := by
  rw [precOf_base hc]; decide

/-- the comma loop of an expression list -/
def LoopInv (cfg : PCfg) (es : SEList) : Prop :=
  ∀ (acc : ExprList) (st : PS) (last endT : Token) (rest : List Token), rest ≠ [] →
    st.toks = last :: (es.ctoks ++ endT :: rest) → endT.type ≠ .comma → precOf cfg endT.type ≤ 1 →
    exprListLoop cfg acc st = some (acc.app es.tree, nextK es.ctoks.length st)

/-- `ParseExpressionList` from the opening token to the closing one -/
def MainList (cfg : PCfg) (es : SEList) : Prop :=
  ∀ (st : PS) (opn endT : Token) (rest : List Token), rest ≠ [] →
    st.toks = opn :: (es.toks ++ endT :: rest) → (endT.type = .rparen ∨ endT.type = .rbracket) →
    parseExpressionList cfg endT.type st = some (es.tree, nextK (es.toks.length + 1) st)

theorem loop_nil : LoopInv cfg .nil := by
  intro acc st last endT rest hr ht hc1 _
  have ht' : st.toks = last :: endT :: rest := by simpa [SEList.ctoks] using ht
  rw [loop_stop acc st (by rw [peek_of_toks ht']; exact hc1)]
  simp [SEList.tree, SEList.ctoks, nextK, ExprList.app_nil]

theorem loop_cons (hc : BaseCfg cfg) (e : SE) (es : SEList) (hw : e.wf = true) (ihe : Main cfg e) (ihl : LoopInv cfg es) :
    LoopInv cfg (.cons e es) := by
  intro acc st last endT rest hr ht hc1 hp1
  obtain ⟨a, as, has⟩ := List.exists_cons_of_ne_nil (toks_ne_nil e)
  have ht' : st.toks = last :: commaT :: a :: (as ++ (es.ctoks ++ endT :: rest)) := by
    rw [ht]; simp [SEList.ctoks, has]
  have hpeek : st.peek = commaT := peek_of_toks ht'
  have hn : st.next.next.toks = e.toks ++ (es.ctoks ++ endT :: rest) := by
    rw [next_toks_cons (next_toks_cons ht'), has]; simp
  -- what follows the element: a comma or the closing token
  have hstopE : ∀ q, 1 ≤ q → stops cfg q (es.ctoks ++ endT :: rest) := by
    intro q hq
    cases es with
    | nil => exact stops_prec (Nat.le_trans hp1 hq)
    | cons e2 es2 =>
      apply stops_prec
      show precOf cfg TokType.comma ≤ q
      rw [precOf_comma hc]; exact hq
  have e1 := eval_of_main e ihe LOWEST st.next.next (es.ctoks ++ endT :: rest) (by simp) hn (fits_lowest e hw)
    (hstopE _ (rbl_ge_one e hw)) (hstopE _ (by decide))
  obtain ⟨lastE, hl, _⟩ := toks_after e.toks (toks_ne_nil e) (es.ctoks ++ endT :: rest) st.next.next hn
  rw [loop_step hc acc st (by rw [hpeek]; rfl), e1]
  simp only [Option.bind_eq_bind, Option.bind_some]
  rw [ihl (acc.snoc e.tree) _ lastE endT rest hr hl hc1 hp1, ExprList.snoc_app]
  congr 2
  have hlen : e.toks.length ≥ 1 := by rw [has]; simp
  have : (SEList.cons e es).ctoks.length = 2 + ((e.toks.length - 1) + es.ctoks.length) := by
    simp [SEList.ctoks]; omega
  rw [this, nextK_add, nextK_add]
  rfl

theorem list_nil : MainList cfg .nil := by
  intro st opn endT rest hr ht _
  have ht' : st.toks = opn :: endT :: rest := by simpa [SEList.toks] using ht
  rw [list_empty endT.type st (by rw [peek_of_toks ht'])]
  rfl

theorem prefix_not_closing (ty : TokType) (h : (lookup basePrefixFns ty).isSome = true) : ty ≠ .rparen ∧ ty ≠ .rbracket := by
  constructor <;> (intro e; rw [e] at h; revert h; decide)

theorem list_cons (hc : BaseCfg cfg) (e : SE) (es : SEList) (hw : e.wf = true) (ihe : Main cfg e) (ihl : LoopInv cfg es) :
    MainList cfg (.cons e es) := by
  intro st opn endT rest hr ht hend
  obtain ⟨a, as, has, hpre⟩ := head_prefix e hw
  have hnc := prefix_not_closing a.type hpre
  have ht' : st.toks = opn :: a :: (as ++ (es.ctoks ++ endT :: rest)) := by rw [ht]; simp [SEList.toks, has]
  have hpeek : st.peek = a := peek_of_toks ht'
  have hn : st.next.toks = e.toks ++ (es.ctoks ++ endT :: rest) := by rw [next_toks_cons ht', has]; simp
  have hp1 : precOf cfg endT.type ≤ 1 := by
    rcases hend with h | h <;> rw [h]
    · rw [precOf_rparen hc]; exact Nat.le_refl _
    · rw [precOf_rbracket hc]; exact Nat.le_refl _
  have hc1 : endT.type ≠ .comma := by rcases hend with h | h <;> rw [h] <;> decide
  have hstopE : ∀ q, 1 ≤ q → stops cfg q (es.ctoks ++ endT :: rest) := by
    intro q hq
    cases es with
    | nil => exact stops_prec (Nat.le_trans hp1 hq)
    | cons e2 es2 =>
      apply stops_prec
      show precOf cfg TokType.comma ≤ q
      rw [precOf_comma hc]; exact hq
  have e1 := eval_of_main e ihe LOWEST st.next (es.ctoks ++ endT :: rest) (by simp) hn (fits_lowest e hw)
    (hstopE _ (rbl_ge_one e hw)) (hstopE _ (by decide))
  obtain ⟨lastE, hl, _⟩ := toks_after e.toks (toks_ne_nil e) (es.ctoks ++ endT :: rest) st.next hn
  have e2 := ihl (.cons e.tree .nil) _ lastE endT rest hr hl hc1 hp1
  -- the cursor in front of the closing token
  obtain ⟨lastL, hl2, _⟩ := toks_after (lastE :: es.ctoks) (by simp) (endT :: rest) (nextK (e.toks.length - 1) st.next)
    (by rw [hl]; simp)
  have hl2' : (nextK es.ctoks.length (nextK (e.toks.length - 1) st.next)).toks = lastL :: endT :: rest := by simpa using hl2
  obtain ⟨r0, rs, hrs⟩ := List.exists_cons_of_ne_nil hr
  have hpk : (nextK es.ctoks.length (nextK (e.toks.length - 1) st.next)).peek = endT := by
    rw [hrs] at hl2'; exact peek_of_toks hl2'
  have hexp : expectToken endT.type (nextK es.ctoks.length (nextK (e.toks.length - 1) st.next)) =
      (true, (nextK es.ctoks.length (nextK (e.toks.length - 1) st.next)).next) := by
    unfold expectToken; rw [hpk]; simp
  rw [list_nonempty hc endT.type st (by
    rw [hpeek]; rcases hend with h | h <;> rw [h]
    · exact hnc.1
    · exact hnc.2), e1]
  simp only [Option.bind_eq_bind, Option.bind_some, e2, hexp, if_true]
  congr 2
  have hlen : e.toks.length ≥ 1 := by rw [has]; simp
  have : (SEList.cons e es).toks.length + 1 = 1 + ((e.toks.length - 1) + (es.ctoks.length + 1)) := by
    simp [SEList.toks]; omega
  rw [this, nextK_add, nextK_add, nextK_add]
  rfl

/-- `ParseFunctionParameters` from the `(` to the `)` -/
theorem params_rt (ps : List Token) (hps : ps.all isIdentTok = true) (st : PS) (opn : Token) (rest : List Token)
    (ht : st.toks = opn :: (paramToks ps ++ rpT :: rest)) (hr : rest ≠ []) :
    parseFunctionParameters st = some (ps.map identOf, nextK ((paramToks ps).length + 1) st) := by
  obtain ⟨r0, rs, hrs⟩ := List.exists_cons_of_ne_nil hr
  unfold parseFunctionParameters
  cases ps with
  | nil =>
    have ht' : st.toks = opn :: rpT :: rest := by simpa [paramToks] using ht
    have : (st.peek.type == TokType.rparen) = true := by rw [peek_of_toks ht']; rfl
    simp [this, paramToks, nextK]
  | cons p ps =>
    rw [paramToks_cons] at ht ⊢
    have ht' : st.toks = opn :: p :: (cparamToks ps ++ rpT :: rest) := by simpa using ht
    have hp : p.type = .ident := by
      simp only [List.all_cons, Bool.and_eq_true] at hps
      simpa [isIdentTok] using hps.1
    have : (st.peek.type == TokType.rparen) = false := by rw [peek_of_toks ht', hp]; rfl
    simp only [this, Bool.false_eq_true, if_false]
    have h1 : st.next.toks = p :: (cparamToks ps ++ rpT :: rest) := next_toks_cons ht'
    have hcur : identOfCur st.next = identOf p := by unfold identOfCur identOf; rw [cur_of_toks h1]
    rw [params_loop ps [identOfCur st.next] st.next p rpT rest h1 (by decide), hcur]
    simp only [Option.bind_eq_bind, Option.bind_some]
    obtain ⟨last, hl, _⟩ := toks_after (p :: cparamToks ps) (by simp) (rpT :: rest) st.next (by rw [h1]; simp)
    simp only [List.length_cons, Nat.add_sub_cancel] at hl
    rw [hrs] at hl
    have hpk : (nextK (cparamToks ps).length st.next).peek = rpT := peek_of_toks hl
    have hexp : expectToken .rparen (nextK (cparamToks ps).length st.next) = (true, (nextK (cparamToks ps).length st.next).next) :=
      expect_ok (by rw [hpk]; rfl)
    simp only [hexp, if_true, List.singleton_append, List.map_cons]
    congr 2
    have e1 : (nextK (cparamToks ps).length st.next).next = nextK ((cparamToks ps).length + 1) st.next := (nextK_succ' _ _).symm
    have e2 : nextK ((cparamToks ps).length + 1) st.next = nextK (1 + ((cparamToks ps).length + 1)) st := by rw [nextK_add 1]; rfl
    rw [e1, e2]; congr 1; simp; omega

end Xjs.RA
