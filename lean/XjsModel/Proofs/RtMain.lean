import XjsModel.Proofs.RtCases
/-
  Round trip, part 5: the induction over the (mutually inductive) spec trees — structural recursion, each case
  discharged by its lemma in `RtCases` / `RtLemmas`.
-/
namespace Xjs.RTE
open Xjs

variable {cfg : PCfg}

mutual
  theorem main (hc : BaseCfg cfg) : ∀ (s : SE), s.wf = true → Main cfg s
    | .atom t, hw => case_atom hc t hw
    | .grp e, hw => case_grp hc e (by simpa [SE.wf] using hw) (main hc e (by simpa [SE.wf] using hw))
    | .un t r, hw =>
      have h : r.wf = true := by
        have hw' : (lookup basePrefixFns t.type == some .unary && r.wf) = true := by simpa [SE.wf] using hw
        simp only [Bool.and_eq_true] at hw'; exact hw'.2
      case_un hc t r hw (main hc r h)
    | .bin t l r, hw =>
      have h : l.wf = true ∧ r.wf = true := by
        have hw' : (lookup baseInfixFns t.type == some .binary && l.wf && r.wf) = true := by simpa [SE.wf] using hw
        simp only [Bool.and_eq_true] at hw'; exact ⟨hw'.1.2, hw'.2⟩
      case_bin hc t l r hw (main hc l h.1) (main hc r h.2)
    | .post t l, hw =>
      have h : l.wf = true := by
        have hw' : (lookup baseInfixFns t.type == some .postfix && l.wf) = true := by simpa [SE.wf] using hw
        simp only [Bool.and_eq_true] at hw'; exact hw'.2
      case_post hc t l hw (main hc l h)
    | .call t f args, hw =>
      have h : f.wf = true ∧ args.wf = true := by
        have hw' : (t.type == .lparen && !t.nl && decide (precCall ≤ f.level) && f.wf && args.wf) = true := by simpa [SE.wf] using hw
        simp only [Bool.and_eq_true] at hw'; exact ⟨hw'.1.2, hw'.2⟩
      case_call hc t f args hw (main hc f h.1) (mainList hc args h.2).1
    | .dot t o p, hw =>
      have h : o.wf = true := by
        have hw' : (t.type == .dot && decide (precCall ≤ o.level) && o.wf && atomWf p) = true := by simpa [SE.wf] using hw
        simp only [Bool.and_eq_true] at hw'; exact hw'.1.2
      case_dot hc t o p hw (main hc o h)
    | .idx t o p, hw =>
      have h : o.wf = true ∧ p.wf = true := by
        have hw' : (t.type == .lbracket && !t.nl && decide (precCall ≤ o.level) && o.wf && p.wf) = true := by simpa [SE.wf] using hw
        simp only [Bool.and_eq_true] at hw'; exact ⟨hw'.1.2, hw'.2⟩
      case_idx hc t o p hw (main hc o h.1) (main hc p h.2)
    | .asg t l v, hw =>
      have h : l.wf = true ∧ v.wf = true := by
        have hw' : (t.type == .assign && decide (precCall ≤ l.level) && l.wf && v.wf) = true := by simpa [SE.wf] using hw
        simp only [Bool.and_eq_true] at hw'; exact ⟨hw'.1.2, hw'.2⟩
      case_asg hc t l v hw (main hc l h.1) (main hc v h.2)
    | .casg t l v, hw =>
      have h : l.wf = true ∧ v.wf = true := by
        have hw' : ((t.type == .plusAssign || t.type == .minusAssign) && decide (precCall ≤ l.level) && l.wf && v.wf) = true := by
          simpa [SE.wf] using hw
        simp only [Bool.and_eq_true] at hw'; exact ⟨hw'.1.2, hw'.2⟩
      case_casg hc t l v hw (main hc l h.1) (main hc v h.2)
    | .arr t es, hw =>
      have h : es.wf = true := by
        have hw' : (t.type == .lbracket && es.wf) = true := by simpa [SE.wf] using hw
        simp only [Bool.and_eq_true] at hw'; exact hw'.2
      case_arr hc t es hw (mainList hc es h).1
  theorem mainList (hc : BaseCfg cfg) : ∀ (es : SEList), es.wf = true → MainList cfg es ∧ LoopInv cfg es
    | .nil, _ => ⟨list_nil, loop_nil⟩
    | .cons e rest, hw =>
      have h : e.wf = true ∧ rest.wf = true := by
        have hw' : (e.wf && rest.wf) = true := by simpa [SEList.wf] using hw
        simp only [Bool.and_eq_true] at hw'; exact hw'
      ⟨list_cons hc e rest h.1 (main hc e h.1) (mainList hc rest h.2).2,
       loop_cons hc e rest h.1 (main hc e h.1) (mainList hc rest h.2).2⟩
end

/-- THE ROUND TRIP (expressions without function and object literals): what the printer emits for a tree is parsed
    back to that tree, the cursor ending on the last token of the expression -/
theorem print_then_parse (hc : BaseCfg cfg) (s : SE) (hw : s.wf = true) (p : Nat) (st : PS) (rest : List Token)
    (hr : rest ≠ []) (ht : st.toks = s.toks ++ rest) (hf : s.fits p) (hs : stops cfg s.rbl rest) (hq : stops cfg p rest) :
    parseExpressionI cfg [] p st = some (s.tree, nextK (s.toks.length - 1) st) :=
  eval_of_main s (main hc s hw) p st rest hr ht hf hs hq

end Xjs.RTE
