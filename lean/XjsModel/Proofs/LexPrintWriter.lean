import XjsModel.Proofs.LexPrintTok
import XjsModel.Proofs.PrinterCompact
/-
  Lexing what the printer spells, part 2: the writer invariant `WInv cw ks fc` — in compact mode, with nothing pending,
  the text written so far, followed by any text `r` that the follow predicate `fc` admits, lexes to the keys `ks` and
  leaves `r` — and one lemma per writer operation.
-/
namespace Xjs.LP
open Xjs

structure WInv (cw : CW) (ks : List Key) (fc : Bytes → Bool) : Prop where
  compact : cw.pretty = false
  pend : cw.pendings = []
  lex : ∀ r, fc r = true → LexTo (cw.out ++ r) ks r
  /-- a sign that the follow predicate rejects is the last byte written (`separateSigns` looks at exactly that) -/
  sign : ∀ c r, (c = 43 ∨ c = 45) → fc (c :: r) = false → cw.out.getLast? = some c

def anyFol : Bytes → Bool := fun _ => true

theorem WInv.init (cw : CW) (hp : cw.pretty = false) (hq : cw.pendings = []) (ho : cw.out = []) : WInv cw [] anyFol :=
  ⟨hp, hq, fun r _ => by rw [ho]; exact LexTo.refl r, fun _ _ _ h => by cases h⟩

theorem WInv.congr {cw cw' : CW} {ks : List Key} {fc : Bytes → Bool} (h : WInv cw ks fc) (hp : cw'.pretty = cw.pretty)
    (hq : cw'.pendings = cw.pendings) (ho : cw'.out = cw.out) : WInv cw' ks fc :=
  ⟨hp.trans h.compact, hq.trans h.pend, fun r hr => by rw [ho]; exact h.lex r hr, fun c r hc hf => by rw [ho]; exact h.sign c r hc hf⟩

/-! ### operations that write nothing in compact mode -/

theorem WInv.mapAdvance {cw : CW} {ks fc} (h : WInv cw ks fc) (f : Mapper → Mapper) : WInv (cw.mapAdvance f) ks fc := by
  refine h.congr ?_ ?_ ?_ <;> (cases hm : cw.mapper <;> simp [CW.mapAdvance, hm])

theorem WInv.writeSpace {cw : CW} {ks fc} (h : WInv cw ks fc) : WInv cw.writeSpace ks fc := by
  have : cw.writeSpace = cw := by unfold CW.writeSpace; simp [h.compact]
  rw [this]; exact h
theorem WInv.writeNewline {cw : CW} {ks fc} (h : WInv cw ks fc) : WInv cw.writeNewline ks fc := by
  have : cw.writeNewline = cw := by unfold CW.writeNewline; simp [h.compact]
  rw [this]; exact h
theorem WInv.writeIndent {cw : CW} {ks fc} (h : WInv cw ks fc) : WInv cw.writeIndent ks fc := by
  have : cw.writeIndent = cw := by unfold CW.writeIndent; simp [h.compact]
  rw [this]; exact h
theorem WInv.increaseIndent {cw : CW} {ks fc} (h : WInv cw ks fc) : WInv cw.increaseIndent ks fc := by
  have : cw.increaseIndent = cw := by unfold CW.increaseIndent; simp [h.compact]
  rw [this]; exact h
theorem WInv.decreaseIndent {cw : CW} {ks fc} (h : WInv cw ks fc) : WInv cw.decreaseIndent ks fc := by
  have : cw.decreaseIndent = cw := by unfold CW.decreaseIndent; simp [h.compact]
  rw [this]; exact h
theorem WInv.leadingComments {cw : CW} {ks fc} (h : WInv cw ks fc) (cs : List Bytes) : WInv (cw.leadingComments cs) ks fc := by
  rw [leadingComments_compact cw cs h.compact]; exact h
theorem WInv.addMapping {cw : CW} {ks fc} (h : WInv cw ks fc) (a b : Nat) : WInv (cw.addMapping a b) ks fc := h.mapAdvance _
theorem WInv.addNamedMapping {cw : CW} {ks fc} (h : WInv cw ks fc) (a b : Nat) (n : Bytes) : WInv (cw.addNamedMapping a b n) ks fc :=
  h.mapAdvance _
theorem WInv.head {cw : CW} {ks fc} (h : WInv cw ks fc) (t : Token) : WInv (cw.head t) ks fc := by
  unfold CW.head; exact (h.leadingComments _).addMapping _ _
theorem WInv.newlineIf {cw : CW} {ks fc} (h : WInv cw ks fc) (b : Bool) : WInv (cw.newlineIf b) ks fc := by
  unfold CW.newlineIf; split
  · exact h
  · exact h.writeNewline

/-! ### writing text -/

theorem flushPending_nil (cw : CW) (h : cw.pendings = []) : cw.flushPending = cw := by
  cases cw; simp only at h; subst h; rfl

theorem writeString_fields (cw : CW) (h : cw.pendings = []) (w : Bytes) :
    (cw.writeString w).pretty = cw.pretty ∧ (cw.writeString w).pendings = [] ∧ (cw.writeString w).out = cw.out ++ w := by
  unfold CW.writeString; rw [flushPending_nil cw h]
  cases hm : cw.mapper <;> simp [CW.mapAdvance, hm, h]

theorem writeRune_fields (cw : CW) (h : cw.pendings = []) (c : Nat) :
    (cw.writeRune c).pretty = cw.pretty ∧ (cw.writeRune c).pendings = [] ∧ (cw.writeRune c).out = cw.out ++ [c] := by
  unfold CW.writeRune; rw [flushPending_nil cw h]
  cases hm : cw.mapper <;> simp [CW.mapAdvance, hm, h]

/-- the general step: the text `w` is the spelling of one token with key `k` and follow predicate `fk` -/
theorem WInv.token {cw cw' : CW} {ks fc} (h : WInv cw ks fc) (w : Bytes) (k : Key) (fk : Bytes → Bool)
    (hf : cw'.pretty = cw.pretty ∧ cw'.pendings = [] ∧ cw'.out = cw.out ++ w) (hw : w ≠ [])
    (htok : ∀ r, fk r = true → ∀ s : LS, s.rest = w ++ r → key3 (nextToken s) = (k, r, false, [])) (hk : k.1 ≠ .eof)
    (hpre : ∀ r, fk r = true → fc (w ++ r) = true)
    (hsign : ∀ c r, (c = 43 ∨ c = 45) → fk (c :: r) = false → w.getLast? = some c) : WInv cw' (ks ++ [k]) fk := by
  refine ⟨hf.1.trans h.compact, hf.2.1, fun r hr => ?_, fun c r hc hfk => ?_⟩
  · rw [hf.2.2, List.append_assoc]
    exact (h.lex (w ++ r) (hpre r hr)).snoc (htok r hr) hk
  · rw [hf.2.2, List.getLast?_append, hsign c r hc hfk]; rfl

/-- a separating blank -/
theorem WInv.space {cw : CW} {ks fc} (h : WInv cw ks fc) (hpre : ∀ r, fc (32 :: r) = true) : WInv (cw.writeRune 32) ks anyFol := by
  obtain ⟨h1, h2, h3⟩ := writeRune_fields cw h.pend 32
  refine ⟨h1.trans h.compact, h2, fun r _ => ?_, fun _ _ _ hf => by cases hf⟩
  rw [h3, List.append_assoc]
  exact (h.lex (32 :: r) (hpre r)).blank

end Xjs.LP
