import XjsModel.Proofs.ParserPosPass
/-
  Position erasure, program level: parsing the position-free token list gives the position-free result.
-/
namespace Xjs.Pos
open Xjs

variable {cfg : PCfg}

theorem pos_programLoop (acc : StmtList) (st : PS) (r : StmtList × PS) (h : programLoop cfg acc st = some r) :
    programLoop cfg (stmtListZ acc) (psZ st) = some (stmtListZ r.1, psZ r.2) := by
  refine programLoop.partial_correctness cfg
    (fun acc st r => programLoop cfg (stmtListZ acc) (psZ st) = some (stmtListZ r.1, psZ r.2)) ?_ acc st r h
  intro f ih acc st r h
  rw [programLoop]
  have hc : ((psZ st).cur.type != TokType.eof) = (st.cur.type != TokType.eof) := by
    simp only [bne, psZ_cur_type]
  rw [hc]
  split at h
  · rename_i hgo
    obtain ⟨⟨s, st1⟩, h1, h2⟩ := bind_some h
    have e1 := (pos_mutual (cfg := cfg)).1 _ _ _ h1
    have e2 := ih _ _ _ h2
    simp only [hgo, if_true, e1, Option.bind_eq_bind, Option.bind_some, stmtZ_isNone, psZ_next]
    rw [← e2]
    congr 1
    split <;> simp [stmtListZ_snoc]
  · rename_i hgo
    cases h
    simp [hgo]

/-- PARSING COMMUTES WITH ERASING POSITIONS: the parse of the position-free token list is the position-free parse -/
theorem pos_parseProgram (toks : List Token) (r : ParseResult) (h : parseProgram cfg toks = some r) :
    parseProgram cfg (toks.map tokZ) =
      some { prog := stmtListZ r.prog, errors := r.errors.map errZ, hasErr := r.hasErr, final := psZ r.final } := by
  unfold parseProgram at h ⊢
  obtain ⟨⟨stmts, st⟩, h1, h2⟩ := bind_some h
  cases h2
  have hinit : PS.init (toks.map tokZ) = psZ (PS.init toks) := by simp [PS.init, psZ]
  have := pos_programLoop .nil (PS.init toks) _ h1
  simp only [stmtListZ] at this
  rw [hinit, this]
  simp

end Xjs.Pos
