import XjsModel.Proofs.ParserTokens
import XjsModel.Proofs.ParserSteps
/-
  Provenance (C12 / C15): every token stored in a tree the parser returns satisfies any predicate that all input
  tokens satisfy (and that the end-of-input repeats satisfy) — the tree's tokens are the input's tokens, as full
  records, trivia included. For every input, mode and table, whatever errors were reported.
-/
namespace Xjs
set_option linter.unusedSimpArgs false
set_option linter.unusedVariables false

/-- the tokens the parser can store beyond those of the given list: the end token of an empty list, Go's zero token
    (the closing brace of an empty object literal is not recorded), a repeated end of input -/
def Closed (P : Token → Prop) : Prop := P dummyTok ∧ P zeroTok ∧ ∀ t, P t → P (eofAgain t)

def PS.ok (P : Token → Prop) (st : PS) : Prop := ∀ t ∈ st.toks, P t

mutual
  /-- every stored token satisfies `P` -/
  def Expr.allT (P : Token → Prop) : Expr → Prop
    | .none => True
    | .ident id => P id.tok
    | .int tok | .float tok | .null tok => P tok
    | .str tok _ | .raw tok _ | .bool tok _ => P tok
    | .letE tok name v => P tok ∧ P name.tok ∧ v.allT P
    | .binary tok l _ r => P tok ∧ l.allT P ∧ r.allT P
    | .unary tok _ r => P tok ∧ r.allT P
    | .postfix tok l _ => P tok ∧ l.allT P
    | .group tok e rp => P tok ∧ e.allT P ∧ P rp
    | .call tok f args => P tok ∧ f.allT P ∧ args.allT P
    | .member tok o p _ => P tok ∧ o.allT P ∧ p.allT P
    | .assign tok l v => P tok ∧ l.allT P ∧ v.allT P
    | .compound tok l _ v => P tok ∧ l.allT P ∧ v.allT P
    | .func tok name params body => P tok ∧ (∀ n, name = some n → P n.tok) ∧ (∀ i ∈ params, P i.tok) ∧ body.allT P
    | .array tok es rb => P tok ∧ es.allT P ∧ P rb
    | .object tok ps rb => P tok ∧ ps.allT P ∧ P rb
  def Stmt.allT (P : Token → Prop) : Stmt → Prop
    | .none => True
    | .letS tok name v => P tok ∧ P name.tok ∧ v.allT P
    | .ret tok v => P tok ∧ v.allT P
    | .exprS e => e.allT P
    | .funcD tok name params body => P tok ∧ P name.tok ∧ (∀ i ∈ params, P i.tok) ∧ body.allT P
    | .block tok ss rb => P tok ∧ ss.allT P ∧ P rb
    | .ifS tok c t e => P tok ∧ c.allT P ∧ t.allT P ∧ e.allT P
    | .whileS tok c b => P tok ∧ c.allT P ∧ b.allT P
    | .forS tok i c u b => P tok ∧ i.allT P ∧ c.allT P ∧ u.allT P ∧ b.allT P
  def ExprList.allT (P : Token → Prop) : ExprList → Prop
    | .nil => True
    | .cons e t => e.allT P ∧ t.allT P
  def StmtList.allT (P : Token → Prop) : StmtList → Prop
    | .nil => True
    | .cons s t => s.allT P ∧ t.allT P
  def PropList.allT (P : Token → Prop) : PropList → Prop
    | .nil => True
    | .cons k v t => k.allT P ∧ v.allT P ∧ t.allT P
end

theorem StmtList.allT_snoc (P : Token → Prop) : ∀ (l : StmtList) (s : Stmt), (l.snoc s).allT P ↔ (l.allT P ∧ s.allT P)
  | .nil, s => by simp [StmtList.snoc, StmtList.allT]
  | .cons x t, s => by simp [StmtList.snoc, StmtList.allT, StmtList.allT_snoc P t s, and_assoc]
theorem ExprList.allT_snoc (P : Token → Prop) : ∀ (l : ExprList) (e : Expr), (l.snoc e).allT P ↔ (l.allT P ∧ e.allT P)
  | .nil, e => by simp [ExprList.snoc, ExprList.allT]
  | .cons x t, e => by simp [ExprList.snoc, ExprList.allT, ExprList.allT_snoc P t e, and_assoc]
theorem PropList.allT_snoc (P : Token → Prop) : ∀ (l : PropList) (k v : Expr), (l.snoc k v).allT P ↔ (l.allT P ∧ k.allT P ∧ v.allT P)
  | .nil, k, v => by simp [PropList.snoc, PropList.allT]
  | .cons a b t, k, v => by simp [PropList.snoc, PropList.allT, PropList.allT_snoc P t k v, and_assoc]

section
variable {P : Token → Prop}

theorem P_cur (hc : Closed P) {st : PS} (h : st.ok P) : P st.cur := by
  unfold PS.cur; cases hs : st.toks with
  | nil => exact hc.1
  | cons a l => exact h a (by simp [hs])
theorem P_zero (hc : Closed P) : P zeroTok := hc.2.1
theorem P_peek (hc : Closed P) {st : PS} (h : st.ok P) : P st.peek := by
  unfold PS.peek
  match hs : st.toks with
  | [] => exact hc.1
  | [t] => exact hc.2.2 t (h t (by simp [hs]))
  | _ :: t :: _ => exact h t (by simp [hs])
theorem ok_next (hc : Closed P) {st : PS} (h : st.ok P) : st.next.ok P := by
  unfold PS.next PS.ok
  match hs : st.toks with
  | [] => intro t ht; simp [hs] at ht
  | [t] => intro u hu; simp at hu; subst hu; exact hc.2.2 t (h t (by simp [hs]))
  | a :: t :: ts => intro u hu; exact h u (by simp [hs]; simp at hu; exact Or.inr hu)
@[simp] theorem ok_push (st : PS) (c : Ctx) : (st.push c).ok P ↔ st.ok P := Iff.rfl
@[simp] theorem ok_pop (st : PS) : st.pop.ok P ↔ st.ok P := Iff.rfl
@[simp] theorem ok_addError (st : PS) (m : Bytes) : (st.addError m).ok P ↔ st.ok P := Iff.rfl
@[simp] theorem ok_addErrorAt (st : PS) (m : Bytes) (t : Token) : (st.addErrorAt m t).ok P ↔ st.ok P := Iff.rfl
@[simp] theorem ok_set (st : PS) (p : Nat) (t : List Event) : PS.ok P { st with curPrec := p, trace := t } ↔ st.ok P := Iff.rfl
@[simp] theorem ok_setPrec (st : PS) (p : Nat) : PS.ok P { st with curPrec := p } ↔ st.ok P := Iff.rfl
@[simp] theorem ok_setTrace (st : PS) (t : List Event) : PS.ok P { st with trace := t } ↔ st.ok P := Iff.rfl
theorem ok_expectToken (hc : Closed P) (ty : TokType) {st : PS} (h : st.ok P) : (expectToken ty st).2.ok P := by
  unfold expectToken; split
  · exact ok_next hc h
  · exact h
theorem ok_expectSemi (hc : Closed P) (cfg : PCfg) {st : PS} (h : st.ok P) : (expectSemiASI cfg st).2.ok P := by
  unfold expectSemiASI
  split
  · exact ok_next hc h
  · split
    · exact h
    · split <;> exact h

theorem identsAllT_append (a : List Ident) (i : Ident) : (∀ x ∈ a ++ [i], P x.tok) ↔ (∀ x ∈ a, P x.tok) ∧ P i.tok := by
  constructor
  · intro h; exact ⟨fun x hx => h x (by simp [hx]), h i (by simp)⟩
  · intro ⟨h1, h2⟩ x hx; simp at hx; rcases hx with hx | rfl; exact h1 x hx; exact h2

theorem prov_paramsLoop (hc : Closed P) (acc : List Ident) (st : PS) (r : List Ident × PS) (h : paramsLoop acc st = some r) :
    st.ok P → (∀ i ∈ acc, P i.tok) → (r.2.ok P ∧ ∀ i ∈ r.1, P i.tok) := by
  refine paramsLoop.partial_correctness
    (fun acc st r => st.ok P → (∀ i ∈ acc, P i.tok) → (r.2.ok P ∧ ∀ i ∈ r.1, P i.tok)) ?_ acc st r h
  intro f ih acc st r h hok hacc
  split at h
  · have h2 := ok_next hc (ok_next hc hok)
    refine ih _ _ _ h h2 ?_
    rw [identsAllT_append]
    exact ⟨hacc, by simpa [identOfCur] using P_cur hc h2⟩
  · cases h; exact ⟨hok, hacc⟩

theorem prov_parseFunctionParameters (hc : Closed P) (st : PS) (x : List Ident) (st' : PS)
    (h : parseFunctionParameters st = some (x, st')) : st.ok P → (st'.ok P ∧ ∀ i ∈ x, P i.tok) := by
  intro hok
  unfold parseFunctionParameters at h
  split at h
  · cases h; exact ⟨ok_next hc hok, by simp⟩
  · obtain ⟨⟨ids, st1⟩, h1, h2⟩ := bind_some h
    have h3 := ok_next hc hok
    obtain ⟨a, b⟩ := prov_paramsLoop hc _ _ _ h1 h3 (by simpa [identOfCur] using P_cur hc h3)
    simp only at h2
    split at h2 <;> cases h2 <;> first | exact ⟨ok_expectToken hc _ a, b⟩ | exact ⟨ok_expectToken hc _ a, by simp⟩
end

set_option maxHeartbeats 3200000 in
theorem prov_mutual (cfg : PCfg) (P : Token → Prop) (hc : Closed P) :
    (∀ is st r, parseStatementI cfg is st = some r → st.ok P → (r.2.ok P ∧ r.1.allT P)) ∧
    (∀ st r, baseParseStatement cfg st = some r → st.ok P → (r.2.ok P ∧ r.1.allT P)) ∧
    (∀ st r, parseExpressionStatement cfg st = some r → st.ok P → (r.2.ok P ∧ r.1.allT P)) ∧
    (∀ is prec st r, parseExpressionI cfg is prec st = some r → st.ok P → (r.2.ok P ∧ r.1.allT P)) ∧
    (∀ left prec st r, parseRemaining cfg left prec st = some r → st.ok P → left.allT P → (r.2.ok P ∧ r.1.allT P)) ∧
    (∀ left st r, parseInfixExpression cfg left st = some r → st.ok P → left.allT P → (r.2.ok P ∧ r.1.allT P)) ∧
    (∀ endTy st r, parseExpressionList cfg endTy st = some r → st.ok P → (r.2.ok P ∧ r.1.allT P)) ∧
    (∀ acc st r, exprListLoop cfg acc st = some r → st.ok P → acc.allT P → (r.2.ok P ∧ r.1.allT P)) ∧
    (∀ st r, parsePrefixExpression cfg st = some r → st.ok P → (r.2.ok P ∧ r.1.allT P)) ∧
    (∀ st r, parseFunctionExpression cfg st = some r → st.ok P → (r.2.ok P ∧ r.1.allT P)) ∧
    (∀ st r, parseBlockStatement cfg st = some r → st.ok P → (r.2.ok P ∧ r.1.allT P)) ∧
    (∀ acc st r, blockLoop cfg acc st = some r → st.ok P → acc.allT P → (r.2.ok P ∧ r.1.allT P)) ∧
    (∀ st r, parseObjectLiteral cfg st = some r → st.ok P → (r.2.ok P ∧ r.1.allT P)) ∧
    (∀ acc st r, objectLoop cfg acc st = some r → st.ok P → acc.allT P → (r.2.ok P ∧ ∀ p, r.1 = some p → p.allT P)) ∧
    (∀ st r, parseForStatement cfg st = some r → st.ok P → (r.2.ok P ∧ r.1.allT P)) ∧
    (∀ st r, parseForInit cfg st = some r → st.ok P → (r.2.ok P ∧ r.1.allT P)) ∧
    (∀ st r, parseLetExpression cfg st = some r → st.ok P → (r.2.ok P ∧ r.1.allT P)) ∧
    (∀ st r, parseWhileStatement cfg st = some r → st.ok P → (r.2.ok P ∧ r.1.allT P)) ∧
    (∀ st r, parseIfStatement cfg st = some r → st.ok P → (r.2.ok P ∧ r.1.allT P)) ∧
    (∀ st r, parseReturnStatement cfg st = some r → st.ok P → (r.2.ok P ∧ r.1.allT P)) ∧
    (∀ st r, parseFunctionStatement cfg st = some r → st.ok P → (r.2.ok P ∧ r.1.allT P)) ∧
    (∀ st r, parseLetStatement cfg st = some r → st.ok P → (r.2.ok P ∧ r.1.allT P)) := by
  refine parseStatementI.mutual_partial_correctness cfg
    (fun _ st r => st.ok P → (r.2.ok P ∧ r.1.allT P))
    (fun st r => st.ok P → (r.2.ok P ∧ r.1.allT P))
    (fun st r => st.ok P → (r.2.ok P ∧ r.1.allT P))
    (fun _ _ st r => st.ok P → (r.2.ok P ∧ r.1.allT P))
    (fun left _ st r => st.ok P → left.allT P → (r.2.ok P ∧ r.1.allT P))
    (fun left st r => st.ok P → left.allT P → (r.2.ok P ∧ r.1.allT P))
    (fun _ st r => st.ok P → (r.2.ok P ∧ r.1.allT P))
    (fun acc st r => st.ok P → acc.allT P → (r.2.ok P ∧ r.1.allT P))
    (fun st r => st.ok P → (r.2.ok P ∧ r.1.allT P))
    (fun st r => st.ok P → (r.2.ok P ∧ r.1.allT P))
    (fun st r => st.ok P → (r.2.ok P ∧ r.1.allT P))
    (fun acc st r => st.ok P → acc.allT P → (r.2.ok P ∧ r.1.allT P))
    (fun st r => st.ok P → (r.2.ok P ∧ r.1.allT P))
    (fun acc st r => st.ok P → acc.allT P → (r.2.ok P ∧ ∀ p, r.1 = some p → p.allT P))
    (fun st r => st.ok P → (r.2.ok P ∧ r.1.allT P))
    (fun st r => st.ok P → (r.2.ok P ∧ r.1.allT P))
    (fun st r => st.ok P → (r.2.ok P ∧ r.1.allT P))
    (fun st r => st.ok P → (r.2.ok P ∧ r.1.allT P))
    (fun st r => st.ok P → (r.2.ok P ∧ r.1.allT P))
    (fun st r => st.ok P → (r.2.ok P ∧ r.1.allT P))
    (fun st r => st.ok P → (r.2.ok P ∧ r.1.allT P))
    (fun st r => st.ok P → (r.2.ok P ∧ r.1.allT P))
    ?_ ?_ ?_ ?_ ?_ ?_ ?_ ?_ ?_ ?_ ?_ ?_ ?_ ?_ ?_ ?_ ?_ ?_ ?_ ?_ ?_ ?_
  · -- parseStatementI
    intro pS bS ih_pS ih_bS is st r h
    replace ih_pS := curry2 ih_pS; replace ih_bS := curry1 ih_bS
    dsimp only at ih_pS ih_bS ⊢
    obtain ⟨x, st'⟩ := r
    have pfp := prov_parseFunctionParameters (P := P) hc
    pdecompW h [ih_pS, ih_bS, pfp]
    all_goals clear ih_pS ih_bS
    all_goals (try intro _)
    all_goals (try intro _)
    all_goals (try intro _)
    all_goals (try subst_vars)
    all_goals (try (simp_all (maxDischargeDepth := 6) [Expr.allT, Stmt.allT, ExprList.allT, StmtList.allT, PropList.allT, StmtList.allT_snoc, ExprList.allT_snoc, PropList.allT_snoc, Stmt.isNone, Expr.isNone, identOfCur, next_cur, ok_next, ok_expectToken, ok_expectSemi, P_cur, P_peek, P_zero, identsAllT_append]; done))
    all_goals (try (intro hh; subst hh; simp_all (maxDischargeDepth := 6) [Expr.allT, Stmt.allT, ExprList.allT, StmtList.allT, PropList.allT, StmtList.allT_snoc, ExprList.allT_snoc, PropList.allT_snoc, Stmt.isNone, Expr.isNone, identOfCur, next_cur, ok_next, ok_expectToken, ok_expectSemi, P_cur, P_peek, P_zero, identsAllT_append]))
  · -- baseParseStatement
    intro f1 f2 f3 f4 f5 f6 f7 f8 ih_f1 ih_f2 ih_f3 ih_f4 ih_f5 ih_f6 ih_f7 ih_f8  st r h
    replace ih_f1 := curry1 ih_f1; replace ih_f2 := curry1 ih_f2; replace ih_f3 := curry1 ih_f3; replace ih_f4 := curry1 ih_f4; replace ih_f5 := curry1 ih_f5; replace ih_f6 := curry1 ih_f6; replace ih_f7 := curry1 ih_f7; replace ih_f8 := curry1 ih_f8
    dsimp only at ih_f1 ih_f2 ih_f3 ih_f4 ih_f5 ih_f6 ih_f7 ih_f8 ⊢
    obtain ⟨x, st'⟩ := r
    split at h
    all_goals first | exact ih_f1 _ _ _ h | exact ih_f2 _ _ _ h | exact ih_f3 _ _ _ h | exact ih_f4 _ _ _ h
                    | exact ih_f5 _ _ _ h | exact ih_f6 _ _ _ h | exact ih_f7 _ _ _ h | exact ih_f8 _ _ _ h
  · -- parseExpressionStatement
    intro pE ih_pE  st r h
    replace ih_pE := curry3 ih_pE
    dsimp only at ih_pE ⊢
    obtain ⟨x, st'⟩ := r
    have pfp := prov_parseFunctionParameters (P := P) hc
    pdecompW h [ih_pE, pfp]
    all_goals clear ih_pE
    all_goals (try intro _)
    all_goals (try intro _)
    all_goals (try intro _)
    all_goals (try subst_vars)
    all_goals (try (simp_all (maxDischargeDepth := 6) [Expr.allT, Stmt.allT, ExprList.allT, StmtList.allT, PropList.allT, StmtList.allT_snoc, ExprList.allT_snoc, PropList.allT_snoc, Stmt.isNone, Expr.isNone, identOfCur, next_cur, ok_next, ok_expectToken, ok_expectSemi, P_cur, P_peek, P_zero, identsAllT_append]; done))
    all_goals (try (intro hh; subst hh; simp_all (maxDischargeDepth := 6) [Expr.allT, Stmt.allT, ExprList.allT, StmtList.allT, PropList.allT, StmtList.allT_snoc, ExprList.allT_snoc, PropList.allT_snoc, Stmt.isNone, Expr.isNone, identOfCur, next_cur, ok_next, ok_expectToken, ok_expectSemi, P_cur, P_peek, P_zero, identsAllT_append]))
  · -- parseExpressionI
    intro pE pR pP ih_pE ih_pR ih_pP is prec st r h
    replace ih_pE := curry3 ih_pE; replace ih_pR := curry3 ih_pR; replace ih_pP := curry1 ih_pP
    dsimp only at ih_pE ih_pR ih_pP ⊢
    obtain ⟨x, st'⟩ := r
    have pfp := prov_parseFunctionParameters (P := P) hc
    pdecompW h [ih_pE, ih_pR, ih_pP, pfp]
    all_goals clear ih_pE ih_pR ih_pP
    all_goals (try intro _)
    all_goals (try intro _)
    all_goals (try intro _)
    all_goals (try subst_vars)
    all_goals (try (simp_all (maxDischargeDepth := 6) [Expr.allT, Stmt.allT, ExprList.allT, StmtList.allT, PropList.allT, StmtList.allT_snoc, ExprList.allT_snoc, PropList.allT_snoc, Stmt.isNone, Expr.isNone, identOfCur, next_cur, ok_next, ok_expectToken, ok_expectSemi, P_cur, P_peek, P_zero, identsAllT_append]; done))
    all_goals (try (intro hh; subst hh; simp_all (maxDischargeDepth := 6) [Expr.allT, Stmt.allT, ExprList.allT, StmtList.allT, PropList.allT, StmtList.allT_snoc, ExprList.allT_snoc, PropList.allT_snoc, Stmt.isNone, Expr.isNone, identOfCur, next_cur, ok_next, ok_expectToken, ok_expectSemi, P_cur, P_peek, P_zero, identsAllT_append]))
  · -- parseRemaining
    intro pR pI ih_pR ih_pI left prec st r h
    replace ih_pR := curry3 ih_pR; replace ih_pI := curry2 ih_pI
    dsimp only at ih_pR ih_pI ⊢
    obtain ⟨x, st'⟩ := r
    have pfp := prov_parseFunctionParameters (P := P) hc
    pdecompW h [ih_pR, ih_pI, pfp]
    all_goals clear ih_pR ih_pI
    all_goals (try intro _)
    all_goals (try intro _)
    all_goals (try intro _)
    all_goals (try subst_vars)
    all_goals (try (simp_all (maxDischargeDepth := 6) [Expr.allT, Stmt.allT, ExprList.allT, StmtList.allT, PropList.allT, StmtList.allT_snoc, ExprList.allT_snoc, PropList.allT_snoc, Stmt.isNone, Expr.isNone, identOfCur, next_cur, ok_next, ok_expectToken, ok_expectSemi, P_cur, P_peek, P_zero, identsAllT_append]; done))
    all_goals (try (intro hh; subst hh; simp_all (maxDischargeDepth := 6) [Expr.allT, Stmt.allT, ExprList.allT, StmtList.allT, PropList.allT, StmtList.allT_snoc, ExprList.allT_snoc, PropList.allT_snoc, Stmt.isNone, Expr.isNone, identOfCur, next_cur, ok_next, ok_expectToken, ok_expectSemi, P_cur, P_peek, P_zero, identsAllT_append]))
  · -- parseInfixExpression
    intro pE pL ih_pE ih_pL left st r h
    replace ih_pE := curry3 ih_pE; replace ih_pL := curry2 ih_pL
    dsimp only at ih_pE ih_pL ⊢
    obtain ⟨x, st'⟩ := r
    have pfp := prov_parseFunctionParameters (P := P) hc
    pdecompW h [ih_pE, ih_pL, pfp]
    all_goals clear ih_pE ih_pL
    all_goals (try intro _)
    all_goals (try intro _)
    all_goals (try intro _)
    all_goals (try subst_vars)
    all_goals (try (simp_all (maxDischargeDepth := 6) [Expr.allT, Stmt.allT, ExprList.allT, StmtList.allT, PropList.allT, StmtList.allT_snoc, ExprList.allT_snoc, PropList.allT_snoc, Stmt.isNone, Expr.isNone, identOfCur, next_cur, ok_next, ok_expectToken, ok_expectSemi, P_cur, P_peek, P_zero, identsAllT_append]; done))
    all_goals (try (intro hh; subst hh; simp_all (maxDischargeDepth := 6) [Expr.allT, Stmt.allT, ExprList.allT, StmtList.allT, PropList.allT, StmtList.allT_snoc, ExprList.allT_snoc, PropList.allT_snoc, Stmt.isNone, Expr.isNone, identOfCur, next_cur, ok_next, ok_expectToken, ok_expectSemi, P_cur, P_peek, P_zero, identsAllT_append]))
  · -- parseExpressionList
    intro pE eL ih_pE ih_eL endTy st r h
    replace ih_pE := curry3 ih_pE; replace ih_eL := curry2 ih_eL
    dsimp only at ih_pE ih_eL ⊢
    obtain ⟨x, st'⟩ := r
    have pfp := prov_parseFunctionParameters (P := P) hc
    pdecompW h [ih_pE, ih_eL, pfp]
    all_goals clear ih_pE ih_eL
    all_goals (try intro _)
    all_goals (try intro _)
    all_goals (try intro _)
    all_goals (try subst_vars)
    all_goals (try (simp_all (maxDischargeDepth := 6) [Expr.allT, Stmt.allT, ExprList.allT, StmtList.allT, PropList.allT, StmtList.allT_snoc, ExprList.allT_snoc, PropList.allT_snoc, Stmt.isNone, Expr.isNone, identOfCur, next_cur, ok_next, ok_expectToken, ok_expectSemi, P_cur, P_peek, P_zero, identsAllT_append]; done))
    all_goals (try (intro hh; subst hh; simp_all (maxDischargeDepth := 6) [Expr.allT, Stmt.allT, ExprList.allT, StmtList.allT, PropList.allT, StmtList.allT_snoc, ExprList.allT_snoc, PropList.allT_snoc, Stmt.isNone, Expr.isNone, identOfCur, next_cur, ok_next, ok_expectToken, ok_expectSemi, P_cur, P_peek, P_zero, identsAllT_append]))
  · -- exprListLoop
    intro pE eL ih_pE ih_eL acc st r h
    replace ih_pE := curry3 ih_pE; replace ih_eL := curry2 ih_eL
    dsimp only at ih_pE ih_eL ⊢
    obtain ⟨x, st'⟩ := r
    have pfp := prov_parseFunctionParameters (P := P) hc
    pdecompW h [ih_pE, ih_eL, pfp]
    all_goals clear ih_pE ih_eL
    all_goals (try intro _)
    all_goals (try intro _)
    all_goals (try intro _)
    all_goals (try subst_vars)
    all_goals (try (simp_all (maxDischargeDepth := 6) [Expr.allT, Stmt.allT, ExprList.allT, StmtList.allT, PropList.allT, StmtList.allT_snoc, ExprList.allT_snoc, PropList.allT_snoc, Stmt.isNone, Expr.isNone, identOfCur, next_cur, ok_next, ok_expectToken, ok_expectSemi, P_cur, P_peek, P_zero, identsAllT_append]; done))
    all_goals (try (intro hh; subst hh; simp_all (maxDischargeDepth := 6) [Expr.allT, Stmt.allT, ExprList.allT, StmtList.allT, PropList.allT, StmtList.allT_snoc, ExprList.allT_snoc, PropList.allT_snoc, Stmt.isNone, Expr.isNone, identOfCur, next_cur, ok_next, ok_expectToken, ok_expectSemi, P_cur, P_peek, P_zero, identsAllT_append]))
  · -- parsePrefixExpression
    intro pE pL pFE pO ih_pE ih_pL ih_pFE ih_pO  st r h
    replace ih_pE := curry3 ih_pE; replace ih_pL := curry2 ih_pL; replace ih_pFE := curry1 ih_pFE; replace ih_pO := curry1 ih_pO
    dsimp only at ih_pE ih_pL ih_pFE ih_pO ⊢
    obtain ⟨x, st'⟩ := r
    have pfp := prov_parseFunctionParameters (P := P) hc
    pdecompW h [ih_pE, ih_pL, ih_pFE, ih_pO, pfp]
    all_goals clear ih_pE ih_pL ih_pFE ih_pO
    all_goals (try intro _)
    all_goals (try intro _)
    all_goals (try intro _)
    all_goals (try subst_vars)
    all_goals (try (simp_all (maxDischargeDepth := 6) [Expr.allT, Stmt.allT, ExprList.allT, StmtList.allT, PropList.allT, StmtList.allT_snoc, ExprList.allT_snoc, PropList.allT_snoc, Stmt.isNone, Expr.isNone, identOfCur, next_cur, ok_next, ok_expectToken, ok_expectSemi, P_cur, P_peek, P_zero, identsAllT_append]; done))
    all_goals (try (intro hh; subst hh; simp_all (maxDischargeDepth := 6) [Expr.allT, Stmt.allT, ExprList.allT, StmtList.allT, PropList.allT, StmtList.allT_snoc, ExprList.allT_snoc, PropList.allT_snoc, Stmt.isNone, Expr.isNone, identOfCur, next_cur, ok_next, ok_expectToken, ok_expectSemi, P_cur, P_peek, P_zero, identsAllT_append]))
  · -- parseFunctionExpression
    intro pB ih_pB  st r h
    replace ih_pB := curry1 ih_pB
    dsimp only at ih_pB ⊢
    obtain ⟨x, st'⟩ := r
    have pfp := prov_parseFunctionParameters (P := P) hc
    pdecompW h [ih_pB, pfp]
    all_goals clear ih_pB
    all_goals (try intro _)
    all_goals (try intro _)
    all_goals (try intro _)
    all_goals (try subst_vars)
    all_goals (try (simp_all (maxDischargeDepth := 6) [Expr.allT, Stmt.allT, ExprList.allT, StmtList.allT, PropList.allT, StmtList.allT_snoc, ExprList.allT_snoc, PropList.allT_snoc, Stmt.isNone, Expr.isNone, identOfCur, next_cur, ok_next, ok_expectToken, ok_expectSemi, P_cur, P_peek, P_zero, identsAllT_append]; done))
    all_goals (try (intro hh; subst hh; simp_all (maxDischargeDepth := 6) [Expr.allT, Stmt.allT, ExprList.allT, StmtList.allT, PropList.allT, StmtList.allT_snoc, ExprList.allT_snoc, PropList.allT_snoc, Stmt.isNone, Expr.isNone, identOfCur, next_cur, ok_next, ok_expectToken, ok_expectSemi, P_cur, P_peek, P_zero, identsAllT_append]))
  · -- parseBlockStatement
    intro bL ih_bL  st r h
    replace ih_bL := curry2 ih_bL
    dsimp only at ih_bL ⊢
    obtain ⟨x, st'⟩ := r
    have pfp := prov_parseFunctionParameters (P := P) hc
    pdecompW h [ih_bL, pfp]
    all_goals clear ih_bL
    all_goals (try intro _)
    all_goals (try intro _)
    all_goals (try intro _)
    all_goals (try subst_vars)
    all_goals (try (simp_all (maxDischargeDepth := 6) [Expr.allT, Stmt.allT, ExprList.allT, StmtList.allT, PropList.allT, StmtList.allT_snoc, ExprList.allT_snoc, PropList.allT_snoc, Stmt.isNone, Expr.isNone, identOfCur, next_cur, ok_next, ok_expectToken, ok_expectSemi, P_cur, P_peek, P_zero, identsAllT_append]; done))
    all_goals (try (intro hh; subst hh; simp_all (maxDischargeDepth := 6) [Expr.allT, Stmt.allT, ExprList.allT, StmtList.allT, PropList.allT, StmtList.allT_snoc, ExprList.allT_snoc, PropList.allT_snoc, Stmt.isNone, Expr.isNone, identOfCur, next_cur, ok_next, ok_expectToken, ok_expectSemi, P_cur, P_peek, P_zero, identsAllT_append]))
  · -- blockLoop
    intro pS bL ih_pS ih_bL acc st r h
    replace ih_pS := curry2 ih_pS; replace ih_bL := curry2 ih_bL
    dsimp only at ih_pS ih_bL ⊢
    obtain ⟨x, st'⟩ := r
    have pfp := prov_parseFunctionParameters (P := P) hc
    pdecompW h [ih_pS, ih_bL, pfp]
    all_goals clear ih_pS ih_bL
    all_goals (try intro _)
    all_goals (try intro _)
    all_goals (try intro _)
    all_goals (try subst_vars)
    all_goals (try (simp_all (maxDischargeDepth := 6) [Expr.allT, Stmt.allT, ExprList.allT, StmtList.allT, PropList.allT, StmtList.allT_snoc, ExprList.allT_snoc, PropList.allT_snoc, Stmt.isNone, Expr.isNone, identOfCur, next_cur, ok_next, ok_expectToken, ok_expectSemi, P_cur, P_peek, P_zero, identsAllT_append]; done))
    all_goals (try (intro hh; subst hh; simp_all (maxDischargeDepth := 6) [Expr.allT, Stmt.allT, ExprList.allT, StmtList.allT, PropList.allT, StmtList.allT_snoc, ExprList.allT_snoc, PropList.allT_snoc, Stmt.isNone, Expr.isNone, identOfCur, next_cur, ok_next, ok_expectToken, ok_expectSemi, P_cur, P_peek, P_zero, identsAllT_append]))
  · -- parseObjectLiteral
    intro oL ih_oL  st r h
    replace ih_oL := curry2 ih_oL
    dsimp only at ih_oL ⊢
    obtain ⟨x, st'⟩ := r
    have pfp := prov_parseFunctionParameters (P := P) hc
    pdecompW h [ih_oL, pfp]
    all_goals clear ih_oL
    all_goals (try intro _)
    all_goals (try intro _)
    all_goals (try intro _)
    all_goals (try subst_vars)
    all_goals (try (simp_all (maxDischargeDepth := 6) [Expr.allT, Stmt.allT, ExprList.allT, StmtList.allT, PropList.allT, StmtList.allT_snoc, ExprList.allT_snoc, PropList.allT_snoc, Stmt.isNone, Expr.isNone, identOfCur, next_cur, ok_next, ok_expectToken, ok_expectSemi, P_cur, P_peek, P_zero, identsAllT_append]; done))
    all_goals (try (intro hh; subst hh; simp_all (maxDischargeDepth := 6) [Expr.allT, Stmt.allT, ExprList.allT, StmtList.allT, PropList.allT, StmtList.allT_snoc, ExprList.allT_snoc, PropList.allT_snoc, Stmt.isNone, Expr.isNone, identOfCur, next_cur, ok_next, ok_expectToken, ok_expectSemi, P_cur, P_peek, P_zero, identsAllT_append]))
  · -- objectLoop
    intro pE oL ih_pE ih_oL acc st r h
    replace ih_pE := curry3 ih_pE; replace ih_oL := curry2 ih_oL
    dsimp only at ih_pE ih_oL ⊢
    obtain ⟨x, st'⟩ := r
    have pfp := prov_parseFunctionParameters (P := P) hc
    pdecompW h [ih_pE, ih_oL, pfp]
    all_goals clear ih_pE ih_oL
    all_goals (try intro _)
    all_goals (try intro _)
    all_goals (try intro _)
    all_goals (try subst_vars)
    all_goals (try (simp_all (maxDischargeDepth := 6) [Expr.allT, Stmt.allT, ExprList.allT, StmtList.allT, PropList.allT, StmtList.allT_snoc, ExprList.allT_snoc, PropList.allT_snoc, Stmt.isNone, Expr.isNone, identOfCur, next_cur, ok_next, ok_expectToken, ok_expectSemi, P_cur, P_peek, P_zero, identsAllT_append]; done))
    all_goals (try (intro hh; subst hh; simp_all (maxDischargeDepth := 6) [Expr.allT, Stmt.allT, ExprList.allT, StmtList.allT, PropList.allT, StmtList.allT_snoc, ExprList.allT_snoc, PropList.allT_snoc, Stmt.isNone, Expr.isNone, identOfCur, next_cur, ok_next, ok_expectToken, ok_expectSemi, P_cur, P_peek, P_zero, identsAllT_append]))
  · -- parseForStatement
    intro pS pE pFI ih_pS ih_pE ih_pFI  st r h
    replace ih_pS := curry2 ih_pS; replace ih_pE := curry3 ih_pE; replace ih_pFI := curry1 ih_pFI
    dsimp only at ih_pS ih_pE ih_pFI ⊢
    obtain ⟨x, st'⟩ := r
    have pfp := prov_parseFunctionParameters (P := P) hc
    pdecompW h [ih_pS, ih_pE, ih_pFI, pfp]
    all_goals clear ih_pS ih_pE ih_pFI
    all_goals (try intro _)
    all_goals (try intro _)
    all_goals (try intro _)
    all_goals (try subst_vars)
    all_goals (try (simp_all (maxDischargeDepth := 6) [Expr.allT, Stmt.allT, ExprList.allT, StmtList.allT, PropList.allT, StmtList.allT_snoc, ExprList.allT_snoc, PropList.allT_snoc, Stmt.isNone, Expr.isNone, identOfCur, next_cur, ok_next, ok_expectToken, ok_expectSemi, P_cur, P_peek, P_zero, identsAllT_append]; done))
    all_goals (try (intro hh; subst hh; simp_all (maxDischargeDepth := 6) [Expr.allT, Stmt.allT, ExprList.allT, StmtList.allT, PropList.allT, StmtList.allT_snoc, ExprList.allT_snoc, PropList.allT_snoc, Stmt.isNone, Expr.isNone, identOfCur, next_cur, ok_next, ok_expectToken, ok_expectSemi, P_cur, P_peek, P_zero, identsAllT_append]))
  · -- parseForInit
    intro pE pLE ih_pE ih_pLE  st r h
    replace ih_pE := curry3 ih_pE; replace ih_pLE := curry1 ih_pLE
    dsimp only at ih_pE ih_pLE ⊢
    obtain ⟨x, st'⟩ := r
    have pfp := prov_parseFunctionParameters (P := P) hc
    pdecompW h [ih_pE, ih_pLE, pfp]
    all_goals clear ih_pE ih_pLE
    all_goals (try intro _)
    all_goals (try intro _)
    all_goals (try intro _)
    all_goals (try subst_vars)
    all_goals (try (simp_all (maxDischargeDepth := 6) [Expr.allT, Stmt.allT, ExprList.allT, StmtList.allT, PropList.allT, StmtList.allT_snoc, ExprList.allT_snoc, PropList.allT_snoc, Stmt.isNone, Expr.isNone, identOfCur, next_cur, ok_next, ok_expectToken, ok_expectSemi, P_cur, P_peek, P_zero, identsAllT_append]; done))
    all_goals (try (intro hh; subst hh; simp_all (maxDischargeDepth := 6) [Expr.allT, Stmt.allT, ExprList.allT, StmtList.allT, PropList.allT, StmtList.allT_snoc, ExprList.allT_snoc, PropList.allT_snoc, Stmt.isNone, Expr.isNone, identOfCur, next_cur, ok_next, ok_expectToken, ok_expectSemi, P_cur, P_peek, P_zero, identsAllT_append]))
  · -- parseLetExpression
    intro pE ih_pE  st r h
    replace ih_pE := curry3 ih_pE
    dsimp only at ih_pE ⊢
    obtain ⟨x, st'⟩ := r
    have pfp := prov_parseFunctionParameters (P := P) hc
    pdecompW h [ih_pE, pfp]
    all_goals clear ih_pE
    all_goals (try intro _)
    all_goals (try intro _)
    all_goals (try intro _)
    all_goals (try subst_vars)
    all_goals (try (simp_all (maxDischargeDepth := 6) [Expr.allT, Stmt.allT, ExprList.allT, StmtList.allT, PropList.allT, StmtList.allT_snoc, ExprList.allT_snoc, PropList.allT_snoc, Stmt.isNone, Expr.isNone, identOfCur, next_cur, ok_next, ok_expectToken, ok_expectSemi, P_cur, P_peek, P_zero, identsAllT_append]; done))
    all_goals (try (intro hh; subst hh; simp_all (maxDischargeDepth := 6) [Expr.allT, Stmt.allT, ExprList.allT, StmtList.allT, PropList.allT, StmtList.allT_snoc, ExprList.allT_snoc, PropList.allT_snoc, Stmt.isNone, Expr.isNone, identOfCur, next_cur, ok_next, ok_expectToken, ok_expectSemi, P_cur, P_peek, P_zero, identsAllT_append]))
  · -- parseWhileStatement
    intro pS pE ih_pS ih_pE  st r h
    replace ih_pS := curry2 ih_pS; replace ih_pE := curry3 ih_pE
    dsimp only at ih_pS ih_pE ⊢
    obtain ⟨x, st'⟩ := r
    have pfp := prov_parseFunctionParameters (P := P) hc
    pdecompW h [ih_pS, ih_pE, pfp]
    all_goals clear ih_pS ih_pE
    all_goals (try intro _)
    all_goals (try intro _)
    all_goals (try intro _)
    all_goals (try subst_vars)
    all_goals (try (simp_all (maxDischargeDepth := 6) [Expr.allT, Stmt.allT, ExprList.allT, StmtList.allT, PropList.allT, StmtList.allT_snoc, ExprList.allT_snoc, PropList.allT_snoc, Stmt.isNone, Expr.isNone, identOfCur, next_cur, ok_next, ok_expectToken, ok_expectSemi, P_cur, P_peek, P_zero, identsAllT_append]; done))
    all_goals (try (intro hh; subst hh; simp_all (maxDischargeDepth := 6) [Expr.allT, Stmt.allT, ExprList.allT, StmtList.allT, PropList.allT, StmtList.allT_snoc, ExprList.allT_snoc, PropList.allT_snoc, Stmt.isNone, Expr.isNone, identOfCur, next_cur, ok_next, ok_expectToken, ok_expectSemi, P_cur, P_peek, P_zero, identsAllT_append]))
  · -- parseIfStatement
    intro pS pE ih_pS ih_pE  st r h
    replace ih_pS := curry2 ih_pS; replace ih_pE := curry3 ih_pE
    dsimp only at ih_pS ih_pE ⊢
    obtain ⟨x, st'⟩ := r
    have pfp := prov_parseFunctionParameters (P := P) hc
    pdecompW h [ih_pS, ih_pE, pfp]
    all_goals clear ih_pS ih_pE
    all_goals (try intro _)
    all_goals (try intro _)
    all_goals (try intro _)
    all_goals (try subst_vars)
    all_goals (try (simp_all (maxDischargeDepth := 6) [Expr.allT, Stmt.allT, ExprList.allT, StmtList.allT, PropList.allT, StmtList.allT_snoc, ExprList.allT_snoc, PropList.allT_snoc, Stmt.isNone, Expr.isNone, identOfCur, next_cur, ok_next, ok_expectToken, ok_expectSemi, P_cur, P_peek, P_zero, identsAllT_append]; done))
    all_goals (try (intro hh; subst hh; simp_all (maxDischargeDepth := 6) [Expr.allT, Stmt.allT, ExprList.allT, StmtList.allT, PropList.allT, StmtList.allT_snoc, ExprList.allT_snoc, PropList.allT_snoc, Stmt.isNone, Expr.isNone, identOfCur, next_cur, ok_next, ok_expectToken, ok_expectSemi, P_cur, P_peek, P_zero, identsAllT_append]))
  · -- parseReturnStatement
    intro pE ih_pE  st r h
    replace ih_pE := curry3 ih_pE
    dsimp only at ih_pE ⊢
    obtain ⟨x, st'⟩ := r
    have pfp := prov_parseFunctionParameters (P := P) hc
    pdecompW h [ih_pE, pfp]
    all_goals clear ih_pE
    all_goals (try intro _)
    all_goals (try intro _)
    all_goals (try intro _)
    all_goals (try subst_vars)
    all_goals (try (simp_all (maxDischargeDepth := 6) [Expr.allT, Stmt.allT, ExprList.allT, StmtList.allT, PropList.allT, StmtList.allT_snoc, ExprList.allT_snoc, PropList.allT_snoc, Stmt.isNone, Expr.isNone, identOfCur, next_cur, ok_next, ok_expectToken, ok_expectSemi, P_cur, P_peek, P_zero, identsAllT_append]; done))
    all_goals (try (intro hh; subst hh; simp_all (maxDischargeDepth := 6) [Expr.allT, Stmt.allT, ExprList.allT, StmtList.allT, PropList.allT, StmtList.allT_snoc, ExprList.allT_snoc, PropList.allT_snoc, Stmt.isNone, Expr.isNone, identOfCur, next_cur, ok_next, ok_expectToken, ok_expectSemi, P_cur, P_peek, P_zero, identsAllT_append]))
  · -- parseFunctionStatement
    intro pB ih_pB  st r h
    replace ih_pB := curry1 ih_pB
    dsimp only at ih_pB ⊢
    obtain ⟨x, st'⟩ := r
    have pfp := prov_parseFunctionParameters (P := P) hc
    pdecompW h [ih_pB, pfp]
    all_goals clear ih_pB
    all_goals (try intro _)
    all_goals (try intro _)
    all_goals (try intro _)
    all_goals (try subst_vars)
    all_goals (try (simp_all (maxDischargeDepth := 6) [Expr.allT, Stmt.allT, ExprList.allT, StmtList.allT, PropList.allT, StmtList.allT_snoc, ExprList.allT_snoc, PropList.allT_snoc, Stmt.isNone, Expr.isNone, identOfCur, next_cur, ok_next, ok_expectToken, ok_expectSemi, P_cur, P_peek, P_zero, identsAllT_append]; done))
    all_goals (try (intro hh; subst hh; simp_all (maxDischargeDepth := 6) [Expr.allT, Stmt.allT, ExprList.allT, StmtList.allT, PropList.allT, StmtList.allT_snoc, ExprList.allT_snoc, PropList.allT_snoc, Stmt.isNone, Expr.isNone, identOfCur, next_cur, ok_next, ok_expectToken, ok_expectSemi, P_cur, P_peek, P_zero, identsAllT_append]))
  · -- parseLetStatement
    intro pE ih_pE  st r h
    replace ih_pE := curry3 ih_pE
    dsimp only at ih_pE ⊢
    obtain ⟨x, st'⟩ := r
    have pfp := prov_parseFunctionParameters (P := P) hc
    pdecompW h [ih_pE, pfp]
    all_goals clear ih_pE
    all_goals (try intro _)
    all_goals (try intro _)
    all_goals (try intro _)
    all_goals (try subst_vars)
    all_goals (try (simp_all (maxDischargeDepth := 6) [Expr.allT, Stmt.allT, ExprList.allT, StmtList.allT, PropList.allT, StmtList.allT_snoc, ExprList.allT_snoc, PropList.allT_snoc, Stmt.isNone, Expr.isNone, identOfCur, next_cur, ok_next, ok_expectToken, ok_expectSemi, P_cur, P_peek, P_zero, identsAllT_append]; done))
    all_goals (try (intro hh; subst hh; simp_all (maxDischargeDepth := 6) [Expr.allT, Stmt.allT, ExprList.allT, StmtList.allT, PropList.allT, StmtList.allT_snoc, ExprList.allT_snoc, PropList.allT_snoc, Stmt.isNone, Expr.isNone, identOfCur, next_cur, ok_next, ok_expectToken, ok_expectSemi, P_cur, P_peek, P_zero, identsAllT_append]))

end Xjs
