import XjsModel.Proofs.RaDefs
import XjsModel.Proofs.ParserTokens
/-
  Round trip, part 2: one-step unfoldings of the parser on a known cursor, and state arithmetic.
-/
namespace Xjs.RA
open Xjs

/-- `k` calls of `NextToken` -/
def nextK : Nat → PS → PS
  | 0, st => st
  | k + 1, st => nextK k st.next

theorem nextK_succ' (k : Nat) (st : PS) : nextK (k + 1) st = (nextK k st).next := by
  induction k generalizing st with
  | zero => rfl
  | succ k ih => rw [nextK, ih st.next]; rfl

theorem nextK_add (a b : Nat) (st : PS) : nextK (a + b) st = nextK b (nextK a st) := by
  induction a generalizing st with
  | zero => simp [nextK]
  | succ a ih => rw [Nat.succ_add]; simp only [nextK]; exact ih _

theorem next_toks_cons {st : PS} {a b : Token} {ts : List Token} (h : st.toks = a :: b :: ts) : st.next.toks = b :: ts := by
  unfold PS.next; rw [h]

theorem cur_of_toks {st : PS} {a : Token} {ts : List Token} (h : st.toks = a :: ts) : st.cur = a := by
  unfold PS.cur; rw [h]; rfl
theorem peek_of_toks {st : PS} {a b : Token} {ts : List Token} (h : st.toks = a :: b :: ts) : st.peek = b := by
  unfold PS.peek; rw [h]

/-- after moving over `pre`, the cursor stands on the next token (as long as one more token follows) -/
theorem toks_nextK (pre : List Token) (t : Token) (rest : List Token) (st : PS) (h : st.toks = pre ++ t :: rest) :
    (nextK pre.length st).toks = t :: rest := by
  induction pre generalizing st with
  | nil => simpa [nextK] using h
  | cons a pre ih =>
    simp only [List.length_cons, nextK]
    apply ih
    cases pre with
    | nil => exact next_toks_cons (a := a) (b := t) (ts := rest) (by simpa using h)
    | cons b pre' => exact next_toks_cons (a := a) (b := b) (ts := pre' ++ t :: rest) (by simpa using h)

theorem next_errors' (st : PS) : st.next.errors = st.errors := by unfold PS.next; split <;> rfl

variable {cfg : PCfg}

theorem unfold_expr (p : Nat) (st : PS) :
    parseExpressionI cfg [] p st =
      (parsePrefixExpression cfg st >>= fun (x : Expr × PS) => parseRemaining cfg x.1 p x.2) := by
  rw [parseExpressionI]

theorem prefix_atom (hc : BaseCfg cfg) (st : PS) (h : (SE.atom st.cur).wf = true) :
    parsePrefixExpression cfg st = some (atomTree st.cur, st) := by
  rw [parsePrefixExpression, hc.prefixFns]
  have h : atomWf st.cur = true := by simpa [SE.wf] using h
  unfold atomWf at h
  unfold atomTree
  cases hl : lookup basePrefixFns st.cur.type with
  | none => simp [hl] at h
  | some k =>
    cases k <;> simp_all [identOfCur]

theorem prefix_unary (hc : BaseCfg cfg) (st : PS) (h : lookup basePrefixFns st.cur.type = some .unary) :
    parsePrefixExpression cfg st =
      (parseExpressionI cfg [] UNARY st.next >>= fun (x : Expr × PS) => some (Expr.unary st.cur st.cur.lit x.1, x.2)) := by
  rw [parsePrefixExpression, hc.prefixFns, h, hc.exprI]

theorem prefix_group (hc : BaseCfg cfg) (st : PS) (h : st.cur.type = .lparen) :
    parsePrefixExpression cfg st =
      (parseExpressionI cfg [] LOWEST st.next >>= fun (x : Expr × PS) =>
        if (expectToken .rparen x.2).1 then some (Expr.group st.cur x.1 (expectToken .rparen x.2).2.cur, (expectToken .rparen x.2).2)
        else some (Expr.none, (expectToken .rparen x.2).2)) := by
  have hl : lookup basePrefixFns TokType.lparen = some .group := by decide
  rw [parsePrefixExpression, hc.prefixFns, h, hl, hc.exprI]
  simp only
  congr 1
  funext x
  cases hx : (expectToken TokType.rparen x.2).1 <;> simp [hx]

theorem remaining_stop (left : Expr) (p : Nat) (st : PS)
    (h : st.peek.type = .semicolon ∨ precOf cfg st.peek.type ≤ p ∨
      (st.peek.nl = true ∧ (st.peek.type = .increment ∨ st.peek.type = .decrement)) ∨
      (cfg.smart = true ∧ st.peek.nl = true ∧ (st.peek.type = .lparen ∨ st.peek.type = .lbracket))) :
    parseRemaining cfg left p st = some (left, st) := by
  rw [parseRemaining]
  by_cases hc : (st.peek.type != TokType.semicolon && decide (p < peekPrecedence cfg st)) = true
  · simp only [hc, if_true]
    rcases h with h | h | h | h
    · simp [h] at hc
    · have : ¬ p < peekPrecedence cfg st := by unfold peekPrecedence; omega
      simp [this] at hc
    · have : (st.peek.nl && (st.peek.type == TokType.increment || st.peek.type == TokType.decrement)) = true := by
        rcases h.2 with e | e <;> simp [h.1, e]
      simp [this]
    · have : (cfg.smart && st.peek.nl && (st.peek.type == TokType.lparen || st.peek.type == TokType.lbracket)) = true := by
        rcases h.2.2 with e | e <;> simp [h.1, h.2.1, e]
      simp only [this, if_true]
      split <;> rfl
  · have : (st.peek.type != TokType.semicolon && decide (p < peekPrecedence cfg st)) = false := by simpa using hc
    simp [this]

theorem remaining_step (left : Expr) (p : Nat) (st : PS)
    (h1 : st.peek.type ≠ .semicolon) (h2 : p < precOf cfg st.peek.type)
    (h3 : st.peek.nl = false ∨ (st.peek.type ≠ .lparen ∧ st.peek.type ≠ .lbracket))
    (h4 : st.peek.nl = false ∨ (st.peek.type ≠ .increment ∧ st.peek.type ≠ .decrement)) :
    parseRemaining cfg left p st =
      (parseInfixExpression cfg left st >>= fun (x : Expr × PS) => parseRemaining cfg x.1 p x.2) := by
  rw [parseRemaining]
  have a : (st.peek.type != TokType.semicolon && decide (p < peekPrecedence cfg st)) = true := by
    simp [peekPrecedence, h1, h2]
  have b : (cfg.smart && st.peek.nl && (st.peek.type == TokType.lparen || st.peek.type == TokType.lbracket)) = false := by
    rcases h3 with h3 | h3
    · simp [h3]
    · simp [h3.1, h3.2]
  have c : (st.peek.nl && (st.peek.type == TokType.increment || st.peek.type == TokType.decrement)) = false := by
    rcases h4 with h4 | h4
    · simp [h4]
    · simp [h4.1, h4.2]
  simp only [a, b, c, if_true, Bool.false_eq_true, if_false]

theorem infix_binary (hc : BaseCfg cfg) (left : Expr) (st : PS) (h : lookup baseInfixFns st.peek.type = some .binary) :
    parseInfixExpression cfg left st =
      (parseExpressionI cfg [] (precOf cfg st.peek.type) st.next.next >>= fun (x : Expr × PS) =>
        some (Expr.binary st.peek left st.peek.lit x.1, x.2)) := by
  rw [parseInfixExpression, hc.infixFns, h, hc.exprI]
  simp only [curPrecedence, next_cur]

theorem infix_postfix (hc : BaseCfg cfg) (left : Expr) (st : PS) (h : lookup baseInfixFns st.peek.type = some .postfix) :
    parseInfixExpression cfg left st = some (Expr.postfix st.peek left st.peek.lit, st.next) := by
  rw [parseInfixExpression, hc.infixFns, h]
  simp only [next_cur]

theorem infix_assign (hc : BaseCfg cfg) (left : Expr) (st : PS) (h : st.peek.type = .assign) :
    parseInfixExpression cfg left st =
      (parseExpressionI cfg [] LOWEST st.next.next >>= fun (x : Expr × PS) =>
        some (Expr.assign st.peek left x.1, x.2)) := by
  have hl : lookup baseInfixFns TokType.assign = some .assign := by decide
  rw [parseInfixExpression, hc.infixFns, h, hl, hc.exprI]
  simp only [next_cur]

theorem infix_compound (hc : BaseCfg cfg) (left : Expr) (st : PS)
    (h : st.peek.type = .plusAssign ∨ st.peek.type = .minusAssign) :
    parseInfixExpression cfg left st =
      (parseExpressionI cfg [] LOWEST st.next.next >>= fun (x : Expr × PS) =>
        some (Expr.compound st.peek left (compoundOp st.peek) x.1, x.2)) := by
  have hl : lookup baseInfixFns st.peek.type = some .compound := by
    rcases h with h | h <;> rw [h] <;> decide
  rw [parseInfixExpression, hc.infixFns, hl, hc.exprI]
  simp only [next_cur, compoundOp]

theorem infix_call (hc : BaseCfg cfg) (left : Expr) (st : PS) (h : st.peek.type = .lparen) :
    parseInfixExpression cfg left st =
      (parseExpressionList cfg .rparen st.next >>= fun (x : ExprList × PS) =>
        some (Expr.call st.peek left x.1, x.2)) := by
  have hl : lookup baseInfixFns TokType.lparen = some .call := by decide
  rw [parseInfixExpression, hc.infixFns, h, hl]
  simp only [next_cur]

theorem infix_member (hc : BaseCfg cfg) (left : Expr) (st : PS) (h : st.peek.type = .dot) :
    parseInfixExpression cfg left st =
      (parseExpressionI cfg [] MEMBER st.next.next >>= fun (x : Expr × PS) =>
        some (Expr.member st.peek left x.1 false, x.2)) := by
  have hl : lookup baseInfixFns TokType.dot = some .member := by decide
  rw [parseInfixExpression, hc.infixFns, h, hl, hc.exprI]
  simp only [next_cur]

theorem infix_index (hc : BaseCfg cfg) (left : Expr) (st : PS) (h : st.peek.type = .lbracket) :
    parseInfixExpression cfg left st =
      (parseExpressionI cfg [] LOWEST st.next.next >>= fun (x : Expr × PS) =>
        if (expectToken .rbracket x.2).1 then some (Expr.member st.peek left x.1 true, (expectToken .rbracket x.2).2)
        else some (Expr.none, (expectToken .rbracket x.2).2)) := by
  have hl : lookup baseInfixFns TokType.lbracket = some .index := by decide
  rw [parseInfixExpression, hc.infixFns, h, hl, hc.exprI]
  simp only [next_cur]
  congr 1
  funext x
  cases hx : (expectToken TokType.rbracket x.2).1 <;> simp [hx]

theorem prefix_array (hc : BaseCfg cfg) (st : PS) (h : st.cur.type = .lbracket) :
    parsePrefixExpression cfg st =
      (parseExpressionList cfg .rbracket st >>= fun (x : ExprList × PS) =>
        some (Expr.array st.cur x.1 x.2.cur, x.2)) := by
  have hl : lookup basePrefixFns TokType.lbracket = some .array := by decide
  rw [parsePrefixExpression, hc.prefixFns, h, hl]

theorem list_empty (endTy : TokType) (st : PS) (h : st.peek.type = endTy) :
    parseExpressionList cfg endTy st = some (.nil, st.next) := by
  rw [parseExpressionList]; simp [h]

theorem list_nonempty (hc : BaseCfg cfg) (endTy : TokType) (st : PS) (h : st.peek.type ≠ endTy) :
    parseExpressionList cfg endTy st =
      (parseExpressionI cfg [] LOWEST st.next >>= fun (x : Expr × PS) =>
        exprListLoop cfg (.cons x.1 .nil) x.2 >>= fun (y : ExprList × PS) =>
          if (expectToken endTy y.2).1 then some (y.1, (expectToken endTy y.2).2) else some (.nil, (expectToken endTy y.2).2)) := by
  rw [parseExpressionList, hc.exprI]
  have : (st.peek.type == endTy) = false := by simpa using h
  simp only [this, Bool.false_eq_true, if_false]

theorem loop_stop (acc : ExprList) (st : PS) (h : st.peek.type ≠ .comma) :
    exprListLoop cfg acc st = some (acc, st) := by
  rw [exprListLoop]
  have : (st.peek.type == TokType.comma) = false := by simpa using h
  simp [this]

theorem loop_step (hc : BaseCfg cfg) (acc : ExprList) (st : PS) (h : st.peek.type = .comma) :
    exprListLoop cfg acc st =
      (parseExpressionI cfg [] LOWEST st.next.next >>= fun (x : Expr × PS) => exprListLoop cfg (acc.snoc x.1) x.2) := by
  rw [exprListLoop, hc.exprI]
  simp [h]

/-! ### statements, parameter lists, contexts -/

theorem expect_ok {ty : TokType} {st : PS} (h : st.peek.type = ty) : expectToken ty st = (true, st.next) := by
  unfold expectToken; simp [h]

theorem semi_ok {st : PS} (h : st.peek.type = .semicolon) : expectSemiASI cfg st = (true, st.next) := by
  unfold expectSemiASI; simp [h]

theorem next_push (st : PS) (c : Ctx) : (st.push c).next = st.next.push c := by
  unfold PS.next PS.push; split <;> simp_all

theorem nextK_push (k : Nat) (st : PS) (c : Ctx) : nextK k (st.push c) = (nextK k st).push c := by
  induction k generalizing st with
  | zero => rfl
  | succ k ih => simp only [nextK]; rw [next_push, ih]

theorem pop_push (st : PS) (c : Ctx) : (st.push c).pop = st := rfl

theorem stmtI_nil (hc : BaseCfg cfg) (st : PS) : parseStatementI cfg cfg.stmtI st = baseParseStatement cfg st := by
  rw [hc.stmtI, parseStatementI]

/-- commas in front of every further parameter -/
def cparamToks : List Token → List Token
  | [] => []
  | p :: ps => commaT :: p :: cparamToks ps

theorem paramToks_cons (p : Token) (ps : List Token) : paramToks (p :: ps) = p :: cparamToks ps := by
  induction ps generalizing p with
  | nil => rfl
  | cons q qs ih => simp only [paramToks, cparamToks]; rw [ih]

theorem params_loop (ps : List Token) : ∀ (acc : List Ident) (st : PS) (last closer : Token) (rest : List Token),
    st.toks = last :: (cparamToks ps ++ closer :: rest) → closer.type ≠ .comma →
    paramsLoop acc st = some (acc ++ ps.map identOf, nextK (cparamToks ps).length st) := by
  induction ps with
  | nil =>
    intro acc st last closer rest ht hc
    have ht' : st.toks = last :: closer :: rest := by simpa [cparamToks] using ht
    rw [paramsLoop]
    have : (st.peek.type == TokType.comma) = false := by rw [peek_of_toks ht']; simpa using hc
    simp [this, cparamToks, nextK]
  | cons p ps ih =>
    intro acc st last closer rest ht hc
    have ht' : st.toks = last :: commaT :: p :: (cparamToks ps ++ closer :: rest) := by simpa [cparamToks] using ht
    rw [paramsLoop]
    have hp : (st.peek.type == TokType.comma) = true := by rw [peek_of_toks ht']; rfl
    simp only [hp, if_true]
    have h2 : st.next.next.toks = p :: (cparamToks ps ++ closer :: rest) := next_toks_cons (next_toks_cons ht')
    rw [ih _ _ p closer rest h2 hc]
    have hcur : identOfCur st.next.next = identOf p := by unfold identOfCur identOf; rw [cur_of_toks h2]
    rw [hcur]
    simp only [List.map_cons, List.append_assoc, List.singleton_append, cparamToks, List.length_cons]
    rfl

end Xjs.RA
