import XjsModel.Proofs.RoundTrip2
/-
  Round trip, part 3: the Pratt invariant by induction on the tree.
-/
namespace Xjs.RT
open Xjs

variable {cfg : PCfg}

/-- the Pratt invariant for one spec expression -/
def Main (cfg : PCfg) (s : SE) : Prop :=
  ∀ (p : Nat) (st : PS) (rest : List Token), rest ≠ [] → st.toks = s.toks ++ rest → s.fits p → stops cfg s.rbl rest →
    parseExpressionI cfg [] p st = parseRemaining cfg s.tree p (nextK (s.toks.length - 1) st)

theorem level_ge_three (s : SE) (hw : s.wf = true) : 3 ≤ s.level := by
  cases s with
  | atom t => show 3 ≤ precAtomic; decide
  | grp e => show 3 ≤ precAtomic; decide
  | un t r => show 3 ≤ precUnary; decide
  | bin t l r =>
    have hw' : (lookup baseInfixFns t.type == some .binary && l.wf && r.wf) = true := hw
    simp only [Bool.and_eq_true, beq_iff_eq] at hw'
    exact (binary_prec t.type hw'.1.1).2.1
  | post t l => show 3 ≤ precPostfix; decide

theorem toks_split (s : SE) : ∃ pre last, s.toks = pre ++ [last] ∧ pre.length = s.toks.length - 1 := by
  have h := toks_ne_nil s
  refine ⟨s.toks.dropLast, s.toks.getLast h, (List.dropLast_concat_getLast h).symm, by simp⟩

/-- where the cursor stands after the expression has been read -/
theorem toks_after (ts : List Token) (hne : ts ≠ []) (rest : List Token) (st : PS) (h : st.toks = ts ++ rest) :
    ∃ last, (nextK (ts.length - 1) st).toks = last :: rest ∧ ts.getLast? = some last := by
  refine ⟨ts.getLast hne, ?_, List.getLast?_eq_some_getLast hne⟩
  have e := List.dropLast_concat_getLast hne
  have h' : st.toks = ts.dropLast ++ ts.getLast hne :: rest := by
    rw [h]; calc ts ++ rest = (ts.dropLast ++ [ts.getLast hne]) ++ rest := by rw [e]
      _ = _ := by simp
  have := toks_nextK ts.dropLast (ts.getLast hne) rest st h'
  simpa using this

theorem precOf_rparen (hc : BaseCfg cfg) : precOf cfg .rparen = 1 := by
  rw [precOf_base hc]; decide

/-- the value of a whole sub-expression, once the loop at level `q` stops behind it -/
theorem eval_of_main (s : SE) (ih : Main cfg s) (q : Nat) (st : PS) (rest : List Token) (hr : rest ≠ [])
    (ht : st.toks = s.toks ++ rest) (hf : s.fits q) (hs : stops cfg s.rbl rest) (hq : stops cfg q rest) :
    parseExpressionI cfg [] q st = some (s.tree, nextK (s.toks.length - 1) st) := by
  rw [ih q st rest hr ht hf hs]
  obtain ⟨last, hl, _⟩ := toks_after s.toks (toks_ne_nil s) rest st ht
  apply remaining_stop
  cases rest with
  | nil => exact absurd rfl hr
  | cons t r =>
    rw [peek_of_toks hl]
    exact hq

/-- explicit (or printer-made) parentheses around an expression -/
theorem group_case (hc : BaseCfg cfg) (s : SE) (hw : s.wf = true) (ih : Main cfg s) :
    ∀ (p : Nat) (st : PS) (rest : List Token), rest ≠ [] → st.toks = (lpT :: s.toks ++ [rpT]) ++ rest →
      parseExpressionI cfg [] p st =
        parseRemaining cfg (.group lpT s.tree rpT) p (nextK ((lpT :: s.toks ++ [rpT]).length - 1) st) := by
  intro p st rest hr ht
  have hne := toks_ne_nil s
  obtain ⟨a, as, has⟩ := List.exists_cons_of_ne_nil hne
  have ht1 : st.toks = lpT :: a :: (as ++ rpT :: rest) := by rw [ht, has]; simp
  have hcur : st.cur = lpT := cur_of_toks ht1
  have hn : st.next.toks = s.toks ++ (rpT :: rest) := by rw [next_toks_cons ht1, has]; simp
  have hfit : s.fits LOWEST := fits_of_level s hw LOWEST (by have := level_ge_three s hw; unfold LOWEST; omega)
  have hstop1 : stops cfg s.rbl (rpT :: rest) := by
    right; show precOf cfg .rparen ≤ s.rbl
    rw [precOf_rparen hc]
    have := level_ge_three s hw; have := level_le_rbl s; omega
  have hstop2 : stops cfg LOWEST (rpT :: rest) := by
    right; show precOf cfg .rparen ≤ LOWEST
    rw [precOf_rparen hc]; decide
  have e1 := eval_of_main s ih LOWEST st.next (rpT :: rest) (by simp) hn hfit hstop1 hstop2
  obtain ⟨last, hl, _⟩ := toks_after s.toks hne (rpT :: rest) st.next hn
  have hpeek : (nextK (s.toks.length - 1) st.next).peek = rpT := by
    cases rest with
    | nil => exact absurd rfl hr
    | cons t r => exact peek_of_toks hl
  have hexp : expectToken .rparen (nextK (s.toks.length - 1) st.next) = (true, (nextK (s.toks.length - 1) st.next).next) := by
    unfold expectToken; rw [hpeek]; rfl
  rw [unfold_expr, prefix_group hc st (by rw [hcur]; rfl), e1]
  simp only [Option.bind_eq_bind, Option.bind_some, hexp, if_true]
  rw [next_cur, hpeek, hcur]
  congr 1
  have hlen : s.toks.length ≥ 1 := by rw [has]; simp
  rw [← nextK_succ', show s.toks.length - 1 + 1 = s.toks.length by omega]
  show nextK (s.toks.length + 1) st = _
  congr 1
  simp

/-- a sub-expression in operand position: parenthesised by the printer (`b`) or not -/
theorem wrapped (hc : BaseCfg cfg) (s : SE) (hw : s.wf = true) (ih : Main cfg s) (b : Bool) :
    ∀ (q : Nat) (st : PS) (rest : List Token), rest ≠ [] → st.toks = wrapToks b s.toks ++ rest →
      (b = false → s.fits q) → stops cfg (if b then precAtomic else s.rbl) rest → stops cfg q rest →
      parseExpressionI cfg [] q st = some (wrapTree b s.tree, nextK ((wrapToks b s.toks).length - 1) st) := by
  intro q st rest hr ht hf hs hq
  cases b with
  | false =>
    simp only [wrapToks, wrapTree, Bool.false_eq_true, if_false] at ht hs ⊢
    exact eval_of_main s ih q st rest hr ht (hf rfl) hs hq
  | true =>
    simp only [wrapToks, wrapTree, if_true] at ht hs ⊢
    rw [group_case hc s hw ih q st rest hr ht]
    obtain ⟨last, hl, _⟩ := toks_after (lpT :: s.toks ++ [rpT]) (by simp) rest st ht
    apply remaining_stop
    cases rest with
    | nil => exact absurd rfl hr
    | cons t r => rw [peek_of_toks hl]; exact hq

theorem wrapToks_ne_nil (b : Bool) (s : SE) : wrapToks b s.toks ≠ [] := by
  unfold wrapToks; split
  · simp
  · exact toks_ne_nil s

end Xjs.RT
