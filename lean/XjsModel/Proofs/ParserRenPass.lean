import XjsModel.Proofs.ParserRen
/-
  The renaming pass (C05): one pass over the parser's mutual block with the partial-correctness principle —
  whenever the parser returns on a token list, it returns the renamed result on the renamed list.
-/
namespace Xjs.Ren
open Xjs
variable {cfg : PCfg} (ρ : Renaming cfg)
set_option linter.unusedSimpArgs false

theorem psR_setTrace (st : PS) (b : Bool) (id : Nat) :
    psR ρ { st with trace := st.trace ++ [st.event b id] } =
      { psR ρ st with trace := (psR ρ st).trace ++ [(psR ρ st).event b id] } := by
  rw [psR_event]; simp [psR]
theorem psR_setBoth (st : PS) (p : Nat) (b : Bool) (id : Nat) :
    psR ρ { st with curPrec := p, trace := st.trace ++ [st.event b id] } =
      { psR ρ st with curPrec := p, trace := (psR ρ st).trace ++ [(psR ρ st).event b id] } := by
  rw [psR_event]; simp [psR]
theorem psR_setPrec (st : PS) (p : Nat) : psR ρ { st with curPrec := p } = { psR ρ st with curPrec := p } := rfl

theorem ren_paramsLoop (acc : List Ident) (st : PS) (r : List Ident × PS) (h : paramsLoop acc st = some r) :
    paramsLoop (acc.map (identR ρ)) (psR ρ st) = some (r.1.map (identR ρ), psR ρ r.2) := by
  refine paramsLoop.partial_correctness
    (fun acc st r => paramsLoop (acc.map (identR ρ)) (psR ρ st) = some (r.1.map (identR ρ), psR ρ r.2)) ?_ acc st r h
  intro f ih acc st r h
  rw [paramsLoop]
  rw [psR_peek_type_const ρ st .comma rfl]
  split at h
  · rename_i hc
    have := ih _ _ _ h
    simp only [hc, if_true, psR_next, identOfCur_ren]
    simpa using this
  · rename_i hc
    cases h
    simp [hc]

theorem ren_parseFunctionParameters (st : PS) (r : List Ident × PS) (h : parseFunctionParameters st = some r) :
    parseFunctionParameters (psR ρ st) = some (r.1.map (identR ρ), psR ρ r.2) := by
  unfold parseFunctionParameters at h ⊢
  rw [psR_peek_type_const ρ st .rparen rfl]
  split at h
  · rename_i hc; cases h; simp [hc, psR_next]
  · rename_i hc
    obtain ⟨⟨ids, st1⟩, h1, h2⟩ := bind_some h
    have := ren_paramsLoop ρ _ _ _ h1
    simp only [hc, if_false, psR_next, identOfCur_ren] 
    have e : [identR ρ (identOfCur st.next)] = [identOfCur st.next].map (identR ρ) := rfl
    rw [e, this]
    simp only [Option.bind_eq_bind, Option.bind_some, psR_expectToken ρ .rparen rfl]
    simp only at h2
    split at h2
    · rename_i hok; cases h2; simp [hok]
    · rename_i hok; cases h2; simp [hok]

set_option maxHeartbeats 6400000 in
theorem ren_mutual :
    (∀ is st r, parseStatementI cfg is st = some r → parseStatementI cfg is (psR ρ st) = some (stmtR ρ r.1, psR ρ r.2)) ∧
    (∀ st r, baseParseStatement cfg st = some r → baseParseStatement cfg (psR ρ st) = some (stmtR ρ r.1, psR ρ r.2)) ∧
    (∀ st r, parseExpressionStatement cfg st = some r → parseExpressionStatement cfg (psR ρ st) = some (stmtR ρ r.1, psR ρ r.2)) ∧
    (∀ is prec st r, parseExpressionI cfg is prec st = some r → parseExpressionI cfg is prec (psR ρ st) = some (exprR ρ r.1, psR ρ r.2)) ∧
    (∀ left prec st r, parseRemaining cfg left prec st = some r → parseRemaining cfg (exprR ρ left) prec (psR ρ st) = some (exprR ρ r.1, psR ρ r.2)) ∧
    (∀ left st r, parseInfixExpression cfg left st = some r → parseInfixExpression cfg (exprR ρ left) (psR ρ st) = some (exprR ρ r.1, psR ρ r.2)) ∧
    (∀ endTy st r, parseExpressionList cfg endTy st = some r → movable endTy = false → parseExpressionList cfg endTy (psR ρ st) = some (exprListR ρ r.1, psR ρ r.2)) ∧
    (∀ acc st r, exprListLoop cfg acc st = some r → exprListLoop cfg (exprListR ρ acc) (psR ρ st) = some (exprListR ρ r.1, psR ρ r.2)) ∧
    (∀ st r, parsePrefixExpression cfg st = some r → parsePrefixExpression cfg (psR ρ st) = some (exprR ρ r.1, psR ρ r.2)) ∧
    (∀ st r, parseFunctionExpression cfg st = some r → parseFunctionExpression cfg (psR ρ st) = some (exprR ρ r.1, psR ρ r.2)) ∧
    (∀ st r, parseBlockStatement cfg st = some r → parseBlockStatement cfg (psR ρ st) = some (stmtR ρ r.1, psR ρ r.2)) ∧
    (∀ acc st r, blockLoop cfg acc st = some r → blockLoop cfg (stmtListR ρ acc) (psR ρ st) = some (stmtListR ρ r.1, psR ρ r.2)) ∧
    (∀ st r, parseObjectLiteral cfg st = some r → parseObjectLiteral cfg (psR ρ st) = some (exprR ρ r.1, psR ρ r.2)) ∧
    (∀ acc st r, objectLoop cfg acc st = some r → objectLoop cfg (propListR ρ acc) (psR ρ st) = some (r.1.map (propListR ρ), psR ρ r.2)) ∧
    (∀ st r, parseForStatement cfg st = some r → parseForStatement cfg (psR ρ st) = some (stmtR ρ r.1, psR ρ r.2)) ∧
    (∀ st r, parseForInit cfg st = some r → parseForInit cfg (psR ρ st) = some (exprR ρ r.1, psR ρ r.2)) ∧
    (∀ st r, parseLetExpression cfg st = some r → parseLetExpression cfg (psR ρ st) = some (exprR ρ r.1, psR ρ r.2)) ∧
    (∀ st r, parseWhileStatement cfg st = some r → parseWhileStatement cfg (psR ρ st) = some (stmtR ρ r.1, psR ρ r.2)) ∧
    (∀ st r, parseIfStatement cfg st = some r → parseIfStatement cfg (psR ρ st) = some (stmtR ρ r.1, psR ρ r.2)) ∧
    (∀ st r, parseReturnStatement cfg st = some r → parseReturnStatement cfg (psR ρ st) = some (stmtR ρ r.1, psR ρ r.2)) ∧
    (∀ st r, parseFunctionStatement cfg st = some r → parseFunctionStatement cfg (psR ρ st) = some (stmtR ρ r.1, psR ρ r.2)) ∧
    (∀ st r, parseLetStatement cfg st = some r → parseLetStatement cfg (psR ρ st) = some (stmtR ρ r.1, psR ρ r.2)) := by
  refine parseStatementI.mutual_partial_correctness cfg
    (fun is st r => parseStatementI cfg is (psR ρ st) = some (stmtR ρ r.1, psR ρ r.2))
    (fun st r => baseParseStatement cfg (psR ρ st) = some (stmtR ρ r.1, psR ρ r.2))
    (fun st r => parseExpressionStatement cfg (psR ρ st) = some (stmtR ρ r.1, psR ρ r.2))
    (fun is prec st r => parseExpressionI cfg is prec (psR ρ st) = some (exprR ρ r.1, psR ρ r.2))
    (fun left prec st r => parseRemaining cfg (exprR ρ left) prec (psR ρ st) = some (exprR ρ r.1, psR ρ r.2))
    (fun left st r => parseInfixExpression cfg (exprR ρ left) (psR ρ st) = some (exprR ρ r.1, psR ρ r.2))
    (fun endTy st r => movable endTy = false → parseExpressionList cfg endTy (psR ρ st) = some (exprListR ρ r.1, psR ρ r.2))
    (fun acc st r => exprListLoop cfg (exprListR ρ acc) (psR ρ st) = some (exprListR ρ r.1, psR ρ r.2))
    (fun st r => parsePrefixExpression cfg (psR ρ st) = some (exprR ρ r.1, psR ρ r.2))
    (fun st r => parseFunctionExpression cfg (psR ρ st) = some (exprR ρ r.1, psR ρ r.2))
    (fun st r => parseBlockStatement cfg (psR ρ st) = some (stmtR ρ r.1, psR ρ r.2))
    (fun acc st r => blockLoop cfg (stmtListR ρ acc) (psR ρ st) = some (stmtListR ρ r.1, psR ρ r.2))
    (fun st r => parseObjectLiteral cfg (psR ρ st) = some (exprR ρ r.1, psR ρ r.2))
    (fun acc st r => objectLoop cfg (propListR ρ acc) (psR ρ st) = some (r.1.map (propListR ρ), psR ρ r.2))
    (fun st r => parseForStatement cfg (psR ρ st) = some (stmtR ρ r.1, psR ρ r.2))
    (fun st r => parseForInit cfg (psR ρ st) = some (exprR ρ r.1, psR ρ r.2))
    (fun st r => parseLetExpression cfg (psR ρ st) = some (exprR ρ r.1, psR ρ r.2))
    (fun st r => parseWhileStatement cfg (psR ρ st) = some (stmtR ρ r.1, psR ρ r.2))
    (fun st r => parseIfStatement cfg (psR ρ st) = some (stmtR ρ r.1, psR ρ r.2))
    (fun st r => parseReturnStatement cfg (psR ρ st) = some (stmtR ρ r.1, psR ρ r.2))
    (fun st r => parseFunctionStatement cfg (psR ρ st) = some (stmtR ρ r.1, psR ρ r.2))
    (fun st r => parseLetStatement cfg (psR ρ st) = some (stmtR ρ r.1, psR ρ r.2))
    ?_ ?_ ?_ ?_ ?_ ?_ ?_ ?_ ?_ ?_ ?_ ?_ ?_ ?_ ?_ ?_ ?_ ?_ ?_ ?_ ?_ ?_
  · -- parseStatementI
    intro pS bS ih_pS ih_bS is st r h
    replace ih_pS := curry2 ih_pS; replace ih_bS := curry1 ih_bS
    dsimp only at ih_pS ih_bS ⊢
    obtain ⟨x, st'⟩ := r
    have hparams := ren_parseFunctionParameters ρ
    pdecompW h [ih_pS, ih_bS, hparams]
    all_goals (rw [parseStatementI]; simp_all [psR_next, psR_expectToken, psR_expectSemi, psR_addError, psR_push, psR_pop, movable, exprR, stmtR, exprListR, stmtListR, propListR, exprListR_snoc, stmtListR_snoc, propListR_snoc, exprR_isNone, stmtR_isNone, identR, tokR_type, tokR_lit, psR_setTrace, psR_setBoth, psR_setPrec, ρ.prefixFns, ρ.infixFns, ρ.eq_const, et_ident, et_lparen, et_rparen, et_lbrace, et_rbrace, et_colon, et_semicolon, et_rbracket, eqb_true, eqb_plusAssign, eqb_minusAssign, eqc_semicolon, eqc_eof, eqc_rbrace, eqc_rparen, eqc_lparen, eqc_lbracket, eqc_comma, eqc_colon, eqc_assign, eqc_else_, eqc_ident, eqc_let_, eqc_function, eqc_return_, eqc_if_, eqc_while_, eqc_for_, eqc_lbrace, eqc_rbracket, eqc_plusAssign, eqc_minusAssign, eqc_increment, eqc_decrement, eqc_true_])
    all_goals (try (split <;> simp_all [psR_next, psR_expectToken, psR_expectSemi, psR_addError, psR_push, psR_pop, movable, exprR, stmtR, exprListR, stmtListR, propListR, exprListR_snoc, stmtListR_snoc, propListR_snoc, exprR_isNone, stmtR_isNone, identR, tokR_type, tokR_lit, psR_setTrace, psR_setBoth, psR_setPrec, ρ.prefixFns, ρ.infixFns, ρ.eq_const, et_ident, et_lparen, et_rparen, et_lbrace, et_rbrace, et_colon, et_semicolon, et_rbracket, eqb_true, eqb_plusAssign, eqb_minusAssign, eqc_semicolon, eqc_eof, eqc_rbrace, eqc_rparen, eqc_lparen, eqc_lbracket, eqc_comma, eqc_colon, eqc_assign, eqc_else_, eqc_ident, eqc_let_, eqc_function, eqc_return_, eqc_if_, eqc_while_, eqc_for_, eqc_lbrace, eqc_rbracket, eqc_plusAssign, eqc_minusAssign, eqc_increment, eqc_decrement, eqc_true_]))
    all_goals (try (split <;> simp_all [psR_next, psR_expectToken, psR_expectSemi, psR_addError, psR_push, psR_pop, movable, exprR, stmtR, exprListR, stmtListR, propListR, exprListR_snoc, stmtListR_snoc, propListR_snoc, exprR_isNone, stmtR_isNone, identR, tokR_type, tokR_lit, psR_setTrace, psR_setBoth, psR_setPrec, ρ.prefixFns, ρ.infixFns, ρ.eq_const, et_ident, et_lparen, et_rparen, et_lbrace, et_rbrace, et_colon, et_semicolon, et_rbracket, eqb_true, eqb_plusAssign, eqb_minusAssign, eqc_semicolon, eqc_eof, eqc_rbrace, eqc_rparen, eqc_lparen, eqc_lbracket, eqc_comma, eqc_colon, eqc_assign, eqc_else_, eqc_ident, eqc_let_, eqc_function, eqc_return_, eqc_if_, eqc_while_, eqc_for_, eqc_lbrace, eqc_rbracket, eqc_plusAssign, eqc_minusAssign, eqc_increment, eqc_decrement, eqc_true_]))
    all_goals (try (intros; first | omega | (exfalso; simp_all; done) | (simp_all; omega)))
  · -- baseParseStatement
    intro f1 f2 f3 f4 f5 f6 f7 f8 ih_f1 ih_f2 ih_f3 ih_f4 ih_f5 ih_f6 ih_f7 ih_f8  st r h
    replace ih_f1 := curry1 ih_f1; replace ih_f2 := curry1 ih_f2; replace ih_f3 := curry1 ih_f3; replace ih_f4 := curry1 ih_f4; replace ih_f5 := curry1 ih_f5; replace ih_f6 := curry1 ih_f6; replace ih_f7 := curry1 ih_f7; replace ih_f8 := curry1 ih_f8
    dsimp only at ih_f1 ih_f2 ih_f3 ih_f4 ih_f5 ih_f6 ih_f7 ih_f8 ⊢
    obtain ⟨x, st'⟩ := r
    have hparams := ren_parseFunctionParameters ρ
    pdecompW h [ih_f1, ih_f2, ih_f3, ih_f4, ih_f5, ih_f6, ih_f7, ih_f8, hparams]
    all_goals (rw [baseParseStatement]; simp_all [psR_next, psR_expectToken, psR_expectSemi, psR_addError, psR_push, psR_pop, movable, exprR, stmtR, exprListR, stmtListR, propListR, exprListR_snoc, stmtListR_snoc, propListR_snoc, exprR_isNone, stmtR_isNone, identR, tokR_type, tokR_lit, psR_setTrace, psR_setBoth, psR_setPrec, ρ.prefixFns, ρ.infixFns, ρ.eq_const, et_ident, et_lparen, et_rparen, et_lbrace, et_rbrace, et_colon, et_semicolon, et_rbracket, eqb_true, eqb_plusAssign, eqb_minusAssign, eqc_semicolon, eqc_eof, eqc_rbrace, eqc_rparen, eqc_lparen, eqc_lbracket, eqc_comma, eqc_colon, eqc_assign, eqc_else_, eqc_ident, eqc_let_, eqc_function, eqc_return_, eqc_if_, eqc_while_, eqc_for_, eqc_lbrace, eqc_rbracket, eqc_plusAssign, eqc_minusAssign, eqc_increment, eqc_decrement, eqc_true_])
    all_goals (try (split <;> simp_all [psR_next, psR_expectToken, psR_expectSemi, psR_addError, psR_push, psR_pop, movable, exprR, stmtR, exprListR, stmtListR, propListR, exprListR_snoc, stmtListR_snoc, propListR_snoc, exprR_isNone, stmtR_isNone, identR, tokR_type, tokR_lit, psR_setTrace, psR_setBoth, psR_setPrec, ρ.prefixFns, ρ.infixFns, ρ.eq_const, et_ident, et_lparen, et_rparen, et_lbrace, et_rbrace, et_colon, et_semicolon, et_rbracket, eqb_true, eqb_plusAssign, eqb_minusAssign, eqc_semicolon, eqc_eof, eqc_rbrace, eqc_rparen, eqc_lparen, eqc_lbracket, eqc_comma, eqc_colon, eqc_assign, eqc_else_, eqc_ident, eqc_let_, eqc_function, eqc_return_, eqc_if_, eqc_while_, eqc_for_, eqc_lbrace, eqc_rbracket, eqc_plusAssign, eqc_minusAssign, eqc_increment, eqc_decrement, eqc_true_]))
    all_goals (try (split <;> simp_all [psR_next, psR_expectToken, psR_expectSemi, psR_addError, psR_push, psR_pop, movable, exprR, stmtR, exprListR, stmtListR, propListR, exprListR_snoc, stmtListR_snoc, propListR_snoc, exprR_isNone, stmtR_isNone, identR, tokR_type, tokR_lit, psR_setTrace, psR_setBoth, psR_setPrec, ρ.prefixFns, ρ.infixFns, ρ.eq_const, et_ident, et_lparen, et_rparen, et_lbrace, et_rbrace, et_colon, et_semicolon, et_rbracket, eqb_true, eqb_plusAssign, eqb_minusAssign, eqc_semicolon, eqc_eof, eqc_rbrace, eqc_rparen, eqc_lparen, eqc_lbracket, eqc_comma, eqc_colon, eqc_assign, eqc_else_, eqc_ident, eqc_let_, eqc_function, eqc_return_, eqc_if_, eqc_while_, eqc_for_, eqc_lbrace, eqc_rbracket, eqc_plusAssign, eqc_minusAssign, eqc_increment, eqc_decrement, eqc_true_]))
    all_goals (try (intros; first | omega | (exfalso; simp_all; done) | (simp_all; omega)))
  · -- parseExpressionStatement
    intro pE ih_pE  st r h
    replace ih_pE := curry3 ih_pE
    dsimp only at ih_pE ⊢
    obtain ⟨x, st'⟩ := r
    have hparams := ren_parseFunctionParameters ρ
    pdecompW h [ih_pE, hparams]
    all_goals (rw [parseExpressionStatement]; simp_all [psR_next, psR_expectToken, psR_expectSemi, psR_addError, psR_push, psR_pop, movable, exprR, stmtR, exprListR, stmtListR, propListR, exprListR_snoc, stmtListR_snoc, propListR_snoc, exprR_isNone, stmtR_isNone, identR, tokR_type, tokR_lit, psR_setTrace, psR_setBoth, psR_setPrec, ρ.prefixFns, ρ.infixFns, ρ.eq_const, et_ident, et_lparen, et_rparen, et_lbrace, et_rbrace, et_colon, et_semicolon, et_rbracket, eqb_true, eqb_plusAssign, eqb_minusAssign, eqc_semicolon, eqc_eof, eqc_rbrace, eqc_rparen, eqc_lparen, eqc_lbracket, eqc_comma, eqc_colon, eqc_assign, eqc_else_, eqc_ident, eqc_let_, eqc_function, eqc_return_, eqc_if_, eqc_while_, eqc_for_, eqc_lbrace, eqc_rbracket, eqc_plusAssign, eqc_minusAssign, eqc_increment, eqc_decrement, eqc_true_])
    all_goals (try (split <;> simp_all [psR_next, psR_expectToken, psR_expectSemi, psR_addError, psR_push, psR_pop, movable, exprR, stmtR, exprListR, stmtListR, propListR, exprListR_snoc, stmtListR_snoc, propListR_snoc, exprR_isNone, stmtR_isNone, identR, tokR_type, tokR_lit, psR_setTrace, psR_setBoth, psR_setPrec, ρ.prefixFns, ρ.infixFns, ρ.eq_const, et_ident, et_lparen, et_rparen, et_lbrace, et_rbrace, et_colon, et_semicolon, et_rbracket, eqb_true, eqb_plusAssign, eqb_minusAssign, eqc_semicolon, eqc_eof, eqc_rbrace, eqc_rparen, eqc_lparen, eqc_lbracket, eqc_comma, eqc_colon, eqc_assign, eqc_else_, eqc_ident, eqc_let_, eqc_function, eqc_return_, eqc_if_, eqc_while_, eqc_for_, eqc_lbrace, eqc_rbracket, eqc_plusAssign, eqc_minusAssign, eqc_increment, eqc_decrement, eqc_true_]))
    all_goals (try (split <;> simp_all [psR_next, psR_expectToken, psR_expectSemi, psR_addError, psR_push, psR_pop, movable, exprR, stmtR, exprListR, stmtListR, propListR, exprListR_snoc, stmtListR_snoc, propListR_snoc, exprR_isNone, stmtR_isNone, identR, tokR_type, tokR_lit, psR_setTrace, psR_setBoth, psR_setPrec, ρ.prefixFns, ρ.infixFns, ρ.eq_const, et_ident, et_lparen, et_rparen, et_lbrace, et_rbrace, et_colon, et_semicolon, et_rbracket, eqb_true, eqb_plusAssign, eqb_minusAssign, eqc_semicolon, eqc_eof, eqc_rbrace, eqc_rparen, eqc_lparen, eqc_lbracket, eqc_comma, eqc_colon, eqc_assign, eqc_else_, eqc_ident, eqc_let_, eqc_function, eqc_return_, eqc_if_, eqc_while_, eqc_for_, eqc_lbrace, eqc_rbracket, eqc_plusAssign, eqc_minusAssign, eqc_increment, eqc_decrement, eqc_true_]))
    all_goals (try (intros; first | omega | (exfalso; simp_all; done) | (simp_all; omega)))
  · -- parseExpressionI
    intro pE pR pP ih_pE ih_pR ih_pP is prec st r h
    replace ih_pE := curry3 ih_pE; replace ih_pR := curry3 ih_pR; replace ih_pP := curry1 ih_pP
    dsimp only at ih_pE ih_pR ih_pP ⊢
    obtain ⟨x, st'⟩ := r
    have hparams := ren_parseFunctionParameters ρ
    pdecompW h [ih_pE, ih_pR, ih_pP, hparams]
    all_goals (rw [parseExpressionI]; simp_all [psR_next, psR_expectToken, psR_expectSemi, psR_addError, psR_push, psR_pop, movable, exprR, stmtR, exprListR, stmtListR, propListR, exprListR_snoc, stmtListR_snoc, propListR_snoc, exprR_isNone, stmtR_isNone, identR, tokR_type, tokR_lit, psR_setTrace, psR_setBoth, psR_setPrec, ρ.prefixFns, ρ.infixFns, ρ.eq_const, et_ident, et_lparen, et_rparen, et_lbrace, et_rbrace, et_colon, et_semicolon, et_rbracket, eqb_true, eqb_plusAssign, eqb_minusAssign, eqc_semicolon, eqc_eof, eqc_rbrace, eqc_rparen, eqc_lparen, eqc_lbracket, eqc_comma, eqc_colon, eqc_assign, eqc_else_, eqc_ident, eqc_let_, eqc_function, eqc_return_, eqc_if_, eqc_while_, eqc_for_, eqc_lbrace, eqc_rbracket, eqc_plusAssign, eqc_minusAssign, eqc_increment, eqc_decrement, eqc_true_])
    all_goals (try (split <;> simp_all [psR_next, psR_expectToken, psR_expectSemi, psR_addError, psR_push, psR_pop, movable, exprR, stmtR, exprListR, stmtListR, propListR, exprListR_snoc, stmtListR_snoc, propListR_snoc, exprR_isNone, stmtR_isNone, identR, tokR_type, tokR_lit, psR_setTrace, psR_setBoth, psR_setPrec, ρ.prefixFns, ρ.infixFns, ρ.eq_const, et_ident, et_lparen, et_rparen, et_lbrace, et_rbrace, et_colon, et_semicolon, et_rbracket, eqb_true, eqb_plusAssign, eqb_minusAssign, eqc_semicolon, eqc_eof, eqc_rbrace, eqc_rparen, eqc_lparen, eqc_lbracket, eqc_comma, eqc_colon, eqc_assign, eqc_else_, eqc_ident, eqc_let_, eqc_function, eqc_return_, eqc_if_, eqc_while_, eqc_for_, eqc_lbrace, eqc_rbracket, eqc_plusAssign, eqc_minusAssign, eqc_increment, eqc_decrement, eqc_true_]))
    all_goals (try (split <;> simp_all [psR_next, psR_expectToken, psR_expectSemi, psR_addError, psR_push, psR_pop, movable, exprR, stmtR, exprListR, stmtListR, propListR, exprListR_snoc, stmtListR_snoc, propListR_snoc, exprR_isNone, stmtR_isNone, identR, tokR_type, tokR_lit, psR_setTrace, psR_setBoth, psR_setPrec, ρ.prefixFns, ρ.infixFns, ρ.eq_const, et_ident, et_lparen, et_rparen, et_lbrace, et_rbrace, et_colon, et_semicolon, et_rbracket, eqb_true, eqb_plusAssign, eqb_minusAssign, eqc_semicolon, eqc_eof, eqc_rbrace, eqc_rparen, eqc_lparen, eqc_lbracket, eqc_comma, eqc_colon, eqc_assign, eqc_else_, eqc_ident, eqc_let_, eqc_function, eqc_return_, eqc_if_, eqc_while_, eqc_for_, eqc_lbrace, eqc_rbracket, eqc_plusAssign, eqc_minusAssign, eqc_increment, eqc_decrement, eqc_true_]))
    all_goals (try (intros; first | omega | (exfalso; simp_all; done) | (simp_all; omega)))
  · -- parseRemaining
    intro pR pI ih_pR ih_pI left prec st r h
    replace ih_pR := curry3 ih_pR; replace ih_pI := curry2 ih_pI
    dsimp only at ih_pR ih_pI ⊢
    obtain ⟨x, st'⟩ := r
    have hparams := ren_parseFunctionParameters ρ
    pdecompW h [ih_pR, ih_pI, hparams]
    all_goals (rw [parseRemaining]; simp_all [psR_next, psR_expectToken, psR_expectSemi, psR_addError, psR_push, psR_pop, movable, exprR, stmtR, exprListR, stmtListR, propListR, exprListR_snoc, stmtListR_snoc, propListR_snoc, exprR_isNone, stmtR_isNone, identR, tokR_type, tokR_lit, psR_setTrace, psR_setBoth, psR_setPrec, ρ.prefixFns, ρ.infixFns, ρ.eq_const, et_ident, et_lparen, et_rparen, et_lbrace, et_rbrace, et_colon, et_semicolon, et_rbracket, eqb_true, eqb_plusAssign, eqb_minusAssign, eqc_semicolon, eqc_eof, eqc_rbrace, eqc_rparen, eqc_lparen, eqc_lbracket, eqc_comma, eqc_colon, eqc_assign, eqc_else_, eqc_ident, eqc_let_, eqc_function, eqc_return_, eqc_if_, eqc_while_, eqc_for_, eqc_lbrace, eqc_rbracket, eqc_plusAssign, eqc_minusAssign, eqc_increment, eqc_decrement, eqc_true_])
    all_goals (try (split <;> simp_all [psR_next, psR_expectToken, psR_expectSemi, psR_addError, psR_push, psR_pop, movable, exprR, stmtR, exprListR, stmtListR, propListR, exprListR_snoc, stmtListR_snoc, propListR_snoc, exprR_isNone, stmtR_isNone, identR, tokR_type, tokR_lit, psR_setTrace, psR_setBoth, psR_setPrec, ρ.prefixFns, ρ.infixFns, ρ.eq_const, et_ident, et_lparen, et_rparen, et_lbrace, et_rbrace, et_colon, et_semicolon, et_rbracket, eqb_true, eqb_plusAssign, eqb_minusAssign, eqc_semicolon, eqc_eof, eqc_rbrace, eqc_rparen, eqc_lparen, eqc_lbracket, eqc_comma, eqc_colon, eqc_assign, eqc_else_, eqc_ident, eqc_let_, eqc_function, eqc_return_, eqc_if_, eqc_while_, eqc_for_, eqc_lbrace, eqc_rbracket, eqc_plusAssign, eqc_minusAssign, eqc_increment, eqc_decrement, eqc_true_]))
    all_goals (try (split <;> simp_all [psR_next, psR_expectToken, psR_expectSemi, psR_addError, psR_push, psR_pop, movable, exprR, stmtR, exprListR, stmtListR, propListR, exprListR_snoc, stmtListR_snoc, propListR_snoc, exprR_isNone, stmtR_isNone, identR, tokR_type, tokR_lit, psR_setTrace, psR_setBoth, psR_setPrec, ρ.prefixFns, ρ.infixFns, ρ.eq_const, et_ident, et_lparen, et_rparen, et_lbrace, et_rbrace, et_colon, et_semicolon, et_rbracket, eqb_true, eqb_plusAssign, eqb_minusAssign, eqc_semicolon, eqc_eof, eqc_rbrace, eqc_rparen, eqc_lparen, eqc_lbracket, eqc_comma, eqc_colon, eqc_assign, eqc_else_, eqc_ident, eqc_let_, eqc_function, eqc_return_, eqc_if_, eqc_while_, eqc_for_, eqc_lbrace, eqc_rbracket, eqc_plusAssign, eqc_minusAssign, eqc_increment, eqc_decrement, eqc_true_]))
    all_goals (try (intros; first | omega | (exfalso; simp_all; done) | (simp_all; omega)))
  · -- parseInfixExpression
    intro pE pL ih_pE ih_pL left st r h
    replace ih_pE := curry3 ih_pE; replace ih_pL := curry2 ih_pL
    dsimp only at ih_pE ih_pL ⊢
    obtain ⟨x, st'⟩ := r
    have hparams := ren_parseFunctionParameters ρ
    pdecompW h [ih_pE, ih_pL, hparams]
    all_goals (rw [parseInfixExpression]; simp_all [psR_next, psR_expectToken, psR_expectSemi, psR_addError, psR_push, psR_pop, movable, exprR, stmtR, exprListR, stmtListR, propListR, exprListR_snoc, stmtListR_snoc, propListR_snoc, exprR_isNone, stmtR_isNone, identR, tokR_type, tokR_lit, psR_setTrace, psR_setBoth, psR_setPrec, ρ.prefixFns, ρ.infixFns, ρ.eq_const, et_ident, et_lparen, et_rparen, et_lbrace, et_rbrace, et_colon, et_semicolon, et_rbracket, eqb_true, eqb_plusAssign, eqb_minusAssign, eqc_semicolon, eqc_eof, eqc_rbrace, eqc_rparen, eqc_lparen, eqc_lbracket, eqc_comma, eqc_colon, eqc_assign, eqc_else_, eqc_ident, eqc_let_, eqc_function, eqc_return_, eqc_if_, eqc_while_, eqc_for_, eqc_lbrace, eqc_rbracket, eqc_plusAssign, eqc_minusAssign, eqc_increment, eqc_decrement, eqc_true_])
    all_goals (try (split <;> simp_all [psR_next, psR_expectToken, psR_expectSemi, psR_addError, psR_push, psR_pop, movable, exprR, stmtR, exprListR, stmtListR, propListR, exprListR_snoc, stmtListR_snoc, propListR_snoc, exprR_isNone, stmtR_isNone, identR, tokR_type, tokR_lit, psR_setTrace, psR_setBoth, psR_setPrec, ρ.prefixFns, ρ.infixFns, ρ.eq_const, et_ident, et_lparen, et_rparen, et_lbrace, et_rbrace, et_colon, et_semicolon, et_rbracket, eqb_true, eqb_plusAssign, eqb_minusAssign, eqc_semicolon, eqc_eof, eqc_rbrace, eqc_rparen, eqc_lparen, eqc_lbracket, eqc_comma, eqc_colon, eqc_assign, eqc_else_, eqc_ident, eqc_let_, eqc_function, eqc_return_, eqc_if_, eqc_while_, eqc_for_, eqc_lbrace, eqc_rbracket, eqc_plusAssign, eqc_minusAssign, eqc_increment, eqc_decrement, eqc_true_]))
    all_goals (try (split <;> simp_all [psR_next, psR_expectToken, psR_expectSemi, psR_addError, psR_push, psR_pop, movable, exprR, stmtR, exprListR, stmtListR, propListR, exprListR_snoc, stmtListR_snoc, propListR_snoc, exprR_isNone, stmtR_isNone, identR, tokR_type, tokR_lit, psR_setTrace, psR_setBoth, psR_setPrec, ρ.prefixFns, ρ.infixFns, ρ.eq_const, et_ident, et_lparen, et_rparen, et_lbrace, et_rbrace, et_colon, et_semicolon, et_rbracket, eqb_true, eqb_plusAssign, eqb_minusAssign, eqc_semicolon, eqc_eof, eqc_rbrace, eqc_rparen, eqc_lparen, eqc_lbracket, eqc_comma, eqc_colon, eqc_assign, eqc_else_, eqc_ident, eqc_let_, eqc_function, eqc_return_, eqc_if_, eqc_while_, eqc_for_, eqc_lbrace, eqc_rbracket, eqc_plusAssign, eqc_minusAssign, eqc_increment, eqc_decrement, eqc_true_]))
    all_goals (try (intros; first | omega | (exfalso; simp_all; done) | (simp_all; omega)))
  · -- parseExpressionList
    intro pE eL ih_pE ih_eL endTy st r h hmv
    replace ih_pE := curry3 ih_pE; replace ih_eL := curry2 ih_eL
    dsimp only at ih_pE ih_eL ⊢
    obtain ⟨x, st'⟩ := r
    have hparams := ren_parseFunctionParameters ρ
    pdecompW h [ih_pE, ih_eL, hparams]
    all_goals (rw [parseExpressionList]; simp_all [psR_next, psR_expectToken, psR_expectSemi, psR_addError, psR_push, psR_pop, movable, exprR, stmtR, exprListR, stmtListR, propListR, exprListR_snoc, stmtListR_snoc, propListR_snoc, exprR_isNone, stmtR_isNone, identR, tokR_type, tokR_lit, psR_setTrace, psR_setBoth, psR_setPrec, ρ.prefixFns, ρ.infixFns, ρ.eq_const, et_ident, et_lparen, et_rparen, et_lbrace, et_rbrace, et_colon, et_semicolon, et_rbracket, eqb_true, eqb_plusAssign, eqb_minusAssign, eqc_semicolon, eqc_eof, eqc_rbrace, eqc_rparen, eqc_lparen, eqc_lbracket, eqc_comma, eqc_colon, eqc_assign, eqc_else_, eqc_ident, eqc_let_, eqc_function, eqc_return_, eqc_if_, eqc_while_, eqc_for_, eqc_lbrace, eqc_rbracket, eqc_plusAssign, eqc_minusAssign, eqc_increment, eqc_decrement, eqc_true_])
    all_goals (try (split <;> simp_all [psR_next, psR_expectToken, psR_expectSemi, psR_addError, psR_push, psR_pop, movable, exprR, stmtR, exprListR, stmtListR, propListR, exprListR_snoc, stmtListR_snoc, propListR_snoc, exprR_isNone, stmtR_isNone, identR, tokR_type, tokR_lit, psR_setTrace, psR_setBoth, psR_setPrec, ρ.prefixFns, ρ.infixFns, ρ.eq_const, et_ident, et_lparen, et_rparen, et_lbrace, et_rbrace, et_colon, et_semicolon, et_rbracket, eqb_true, eqb_plusAssign, eqb_minusAssign, eqc_semicolon, eqc_eof, eqc_rbrace, eqc_rparen, eqc_lparen, eqc_lbracket, eqc_comma, eqc_colon, eqc_assign, eqc_else_, eqc_ident, eqc_let_, eqc_function, eqc_return_, eqc_if_, eqc_while_, eqc_for_, eqc_lbrace, eqc_rbracket, eqc_plusAssign, eqc_minusAssign, eqc_increment, eqc_decrement, eqc_true_]))
    all_goals (try (split <;> simp_all [psR_next, psR_expectToken, psR_expectSemi, psR_addError, psR_push, psR_pop, movable, exprR, stmtR, exprListR, stmtListR, propListR, exprListR_snoc, stmtListR_snoc, propListR_snoc, exprR_isNone, stmtR_isNone, identR, tokR_type, tokR_lit, psR_setTrace, psR_setBoth, psR_setPrec, ρ.prefixFns, ρ.infixFns, ρ.eq_const, et_ident, et_lparen, et_rparen, et_lbrace, et_rbrace, et_colon, et_semicolon, et_rbracket, eqb_true, eqb_plusAssign, eqb_minusAssign, eqc_semicolon, eqc_eof, eqc_rbrace, eqc_rparen, eqc_lparen, eqc_lbracket, eqc_comma, eqc_colon, eqc_assign, eqc_else_, eqc_ident, eqc_let_, eqc_function, eqc_return_, eqc_if_, eqc_while_, eqc_for_, eqc_lbrace, eqc_rbracket, eqc_plusAssign, eqc_minusAssign, eqc_increment, eqc_decrement, eqc_true_]))
    all_goals (try (intros; first | omega | (exfalso; simp_all; done) | (simp_all; omega)))
  · -- exprListLoop
    intro pE eL ih_pE ih_eL acc st r h
    replace ih_pE := curry3 ih_pE; replace ih_eL := curry2 ih_eL
    dsimp only at ih_pE ih_eL ⊢
    obtain ⟨x, st'⟩ := r
    have hparams := ren_parseFunctionParameters ρ
    pdecompW h [ih_pE, ih_eL, hparams]
    all_goals (rw [exprListLoop]; simp_all [psR_next, psR_expectToken, psR_expectSemi, psR_addError, psR_push, psR_pop, movable, exprR, stmtR, exprListR, stmtListR, propListR, exprListR_snoc, stmtListR_snoc, propListR_snoc, exprR_isNone, stmtR_isNone, identR, tokR_type, tokR_lit, psR_setTrace, psR_setBoth, psR_setPrec, ρ.prefixFns, ρ.infixFns, ρ.eq_const, et_ident, et_lparen, et_rparen, et_lbrace, et_rbrace, et_colon, et_semicolon, et_rbracket, eqb_true, eqb_plusAssign, eqb_minusAssign, eqc_semicolon, eqc_eof, eqc_rbrace, eqc_rparen, eqc_lparen, eqc_lbracket, eqc_comma, eqc_colon, eqc_assign, eqc_else_, eqc_ident, eqc_let_, eqc_function, eqc_return_, eqc_if_, eqc_while_, eqc_for_, eqc_lbrace, eqc_rbracket, eqc_plusAssign, eqc_minusAssign, eqc_increment, eqc_decrement, eqc_true_])
    all_goals (try (split <;> simp_all [psR_next, psR_expectToken, psR_expectSemi, psR_addError, psR_push, psR_pop, movable, exprR, stmtR, exprListR, stmtListR, propListR, exprListR_snoc, stmtListR_snoc, propListR_snoc, exprR_isNone, stmtR_isNone, identR, tokR_type, tokR_lit, psR_setTrace, psR_setBoth, psR_setPrec, ρ.prefixFns, ρ.infixFns, ρ.eq_const, et_ident, et_lparen, et_rparen, et_lbrace, et_rbrace, et_colon, et_semicolon, et_rbracket, eqb_true, eqb_plusAssign, eqb_minusAssign, eqc_semicolon, eqc_eof, eqc_rbrace, eqc_rparen, eqc_lparen, eqc_lbracket, eqc_comma, eqc_colon, eqc_assign, eqc_else_, eqc_ident, eqc_let_, eqc_function, eqc_return_, eqc_if_, eqc_while_, eqc_for_, eqc_lbrace, eqc_rbracket, eqc_plusAssign, eqc_minusAssign, eqc_increment, eqc_decrement, eqc_true_]))
    all_goals (try (split <;> simp_all [psR_next, psR_expectToken, psR_expectSemi, psR_addError, psR_push, psR_pop, movable, exprR, stmtR, exprListR, stmtListR, propListR, exprListR_snoc, stmtListR_snoc, propListR_snoc, exprR_isNone, stmtR_isNone, identR, tokR_type, tokR_lit, psR_setTrace, psR_setBoth, psR_setPrec, ρ.prefixFns, ρ.infixFns, ρ.eq_const, et_ident, et_lparen, et_rparen, et_lbrace, et_rbrace, et_colon, et_semicolon, et_rbracket, eqb_true, eqb_plusAssign, eqb_minusAssign, eqc_semicolon, eqc_eof, eqc_rbrace, eqc_rparen, eqc_lparen, eqc_lbracket, eqc_comma, eqc_colon, eqc_assign, eqc_else_, eqc_ident, eqc_let_, eqc_function, eqc_return_, eqc_if_, eqc_while_, eqc_for_, eqc_lbrace, eqc_rbracket, eqc_plusAssign, eqc_minusAssign, eqc_increment, eqc_decrement, eqc_true_]))
    all_goals (try (intros; first | omega | (exfalso; simp_all; done) | (simp_all; omega)))
  · -- parsePrefixExpression
    intro pE pL pFE pO ih_pE ih_pL ih_pFE ih_pO  st r h
    replace ih_pE := curry3 ih_pE; replace ih_pL := curry2 ih_pL; replace ih_pFE := curry1 ih_pFE; replace ih_pO := curry1 ih_pO
    dsimp only at ih_pE ih_pL ih_pFE ih_pO ⊢
    obtain ⟨x, st'⟩ := r
    have hparams := ren_parseFunctionParameters ρ
    pdecompW h [ih_pE, ih_pL, ih_pFE, ih_pO, hparams]
    all_goals (rw [parsePrefixExpression]; simp_all [psR_next, psR_expectToken, psR_expectSemi, psR_addError, psR_push, psR_pop, movable, exprR, stmtR, exprListR, stmtListR, propListR, exprListR_snoc, stmtListR_snoc, propListR_snoc, exprR_isNone, stmtR_isNone, identR, tokR_type, tokR_lit, psR_setTrace, psR_setBoth, psR_setPrec, ρ.prefixFns, ρ.infixFns, ρ.eq_const, et_ident, et_lparen, et_rparen, et_lbrace, et_rbrace, et_colon, et_semicolon, et_rbracket, eqb_true, eqb_plusAssign, eqb_minusAssign, eqc_semicolon, eqc_eof, eqc_rbrace, eqc_rparen, eqc_lparen, eqc_lbracket, eqc_comma, eqc_colon, eqc_assign, eqc_else_, eqc_ident, eqc_let_, eqc_function, eqc_return_, eqc_if_, eqc_while_, eqc_for_, eqc_lbrace, eqc_rbracket, eqc_plusAssign, eqc_minusAssign, eqc_increment, eqc_decrement, eqc_true_])
    all_goals (try (split <;> simp_all [psR_next, psR_expectToken, psR_expectSemi, psR_addError, psR_push, psR_pop, movable, exprR, stmtR, exprListR, stmtListR, propListR, exprListR_snoc, stmtListR_snoc, propListR_snoc, exprR_isNone, stmtR_isNone, identR, tokR_type, tokR_lit, psR_setTrace, psR_setBoth, psR_setPrec, ρ.prefixFns, ρ.infixFns, ρ.eq_const, et_ident, et_lparen, et_rparen, et_lbrace, et_rbrace, et_colon, et_semicolon, et_rbracket, eqb_true, eqb_plusAssign, eqb_minusAssign, eqc_semicolon, eqc_eof, eqc_rbrace, eqc_rparen, eqc_lparen, eqc_lbracket, eqc_comma, eqc_colon, eqc_assign, eqc_else_, eqc_ident, eqc_let_, eqc_function, eqc_return_, eqc_if_, eqc_while_, eqc_for_, eqc_lbrace, eqc_rbracket, eqc_plusAssign, eqc_minusAssign, eqc_increment, eqc_decrement, eqc_true_]))
    all_goals (try (split <;> simp_all [psR_next, psR_expectToken, psR_expectSemi, psR_addError, psR_push, psR_pop, movable, exprR, stmtR, exprListR, stmtListR, propListR, exprListR_snoc, stmtListR_snoc, propListR_snoc, exprR_isNone, stmtR_isNone, identR, tokR_type, tokR_lit, psR_setTrace, psR_setBoth, psR_setPrec, ρ.prefixFns, ρ.infixFns, ρ.eq_const, et_ident, et_lparen, et_rparen, et_lbrace, et_rbrace, et_colon, et_semicolon, et_rbracket, eqb_true, eqb_plusAssign, eqb_minusAssign, eqc_semicolon, eqc_eof, eqc_rbrace, eqc_rparen, eqc_lparen, eqc_lbracket, eqc_comma, eqc_colon, eqc_assign, eqc_else_, eqc_ident, eqc_let_, eqc_function, eqc_return_, eqc_if_, eqc_while_, eqc_for_, eqc_lbrace, eqc_rbracket, eqc_plusAssign, eqc_minusAssign, eqc_increment, eqc_decrement, eqc_true_]))
    all_goals (try (intros; first | omega | (exfalso; simp_all; done) | (simp_all; omega)))
  · -- parseFunctionExpression
    intro pB ih_pB  st r h
    replace ih_pB := curry1 ih_pB
    dsimp only at ih_pB ⊢
    obtain ⟨x, st'⟩ := r
    have hparams := ren_parseFunctionParameters ρ
    pdecompW h [ih_pB, hparams]
    all_goals (rw [parseFunctionExpression]; simp_all [psR_next, psR_expectToken, psR_expectSemi, psR_addError, psR_push, psR_pop, movable, exprR, stmtR, exprListR, stmtListR, propListR, exprListR_snoc, stmtListR_snoc, propListR_snoc, exprR_isNone, stmtR_isNone, identR, tokR_type, tokR_lit, psR_setTrace, psR_setBoth, psR_setPrec, ρ.prefixFns, ρ.infixFns, ρ.eq_const, et_ident, et_lparen, et_rparen, et_lbrace, et_rbrace, et_colon, et_semicolon, et_rbracket, eqb_true, eqb_plusAssign, eqb_minusAssign, eqc_semicolon, eqc_eof, eqc_rbrace, eqc_rparen, eqc_lparen, eqc_lbracket, eqc_comma, eqc_colon, eqc_assign, eqc_else_, eqc_ident, eqc_let_, eqc_function, eqc_return_, eqc_if_, eqc_while_, eqc_for_, eqc_lbrace, eqc_rbracket, eqc_plusAssign, eqc_minusAssign, eqc_increment, eqc_decrement, eqc_true_])
    all_goals (try (split <;> simp_all [psR_next, psR_expectToken, psR_expectSemi, psR_addError, psR_push, psR_pop, movable, exprR, stmtR, exprListR, stmtListR, propListR, exprListR_snoc, stmtListR_snoc, propListR_snoc, exprR_isNone, stmtR_isNone, identR, tokR_type, tokR_lit, psR_setTrace, psR_setBoth, psR_setPrec, ρ.prefixFns, ρ.infixFns, ρ.eq_const, et_ident, et_lparen, et_rparen, et_lbrace, et_rbrace, et_colon, et_semicolon, et_rbracket, eqb_true, eqb_plusAssign, eqb_minusAssign, eqc_semicolon, eqc_eof, eqc_rbrace, eqc_rparen, eqc_lparen, eqc_lbracket, eqc_comma, eqc_colon, eqc_assign, eqc_else_, eqc_ident, eqc_let_, eqc_function, eqc_return_, eqc_if_, eqc_while_, eqc_for_, eqc_lbrace, eqc_rbracket, eqc_plusAssign, eqc_minusAssign, eqc_increment, eqc_decrement, eqc_true_]))
    all_goals (try (split <;> simp_all [psR_next, psR_expectToken, psR_expectSemi, psR_addError, psR_push, psR_pop, movable, exprR, stmtR, exprListR, stmtListR, propListR, exprListR_snoc, stmtListR_snoc, propListR_snoc, exprR_isNone, stmtR_isNone, identR, tokR_type, tokR_lit, psR_setTrace, psR_setBoth, psR_setPrec, ρ.prefixFns, ρ.infixFns, ρ.eq_const, et_ident, et_lparen, et_rparen, et_lbrace, et_rbrace, et_colon, et_semicolon, et_rbracket, eqb_true, eqb_plusAssign, eqb_minusAssign, eqc_semicolon, eqc_eof, eqc_rbrace, eqc_rparen, eqc_lparen, eqc_lbracket, eqc_comma, eqc_colon, eqc_assign, eqc_else_, eqc_ident, eqc_let_, eqc_function, eqc_return_, eqc_if_, eqc_while_, eqc_for_, eqc_lbrace, eqc_rbracket, eqc_plusAssign, eqc_minusAssign, eqc_increment, eqc_decrement, eqc_true_]))
    all_goals (try (intros; first | omega | (exfalso; simp_all; done) | (simp_all; omega)))
  · -- parseBlockStatement
    intro bL ih_bL  st r h
    replace ih_bL := curry2 ih_bL
    dsimp only at ih_bL ⊢
    obtain ⟨x, st'⟩ := r
    have hparams := ren_parseFunctionParameters ρ
    pdecompW h [ih_bL, hparams]
    all_goals (rw [parseBlockStatement]; simp_all [psR_next, psR_expectToken, psR_expectSemi, psR_addError, psR_push, psR_pop, movable, exprR, stmtR, exprListR, stmtListR, propListR, exprListR_snoc, stmtListR_snoc, propListR_snoc, exprR_isNone, stmtR_isNone, identR, tokR_type, tokR_lit, psR_setTrace, psR_setBoth, psR_setPrec, ρ.prefixFns, ρ.infixFns, ρ.eq_const, et_ident, et_lparen, et_rparen, et_lbrace, et_rbrace, et_colon, et_semicolon, et_rbracket, eqb_true, eqb_plusAssign, eqb_minusAssign, eqc_semicolon, eqc_eof, eqc_rbrace, eqc_rparen, eqc_lparen, eqc_lbracket, eqc_comma, eqc_colon, eqc_assign, eqc_else_, eqc_ident, eqc_let_, eqc_function, eqc_return_, eqc_if_, eqc_while_, eqc_for_, eqc_lbrace, eqc_rbracket, eqc_plusAssign, eqc_minusAssign, eqc_increment, eqc_decrement, eqc_true_])
    all_goals (try (split <;> simp_all [psR_next, psR_expectToken, psR_expectSemi, psR_addError, psR_push, psR_pop, movable, exprR, stmtR, exprListR, stmtListR, propListR, exprListR_snoc, stmtListR_snoc, propListR_snoc, exprR_isNone, stmtR_isNone, identR, tokR_type, tokR_lit, psR_setTrace, psR_setBoth, psR_setPrec, ρ.prefixFns, ρ.infixFns, ρ.eq_const, et_ident, et_lparen, et_rparen, et_lbrace, et_rbrace, et_colon, et_semicolon, et_rbracket, eqb_true, eqb_plusAssign, eqb_minusAssign, eqc_semicolon, eqc_eof, eqc_rbrace, eqc_rparen, eqc_lparen, eqc_lbracket, eqc_comma, eqc_colon, eqc_assign, eqc_else_, eqc_ident, eqc_let_, eqc_function, eqc_return_, eqc_if_, eqc_while_, eqc_for_, eqc_lbrace, eqc_rbracket, eqc_plusAssign, eqc_minusAssign, eqc_increment, eqc_decrement, eqc_true_]))
    all_goals (try (split <;> simp_all [psR_next, psR_expectToken, psR_expectSemi, psR_addError, psR_push, psR_pop, movable, exprR, stmtR, exprListR, stmtListR, propListR, exprListR_snoc, stmtListR_snoc, propListR_snoc, exprR_isNone, stmtR_isNone, identR, tokR_type, tokR_lit, psR_setTrace, psR_setBoth, psR_setPrec, ρ.prefixFns, ρ.infixFns, ρ.eq_const, et_ident, et_lparen, et_rparen, et_lbrace, et_rbrace, et_colon, et_semicolon, et_rbracket, eqb_true, eqb_plusAssign, eqb_minusAssign, eqc_semicolon, eqc_eof, eqc_rbrace, eqc_rparen, eqc_lparen, eqc_lbracket, eqc_comma, eqc_colon, eqc_assign, eqc_else_, eqc_ident, eqc_let_, eqc_function, eqc_return_, eqc_if_, eqc_while_, eqc_for_, eqc_lbrace, eqc_rbracket, eqc_plusAssign, eqc_minusAssign, eqc_increment, eqc_decrement, eqc_true_]))
    all_goals (try (intros; first | omega | (exfalso; simp_all; done) | (simp_all; omega)))
  · -- blockLoop
    intro pS bL ih_pS ih_bL acc st r h
    replace ih_pS := curry2 ih_pS; replace ih_bL := curry2 ih_bL
    dsimp only at ih_pS ih_bL ⊢
    obtain ⟨x, st'⟩ := r
    have hparams := ren_parseFunctionParameters ρ
    pdecompW h [ih_pS, ih_bL, hparams]
    all_goals (rw [blockLoop]; simp_all [psR_next, psR_expectToken, psR_expectSemi, psR_addError, psR_push, psR_pop, movable, exprR, stmtR, exprListR, stmtListR, propListR, exprListR_snoc, stmtListR_snoc, propListR_snoc, exprR_isNone, stmtR_isNone, identR, tokR_type, tokR_lit, psR_setTrace, psR_setBoth, psR_setPrec, ρ.prefixFns, ρ.infixFns, ρ.eq_const, et_ident, et_lparen, et_rparen, et_lbrace, et_rbrace, et_colon, et_semicolon, et_rbracket, eqb_true, eqb_plusAssign, eqb_minusAssign, eqc_semicolon, eqc_eof, eqc_rbrace, eqc_rparen, eqc_lparen, eqc_lbracket, eqc_comma, eqc_colon, eqc_assign, eqc_else_, eqc_ident, eqc_let_, eqc_function, eqc_return_, eqc_if_, eqc_while_, eqc_for_, eqc_lbrace, eqc_rbracket, eqc_plusAssign, eqc_minusAssign, eqc_increment, eqc_decrement, eqc_true_])
    all_goals (try (split <;> simp_all [psR_next, psR_expectToken, psR_expectSemi, psR_addError, psR_push, psR_pop, movable, exprR, stmtR, exprListR, stmtListR, propListR, exprListR_snoc, stmtListR_snoc, propListR_snoc, exprR_isNone, stmtR_isNone, identR, tokR_type, tokR_lit, psR_setTrace, psR_setBoth, psR_setPrec, ρ.prefixFns, ρ.infixFns, ρ.eq_const, et_ident, et_lparen, et_rparen, et_lbrace, et_rbrace, et_colon, et_semicolon, et_rbracket, eqb_true, eqb_plusAssign, eqb_minusAssign, eqc_semicolon, eqc_eof, eqc_rbrace, eqc_rparen, eqc_lparen, eqc_lbracket, eqc_comma, eqc_colon, eqc_assign, eqc_else_, eqc_ident, eqc_let_, eqc_function, eqc_return_, eqc_if_, eqc_while_, eqc_for_, eqc_lbrace, eqc_rbracket, eqc_plusAssign, eqc_minusAssign, eqc_increment, eqc_decrement, eqc_true_]))
    all_goals (try (split <;> simp_all [psR_next, psR_expectToken, psR_expectSemi, psR_addError, psR_push, psR_pop, movable, exprR, stmtR, exprListR, stmtListR, propListR, exprListR_snoc, stmtListR_snoc, propListR_snoc, exprR_isNone, stmtR_isNone, identR, tokR_type, tokR_lit, psR_setTrace, psR_setBoth, psR_setPrec, ρ.prefixFns, ρ.infixFns, ρ.eq_const, et_ident, et_lparen, et_rparen, et_lbrace, et_rbrace, et_colon, et_semicolon, et_rbracket, eqb_true, eqb_plusAssign, eqb_minusAssign, eqc_semicolon, eqc_eof, eqc_rbrace, eqc_rparen, eqc_lparen, eqc_lbracket, eqc_comma, eqc_colon, eqc_assign, eqc_else_, eqc_ident, eqc_let_, eqc_function, eqc_return_, eqc_if_, eqc_while_, eqc_for_, eqc_lbrace, eqc_rbracket, eqc_plusAssign, eqc_minusAssign, eqc_increment, eqc_decrement, eqc_true_]))
    all_goals (try (intros; first | omega | (exfalso; simp_all; done) | (simp_all; omega)))
  · -- parseObjectLiteral
    intro oL ih_oL  st r h
    replace ih_oL := curry2 ih_oL
    dsimp only at ih_oL ⊢
    obtain ⟨x, st'⟩ := r
    have hparams := ren_parseFunctionParameters ρ
    pdecompW h [ih_oL, hparams]
    all_goals (rw [parseObjectLiteral]; simp_all [psR_next, psR_expectToken, psR_expectSemi, psR_addError, psR_push, psR_pop, movable, exprR, stmtR, exprListR, stmtListR, propListR, exprListR_snoc, stmtListR_snoc, propListR_snoc, exprR_isNone, stmtR_isNone, identR, tokR_type, tokR_lit, psR_setTrace, psR_setBoth, psR_setPrec, ρ.prefixFns, ρ.infixFns, ρ.eq_const, et_ident, et_lparen, et_rparen, et_lbrace, et_rbrace, et_colon, et_semicolon, et_rbracket, eqb_true, eqb_plusAssign, eqb_minusAssign, eqc_semicolon, eqc_eof, eqc_rbrace, eqc_rparen, eqc_lparen, eqc_lbracket, eqc_comma, eqc_colon, eqc_assign, eqc_else_, eqc_ident, eqc_let_, eqc_function, eqc_return_, eqc_if_, eqc_while_, eqc_for_, eqc_lbrace, eqc_rbracket, eqc_plusAssign, eqc_minusAssign, eqc_increment, eqc_decrement, eqc_true_])
    all_goals (try (split <;> simp_all [psR_next, psR_expectToken, psR_expectSemi, psR_addError, psR_push, psR_pop, movable, exprR, stmtR, exprListR, stmtListR, propListR, exprListR_snoc, stmtListR_snoc, propListR_snoc, exprR_isNone, stmtR_isNone, identR, tokR_type, tokR_lit, psR_setTrace, psR_setBoth, psR_setPrec, ρ.prefixFns, ρ.infixFns, ρ.eq_const, et_ident, et_lparen, et_rparen, et_lbrace, et_rbrace, et_colon, et_semicolon, et_rbracket, eqb_true, eqb_plusAssign, eqb_minusAssign, eqc_semicolon, eqc_eof, eqc_rbrace, eqc_rparen, eqc_lparen, eqc_lbracket, eqc_comma, eqc_colon, eqc_assign, eqc_else_, eqc_ident, eqc_let_, eqc_function, eqc_return_, eqc_if_, eqc_while_, eqc_for_, eqc_lbrace, eqc_rbracket, eqc_plusAssign, eqc_minusAssign, eqc_increment, eqc_decrement, eqc_true_]))
    all_goals (try (split <;> simp_all [psR_next, psR_expectToken, psR_expectSemi, psR_addError, psR_push, psR_pop, movable, exprR, stmtR, exprListR, stmtListR, propListR, exprListR_snoc, stmtListR_snoc, propListR_snoc, exprR_isNone, stmtR_isNone, identR, tokR_type, tokR_lit, psR_setTrace, psR_setBoth, psR_setPrec, ρ.prefixFns, ρ.infixFns, ρ.eq_const, et_ident, et_lparen, et_rparen, et_lbrace, et_rbrace, et_colon, et_semicolon, et_rbracket, eqb_true, eqb_plusAssign, eqb_minusAssign, eqc_semicolon, eqc_eof, eqc_rbrace, eqc_rparen, eqc_lparen, eqc_lbracket, eqc_comma, eqc_colon, eqc_assign, eqc_else_, eqc_ident, eqc_let_, eqc_function, eqc_return_, eqc_if_, eqc_while_, eqc_for_, eqc_lbrace, eqc_rbracket, eqc_plusAssign, eqc_minusAssign, eqc_increment, eqc_decrement, eqc_true_]))
    all_goals (try (intros; first | omega | (exfalso; simp_all; done) | (simp_all; omega)))
  · -- objectLoop
    intro pE oL ih_pE ih_oL acc st r h
    replace ih_pE := curry3 ih_pE; replace ih_oL := curry2 ih_oL
    dsimp only at ih_pE ih_oL ⊢
    obtain ⟨x, st'⟩ := r
    have hparams := ren_parseFunctionParameters ρ
    pdecompW h [ih_pE, ih_oL, hparams]
    all_goals (rw [objectLoop]; simp_all [psR_next, psR_expectToken, psR_expectSemi, psR_addError, psR_push, psR_pop, movable, exprR, stmtR, exprListR, stmtListR, propListR, exprListR_snoc, stmtListR_snoc, propListR_snoc, exprR_isNone, stmtR_isNone, identR, tokR_type, tokR_lit, psR_setTrace, psR_setBoth, psR_setPrec, ρ.prefixFns, ρ.infixFns, ρ.eq_const, et_ident, et_lparen, et_rparen, et_lbrace, et_rbrace, et_colon, et_semicolon, et_rbracket, eqb_true, eqb_plusAssign, eqb_minusAssign, eqc_semicolon, eqc_eof, eqc_rbrace, eqc_rparen, eqc_lparen, eqc_lbracket, eqc_comma, eqc_colon, eqc_assign, eqc_else_, eqc_ident, eqc_let_, eqc_function, eqc_return_, eqc_if_, eqc_while_, eqc_for_, eqc_lbrace, eqc_rbracket, eqc_plusAssign, eqc_minusAssign, eqc_increment, eqc_decrement, eqc_true_])
    all_goals (try (split <;> simp_all [psR_next, psR_expectToken, psR_expectSemi, psR_addError, psR_push, psR_pop, movable, exprR, stmtR, exprListR, stmtListR, propListR, exprListR_snoc, stmtListR_snoc, propListR_snoc, exprR_isNone, stmtR_isNone, identR, tokR_type, tokR_lit, psR_setTrace, psR_setBoth, psR_setPrec, ρ.prefixFns, ρ.infixFns, ρ.eq_const, et_ident, et_lparen, et_rparen, et_lbrace, et_rbrace, et_colon, et_semicolon, et_rbracket, eqb_true, eqb_plusAssign, eqb_minusAssign, eqc_semicolon, eqc_eof, eqc_rbrace, eqc_rparen, eqc_lparen, eqc_lbracket, eqc_comma, eqc_colon, eqc_assign, eqc_else_, eqc_ident, eqc_let_, eqc_function, eqc_return_, eqc_if_, eqc_while_, eqc_for_, eqc_lbrace, eqc_rbracket, eqc_plusAssign, eqc_minusAssign, eqc_increment, eqc_decrement, eqc_true_]))
    all_goals (try (split <;> simp_all [psR_next, psR_expectToken, psR_expectSemi, psR_addError, psR_push, psR_pop, movable, exprR, stmtR, exprListR, stmtListR, propListR, exprListR_snoc, stmtListR_snoc, propListR_snoc, exprR_isNone, stmtR_isNone, identR, tokR_type, tokR_lit, psR_setTrace, psR_setBoth, psR_setPrec, ρ.prefixFns, ρ.infixFns, ρ.eq_const, et_ident, et_lparen, et_rparen, et_lbrace, et_rbrace, et_colon, et_semicolon, et_rbracket, eqb_true, eqb_plusAssign, eqb_minusAssign, eqc_semicolon, eqc_eof, eqc_rbrace, eqc_rparen, eqc_lparen, eqc_lbracket, eqc_comma, eqc_colon, eqc_assign, eqc_else_, eqc_ident, eqc_let_, eqc_function, eqc_return_, eqc_if_, eqc_while_, eqc_for_, eqc_lbrace, eqc_rbracket, eqc_plusAssign, eqc_minusAssign, eqc_increment, eqc_decrement, eqc_true_]))
    all_goals (try (intros; first | omega | (exfalso; simp_all; done) | (simp_all; omega)))
  · -- parseForStatement
    intro pS pE pFI ih_pS ih_pE ih_pFI  st r h
    replace ih_pS := curry2 ih_pS; replace ih_pE := curry3 ih_pE; replace ih_pFI := curry1 ih_pFI
    dsimp only at ih_pS ih_pE ih_pFI ⊢
    obtain ⟨x, st'⟩ := r
    have hparams := ren_parseFunctionParameters ρ
    pdecompW h [ih_pS, ih_pE, ih_pFI, hparams]
    all_goals (rw [parseForStatement]; simp_all [psR_next, psR_expectToken, psR_expectSemi, psR_addError, psR_push, psR_pop, movable, exprR, stmtR, exprListR, stmtListR, propListR, exprListR_snoc, stmtListR_snoc, propListR_snoc, exprR_isNone, stmtR_isNone, identR, tokR_type, tokR_lit, psR_setTrace, psR_setBoth, psR_setPrec, ρ.prefixFns, ρ.infixFns, ρ.eq_const, et_ident, et_lparen, et_rparen, et_lbrace, et_rbrace, et_colon, et_semicolon, et_rbracket, eqb_true, eqb_plusAssign, eqb_minusAssign, eqc_semicolon, eqc_eof, eqc_rbrace, eqc_rparen, eqc_lparen, eqc_lbracket, eqc_comma, eqc_colon, eqc_assign, eqc_else_, eqc_ident, eqc_let_, eqc_function, eqc_return_, eqc_if_, eqc_while_, eqc_for_, eqc_lbrace, eqc_rbracket, eqc_plusAssign, eqc_minusAssign, eqc_increment, eqc_decrement, eqc_true_])
    all_goals (try (split <;> simp_all [psR_next, psR_expectToken, psR_expectSemi, psR_addError, psR_push, psR_pop, movable, exprR, stmtR, exprListR, stmtListR, propListR, exprListR_snoc, stmtListR_snoc, propListR_snoc, exprR_isNone, stmtR_isNone, identR, tokR_type, tokR_lit, psR_setTrace, psR_setBoth, psR_setPrec, ρ.prefixFns, ρ.infixFns, ρ.eq_const, et_ident, et_lparen, et_rparen, et_lbrace, et_rbrace, et_colon, et_semicolon, et_rbracket, eqb_true, eqb_plusAssign, eqb_minusAssign, eqc_semicolon, eqc_eof, eqc_rbrace, eqc_rparen, eqc_lparen, eqc_lbracket, eqc_comma, eqc_colon, eqc_assign, eqc_else_, eqc_ident, eqc_let_, eqc_function, eqc_return_, eqc_if_, eqc_while_, eqc_for_, eqc_lbrace, eqc_rbracket, eqc_plusAssign, eqc_minusAssign, eqc_increment, eqc_decrement, eqc_true_]))
    all_goals (try (split <;> simp_all [psR_next, psR_expectToken, psR_expectSemi, psR_addError, psR_push, psR_pop, movable, exprR, stmtR, exprListR, stmtListR, propListR, exprListR_snoc, stmtListR_snoc, propListR_snoc, exprR_isNone, stmtR_isNone, identR, tokR_type, tokR_lit, psR_setTrace, psR_setBoth, psR_setPrec, ρ.prefixFns, ρ.infixFns, ρ.eq_const, et_ident, et_lparen, et_rparen, et_lbrace, et_rbrace, et_colon, et_semicolon, et_rbracket, eqb_true, eqb_plusAssign, eqb_minusAssign, eqc_semicolon, eqc_eof, eqc_rbrace, eqc_rparen, eqc_lparen, eqc_lbracket, eqc_comma, eqc_colon, eqc_assign, eqc_else_, eqc_ident, eqc_let_, eqc_function, eqc_return_, eqc_if_, eqc_while_, eqc_for_, eqc_lbrace, eqc_rbracket, eqc_plusAssign, eqc_minusAssign, eqc_increment, eqc_decrement, eqc_true_]))
    all_goals (try (intros; first | omega | (exfalso; simp_all; done) | (simp_all; omega)))
  · -- parseForInit
    intro pE pLE ih_pE ih_pLE  st r h
    replace ih_pE := curry3 ih_pE; replace ih_pLE := curry1 ih_pLE
    dsimp only at ih_pE ih_pLE ⊢
    obtain ⟨x, st'⟩ := r
    have hparams := ren_parseFunctionParameters ρ
    pdecompW h [ih_pE, ih_pLE, hparams]
    all_goals (rw [parseForInit]; simp_all [psR_next, psR_expectToken, psR_expectSemi, psR_addError, psR_push, psR_pop, movable, exprR, stmtR, exprListR, stmtListR, propListR, exprListR_snoc, stmtListR_snoc, propListR_snoc, exprR_isNone, stmtR_isNone, identR, tokR_type, tokR_lit, psR_setTrace, psR_setBoth, psR_setPrec, ρ.prefixFns, ρ.infixFns, ρ.eq_const, et_ident, et_lparen, et_rparen, et_lbrace, et_rbrace, et_colon, et_semicolon, et_rbracket, eqb_true, eqb_plusAssign, eqb_minusAssign, eqc_semicolon, eqc_eof, eqc_rbrace, eqc_rparen, eqc_lparen, eqc_lbracket, eqc_comma, eqc_colon, eqc_assign, eqc_else_, eqc_ident, eqc_let_, eqc_function, eqc_return_, eqc_if_, eqc_while_, eqc_for_, eqc_lbrace, eqc_rbracket, eqc_plusAssign, eqc_minusAssign, eqc_increment, eqc_decrement, eqc_true_])
    all_goals (try (split <;> simp_all [psR_next, psR_expectToken, psR_expectSemi, psR_addError, psR_push, psR_pop, movable, exprR, stmtR, exprListR, stmtListR, propListR, exprListR_snoc, stmtListR_snoc, propListR_snoc, exprR_isNone, stmtR_isNone, identR, tokR_type, tokR_lit, psR_setTrace, psR_setBoth, psR_setPrec, ρ.prefixFns, ρ.infixFns, ρ.eq_const, et_ident, et_lparen, et_rparen, et_lbrace, et_rbrace, et_colon, et_semicolon, et_rbracket, eqb_true, eqb_plusAssign, eqb_minusAssign, eqc_semicolon, eqc_eof, eqc_rbrace, eqc_rparen, eqc_lparen, eqc_lbracket, eqc_comma, eqc_colon, eqc_assign, eqc_else_, eqc_ident, eqc_let_, eqc_function, eqc_return_, eqc_if_, eqc_while_, eqc_for_, eqc_lbrace, eqc_rbracket, eqc_plusAssign, eqc_minusAssign, eqc_increment, eqc_decrement, eqc_true_]))
    all_goals (try (split <;> simp_all [psR_next, psR_expectToken, psR_expectSemi, psR_addError, psR_push, psR_pop, movable, exprR, stmtR, exprListR, stmtListR, propListR, exprListR_snoc, stmtListR_snoc, propListR_snoc, exprR_isNone, stmtR_isNone, identR, tokR_type, tokR_lit, psR_setTrace, psR_setBoth, psR_setPrec, ρ.prefixFns, ρ.infixFns, ρ.eq_const, et_ident, et_lparen, et_rparen, et_lbrace, et_rbrace, et_colon, et_semicolon, et_rbracket, eqb_true, eqb_plusAssign, eqb_minusAssign, eqc_semicolon, eqc_eof, eqc_rbrace, eqc_rparen, eqc_lparen, eqc_lbracket, eqc_comma, eqc_colon, eqc_assign, eqc_else_, eqc_ident, eqc_let_, eqc_function, eqc_return_, eqc_if_, eqc_while_, eqc_for_, eqc_lbrace, eqc_rbracket, eqc_plusAssign, eqc_minusAssign, eqc_increment, eqc_decrement, eqc_true_]))
    all_goals (try (intros; first | omega | (exfalso; simp_all; done) | (simp_all; omega)))
  · -- parseLetExpression
    intro pE ih_pE  st r h
    replace ih_pE := curry3 ih_pE
    dsimp only at ih_pE ⊢
    obtain ⟨x, st'⟩ := r
    have hparams := ren_parseFunctionParameters ρ
    pdecompW h [ih_pE, hparams]
    all_goals (rw [parseLetExpression]; simp_all [psR_next, psR_expectToken, psR_expectSemi, psR_addError, psR_push, psR_pop, movable, exprR, stmtR, exprListR, stmtListR, propListR, exprListR_snoc, stmtListR_snoc, propListR_snoc, exprR_isNone, stmtR_isNone, identR, tokR_type, tokR_lit, psR_setTrace, psR_setBoth, psR_setPrec, ρ.prefixFns, ρ.infixFns, ρ.eq_const, et_ident, et_lparen, et_rparen, et_lbrace, et_rbrace, et_colon, et_semicolon, et_rbracket, eqb_true, eqb_plusAssign, eqb_minusAssign, eqc_semicolon, eqc_eof, eqc_rbrace, eqc_rparen, eqc_lparen, eqc_lbracket, eqc_comma, eqc_colon, eqc_assign, eqc_else_, eqc_ident, eqc_let_, eqc_function, eqc_return_, eqc_if_, eqc_while_, eqc_for_, eqc_lbrace, eqc_rbracket, eqc_plusAssign, eqc_minusAssign, eqc_increment, eqc_decrement, eqc_true_])
    all_goals (try (split <;> simp_all [psR_next, psR_expectToken, psR_expectSemi, psR_addError, psR_push, psR_pop, movable, exprR, stmtR, exprListR, stmtListR, propListR, exprListR_snoc, stmtListR_snoc, propListR_snoc, exprR_isNone, stmtR_isNone, identR, tokR_type, tokR_lit, psR_setTrace, psR_setBoth, psR_setPrec, ρ.prefixFns, ρ.infixFns, ρ.eq_const, et_ident, et_lparen, et_rparen, et_lbrace, et_rbrace, et_colon, et_semicolon, et_rbracket, eqb_true, eqb_plusAssign, eqb_minusAssign, eqc_semicolon, eqc_eof, eqc_rbrace, eqc_rparen, eqc_lparen, eqc_lbracket, eqc_comma, eqc_colon, eqc_assign, eqc_else_, eqc_ident, eqc_let_, eqc_function, eqc_return_, eqc_if_, eqc_while_, eqc_for_, eqc_lbrace, eqc_rbracket, eqc_plusAssign, eqc_minusAssign, eqc_increment, eqc_decrement, eqc_true_]))
    all_goals (try (split <;> simp_all [psR_next, psR_expectToken, psR_expectSemi, psR_addError, psR_push, psR_pop, movable, exprR, stmtR, exprListR, stmtListR, propListR, exprListR_snoc, stmtListR_snoc, propListR_snoc, exprR_isNone, stmtR_isNone, identR, tokR_type, tokR_lit, psR_setTrace, psR_setBoth, psR_setPrec, ρ.prefixFns, ρ.infixFns, ρ.eq_const, et_ident, et_lparen, et_rparen, et_lbrace, et_rbrace, et_colon, et_semicolon, et_rbracket, eqb_true, eqb_plusAssign, eqb_minusAssign, eqc_semicolon, eqc_eof, eqc_rbrace, eqc_rparen, eqc_lparen, eqc_lbracket, eqc_comma, eqc_colon, eqc_assign, eqc_else_, eqc_ident, eqc_let_, eqc_function, eqc_return_, eqc_if_, eqc_while_, eqc_for_, eqc_lbrace, eqc_rbracket, eqc_plusAssign, eqc_minusAssign, eqc_increment, eqc_decrement, eqc_true_]))
    all_goals (try (intros; first | omega | (exfalso; simp_all; done) | (simp_all; omega)))
  · -- parseWhileStatement
    intro pS pE ih_pS ih_pE  st r h
    replace ih_pS := curry2 ih_pS; replace ih_pE := curry3 ih_pE
    dsimp only at ih_pS ih_pE ⊢
    obtain ⟨x, st'⟩ := r
    have hparams := ren_parseFunctionParameters ρ
    pdecompW h [ih_pS, ih_pE, hparams]
    all_goals (rw [parseWhileStatement]; simp_all [psR_next, psR_expectToken, psR_expectSemi, psR_addError, psR_push, psR_pop, movable, exprR, stmtR, exprListR, stmtListR, propListR, exprListR_snoc, stmtListR_snoc, propListR_snoc, exprR_isNone, stmtR_isNone, identR, tokR_type, tokR_lit, psR_setTrace, psR_setBoth, psR_setPrec, ρ.prefixFns, ρ.infixFns, ρ.eq_const, et_ident, et_lparen, et_rparen, et_lbrace, et_rbrace, et_colon, et_semicolon, et_rbracket, eqb_true, eqb_plusAssign, eqb_minusAssign, eqc_semicolon, eqc_eof, eqc_rbrace, eqc_rparen, eqc_lparen, eqc_lbracket, eqc_comma, eqc_colon, eqc_assign, eqc_else_, eqc_ident, eqc_let_, eqc_function, eqc_return_, eqc_if_, eqc_while_, eqc_for_, eqc_lbrace, eqc_rbracket, eqc_plusAssign, eqc_minusAssign, eqc_increment, eqc_decrement, eqc_true_])
    all_goals (try (split <;> simp_all [psR_next, psR_expectToken, psR_expectSemi, psR_addError, psR_push, psR_pop, movable, exprR, stmtR, exprListR, stmtListR, propListR, exprListR_snoc, stmtListR_snoc, propListR_snoc, exprR_isNone, stmtR_isNone, identR, tokR_type, tokR_lit, psR_setTrace, psR_setBoth, psR_setPrec, ρ.prefixFns, ρ.infixFns, ρ.eq_const, et_ident, et_lparen, et_rparen, et_lbrace, et_rbrace, et_colon, et_semicolon, et_rbracket, eqb_true, eqb_plusAssign, eqb_minusAssign, eqc_semicolon, eqc_eof, eqc_rbrace, eqc_rparen, eqc_lparen, eqc_lbracket, eqc_comma, eqc_colon, eqc_assign, eqc_else_, eqc_ident, eqc_let_, eqc_function, eqc_return_, eqc_if_, eqc_while_, eqc_for_, eqc_lbrace, eqc_rbracket, eqc_plusAssign, eqc_minusAssign, eqc_increment, eqc_decrement, eqc_true_]))
    all_goals (try (split <;> simp_all [psR_next, psR_expectToken, psR_expectSemi, psR_addError, psR_push, psR_pop, movable, exprR, stmtR, exprListR, stmtListR, propListR, exprListR_snoc, stmtListR_snoc, propListR_snoc, exprR_isNone, stmtR_isNone, identR, tokR_type, tokR_lit, psR_setTrace, psR_setBoth, psR_setPrec, ρ.prefixFns, ρ.infixFns, ρ.eq_const, et_ident, et_lparen, et_rparen, et_lbrace, et_rbrace, et_colon, et_semicolon, et_rbracket, eqb_true, eqb_plusAssign, eqb_minusAssign, eqc_semicolon, eqc_eof, eqc_rbrace, eqc_rparen, eqc_lparen, eqc_lbracket, eqc_comma, eqc_colon, eqc_assign, eqc_else_, eqc_ident, eqc_let_, eqc_function, eqc_return_, eqc_if_, eqc_while_, eqc_for_, eqc_lbrace, eqc_rbracket, eqc_plusAssign, eqc_minusAssign, eqc_increment, eqc_decrement, eqc_true_]))
    all_goals (try (intros; first | omega | (exfalso; simp_all; done) | (simp_all; omega)))
  · -- parseIfStatement
    intro pS pE ih_pS ih_pE  st r h
    replace ih_pS := curry2 ih_pS; replace ih_pE := curry3 ih_pE
    dsimp only at ih_pS ih_pE ⊢
    obtain ⟨x, st'⟩ := r
    have hparams := ren_parseFunctionParameters ρ
    pdecompW h [ih_pS, ih_pE, hparams]
    all_goals (rw [parseIfStatement]; simp_all [psR_next, psR_expectToken, psR_expectSemi, psR_addError, psR_push, psR_pop, movable, exprR, stmtR, exprListR, stmtListR, propListR, exprListR_snoc, stmtListR_snoc, propListR_snoc, exprR_isNone, stmtR_isNone, identR, tokR_type, tokR_lit, psR_setTrace, psR_setBoth, psR_setPrec, ρ.prefixFns, ρ.infixFns, ρ.eq_const, et_ident, et_lparen, et_rparen, et_lbrace, et_rbrace, et_colon, et_semicolon, et_rbracket, eqb_true, eqb_plusAssign, eqb_minusAssign, eqc_semicolon, eqc_eof, eqc_rbrace, eqc_rparen, eqc_lparen, eqc_lbracket, eqc_comma, eqc_colon, eqc_assign, eqc_else_, eqc_ident, eqc_let_, eqc_function, eqc_return_, eqc_if_, eqc_while_, eqc_for_, eqc_lbrace, eqc_rbracket, eqc_plusAssign, eqc_minusAssign, eqc_increment, eqc_decrement, eqc_true_])
    all_goals (try (split <;> simp_all [psR_next, psR_expectToken, psR_expectSemi, psR_addError, psR_push, psR_pop, movable, exprR, stmtR, exprListR, stmtListR, propListR, exprListR_snoc, stmtListR_snoc, propListR_snoc, exprR_isNone, stmtR_isNone, identR, tokR_type, tokR_lit, psR_setTrace, psR_setBoth, psR_setPrec, ρ.prefixFns, ρ.infixFns, ρ.eq_const, et_ident, et_lparen, et_rparen, et_lbrace, et_rbrace, et_colon, et_semicolon, et_rbracket, eqb_true, eqb_plusAssign, eqb_minusAssign, eqc_semicolon, eqc_eof, eqc_rbrace, eqc_rparen, eqc_lparen, eqc_lbracket, eqc_comma, eqc_colon, eqc_assign, eqc_else_, eqc_ident, eqc_let_, eqc_function, eqc_return_, eqc_if_, eqc_while_, eqc_for_, eqc_lbrace, eqc_rbracket, eqc_plusAssign, eqc_minusAssign, eqc_increment, eqc_decrement, eqc_true_]))
    all_goals (try (split <;> simp_all [psR_next, psR_expectToken, psR_expectSemi, psR_addError, psR_push, psR_pop, movable, exprR, stmtR, exprListR, stmtListR, propListR, exprListR_snoc, stmtListR_snoc, propListR_snoc, exprR_isNone, stmtR_isNone, identR, tokR_type, tokR_lit, psR_setTrace, psR_setBoth, psR_setPrec, ρ.prefixFns, ρ.infixFns, ρ.eq_const, et_ident, et_lparen, et_rparen, et_lbrace, et_rbrace, et_colon, et_semicolon, et_rbracket, eqb_true, eqb_plusAssign, eqb_minusAssign, eqc_semicolon, eqc_eof, eqc_rbrace, eqc_rparen, eqc_lparen, eqc_lbracket, eqc_comma, eqc_colon, eqc_assign, eqc_else_, eqc_ident, eqc_let_, eqc_function, eqc_return_, eqc_if_, eqc_while_, eqc_for_, eqc_lbrace, eqc_rbracket, eqc_plusAssign, eqc_minusAssign, eqc_increment, eqc_decrement, eqc_true_]))
    all_goals (try (intros; first | omega | (exfalso; simp_all; done) | (simp_all; omega)))
  · -- parseReturnStatement
    intro pE ih_pE  st r h
    replace ih_pE := curry3 ih_pE
    dsimp only at ih_pE ⊢
    obtain ⟨x, st'⟩ := r
    have hparams := ren_parseFunctionParameters ρ
    pdecompW h [ih_pE, hparams]
    all_goals (rw [parseReturnStatement]; simp_all [psR_next, psR_expectToken, psR_expectSemi, psR_addError, psR_push, psR_pop, movable, exprR, stmtR, exprListR, stmtListR, propListR, exprListR_snoc, stmtListR_snoc, propListR_snoc, exprR_isNone, stmtR_isNone, identR, tokR_type, tokR_lit, psR_setTrace, psR_setBoth, psR_setPrec, ρ.prefixFns, ρ.infixFns, ρ.eq_const, et_ident, et_lparen, et_rparen, et_lbrace, et_rbrace, et_colon, et_semicolon, et_rbracket, eqb_true, eqb_plusAssign, eqb_minusAssign, eqc_semicolon, eqc_eof, eqc_rbrace, eqc_rparen, eqc_lparen, eqc_lbracket, eqc_comma, eqc_colon, eqc_assign, eqc_else_, eqc_ident, eqc_let_, eqc_function, eqc_return_, eqc_if_, eqc_while_, eqc_for_, eqc_lbrace, eqc_rbracket, eqc_plusAssign, eqc_minusAssign, eqc_increment, eqc_decrement, eqc_true_])
    all_goals (try (split <;> simp_all [psR_next, psR_expectToken, psR_expectSemi, psR_addError, psR_push, psR_pop, movable, exprR, stmtR, exprListR, stmtListR, propListR, exprListR_snoc, stmtListR_snoc, propListR_snoc, exprR_isNone, stmtR_isNone, identR, tokR_type, tokR_lit, psR_setTrace, psR_setBoth, psR_setPrec, ρ.prefixFns, ρ.infixFns, ρ.eq_const, et_ident, et_lparen, et_rparen, et_lbrace, et_rbrace, et_colon, et_semicolon, et_rbracket, eqb_true, eqb_plusAssign, eqb_minusAssign, eqc_semicolon, eqc_eof, eqc_rbrace, eqc_rparen, eqc_lparen, eqc_lbracket, eqc_comma, eqc_colon, eqc_assign, eqc_else_, eqc_ident, eqc_let_, eqc_function, eqc_return_, eqc_if_, eqc_while_, eqc_for_, eqc_lbrace, eqc_rbracket, eqc_plusAssign, eqc_minusAssign, eqc_increment, eqc_decrement, eqc_true_]))
    all_goals (try (split <;> simp_all [psR_next, psR_expectToken, psR_expectSemi, psR_addError, psR_push, psR_pop, movable, exprR, stmtR, exprListR, stmtListR, propListR, exprListR_snoc, stmtListR_snoc, propListR_snoc, exprR_isNone, stmtR_isNone, identR, tokR_type, tokR_lit, psR_setTrace, psR_setBoth, psR_setPrec, ρ.prefixFns, ρ.infixFns, ρ.eq_const, et_ident, et_lparen, et_rparen, et_lbrace, et_rbrace, et_colon, et_semicolon, et_rbracket, eqb_true, eqb_plusAssign, eqb_minusAssign, eqc_semicolon, eqc_eof, eqc_rbrace, eqc_rparen, eqc_lparen, eqc_lbracket, eqc_comma, eqc_colon, eqc_assign, eqc_else_, eqc_ident, eqc_let_, eqc_function, eqc_return_, eqc_if_, eqc_while_, eqc_for_, eqc_lbrace, eqc_rbracket, eqc_plusAssign, eqc_minusAssign, eqc_increment, eqc_decrement, eqc_true_]))
    all_goals (try (intros; first | omega | (exfalso; simp_all; done) | (simp_all; omega)))
  · -- parseFunctionStatement
    intro pB ih_pB  st r h
    replace ih_pB := curry1 ih_pB
    dsimp only at ih_pB ⊢
    obtain ⟨x, st'⟩ := r
    have hparams := ren_parseFunctionParameters ρ
    pdecompW h [ih_pB, hparams]
    all_goals (rw [parseFunctionStatement]; simp_all [psR_next, psR_expectToken, psR_expectSemi, psR_addError, psR_push, psR_pop, movable, exprR, stmtR, exprListR, stmtListR, propListR, exprListR_snoc, stmtListR_snoc, propListR_snoc, exprR_isNone, stmtR_isNone, identR, tokR_type, tokR_lit, psR_setTrace, psR_setBoth, psR_setPrec, ρ.prefixFns, ρ.infixFns, ρ.eq_const, et_ident, et_lparen, et_rparen, et_lbrace, et_rbrace, et_colon, et_semicolon, et_rbracket, eqb_true, eqb_plusAssign, eqb_minusAssign, eqc_semicolon, eqc_eof, eqc_rbrace, eqc_rparen, eqc_lparen, eqc_lbracket, eqc_comma, eqc_colon, eqc_assign, eqc_else_, eqc_ident, eqc_let_, eqc_function, eqc_return_, eqc_if_, eqc_while_, eqc_for_, eqc_lbrace, eqc_rbracket, eqc_plusAssign, eqc_minusAssign, eqc_increment, eqc_decrement, eqc_true_])
    all_goals (try (split <;> simp_all [psR_next, psR_expectToken, psR_expectSemi, psR_addError, psR_push, psR_pop, movable, exprR, stmtR, exprListR, stmtListR, propListR, exprListR_snoc, stmtListR_snoc, propListR_snoc, exprR_isNone, stmtR_isNone, identR, tokR_type, tokR_lit, psR_setTrace, psR_setBoth, psR_setPrec, ρ.prefixFns, ρ.infixFns, ρ.eq_const, et_ident, et_lparen, et_rparen, et_lbrace, et_rbrace, et_colon, et_semicolon, et_rbracket, eqb_true, eqb_plusAssign, eqb_minusAssign, eqc_semicolon, eqc_eof, eqc_rbrace, eqc_rparen, eqc_lparen, eqc_lbracket, eqc_comma, eqc_colon, eqc_assign, eqc_else_, eqc_ident, eqc_let_, eqc_function, eqc_return_, eqc_if_, eqc_while_, eqc_for_, eqc_lbrace, eqc_rbracket, eqc_plusAssign, eqc_minusAssign, eqc_increment, eqc_decrement, eqc_true_]))
    all_goals (try (split <;> simp_all [psR_next, psR_expectToken, psR_expectSemi, psR_addError, psR_push, psR_pop, movable, exprR, stmtR, exprListR, stmtListR, propListR, exprListR_snoc, stmtListR_snoc, propListR_snoc, exprR_isNone, stmtR_isNone, identR, tokR_type, tokR_lit, psR_setTrace, psR_setBoth, psR_setPrec, ρ.prefixFns, ρ.infixFns, ρ.eq_const, et_ident, et_lparen, et_rparen, et_lbrace, et_rbrace, et_colon, et_semicolon, et_rbracket, eqb_true, eqb_plusAssign, eqb_minusAssign, eqc_semicolon, eqc_eof, eqc_rbrace, eqc_rparen, eqc_lparen, eqc_lbracket, eqc_comma, eqc_colon, eqc_assign, eqc_else_, eqc_ident, eqc_let_, eqc_function, eqc_return_, eqc_if_, eqc_while_, eqc_for_, eqc_lbrace, eqc_rbracket, eqc_plusAssign, eqc_minusAssign, eqc_increment, eqc_decrement, eqc_true_]))
    all_goals (try (intros; first | omega | (exfalso; simp_all; done) | (simp_all; omega)))
  · -- parseLetStatement
    intro pE ih_pE  st r h
    replace ih_pE := curry3 ih_pE
    dsimp only at ih_pE ⊢
    obtain ⟨x, st'⟩ := r
    have hparams := ren_parseFunctionParameters ρ
    pdecompW h [ih_pE, hparams]
    all_goals (rw [parseLetStatement]; simp_all [psR_next, psR_expectToken, psR_expectSemi, psR_addError, psR_push, psR_pop, movable, exprR, stmtR, exprListR, stmtListR, propListR, exprListR_snoc, stmtListR_snoc, propListR_snoc, exprR_isNone, stmtR_isNone, identR, tokR_type, tokR_lit, psR_setTrace, psR_setBoth, psR_setPrec, ρ.prefixFns, ρ.infixFns, ρ.eq_const, et_ident, et_lparen, et_rparen, et_lbrace, et_rbrace, et_colon, et_semicolon, et_rbracket, eqb_true, eqb_plusAssign, eqb_minusAssign, eqc_semicolon, eqc_eof, eqc_rbrace, eqc_rparen, eqc_lparen, eqc_lbracket, eqc_comma, eqc_colon, eqc_assign, eqc_else_, eqc_ident, eqc_let_, eqc_function, eqc_return_, eqc_if_, eqc_while_, eqc_for_, eqc_lbrace, eqc_rbracket, eqc_plusAssign, eqc_minusAssign, eqc_increment, eqc_decrement, eqc_true_])
    all_goals (try (split <;> simp_all [psR_next, psR_expectToken, psR_expectSemi, psR_addError, psR_push, psR_pop, movable, exprR, stmtR, exprListR, stmtListR, propListR, exprListR_snoc, stmtListR_snoc, propListR_snoc, exprR_isNone, stmtR_isNone, identR, tokR_type, tokR_lit, psR_setTrace, psR_setBoth, psR_setPrec, ρ.prefixFns, ρ.infixFns, ρ.eq_const, et_ident, et_lparen, et_rparen, et_lbrace, et_rbrace, et_colon, et_semicolon, et_rbracket, eqb_true, eqb_plusAssign, eqb_minusAssign, eqc_semicolon, eqc_eof, eqc_rbrace, eqc_rparen, eqc_lparen, eqc_lbracket, eqc_comma, eqc_colon, eqc_assign, eqc_else_, eqc_ident, eqc_let_, eqc_function, eqc_return_, eqc_if_, eqc_while_, eqc_for_, eqc_lbrace, eqc_rbracket, eqc_plusAssign, eqc_minusAssign, eqc_increment, eqc_decrement, eqc_true_]))
    all_goals (try (split <;> simp_all [psR_next, psR_expectToken, psR_expectSemi, psR_addError, psR_push, psR_pop, movable, exprR, stmtR, exprListR, stmtListR, propListR, exprListR_snoc, stmtListR_snoc, propListR_snoc, exprR_isNone, stmtR_isNone, identR, tokR_type, tokR_lit, psR_setTrace, psR_setBoth, psR_setPrec, ρ.prefixFns, ρ.infixFns, ρ.eq_const, et_ident, et_lparen, et_rparen, et_lbrace, et_rbrace, et_colon, et_semicolon, et_rbracket, eqb_true, eqb_plusAssign, eqb_minusAssign, eqc_semicolon, eqc_eof, eqc_rbrace, eqc_rparen, eqc_lparen, eqc_lbracket, eqc_comma, eqc_colon, eqc_assign, eqc_else_, eqc_ident, eqc_let_, eqc_function, eqc_return_, eqc_if_, eqc_while_, eqc_for_, eqc_lbrace, eqc_rbracket, eqc_plusAssign, eqc_minusAssign, eqc_increment, eqc_decrement, eqc_true_]))
    all_goals (try (intros; first | omega | (exfalso; simp_all; done) | (simp_all; omega)))

end Xjs.Ren
