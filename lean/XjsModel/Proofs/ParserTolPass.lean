import XjsModel.Proofs.ParserTol
/-
  The tolerant-mode pass (C13 a): every strict-mode run either recorded an error or is, step for step, also the
  tolerant-mode run.
-/
namespace Xjs
set_option linter.unusedSimpArgs false

def TolM {α : Type} (f : PS → Option (α × PS)) (st : PS) (r : α × PS) : Prop :=
  st.elen ≤ r.2.elen ∧ (f st = some r ∨ st.elen < r.2.elen)

/-- closes one leaf (all induction-hypothesis disjunctions are already split): a branch with a recorded error
    is closed by arithmetic, the error-free branch by unfolding the tolerant function once and rewriting -/
syntax "tol_close " ident : tactic
macro_rules
  | `(tactic| tol_close $f:ident) => `(tactic| (
      simp only [elen_next, elen_push, elen_pop, elen_addError, elen_addErrorAt, elen_set, elen_setPrec, elen_setTrace,
        elen_expectToken, elen_expectSemi] at *
      first
        | (refine ⟨?_, Or.inr ?_⟩ <;> first | omega | (simp_all [expErr, semiErr] <;> omega))
        | (refine ⟨?_, Or.inl ?_⟩
           · first | omega | (simp_all [expErr, semiErr] <;> omega)
           · rw [$f:ident]; (simp_all [expErr, semiErr, tol_expectSemi_of_ok]) <;> (intros; first | omega | (simp_all <;> omega)))))

set_option maxHeartbeats 3200000 in
theorem tol_mutual (cfg : PCfg) :
    (∀ is st r, parseStatementI cfg.strict is st = some r → TolM (parseStatementI cfg.tol is) st r) ∧
    (∀ st r, baseParseStatement cfg.strict st = some r → TolM (baseParseStatement cfg.tol) st r) ∧
    (∀ st r, parseExpressionStatement cfg.strict st = some r → TolM (parseExpressionStatement cfg.tol) st r) ∧
    (∀ is prec st r, parseExpressionI cfg.strict is prec st = some r → TolM (parseExpressionI cfg.tol is prec) st r) ∧
    (∀ left prec st r, parseRemaining cfg.strict left prec st = some r → TolM (parseRemaining cfg.tol left prec) st r) ∧
    (∀ left st r, parseInfixExpression cfg.strict left st = some r → TolM (parseInfixExpression cfg.tol left) st r) ∧
    (∀ endTy st r, parseExpressionList cfg.strict endTy st = some r → TolM (parseExpressionList cfg.tol endTy) st r) ∧
    (∀ acc st r, exprListLoop cfg.strict acc st = some r → TolM (exprListLoop cfg.tol acc) st r) ∧
    (∀ st r, parsePrefixExpression cfg.strict st = some r → TolM (parsePrefixExpression cfg.tol) st r) ∧
    (∀ st r, parseFunctionExpression cfg.strict st = some r → TolM (parseFunctionExpression cfg.tol) st r) ∧
    (∀ st r, parseBlockStatement cfg.strict st = some r → TolM (parseBlockStatement cfg.tol) st r) ∧
    (∀ acc st r, blockLoop cfg.strict acc st = some r → TolM (blockLoop cfg.tol acc) st r) ∧
    (∀ st r, parseObjectLiteral cfg.strict st = some r → TolM (parseObjectLiteral cfg.tol) st r) ∧
    (∀ acc st r, objectLoop cfg.strict acc st = some r → TolM (objectLoop cfg.tol acc) st r) ∧
    (∀ st r, parseForStatement cfg.strict st = some r → TolM (parseForStatement cfg.tol) st r) ∧
    (∀ st r, parseForInit cfg.strict st = some r → TolM (parseForInit cfg.tol) st r) ∧
    (∀ st r, parseLetExpression cfg.strict st = some r → TolM (parseLetExpression cfg.tol) st r) ∧
    (∀ st r, parseWhileStatement cfg.strict st = some r → TolM (parseWhileStatement cfg.tol) st r) ∧
    (∀ st r, parseIfStatement cfg.strict st = some r → TolM (parseIfStatement cfg.tol) st r) ∧
    (∀ st r, parseReturnStatement cfg.strict st = some r → TolM (parseReturnStatement cfg.tol) st r) ∧
    (∀ st r, parseFunctionStatement cfg.strict st = some r → TolM (parseFunctionStatement cfg.tol) st r) ∧
    (∀ st r, parseLetStatement cfg.strict st = some r → TolM (parseLetStatement cfg.tol) st r) := by
  refine parseStatementI.mutual_partial_correctness cfg.strict
    (fun is st r => TolM (parseStatementI cfg.tol is) st r)
    (fun st r => TolM (baseParseStatement cfg.tol) st r)
    (fun st r => TolM (parseExpressionStatement cfg.tol) st r)
    (fun is prec st r => TolM (parseExpressionI cfg.tol is prec) st r)
    (fun left prec st r => TolM (parseRemaining cfg.tol left prec) st r)
    (fun left st r => TolM (parseInfixExpression cfg.tol left) st r)
    (fun endTy st r => TolM (parseExpressionList cfg.tol endTy) st r)
    (fun acc st r => TolM (exprListLoop cfg.tol acc) st r)
    (fun st r => TolM (parsePrefixExpression cfg.tol) st r)
    (fun st r => TolM (parseFunctionExpression cfg.tol) st r)
    (fun st r => TolM (parseBlockStatement cfg.tol) st r)
    (fun acc st r => TolM (blockLoop cfg.tol acc) st r)
    (fun st r => TolM (parseObjectLiteral cfg.tol) st r)
    (fun acc st r => TolM (objectLoop cfg.tol acc) st r)
    (fun st r => TolM (parseForStatement cfg.tol) st r)
    (fun st r => TolM (parseForInit cfg.tol) st r)
    (fun st r => TolM (parseLetExpression cfg.tol) st r)
    (fun st r => TolM (parseWhileStatement cfg.tol) st r)
    (fun st r => TolM (parseIfStatement cfg.tol) st r)
    (fun st r => TolM (parseReturnStatement cfg.tol) st r)
    (fun st r => TolM (parseFunctionStatement cfg.tol) st r)
    (fun st r => TolM (parseLetStatement cfg.tol) st r)
    ?_ ?_ ?_ ?_ ?_ ?_ ?_ ?_ ?_ ?_ ?_ ?_ ?_ ?_ ?_ ?_ ?_ ?_ ?_ ?_ ?_ ?_
  · -- parseStatementI
    intro pS bS ih_pS ih_bS is st r h
    replace ih_pS := curry2 ih_pS; replace ih_bS := curry1 ih_bS
    dsimp only [TolM] at ih_pS ih_bS ⊢
    obtain ⟨x, st'⟩ := r
    pdecompD h [ih_pS, ih_bS, tol_parseFunctionParameters]
    all_goals clear ih_pS ih_bS
    all_goals tol_close parseStatementI
  · -- baseParseStatement
    intro f1 f2 f3 f4 f5 f6 f7 f8 ih_f1 ih_f2 ih_f3 ih_f4 ih_f5 ih_f6 ih_f7 ih_f8  st r h
    replace ih_f1 := curry1 ih_f1; replace ih_f2 := curry1 ih_f2; replace ih_f3 := curry1 ih_f3; replace ih_f4 := curry1 ih_f4; replace ih_f5 := curry1 ih_f5; replace ih_f6 := curry1 ih_f6; replace ih_f7 := curry1 ih_f7; replace ih_f8 := curry1 ih_f8
    dsimp only [TolM] at ih_f1 ih_f2 ih_f3 ih_f4 ih_f5 ih_f6 ih_f7 ih_f8 ⊢
    obtain ⟨x, st'⟩ := r
    split at h
    all_goals (first | have hh := ih_f1 _ _ _ h | have hh := ih_f2 _ _ _ h | have hh := ih_f3 _ _ _ h | have hh := ih_f4 _ _ _ h
                     | have hh := ih_f5 _ _ _ h | have hh := ih_f6 _ _ _ h | have hh := ih_f7 _ _ _ h | have hh := ih_f8 _ _ _ h)
    all_goals refine ⟨hh.1, ?_⟩
    all_goals (rw [baseParseStatement.eq_def])
    all_goals first
      | (split <;> first | (exfalso; solve_by_elim) | exact hh.2)
      | (simp only [*]; done)
      | (simp only [*]; exact hh.2)
  · -- parseExpressionStatement
    intro pE ih_pE  st r h
    replace ih_pE := curry3 ih_pE
    dsimp only [TolM] at ih_pE ⊢
    obtain ⟨x, st'⟩ := r
    pdecompD h [ih_pE, tol_parseFunctionParameters]
    all_goals clear ih_pE
    all_goals tol_close parseExpressionStatement
  · -- parseExpressionI
    intro pE pR pP ih_pE ih_pR ih_pP is prec st r h
    replace ih_pE := curry3 ih_pE; replace ih_pR := curry3 ih_pR; replace ih_pP := curry1 ih_pP
    dsimp only [TolM] at ih_pE ih_pR ih_pP ⊢
    obtain ⟨x, st'⟩ := r
    pdecompD h [ih_pE, ih_pR, ih_pP, tol_parseFunctionParameters]
    all_goals clear ih_pE ih_pR ih_pP
    all_goals tol_close parseExpressionI
  · -- parseRemaining
    intro pR pI ih_pR ih_pI left prec st r h
    replace ih_pR := curry3 ih_pR; replace ih_pI := curry2 ih_pI
    dsimp only [TolM] at ih_pR ih_pI ⊢
    obtain ⟨x, st'⟩ := r
    pdecompD h [ih_pR, ih_pI, tol_parseFunctionParameters]
    all_goals clear ih_pR ih_pI
    all_goals (simp only [elen_next] at *)
    all_goals first
      | (refine ⟨?_, Or.inr ?_⟩ <;> omega)
      | (refine ⟨?_, Or.inl ?_⟩
         · omega
         · rw [parseRemaining]
           simp only [tol_lt_peekPrec, tol_smart, strict_smart] at *
           simp only [*, ↓reduceIte]
           try simp_all)
  · -- parseInfixExpression
    intro pE pL ih_pE ih_pL left st r h
    replace ih_pE := curry3 ih_pE; replace ih_pL := curry2 ih_pL
    dsimp only [TolM] at ih_pE ih_pL ⊢
    obtain ⟨x, st'⟩ := r
    pdecompD h [ih_pE, ih_pL, tol_parseFunctionParameters]
    all_goals clear ih_pE ih_pL
    all_goals tol_close parseInfixExpression
  · -- parseExpressionList
    intro pE eL ih_pE ih_eL endTy st r h
    replace ih_pE := curry3 ih_pE; replace ih_eL := curry2 ih_eL
    dsimp only [TolM] at ih_pE ih_eL ⊢
    obtain ⟨x, st'⟩ := r
    pdecompD h [ih_pE, ih_eL, tol_parseFunctionParameters]
    all_goals clear ih_pE ih_eL
    all_goals tol_close parseExpressionList
  · -- exprListLoop
    intro pE eL ih_pE ih_eL acc st r h
    replace ih_pE := curry3 ih_pE; replace ih_eL := curry2 ih_eL
    dsimp only [TolM] at ih_pE ih_eL ⊢
    obtain ⟨x, st'⟩ := r
    pdecompD h [ih_pE, ih_eL, tol_parseFunctionParameters]
    all_goals clear ih_pE ih_eL
    all_goals tol_close exprListLoop
  · -- parsePrefixExpression
    intro pE pL pFE pO ih_pE ih_pL ih_pFE ih_pO  st r h
    replace ih_pE := curry3 ih_pE; replace ih_pL := curry2 ih_pL; replace ih_pFE := curry1 ih_pFE; replace ih_pO := curry1 ih_pO
    dsimp only [TolM] at ih_pE ih_pL ih_pFE ih_pO ⊢
    obtain ⟨x, st'⟩ := r
    pdecompD h [ih_pE, ih_pL, ih_pFE, ih_pO, tol_parseFunctionParameters]
    all_goals clear ih_pE ih_pL ih_pFE ih_pO
    all_goals tol_close parsePrefixExpression
  · -- parseFunctionExpression
    intro pB ih_pB  st r h
    replace ih_pB := curry1 ih_pB
    dsimp only [TolM] at ih_pB ⊢
    obtain ⟨x, st'⟩ := r
    pdecompD h [ih_pB, tol_parseFunctionParameters]
    all_goals clear ih_pB
    all_goals tol_close parseFunctionExpression
  · -- parseBlockStatement
    intro bL ih_bL  st r h
    replace ih_bL := curry2 ih_bL
    dsimp only [TolM] at ih_bL ⊢
    obtain ⟨x, st'⟩ := r
    pdecompD h [ih_bL, tol_parseFunctionParameters]
    all_goals clear ih_bL
    all_goals tol_close parseBlockStatement
  · -- blockLoop
    intro pS bL ih_pS ih_bL acc st r h
    replace ih_pS := curry2 ih_pS; replace ih_bL := curry2 ih_bL
    dsimp only [TolM] at ih_pS ih_bL ⊢
    obtain ⟨x, st'⟩ := r
    pdecompD h [ih_pS, ih_bL, tol_parseFunctionParameters]
    all_goals clear ih_pS ih_bL
    all_goals tol_close blockLoop
  · -- parseObjectLiteral
    intro oL ih_oL  st r h
    replace ih_oL := curry2 ih_oL
    dsimp only [TolM] at ih_oL ⊢
    obtain ⟨x, st'⟩ := r
    pdecompD h [ih_oL, tol_parseFunctionParameters]
    all_goals clear ih_oL
    all_goals tol_close parseObjectLiteral
  · -- objectLoop
    intro pE oL ih_pE ih_oL acc st r h
    replace ih_pE := curry3 ih_pE; replace ih_oL := curry2 ih_oL
    dsimp only [TolM] at ih_pE ih_oL ⊢
    obtain ⟨x, st'⟩ := r
    pdecompD h [ih_pE, ih_oL, tol_parseFunctionParameters]
    all_goals clear ih_pE ih_oL
    all_goals tol_close objectLoop
  · -- parseForStatement
    intro pS pE pFI ih_pS ih_pE ih_pFI  st r h
    replace ih_pS := curry2 ih_pS; replace ih_pE := curry3 ih_pE; replace ih_pFI := curry1 ih_pFI
    dsimp only [TolM] at ih_pS ih_pE ih_pFI ⊢
    obtain ⟨x, st'⟩ := r
    pdecompD h [ih_pS, ih_pE, ih_pFI, tol_parseFunctionParameters]
    all_goals clear ih_pS ih_pE ih_pFI
    all_goals tol_close parseForStatement
  · -- parseForInit
    intro pE pLE ih_pE ih_pLE  st r h
    replace ih_pE := curry3 ih_pE; replace ih_pLE := curry1 ih_pLE
    dsimp only [TolM] at ih_pE ih_pLE ⊢
    obtain ⟨x, st'⟩ := r
    pdecompD h [ih_pE, ih_pLE, tol_parseFunctionParameters]
    all_goals clear ih_pE ih_pLE
    all_goals tol_close parseForInit
  · -- parseLetExpression
    intro pE ih_pE  st r h
    replace ih_pE := curry3 ih_pE
    dsimp only [TolM] at ih_pE ⊢
    obtain ⟨x, st'⟩ := r
    pdecompD h [ih_pE, tol_parseFunctionParameters]
    all_goals clear ih_pE
    all_goals tol_close parseLetExpression
  · -- parseWhileStatement
    intro pS pE ih_pS ih_pE  st r h
    replace ih_pS := curry2 ih_pS; replace ih_pE := curry3 ih_pE
    dsimp only [TolM] at ih_pS ih_pE ⊢
    obtain ⟨x, st'⟩ := r
    pdecompD h [ih_pS, ih_pE, tol_parseFunctionParameters]
    all_goals clear ih_pS ih_pE
    all_goals tol_close parseWhileStatement
  · -- parseIfStatement
    intro pS pE ih_pS ih_pE  st r h
    replace ih_pS := curry2 ih_pS; replace ih_pE := curry3 ih_pE
    dsimp only [TolM] at ih_pS ih_pE ⊢
    obtain ⟨x, st'⟩ := r
    pdecompD h [ih_pS, ih_pE, tol_parseFunctionParameters]
    all_goals clear ih_pS ih_pE
    all_goals tol_close parseIfStatement
  · -- parseReturnStatement
    intro pE ih_pE  st r h
    replace ih_pE := curry3 ih_pE
    dsimp only [TolM] at ih_pE ⊢
    obtain ⟨x, st'⟩ := r
    pdecompD h [ih_pE, tol_parseFunctionParameters]
    all_goals clear ih_pE
    all_goals tol_close parseReturnStatement
  · -- parseFunctionStatement
    intro pB ih_pB  st r h
    replace ih_pB := curry1 ih_pB
    dsimp only [TolM] at ih_pB ⊢
    obtain ⟨x, st'⟩ := r
    pdecompD h [ih_pB, tol_parseFunctionParameters]
    all_goals clear ih_pB
    all_goals tol_close parseFunctionStatement
  · -- parseLetStatement
    intro pE ih_pE  st r h
    replace ih_pE := curry3 ih_pE
    dsimp only [TolM] at ih_pE ⊢
    obtain ⟨x, st'⟩ := r
    pdecompD h [ih_pE, tol_parseFunctionParameters]
    all_goals clear ih_pE
    all_goals tol_close parseLetStatement

end Xjs
