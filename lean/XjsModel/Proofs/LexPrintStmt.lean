import XjsModel.Proofs.LexPrintExpr
/-
  Lexing what the printer spells, part 4: expression lists, object properties, parameter lists, calls, array / object /
  function literals and every statement kind — one lemma per printer, with the sub-printers' facts as hypotheses.
-/
namespace Xjs.LP
open Xjs Xjs.RA

/-- a keyword written together with the blank behind it (`"let "`, `"function "`), optionally with one in front (`" else "`) -/
theorem WInv.kwSpace {cw cw' : CW} {ks fc} (h : WInv cw ks fc) (ty : TokType) (hc : canon ty ≠ []) (lead : Bool)
    (hw : ∀ r, fol ty (32 :: r) = true)
    (hf : Fields cw cw' ((if lead then [32] else []) ++ canon ty ++ [32]))
    (hpre : ∀ r, fc ((if lead then [32] else []) ++ canon ty ++ r) = true) : WInv cw' (ks ++ [(ty, canon ty)]) anyFol := by
  refine ⟨hf.1.trans h.compact, hf.2.1, fun r _ => ?_, fun _ _ _ hx => by cases hx⟩
  have hne : ty ≠ .eof := by intro e; subst e; exact hc rfl
  have step : LexTo (canon ty ++ 32 :: r) [(ty, canon ty)] r :=
    (LexTo.tok (fun s hs => fixed_lexes ty hc (32 :: r) (hw r) s hs) hne (LexTo.refl _)).blank
  rw [hf.2.2]
  cases lead
  · have := (h.lex (canon ty ++ 32 :: r) (by simpa using hpre (32 :: r))).append step
    simpa using this
  · have := (h.lex (32 :: (canon ty ++ 32 :: r)) (by simpa using hpre (32 :: r))).append (LexTo.lead step)
    simpa using this

theorem sb_let : strBytes "let " = canon .let_ ++ [32] := by decide +kernel
theorem sb_function : strBytes "function" = canon .function := by decide +kernel
theorem sb_function_sp : strBytes "function " = canon .function ++ [32] := by decide +kernel
theorem sb_return : strBytes "return" = canon .return_ := by decide +kernel
theorem sb_if : strBytes "if" = canon .if_ := by decide +kernel
theorem sb_while : strBytes "while" = canon .while_ := by decide +kernel
theorem sb_for : strBytes "for" = canon .for_ := by decide +kernel
theorem sb_else : strBytes " else " = [32] ++ canon .else_ ++ [32] := by decide +kernel

/-! ## lists -/

def LLexC (l : ExprList) (toks : List Token) : Prop :=
  ∀ {cw : CW} {ks : List Key} {fc : Bytes → Bool}, WInv cw ks fc → EndOK fc →
    ∃ fc', WInv (writeExprList l false cw) (ks ++ toks.map keyOf) fc' ∧ EndOK fc'
def LLex (l : ExprList) (toks : List Token) : Prop :=
  ∀ {cw : CW} {ks : List Key} {fc : Bytes → Bool}, WInv cw ks fc → StartOK fc → CloseOK fc →
    ∃ fc', WInv (writeExprList l true cw) (ks ++ toks.map keyOf) fc' ∧ CloseOK fc'

theorem comma_step {cw : CW} {ks fc} (h : WInv cw ks fc) (he : EndOK fc) :
    WInv (cw.sepIf false) (ks ++ [(.comma, [44])]) (fol .comma) :=
  (h.fixed .comma (by decide) (Fields.rune h.pend 44) (pre_end he 44 [] (by decide) (by decide))).writeSpace

theorem llexC_nil : LLexC .nil [] := fun h he => ⟨_, by simpa [writeExprList] using h, he⟩
theorem llexC_cons (e : Expr) (rest : ExprList) (etoks rtoks : List Token) (hE : ELex e etoks) (hR : LLexC rest rtoks) :
    LLexC (.cons e rest) (commaT :: etoks ++ rtoks) := by
  intro cw ks fc h he
  simp only [writeExprList]
  obtain ⟨fc1, h1, he1⟩ := hE (comma_step h he) (fol_start .comma (by decide) (by decide))
  obtain ⟨fc2, h2, he2⟩ := hR h1 he1
  refine ⟨fc2, ?_, he2⟩
  simpa only [List.map_cons, List.map_append, List.append_assoc, List.cons_append, List.nil_append,
    show keyOf commaT = (.comma, [44]) from rfl] using h2

theorem llex_nil : LLex .nil [] := fun h _ hc => ⟨_, by simpa [writeExprList] using h, hc⟩
theorem llex_cons (e : Expr) (rest : ExprList) (etoks rtoks : List Token) (hE : ELex e etoks) (hR : LLexC rest rtoks) :
    LLex (.cons e rest) (etoks ++ rtoks) := by
  intro cw ks fc h hs _
  simp only [writeExprList, CW.sepIf, if_true]
  obtain ⟨fc1, h1, he1⟩ := hE h hs
  obtain ⟨fc2, h2, he2⟩ := hR h1 he1
  refine ⟨fc2, ?_, he2.close⟩
  simpa only [List.map_append, List.append_assoc] using h2

/-- `f(args)` -/
theorem call_lex (t : Token) (hty : t.type = .lparen) (ht : tokOk t) (F : Expr) (args : ExprList) (ftoks atoks : List Token)
    (hF : ELex F ftoks) (hA : LLex args atoks) : ELex (.call t F args) (ftoks ++ t :: atoks ++ [rpT]) := by
  intro cw ks fc h hs
  have hk : keyOf t = (.lparen, [40]) := keyOf_fixed t ht .lparen hty (by decide)
  simp only [writeExpr]
  obtain ⟨fc1, h1, he1⟩ := hF h hs
  have h2 := ((h1.head t).fixed .lparen (by decide) (Fields.rune (h1.head t).pend 40) (pre_end he1 40 [] (by decide) (by decide))).increaseIndent
  obtain ⟨fc3, h3, hc3⟩ := hA h2 (fol_start .lparen (by decide) (by decide)) (show AllOK (fol .lparen) from fun _ => rfl).close
  have h4 := h3.decreaseIndent.fixed .rparen (by decide) (Fields.rune h3.decreaseIndent.pend 41) (fun r => hc3 41 r (Or.inl rfl))
  refine ⟨_, ?_, (show AllOK (fol .rparen) from fun _ => rfl).endOK⟩
  simpa only [List.map_cons, List.map_append, List.map_nil, List.append_assoc, List.cons_append, List.nil_append, hk, canon,
    show keyOf rpT = (.rparen, [41]) from rfl] using h4

/-- `[elems]` -/
theorem arr_lex (t rb : Token) (hty : t.type = .lbracket) (ht : tokOk t) (es : ExprList) (etoks : List Token)
    (hA : LLex es etoks) : ELex (.array t es rb) (t :: etoks ++ [rbT]) := by
  intro cw ks fc h hs
  have hk : keyOf t = (.lbracket, [91]) := keyOf_fixed t ht .lbracket hty (by decide)
  simp only [writeExpr]
  have h2 := ((h.head t).fixed .lbracket (by decide) (Fields.rune (h.head t).pend 91) (pre_start hs 91 [] (by decide))).increaseIndent
  obtain ⟨fc3, h3, hc3⟩ := hA h2 (fol_start .lbracket (by decide) (by decide)) (show AllOK (fol .lbracket) from fun _ => rfl).close
  have h3' := (h3.leadingComments rb.comments).decreaseIndent
  have h4 := h3'.fixed .rbracket (by decide) (Fields.rune h3'.pend 93) (fun r => hc3 93 r (Or.inr (Or.inl rfl)))
  refine ⟨_, ?_, (show AllOK (fol .rbracket) from fun _ => rfl).endOK⟩
  simpa only [List.map_cons, List.map_append, List.map_nil, List.append_assoc, List.cons_append, List.nil_append, hk, canon,
    show keyOf rbT = (.rbracket, [93]) from rfl] using h4

/-! ## object literals -/

def PLexC (l : PropList) (toks : List Token) : Prop :=
  ∀ {cw : CW} {ks : List Key} {fc : Bytes → Bool}, WInv cw ks fc → EndOK fc →
    ∃ fc', WInv (writeProps l false cw) (ks ++ toks.map keyOf) fc' ∧ EndOK fc'
def PLex (l : PropList) (toks : List Token) : Prop :=
  ∀ {cw : CW} {ks : List Key} {fc : Bytes → Bool}, WInv cw ks fc → StartOK fc → CloseOK fc →
    ∃ fc', WInv (writeProps l true cw) (ks ++ toks.map keyOf) fc' ∧ CloseOK fc'

/-- `key: value` -/
theorem pair_lex (k v : Expr) (ktoks vtoks : List Token) (hK : ELex k ktoks) (hV : ELex v vtoks)
    {cw : CW} {ks fc} (h : WInv cw ks fc) (hs : StartOK fc) :
    ∃ fc', WInv (writeExpr v ((writeExpr k cw).writeRune 58).writeSpace) (ks ++ (ktoks ++ colonT :: vtoks).map keyOf) fc' ∧ EndOK fc' := by
  obtain ⟨fc1, h1, he1⟩ := hK h hs
  have h2 := (h1.fixed .colon (by decide) (Fields.rune h1.pend 58) (pre_end he1 58 [] (by decide) (by decide))).writeSpace
  obtain ⟨fc3, h3, he3⟩ := hV h2 (fol_start .colon (by decide) (by decide))
  refine ⟨fc3, ?_, he3⟩
  simpa only [List.map_cons, List.map_append, List.append_assoc, List.cons_append, List.nil_append, canon,
    show keyOf colonT = (.colon, [58]) from rfl] using h3

theorem plexC_nil : PLexC .nil [] := fun h he => ⟨_, by simpa [writeProps] using h, he⟩
theorem plexC_cons (k v : Expr) (rest : PropList) (ktoks vtoks rtoks : List Token) (hK : ELex k ktoks) (hV : ELex v vtoks)
    (hR : PLexC rest rtoks) : PLexC (.cons k v rest) (commaT :: ktoks ++ colonT :: vtoks ++ rtoks) := by
  intro cw ks fc h he
  simp only [writeProps]
  obtain ⟨fc1, h1, he1⟩ := pair_lex k v ktoks vtoks hK hV (comma_step h he) (fol_start .comma (by decide) (by decide))
  obtain ⟨fc2, h2, he2⟩ := hR h1 he1
  refine ⟨fc2, ?_, he2⟩
  simpa only [List.map_cons, List.map_append, List.append_assoc, List.cons_append, List.nil_append,
    show keyOf commaT = (.comma, [44]) from rfl] using h2

theorem plex_nil : PLex .nil [] := fun h _ hc => ⟨_, by simpa [writeProps] using h, hc⟩
theorem plex_cons (k v : Expr) (rest : PropList) (ktoks vtoks rtoks : List Token) (hK : ELex k ktoks) (hV : ELex v vtoks)
    (hR : PLexC rest rtoks) : PLex (.cons k v rest) (ktoks ++ colonT :: vtoks ++ rtoks) := by
  intro cw ks fc h hs _
  simp only [writeProps, CW.sepIf, if_true]
  obtain ⟨fc1, h1, he1⟩ := pair_lex k v ktoks vtoks hK hV h hs
  obtain ⟨fc2, h2, he2⟩ := hR h1 he1
  refine ⟨fc2, ?_, he2.close⟩
  simpa only [List.map_cons, List.map_append, List.append_assoc, List.cons_append, List.nil_append] using h2

/-- `{props}` -/
theorem obj_lex (t rb : Token) (hty : t.type = .lbrace) (ht : tokOk t) (ps : PropList) (ptoks : List Token)
    (hP : PLex ps ptoks) : ELex (.object t ps rb) (t :: ptoks ++ [rbrT]) := by
  intro cw ks fc h hs
  have hk : keyOf t = (.lbrace, [123]) := keyOf_fixed t ht .lbrace hty (by decide)
  simp only [writeExpr]
  have h2 := ((h.head t).fixed .lbrace (by decide) (Fields.rune (h.head t).pend 123) (pre_start hs 123 [] (by decide))).increaseIndent
  obtain ⟨fc3, h3, hc3⟩ := hP h2 (fol_start .lbrace (by decide) (by decide)) (show AllOK (fol .lbrace) from fun _ => rfl).close
  have h3' := (h3.leadingComments rb.comments).decreaseIndent
  have h4 := h3'.fixed .rbrace (by decide) (Fields.rune h3'.pend 125) (fun r => hc3 125 r (Or.inr (Or.inr rfl)))
  refine ⟨_, ?_, (show AllOK (fol .rbrace) from fun _ => rfl).endOK⟩
  simpa only [List.map_cons, List.map_append, List.map_nil, List.append_assoc, List.cons_append, List.nil_append, hk, canon,
    show keyOf rbrT = (.rbrace, [125]) from rfl] using h4

/-! ## identifiers as names and parameters -/

/-- `writeIdent` for a name token -/
theorem name_lex (n : Token) (hty : n.type = .ident) (hn : tokOk n) {cw : CW} {ks fc} (h : WInv cw ks fc) (hs : StartOK fc) :
    WInv (writeIdent (identOf n) cw) (ks ++ [keyOf n]) (fol .ident) := by
  have hw : atomWf n = true := by unfold atomWf; rw [hty]; rfl
  have ha : atomTree n = .ident (identOf n) := by unfold atomTree; rw [hty]; rfl
  obtain ⟨c, w, hl⟩ : ∃ c w, n.lit = c :: w := by
    have : identOk n.lit = true := by simpa only [tokOk, hty] using hn
    cases hl : n.lit with
    | nil => rw [hl] at this; cases this
    | cons c w => exact ⟨c, w, rfl⟩
  have hid : identOk (c :: w) = true := by rw [← hl]; simpa only [tokOk, hty] using hn
  have hc : isLetter c = true := by simp [identOk] at hid; exact hid.1.1
  have h1 := (h.leadingComments n.comments).addNamedMapping n.sl n.sc n.lit
  have hk : keyOf n = (.ident, c :: w) := by simp [keyOf, hty, hl]
  simp only [writeIdent, identOf]
  rw [hk, hl]; rw [hl] at h1
  exact h1.lit (hs.d true) _ c w _ (Fields.str h1.pend _) (startByte_letter c hc) (fun _ => rfl)
    (fun r hr s hs' => ident_lexes (c :: w) r hid hr s hs') (by simp) nosign_word

def PrLexC (ps : List Token) : Prop :=
  ∀ {cw : CW} {ks : List Key} {fc : Bytes → Bool}, WInv cw ks fc → EndOK fc →
    ∃ fc', WInv (writeParams (ps.map identOf) false cw) (ks ++ (ps.flatMap (fun p => [commaT, p])).map keyOf) fc' ∧ EndOK fc'

theorem params_lexC : ∀ (ps : List Token), (∀ p ∈ ps, p.type = .ident ∧ tokOk p) → PrLexC ps
  | [], _ => fun h he => ⟨_, by simpa [writeParams] using h, he⟩
  | p :: ps, hp => by
    intro h he
    simp only [List.map_cons, writeParams]
    have h1 := name_lex p (hp p (by simp)).1 (hp p (by simp)).2 (comma_step h he) (fol_start .comma (by decide) (by decide))
    obtain ⟨fc2, h2, he2⟩ := params_lexC ps (fun q hq => hp q (by simp [hq])) h1 endOK_word
    refine ⟨fc2, ?_, he2⟩
    simpa only [List.flatMap_cons, List.map_cons, List.map_append, List.map_nil, List.append_assoc, List.cons_append, List.nil_append,
      show keyOf commaT = (.comma, [44]) from rfl] using h2

theorem paramToks_eq : ∀ (p : Token) (ps : List Token), paramToks (p :: ps) = p :: ps.flatMap (fun q => [commaT, q])
  | _, [] => rfl
  | p, q :: ps => by simp [paramToks, paramToks_eq q ps]

/-- `(a, b, c)` of a function: from `(` to `)` -/
theorem params_lex (ps : List Token) (hp : ∀ p ∈ ps, p.type = .ident ∧ tokOk p) {cw : CW} {ks fc} (h : WInv cw ks fc)
    (hpre : ∀ r, fc (40 :: r) = true) :
    WInv (((writeParams (ps.map identOf) true (cw.writeRune 40)).writeRune 41).writeSpace)
      (ks ++ (lpT :: paramToks ps ++ [rpT]).map keyOf) (fol .rparen) := by
  have h1 : WInv (cw.writeRune 40) (ks ++ [(.lparen, [40])]) (fol .lparen) :=
    h.fixed .lparen (by decide) (Fields.rune h.pend 40) (fun r => hpre r)
  have fin : ∃ fc2, WInv (writeParams (ps.map identOf) true (cw.writeRune 40)) (ks ++ [(.lparen, [40])] ++ (paramToks ps).map keyOf) fc2 ∧
      CloseOK fc2 := by
    cases ps with
    | nil => exact ⟨_, by simpa [writeParams, paramToks] using h1, (show AllOK (fol .lparen) from fun _ => rfl).close⟩
    | cons p ps =>
      simp only [List.map_cons, writeParams, CW.sepIf, if_true]
      have h2 := name_lex p (hp p (by simp)).1 (hp p (by simp)).2 h1 (fol_start .lparen (by decide) (by decide))
      obtain ⟨fc3, h3, he3⟩ := params_lexC ps (fun q hq => hp q (by simp [hq])) h2 endOK_word
      refine ⟨fc3, ?_, he3.close⟩
      rw [paramToks_eq]
      simpa only [List.map_cons, List.map_append, List.append_assoc, List.cons_append, List.nil_append] using h3
  obtain ⟨fc2, h2, hc2⟩ := fin
  have h3 := (h2.fixed .rparen (by decide) (Fields.rune h2.pend 41) (fun r => hc2 41 r (Or.inl rfl))).writeSpace
  simpa only [List.map_cons, List.map_append, List.map_nil, List.append_assoc, List.cons_append, List.nil_append, canon,
    show keyOf lpT = (.lparen, [40]) from rfl, show keyOf rpT = (.rparen, [41]) from rfl] using h3

/-! ## statements -/

def SLex (s : Stmt) (toks : List Token) : Prop :=
  ∀ {cw : CW} {ks : List Key} {fc : Bytes → Bool}, WInv cw ks fc → StartOK fc →
    ∃ fc', WInv (writeStmt s cw) (ks ++ toks.map keyOf) fc' ∧ AllOK fc'
def BLex (l : StmtList) (toks : List Token) : Prop :=
  ∀ (first : Bool) {cw : CW} {ks : List Key} {fc : Bytes → Bool}, WInv cw ks fc → AllOK fc →
    ∃ fc', WInv (writeBlockStmts l first cw) (ks ++ toks.map keyOf) fc' ∧ AllOK fc'
def GLex (l : StmtList) (toks : List Token) : Prop :=
  ∀ (first : Bool) {cw : CW} {ks : List Key} {fc : Bytes → Bool}, WInv cw ks fc → AllOK fc →
    ∃ fc', WInv (writeProgramStmts l first cw) (ks ++ toks.map keyOf) fc' ∧ AllOK fc'
/-- an optional expression (clauses of `for`) -/
def OLex (e : Expr) (toks : List Token) : Prop :=
  ∀ {cw : CW} {ks : List Key} {fc : Bytes → Bool}, WInv cw ks fc → AllOK fc →
    ∃ fc', WInv (if e.isNone = true then cw else writeExpr e cw) (ks ++ toks.map keyOf) fc' ∧ EndOK fc'

theorem allOK_semi : AllOK (fol .semicolon) := fun _ => rfl
theorem allOK_rparen : AllOK (fol .rparen) := fun _ => rfl
theorem allOK_rbrace : AllOK (fol .rbrace) := fun _ => rfl
theorem allOK_lbrace : AllOK (fol .lbrace) := fun _ => rfl
theorem allOK_lparen : AllOK (fol .lparen) := fun _ => rfl

theorem semi_step {cw : CW} {ks fc} (h : WInv cw ks fc) (he : EndOK fc) :
    WInv cw.writeSemi (ks ++ [(.semicolon, [59])]) (fol .semicolon) := by
  have : cw.writeSemi = cw.writeRune 59 := by unfold CW.writeSemi; simp [h.compact]
  rw [this]
  exact h.fixed .semicolon (by decide) (Fields.rune h.pend 59) (pre_end he 59 [] (by decide) (by decide))

theorem exprS_lex (e : Expr) (toks : List Token) (hne : e.isNone = false) (hE : ELex e toks) : SLex (.exprS e) (toks ++ [semiT]) := by
  intro cw ks fc h hs
  simp only [writeStmt, hne, Bool.false_eq_true, if_false]
  obtain ⟨fc1, h1, he1⟩ := hE h hs
  refine ⟨_, ?_, allOK_semi⟩
  simpa only [List.map_append, List.map_cons, List.map_nil, List.append_assoc, show keyOf semiT = (.semicolon, [59]) from rfl]
    using semi_step h1 he1

/-- `{ statements }` -/
theorem block_lex (lb rb : Token) (klb : keyOf lb = (.lbrace, [123])) (krb : keyOf rb = (.rbrace, [125])) (body : StmtList)
    (btoks : List Token) (hB : BLex body btoks) : SLex (.block lb body rb) (lb :: btoks ++ [rb]) := by
  intro cw ks fc h hs
  simp only [writeStmt]
  have h1 := (((h.head lb).fixed .lbrace (by decide) (Fields.rune (h.head lb).pend 123) (pre_start hs 123 [] (by decide))).writeNewline).increaseIndent
  obtain ⟨fc2, h2, ha2⟩ := hB true h1 allOK_lbrace
  have h3 := ((h2.decreaseIndent.writeNewline).leadingComments rb.comments).writeIndent
  have h4 := h3.fixed .rbrace (by decide) (Fields.rune h3.pend 125) (fun r => ha2 _)
  refine ⟨_, ?_, allOK_rbrace⟩
  simpa only [List.map_cons, List.map_append, List.map_nil, List.append_assoc, List.cons_append, List.nil_append, klb, krb, canon] using h4

/-- `let name` / `let name = v` as an expression (first clause of `for`) -/
theorem letE_lex (t name : Token) (hty : t.type = .let_) (ht : tokOk t) (hnty : name.type = .ident) (hn : tokOk name) :
    ELex (.letE t (identOf name) .none) [t, name] ∧
    ∀ (V : Expr) (vtoks : List Token), V.isNone = false → ELex V vtoks → ELex (.letE t (identOf name) V) (t :: name :: assignT :: vtoks) := by
  have hk : keyOf t = (.let_, canon .let_) := keyOf_fixed t ht .let_ hty (by decide)
  have base : ∀ {cw : CW} {ks fc}, WInv cw ks fc → StartOK fc →
      WInv (writeIdent (identOf name) ((cw.head t).writeString (strBytes "let "))) (ks ++ [keyOf t] ++ [keyOf name]) (fol .ident) := by
    intro cw ks fc h hs
    rw [sb_let, hk]
    have h1 := (h.head t).kwSpace .let_ (by decide) false (fun r => by simp [fol, isWordByte, isLetter, isDigit])
      (by simpa using Fields.str (h.head t).pend (canon .let_ ++ [32])) (fun r => pre_start hs 108 _ (by decide) r)
    exact name_lex name hnty hn h1 startOK_any
  refine ⟨fun h hs => ?_, fun V vtoks hvn hV => fun h hs => ?_⟩
  · simp only [writeExpr, Expr.isNone, if_true]
    exact ⟨_, by simpa only [List.map_cons, List.map_nil, List.append_assoc, List.cons_append, List.nil_append] using base h hs, endOK_word⟩
  · simp only [writeExpr, hvn, Bool.false_eq_true, if_false]
    have h1 := base h hs
    have h2 := ((h1.writeSpace).fixed .assign (by decide) (Fields.rune h1.writeSpace.pend 61)
      (pre_end endOK_word 61 [] (by decide) (by decide))).writeSpace
    obtain ⟨fc3, h3, he3⟩ := hV h2 (fol_start .assign (by decide) (by decide))
    refine ⟨fc3, ?_, he3⟩
    simpa only [List.map_cons, List.map_append, List.append_assoc, List.cons_append, List.nil_append, canon,
      show keyOf assignT = (.assign, [61]) from rfl] using h3

theorem letS_write (tok : Token) (name : Ident) (v : Expr) (cw : CW) :
    writeStmt (.letS tok name v) cw = (writeExpr (.letE tok name v) cw).writeSemi := by
  simp only [writeStmt, writeExpr]

theorem letS_lex (t name : Token) (hty : t.type = .let_) (ht : tokOk t) (hnty : name.type = .ident) (hn : tokOk name)
    (V : Expr) (vtoks : List Token) (hvn : V.isNone = false) (hV : ELex V vtoks) :
    SLex (.letS t (identOf name) V) (t :: name :: assignT :: vtoks ++ [semiT]) := by
  intro cw ks fc h hs
  rw [letS_write]
  obtain ⟨fc1, h1, he1⟩ := (letE_lex t name hty ht hnty hn).2 V vtoks hvn hV h hs
  refine ⟨_, ?_, allOK_semi⟩
  simpa only [List.map_append, List.map_cons, List.map_nil, List.append_assoc, List.cons_append, show keyOf semiT = (.semicolon, [59]) from rfl]
    using semi_step h1 he1

theorem letN_lex (t name : Token) (hty : t.type = .let_) (ht : tokOk t) (hnty : name.type = .ident) (hn : tokOk name) :
    SLex (.letS t (identOf name) .none) [t, name, semiT] := by
  intro cw ks fc h hs
  rw [letS_write]
  obtain ⟨fc1, h1, he1⟩ := (letE_lex t name hty ht hnty hn).1 h hs
  refine ⟨_, ?_, allOK_semi⟩
  simpa only [List.map_append, List.map_cons, List.map_nil, List.append_assoc, List.cons_append, List.nil_append,
    show keyOf semiT = (.semicolon, [59]) from rfl] using semi_step h1 he1

/-- a keyword written alone at the start of a statement -/
theorem kw_step {cw : CW} {ks fc} (h : WInv cw ks fc) (hs : StartOK fc) (t : Token) (ty : TokType) (hty : t.type = ty) (ht : tokOk t)
    (hc : canon ty ≠ []) (hl : isLetter ((canon ty).headD 0) = true) (str : Bytes) (hstr : str = canon ty) :
    WInv ((cw.head t).writeString str) (ks ++ [keyOf t]) (fol ty) := by
  rw [hstr, keyOf_fixed t ht ty hty hc]
  refine (h.head t).fixed ty hc (Fields.str (h.head t).pend _) (fun r => hs _ ?_)
  cases hcn : canon ty with
  | nil => exact absurd hcn hc
  | cons c w => rw [hcn] at hl; exact startByte_letter c (by simpa using hl)

theorem ret_lex (t : Token) (hty : t.type = .return_) (ht : tokOk t) :
    SLex (.ret t .none) [t, semiT] ∧
    ∀ (V : Expr) (vtoks : List Token), V.isNone = false → ELex V vtoks → SLex (.ret t V) (t :: vtoks ++ [semiT]) := by
  refine ⟨fun h hs => ?_, fun V vtoks hvn hV => fun h hs => ?_⟩
  · simp only [writeStmt, Expr.isNone, if_true]
    have h1 := kw_step h hs t .return_ hty ht (by decide) (by decide) _ sb_return
    refine ⟨_, ?_, allOK_semi⟩
    simpa only [List.map_cons, List.map_nil, List.append_assoc, List.cons_append, List.nil_append,
      show keyOf semiT = (.semicolon, [59]) from rfl] using semi_step h1 endOK_word
  · simp only [writeStmt, hvn, Bool.false_eq_true, if_false]
    have h1 := kw_step h hs t .return_ hty ht (by decide) (by decide) _ sb_return
    have h2 := h1.space (fun r => by simp [fol, isWordByte, isLetter, isDigit])
    obtain ⟨fc3, h3, he3⟩ := hV h2 startOK_any
    refine ⟨_, ?_, allOK_semi⟩
    simpa only [List.map_cons, List.map_append, List.map_nil, List.append_assoc, List.cons_append, List.nil_append,
      show keyOf semiT = (.semicolon, [59]) from rfl] using semi_step h3 he3

/-- `kw (cond) ` : the head of `if` and `while` -/
theorem head_lex (t : Token) (ty : TokType) (hty : t.type = ty) (ht : tokOk t) (hc : canon ty ≠ [])
    (hl : isLetter ((canon ty).headD 0) = true) (hw : EndOK (fol ty)) (str : Bytes) (hstr : str = canon ty)
    (C : Expr) (ctoks : List Token) (hC : ELex C ctoks) {cw : CW} {ks fc} (h : WInv cw ks fc) (hs : StartOK fc) :
    WInv (((writeExpr C ((((cw.head t).writeString str).writeSpace).writeRune 40)).writeRune 41).writeSpace)
      (ks ++ (t :: lpT :: ctoks ++ [rpT]).map keyOf) (fol .rparen) := by
  have h1 := (kw_step h hs t ty hty ht hc hl str hstr).writeSpace
  have h2 := h1.fixed .lparen (by decide) (Fields.rune h1.pend 40) (pre_end hw 40 [] (by decide) (by decide))
  obtain ⟨fc3, h3, he3⟩ := hC h2 (fol_start .lparen (by decide) (by decide))
  have h4 := (h3.fixed .rparen (by decide) (Fields.rune h3.pend 41) (pre_end he3 41 [] (by decide) (by decide))).writeSpace
  simpa only [List.map_cons, List.map_append, List.map_nil, List.append_assoc, List.cons_append, List.nil_append, canon,
    show keyOf lpT = (.lparen, [40]) from rfl, show keyOf rpT = (.rparen, [41]) from rfl] using h4

theorem endOK_kw (ty : TokType) (h : fol ty = fol .ident) : EndOK (fol ty) := by rw [h]; exact endOK_word

theorem if_lex (t : Token) (hty : t.type = .if_) (ht : tokOk t) (C : Expr) (ctoks : List Token) (hC : ELex C ctoks)
    (T : Stmt) (ttoks : List Token) (hT : SLex T ttoks) : SLex (.ifS t C T .none) (t :: lpT :: ctoks ++ rpT :: ttoks) := by
  intro cw ks fc h hs
  simp only [writeStmt, Stmt.isNone, if_true]
  have h1 := head_lex t .if_ hty ht (by decide) (by decide) (endOK_kw _ rfl) _ sb_if C ctoks hC h hs
  obtain ⟨fc2, h2, ha2⟩ := hT h1 allOK_rparen.start
  refine ⟨fc2, ?_, ha2⟩
  simpa only [List.map_cons, List.map_append, List.map_nil, List.append_assoc, List.cons_append, List.nil_append] using h2

theorem ifElse_lex (t el : Token) (hty : t.type = .if_) (ht : tokOk t) (hety : el.type = .else_) (he : tokOk el)
    (C : Expr) (ctoks : List Token) (hC : ELex C ctoks) (T E : Stmt) (ttoks etoks : List Token) (hT : SLex T ttoks) (hE : SLex E etoks)
    (hen : E.isNone = false) : SLex (.ifS t C T E) (t :: lpT :: ctoks ++ rpT :: ttoks ++ el :: etoks) := by
  intro cw ks fc h hs
  simp only [writeStmt, hen, Bool.false_eq_true, if_false]
  have h1 := head_lex t .if_ hty ht (by decide) (by decide) (endOK_kw _ rfl) _ sb_if C ctoks hC h hs
  obtain ⟨fc2, h2, ha2⟩ := hT h1 allOK_rparen.start
  have hk : keyOf el = (.else_, canon .else_) := keyOf_fixed el he .else_ hety (by decide)
  have h3 := h2.kwSpace .else_ (by decide) true (fun r => by simp [fol, isWordByte, isLetter, isDigit])
    ⟨(Fields.str h2.pend (strBytes " else ")).1, (Fields.str h2.pend (strBytes " else ")).2.1,
      by rw [(Fields.str h2.pend (strBytes " else ")).2.2, sb_else]; simp⟩ (fun r => ha2 _)
  obtain ⟨fc4, h4, ha4⟩ := hE h3 startOK_any
  refine ⟨fc4, ?_, ha4⟩
  simpa only [List.map_cons, List.map_append, List.map_nil, List.append_assoc, List.cons_append, List.nil_append, hk] using h4

theorem while_lex (t : Token) (hty : t.type = .while_) (ht : tokOk t) (C : Expr) (ctoks : List Token) (hC : ELex C ctoks)
    (B : Stmt) (btoks : List Token) (hB : SLex B btoks) : SLex (.whileS t C B) (t :: lpT :: ctoks ++ rpT :: btoks) := by
  intro cw ks fc h hs
  simp only [writeStmt]
  have h1 := head_lex t .while_ hty ht (by decide) (by decide) (endOK_kw _ rfl) _ sb_while C ctoks hC h hs
  obtain ⟨fc2, h2, ha2⟩ := hB h1 allOK_rparen.start
  refine ⟨fc2, ?_, ha2⟩
  simpa only [List.map_cons, List.map_append, List.map_nil, List.append_assoc, List.cons_append, List.nil_append] using h2

theorem olex_none : OLex .none [] := fun h ha => ⟨_, by simpa [Expr.isNone] using h, ha.endOK⟩
theorem olex_some (e : Expr) (toks : List Token) (hne : e.isNone = false) (hE : ELex e toks) : OLex e toks := by
  intro cw ks fc h ha
  simp only [hne, Bool.false_eq_true, if_false]
  exact hE h ha.start

theorem for_lex (t : Token) (hty : t.type = .for_) (ht : tokOk t) (I C U : Expr) (itoks ctoks utoks : List Token)
    (hI : OLex I itoks) (hCo : OLex C ctoks) (hU : OLex U utoks) (B : Stmt) (btoks : List Token) (hB : SLex B btoks) :
    SLex (.forS t I C U B) (t :: lpT :: itoks ++ semiT :: ctoks ++ semiT :: utoks ++ rpT :: btoks) := by
  intro cw ks fc h hs
  simp only [writeStmt]
  have h1 := (kw_step h hs t .for_ hty ht (by decide) (by decide) _ sb_for).writeSpace
  have h2 := h1.fixed .lparen (by decide) (Fields.rune h1.pend 40) (pre_end (endOK_kw .for_ rfl) 40 [] (by decide) (by decide))
  obtain ⟨fc3, h3, he3⟩ := hI h2 allOK_lparen
  have h4 := (h3.fixed .semicolon (by decide) (Fields.rune h3.pend 59) (pre_end he3 59 [] (by decide) (by decide))).writeSpace
  obtain ⟨fc5, h5, he5⟩ := hCo h4 allOK_semi
  have h6 := (h5.fixed .semicolon (by decide) (Fields.rune h5.pend 59) (pre_end he5 59 [] (by decide) (by decide))).writeSpace
  obtain ⟨fc7, h7, he7⟩ := hU h6 allOK_semi
  have h8 := (h7.fixed .rparen (by decide) (Fields.rune h7.pend 41) (pre_end he7 41 [] (by decide) (by decide))).writeSpace
  obtain ⟨fc9, h9, ha9⟩ := hB h8 allOK_rparen.start
  refine ⟨fc9, ?_, ha9⟩
  simpa only [List.map_cons, List.map_append, List.map_nil, List.append_assoc, List.cons_append, List.nil_append, canon,
    show keyOf lpT = (.lparen, [40]) from rfl, show keyOf rpT = (.rparen, [41]) from rfl,
    show keyOf semiT = (.semicolon, [59]) from rfl] using h9

theorem blex_nil : BLex .nil [] := by
  intro first cw ks fc h ha
  exact ⟨_, by simpa [writeBlockStmts] using h, ha⟩
theorem blex_cons (s : Stmt) (rest : StmtList) (stoks rtoks : List Token) (hS : SLex s stoks) (hR : BLex rest rtoks) :
    BLex (.cons s rest) (stoks ++ rtoks) := by
  intro first cw ks fc h ha
  simp only [writeBlockStmts]
  obtain ⟨fc1, h1, ha1⟩ := hS ((h.newlineIf first).writeIndent) ha.start
  obtain ⟨fc2, h2, ha2⟩ := hR false h1 ha1
  exact ⟨fc2, by simpa only [List.map_append, List.append_assoc] using h2, ha2⟩

theorem glex_nil : GLex .nil [] := by
  intro first cw ks fc h ha
  exact ⟨_, by simpa [writeProgramStmts] using h, ha⟩
theorem glex_cons (s : Stmt) (rest : StmtList) (stoks rtoks : List Token) (hS : SLex s stoks) (hR : GLex rest rtoks) :
    GLex (.cons s rest) (stoks ++ rtoks) := by
  intro first cw ks fc h ha
  simp only [writeProgramStmts]
  obtain ⟨fc1, h1, ha1⟩ := hS (h.newlineIf first) ha.start
  obtain ⟨fc2, h2, ha2⟩ := hR false h1 ha1
  exact ⟨fc2, by simpa only [List.map_append, List.append_assoc] using h2, ha2⟩

/-- `function name(params) { body }` as a declaration -/
theorem funcD_lex (t name : Token) (hty : t.type = .function) (ht : tokOk t) (hnty : name.type = .ident) (hn : tokOk name)
    (ps : List Token) (hp : ∀ p ∈ ps, p.type = .ident ∧ tokOk p) (body : StmtList) (btoks : List Token) (hB : BLex body btoks) :
    SLex (.funcD t (identOf name) (ps.map identOf) (.block lbrT body rbrT))
      (t :: name :: lpT :: paramToks ps ++ rpT :: lbrT :: btoks ++ [rbrT]) := by
  intro cw ks fc h hs
  simp only [writeStmt]
  have hk : keyOf t = (.function, canon .function) := keyOf_fixed t ht .function hty (by decide)
  have h1 := (h.head t).kwSpace .function (by decide) false (fun r => by simp [fol, isWordByte, isLetter, isDigit])
    ⟨(Fields.str (h.head t).pend (strBytes "function ")).1, (Fields.str (h.head t).pend (strBytes "function ")).2.1,
      by rw [(Fields.str (h.head t).pend (strBytes "function ")).2.2, sb_function_sp]; simp⟩
    (fun r => pre_start hs 102 _ (by decide) r)
  have h2 := name_lex name hnty hn h1 startOK_any
  have h3 := params_lex ps hp h2 (fun r => by simp [fol, isWordByte, isLetter, isDigit])
  obtain ⟨fc4, h4, ha4⟩ := block_lex lbrT rbrT rfl rfl body btoks hB h3 allOK_rparen.start
  refine ⟨fc4, ?_, ha4⟩
  have := h4
  simp only [writeStmt] at this
  simpa only [List.map_cons, List.map_append, List.map_nil, List.append_assoc, List.cons_append, List.nil_append, hk] using this

/-- `function name?(params) { body }` as an expression -/
theorem func_lex (t : Token) (hty : t.type = .function) (ht : tokOk t) (name : Option Token)
    (hn : ∀ n ∈ optTok name, n.type = .ident ∧ tokOk n)
    (ps : List Token) (hp : ∀ p ∈ ps, p.type = .ident ∧ tokOk p) (body : StmtList) (btoks : List Token) (hB : BLex body btoks) :
    ELex (.func t (name.map identOf) (ps.map identOf) (.block lbrT body rbrT))
      (t :: optTok name ++ lpT :: paramToks ps ++ rpT :: lbrT :: btoks ++ [rbrT]) := by
  intro cw ks fc h hs
  have h1 := kw_step h hs t .function hty ht (by decide) (by decide) _ sb_function
  have tail : ∀ {cwX : CW} {ks' : List Key} {fc2 : Bytes → Bool}, WInv cwX ks' fc2 → (∀ r, fc2 (40 :: r) = true) →
      ∃ fc4, WInv (writeStmt (.block lbrT body rbrT) (((writeParams (ps.map identOf) true (cwX.writeRune 40)).writeRune 41).writeSpace))
        (ks' ++ (lpT :: paramToks ps ++ rpT :: lbrT :: btoks ++ [rbrT]).map keyOf) fc4 ∧ EndOK fc4 := by
    intro cwX ks' fc2 h2 hp2
    have h3 := params_lex ps hp h2 hp2
    obtain ⟨fc4, h4, ha4⟩ := block_lex lbrT rbrT rfl rfl body btoks hB h3 allOK_rparen.start
    exact ⟨fc4, by simpa only [List.map_cons, List.map_append, List.map_nil, List.append_assoc, List.cons_append, List.nil_append] using h4,
      ha4.endOK⟩
  cases name with
  | none =>
    simp only [writeExpr, Option.map_none]
    obtain ⟨fc4, h4, he4⟩ := tail h1 (fun r => by simp [fol, isWordByte, isLetter, isDigit])
    exact ⟨fc4, by simpa only [optTok, List.map_cons, List.map_append, List.map_nil, List.append_assoc, List.cons_append, List.nil_append] using h4, he4⟩
  | some n =>
    simp only [writeExpr, Option.map_some]
    have h2 := h1.space (fun r => by simp [fol, isWordByte, isLetter, isDigit])
    have h3 := name_lex n (hn n (by simp [optTok])).1 (hn n (by simp [optTok])).2 h2 startOK_any
    obtain ⟨fc4, h4, he4⟩ := tail h3 (fun r => by simp [fol, isWordByte, isLetter, isDigit])
    exact ⟨fc4, by simpa only [optTok, List.map_cons, List.map_append, List.map_nil, List.append_assoc, List.cons_append, List.nil_append] using h4, he4⟩

end Xjs.LP
