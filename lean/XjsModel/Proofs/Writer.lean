import XjsModel.Model.Printer
/-
  Writer algebra: how the `CodeWriter` operations commute with forgetting the mapper, and which fields they preserve.
-/
namespace Xjs

/-- forget the source-map builder -/
def CW.noMap (cw : CW) : CW := { cw with mapper := none }

@[simp] theorem noMap_out (cw : CW) : cw.noMap.out = cw.out := rfl
@[simp] theorem noMap_noMap (cw : CW) : cw.noMap.noMap = cw.noMap := rfl

@[simp] theorem noMap_mapAdvance (cw : CW) (f : Mapper → Mapper) : (cw.mapAdvance f).noMap = cw.noMap := by
  unfold CW.mapAdvance; cases cw.mapper <;> rfl

@[simp] theorem mapAdvance_noMap (cw : CW) (f : Mapper → Mapper) : cw.noMap.mapAdvance f = cw.noMap := rfl

@[simp] theorem noMap_panic (cw : CW) : cw.panic.noMap = cw.noMap.panic := rfl

@[simp] theorem noMap_rawIndent (cw : CW) : cw.rawIndent.noMap = cw.noMap.rawIndent := rfl

theorem noMap_flushOne (cw : CW) (ch : Nat) : (cw.flushOne ch).noMap = cw.noMap.flushOne ch := by
  unfold CW.flushOne; split <;> rfl

theorem noMap_foldl_flushOne (l : List Nat) (cw : CW) :
    (l.foldl CW.flushOne cw).noMap = l.foldl CW.flushOne cw.noMap := by
  induction l generalizing cw with
  | nil => rfl
  | cons c r ih => simp only [List.foldl_cons, ih, noMap_flushOne]

@[simp] theorem noMap_flushPending (cw : CW) : cw.flushPending.noMap = cw.noMap.flushPending := by
  unfold CW.flushPending
  have := noMap_foldl_flushOne cw.pendings cw
  simp only [CW.noMap] at this ⊢
  rw [← this]

@[simp] theorem noMap_writeString (cw : CW) (s : Bytes) : (cw.writeString s).noMap = cw.noMap.writeString s := by
  simp only [CW.writeString, noMap_mapAdvance]
  rw [← noMap_flushPending]; rfl

@[simp] theorem noMap_writeRune (cw : CW) (r : Nat) : (cw.writeRune r).noMap = cw.noMap.writeRune r := by
  simp only [CW.writeRune, noMap_mapAdvance]
  rw [← noMap_flushPending]; rfl

@[simp] theorem noMap_writeSemi (cw : CW) : cw.writeSemi.noMap = cw.noMap.writeSemi := by
  unfold CW.writeSemi
  show _ = if !cw.pretty then _ else if cw.semis then _ else _
  split
  · exact noMap_writeRune _ _
  · split
    · exact noMap_writeRune _ _
    · rfl

@[simp] theorem noMap_separateSigns (cw : CW) (op : Bytes) : (cw.separateSigns op).noMap = cw.noMap.separateSigns op := by
  unfold CW.separateSigns
  cases op with
  | nil => rfl
  | cons c r =>
    simp only
    split
    · rfl
    · have h : cw.noMap.flushPending.out = cw.flushPending.out := by rw [← noMap_flushPending]; rfl
      rw [h]
      split
      · rw [noMap_writeRune, noMap_flushPending]
      · exact noMap_flushPending cw

@[simp] theorem noMap_increaseIndent (cw : CW) : cw.increaseIndent.noMap = cw.noMap.increaseIndent := by
  unfold CW.increaseIndent; show _ = if !cw.pretty then _ else _; split <;> rfl
@[simp] theorem noMap_decreaseIndent (cw : CW) : cw.decreaseIndent.noMap = cw.noMap.decreaseIndent := by
  unfold CW.decreaseIndent; show _ = if !cw.pretty then _ else _; split <;> rfl
@[simp] theorem noMap_writeIndent (cw : CW) : cw.writeIndent.noMap = cw.noMap.writeIndent := by
  unfold CW.writeIndent
  show _ = if !cw.pretty then _ else if cw.pendings.getLast? == some 9 then _ else _
  split
  · rfl
  · split <;> rfl
@[simp] theorem noMap_writeNewline (cw : CW) : cw.writeNewline.noMap = cw.noMap.writeNewline := by
  unfold CW.writeNewline; show _ = if !cw.pretty then _ else _; split <;> rfl
@[simp] theorem noMap_writeSpace (cw : CW) : cw.writeSpace.noMap = cw.noMap.writeSpace := by
  unfold CW.writeSpace
  show _ = if !cw.pretty then _ else if cw.pendings.getLast? == some 32 then _ else _
  split
  · rfl
  · split <;> rfl

theorem noMap_commentsLoop (cs : List Bytes) (first : Bool) (cw : CW) :
    (cw.commentsLoop cs first).noMap = cw.noMap.commentsLoop cs first := by
  induction cs generalizing cw first with
  | nil => rfl
  | cons c rest ih =>
    simp only [CW.commentsLoop]
    rw [ih]
    congr 1
    cases first <;> simp only [Bool.false_eq_true, if_false, if_true] <;> (repeat' split) <;> rfl

@[simp] theorem noMap_leadingComments (cw : CW) (cs : List Bytes) :
    (cw.leadingComments cs).noMap = cw.noMap.leadingComments cs := by
  unfold CW.leadingComments
  show _ = if (!cw.pretty || cs.isEmpty) then _ else _
  split
  · rfl
  · rw [noMap_writeIndent, noMap_writeNewline]
    congr 2
    have := noMap_commentsLoop cs true cw
    simp only [CW.noMap] at this ⊢
    rw [← this]

@[simp] theorem noMap_addMapping (cw : CW) (a b : Nat) : (cw.addMapping a b).noMap = cw.noMap := by
  simp [CW.addMapping]
@[simp] theorem noMap_addNamedMapping (cw : CW) (a b : Nat) (n : Bytes) : (cw.addNamedMapping a b n).noMap = cw.noMap := by
  simp [CW.addNamedMapping]
@[simp] theorem addMapping_noMap (cw : CW) (a b : Nat) : cw.noMap.addMapping a b = cw.noMap := rfl
@[simp] theorem addNamedMapping_noMap (cw : CW) (a b : Nat) (n : Bytes) : cw.noMap.addNamedMapping a b n = cw.noMap := rfl

@[simp] theorem noMap_head (cw : CW) (t : Token) : (cw.head t).noMap = cw.noMap.leadingComments t.comments := by
  simp [CW.head]

@[simp] theorem noMap_writeIdent (id : Ident) (cw : CW) : (writeIdent id cw).noMap = writeIdent id cw.noMap := by
  simp only [writeIdent, noMap_writeString, noMap_addNamedMapping, noMap_leadingComments]
  rw [← noMap_leadingComments, addNamedMapping_noMap]

/-- `head` on a writer without mapper -/
@[simp] theorem head_noMap (cw : CW) (t : Token) : cw.noMap.head t = cw.noMap.leadingComments t.comments := by
  simp only [CW.head]
  rw [← noMap_leadingComments, addMapping_noMap]

@[simp] theorem noMap_openIf (cw : CW) (b : Bool) : (cw.openIf b).noMap = cw.noMap.openIf b := by
  unfold CW.openIf; split <;> simp
@[simp] theorem noMap_closeIf (cw : CW) (b : Bool) : (cw.closeIf b).noMap = cw.noMap.closeIf b := by
  unfold CW.closeIf; split <;> simp
@[simp] theorem noMap_sepIf (cw : CW) (b : Bool) : (cw.sepIf b).noMap = cw.noMap.sepIf b := by
  unfold CW.sepIf; split <;> simp
@[simp] theorem noMap_newlineIf (cw : CW) (b : Bool) : (cw.newlineIf b).noMap = cw.noMap.newlineIf b := by
  unfold CW.newlineIf; split <;> simp

theorem noMap_writeParams (ps : List Ident) (first : Bool) (cw : CW) :
    (writeParams ps first cw).noMap = writeParams ps first cw.noMap := by
  induction ps generalizing cw first with
  | nil => rfl
  | cons p rest ih =>
    simp only [writeParams]
    rw [ih, noMap_writeIdent, noMap_sepIf]

end Xjs
