import XjsModel.Proofs.RaStmt
/-
  Round trip, part 5: the induction over the (mutually inductive) spec trees — structural recursion, each case
  discharged by its lemma in `RtCases` / `RtLemmas`.
-/
namespace Xjs.RA
open Xjs

variable {cfg : PCfg}

variable {tol sm : Bool}

mutual
  theorem main (hc : BaseCfg cfg) (htol : tol = true → cfg.tolerant = true) (hsm : sm = true → cfg.smart = true) : ∀ (s : SE), s.wf = true → s.lay tol sm = true → Main cfg s
    | .atom t, hw, _ => case_atom hc t hw
    | .grp lp e rp, hw, hl =>
      have h : e.wf = true := by
        have hw' : (lp.type == .lparen && rp.type == .rparen && e.wf) = true := by simpa [SE.wf] using hw
        simp only [Bool.and_eq_true] at hw'; exact hw'.2
      case_grp hc lp e rp hw (main hc htol hsm e h (by simpa [SE.lay] using hl))
    | .un t r, hw, hl =>
      have h : r.wf = true := by
        have hw' : (lookup basePrefixFns t.type == some .unary && r.wf) = true := by simpa [SE.wf] using hw
        simp only [Bool.and_eq_true] at hw'; exact hw'.2
      case_un hc t r hw (main hc htol hsm r h (by simpa [SE.lay] using hl))
    | .bin t l r, hw, hl =>
      have h : l.wf = true ∧ r.wf = true := by
        have hw' : (lookup baseInfixFns t.type == some .binary && l.wf && r.wf) = true := by simpa [SE.wf] using hw
        simp only [Bool.and_eq_true] at hw'; exact ⟨hw'.1.2, hw'.2⟩
      have hl' : l.lay tol sm = true ∧ r.lay tol sm = true := by simpa [SE.lay] using hl
      case_bin hc t l r hw (main hc htol hsm l h.1 hl'.1) (main hc htol hsm r h.2 hl'.2)
    | .post t l, hw, hl =>
      have h : l.wf = true := by
        have hw' : (lookup baseInfixFns t.type == some .postfix && l.wf && !t.nl) = true := by simpa [SE.wf] using hw
        simp only [Bool.and_eq_true] at hw'; exact hw'.1.2
      case_post hc t l hw (main hc htol hsm l h (by simpa [SE.lay] using hl))
    | .call t f args, hw, hl =>
      have h : f.wf = true ∧ args.wf = true := by
        have hw' : (t.type == .lparen && !t.nl && decide (precCall ≤ f.level) && f.wf && args.wf) = true := by simpa [SE.wf] using hw
        simp only [Bool.and_eq_true] at hw'; exact ⟨hw'.1.2, hw'.2⟩
      have hl' : f.lay tol sm = true ∧ args.lay tol sm = true := by simpa [SE.lay] using hl
      case_call hc t f args hw (main hc htol hsm f h.1 hl'.1) (mainList hc htol hsm args h.2 hl'.2).1
    | .dot t o p, hw, hl =>
      have h : o.wf = true := by
        have hw' : (t.type == .dot && decide (precCall ≤ o.level) && o.wf && atomWf p) = true := by simpa [SE.wf] using hw
        simp only [Bool.and_eq_true] at hw'; exact hw'.1.2
      case_dot hc t o p hw (main hc htol hsm o h (by simpa [SE.lay] using hl))
    | .idx t o p, hw, hl =>
      have h : o.wf = true ∧ p.wf = true := by
        have hw' : (t.type == .lbracket && !t.nl && decide (precCall ≤ o.level) && o.wf && p.wf) = true := by simpa [SE.wf] using hw
        simp only [Bool.and_eq_true] at hw'; exact ⟨hw'.1.2, hw'.2⟩
      have hl' : o.lay tol sm = true ∧ p.lay tol sm = true := by simpa [SE.lay] using hl
      case_idx hc t o p hw (main hc htol hsm o h.1 hl'.1) (main hc htol hsm p h.2 hl'.2)
    | .asg t l v, hw, hl =>
      have h : l.wf = true ∧ v.wf = true := by
        have hw' : (t.type == .assign && decide (precCall ≤ l.level) && l.wf && v.wf) = true := by simpa [SE.wf] using hw
        simp only [Bool.and_eq_true] at hw'; exact ⟨hw'.1.2, hw'.2⟩
      have hl' : l.lay tol sm = true ∧ v.lay tol sm = true := by simpa [SE.lay] using hl
      case_asg hc t l v hw (main hc htol hsm l h.1 hl'.1) (main hc htol hsm v h.2 hl'.2)
    | .casg t l v, hw, hl =>
      have h : l.wf = true ∧ v.wf = true := by
        have hw' : ((t.type == .plusAssign || t.type == .minusAssign) && decide (precCall ≤ l.level) && l.wf && v.wf) = true := by
          simpa [SE.wf] using hw
        simp only [Bool.and_eq_true] at hw'; exact ⟨hw'.1.2, hw'.2⟩
      have hl' : l.lay tol sm = true ∧ v.lay tol sm = true := by simpa [SE.lay] using hl
      case_casg hc t l v hw (main hc htol hsm l h.1 hl'.1) (main hc htol hsm v h.2 hl'.2)
    | .arr t es, hw, hl =>
      have h : es.wf = true := by
        have hw' : (t.type == .lbracket && es.wf) = true := by simpa [SE.wf] using hw
        simp only [Bool.and_eq_true] at hw'; exact hw'.2
      case_arr hc t es hw (mainList hc htol hsm es h (by simpa [SE.lay] using hl)).1
    | .func t name ps body, hw, hl =>
      have h : body.wf = true := by
        have hw' : (t.type == .function && (optTok name).all isIdentTok && ps.all isIdentTok && body.wf) = true := by
          simpa [SE.wf] using hw
        simp only [Bool.and_eq_true] at hw'; exact hw'.2
      case_func hc t name ps body hw (blockInv hc htol hsm body h rbrT (by simpa [SE.lay] using hl))
    | .obj t ps, hw, hl =>
      have h : ps.wf = true := by
        have hw' : (t.type == .lbrace && ps.wf) = true := by simpa [SE.wf] using hw
        simp only [Bool.and_eq_true] at hw'; exact hw'.2
      case_obj hc t ps hw (mainProps hc htol hsm ps h (by simpa [SE.lay] using hl))
  theorem mainList (hc : BaseCfg cfg) (htol : tol = true → cfg.tolerant = true) (hsm : sm = true → cfg.smart = true) :
      ∀ (es : SEList), es.wf = true → es.lay tol sm = true → MainList cfg es ∧ LoopInv cfg es
    | .nil, _, _ => ⟨list_nil, loop_nil⟩
    | .cons e rest, hw, hl =>
      have h : e.wf = true ∧ rest.wf = true := by
        have hw' : (e.wf && rest.wf) = true := by simpa [SEList.wf] using hw
        simp only [Bool.and_eq_true] at hw'; exact hw'
      have hl' : e.lay tol sm = true ∧ rest.lay tol sm = true := by simpa [SEList.lay] using hl
      ⟨list_cons hc e rest h.1 (main hc htol hsm e h.1 hl'.1) (mainList hc htol hsm rest h.2 hl'.2).2,
       loop_cons hc e rest h.1 (main hc htol hsm e h.1 hl'.1) (mainList hc htol hsm rest h.2 hl'.2).2⟩
  theorem mainProps (hc : BaseCfg cfg) (htol : tol = true → cfg.tolerant = true) (hsm : sm = true → cfg.smart = true) :
      ∀ (ps : SPList), ps.wf = true → ps.lay tol sm = true → PropsInv cfg ps
    | .nil, _, _ => props_nil
    | .cons k v rest, hw, hl =>
      have h : (k.wf = true ∧ v.wf = true) ∧ rest.wf = true := by
        have hw' : (k.wf && v.wf && rest.wf) = true := by simpa [SPList.wf] using hw
        simp only [Bool.and_eq_true] at hw'; exact hw'
      have hl' : (k.lay tol sm = true ∧ v.lay tol sm = true) ∧ rest.lay tol sm = true := by simpa [SPList.lay, and_assoc] using hl
      props_cons hc k v rest h.1.1 h.1.2 (main hc htol hsm k h.1.1 hl'.1.1) (main hc htol hsm v h.1.2 hl'.1.2) (mainProps hc htol hsm rest h.2 hl'.2)
  theorem stmtMain (hc : BaseCfg cfg) (htol : tol = true → cfg.tolerant = true) (hsm : sm = true → cfg.smart = true) :
      ∀ (s : SS), s.wf = true → s.lay tol sm = true → StmtMain cfg tol sm s
    | .exprS e semi, hw, hl =>
      have h : e.wf = true := by
        have hw' : (e.wf && (e.toks.headD lpT).type != .lbrace && (e.toks.headD lpT).type != .function) = true := by
          simpa [SS.wf] using hw
        simp only [Bool.and_eq_true] at hw'; exact hw'.1.1
      case_exprS hc htol hsm e semi hw (main hc htol hsm e h (by simpa [SS.lay] using hl))
    | .letS t name v semi, hw, hl =>
      have h : v.wf = true := by
        have hw' : (t.type == .let_ && isIdentTok name && v.wf) = true := by simpa [SS.wf] using hw
        simp only [Bool.and_eq_true] at hw'; exact hw'.2
      case_letS hc htol hsm t name v semi hw (main hc htol hsm v h (by simpa [SS.lay] using hl))
    | .letN t name, hw, _ => case_letN hc t name hw
    | .ret t v semi, hw, hl =>
      have h : v.wf = true := by
        have hw' : (t.type == .return_ && v.wf && !(v.toks.headD lpT).nl) = true := by simpa [SS.wf] using hw
        simp only [Bool.and_eq_true] at hw'; exact hw'.1.2
      case_ret hc htol hsm t v semi hw (main hc htol hsm v h (by simpa [SS.lay] using hl))
    | .retN t, hw, _ => case_retN hc t hw
    | .ifS t c thn, hw, hl =>
      have h : c.wf = true ∧ thn.wf = true := by
        have hw' : (t.type == .if_ && c.wf && thn.wf) = true := by simpa [SS.wf] using hw
        simp only [Bool.and_eq_true] at hw'; exact ⟨hw'.1.2, hw'.2⟩
      have hl' : c.lay tol sm = true ∧ thn.lay tol sm = true := by simpa [SS.lay] using hl
      case_ifS hc t c thn hw (main hc htol hsm c h.1 hl'.1) (stmtMain hc htol hsm thn h.2 hl'.2)
    | .ifElse t c thn el els, hw, hl =>
      have h : c.wf = true ∧ thn.wf = true ∧ els.wf = true := by
        have hw' : (t.type == .if_ && c.wf && thn.wf && !thn.openIf && els.wf && el.type == .else_) = true := by simpa [SS.wf] using hw
        simp only [Bool.and_eq_true] at hw'; exact ⟨hw'.1.1.1.1.2, hw'.1.1.1.2, hw'.1.2⟩
      have hl' : ((c.lay tol sm = true ∧ thn.lay tol sm = true) ∧ followOk tol sm thn el = true) ∧ els.lay tol sm = true := by
        simpa [SS.lay] using hl
      case_ifElse hc t c thn el els hw hl'.1.2 (main hc htol hsm c h.1 hl'.1.1.1) (stmtMain hc htol hsm thn h.2.1 hl'.1.1.2)
        (stmtMain hc htol hsm els h.2.2 hl'.2)
    | .whileS t c body, hw, hl =>
      have h : c.wf = true ∧ body.wf = true := by
        have hw' : (t.type == .while_ && c.wf && body.wf) = true := by simpa [SS.wf] using hw
        simp only [Bool.and_eq_true] at hw'; exact ⟨hw'.1.2, hw'.2⟩
      have hl' : c.lay tol sm = true ∧ body.lay tol sm = true := by simpa [SS.lay] using hl
      case_whileS hc t c body hw (main hc htol hsm c h.1 hl'.1) (stmtMain hc htol hsm body h.2 hl'.2)
    | .forS t i c u body, hw, hl =>
      have h : i.wf = true ∧ c.wf = true ∧ u.wf = true ∧ body.wf = true := by
        have hw' : (t.type == .for_ && i.wf && c.wf && u.wf && body.wf) = true := by simpa [SS.wf] using hw
        simp only [Bool.and_eq_true] at hw'; exact ⟨hw'.1.1.1.2, hw'.1.1.2, hw'.1.2, hw'.2⟩
      have hl' : ((i.lay tol sm = true ∧ c.lay tol sm = true) ∧ u.lay tol sm = true) ∧ body.lay tol sm = true := by simpa [SS.lay] using hl
      case_forS hc t i c u body hw (initMain hc htol hsm i h.1 hl'.1.1.1) (optMain hc htol hsm c h.2.1 hl'.1.1.2)
        (optMain hc htol hsm u h.2.2.1 hl'.1.2) (stmtMain hc htol hsm body h.2.2.2 hl'.2)
    | .block body, hw, hl => case_block hc body (blockInv hc htol hsm body (by simpa [SS.wf] using hw) rbrT (by simpa [SS.lay] using hl))
    | .funcD t name ps body, hw, hl =>
      have h : body.wf = true := by
        have hw' : (t.type == .function && isIdentTok name && ps.all isIdentTok && body.wf) = true := by simpa [SS.wf] using hw
        simp only [Bool.and_eq_true] at hw'; exact hw'.2
      case_funcD hc t name ps body hw (blockInv hc htol hsm body h rbrT (by simpa [SS.lay] using hl))
  theorem blockInv (hc : BaseCfg cfg) (htol : tol = true → cfg.tolerant = true) (hsm : sm = true → cfg.smart = true) :
      ∀ (ss : SSList), ss.wf = true → ∀ (closer : Token), ss.lay tol sm closer = true → BlockInv cfg ss closer
    | .nil, _, closer, _ => block_nil closer
    | .cons s rest, hw, closer, hl =>
      have h : s.wf = true ∧ rest.wf = true := by
        have hw' : (s.wf && rest.wf) = true := by simpa [SSList.wf] using hw
        simp only [Bool.and_eq_true] at hw'; exact hw'
      have hl' : (s.lay tol sm = true ∧ followOk tol sm s ((rest.toks ++ [closer]).headD closer) = true) ∧ rest.lay tol sm closer = true := by
        simpa [SSList.lay] using hl
      block_cons s rest closer h.1 hl'.1.2 (stmtMain hc htol hsm s h.1 hl'.1.1) (blockInv hc htol hsm rest h.2 closer hl'.2)
  theorem optMain (hc : BaseCfg cfg) (htol : tol = true → cfg.tolerant = true) (hsm : sm = true → cfg.smart = true) : ∀ (o : SOpt), o.wf = true → o.lay tol sm = true → OptMain cfg o
    | .none, _, _ => trivial
    | .some e, hw, hl => main hc htol hsm e (by simpa [SOpt.wf] using hw) (by simpa [SOpt.lay] using hl)
  theorem initMain (hc : BaseCfg cfg) (htol : tol = true → cfg.tolerant = true) (hsm : sm = true → cfg.smart = true) : ∀ (i : SInit), i.wf = true → i.lay tol sm = true → InitMain cfg i
    | .none, _, _ => trivial
    | .letN _ _, _, _ => trivial
    | .expr e, hw, hl => main hc htol hsm e (by simpa [SInit.wf] using hw) (by simpa [SInit.lay] using hl)
    | .letV t name v, hw, hl =>
      have h : v.wf = true := by
        have hw' : (t.type == .let_ && isIdentTok name && v.wf) = true := by simpa [SInit.wf] using hw
        simp only [Bool.and_eq_true] at hw'; exact hw'.2
      main hc htol hsm v h (by simpa [SInit.lay] using hl)
end

/-- THE ROUND TRIP for expressions: what the printer emits for a tree is parsed back to that tree, the cursor ending
    on the last token of the expression -/
theorem print_then_parse (hc : BaseCfg cfg) (htol : tol = true → cfg.tolerant = true) (hsm : sm = true → cfg.smart = true) (s : SE) (hw : s.wf = true)
    (hl : s.lay tol sm = true) (p : Nat) (st : PS) (rest : List Token)
    (hr : rest ≠ []) (ht : st.toks = s.toks ++ rest) (hf : s.fits p) (hs : stops cfg s.rbl rest) (hq : stops cfg p rest) :
    parseExpressionI cfg [] p st = some (s.tree, nextK (s.toks.length - 1) st) :=
  eval_of_main s (main hc htol hsm s hw hl) p st rest hr ht hf hs hq

/-- the statement loop of `ParseProgram`, up to the end-of-input token -/
theorem prog_inv (hc : BaseCfg cfg) (htol : tol = true → cfg.tolerant = true) (hsm : sm = true → cfg.smart = true) :
    ∀ (ss : SSList), ss.wf = true → ∀ (acc : StmtList) (st : PS) (eofTok : Token), ss.lay tol sm eofTok = true →
    eofTok.type = .eof → st.toks = ss.toks ++ [eofTok] →
    programLoop cfg acc st = some (acc.app ss.tree, nextK ss.toks.length st)
  | .nil, _, acc, st, eofTok, _, he, ht => by
    have ht' : st.toks = [eofTok] := by simpa [SSList.toks] using ht
    rw [programLoop]
    have : (st.cur.type != TokType.eof) = false := by rw [cur_of_toks ht', he]; rfl
    simp [this, SSList.tree, SSList.toks, nextK, StmtList.app_nil]
  | .cons s ss, hw, acc, st, eofTok, hl, he, ht => by
    have h : s.wf = true ∧ ss.wf = true := by
      have hw' : (s.wf && ss.wf) = true := by simpa [SSList.wf] using hw
      simp only [Bool.and_eq_true] at hw'; exact hw'
    have hl' : (s.lay tol sm = true ∧ followOk tol sm s ((ss.toks ++ [eofTok]).headD eofTok) = true) ∧ ss.lay tol sm eofTok = true := by
      simpa [SSList.lay] using hl
    obtain ⟨t, ts, h1, _, h3, _⟩ := head_stmt s h.1
    have ht' : st.toks = s.toks ++ (ss.toks ++ [eofTok]) := by rw [ht]; simp [SSList.toks]
    have hcur : st.cur = t := by rw [h1] at ht'; exact cur_of_toks (by simpa using ht')
    rw [programLoop]
    have hgo : (st.cur.type != TokType.eof) = true := by rw [hcur]; simpa using h3
    simp only [hgo, if_true]
    rw [stmtMain hc htol hsm s h.1 hl'.1.1 st (ss.toks ++ [eofTok]) (by simp) ht' (by rw [head_append]; exact hl'.1.2)]
    simp only [Option.bind_eq_bind, Option.bind_some, tree_not_none, Bool.false_eq_true, if_false]
    have hnext : (nextK (s.toks.length - 1) st).next = nextK s.toks.length st := by
      have : s.toks.length ≥ 1 := by rw [h1]; simp
      rw [← nextK_succ']; congr 1; omega
    rw [hnext]
    have htoks : (nextK s.toks.length st).toks = ss.toks ++ [eofTok] := toks_at s.toks _ st ht' (by simp)
    rw [prog_inv hc htol hsm ss h.2 (acc.snoc s.tree) _ eofTok hl'.2 he htoks, StmtList.snoc_app]
    congr 2
    simp only [SSList.toks, List.length_append]
    rw [nextK_add]

theorem nextK_errors (k : Nat) (st : PS) : (nextK k st).errors = st.errors := by
  induction k generalizing st with
  | zero => rfl
  | succ k ih => rw [nextK, ih, next_errors']

/-- THE ROUND TRIP FOR PROGRAMS: the token sequence of any well-formed program tree in any admissible layout of statement
    terminators (`;` written, or left to automatic insertion where `lay` allows it), followed by the end-of-input token, is
    parsed to exactly that tree, without any error. `tol = false`: every mode; `tol = true`: the tolerant modes. -/
theorem program_round_trip (hc : BaseCfg cfg) (htol : tol = true → cfg.tolerant = true) (hsm : sm = true → cfg.smart = true) (prog : SSList) (hw : prog.wf = true)
    (eofTok : Token) (he : eofTok.type = .eof) (hl : prog.lay tol sm eofTok = true) :
    ∃ r, parseProgram cfg (prog.toks ++ [eofTok]) = some r ∧ r.prog = prog.tree ∧ r.errors = [] ∧ r.hasErr = false := by
  unfold parseProgram
  rw [prog_inv hc htol hsm prog hw .nil (PS.init (prog.toks ++ [eofTok])) eofTok hl he rfl]
  refine ⟨_, rfl, ?_, ?_, ?_⟩
  · simp [StmtList.app]
  · simp [nextK_errors, PS.init]
  · simp [nextK_errors, PS.init]

end Xjs.RA
