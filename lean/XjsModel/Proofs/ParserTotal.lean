import XjsModel.Proofs.ParserTotalBase
/-
  Totality of the parser, part 2: every function of the mutual block returns on every EOF-terminated token list,
  by induction on the number of tokens left; within one size the functions are taken in the order of their
  same-size calls (prefix < remaining < expression < statement < block loop).
-/
namespace Xjs.Total
open Xjs

variable {cfg : PCfg}

/-! ### `Steps` for every function of the block (projections of the frame pass) -/
theorem st_stmtI {is st r} (h : parseStatementI cfg is st = some r) : Steps st r.2 := (steps_mutual cfg).1 is st r h st (.refl _)
theorem st_base {st r} (h : baseParseStatement cfg st = some r) : Steps st r.2 := (steps_mutual cfg).2.1 st r h st (.refl _)
theorem st_exprStmt {st r} (h : parseExpressionStatement cfg st = some r) : Steps st r.2 := (steps_mutual cfg).2.2.1 st r h st (.refl _)
theorem st_exprI {is p st r} (h : parseExpressionI cfg is p st = some r) : Steps st r.2 := (steps_mutual cfg).2.2.2.1 is p st r h st (.refl _)
theorem st_rem {l p st r} (h : parseRemaining cfg l p st = some r) : Steps st r.2 := (steps_mutual cfg).2.2.2.2.1 l p st r h st (.refl _)
theorem st_infix {l st r} (h : parseInfixExpression cfg l st = some r) : Steps st r.2 := (steps_mutual cfg).2.2.2.2.2.1 l st r h st (.refl _)
theorem st_list {e st r} (h : parseExpressionList cfg e st = some r) : Steps st r.2 := (steps_mutual cfg).2.2.2.2.2.2.1 e st r h st (.refl _)
theorem st_listLoop {a st r} (h : exprListLoop cfg a st = some r) : Steps st r.2 := (steps_mutual cfg).2.2.2.2.2.2.2.1 a st r h st (.refl _)
theorem st_prefix {st r} (h : parsePrefixExpression cfg st = some r) : Steps st r.2 := (steps_mutual cfg).2.2.2.2.2.2.2.2.1 st r h st (.refl _)
theorem st_funcE {st r} (h : parseFunctionExpression cfg st = some r) : Steps st r.2 := (steps_mutual cfg).2.2.2.2.2.2.2.2.2.1 st r h st (.refl _)
theorem st_block {st r} (h : parseBlockStatement cfg st = some r) : Steps st r.2 := (steps_mutual cfg).2.2.2.2.2.2.2.2.2.2.1 st r h st (.refl _)
theorem st_blockLoop {a st r} (h : blockLoop cfg a st = some r) : Steps st r.2 := (steps_mutual cfg).2.2.2.2.2.2.2.2.2.2.2.1 a st r h st (.refl _)
theorem st_objLit {st r} (h : parseObjectLiteral cfg st = some r) : Steps st r.2 := (steps_mutual cfg).2.2.2.2.2.2.2.2.2.2.2.2.1 st r h st (.refl _)
theorem st_objLoop {a st r} (h : objectLoop cfg a st = some r) : Steps st r.2 := (steps_mutual cfg).2.2.2.2.2.2.2.2.2.2.2.2.2.1 a st r h st (.refl _)
theorem st_forS {st r} (h : parseForStatement cfg st = some r) : Steps st r.2 := (steps_mutual cfg).2.2.2.2.2.2.2.2.2.2.2.2.2.2.1 st r h st (.refl _)
theorem st_forInit {st r} (h : parseForInit cfg st = some r) : Steps st r.2 := (steps_mutual cfg).2.2.2.2.2.2.2.2.2.2.2.2.2.2.2.1 st r h st (.refl _)
theorem st_letE {st r} (h : parseLetExpression cfg st = some r) : Steps st r.2 := (steps_mutual cfg).2.2.2.2.2.2.2.2.2.2.2.2.2.2.2.2.1 st r h st (.refl _)
theorem st_whileS {st r} (h : parseWhileStatement cfg st = some r) : Steps st r.2 := (steps_mutual cfg).2.2.2.2.2.2.2.2.2.2.2.2.2.2.2.2.2.1 st r h st (.refl _)
theorem st_ifS {st r} (h : parseIfStatement cfg st = some r) : Steps st r.2 := (steps_mutual cfg).2.2.2.2.2.2.2.2.2.2.2.2.2.2.2.2.2.2.1 st r h st (.refl _)
theorem st_ret {st r} (h : parseReturnStatement cfg st = some r) : Steps st r.2 := (steps_mutual cfg).2.2.2.2.2.2.2.2.2.2.2.2.2.2.2.2.2.2.2.1 st r h st (.refl _)
theorem st_funcS {st r} (h : parseFunctionStatement cfg st = some r) : Steps st r.2 := (steps_mutual cfg).2.2.2.2.2.2.2.2.2.2.2.2.2.2.2.2.2.2.2.2.1 st r h st (.refl _)
theorem st_letS {st r} (h : parseLetStatement cfg st = some r) : Steps st r.2 := (steps_mutual cfg).2.2.2.2.2.2.2.2.2.2.2.2.2.2.2.2.2.2.2.2.2 st r h st (.refl _)
theorem st_params {st r} (h : parseFunctionParameters st = some r) : Steps st r.2 := steps_parseFunctionParameters st r h st (.refl _)

/-- everything returns on states with at most `n` tokens left -/
structure All (cfg : PCfg) (n : Nat) : Prop where
  stmtI : ∀ is st, M n st → (parseStatementI cfg is st).isSome = true
  base : ∀ st, M n st → (baseParseStatement cfg st).isSome = true
  exprStmt : ∀ st, M n st → (parseExpressionStatement cfg st).isSome = true
  exprI : ∀ is prec st, 1 ≤ prec → M n st → (parseExpressionI cfg is prec st).isSome = true
  rem : ∀ left prec st, 1 ≤ prec → M n st → (parseRemaining cfg left prec st).isSome = true
  inf : ∀ left st, M n st → (parseInfixExpression cfg left st).isSome = true
  list : ∀ endTy st, st.cur.type ≠ .eof → M n st → (parseExpressionList cfg endTy st).isSome = true
  listLoop : ∀ acc st, M n st → (exprListLoop cfg acc st).isSome = true
  pfx : ∀ st, M n st → (parsePrefixExpression cfg st).isSome = true
  funcE : ∀ st, M n st → (parseFunctionExpression cfg st).isSome = true
  block : ∀ st, st.cur.type ≠ .eof → M n st → (parseBlockStatement cfg st).isSome = true
  blockLoop : ∀ acc st, M n st → (blockLoop cfg acc st).isSome = true
  objLit : ∀ st, st.cur.type ≠ .eof → M n st → (parseObjectLiteral cfg st).isSome = true
  objLoop : ∀ acc st, M n st → (objectLoop cfg acc st).isSome = true
  forS : ∀ st, M n st → (parseForStatement cfg st).isSome = true
  forInit : ∀ st, M n st → (parseForInit cfg st).isSome = true
  letE : ∀ st, M n st → (parseLetExpression cfg st).isSome = true
  whileS : ∀ st, M n st → (parseWhileStatement cfg st).isSome = true
  ifS : ∀ st, M n st → (parseIfStatement cfg st).isSome = true
  ret : ∀ st, M n st → (parseReturnStatement cfg st).isSome = true
  funcS : ∀ st, M n st → (parseFunctionStatement cfg st).isSome = true
  letS : ∀ st, M n st → (parseLetStatement cfg st).isSome = true

/-- `ExpectToken`: split on the outcome, with the size facts of the new state -/
syntax "texp " ident ident ident term : tactic
macro_rules
  | `(tactic| texp $hx:ident $s:ident $f:ident $hE:term) => `(tactic| (
      try dsimp only
      generalize $hx:ident : expectToken _ _ = x
      obtain ⟨ok, $s:ident⟩ := x
      have $f := expect_facts $hx (by decide) $hE
      cases ok <;> simp only [Bool.not_true, Bool.not_false, Bool.false_eq_true, if_true, if_false, true_implies,
        false_implies, and_true, forall_const] at $f:ident ⊢))

syntax "tsemi " ident ident ident term : tactic
macro_rules
  | `(tactic| tsemi $hx:ident $s:ident $f:ident $hE:term) => `(tactic| (
      try dsimp only
      generalize $hx:ident : expectSemiASI _ _ = x
      obtain ⟨ok, $s:ident⟩ := x
      have $f := semi_facts $hx $hE
      cases ok <;> simp only [Bool.not_true, Bool.not_false, Bool.false_eq_true, if_true, if_false] <;> try rfl))

/-! ### parameter lists (outside the block) -/

theorem tot_paramsLoop : ∀ (n : Nat) (acc : List Ident) (st : PS), M n st → (paramsLoop acc st).isSome = true := by
  intro n
  induction n with
  | zero => intro acc st h; have := h.1.len_pos; have := h.2; omega
  | succ n ih =>
    intro acc st ⟨hE, hn⟩
    rw [paramsLoop]
    split
    next hp =>
      have hp' : st.peek.type = .comma := by simpa using hp
      have h2 := hE.peek (by rw [hp']; decide)
      have a := next_len st; have b := next_len st.next
      exact ih _ _ ⟨hE.next.next, by omega⟩
    next => rfl

theorem tot_params (st : PS) (hE : EofEnd st) : (parseFunctionParameters st).isSome = true := by
  unfold parseFunctionParameters
  split
  · rfl
  · refine bind_ok (fun r hr => steps_paramsLoop _ _ r hr _ (.refl _)) hE.next (tot_paramsLoop _ _ _ ⟨hE.next, Nat.le_refl _⟩) ?_
    intro a s' hE' _
    simp only
    split <;> rfl

theorem opt_expr_ok {β : Type} (c : Prop) [Decidable c] (is : List EI) (p : Nat) (s : PS) (hE : EofEnd s)
    (h : c → (parseExpressionI cfg is p s.next).isSome = true) {k : Expr × PS → Option β}
    (h2 : ∀ a s', EofEnd s' → s'.toks.length ≤ s.toks.length → (k (a, s')).isSome = true) :
    ((if c then parseExpressionI cfg is p s.next else some (Expr.none, s)) >>= k).isSome = true := by
  refine bind_ok (s := s) ?_ hE ?_ h2
  · intro r hr
    split at hr
    · exact (Steps.next (.refl s)).trans (st_exprI hr) |> fun x => x
    · cases hr; exact .refl _
  · split
    · exact h ‹_›
    · rfl

/-! ### level A: every recursive call is on a strictly shorter list -/

section A
variable (hT : TablesOk cfg) {n : Nat} (ih : All cfg n)
include ih

theorem a_letS : ∀ st, M (n + 1) st → (parseLetStatement cfg st).isSome = true := by
  intro st ⟨hE, hn⟩
  rw [parseLetStatement]
  texp hx s1 f1 hE
  · rfl
  split
  · have a := next_len s1; have b := next_len s1.next
    refine bind_ok (fun r hr => st_exprI hr) f1.1.next.next (ih.exprI _ _ _ (by decide) ⟨f1.1.next.next, by omega⟩) ?_
    intro v s2 hE2 hl2
    try dsimp only
    tsemi hy s3 f3 hE2
  · tsemi hy s3 f3 f1.1

theorem a_letE : ∀ st, M (n + 1) st → (parseLetExpression cfg st).isSome = true := by
  intro st ⟨hE, hn⟩
  rw [parseLetExpression]
  texp hx s1 f1 hE
  · rfl
  split
  · have a := next_len s1; have b := next_len s1.next
    refine bind_ok (fun r hr => st_exprI hr) f1.1.next.next (ih.exprI _ _ _ (by decide) ⟨f1.1.next.next, by omega⟩) ?_
    intro v s2 hE2 hl2
    try dsimp only
    rfl
  · rfl

theorem a_ret : ∀ st, M (n + 1) st → (parseReturnStatement cfg st).isSome = true := by
  intro st ⟨hE, hn⟩
  rw [parseReturnStatement]
  split
  next hc =>
    have hpe : st.peek.type ≠ .eof := by
      simp only [Bool.and_eq_true, bne_iff_ne] at hc; exact hc.1.1.2
    have h2 := hE.peek hpe
    have a := next_len st
    refine bind_ok (fun r hr => st_exprI hr) hE.next (ih.exprI _ _ _ (by decide) ⟨hE.next, by omega⟩) ?_
    intro v s2 hE2 hl2
    try dsimp only
    tsemi hy s3 f3 hE2
  next => tsemi hy s3 f3 hE

theorem a_ifS : ∀ st, M (n + 1) st → (parseIfStatement cfg st).isSome = true := by
  intro st ⟨hE, hn⟩
  rw [parseIfStatement]
  texp hx s1 f1 hE
  · rfl
  have a := next_len s1
  refine bind_ok (fun r hr => st_exprI hr) f1.1.next (ih.exprI _ _ _ (by decide) ⟨f1.1.next, by omega⟩) ?_
  intro c s2 hE2 hl2
  try dsimp only
  texp hy s3 f3 hE2
  · rfl
  have b := next_len s3
  refine bind_ok (fun r hr => st_stmtI hr) f3.1.next (ih.stmtI _ _ ⟨f3.1.next, by omega⟩) ?_
  intro t s4 hE4 hl4
  try dsimp only
  split
  · have c := next_len s4; have d := next_len s4.next
    refine bind_ok (fun r hr => st_stmtI hr) hE4.next.next (ih.stmtI _ _ ⟨hE4.next.next, by omega⟩) ?_
    intro e s5 _ _
    try dsimp only
    rfl
  · rfl

theorem a_whileS : ∀ st, M (n + 1) st → (parseWhileStatement cfg st).isSome = true := by
  intro st ⟨hE, hn⟩
  rw [parseWhileStatement]
  texp hx s1 f1 hE
  · rfl
  have a := next_len s1
  refine bind_ok (fun r hr => st_exprI hr) f1.1.next (ih.exprI _ _ _ (by decide) ⟨f1.1.next, by omega⟩) ?_
  intro c s2 hE2 hl2
  try dsimp only
  texp hy s3 f3 hE2
  · rfl
  have b := next_len s3
  refine bind_ok (fun r hr => st_stmtI hr) f3.1.next (ih.stmtI _ _ ⟨f3.1.next, by omega⟩) ?_
  intro t s4 hE4 hl4
  try dsimp only
  rfl

theorem a_forS : ∀ st, M (n + 1) st → (parseForStatement cfg st).isSome = true := by
  intro st ⟨hE, hn⟩
  rw [parseForStatement]
  texp hx s1 f1 hE
  · rfl
  refine bind_ok (fun r hr => st_forInit hr) f1.1 (ih.forInit _ ⟨f1.1, by omega⟩) ?_
  intro i s2 hE2 hl2
  try dsimp only
  texp hy s3 f3 hE2
  · rfl
  have a := next_len s3
  refine opt_expr_ok _ _ _ s3 f3.1 (fun _ => ih.exprI _ _ _ (by decide) ⟨f3.1.next, by omega⟩) ?_
  intro c s4 hE4 hl4
  try dsimp only
  texp hz s5 f5 hE4
  · rfl
  have b := next_len s5
  refine opt_expr_ok _ _ _ s5 f5.1 (fun _ => ih.exprI _ _ _ (by decide) ⟨f5.1.next, by omega⟩) ?_
  intro u s6 hE6 hl6
  try dsimp only
  texp hw s7 f7 hE6
  · rfl
  have c := next_len s7
  refine bind_ok (fun r hr => st_stmtI hr) f7.1.next (ih.stmtI _ _ ⟨f7.1.next, by omega⟩) ?_
  intro t s8 _ _
  rfl

theorem a_block : ∀ st, st.cur.type ≠ .eof → M (n + 1) st → (parseBlockStatement cfg st).isSome = true := by
  intro st hc ⟨hE, hn⟩
  rw [parseBlockStatement]
  have h2 := hE.cur hc
  have a := next_len (st.push .block)
  simp only [push_toks] at a
  refine bind_ok (fun r hr => st_blockLoop hr) (hE.push _).next (ih.blockLoop _ _ ⟨(hE.push _).next, by omega⟩) ?_
  intro b s2 _ _
  rfl

theorem a_funcS : ∀ st, M (n + 1) st → (parseFunctionStatement cfg st).isSome = true := by
  intro st ⟨hE, hn⟩
  rw [parseFunctionStatement]
  texp hx s1 f1 hE
  · rfl
  texp hy s2 f2 f1.1
  · rfl
  refine bind_ok (fun r hr => st_params hr) f2.1 (tot_params _ f2.1) ?_
  intro ps s3 hE3 hl3
  try dsimp only
  texp hz s4 f4 hE3
  · rfl
  refine bind_ok (fun r hr => st_block hr) (f4.1.push _) (ih.block _ (by rw [push_cur, f4.2.2.2]; decide) ⟨f4.1.push _, by simp only [push_toks]; omega⟩) ?_
  intro b s5 _ _
  rfl

theorem a_funcE : ∀ st, M (n + 1) st → (parseFunctionExpression cfg st).isSome = true := by
  intro st ⟨hE, hn⟩
  rw [parseFunctionExpression]
  have a := next_len st
  have key : ∀ (tk : Token) (nm : Option Ident) (s0 : PS), EofEnd s0 → s0.toks.length ≤ st.toks.length →
      (match expectToken .lparen s0 with
       | (ok, st) => if !ok then some (Expr.none, st) else
          (parseFunctionParameters st) >>= fun (params, st) =>
            match expectToken .lbrace st with
            | (ok, st) => if !ok then some (Expr.none, st) else
              (parseBlockStatement cfg (st.push .function)) >>= fun (body, st) =>
                some (Expr.func tk nm params body, st.pop)).isSome = true := by
    intro tk nm s0 hE0 hl0
    texp hy s2 f2 hE0
    · rfl
    refine bind_ok (fun r hr => st_params hr) f2.1 (tot_params _ f2.1) ?_
    intro ps s3 hE3 hl3
    try dsimp only
    texp hz s4 f4 hE3
    · rfl
    refine bind_ok (fun r hr => st_block hr) (f4.1.push _) (ih.block _ (by rw [push_cur, f4.2.2.2]; decide) ⟨f4.1.push _, by simp only [push_toks]; omega⟩) ?_
    intro b s5 _ _
    rfl
  by_cases hc : (st.peek.type == TokType.ident) = true
  · rw [if_pos hc]; exact key _ _ _ hE.next a.1
  · rw [if_neg hc]; exact key _ _ _ hE (Nat.le_refl _)

theorem a_listLoop : ∀ acc st, M (n + 1) st → (exprListLoop cfg acc st).isSome = true := by
  intro acc st ⟨hE, hn⟩
  rw [exprListLoop]
  split
  next hp =>
    have hp' : st.peek.type = .comma := by simpa using hp
    have h2 := hE.peek (by rw [hp']; decide)
    have a := next_len st; have b := next_len st.next
    refine bind_ok (fun r hr => st_exprI hr) hE.next.next (ih.exprI _ _ _ (by decide) ⟨hE.next.next, by omega⟩) ?_
    intro e s2 hE2 hl2
    try dsimp only
    exact ih.listLoop _ _ ⟨hE2, by omega⟩
  next => rfl

theorem a_list : ∀ endTy st, st.cur.type ≠ .eof → M (n + 1) st → (parseExpressionList cfg endTy st).isSome = true := by
  intro endTy st hc ⟨hE, hn⟩
  rw [parseExpressionList]
  have h2 := hE.cur hc
  have a := next_len st
  split
  · rfl
  · refine bind_ok (fun r hr => st_exprI hr) hE.next (ih.exprI _ _ _ (by decide) ⟨hE.next, by omega⟩) ?_
    intro e s2 hE2 hl2
    try dsimp only
    refine bind_ok (fun r hr => st_listLoop hr) hE2 (ih.listLoop _ _ ⟨hE2, by omega⟩) ?_
    intro es s3 hE3 hl3
    try dsimp only
    generalize expectToken _ _ = x
    obtain ⟨ok, s4⟩ := x
    cases ok <;> rfl

theorem a_objLit : ∀ st, st.cur.type ≠ .eof → M (n + 1) st → (parseObjectLiteral cfg st).isSome = true := by
  intro st hc ⟨hE, hn⟩
  rw [parseObjectLiteral]
  have h2 := hE.cur hc
  have a := next_len st
  dsimp only
  split
  · rfl
  · refine bind_ok (fun r hr => st_objLoop hr) hE.next (ih.objLoop _ _ ⟨hE.next, by omega⟩) ?_
    intro r s2 hE2 hl2
    cases r with
    | none => rfl
    | some props =>
      try dsimp only
      texp hx s3 f3 hE2 <;> rfl

omit ih in
/-- an infix parse function consumes its operator token -/
theorem infix_steps (hT : TablesOk cfg) {left : Expr} {st : PS} {r : Expr × PS} (hE : EofEnd st)
    (h : parseInfixExpression cfg left st = some r) (hk : (lookup cfg.infixFns st.peek.type).isSome = true) :
    r.2.toks.length < st.toks.length := by
  have hne : st.peek.type ≠ .eof := by
    intro e; rw [e, hT.eof_no_infix] at hk; cases hk
  have h2 := hE.peek hne
  have a := next_len st
  suffices hs : Steps st.next r.2 by have := hs.toks_length; omega
  rw [parseInfixExpression] at h
  cases hl : lookup cfg.infixFns st.peek.type with
  | none => rw [hl] at hk; cases hk
  | some kind =>
    rw [hl] at h
    dsimp only at h
    cases kind <;> dsimp only at h
    · obtain ⟨⟨e, s1⟩, h1, h2⟩ := bind_some h
      have hs := st_exprI h1; cases h2
      exact (Steps.next (.refl _)).trans hs
    · obtain ⟨⟨e, s1⟩, h1, h2⟩ := bind_some h
      have hs := st_exprI h1; cases h2
      exact (Steps.next (.refl _)).trans hs
    · obtain ⟨⟨e, s1⟩, h1, h2⟩ := bind_some h
      have hs := st_exprI h1; cases h2
      exact (Steps.next (.refl _)).trans hs
    · obtain ⟨⟨e, s1⟩, h1, h2⟩ := bind_some h
      have hs := st_list h1; cases h2
      exact hs
    · obtain ⟨⟨e, s1⟩, h1, h2⟩ := bind_some h
      have hs := st_exprI h1; cases h2
      exact (Steps.next (.refl _)).trans hs
    · obtain ⟨⟨e, s1⟩, h1, h2⟩ := bind_some h
      have hs := (Steps.next (.refl _)).trans (st_exprI h1)
      dsimp only at h2
      split at h2 <;> cases h2 <;> exact steps_expectToken _ hs
    · cases h; exact .refl _

theorem a_inf (hT : TablesOk cfg) : ∀ left st, M (n + 1) st → (parseInfixExpression cfg left st).isSome = true := by
  intro left st ⟨hE, hn⟩
  rw [parseInfixExpression]
  cases hl : lookup cfg.infixFns st.peek.type with
  | none => rfl
  | some kind =>
    have hne : st.peek.type ≠ .eof := by
      intro e; rw [e, hT.eof_no_infix] at hl; cases hl
    have h2 := hE.peek hne
    have a := next_len st; have b := next_len st.next
    have hcur : st.next.cur.type ≠ .eof := by
      have : st.next.cur = st.peek := by unfold PS.next PS.cur PS.peek; split <;> simp_all
      rw [this]; exact hne
    dsimp only
    cases kind <;> dsimp only
    · refine bind_ok (fun r hr => st_exprI hr) hE.next.next (ih.exprI _ _ _ (hT.prec_pos _) ⟨hE.next.next, by omega⟩) ?_
      intro e s2 _ _; rfl
    · refine bind_ok (fun r hr => st_exprI hr) hE.next.next (ih.exprI _ _ _ (by decide) ⟨hE.next.next, by omega⟩) ?_
      intro e s2 _ _; rfl
    · refine bind_ok (fun r hr => st_exprI hr) hE.next.next (ih.exprI _ _ _ (by decide) ⟨hE.next.next, by omega⟩) ?_
      intro e s2 _ _; rfl
    · refine bind_ok (fun r hr => st_list hr) hE.next (ih.list _ _ hcur ⟨hE.next, by omega⟩) ?_
      intro e s2 _ _; rfl
    · refine bind_ok (fun r hr => st_exprI hr) hE.next.next (ih.exprI _ _ _ (by decide) ⟨hE.next.next, by omega⟩) ?_
      intro e s2 _ _; rfl
    · refine bind_ok (fun r hr => st_exprI hr) hE.next.next (ih.exprI _ _ _ (by decide) ⟨hE.next.next, by omega⟩) ?_
      intro e s2 hE2 _
      try dsimp only
      texp hx s3 f3 hE2 <;> rfl
    · rfl

/-! ### levels B – H: same-size calls go to a function handled earlier -/

theorem b_pfx (hT : TablesOk cfg) : ∀ st, M (n + 1) st → (parsePrefixExpression cfg st).isSome = true := by
  intro st ⟨hE, hn⟩
  rw [parsePrefixExpression]
  cases hl : lookup cfg.prefixFns st.cur.type with
  | none => rfl
  | some kind =>
    have hne : st.cur.type ≠ .eof := by
      intro e; rw [e, hT.eof_no_prefix] at hl; cases hl
    have h2 := hE.cur hne
    have a := next_len st
    cases kind <;> dsimp only
    · rfl
    · split <;> rfl
    · split <;> rfl
    · rfl
    · rfl
    · rfl
    · rfl
    · refine bind_ok (fun r hr => st_exprI hr) hE.next (ih.exprI _ _ _ (by decide) ⟨hE.next, by omega⟩) ?_
      intro e s2 _ _; rfl
    · refine bind_ok (fun r hr => st_exprI hr) hE.next (ih.exprI _ _ _ (by decide) ⟨hE.next, by omega⟩) ?_
      intro e s2 hE2 _
      try dsimp only
      texp hx s3 f3 hE2 <;> rfl
    · refine bind_ok (fun r hr => st_list hr) hE (a_list ih _ _ hne ⟨hE, hn⟩) ?_
      intro e s2 _ _; rfl
    · exact a_objLit ih _ hne ⟨hE, hn⟩
    · exact a_funcE ih _ ⟨hE, hn⟩

theorem c_rem (hT : TablesOk cfg) : ∀ left prec st, 1 ≤ prec → M (n + 1) st → (parseRemaining cfg left prec st).isSome = true := by
  intro left prec st hp ⟨hE, hn⟩
  rw [parseRemaining]
  split
  next hc =>
    split
    · rfl
    split
    · rfl
    · have hk : (lookup cfg.infixFns st.peek.type).isSome = true := by
        simp only [Bool.and_eq_true, decide_eq_true_eq] at hc
        exact hT.infix_of_prec _ (by have := hc.2; unfold peekPrecedence at this; omega)
      cases hf : parseInfixExpression cfg left st with
      | none => have := a_inf ih hT left st ⟨hE, hn⟩; rw [hf] at this; cases this
      | some r =>
        have hlt := infix_steps hT hE hf hk
        have hE2 := (st_infix hf).eofEnd hE
        simp only [Option.bind_eq_bind, Option.bind_some]
        exact ih.rem _ _ _ hp ⟨hE2, by omega⟩
  next => rfl

theorem d_exprI (hT : TablesOk cfg) : ∀ is prec st, 1 ≤ prec → M (n + 1) st → (parseExpressionI cfg is prec st).isSome = true := by
  intro is
  induction is with
  | nil =>
    intro prec st hp ⟨hE, hn⟩
    rw [parseExpressionI]
    refine bind_ok (fun r hr => st_prefix hr) hE (b_pfx ih hT _ ⟨hE, hn⟩) ?_
    intro l s2 hE2 hl2
    exact c_rem ih hT _ _ _ hp ⟨hE2, by omega⟩
  | cons i rest ihl =>
    intro prec st hp ⟨hE, hn⟩
    rw [parseExpressionI]
    dsimp only
    cases i.kind <;> dsimp only
    · refine bind_ok (fun r hr => st_exprI hr) (hE.of_toks rfl) (ihl _ _ hp ⟨hE.of_toks rfl, hn⟩) ?_
      intro e s2 _ _; rfl
    · have hp1 := b_pfx ih hT { st with curPrec := prec, trace := st.trace ++ [st.event true i.id] } ⟨hE.of_toks rfl, hn⟩
      cases hf : parsePrefixExpression cfg { st with curPrec := prec, trace := st.trace ++ [st.event true i.id] } with
      | none => rw [hf] at hp1; cases hp1
      | some r =>
      obtain ⟨l, s2⟩ := r
      have hS := st_prefix hf
      have hE2 : EofEnd s2 := hS.eofEnd (hE.of_toks rfl)
      have hl2 := hS.toks_length
      have hcp : s2.curPrec = prec := hS.curPrec_eq
      simp only [Option.bind_eq_bind, Option.bind_some]
      refine bind_ok (fun r hr => st_rem hr) hE2 (c_rem ih hT _ _ _ (by rw [hcp]; exact hp) ⟨hE2, by simp only at hl2; omega⟩) ?_
      intro e s3 _ _; rfl

theorem e_objLoop (hT : TablesOk cfg) : ∀ acc st, M (n + 1) st → (objectLoop cfg acc st).isSome = true := by
  intro acc st ⟨hE, hn⟩
  rw [objectLoop]
  refine bind_ok (fun r hr => st_exprI hr) hE (d_exprI ih hT _ _ _ (by decide) ⟨hE, hn⟩) ?_
  intro k s2 hE2 hl2
  try dsimp only
  texp hx s3 f3 hE2
  · rfl
  have a := next_len s3
  refine bind_ok (fun r hr => st_exprI hr) f3.1.next (ih.exprI _ _ _ (by decide) ⟨f3.1.next, by omega⟩) ?_
  intro v s4 hE4 hl4
  try dsimp only
  split
  · rfl
  · have b := next_len s4; have c := next_len s4.next
    exact ih.objLoop _ _ ⟨hE4.next.next, by omega⟩

theorem e_forInit (hT : TablesOk cfg) : ∀ st, M (n + 1) st → (parseForInit cfg st).isSome = true := by
  intro st ⟨hE, hn⟩
  rw [parseForInit]
  have a := next_len st
  split
  · dsimp only
    split
    · exact a_letE ih _ ⟨hE.next, by omega⟩
    · exact d_exprI ih hT _ _ _ (by decide) ⟨hE.next, by omega⟩
  · rfl

theorem e_exprStmt (hT : TablesOk cfg) : ∀ st, M (n + 1) st → (parseExpressionStatement cfg st).isSome = true := by
  intro st ⟨hE, hn⟩
  rw [parseExpressionStatement]
  refine bind_ok (fun r hr => st_exprI hr) hE (d_exprI ih hT _ _ _ (by decide) ⟨hE, hn⟩) ?_
  intro e s2 hE2 hl2
  try dsimp only
  tsemi hy s3 f3 hE2

theorem f_base (hT : TablesOk cfg) : ∀ st, M (n + 1) st → (baseParseStatement cfg st).isSome = true := by
  intro st hM
  rw [baseParseStatement.eq_def]
  split
  · exact a_letS ih _ hM
  · exact a_funcS ih _ hM
  · exact a_ret ih _ hM
  · exact a_ifS ih _ hM
  · exact a_whileS ih _ hM
  · exact a_forS ih _ hM
  · next h => exact a_block ih _ (by rw [h]; decide) hM
  · exact e_exprStmt ih hT _ hM

theorem g_stmtI (hT : TablesOk cfg) : ∀ is st, M (n + 1) st → (parseStatementI cfg is st).isSome = true := by
  intro is
  induction is with
  | nil => intro st hM; rw [parseStatementI]; exact f_base ih hT _ hM
  | cons i rest ihl =>
    intro st hM
    rw [parseStatementI]
    exact ihl _ ⟨hM.1.of_toks rfl, hM.2⟩

theorem h_blockLoop (hT : TablesOk cfg) : ∀ acc st, M (n + 1) st → (blockLoop cfg acc st).isSome = true := by
  intro acc st ⟨hE, hn⟩
  rw [blockLoop]
  split
  next hc =>
    have hne : st.cur.type ≠ .eof := by
      simp only [Bool.and_eq_true, bne_iff_ne] at hc; exact hc.2
    have h2 := hE.cur hne
    refine bind_ok (fun r hr => st_stmtI hr) hE (g_stmtI ih hT _ _ ⟨hE, hn⟩) ?_
    intro s s2 hE2 hl2
    try dsimp only
    have a := next_len s2
    have := hE2.len_pos
    exact ih.blockLoop _ _ ⟨hE2.next, by omega⟩
  next => rfl

end A

/-- everything returns, on every EOF-terminated token list -/
theorem all (hT : TablesOk cfg) : ∀ n, All cfg n := by
  intro n
  induction n with
  | zero =>
    have z : ∀ st, M 0 st → False := fun st h => by have := h.1.len_pos; have := h.2; omega
    constructor <;> intros <;> exact absurd ‹M 0 _› (fun h => z _ h)
  | succ n ih =>
    exact {
      stmtI := g_stmtI ih hT, base := f_base ih hT, exprStmt := e_exprStmt ih hT, exprI := d_exprI ih hT,
      rem := c_rem ih hT, inf := a_inf ih hT, list := a_list ih, listLoop := a_listLoop ih, pfx := b_pfx ih hT,
      funcE := a_funcE ih, block := a_block ih, blockLoop := h_blockLoop ih hT, objLit := a_objLit ih,
      objLoop := e_objLoop ih hT, forS := a_forS ih, forInit := e_forInit ih hT, letE := a_letE ih,
      whileS := a_whileS ih, ifS := a_ifS ih, ret := a_ret ih, funcS := a_funcS ih, letS := a_letS ih }

/-- the statement loop of `ParseProgram` returns -/
theorem tot_programLoop (hT : TablesOk cfg) : ∀ (n : Nat) (acc : StmtList) (st : PS), M n st → (programLoop cfg acc st).isSome = true := by
  intro n
  induction n with
  | zero => intro acc st h; have := h.1.len_pos; have := h.2; omega
  | succ n ih =>
    intro acc st ⟨hE, hn⟩
    rw [programLoop]
    split
    next hc =>
      have hne : st.cur.type ≠ .eof := by simpa using hc
      have h2 := hE.cur hne
      refine bind_ok (fun r hr => st_stmtI hr) hE ((all hT (n + 1)).stmtI _ _ ⟨hE, hn⟩) ?_
      intro s s2 hE2 hl2
      try dsimp only
      have a := next_len s2
      have := hE2.len_pos
      exact ih _ _ ⟨hE2.next, by omega⟩
    next => rfl

/-- PARSING TERMINATES: on every EOF-terminated token list `ParseProgram` returns a result -/
theorem parseProgram_total (hT : TablesOk cfg) (toks : List Token)
    (hend : ∃ pre e, toks = pre ++ [e] ∧ e.type = .eof) : ∃ r, parseProgram cfg toks = some r := by
  unfold parseProgram
  have h := tot_programLoop hT toks.length .nil (PS.init toks) ⟨hend, Nat.le_refl _⟩
  cases hf : programLoop cfg .nil (PS.init toks) with
  | none => rw [hf] at h; cases h
  | some r => exact ⟨_, rfl⟩

end Xjs.Total
