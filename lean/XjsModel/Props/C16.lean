import XjsModel.Proofs.ParserFrame
import XjsModel.Proofs.ParserEventsPass
/-
  C16 — Parsing-context queries reflect the real nesting.

  Quantifier: ALL token lists (hence all inputs, valid or malformed), ALL parser configurations
  (strict/tolerant, smart semicolons, any operator tables, any interceptor lists).

  Proved here, by one pass over the parser's mutual fixed point (`steps_mutual`) + inductions on `Steps`:
    (a) after parsing any input the context stack is back at `[Global]`;
    (b) every parse function returns with the stack it was entered with (push/pop are balanced on every
        exit path, including all error paths);
    (c, partial) what an interceptor observes is faithful to the stack at that moment
        (`IsInFunction ↔ Function ∈ stack`, `CurrentContext = top`), the stack never differs from the
        caller's below the caller's depth, every event recorded while a function body is parsed reports
        `IsInFunction = true`, and the stack a statement/expression interceptor sees is exactly the stack with which the
        statement/expression was entered.
  NOT proved in Lean (decided by the correspondence run and the model-free context oracle only): that the
  stack at an event equals the nesting path *in the tree finally returned* (needs the print/parse round trip).
-/
namespace Xjs.C16
open Xjs

/-- (b) statements: balanced on every exit path -/
theorem statement_balanced (cfg : PCfg) (is : List SI) (st : PS) (r : Stmt × PS)
    (h : parseStatementI cfg is st = some r) : r.2.ctx = st.ctx :=
  (steps_parseStatementI cfg is st r h).ctx_eq

/-- (b) expressions (function expressions push and pop inside) -/
theorem expression_balanced (cfg : PCfg) (is : List EI) (prec : Nat) (st : PS) (r : Expr × PS)
    (h : parseExpressionI cfg is prec st = some r) : r.2.ctx = st.ctx :=
  (steps_parseExpressionI cfg is prec st r h).ctx_eq

/-- (a) after parsing ANY token list in ANY configuration the context is back at top level -/
theorem final_context_is_global (cfg : PCfg) (toks : List Token) (r : ParseResult)
    (h : parseProgram cfg toks = some r) :
    r.final.ctx = [.global] ∧ r.final.currentContext = .global ∧ r.final.isInFunction = false := by
  have := (steps_parseProgram cfg toks r h).ctx_eq
  simp only [PS.init] at this
  refine ⟨this, ?_, ?_⟩
  · simp [PS.currentContext, this]
  · simp [PS.isInFunction, this]

/-- the same for source text -/
theorem final_context_is_global_src (cfg : PCfg) (src : Bytes) (r : ParseResult)
    (h : parseSource cfg src = some r) : r.final.ctx = [.global] :=
  (final_context_is_global cfg (lexAll src) r h).1

/-- (c) every event recorded during a whole parse is faithful (`IsInFunction`, `CurrentContext`, depth are
    those of the stack at that moment) and its stack has `Global` at the bottom -/
theorem events_faithful (cfg : PCfg) (toks : List Token) (r : ParseResult)
    (h : parseProgram cfg toks = some r) :
    ∀ ev ∈ r.final.trace, ev.Faithful ∧ [Ctx.global] <:+ ev.stack := by
  obtain ⟨new, h1, h2⟩ := (steps_parseProgram cfg toks r h).events
  simp only [PS.init, List.nil_append] at h1
  intro ev hev
  rw [h1] at hev
  exact h2 ev hev

/-- (c) while a function body (declaration or expression, at any depth) is being parsed, every
    interceptor invocation reports `IsInFunction = true`, and its stack extends the function's own -/
theorem events_inside_function_body (cfg : PCfg) (st : PS) (r : Stmt × PS)
    (h : parseBlockStatement cfg (st.push .function) = some r) :
    ∃ new, r.2.trace = st.trace ++ new ∧
      ∀ ev ∈ new, ev.inFunction = true ∧ (Ctx.function :: st.ctx) <:+ ev.stack := by
  obtain ⟨_, _, _, _, _, _, _, _, _, _, hB, _⟩ := steps_mutual cfg
  obtain ⟨new, h1, h2⟩ := (hB _ r h _ (.refl _)).events
  refine ⟨new, h1, ?_⟩
  intro ev hev
  obtain ⟨hf, hs⟩ := h2 ev hev
  refine ⟨?_, hs⟩
  rw [hf.1]
  obtain ⟨pre, hpre⟩ := hs
  rw [← hpre]
  simp [PS.push]

/-- (c) the first thing a chain of statement interceptors does is observe the state the statement is entered
    with: current token = first token of the statement, stack = the stack at entry -/
theorem statement_interceptor_sees_entry_state (cfg : PCfg) (i : SI) (rest : List SI) (st : PS) :
    parseStatementI cfg (i :: rest) st =
      parseStatementI cfg rest { st with trace := st.trace ++ [st.event false i.id] } ∧
    (st.event false i.id).cur = st.cur ∧ (st.event false i.id).stack = st.ctx := by
  refine ⟨?_, rfl, rfl⟩
  rw [parseStatementI]

/-! Non-vacuity: the hypotheses are satisfiable (the empty program here; the correspondence run executes the
    same definition `parseProgram` on thousands of generated inputs, all of which return `some`). -/
example : ∃ r, parseProgram {} [dummyTok] = some r ∧ r.final.ctx = [.global] := by
  have h : parseProgram {} [dummyTok] =
      some { prog := .nil, errors := [], hasErr := false, final := PS.init [dummyTok] } := by
    rw [parseProgram, programLoop]
    simp [PS.init, PS.cur, dummyTok]
  exact ⟨_, h, rfl⟩

/-! ### the answers are the nesting of the tree -/

/-- the context stack the specification gives an event is the syntactic nesting of its place in the tree: `.function`
    for every enclosing function body (declaration or expression), `.block` for every enclosing block — so the answers
    recorded in it are those of the nesting -/
theorem event_answers_follow_its_stack (isExpr : Bool) (id : Nat) (t : Token) (ctx : List Ctx) :
    (mkEv isExpr id t ctx).inFunction = ctx.contains .function ∧ (mkEv isExpr id t ctx).ctx = ctx.headD .global ∧
    (mkEv isExpr id t ctx).stack = ctx ∧ (mkEv isExpr id t ctx).cur = t := ⟨rfl, rfl, rfl, rfl⟩

/-- whenever an interceptor runs during an error-free parse, what `IsInFunction` and `CurrentContext` answer is what the
    returned tree says about the place of the current token: the whole sequence of events — tokens and answers — is
    the one computed from the tree alone by `Spec/Events` (a function body pushes `.function`, a block `.block`),
    and after parsing the stack is back at `[global]`. For every token list, mode, table and interceptor chain. -/
theorem answers_equal_the_nesting_in_the_tree (cfg : PCfg) (toks : List Token) (r : ParseResult)
    (h : parseProgram cfg toks = some r) (hok : r.errors = []) :
    r.final.trace = r.prog.stmtsEv cfg.stmtI cfg.exprI [.global] ∧ r.final.ctx = [.global] :=
  trace_is_the_tree's cfg toks r h hok

/-! Non-vacuity: the expression statement inside `function f() { a }` is announced with the stack [block, function, global] -/
example (tf tn tb ta rb : Token) :
    (StmtList.cons (.funcD tf ⟨tn, tn.lit⟩ [] (.block tb (.cons (.exprS (.ident ⟨ta, ta.lit⟩)) .nil) rb)) .nil).stmtsEv [⟨1⟩] [] [.global] =
      [mkEv false 1 tf [.global], mkEv false 1 ta [.block, .function, .global]] := by
  simp [StmtList.stmtsEv, Stmt.innerEv, Expr.innerEv, stepS, stepE, effE, Stmt.firstTok, Expr.firstTok, tokOf]

end Xjs.C16

#print axioms Xjs.C16.statement_balanced
#print axioms Xjs.C16.expression_balanced
#print axioms Xjs.C16.final_context_is_global
#print axioms Xjs.C16.final_context_is_global_src
#print axioms Xjs.C16.events_faithful
#print axioms Xjs.C16.events_inside_function_body
#print axioms Xjs.C16.statement_interceptor_sees_entry_state
#print axioms Xjs.C16.answers_equal_the_nesting_in_the_tree
