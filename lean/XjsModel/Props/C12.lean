import XjsModel.Proofs.ParserTokensPass
import XjsModel.Proofs.CommentsChain
/-
  C12 — Strict mode never silently accepts malformed programs.

  Quantifier: ALL token lists, all modes, operator tables and interceptor lists.

  Proved here (`tokens_mutual`, one pass over the parser's mutual fixed point):
    TOKEN FAITHFULNESS. If a parse reports no error, then the sequence of tokens the parser has moved over —
    the input up to the end-of-input token it stopped at — is, after deleting `;` and `,`, EXACTLY the token
    sequence of the tree it returns (`StmtList.flat`: every node's tokens in source order, with the fixed punctuation
    of each construct). No token is skipped, none is invented, none is reordered: an accepted text IS a spelling of
    the returned tree. Consequently a corruption that leaves a token that fits nowhere, removes a required token,
    or truncates a construct cannot be accepted silently: the equation cannot hold for the tree of any construct.
    Together with C11 (an error-free tree is complete) this is the soundness half of C12.
  Decided by the correspondence run on corrupted programs and the model-free oracle (reference JavaScript parser):
    that the first error is not located before the last intact token; the over-acceptances of the grammar itself
    (known findings `static-overaccept`, `postfix-as-callee-or-object`, `asi-before-backtick`).
-/
namespace Xjs.C12
open Xjs

/-- `Parser.NextToken` on the token buffer alone -/
def nextL : List Token → List Token
  | _ :: t :: ts => t :: ts
  | [t] => [eofAgain t]
  | [] => []
def curL (l : List Token) : Token := l.headD dummyTok
/-- the types of the first `n` cursor positions -/
def spanL : List Token → Nat → List TokType
  | _, 0 => []
  | l, n + 1 => (curL l).type :: spanL (nextL l) n

theorem next_toks (st : PS) : st.next.toks = nextL st.toks := by
  unfold PS.next nextL; split <;> simp_all
theorem cur_eq (st : PS) : st.cur = curL st.toks := rfl

/-- `k` applications of `nextL` -/
def nextN : Nat → List Token → List Token
  | 0, l => l
  | k + 1, l => nextN k (nextL l)

theorem nextN_succ' (k : Nat) (l : List Token) : nextN (k + 1) l = nextL (nextN k l) := by
  induction k generalizing l with
  | zero => rfl
  | succ k ih => rw [nextN, ih (nextL l)]; rfl

theorem nextN_add (a b : Nat) (l : List Token) : nextN (a + b) l = nextN b (nextN a l) := by
  induction a generalizing l with
  | zero => simp [nextN]
  | succ a ih => rw [Nat.succ_add]; simp only [nextN]; exact ih _

theorem spanL_add (l : List Token) (a b : Nat) : spanL l (a + b) = spanL l a ++ spanL (nextN a l) b := by
  induction a generalizing l with
  | zero => simp [spanL, nextN]
  | succ a ih =>
    rw [Nat.succ_add]
    simp only [spanL, nextN]
    rw [ih]; rfl

theorem spanL_succ_last (l : List Token) (k : Nat) : spanL l (k + 1) = spanL l k ++ [(curL (nextN k l)).type] := by
  rw [spanL_add l k 1]; simp [spanL]

/-- the ghost field `consumed` is the list of token types at the cursor positions passed so far -/
theorem Steps.consumed_span {s s' : PS} (h : Steps s s') :
    ∃ k, s'.toks = nextN k s.toks ∧ s'.consumed = s.consumed ++ spanL s.toks k := by
  induction h with
  | refl => exact ⟨0, rfl, by simp [spanL]⟩
  | next _ ih =>
    obtain ⟨k, h1, h2⟩ := ih
    refine ⟨k + 1, ?_, ?_⟩
    · rw [next_toks, h1, nextN_succ']
    · rw [next_consumed, h2, spanL_succ_last, cur_eq, h1, List.append_assoc]
  | addErr _ _ _ _ ih => exact ih
  | trace _ _ _ ih => exact ih
  | ctxBracket c _ _ ih1 ih2 =>
    obtain ⟨k1, a1, b1⟩ := ih1
    obtain ⟨k2, a2, b2⟩ := ih2
    refine ⟨k1 + k2, ?_, ?_⟩
    · simp only [PS.pop, PS.push] at *; rw [a2, a1, nextN_add]
    · simp only [PS.pop, PS.push] at *; rw [b2, b1, a1, spanL_add, List.append_assoc]
  | precBracket _ _ _ _ ih1 ih2 =>
    obtain ⟨k1, a1, b1⟩ := ih1
    obtain ⟨k2, a2, b2⟩ := ih2
    refine ⟨k1 + k2, ?_, ?_⟩
    · simp only at *; rw [a2, a1, nextN_add]
    · simp only at *; rw [b2, b1, a1, spanL_add, List.append_assoc]

theorem tok_programLoop (cfg : PCfg) (acc : StmtList) (st : PS) (r : StmtList × PS)
    (h : programLoop cfg acc st = some r) :
    st.elen ≤ r.2.elen ∧ ((∀ P, FC st = P ++ F acc.flat → FC r.2 = P ++ F r.1.flat) ∨ st.elen < r.2.elen) := by
  refine programLoop.partial_correctness cfg
    (fun acc st r => st.elen ≤ r.2.elen ∧ ((∀ P, FC st = P ++ F acc.flat → FC r.2 = P ++ F r.1.flat) ∨ st.elen < r.2.elen))
    ?_ acc st r h
  intro f ih acc st r h
  split at h
  · obtain ⟨⟨s, st1⟩, h1, h2⟩ := bind_some h
    obtain ⟨l1, r1⟩ := (tokens_mutual cfg).1 _ _ _ h1
    obtain ⟨l2, r2⟩ := ih _ _ _ h2
    dsimp only at l1 r1
    simp only [elen_next] at l2 r2
    refine ⟨by omega, ?_⟩
    rcases r1 with ⟨hn, r1⟩ | r1
    · rcases r2 with r2 | r2
      · left
        intro P hP
        apply r2
        rw [FC_next, r1, hP, hn]
        simp [StmtList.flat_snoc]
      · right; omega
    · right; omega
  · cases h; exact ⟨Nat.le_refl _, Or.inl (fun P hP => hP)⟩

/-- TOKEN FAITHFULNESS: an error-free parse has moved over exactly the tokens of the tree it returns
    (`;` and `,` aside), and stopped on an end-of-input token. -/
theorem accepted_text_is_the_tree (cfg : PCfg) (toks : List Token) (r : ParseResult)
    (h : parseProgram cfg toks = some r) (hok : r.errors = []) :
    ∃ k, r.final.toks = nextN k toks ∧ F (spanL toks k) = F r.prog.flat ∧ r.final.cur.type = .eof := by
  have hs := steps_parseProgram cfg toks r h
  obtain ⟨k, hk1, hk2⟩ := Steps.consumed_span hs
  unfold parseProgram at h
  obtain ⟨⟨stmts, st⟩, h1, h2⟩ := bind_some h
  cases h2
  simp only [PS.init, List.nil_append] at hk1 hk2
  refine ⟨k, hk1, ?_, ?_⟩
  · obtain ⟨_, rr⟩ := tok_programLoop cfg _ _ _ h1
    rcases rr with rr | rr
    · have := rr [] (by simp [FC, PS.init, StmtList.flat])
      simp only [FC, List.nil_append] at this
      rw [← hk2]; exact this
    · simp only [PS.elen, PS.init, List.length_nil] at rr
      simp only at hok
      rw [hok] at rr; simp at rr
  · -- the statement loop of `ParseProgram` only stops on an end-of-input token
    have : ∀ acc st r, programLoop cfg acc st = some r → r.2.cur.type = .eof := by
      intro acc st r hh
      refine programLoop.partial_correctness cfg (fun _ _ r => r.2.cur.type = .eof) ?_ acc st r hh
      intro f ih acc st r h
      split at h
      · obtain ⟨⟨s, st1⟩, _, h2⟩ := bind_some h; exact ih _ _ _ h2
      · rename_i hc; cases h; simpa using hc
    exact this _ _ _ h1

/-- while the cursor has not stepped beyond the token list, the positions passed are a prefix of the input -/
theorem spanL_prefix (l : List Token) (k : Nat) (hk : k < l.length) : spanL l k = (l.take k).map (·.type) := by
  induction k generalizing l with
  | zero => simp [spanL]
  | succ k ih =>
    match l, hk with
    | a :: b :: ts, hk =>
      simp only [spanL, curL, nextL, List.headD_cons, List.take_succ_cons, List.map_cons]
      rw [ih (b :: ts) (by simp at hk ⊢; omega)]
    | [a], hk => simp at hk

/-- NOTHING SKIPPED: if the parser did not step beyond the end of the token list, the accepted input — all its
    tokens before the end-of-input token the parser stopped at — is exactly the token sequence of the tree. -/
theorem nothing_skipped (cfg : PCfg) (toks : List Token) (r : ParseResult)
    (h : parseProgram cfg toks = some r) (hok : r.errors = []) :
    ∃ k, (k < toks.length → F ((toks.take k).map (·.type)) = F r.prog.flat) ∧ r.final.toks = nextN k toks := by
  obtain ⟨k, h1, h2, _⟩ := accepted_text_is_the_tree cfg toks r h hok
  exact ⟨k, fun hk => by rw [← spanL_prefix toks k hk]; exact h2, h1⟩

/-- an ILLEGAL token (e.g. an unterminated literal, a NUL byte, an unknown character) never occurs in the flat
    token sequence of a tree built with the built-in tables' literal tokens … it would have to be consumed by a
    construct; with the built-in tables no construct starts with, or continues over, an ILLEGAL token -/
theorem illegal_is_no_prefix_token : lookup basePrefixFns .illegal = none ∧ lookup baseInfixFns .illegal = none := by
  decide

/-! Non-vacuity -/
example : ∃ r, parseProgram {} [dummyTok] = some r ∧ r.errors = [] := by
  refine ⟨{ prog := .nil, errors := [], hasErr := false, final := PS.init [dummyTok] }, ?_, rfl⟩
  rw [parseProgram, programLoop]
  simp [PS.init, PS.cur, dummyTok]
example : F ((Stmt.exprS (.binary { type := .plus, lit := [43], sl := 0, sc := 1, el := 0, ec := 1 }
    (.ident { tok := { type := .ident, lit := [97], sl := 0, sc := 0, el := 0, ec := 1 }, value := [97] }) [43]
    (.int { type := .int, lit := [49], sl := 0, sc := 2, el := 0, ec := 3 }))).flat) = [.ident, .plus, .int] := by decide

/-! ### nothing invented, as full token records -/

/-- the tokens a tree may store: those of the input; beyond them only the repeat of the last one as end of input
    (trivia cleared), the end token of an empty input, and Go's zero token (the unrecorded closing brace of `{}`) -/
def FromInput (toks : List Token) (t : Token) : Prop :=
  t ∈ toks ∨ t = dummyTok ∨ t = zeroTok ∨ ∃ u ∈ toks, t = eofAgain u

theorem fromInput_closed (toks : List Token) : Closed (FromInput toks) := by
  refine ⟨Or.inr (Or.inl rfl), Or.inr (Or.inr (Or.inl rfl)), ?_⟩
  intro t ht
  rcases ht with h | h | h | ⟨u, hu, h⟩
  · exact Or.inr (Or.inr (Or.inr ⟨t, h, rfl⟩))
  · subst h; exact Or.inr (Or.inl rfl)
  · subst h; exact Or.inr (Or.inr (Or.inl rfl))
  · subst h; exact Or.inr (Or.inr (Or.inr ⟨u, hu, rfl⟩))

/-- every token stored anywhere in the returned tree — positions, literal, after-newline flag and leading comments
    included — is a token of the input (or one of the three end markers): for every token list, mode, table and
    interceptor chain, whatever errors were reported -/
theorem tree_tokens_come_from_the_input (cfg : PCfg) (toks : List Token) (r : ParseResult)
    (h : parseProgram cfg toks = some r) : r.prog.allT (FromInput toks) :=
  prov_parseProgram cfg _ (fromInput_closed toks) toks r h (fun _ ht => Or.inl ht)

/-! Non-vacuity: `allT` of a one-statement tree says its token is an input token -/
example (toks : List Token) (t : Token) (h : (StmtList.cons (.exprS (.int t)) .nil).allT (FromInput toks)) :
    FromInput toks t := by simpa [StmtList.allT, Stmt.allT, Expr.allT] using h

end Xjs.C12

#print axioms Xjs.C12.accepted_text_is_the_tree
#print axioms Xjs.C12.nothing_skipped
#print axioms Xjs.C12.illegal_is_no_prefix_token
#print axioms Xjs.C12.tree_tokens_come_from_the_input
