import XjsModel.Props.C03
import XjsModel.Props.C12
/-
  C02 — The subset is parsed exactly as JavaScript parses it.

  The ECMAScript grammar for the operator core of the subset is a precedence-stratified, left-associative grammar:
  LogicalOR < LogicalAND < Equality < Relational < Additive < Multiplicative < Unary < Postfix(Update). A text derives
  a tree exactly when every left operand of lower level and every right operand of lower OR EQUAL level stands in
  parentheses (more parentheses are always allowed). `RA.SE.toks` is that rendering (trusted, two lines), with `grp`
  for redundant parentheses.

  Proved here:
    * COMPLETENESS for ALL trees of the language (expressions incl. function and object literals, every statement
      kind, whole programs; any depth / combination / redundant parentheses), with explicit semicolons:
      the rendering parses, in any mode, to exactly the tree it was rendered from (`RA.main`);
    * the binding powers order the operator tokens exactly as the ECMAScript levels do, equal levels for the
      operators of one production (table obligation, re-extracted from /repo on every run);
    * for EVERY accepted text, of the whole subset: the token sequence of the returned tree is the input token
      sequence (`;` and `,` aside) — statement structure cannot swallow, duplicate or reorder tokens (from C12).
    * AUTOMATIC SEMICOLONS: leaving out a terminator where a semicolon is inserted and the next token cannot continue
      the expression gives the same tree (`automatic_semicolons_give_the_same_tree`), restricted productions included
      (after fix f7f7cd3);
  Decided by the correspondence run and the model-free oracle (independent unparser in many layouts, goja/acorn as
  reference parsers): that xjs's insertion rule is ECMAScript's, layout independence at byte level (whitespace,
  comments), SOUNDNESS (that no
  other text is accepted with another grouping than ECMAScript's).
  Known finding there: bare-cr (D10) (restricted productions: repaired, f7f7cd3).
-/
namespace Xjs.C02
open Xjs Xjs.RA

/-- the ECMAScript levels of the binary operator tokens, lowest first -/
def ecmaLevels : List (List TokType) :=
  [[.or], [.and], [.eq, .notEq], [.lt, .gt, .lte, .gte], [.plus, .minus], [.multiply, .divide, .modulo]]

/-- operators of one ECMAScript production have one binding power; productions are ordered as in the grammar;
    all of them lie strictly between assignment and the prefix operators, which lie below postfix, call, member -/
theorem binding_powers_follow_ecmascript :
    (∀ lvl ∈ ecmaLevels, ∀ a ∈ lvl, ∀ b ∈ lvl, precOf {} a = precOf {} b) ∧
    (ecmaLevels.map (fun lvl => precOf {} (lvl.headD .illegal))).Pairwise (· < ·) ∧
    (∀ lvl ∈ ecmaLevels, ∀ a ∈ lvl, ASSIGNMENT < precOf {} a ∧ precOf {} a < UNARY) ∧
    UNARY < POSTFIX ∧ POSTFIX < CALL ∧ CALL < MEMBER ∧
    precOf {} .assign = ASSIGNMENT ∧ precOf {} .plusAssign = ASSIGNMENT ∧ precOf {} .minusAssign = ASSIGNMENT ∧
    precOf {} .increment = POSTFIX ∧ precOf {} .decrement = POSTFIX ∧
    precOf {} .lparen = CALL ∧ precOf {} .dot = MEMBER ∧ precOf {} .lbracket = MEMBER := by decide

/-- COMPLETENESS (expressions without function / object literals): every tree, rendered with the parentheses the grammar requires (and any redundant
    ones), is accepted and parsed to exactly that tree; the parser's mode flags play no role. -/
theorem operator_core_parsed_as_rendered (cfg : PCfg) (hc : BaseCfg cfg) (s : SE) (hw : s.wf = true) (hterm : s.term = true)
    (st : PS) (rest : List Token) (hr : rest ≠ []) (ht : st.toks = s.toks ++ rest) (hstop : stops cfg LOWEST rest) :
    parseExpressionI cfg [] LOWEST st = some (s.tree, nextK (s.toks.length - 1) st) ∧
    (nextK (s.toks.length - 1) st).errors = st.errors := by
  refine ⟨C03.printed_tokens_parse_back cfg hc s hw hterm st rest hr ht hstop, ?_⟩
  have key : ∀ (k : Nat) (st : PS), (nextK k st).errors = st.errors := by
    intro k
    induction k with
    | zero => intro st; rfl
    | succ k ih => intro st; rw [nextK, ih, next_errors']
  exact key _ st

/-- COMPLETENESS for whole programs: every program tree — all statement kinds, function and object literals — rendered
    with `;` after expression, `let` and `return` statements and the parentheses the grammar requires, is accepted
    without error and parsed to exactly that tree, in every mode -/
theorem program_parsed_as_rendered (cfg : PCfg) (hc : BaseCfg cfg) (prog : SSList) (hw : prog.wf = true)
    (hterm : prog.term = true) (eofTok : Token) (he : eofTok.type = .eof) :
    ∃ r, parseProgram cfg (prog.toks ++ [eofTok]) = some r ∧ r.prog = prog.tree ∧ r.errors = [] ∧ r.hasErr = false :=
  C03.printed_program_parses_back cfg hc prog hw hterm eofTok he

/-- AUTOMATIC SEMICOLONS: a statement terminator may be left out wherever the token behind the statement is one at
    which a semicolon is inserted (end of input, `}`, or a token on a new line other than `-=`) and which cannot
    continue the expression (no infix or call token, except a postfix `++` / `--` on the new line; `SSList.lay false false`).
    The program is then parsed, in every mode, to the same tree as with all terminators written — the tree
    (`SSList.tree`) does not depend on the `semi` flags at all. -/
theorem automatic_semicolons_give_the_same_tree (cfg : PCfg) (hc : BaseCfg cfg) (prog : SSList) (hw : prog.wf = true)
    (eofTok : Token) (he : eofTok.type = .eof) (hlay : prog.lay false false eofTok = true) :
    ∃ r, parseProgram cfg (prog.toks ++ [eofTok]) = some r ∧ r.prog = prog.tree ∧ r.errors = [] ∧ r.hasErr = false :=
  program_round_trip (tol := false) (sm := false) hc (fun h => by cases h) (fun h => by cases h) prog hw eofTok he hlay

/-- redundant parentheses never change the tree other than by the explicit grouping node -/
theorem redundant_parentheses_only_add_grouping (lp rp : Token) (s : SE) :
    (SE.grp lp s rp).tree = .group lp s.tree rp ∧ (SE.grp lp s rp).toks = lp :: s.toks ++ [rp] := by
  simp [SE.tree, SE.toks]

/-- for every accepted text of the WHOLE subset the tree's tokens are the input's tokens (see C12) -/
theorem accepted_text_is_the_tree (cfg : PCfg) (toks : List Token) (r : ParseResult)
    (h : parseProgram cfg toks = some r) (hok : r.errors = []) :
    ∃ k, r.final.toks = Xjs.C12.nextN k toks ∧ F (Xjs.C12.spanL toks k) = F r.prog.flat ∧ r.final.cur.type = .eof :=
  Xjs.C12.accepted_text_is_the_tree cfg toks r h hok

/-! Non-vacuity: `a - b - c` renders without parentheses (left-associative), `a - (b - c)` needs them -/
private def tk (ty : TokType) (lit : Bytes) : Token := { type := ty, lit := lit, sl := 0, sc := 0, el := 0, ec := 0 }
private def a := SE.atom (tk .ident [97])
private def b := SE.atom (tk .ident [98])
private def c := SE.atom (tk .ident [99])
example : (SE.bin (tk .minus [45]) (SE.bin (tk .minus [45]) a b) c).toks.map (·.type) = [.ident, .minus, .ident, .minus, .ident] := by decide
example : (SE.bin (tk .minus [45]) a (SE.bin (tk .minus [45]) b c)).toks.map (·.type) = [.ident, .minus, .lparen, .ident, .minus, .ident, .rparen] := by decide
/-- assignment is right-associative: `a = b += c` is `a = (b += c)` and needs no parentheses -/
example : (SE.asg (tk .assign [61]) a (SE.casg (tk .plusAssign [43, 61]) b c)).toks.map (·.type) = [.ident, .assign, .ident, .plusAssign, .ident] := by decide
example : (SE.asg (tk .assign [61]) a (SE.casg (tk .plusAssign [43, 61]) b c)).wf = true := by decide

/-- `a = b⏎c` : two statements, the first without `;` (the token `c` stands on a new line) -/
private def asiProg : SSList :=
  .cons (.exprS (.asg (tk .assign [61]) a b) false)
    (.cons (.exprS (.atom { type := .ident, lit := [99], sl := 1, sc := 0, el := 1, ec := 1, nl := true }) true) .nil)
example : asiProg.wf = true ∧ asiProg.lay false false (tk .eof []) = true := by decide
example : asiProg.toks.map (·.type) = [.ident, .assign, .ident, .ident, .semicolon] := by decide

end Xjs.C02

#print axioms Xjs.C02.binding_powers_follow_ecmascript
#print axioms Xjs.C02.operator_core_parsed_as_rendered
#print axioms Xjs.C02.program_parsed_as_rendered
#print axioms Xjs.C02.automatic_semicolons_give_the_same_tree
#print axioms Xjs.C02.redundant_parentheses_only_add_grouping
#print axioms Xjs.C02.accepted_text_is_the_tree
