import XjsModel.Proofs.ParserPlainPass
import XjsModel.Proofs.ParserEventsPass
/-
  C04 — Plugin interception is transparent, ordered and re-entrant.

  Quantifier: ALL token lists (valid or malformed input), ALL modes and operator tables, ANY number of
  statement interceptors and of expression interceptors of both pass-through kinds (observer: calls `next()`;
  re-entrant: parses the prefix itself and asks the parser for the remaining expression), in any order.

  Proved here:
    (a) transparency: whenever the intercepted parse returns, the interceptor-free parse of the same tokens
        returns the same tree, the same errors and the same final cursor (one pass over the parser's
        mutual fixed point, `plain_mutual`);
    (b) order: the interceptors of a chain run once per parse step, in installation order, each observing the
        same current token — the first token of the construct — and the same context;
    (c) the re-entrant path yields the same tree as the default path (instance of (a) — the result does not
        depend on the interceptor kinds at all);
    (d) `currentExpressionPrecedence` is restored on exit of every parse step.
  Not modelled in Lean: token interceptors of the lexer (decided by the LEX/PARSE correspondence streams and
  the model-free transparency oracle).
-/
namespace Xjs.C04
open Xjs

/-- (a) for one statement step -/
theorem statement_step_transparent (cfg : PCfg) (is : List SI) (st : PS) (r : Stmt × PS)
    (h : parseStatementI cfg is st = some r) :
    parseStatementI cfg.plain [] st.strip = some (r.1, r.2.strip) :=
  ((plain_mutual cfg).1 is st r h).2

/-- (a)+(c) for one expression step: whatever the kinds of the installed interceptors -/
theorem expression_step_transparent (cfg : PCfg) (is : List EI) (prec : Nat) (st : PS) (r : Expr × PS)
    (h : parseExpressionI cfg is prec st = some r) :
    parseExpressionI cfg.plain [] prec st.strip = some (r.1, r.2.strip) :=
  ((plain_mutual cfg).2.2.2.1 is prec st r h).2

theorem plain_programLoop (cfg : PCfg) (acc : StmtList) (st : PS) (r : StmtList × PS)
    (h : programLoop cfg acc st = some r) : programLoop cfg.plain acc st.strip = some (r.1, r.2.strip) := by
  refine programLoop.partial_correctness cfg
    (fun acc st r => programLoop cfg.plain acc st.strip = some (r.1, r.2.strip)) ?_ acc st r h
  intro f ih acc st r h
  rw [programLoop]
  simp only [strip_cur, plain_stmtI]
  split at h
  · rename_i hc
    obtain ⟨⟨s, st1⟩, h1, h2⟩ := bind_some h
    have a1 := statement_step_transparent cfg _ _ _ h1
    have a2 := ih _ _ _ h2
    simp only [hc, if_true, a1, Option.bind_eq_bind, Option.bind_some, strip_next]
    exact a2
  · rename_i hc
    cases h
    simp only [hc]; rfl

/-- (a) Installing any number of pass-through statement and expression interceptors changes neither the tree
    nor the errors nor the error value nor the final token position. -/
theorem interceptors_are_transparent (cfg : PCfg) (toks : List Token) (r : ParseResult)
    (h : parseProgram cfg toks = some r) :
    ∃ r0, parseProgram cfg.plain toks = some r0 ∧
      r0.prog = r.prog ∧ r0.errors = r.errors ∧ r0.hasErr = r.hasErr ∧ r0.final = r.final.strip := by
  unfold parseProgram at h ⊢
  obtain ⟨⟨stmts, st⟩, h1, h2⟩ := bind_some h
  cases h2
  have := plain_programLoop cfg _ _ _ h1
  have e : (PS.init toks).strip = PS.init toks := rfl
  rw [e] at this
  rw [this]
  exact ⟨_, rfl, rfl, rfl, rfl, rfl⟩

/-- (c) two configurations that differ only in their interceptor lists (e.g. observers replaced by re-entrant
    interceptors) give the same tree and errors whenever both return -/
theorem result_independent_of_interceptors (cfg cfg' : PCfg) (hp : cfg.plain = cfg'.plain) (toks : List Token)
    (r r' : ParseResult) (h : parseProgram cfg toks = some r) (h' : parseProgram cfg' toks = some r') :
    r.prog = r'.prog ∧ r.errors = r'.errors := by
  obtain ⟨a, ha, p1, e1, _, _⟩ := interceptors_are_transparent cfg toks r h
  obtain ⟨b, hb, p2, e2, _, _⟩ := interceptors_are_transparent cfg' toks r' h'
  rw [hp] at ha
  rw [ha] at hb
  cases hb
  exact ⟨by rw [← p1, p2], by rw [← e1, e2]⟩

/-- the event a statement interceptor records does not depend on the trace recorded so far -/
theorem event_ignores_trace (st : PS) (t : List Event) (p : Nat) (b : Bool) (id : Nat) :
    ({ st with trace := t, curPrec := p } : PS).event b id = st.event b id := rfl

/-- (b) statement interceptors run once per step, in installation order, all seeing the entry state
    (current token = first token of the statement, same context) -/
theorem statement_interceptors_in_order (cfg : PCfg) (is : List SI) (st : PS) (r : Stmt × PS)
    (h : parseStatementI cfg is st = some r) :
    ∃ rest, r.2.trace = st.trace ++ is.map (fun i => st.event false i.id) ++ rest := by
  induction is generalizing st with
  | nil =>
    obtain ⟨rest, hr⟩ := (steps_parseStatementI cfg [] st r h).trace_prefix
    exact ⟨rest, by simp [hr]⟩
  | cons i is ih =>
    rw [parseStatementI] at h
    obtain ⟨rest, hr⟩ := ih _ h
    refine ⟨rest, ?_⟩
    rw [hr]
    simp only [List.map_cons, List.append_assoc, List.cons_append, List.nil_append]
    rfl

/-- (d) the precedence of the enclosing step is restored on exit of every expression step, whatever happens inside -/
theorem precedence_restored (cfg : PCfg) (is : List EI) (prec : Nat) (st : PS) (r : Expr × PS)
    (h : parseExpressionI cfg is prec st = some r) : r.2.curPrec = st.curPrec :=
  (steps_parseExpressionI cfg is prec st r h).curPrec_eq

/-- (b) expression interceptors that call `next()` run once per step, in installation order, all seeing the
    entry state (current token = first token of the expression, same context) -/
theorem expression_observers_in_order (cfg : PCfg) (is : List EI) (hobs : ∀ i ∈ is, i.kind = .observe)
    (prec : Nat) (st : PS) (r : Expr × PS) (h : parseExpressionI cfg is prec st = some r) :
    ∃ rest, r.2.trace = st.trace ++ is.map (fun i => st.event true i.id) ++ rest := by
  induction is generalizing st r with
  | nil =>
    obtain ⟨rest, hr⟩ := (steps_parseExpressionI cfg [] prec st r h).trace_prefix
    exact ⟨rest, by simp [hr]⟩
  | cons i is ih =>
    rw [parseExpressionI] at h
    have hk : i.kind = .observe := hobs i List.mem_cons_self
    simp only [hk] at h
    obtain ⟨⟨e, st1⟩, h1, h2⟩ := bind_some h
    cases h2
    obtain ⟨rest, hr⟩ := ih (fun j hj => hobs j (List.mem_cons_of_mem _ hj)) _ _ h1
    refine ⟨rest, ?_⟩
    simp only at hr ⊢
    rw [hr]
    simp only [List.map_cons, List.append_assoc, List.cons_append, List.nil_append]
    rfl

/-- (b)+(c) a re-entrant interceptor at the head of the chain observes the entry state, then takes over:
    its event is the next one recorded -/
theorem reentrant_interceptor_sees_entry_state (cfg : PCfg) (i : EI) (is : List EI) (hk : i.kind = .reenter)
    (prec : Nat) (st : PS) (r : Expr × PS) (h : parseExpressionI cfg (i :: is) prec st = some r) :
    ∃ rest, r.2.trace = st.trace ++ [st.event true i.id] ++ rest := by
  rw [parseExpressionI] at h
  simp only [hk] at h
  obtain ⟨⟨l, st1⟩, h1, h2⟩ := bind_some h
  obtain ⟨⟨e, st2⟩, h3, h4⟩ := bind_some h2
  cases h4
  obtain ⟨_, _, _, _, hR, _, _, _, hP, _⟩ := steps_mutual cfg
  have s1 := (hP _ _ h1 _ (.refl _)).trace_prefix
  have s2 := (hR _ _ _ _ h3 _ (.refl _)).trace_prefix
  obtain ⟨a, ha⟩ := s1
  obtain ⟨b, hb⟩ := s2
  refine ⟨a ++ b, ?_⟩
  simp only at ha hb ⊢
  rw [← hb, ← ha]
  simp only [List.append_assoc]

/-! Non-vacuity -/
example : ∃ r, parseProgram { stmtI := [⟨1⟩, ⟨2⟩], exprI := [⟨3, .observe⟩, ⟨4, .reenter⟩] } [dummyTok] = some r := by
  refine ⟨{ prog := .nil, errors := [], hasErr := false, final := PS.init [dummyTok] }, ?_⟩
  rw [parseProgram, programLoop]
  simp [PS.init, PS.cur, dummyTok]

/-! ### every parse step is announced, exactly once -/

/-- after an error-free parse the recorded interceptor events are exactly those `Spec/Events` assigns to the returned
    tree: for every statement slot of the tree (an entry of a statement list, a branch, a loop body) one event per
    statement interceptor in installation order, for every expression slot (operand of a prefix or binary operator,
    argument, element, key, value, property, index, condition, initialiser, parenthesised expression, expression
    statement) one event per expression interceptor in installation order up to the first re-entrant one — on the slot's
    first token, in source order, nothing else, nothing twice. For every token list, mode, table and interceptor chain. -/
theorem every_parse_step_is_announced_once (cfg : PCfg) (toks : List Token) (r : ParseResult)
    (h : parseProgram cfg toks = some r) (hok : r.errors = []) :
    r.final.trace = r.prog.stmtsEv cfg.stmtI cfg.exprI [.global] :=
  (trace_is_the_tree's cfg toks r h hok).1

/-! Non-vacuity: one statement `a + b` with one statement observer and one expression observer gives three events -/
example (ta tp tb : Token) :
    (StmtList.cons (.exprS (.binary tp (.ident ⟨ta, ta.lit⟩) tp.lit (.ident ⟨tb, tb.lit⟩))) .nil).stmtsEv [⟨7⟩] [⟨9, .observe⟩] [.global] =
      [mkEv false 7 ta [.global], mkEv true 9 ta [.global], mkEv true 9 tb [.global]] := by
  simp [StmtList.stmtsEv, Stmt.innerEv, Expr.innerEv, stepS, stepE, effE, Stmt.firstTok, Expr.firstTok, tokOf]

end Xjs.C04

#print axioms Xjs.C04.statement_step_transparent
#print axioms Xjs.C04.expression_step_transparent
#print axioms Xjs.C04.interceptors_are_transparent
#print axioms Xjs.C04.result_independent_of_interceptors
#print axioms Xjs.C04.statement_interceptors_in_order
#print axioms Xjs.C04.precedence_restored
#print axioms Xjs.C04.expression_observers_in_order
#print axioms Xjs.C04.reentrant_interceptor_sees_entry_state
#print axioms Xjs.C04.every_parse_step_is_announced_once
