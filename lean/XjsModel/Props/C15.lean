import XjsModel.Proofs.PrinterErase
/-
  C15 — The pretty printer keeps statement-level comments; compact output has none.

  Proved here for ALL trees: compact output is a function of the comment-free tree (so it contains no comment
  text and no comment can alter the code around it), also with a source map requested.
  The pretty-printing clauses (every comment once, in order, before the same anchor) are decided by the
  correspondence run plus the comment-inventory oracle; see DESIGN.md §C15 for the event-level statement.
-/
namespace Xjs.C15
open Xjs

/-- compact compilation does not look at trivia: comments (and blank-line markers) of every token are irrelevant -/
theorem compact_ignores_comments (prog : StmtList) (sm : Bool) :
    (compile { pretty := false, sourceMap := sm } prog.erase).code = (compile { pretty := false, sourceMap := sm } prog).code ∧
    (compile { pretty := false, sourceMap := sm } prog.erase).map = (compile { pretty := false, sourceMap := sm } prog).map := by
  unfold compile
  simp only [Bool.false_eq_true, if_false]
  rw [writeProgramStmts_erase prog true _ rfl]
  exact ⟨rfl, rfl⟩

/-- the same for `debug.ToString` -/
theorem debug_ignores_comments (prog : StmtList) : debugProgramToString prog.erase = debugProgramToString prog := by
  unfold debugProgramToString
  exact congrArg CW.out (writeProgramStmts_erase prog true {} rfl)

/-- the writer never changes its mode: a compact writer stays compact through any tree -/
theorem mode_is_stable (prog : StmtList) (cw : CW) : (writeProgramStmts prog true cw).pretty = cw.pretty :=
  pretty_writeProgramStmts prog true cw

/-! Non-vacuity: a statement whose token carries a comment -/
example :
    let t : Token := { type := .ident, lit := [97], sl := 1, sc := 0, el := 1, ec := 1, nl := true, comments := [[32, 104, 105]] }
    (compile {} (.cons (.exprS (.ident { tok := t, value := [97] })) .nil)).code = [97, 59] := by decide

end Xjs.C15

#print axioms Xjs.C15.compact_ignores_comments
#print axioms Xjs.C15.debug_ignores_comments
#print axioms Xjs.C15.mode_is_stable
