import XjsModel.Proofs.PrinterErase
import XjsModel.Proofs.PrinterComments
import XjsModel.Proofs.ParserAnchorPass
import XjsModel.Proofs.CommentsHead
import XjsModel.Proofs.LexerTrivia
import XjsModel.Proofs.CommentsChain
import XjsModel.Props.C10
/-
  C15 — The pretty printer keeps statement-level comments; compact output has none.

  Proved here for ALL trees: compact output is a function of the comment-free tree (so it contains no comment
  text and no comment can alter the code around it), also with a source map requested.
  Proved here for ALL complete trees in pretty mode: the printer hands the trivia entries of every stored token to
  `WriteLeadingComments` exactly once each, in the order of `Spec/Comments` (source order of the tokens), and each
  such call writes its entries verbatim (`//` in front of a non-empty one) and leaves the code that follows on a fresh
  indented line; in compact mode no entry is ever written. `comments` is a ghost field of the model (the log of
  entries written); the correspondence run ties the bytes the model writes to the Go printer's, and the
  comment-inventory oracle checks the same statement on the Go side from the parsed source.
-/
namespace Xjs.C15
open Xjs

/-- compact compilation does not look at trivia: comments (and blank-line markers) of every token are irrelevant -/
theorem compact_ignores_comments (prog : StmtList) (sm : Bool) :
    (compile { pretty := false, sourceMap := sm } prog.erase).code = (compile { pretty := false, sourceMap := sm } prog).code ∧
    (compile { pretty := false, sourceMap := sm } prog.erase).map = (compile { pretty := false, sourceMap := sm } prog).map := by
  unfold compile
  simp only [Bool.false_eq_true, if_false]
  rw [writeProgramStmts_erase prog true _ rfl]
  exact ⟨rfl, rfl⟩

/-- the same for `debug.ToString` -/
theorem debug_ignores_comments (prog : StmtList) : debugProgramToString prog.erase = debugProgramToString prog := by
  unfold debugProgramToString
  exact congrArg CW.out (writeProgramStmts_erase prog true {} rfl)

/-- the writer never changes its mode: a compact writer stays compact through any tree -/
theorem mode_is_stable (prog : StmtList) (cw : CW) : (writeProgramStmts prog true cw).pretty = cw.pretty :=
  pretty_writeProgramStmts prog true cw

/-- pretty mode: every trivia entry of the tree is replayed exactly once, in order -/
theorem pretty_replays_every_comment_once_in_order (cfg : CompCfg) (prog : StmtList) (hp : cfg.pretty = true)
    (hc : prog.complete = true) : (compile cfg prog).comments = prog.cmts := by
  unfold compile
  exact (clog_writeProgramStmts prog true _ hp hc).trans (by simp)

/-- compact mode: no trivia entry is written, whatever the tree -/
theorem compact_writes_no_comment (cfg : CompCfg) (prog : StmtList) (hp : cfg.pretty = false) :
    (compile cfg prog).comments = [] := by
  unfold compile
  exact clog_c_writeProgramStmts prog true _ hp

/-- what one replay writes: the entries verbatim, then a pending line break and indentation for the code that follows -/
theorem replay_is_verbatim (cw : CW) (cs : List Bytes) (hp : cw.pretty = true) (hne : cs ≠ []) :
    (cw.leadingComments cs).out = cw.out ++ commentText (List.replicate cw.indentLevel cw.indentUnit).flatten cs true ∧
    (cw.leadingComments cs).pendings = [10, 9] ∧ (cw.leadingComments cs).clog = cw.clog ++ cs :=
  leadingComments_pretty cw cs hp hne

/-- the entries of a statement list are those of its statements in order; those of a block end with the closing brace's -/
theorem comments_follow_statement_order (s : Stmt) (rest : StmtList) (tok rb : Token) :
    (StmtList.cons s rest).cmts = s.cmts ++ rest.cmts ∧
    (Stmt.block tok (.cons s rest) rb).cmts = tok.comments ++ (s.cmts ++ rest.cmts) ++ rb.comments := by
  simp [StmtList.cmts, Stmt.cmts]

/-! ### from the source text to the token, from the token to the statement -/

/-- LEXER: the entries a token carries are those of the text between the previous token and it (`Tiling.Entries`:
    one empty entry per line feed that does not end a comment, one entry per `//` comment holding its text without
    trailing spaces) — for every token request, at any cursor -/
theorem token_carries_the_entries_of_its_gap (s : LS) :
    Tiling.Entries (s.rest.take (trivia s.rest).len) (nextToken s).1.comments :=
  Tiling.token_comments_are_gap_entries s

/-- … and a text has one list of entries -/
theorem gap_entries_are_unique {b : Bytes} {es es' : List Bytes} (h : Tiling.Entries b es) (h' : Tiling.Entries b es') :
    es = es' := h.unique h'

/-- PARSER: every call of `ParseStatement` (through any interceptor chain, in any mode, at any depth) that records no
    error returns a statement whose first token is the token the parser stood on — the one that carries the comments
    written in front of the statement -/
theorem statement_starts_at_the_cursor (cfg : PCfg) (is : List SI) (st : PS) (s : Stmt) (st' : PS)
    (h : parseStatementI cfg is st = some (s, st')) (hok : st'.elen = st.elen) : s.firstTok = some st.cur := by
  obtain ⟨_, h2⟩ := (anchor_mutual cfg).1 is st (s, st') h
  rcases h2 with h2 | h2
  · exact h2
  · dsimp only at h2; omega

/-- PARSER: a block keeps its two braces: the `{` it began at and the token its statement loop stopped at (the `}`;
    the comments after the last statement travel on it) -/
theorem block_keeps_its_braces (cfg : PCfg) (st : PS) (s : Stmt) (st' : PS)
    (h : parseBlockStatement cfg st = some (s, st')) : ∃ ss, s = .block st.cur ss st'.cur := by
  rw [parseBlockStatement.eq_def] at h
  obtain ⟨⟨ss, st1⟩, h1, h2⟩ := bind_some h
  dsimp only at h2
  cases h2
  refine ⟨ss, ?_⟩
  split <;> rfl

/-- PRINTER: what is replayed for a statement starts with the entries of its first token (no comment on a postfix
    operator of its left spine — `postfixBare`, see `Spec/Comments`) -/
theorem replay_starts_with_the_first_token (s : Stmt) (h : s.postfixBare = true) :
    ∃ rest, s.cmts = headCmts s.firstTok ++ rest := s.cmts_head h

/-! ### the links put together: lexed and parsed input -/

theorem lookup_mem {β : Type} {l : List (TokType × β)} {t : TokType} {v : β} (h : lookup l t = some v) : (t, v) ∈ l := by
  unfold lookup at h
  split at h
  · rename_i kv hk
    have hm := List.mem_of_find?_eq_some hk
    have he := List.find?_some hk
    cases h
    have : kv.1 = t := by simpa using he
    rw [← this]; exact hm
  · cases h

/-- in the built-in table `++` and `--` are the only postfix operators -/
theorem builtin_postfix_operators_are_updates (cfg : PCfg) (h : cfg.infixFns = baseInfixFns) : PostfixIsUpdate cfg := by
  intro ty hl
  rw [h] at hl
  have hm := lookup_mem hl
  simp [baseInfixFns] at hm
  rcases hm with h | h <;> simp [h]

/-! the default configuration is an instance -/
example : PostfixIsUpdate {} := builtin_postfix_operators_are_updates {} rfl

/-- LEXER: a token that carries entries but does not follow a line break stands at the end of the input (or on a NUL
    byte): it is no `++` / `--` — for every token of every source -/
theorem lexed_tokens_are_quiet (src : Bytes) : ∀ t ∈ lexAll src, t.quiet := by
  intro t ht
  unfold lexAll at ht
  rw [C10.tokens_of_requests] at ht
  obtain ⟨st, _, rfl⟩ := List.mem_map.mp ht
  exact nextToken_quiet st

/-- PARSER: no postfix `++` / `--` node follows a line break, and its token is a postfix operator of the table -/
theorem postfix_operators_stay_on_the_line (cfg : PCfg) (toks : List Token) (r : ParseResult)
    (h : parseProgram cfg toks = some r) : r.prog.pfOk cfg = true := pf_parseProgram cfg toks r h

/-- PARSER (provenance): whatever holds of every input token (and of the end-of-input repeats) holds of every token
    stored in the tree — the tree's tokens are the input's tokens as full records, trivia included -/
theorem tree_tokens_are_input_tokens (cfg : PCfg) (P : Token → Prop) (hc : Closed P) (toks : List Token) (r : ParseResult)
    (h : parseProgram cfg toks = some r) (ht : ∀ t ∈ toks, P t) : r.prog.allT P := prov_parseProgram cfg P hc toks r h ht

/-- TOGETHER, for every source text, every mode and interceptor chain, with the built-in postfix operators, whatever
    errors are reported: in every statement list of the tree, at any depth, what the pretty printer replays for a
    statement begins with the entries of the statement's first token (`headsFirst`, `Proofs/CommentsChain`) — the
    token the parser stood on (`statement_starts_at_the_cursor`), whose entries are those of the text in front of it
    (`token_carries_the_entries_of_its_gap`) -/
theorem statement_comments_lead_their_statement (cfg : PCfg) (hpf : PostfixIsUpdate cfg) (src : Bytes) (r : ParseResult)
    (h : parseProgram cfg (lexAll src) = some r) : r.prog.headsFirst :=
  StmtList.headsFirst_of hpf r.prog (pf_parseProgram cfg _ r h)
    (prov_parseProgram cfg Token.quiet quiet_closed _ r h (lexed_tokens_are_quiet src))

/-! Non-vacuity: the comment on a statement's first token is written in pretty mode and logged -/
example :
    let t : Token := { type := .ident, lit := [97], sl := 1, sc := 0, el := 1, ec := 1, nl := true, comments := [[32, 104, 105]] }
    let r := compile { pretty := true } (.cons (.exprS (.ident { tok := t, value := [97] })) .nil)
    r.comments = [[32, 104, 105]] ∧ r.code = [47, 47, 32, 104, 105, 10, 97] := by decide

/-! Non-vacuity: a statement whose token carries a comment -/
example :
    let t : Token := { type := .ident, lit := [97], sl := 1, sc := 0, el := 1, ec := 1, nl := true, comments := [[32, 104, 105]] }
    (compile {} (.cons (.exprS (.ident { tok := t, value := [97] })) .nil)).code = [97, 59] := by decide

end Xjs.C15

#print axioms Xjs.C15.compact_ignores_comments
#print axioms Xjs.C15.debug_ignores_comments
#print axioms Xjs.C15.mode_is_stable
#print axioms Xjs.C15.pretty_replays_every_comment_once_in_order
#print axioms Xjs.C15.compact_writes_no_comment
#print axioms Xjs.C15.replay_is_verbatim
#print axioms Xjs.C15.token_carries_the_entries_of_its_gap
#print axioms Xjs.C15.gap_entries_are_unique
#print axioms Xjs.C15.statement_starts_at_the_cursor
#print axioms Xjs.C15.block_keeps_its_braces
#print axioms Xjs.C15.replay_starts_with_the_first_token
#print axioms Xjs.C15.builtin_postfix_operators_are_updates
#print axioms Xjs.C15.lexed_tokens_are_quiet
#print axioms Xjs.C15.postfix_operators_stay_on_the_line
#print axioms Xjs.C15.tree_tokens_are_input_tokens
#print axioms Xjs.C15.statement_comments_lead_their_statement
