import XjsModel.Proofs.PrinterErase
import XjsModel.Proofs.PrinterComments
import XjsModel.Proofs.ParserAnchorPass
import XjsModel.Proofs.CommentsHead
import XjsModel.Proofs.LexerTrivia
/-
  C15 — The pretty printer keeps statement-level comments; compact output has none.

  Proved here for ALL trees: compact output is a function of the comment-free tree (so it contains no comment
  text and no comment can alter the code around it), also with a source map requested.
  Proved here for ALL complete trees in pretty mode: the printer hands the trivia entries of every stored token to
  `WriteLeadingComments` exactly once each, in the order of `Spec/Comments` (source order of the tokens), and each
  such call writes its entries verbatim (`//` in front of a non-empty one) and leaves the code that follows on a fresh
  indented line; in compact mode no entry is ever written. `comments` is a ghost field of the model (the log of
  entries written); the correspondence run ties the bytes the model writes to the Go printer's, and the
  comment-inventory oracle checks the same statement on the Go side from the parsed source.
-/
namespace Xjs.C15
open Xjs

/-- compact compilation does not look at trivia: comments (and blank-line markers) of every token are irrelevant -/
theorem compact_ignores_comments (prog : StmtList) (sm : Bool) :
    (compile { pretty := false, sourceMap := sm } prog.erase).code = (compile { pretty := false, sourceMap := sm } prog).code ∧
    (compile { pretty := false, sourceMap := sm } prog.erase).map = (compile { pretty := false, sourceMap := sm } prog).map := by
  unfold compile
  simp only [Bool.false_eq_true, if_false]
  rw [writeProgramStmts_erase prog true _ rfl]
  exact ⟨rfl, rfl⟩

/-- the same for `debug.ToString` -/
theorem debug_ignores_comments (prog : StmtList) : debugProgramToString prog.erase = debugProgramToString prog := by
  unfold debugProgramToString
  exact congrArg CW.out (writeProgramStmts_erase prog true {} rfl)

/-- the writer never changes its mode: a compact writer stays compact through any tree -/
theorem mode_is_stable (prog : StmtList) (cw : CW) : (writeProgramStmts prog true cw).pretty = cw.pretty :=
  pretty_writeProgramStmts prog true cw

/-- pretty mode: every trivia entry of the tree is replayed exactly once, in order -/
theorem pretty_replays_every_comment_once_in_order (cfg : CompCfg) (prog : StmtList) (hp : cfg.pretty = true)
    (hc : prog.complete = true) : (compile cfg prog).comments = prog.cmts := by
  unfold compile
  exact (clog_writeProgramStmts prog true _ hp hc).trans (by simp)

/-- compact mode: no trivia entry is written, whatever the tree -/
theorem compact_writes_no_comment (cfg : CompCfg) (prog : StmtList) (hp : cfg.pretty = false) :
    (compile cfg prog).comments = [] := by
  unfold compile
  exact clog_c_writeProgramStmts prog true _ hp

/-- what one replay writes: the entries verbatim, then a pending line break and indentation for the code that follows -/
theorem replay_is_verbatim (cw : CW) (cs : List Bytes) (hp : cw.pretty = true) (hne : cs ≠ []) :
    (cw.leadingComments cs).out = cw.out ++ commentText (List.replicate cw.indentLevel cw.indentUnit).flatten cs true ∧
    (cw.leadingComments cs).pendings = [10, 9] ∧ (cw.leadingComments cs).clog = cw.clog ++ cs :=
  leadingComments_pretty cw cs hp hne

/-- the entries of a statement list are those of its statements in order; those of a block end with the closing brace's -/
theorem comments_follow_statement_order (s : Stmt) (rest : StmtList) (tok rb : Token) :
    (StmtList.cons s rest).cmts = s.cmts ++ rest.cmts ∧
    (Stmt.block tok (.cons s rest) rb).cmts = tok.comments ++ (s.cmts ++ rest.cmts) ++ rb.comments := by
  simp [StmtList.cmts, Stmt.cmts]

/-! ### from the source text to the token, from the token to the statement -/

/-- LEXER: the entries a token carries are those of the text between the previous token and it (`Tiling.Entries`:
    one empty entry per line feed that does not end a comment, one entry per `//` comment holding its text without
    trailing spaces) — for every token request, at any cursor -/
theorem token_carries_the_entries_of_its_gap (s : LS) :
    Tiling.Entries (s.rest.take (trivia s.rest).len) (nextToken s).1.comments :=
  Tiling.token_comments_are_gap_entries s

/-- … and a text has one list of entries -/
theorem gap_entries_are_unique {b : Bytes} {es es' : List Bytes} (h : Tiling.Entries b es) (h' : Tiling.Entries b es') :
    es = es' := h.unique h'

/-- PARSER: every call of `ParseStatement` (through any interceptor chain, in any mode, at any depth) that records no
    error returns a statement whose first token is the token the parser stood on — the one that carries the comments
    written in front of the statement -/
theorem statement_starts_at_the_cursor (cfg : PCfg) (is : List SI) (st : PS) (s : Stmt) (st' : PS)
    (h : parseStatementI cfg is st = some (s, st')) (hok : st'.elen = st.elen) : s.firstTok = some st.cur := by
  obtain ⟨_, h2⟩ := (anchor_mutual cfg).1 is st (s, st') h
  rcases h2 with h2 | h2
  · exact h2
  · dsimp only at h2; omega

/-- PARSER: a block keeps its two braces: the `{` it began at and the token its statement loop stopped at (the `}`;
    the comments after the last statement travel on it) -/
theorem block_keeps_its_braces (cfg : PCfg) (st : PS) (s : Stmt) (st' : PS)
    (h : parseBlockStatement cfg st = some (s, st')) : ∃ ss, s = .block st.cur ss st'.cur := by
  rw [parseBlockStatement.eq_def] at h
  obtain ⟨⟨ss, st1⟩, h1, h2⟩ := bind_some h
  dsimp only at h2
  cases h2
  refine ⟨ss, ?_⟩
  split <;> rfl

/-- PRINTER: what is replayed for a statement starts with the entries of its first token (no comment on a postfix
    operator of its left spine — `postfixBare`, see `Spec/Comments`) -/
theorem replay_starts_with_the_first_token (s : Stmt) (h : s.postfixBare = true) :
    ∃ rest, s.cmts = headCmts s.firstTok ++ rest := s.cmts_head h

/-! Non-vacuity: the comment on a statement's first token is written in pretty mode and logged -/
example :
    let t : Token := { type := .ident, lit := [97], sl := 1, sc := 0, el := 1, ec := 1, nl := true, comments := [[32, 104, 105]] }
    let r := compile { pretty := true } (.cons (.exprS (.ident { tok := t, value := [97] })) .nil)
    r.comments = [[32, 104, 105]] ∧ r.code = [47, 47, 32, 104, 105, 10, 97] := by decide

/-! Non-vacuity: a statement whose token carries a comment -/
example :
    let t : Token := { type := .ident, lit := [97], sl := 1, sc := 0, el := 1, ec := 1, nl := true, comments := [[32, 104, 105]] }
    (compile {} (.cons (.exprS (.ident { tok := t, value := [97] })) .nil)).code = [97, 59] := by decide

end Xjs.C15

#print axioms Xjs.C15.compact_ignores_comments
#print axioms Xjs.C15.debug_ignores_comments
#print axioms Xjs.C15.mode_is_stable
#print axioms Xjs.C15.pretty_replays_every_comment_once_in_order
#print axioms Xjs.C15.compact_writes_no_comment
#print axioms Xjs.C15.replay_is_verbatim
#print axioms Xjs.C15.token_carries_the_entries_of_its_gap
#print axioms Xjs.C15.gap_entries_are_unique
#print axioms Xjs.C15.statement_starts_at_the_cursor
#print axioms Xjs.C15.block_keeps_its_braces
#print axioms Xjs.C15.replay_starts_with_the_first_token
