import XjsModel.Proofs.Lexer
/-
  C10 — Lexing is total and tokens tile the source with exact positions.

  Quantifier: ALL byte strings (any values, any length). Model: `XjsModel/Model/Lexer.lean`
  (`lexAll`, `nextToken`, `readChar`). Specification of positions: `lc src off` = line/column obtained by
  counting line feeds in `src[0, off)` (0-based line, byte column).
-/
namespace Xjs.C10
open Xjs

/-- (a) Totality: for every input, within `length + 1` requests the lexer delivers an end-of-input token,
    and no token before it is an end-of-input token. (The model cannot panic: it has no partial operation.) -/
theorem lexGo_total (fuel : Nat) (s : LS) (h : s.rest.length < fuel) :
    ∃ ts e, lexGo fuel s = ts ++ [e] ∧ e.type = .eof ∧ ∀ t ∈ ts, t.type ≠ .eof := by
  induction fuel generalizing s with
  | zero => omega
  | succ fuel ih =>
    simp only [lexGo]
    by_cases he : (nextToken s).1.type = .eof
    · refine ⟨[], (nextToken s).1, by simp [he], he, by simp⟩
    · have hp := nextToken_progress s he
      obtain ⟨ts, e, h1, h2, h3⟩ := ih (nextToken s).2 (by omega)
      refine ⟨(nextToken s).1 :: ts, e, by simp [he, h1], h2, ?_⟩
      intro t ht
      simp only [List.mem_cons] at ht
      rcases ht with rfl | ht
      · exact he
      · exact h3 t ht

theorem lexAll_total (src : Bytes) :
    ∃ ts e, lexAll src = ts ++ [e] ∧ e.type = .eof ∧ ∀ t ∈ ts, t.type ≠ .eof :=
  lexGo_total _ _ (by simp [LS.init])

/-- (b) + tiling order: every token produced from a cursor that agrees with the source starts at the
    line/column of the byte offset where the cursor stood after skipping trivia (`so`), its end offset
    `eo` (cursor after the token) is inside the source, offsets never go backwards
    (`start ≤ so ≤ eo ≤ length`), and the next token starts at or after `eo`: no byte is consumed twice. -/
theorem lexGoO_positions (src : Bytes) (fuel : Nat) (s : LS) (hi : LInv src s) :
    ∀ x ∈ lexGoO fuel s, (x.1.sl, x.1.sc) = lc src x.2.1 ∧ s.off ≤ x.2.1 ∧ x.2.1 ≤ x.2.2 ∧ x.2.2 ≤ src.length := by
  induction fuel generalizing s with
  | zero => intro x hx; simp [lexGoO] at hx
  | succ fuel ih =>
    intro x hx
    have hr1 : Reach s (readChars (trivia s.rest).len s) := ⟨_, rfl⟩
    have hi1 := reach_inv src hr1 hi
    have hstart := baseNextToken_start (trivia s.rest).nl (trivia s.rest).comments (readChars (trivia s.rest).len s)
    have hr2 := baseNextToken_reach (trivia s.rest).nl (trivia s.rest).comments (readChars (trivia s.rest).len s)
    have hi2 := reach_inv src hr2 hi1
    have hnt : nextToken s = baseNextToken (trivia s.rest).nl (trivia s.rest).comments (readChars (trivia s.rest).len s) := rfl
    have hhead : ((nextToken s).1.sl, (nextToken s).1.sc) = lc src (readChars (trivia s.rest).len s).off ∧
        s.off ≤ (readChars (trivia s.rest).len s).off ∧
        (readChars (trivia s.rest).len s).off ≤ (nextToken s).2.off ∧ (nextToken s).2.off ≤ src.length := by
      rw [hnt]
      refine ⟨?_, reach_off_le hr1, reach_off_le hr2, hi2.off_le⟩
      rw [hstart.1, hstart.2.1]; exact hi1.pos_eq
    simp only [lexGoO] at hx
    split at hx
    · simp only [List.mem_singleton] at hx; subst hx; exact hhead
    · simp only [List.mem_cons] at hx
      rcases hx with rfl | hx
      · exact hhead
      · have := ih (nextToken s).2 (by rw [hnt]; exact hi2) x hx
        refine ⟨this.1, ?_, this.2.2.1, this.2.2.2⟩
        exact Nat.le_trans (Nat.le_trans hhead.2.1 hhead.2.2.1) this.2.1

/-- the same for the whole input, from the initial cursor -/
theorem token_positions (src : Bytes) :
    ∀ x ∈ lexGoO (src.length + 1) (LS.init src),
      (x.1.sl, x.1.sc) = lc src x.2.1 ∧ x.2.1 ≤ x.2.2 ∧ x.2.2 ≤ src.length := by
  intro x hx
  have := lexGoO_positions src _ _ (linv_init src) x hx
  exact ⟨this.1, this.2.2.1, this.2.2.2⟩

/-- the instrumented list is the token list -/
theorem instrumented_tokens (src : Bytes) : (lexGoO (src.length + 1) (LS.init src)).map (·.1) = lexAll src :=
  lexGoO_tokens _ _

/-- (f) end of input, however often requested: once the cursor is at the end every further request returns
    an EOF token at the position of the end of the source and leaves the cursor where it is -/
theorem eof_sticky (src : Bytes) (s : LS) (hi : LInv src s) (hend : s.rest = []) :
    (nextToken s).2 = s ∧ (nextToken s).1.type = .eof ∧
    ((nextToken s).1.sl, (nextToken s).1.sc) = lc src src.length ∧
    ((nextToken s).1.el, (nextToken s).1.ec) = lc src src.length := by
  rw [nextToken_at_end s hend]
  have hoff : s.off = src.length := by
    have h := hi.rest_eq
    rw [hend] at h
    have := List.drop_eq_nil_iff.mp h.symm
    have := hi.off_le
    omega
  refine ⟨rfl, rfl, ?_, ?_⟩ <;> simp only [mkTok] <;> rw [← hoff] <;> exact hi.pos_eq

/-- EOF tokens arise only at the real end of the input (a NUL byte is not the end) -/
theorem eof_only_at_end (s : LS) (h : (nextToken s).1.type = .eof) : (readChars (trivia s.rest).len s).rest = [] :=
  baseNextToken_eof_only_at_end _ _ _ h

/-- (a, continued) consumption: every token other than EOF consumes at least one byte -/
theorem progress (s : LS) (h : (nextToken s).1.type ≠ .eof) : (nextToken s).2.rest.length < s.rest.length :=
  nextToken_progress s h

/-! Non-vacuity -/
example : (lexAll [97, 32, 61, 61, 10, 98]).map (fun t => (t.type, t.sl, t.sc)) =
    [(.ident, 0, 0), (.eq, 0, 2), (.ident, 1, 0), (.eof, 1, 1)] := by decide
example : lc [97, 32, 61, 61, 10, 98] 5 = (1, 0) := by decide

end Xjs.C10

#print axioms Xjs.C10.lexAll_total
#print axioms Xjs.C10.lexGoO_positions
#print axioms Xjs.C10.token_positions
#print axioms Xjs.C10.instrumented_tokens
#print axioms Xjs.C10.eof_sticky
#print axioms Xjs.C10.eof_only_at_end
#print axioms Xjs.C10.progress
