import XjsModel.Proofs.Lexer
import XjsModel.Proofs.LexerTiling
/-
  C10 — Lexing is total and tokens tile the source with exact positions.

  Quantifier: ALL byte strings (any values, any length). Model: `XjsModel/Model/Lexer.lean`
  (`lexAll`, `nextToken`, `readChar`). Specification of positions: `lc src off` = line/column obtained by
  counting line feeds in `src[0, off)` (0-based line, byte column).

  `token_step` is the whole property for ONE request of a token from any cursor that agrees with the source, and
  `requests_agree_with_source` shows that every request `lexAll` makes is from such a cursor, each starting where the
  previous token ended: gap (whitespace and `//` comments only, `Tiling.TriviaRun`, a trusted 4-rule specification),
  after-newline flag = "the gap contains a line feed", start position = position of the first byte, end position on
  or immediately after the last byte and inside the source, identifier / keyword / number literals = the source
  slice, keywords classified by the (re-extracted) keyword table.
-/
namespace Xjs.C10
open Xjs

/-- (a) Totality: for every input, within `length + 1` requests the lexer delivers an end-of-input token,
    and no token before it is an end-of-input token. (The model cannot panic: it has no partial operation.) -/
theorem lexGo_total (fuel : Nat) (s : LS) (h : s.rest.length < fuel) :
    ∃ ts e, lexGo fuel s = ts ++ [e] ∧ e.type = .eof ∧ ∀ t ∈ ts, t.type ≠ .eof := by
  induction fuel generalizing s with
  | zero => omega
  | succ fuel ih =>
    simp only [lexGo]
    by_cases he : (nextToken s).1.type = .eof
    · refine ⟨[], (nextToken s).1, by simp [he], he, by simp⟩
    · have hp := nextToken_progress s he
      obtain ⟨ts, e, h1, h2, h3⟩ := ih (nextToken s).2 (by omega)
      refine ⟨(nextToken s).1 :: ts, e, by simp [he, h1], h2, ?_⟩
      intro t ht
      simp only [List.mem_cons] at ht
      rcases ht with rfl | ht
      · exact he
      · exact h3 t ht

theorem lexAll_total (src : Bytes) :
    ∃ ts e, lexAll src = ts ++ [e] ∧ e.type = .eof ∧ ∀ t ∈ ts, t.type ≠ .eof :=
  lexGo_total _ _ (by simp [LS.init])

/-- (b) + tiling order: every token produced from a cursor that agrees with the source starts at the
    line/column of the byte offset where the cursor stood after skipping trivia (`so`), its end offset
    `eo` (cursor after the token) is inside the source, offsets never go backwards
    (`start ≤ so ≤ eo ≤ length`), and the next token starts at or after `eo`: no byte is consumed twice. -/
theorem lexGoO_positions (src : Bytes) (fuel : Nat) (s : LS) (hi : LInv src s) :
    ∀ x ∈ lexGoO fuel s, (x.1.sl, x.1.sc) = lc src x.2.1 ∧ s.off ≤ x.2.1 ∧ x.2.1 ≤ x.2.2 ∧ x.2.2 ≤ src.length := by
  induction fuel generalizing s with
  | zero => intro x hx; simp [lexGoO] at hx
  | succ fuel ih =>
    intro x hx
    have hr1 : Reach s (readChars (trivia s.rest).len s) := ⟨_, rfl⟩
    have hi1 := reach_inv src hr1 hi
    have hstart := baseNextToken_start (trivia s.rest).nl (trivia s.rest).comments (readChars (trivia s.rest).len s)
    have hr2 := baseNextToken_reach (trivia s.rest).nl (trivia s.rest).comments (readChars (trivia s.rest).len s)
    have hi2 := reach_inv src hr2 hi1
    have hnt : nextToken s = baseNextToken (trivia s.rest).nl (trivia s.rest).comments (readChars (trivia s.rest).len s) := rfl
    have hhead : ((nextToken s).1.sl, (nextToken s).1.sc) = lc src (readChars (trivia s.rest).len s).off ∧
        s.off ≤ (readChars (trivia s.rest).len s).off ∧
        (readChars (trivia s.rest).len s).off ≤ (nextToken s).2.off ∧ (nextToken s).2.off ≤ src.length := by
      rw [hnt]
      refine ⟨?_, reach_off_le hr1, reach_off_le hr2, hi2.off_le⟩
      rw [hstart.1, hstart.2.1]; exact hi1.pos_eq
    simp only [lexGoO] at hx
    split at hx
    · simp only [List.mem_singleton] at hx; subst hx; exact hhead
    · simp only [List.mem_cons] at hx
      rcases hx with rfl | hx
      · exact hhead
      · have := ih (nextToken s).2 (by rw [hnt]; exact hi2) x hx
        refine ⟨this.1, ?_, this.2.2.1, this.2.2.2⟩
        exact Nat.le_trans (Nat.le_trans hhead.2.1 hhead.2.2.1) this.2.1

/-- the same for the whole input, from the initial cursor -/
theorem token_positions (src : Bytes) :
    ∀ x ∈ lexGoO (src.length + 1) (LS.init src),
      (x.1.sl, x.1.sc) = lc src x.2.1 ∧ x.2.1 ≤ x.2.2 ∧ x.2.2 ≤ src.length := by
  intro x hx
  have := lexGoO_positions src _ _ (linv_init src) x hx
  exact ⟨this.1, this.2.2.1, this.2.2.2⟩

/-- the instrumented list is the token list -/
theorem instrumented_tokens (src : Bytes) : (lexGoO (src.length + 1) (LS.init src)).map (·.1) = lexAll src :=
  lexGoO_tokens _ _

/-- (f) end of input, however often requested: once the cursor is at the end every further request returns
    an EOF token at the position of the end of the source and leaves the cursor where it is -/
theorem eof_sticky (src : Bytes) (s : LS) (hi : LInv src s) (hend : s.rest = []) :
    (nextToken s).2 = s ∧ (nextToken s).1.type = .eof ∧
    ((nextToken s).1.sl, (nextToken s).1.sc) = lc src src.length ∧
    ((nextToken s).1.el, (nextToken s).1.ec) = lc src src.length := by
  rw [nextToken_at_end s hend]
  have hoff : s.off = src.length := by
    have h := hi.rest_eq
    rw [hend] at h
    have := List.drop_eq_nil_iff.mp h.symm
    have := hi.off_le
    omega
  refine ⟨rfl, rfl, ?_, ?_⟩ <;> simp only [mkTok] <;> rw [← hoff] <;> exact hi.pos_eq

/-- EOF tokens arise only at the real end of the input (a NUL byte is not the end) -/
theorem eof_only_at_end (s : LS) (h : (nextToken s).1.type = .eof) : (readChars (trivia s.rest).len s).rest = [] :=
  baseNextToken_eof_only_at_end _ _ _ h

/-- (a, continued) consumption: every token other than EOF consumes at least one byte -/
theorem progress (s : LS) (h : (nextToken s).1.type ≠ .eof) : (nextToken s).2.rest.length < s.rest.length :=
  nextToken_progress s h


/-- the bytes of the source from offset `a` up to offset `b` -/
def slice (src : Bytes) (a b : Nat) : Bytes := (src.drop a).take (b - a)

/-- where the token starts: the cursor offset plus what `readLeadingComments` skips -/
def gapEnd (s : LS) : Nat := s.off + (trivia s.rest).len

/-- ONE TOKEN REQUEST from a cursor that agrees with the source (offset `s.off`): with `g = gapEnd s` the end of the gap
    and `eo` the cursor offset afterwards,
    * the gap `[s.off, g)` is a run of whitespace and `//` comments inside the source, and the token's
      after-newline flag is set exactly when the gap contains a line feed;
    * the token starts at the line/column of `g`; the cursor afterwards (`eo`) satisfies `g ≤ eo ≤ length` and
      again agrees with the source — the next request starts at `eo`: nothing is skipped or read twice;
    * the token's end is the line/column of an offset `x` with `g ≤ x ≤ eo ≤ x + 1`: on or immediately after its last
      byte, inside the source;
    * identifier, keyword and number tokens carry exactly `src[g, eo)`, and identifier / keyword tokens are classified
      by the keyword table applied to that text. -/
theorem token_step (src : Bytes) (s : LS) (hi : LInv src s) :
    gapEnd s ≤ src.length ∧ Tiling.TriviaRun (slice src s.off (gapEnd s)) ∧
    (nextToken s).1.nl = (slice src s.off (gapEnd s)).contains 10 ∧
    ((nextToken s).1.sl, (nextToken s).1.sc) = lc src (gapEnd s) ∧
    gapEnd s ≤ (nextToken s).2.off ∧ (nextToken s).2.off ≤ src.length ∧ LInv src (nextToken s).2 ∧
    (∃ x, ((nextToken s).1.el, (nextToken s).1.ec) = lc src x ∧ gapEnd s ≤ x ∧ x ≤ (nextToken s).2.off ∧
      (nextToken s).2.off ≤ x + 1) ∧
    ((nextToken s).1.type ∈ Tiling.sliceTypes → (nextToken s).1.lit = slice src (gapEnd s) (nextToken s).2.off) ∧
    ((nextToken s).1.type ∈ Tiling.wordTypes → (nextToken s).1.type = lookupIdent (nextToken s).1.lit) := by
  unfold gapEnd
  obtain ⟨hk, hrun, hnl⟩ := Tiling.gap_is_trivia s
  have hrest := hi.rest_eq
  have hlen : s.rest.length = src.length - s.off := by rw [hrest, List.length_drop]
  have hr1 : Reach s (readChars (trivia s.rest).len s) := ⟨_, rfl⟩
  have hi1 := reach_inv src hr1 hi
  have hoff1 : (readChars (trivia s.rest).len s).off = s.off + (trivia s.rest).len := by rw [readChars_off]; omega
  have hnt : nextToken s = baseNextToken (trivia s.rest).nl (trivia s.rest).comments (readChars (trivia s.rest).len s) := rfl
  have hstart := baseNextToken_start (trivia s.rest).nl (trivia s.rest).comments (readChars (trivia s.rest).len s)
  have hr2 := baseNextToken_reach (trivia s.rest).nl (trivia s.rest).comments (readChars (trivia s.rest).len s)
  have hi2 := reach_inv src hr2 hi1
  have hge := reach_off_le hr2
  obtain ⟨e, hre, hepos, hecur⟩ := Tiling.end_is_cursor (trivia s.rest).nl (trivia s.rest).comments (readChars (trivia s.rest).len s)
  have hie := reach_inv src hre hi1
  have hslice : slice src s.off (s.off + (trivia s.rest).len) = s.rest.take (trivia s.rest).len := by
    unfold slice; rw [hrest]; congr 1; omega
  generalize hkdef : (trivia s.rest).len = k at hk hrun hnl hr1 hi1 hoff1 hnt hstart hr2 hi2 hge hre hepos hecur hslice ⊢
  have hol := hi.off_le
  refine ⟨by omega, by rw [hslice]; exact hrun, by rw [hslice]; exact hnl, ?_, ?_, ?_, ?_, ?_, ?_, ?_⟩
  · show ((nextToken s).1.sl, (nextToken s).1.sc) = lc src (s.off + k)
    rw [hnt, hstart.1, hstart.2.1, ← hoff1]; exact hi1.pos_eq
  · show s.off + k ≤ (nextToken s).2.off
    rw [hnt, ← hoff1]; exact hge
  · show (nextToken s).2.off ≤ src.length
    rw [hnt]; exact hi2.off_le
  · show LInv src (nextToken s).2
    rw [hnt]; exact hi2
  · refine ⟨e.off, ?_, ?_, ?_, ?_⟩
    · show ((nextToken s).1.el, (nextToken s).1.ec) = lc src e.off
      rw [hnt, hepos]; exact hie.pos_eq
    · rw [← hoff1]; exact reach_off_le hre
    · show e.off ≤ (nextToken s).2.off
      rw [hnt]; rcases hecur with h | h <;> rw [h]
      · exact Nat.le_refl _
      · rw [readChar_off]; omega
    · show (nextToken s).2.off ≤ e.off + 1
      rw [hnt]; rcases hecur with h | h <;> rw [h]
      · omega
      · rw [readChar_off]; omega
  · intro hty
    show (nextToken s).1.lit = slice src (s.off + k) (nextToken s).2.off
    rw [hnt] at hty ⊢
    have happ := Tiling.literal_is_slice _ _ _ hty
    generalize baseNextToken (trivia s.rest).nl (trivia s.rest).comments (readChars k s) = r0 at *
    have h1 : (readChars k s).rest = src.drop (s.off + k) := by rw [hi1.rest_eq, hoff1]
    have h2 : r0.2.rest = src.drop r0.2.off := hi2.rest_eq
    have hl : r0.1.lit.length + (src.length - r0.2.off) = src.length - (s.off + k) := by
      have := congrArg List.length happ
      rw [List.length_append, h1, h2, List.length_drop, List.length_drop] at this
      exact this
    have hle2 := hi2.off_le
    unfold slice
    rw [← h1, ← happ]
    have : r0.2.off - (s.off + k) = r0.1.lit.length := by omega
    rw [this, List.take_left']
    rfl
  · intro hty
    show (nextToken s).1.type = lookupIdent (nextToken s).1.lit
    rw [hnt] at hty ⊢
    exact Tiling.word_is_classified _ _ _ hty

/-- the cursor states from which `lexAll` requests its tokens -/
def requests : Nat → LS → List LS
  | 0, _ => []
  | fuel + 1, s => if (nextToken s).1.type == .eof then [s] else s :: requests fuel (nextToken s).2

/-- the token list is `NextToken` applied to the request states, in order -/
theorem tokens_of_requests (fuel : Nat) (s : LS) : lexGo fuel s = (requests fuel s).map (fun st => (nextToken st).1) := by
  induction fuel generalizing s with
  | zero => rfl
  | succ fuel ih =>
    simp only [lexGo, requests]
    split <;> simp_all

/-- each request starts where the previous token ended -/
def Adjacent : List LS → Prop
  | a :: b :: l => b = (nextToken a).2 ∧ Adjacent (b :: l)
  | _ => True

/-- every request is made from a cursor that agrees with the source, and each one starts where the previous token
    ended: `token_step` applies to every token of `lexAll src`, and consecutive tokens are adjacent up to the gap -/
theorem requests_agree_with_source (src : Bytes) (fuel : Nat) (s : LS) (hi : LInv src s) :
    (∀ st ∈ requests fuel s, LInv src st) ∧ Adjacent (requests fuel s) := by
  induction fuel generalizing s with
  | zero => exact ⟨by simp [requests], by simp [requests, Adjacent]⟩
  | succ fuel ih =>
    have hn := (token_step src s hi).2.2.2.2.2.2.1
    simp only [requests]
    split
    · exact ⟨by simpa using hi, by simp [Adjacent]⟩
    · obtain ⟨h1, h2⟩ := ih (nextToken s).2 hn
      refine ⟨?_, ?_⟩
      · intro st hst
        simp only [List.mem_cons] at hst
        rcases hst with rfl | hst
        · exact hi
        · exact h1 st hst
      · cases hq : requests fuel (nextToken s).2 with
        | nil => simp [Adjacent]
        | cons a l =>
          rw [hq] at h2
          refine ⟨?_, h2⟩
          cases fuel with
          | zero => simp [requests] at hq
          | succ f =>
            simp only [requests] at hq
            split at hq <;> (cases hq; rfl)

/-! Non-vacuity -/
example : (lexAll [97, 32, 61, 61, 10, 98]).map (fun t => (t.type, t.sl, t.sc)) =
    [(.ident, 0, 0), (.eq, 0, 2), (.ident, 1, 0), (.eof, 1, 1)] := by decide
example : lc [97, 32, 61, 61, 10, 98] 5 = (1, 0) := by decide

end Xjs.C10

#print axioms Xjs.C10.lexAll_total
#print axioms Xjs.C10.lexGoO_positions
#print axioms Xjs.C10.token_positions
#print axioms Xjs.C10.instrumented_tokens
#print axioms Xjs.C10.eof_sticky
#print axioms Xjs.C10.eof_only_at_end
#print axioms Xjs.C10.progress
#print axioms Xjs.C10.token_step
#print axioms Xjs.C10.tokens_of_requests
#print axioms Xjs.C10.requests_agree_with_source
