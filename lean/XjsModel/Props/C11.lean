import XjsModel.Proofs.ParserFrame
import XjsModel.Props.C10
import XjsModel.Proofs.ParserWfPass
import XjsModel.Proofs.ParserCompletePass
import XjsModel.Proofs.PrinterOk
import XjsModel.Proofs.ParserTotalBuilder
/-
  C11 — Parsing is total and its result obeys the error contract.

  Quantifier: ALL token lists / byte strings, ALL four mode combinations (and any operator tables and
  interceptor lists).

  Proved here (frame pass `steps_mutual` + inductions on `Steps`):
    (b) an error value is returned iff the error list is non-empty;
    (d) every reported error range coincides with the range of a token of the input
        (for byte input: a token of `lexAll src`); the error list only ever grows, errors are never
        dropped or rewritten by a later step;
    the cursor never moves backwards (ingredient of termination).
    (c) no statement list in the returned tree, at any depth, contains a nil entry — whatever errors occurred
        (`wf_mutual`, one pass over the mutual fixed point);
    (e) whenever no error is reported the tree is complete (every mandatory child present, recursively:
        `complete_mutual`) and a complete tree compiles in EVERY configuration without dereferencing a nil child
        (`compile_ok`, structural induction over the printers).
    (a) TERMINATION: on every byte string, in all four modes, with any pass-through interceptor lists and any
        operator tables a builder can produce (no operator on the EOF token, infix levels ≥ LOWEST), every function
        of the parser returns (`Total.all`: induction on the number of tokens left, the 22 functions of the mutual
        least-fixed-point block ordered by their same-size calls; `parseProgram_total`). The measure argument is the
        one that fails when a token gets a binding power without an infix parse function (the Pratt loop would then
        spin without consuming): `TablesOk`, re-checked for the tables extracted from /repo (TableObligations).
  Not expressible in the model: panics (the model has no partial operation; nil dereferences are covered by (c), (e));
  that is decided by the correspondence run (panicking ops are compared) and the error-contract oracle on raw bytes
  and token mutations in all four modes.
-/
namespace Xjs.C11
open Xjs

/-- (b) the error contract of `ParseProgram`: `err != nil` exactly when `Errors()` is non-empty -/
theorem error_value_iff_errors (cfg : PCfg) (toks : List Token) (r : ParseResult)
    (h : parseProgram cfg toks = some r) : r.hasErr = true ↔ r.errors ≠ [] := by
  unfold parseProgram at h
  obtain ⟨⟨stmts, st⟩, _, h2⟩ := bind_some h
  cases h2
  cases st.errors <;> simp

/-- errors are only ever appended: what a sub-parser has reported stays reported, in order -/
theorem errors_only_grow (cfg : PCfg) (is : List SI) (st : PS) (r : Stmt × PS)
    (h : parseStatementI cfg is st = some r) : st.errors <+: r.2.errors :=
  (steps_parseStatementI cfg is st r h).errors_prefix

/-- (d) every reported error lies exactly on the range of a token of the input -/
theorem error_ranges_are_token_ranges (cfg : PCfg) (toks : List Token) (hne : toks ≠ []) (r : ParseResult)
    (h : parseProgram cfg toks = some r) :
    ∀ e ∈ r.errors, ∃ t ∈ toks, e.range = t.range := by
  have hs := steps_parseProgram cfg toks r h
  have h0 : RangesIn toks [] (PS.init toks) :=
    ⟨hne, fun t ht => ⟨t, ht, rfl⟩, fun e he => by simp [PS.init] at he⟩
  have := hs.ranges toks [] h0
  unfold parseProgram at h
  obtain ⟨⟨stmts, st⟩, _, h2⟩ := bind_some h
  cases h2
  intro e he
  rcases this.errs e he with h' | h'
  · simp at h'
  · exact h'

/-- (d) for byte input: the ranges are ranges of tokens the lexer delivers for that input -/
theorem error_ranges_are_token_ranges_src (cfg : PCfg) (src : Bytes) (r : ParseResult)
    (h : parseSource cfg src = some r) :
    ∀ e ∈ r.errors, ∃ t ∈ lexAll src, e.range = t.range := by
  obtain ⟨ts, e, he, _, _⟩ := Xjs.C10.lexAll_total src
  exact error_ranges_are_token_ranges cfg (lexAll src) (by rw [he]; simp) r h

/-- the parser never un-reads a token: the buffer of tokens still to be consumed never grows -/
theorem cursor_never_moves_backwards (cfg : PCfg) (is : List SI) (st : PS) (r : Stmt × PS)
    (h : parseStatementI cfg is st = some r) : r.2.toks.length ≤ st.toks.length :=
  (steps_parseStatementI cfg is st r h).toks_length

theorem wf_programLoop (cfg : PCfg) (acc : StmtList) (st : PS) (r : StmtList × PS)
    (h : programLoop cfg acc st = some r) : acc.wf = true → r.1.wf = true := by
  refine programLoop.partial_correctness cfg (fun acc _ r => acc.wf = true → r.1.wf = true) ?_ acc st r h
  intro f ih acc st r h hacc
  split at h
  · obtain ⟨⟨s, st1⟩, h1, h2⟩ := bind_some h
    have hs := (wf_mutual cfg).1 _ _ _ h1
    refine ih _ _ _ h2 ?_
    dsimp only at hs ⊢
    split
    · exact hacc
    · rename_i hn
      rw [StmtList.wf_snoc]; simp [hacc, hs, hn]
  · cases h; exact hacc

/-- (c) statement lists in the returned tree never contain nil entries, whatever the input and the mode -/
theorem no_nil_in_statement_lists (cfg : PCfg) (toks : List Token) (r : ParseResult)
    (h : parseProgram cfg toks = some r) : r.prog.wf = true := by
  unfold parseProgram at h
  obtain ⟨⟨stmts, st⟩, h1, h2⟩ := bind_some h
  cases h2
  exact wf_programLoop cfg _ _ _ h1 rfl

theorem complete_programLoop (cfg : PCfg) (acc : StmtList) (st : PS) (r : StmtList × PS)
    (h : programLoop cfg acc st = some r) :
    st.elen ≤ r.2.elen ∧ ((acc.complete = true → r.1.complete = true) ∨ st.elen < r.2.elen) := by
  refine programLoop.partial_correctness cfg
    (fun acc st r => st.elen ≤ r.2.elen ∧ ((acc.complete = true → r.1.complete = true) ∨ st.elen < r.2.elen)) ?_ acc st r h
  intro f ih acc st r h
  split at h
  · obtain ⟨⟨s, st1⟩, h1, h2⟩ := bind_some h
    obtain ⟨l1, r1⟩ := (complete_mutual cfg).1 _ _ _ h1
    obtain ⟨l2, r2⟩ := ih _ _ _ h2
    dsimp only at l1 r1
    simp only [elen_next] at l2 r2
    refine ⟨by omega, ?_⟩
    rcases r1 with r1 | r1
    · rcases r2 with r2 | r2
      · left
        intro hacc
        apply r2
        rw [Stmt.complete_not_none r1]
        simp [StmtList.complete_snoc, hacc, r1]
      · right; omega
    · right; omega
  · cases h; exact ⟨Nat.le_refl _, Or.inl id⟩

/-- (e) whenever no error is reported, the tree has all mandatory children … -/
theorem error_free_tree_is_complete (cfg : PCfg) (toks : List Token) (r : ParseResult)
    (h : parseProgram cfg toks = some r) (hok : r.errors = []) : r.prog.complete = true := by
  unfold parseProgram at h
  obtain ⟨⟨stmts, st⟩, h1, h2⟩ := bind_some h
  cases h2
  obtain ⟨_, rr⟩ := complete_programLoop cfg _ _ _ h1
  rcases rr with rr | rr
  · exact rr rfl
  · simp only [PS.elen, PS.init, List.length_nil] at rr
    simp only at hok
    rw [hok] at rr
    simp at rr

/-- (e) … and compiles in EVERY configuration (compact, pretty with any indent, with or without semicolons
    and source map) without dereferencing a nil child -/
theorem error_free_tree_compiles (cfg : PCfg) (toks : List Token) (r : ParseResult)
    (h : parseProgram cfg toks = some r) (hok : r.errors = []) (ccfg : CompCfg) :
    (compile ccfg r.prog).ok = true :=
  compile_ok ccfg r.prog (error_free_tree_is_complete cfg toks r h hok)

/-- (a) PARSING TERMINATES, for every byte string: all four modes, any pass-through interceptor lists -/
theorem parsing_terminates (tolerant smart : Bool) (si : List SI) (ei : List EI) (src : Bytes) :
    ∃ r, parseSource { tolerant := tolerant, smart := smart, stmtI := si, exprI := ei } src = some r := by
  obtain ⟨ts, e, h1, h2, _⟩ := Xjs.C10.lexAll_total src
  exact Total.parseProgram_total (Total.tablesOk_base tolerant smart si ei) (lexAll src) ⟨ts, e, h1, h2⟩

/-- (a) … and with the operator tables of any builder: custom prefix / infix / postfix operators -/
theorem parsing_terminates_with_custom_operators (b : Builder) (si : List SI) (ei : List EI) (src : Bytes)
    (hp : ∀ t ∈ b.prefixOps, t ≠ .eof) (hi : ∀ op ∈ b.infixOps, op.1 ≠ .eof ∧ 1 ≤ op.2) (hq : ∀ t ∈ b.postfixOps, t ≠ .eof) :
    ∃ r, parseSource (b.config si ei) src = some r := by
  obtain ⟨ts, e, h1, h2, _⟩ := Xjs.C10.lexAll_total src
  exact Total.parseProgram_total (Total.tablesOk_builder b si ei hp hi hq) (lexAll src) ⟨ts, e, h1, h2⟩

/-- the whole contract in one statement: for every byte string and mode there IS a result, and it obeys (b)–(e) -/
theorem parse_total_and_contract (tolerant smart : Bool) (si : List SI) (ei : List EI) (src : Bytes) :
    ∃ r, parseSource { tolerant := tolerant, smart := smart, stmtI := si, exprI := ei } src = some r ∧
      (r.hasErr = true ↔ r.errors ≠ []) ∧ r.prog.wf = true ∧ (∀ e ∈ r.errors, ∃ t ∈ lexAll src, e.range = t.range) ∧
      (r.errors = [] → r.prog.complete = true ∧ ∀ ccfg : CompCfg, (compile ccfg r.prog).ok = true) := by
  obtain ⟨r, h⟩ := parsing_terminates tolerant smart si ei src
  exact ⟨r, h, error_value_iff_errors _ _ r h, no_nil_in_statement_lists _ _ r h,
    error_ranges_are_token_ranges_src _ src r h,
    fun hok => ⟨error_free_tree_is_complete _ _ r h hok, fun c => error_free_tree_compiles _ _ r h hok c⟩⟩

/-- the hypothesis of termination is sharp: a token with a binding power but no infix parse function makes the
    Pratt loop spin (the model's least fixed point is undefined there — what a seeded table slip produces) -/
example : ¬ Total.TablesOk { precs := (TokType.ident, 5) :: basePrecedences } := by
  intro h
  have := h.infix_of_prec .ident (by decide)
  revert this; decide

/-! Non-vacuity -/
example : ∃ r, parseProgram {} [dummyTok] = some r ∧ r.hasErr = false := by
  have h : parseProgram {} [dummyTok] =
      some { prog := .nil, errors := [], hasErr := false, final := PS.init [dummyTok] } := by
    rw [parseProgram, programLoop]
    simp [PS.init, PS.cur, dummyTok]
  exact ⟨_, h, rfl⟩

end Xjs.C11

#print axioms Xjs.C11.error_value_iff_errors
#print axioms Xjs.C11.errors_only_grow
#print axioms Xjs.C11.error_ranges_are_token_ranges
#print axioms Xjs.C11.error_ranges_are_token_ranges_src
#print axioms Xjs.C11.cursor_never_moves_backwards
#print axioms Xjs.C11.no_nil_in_statement_lists
#print axioms Xjs.C11.error_free_tree_is_complete
#print axioms Xjs.C11.error_free_tree_compiles
#print axioms Xjs.C11.parsing_terminates
#print axioms Xjs.C11.parsing_terminates_with_custom_operators
#print axioms Xjs.C11.parse_total_and_contract
