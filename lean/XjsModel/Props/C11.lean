import XjsModel.Proofs.ParserFrame
import XjsModel.Props.C10
/-
  C11 — Parsing is total and its result obeys the error contract.

  Quantifier: ALL token lists / byte strings, ALL four mode combinations (and any operator tables and
  interceptor lists).

  Proved here (frame pass `steps_mutual` + inductions on `Steps`):
    (b) an error value is returned iff the error list is non-empty;
    (d) every reported error range coincides with the range of a token of the input
        (for byte input: a token of `lexAll src`); the error list only ever grows, errors are never
        dropped or rewritten by a later step;
    the cursor never moves backwards (ingredient of termination).
  See the end of the file for the clauses proved in later sections (statement lists without nil entries,
  completeness of error-free trees, totality).
-/
namespace Xjs.C11
open Xjs

/-- (b) the error contract of `ParseProgram`: `err != nil` exactly when `Errors()` is non-empty -/
theorem error_value_iff_errors (cfg : PCfg) (toks : List Token) (r : ParseResult)
    (h : parseProgram cfg toks = some r) : r.hasErr = true ↔ r.errors ≠ [] := by
  unfold parseProgram at h
  obtain ⟨⟨stmts, st⟩, _, h2⟩ := bind_some h
  cases h2
  cases st.errors <;> simp

/-- errors are only ever appended: what a sub-parser has reported stays reported, in order -/
theorem errors_only_grow (cfg : PCfg) (is : List SI) (st : PS) (r : Stmt × PS)
    (h : parseStatementI cfg is st = some r) : st.errors <+: r.2.errors :=
  (steps_parseStatementI cfg is st r h).errors_prefix

/-- (d) every reported error lies exactly on the range of a token of the input -/
theorem error_ranges_are_token_ranges (cfg : PCfg) (toks : List Token) (hne : toks ≠ []) (r : ParseResult)
    (h : parseProgram cfg toks = some r) :
    ∀ e ∈ r.errors, ∃ t ∈ toks, e.range = t.range := by
  have hs := steps_parseProgram cfg toks r h
  have h0 : RangesIn toks [] (PS.init toks) :=
    ⟨hne, fun t ht => ⟨t, ht, rfl⟩, fun e he => by simp [PS.init] at he⟩
  have := hs.ranges toks [] h0
  unfold parseProgram at h
  obtain ⟨⟨stmts, st⟩, _, h2⟩ := bind_some h
  cases h2
  intro e he
  rcases this.errs e he with h' | h'
  · simp at h'
  · exact h'

/-- (d) for byte input: the ranges are ranges of tokens the lexer delivers for that input -/
theorem error_ranges_are_token_ranges_src (cfg : PCfg) (src : Bytes) (r : ParseResult)
    (h : parseSource cfg src = some r) :
    ∀ e ∈ r.errors, ∃ t ∈ lexAll src, e.range = t.range := by
  obtain ⟨ts, e, he, _, _⟩ := Xjs.C10.lexAll_total src
  exact error_ranges_are_token_ranges cfg (lexAll src) (by rw [he]; simp) r h

/-- the parser never un-reads a token: the buffer of tokens still to be consumed never grows -/
theorem cursor_never_moves_backwards (cfg : PCfg) (is : List SI) (st : PS) (r : Stmt × PS)
    (h : parseStatementI cfg is st = some r) : r.2.toks.length ≤ st.toks.length :=
  (steps_parseStatementI cfg is st r h).toks_length

/-! Non-vacuity -/
example : ∃ r, parseProgram {} [dummyTok] = some r ∧ r.hasErr = false := by
  have h : parseProgram {} [dummyTok] =
      some { prog := .nil, errors := [], hasErr := false, final := PS.init [dummyTok] } := by
    rw [parseProgram, programLoop]
    simp [PS.init, PS.cur, dummyTok]
  exact ⟨_, h, rfl⟩

end Xjs.C11

#print axioms Xjs.C11.error_value_iff_errors
#print axioms Xjs.C11.errors_only_grow
#print axioms Xjs.C11.error_ranges_are_token_ranges
#print axioms Xjs.C11.error_ranges_are_token_ranges_src
#print axioms Xjs.C11.cursor_never_moves_backwards
