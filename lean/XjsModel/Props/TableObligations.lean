import XjsModel.Gen.Tables
import XjsModel.Model.Builder
import XjsModel.Model.Printer
/-
  Table obligations: the tables re-extracted from /repo's source on every run (`XjsModel/Gen/Tables.lean`)
  against the tables the hand-written model and the proofs use. Each is decided by kernel evaluation.
  A source change to a table makes exactly one of these fail by name.
-/
namespace Xjs.Tables
open Xjs

/-- insertion sort (structural, so the kernel can evaluate it) -/
def insertBy {α} (le : α → α → Bool) (x : α) : List α → List α
  | [] => [x]
  | y :: ys => if le x y then x :: y :: ys else y :: insertBy le x ys

def isort {α} (le : α → α → Bool) : List α → List α
  | [] => []
  | x :: xs => insertBy le x (isort le xs)

def sortPairs (l : List (Nat × Nat)) : List (Nat × Nat) := isort (fun a b => a.1 ≤ b.1) l

def bytesLe : List Nat → List Nat → Bool
  | [], _ => true
  | _ :: _, [] => false
  | a :: as, b :: bs => a < b || (a == b && bytesLe as bs)

def prefixKindIndex : PrefixKind → Nat
  | .ident => 0 | .int => 1 | .float => 2 | .string => 3 | .rawString => 4 | .bool => 5 | .null => 6
  | .unary => 7 | .group => 8 | .array => 9 | .object => 10 | .func => 11

def infixKindIndex : InfixKind → Nat
  | .binary => 0 | .assign => 1 | .compound => 2 | .call => 3 | .member => 4 | .index => 5 | .postfix => 6

/-- token numbering: the `iota` block of token.go is the model's constructor order -/
theorem token_numbering : Gen.tokenNumbers = TokType.builtins.map TokType.toNat ∧ Gen.tokenConstCount = TokType.builtins.length := by decide

theorem token_ofNat_toNat : ∀ t ∈ TokType.builtins, TokType.ofNat t.toNat = t := by decide

theorem dynamic_start : Gen.dynamicTokensStart = DYNAMIC_TOKENS_START ∧ TokType.builtins.length ≤ DYNAMIC_TOKENS_START := by decide

/-- `Type.String()` -/
theorem type_strings : Gen.typeStrings = TokType.builtins.map (fun t => (t.toNat, typeName t)) := by decide

/-- `token.Keywords` -/
theorem keywords : Gen.keywords = isort (fun a b => bytesLe a.1 b.1) (keywordTable.map (fun kv => (kv.1, kv.2.toNat))) := by decide

/-- parser precedence constants -/
theorem parser_levels : Gen.parserLevels = [LOWEST, ASSIGNMENT, LOGICAL_OR, LOGICAL_AND, EQUALITY, COMPARISON, SUM, PRODUCT,
    UNARY, POSTFIX, CALL, MEMBER] ∧ Gen.parserLevelCount = 12 := by decide

/-- the package-level `precedences` map -/
theorem precedences : Gen.precedences = sortPairs (basePrecedences.map (fun kv => (kv.1.toNat, kv.2))) := by decide

/-- `prefixParseFns` bindings -/
theorem prefix_fns : Gen.prefixFns = sortPairs (basePrefixFns.map (fun kv => (kv.1.toNat, prefixKindIndex kv.2))) := by decide

/-- `infixParseFns` bindings -/
theorem infix_fns : Gen.infixFns = sortPairs (baseInfixFns.map (fun kv => (kv.1.toNat, infixKindIndex kv.2))) := by decide

/-- duplicate-bookkeeping seeds of `NewBuilder` -/
theorem builder_seeds :
    Gen.seedPrefix = isort (fun a b => a ≤ b) (Builder.new.regPrefix.map TokType.toNat) ∧
    Gen.seedPostfix = isort (fun a b => a ≤ b) (Builder.new.regPostfix.map TokType.toNat) ∧
    Gen.seedInfixIsPrecedenceKeys = true ∧
    Builder.new.regInfix = basePrecedences.map (·.1) := by decide

/-- the clauses of `shouldInsertSemicolon`'s switch that return false -/
theorem asi_clauses : Gen.asiReturnsFalse = asiContinuation.map TokType.toNat := by decide

/-- ast precedence constants -/
theorem ast_levels : Gen.astLevels = [precLowest, precAssignment, precLogicalOr, precLogicalAnd, precEquality, precComparison,
    precSum, precProduct, precUnary, precPostfix, precCall, precMember, precAtomic] ∧ Gen.astLevelCount = 13 := by decide

/-- `ast.operatorPrecedence` agrees with the model on every built-in token type -/
theorem operator_precedence :
    ∀ t ∈ TokType.builtins, ((Gen.operatorPrecedence.find? (fun kv => kv.1 == t.toNat)).map (·.2)).getD Gen.operatorPrecedenceDefault
      = operatorPrecedence t := by decide

/-- each node type's `Precedence()` constant -/
theorem node_precedence :
    Gen.nodePrecedence = [precAtomic, precAtomic, precAtomic, precAtomic, precAtomic, precAtomic, precAtomic,
      precAssignment, precUnary, precPostfix, precAtomic, precCall, precMember, precAssignment, precAssignment,
      precAtomic, precAtomic, precAtomic] ∧ Gen.nodePrecedenceCount = 19 ∧ Gen.binaryUsesOperatorPrecedence = true := by decide

/-- KEY obligation for C03/C02: the printer's precedence of an operator token is the parser's binding power,
    for every token that has one (read from the EXTRACTED tables) -/
theorem printer_precedence_eq_parser_binding_power :
    ∀ kv ∈ Gen.precedences, ((Gen.operatorPrecedence.find? (fun x => x.1 == kv.1)).map (·.2)).getD Gen.operatorPrecedenceDefault = kv.2 := by decide

/-- every token with a binding power has an infix parse function and vice versa (no silent loop in
    `ParseRemainingExpressionWithPrecedence`) -/
theorem infix_keys_eq_precedence_keys : Gen.infixFns.map (·.1) = Gen.precedences.map (·.1) := by decide

/-- the precondition of parser termination (C11 `parsing_terminates`, `Total.TablesOk`), read from the EXTRACTED tables:
    binding powers start at LOWEST, every token binding tighter than LOWEST has an infix parse function, and the
    end-of-input token has neither an infix nor a prefix parse function -/
theorem termination_precondition :
    (∀ kv ∈ Gen.precedences, 1 ≤ kv.2 ∧ (1 < kv.2 → (Gen.infixFns.map (·.1)).contains kv.1 = true)) ∧
    (Gen.infixFns.map (·.1)).contains TokType.eof.toNat = false ∧
    (Gen.prefixFns.map (·.1)).contains TokType.eof.toNat = false ∧
    (Gen.precedences.map (·.1)).contains TokType.eof.toNat = false := by decide

/-- the operator / delimiter dispatch of the Go lexer (`switch l.CurrentChar` of baseNextToken, re-extracted on every
    run as (first character, look-ahead character or 0, token constant)): on each listed character, with the listed
    look-ahead, the model lexer returns the same token constant, spelled with exactly those bytes, and stops behind them -/
theorem lexer_dispatch :
    (∀ e ∈ Gen.lexerDispatch,
      (baseNextToken false [] { rest := if e.2.1 = 0 then [e.1, 59] else [e.1, e.2.1, 59] }).1.type.toNat = e.2.2 ∧
      (baseNextToken false [] { rest := if e.2.1 = 0 then [e.1, 59] else [e.1, e.2.1, 59] }).1.lit = (if e.2.1 = 0 then [e.1] else [e.1, e.2.1]) ∧
      (baseNextToken false [] { rest := if e.2.1 = 0 then [e.1, 59] else [e.1, e.2.1, 59] }).2.rest = [59]) ∧
    Gen.lexerDispatch.length = 31 := by decide

/-- Base64 alphabet and map version -/
theorem base64 : Gen.base64Chars = base64Table ∧ Gen.base64Chars.length = 64 := by decide
theorem map_version : Gen.sourceMapVersion = 3 := by decide

/-- package-level variables are never written (C14: shared tables are read-only) -/
theorem globals_read_only : Gen.globalsWrittenCount = 0 := by decide

end Xjs.Tables
