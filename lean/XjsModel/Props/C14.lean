import XjsModel.Proofs.PrinterNoMap
import XjsModel.Props.TableObligations
/-
  C14 — Instances are isolated and results deterministic.

  What is proved here (for ALL trees and configurations):
    * requesting a source map never changes the generated code;
    * the debug string of a node is its compact compilation;
    * compiling is a function of (configuration, tree) — in the model by construction; the content of that
      clause is the tie: no package-level table is ever written (`Tables.globals_read_only`, re-extracted
      from the source on every run) and the correspondence / race runs.
  Not provable in Lean: the quantifier over goroutine schedules (no Lean model of the Go memory model);
  it is explored with the race detector against the sequential model results.
-/
namespace Xjs.C14
open Xjs

theorem cleanEmptyLines_congr (a b : Bytes) (h : a = b) : cleanEmptyLines a = cleanEmptyLines b := by rw [h]

/-- requesting a source map never changes the generated code, nor whether the printer hits a nil child -/
theorem source_map_does_not_change_code (cfg : CompCfg) (prog : StmtList) :
    (compile { cfg with sourceMap := true } prog).code = (compile { cfg with sourceMap := false } prog).code ∧
    (compile { cfg with sourceMap := true } prog).ok = (compile { cfg with sourceMap := false } prog).ok := by
  have h := sim_writeProgramStmts prog true
    { pretty := cfg.pretty, indentString := cfg.indent, semis := cfg.semis, mapper := some Mapper.new }
    { pretty := cfg.pretty, indentString := cfg.indent, semis := cfg.semis, mapper := none } rfl
  unfold Sim CW.noMap at h
  have hout := congrArg CW.out h
  have hok := congrArg CW.ok h
  simp only at hout hok
  unfold compile
  simp only [if_true, Bool.false_eq_true, if_false]
  exact ⟨by rw [hout], hok⟩

/-- `debug.ToString(program)` equals the compact compilation -/
theorem debug_string_is_compact_compilation (prog : StmtList) :
    debugProgramToString prog = (compile {} prog).code := rfl

/-- compiling is a function of configuration and tree (no hidden state in the model) -/
theorem compile_deterministic (cfg : CompCfg) (p q : StmtList) (h : p = q) : (compile cfg p).code = (compile cfg q).code := by
  rw [h]

/-- the tie for "no shared mutable state": no code path writes a package-level variable
    (obligation on the tables re-extracted from /repo on every run) -/
theorem package_tables_read_only : Gen.globalsWrittenCount = 0 := Tables.globals_read_only

/-! Non-vacuity -/
example : (compile { pretty := true, indent := [32, 32], semis := true, sourceMap := true }
    (.cons (.exprS (.ident { tok := { type := .ident, lit := [97], sl := 0, sc := 0, el := 0, ec := 1 }, value := [97] })) .nil)).code
    = [97, 59] := by decide

end Xjs.C14

#print axioms Xjs.C14.source_map_does_not_change_code
#print axioms Xjs.C14.debug_string_is_compact_compilation
#print axioms Xjs.C14.compile_deterministic
#print axioms Xjs.C14.package_tables_read_only
