import XjsModel.Proofs.IndentTree
/-
  C06 — Pretty printing changes layout only, and is stable.

  Proved here, for ALL trees (parsed or programmatic), both semicolon settings and ANY two indent units made of
  spaces and tabs (`WithSpaces(n)` for every n, `WithTabs()`, and the empty string = the default two spaces):
    (c) the two pretty-printed texts are equal after deleting, on every line, the leading run of spaces and tabs
        (`nrmB true`), and they end in the same state — i.e. the indentation option changes only leading
        whitespace. The statement is about the text the writer produces; the compiler's final clean-up
        (`TrimSpace` + per-line `TrimRight(" ")`) is layout-only as well but is not covered by the theorem.
    the deferred indentation (`'\t'` in the pending buffer) is only ever pending behind a pending line feed
        (`PendShape`), which is why indentation can never land inside a line.
  Decided by the correspondence run (option grid) and the model-free oracle (re-parse, double formatting,
  semicolon-only difference): (a) same tree as compact, (b) idempotence, (d) the semicolon option. Known findings
  there: `nosemi-hazard` (D6), `trim-in-literal` (D5).
-/
namespace Xjs.C06
open Xjs

/-- the text the pretty printer writes (before the compiler's final clean-up) -/
def prettyRaw (indent : Bytes) (semis : Bool) (prog : StmtList) : Bytes :=
  (writeProgramStmts prog true { pretty := true, indentString := indent, semis := semis }).out

theorem allWs_indentUnit (indent : Bytes) (h : AllWs indent) :
    AllWs ({ pretty := true, indentString := indent } : CW).indentUnit := by
  unfold CW.indentUnit
  split
  · intro c hc; simp at hc; rcases hc with rfl | rfl <;> rfl
  · exact h

/-- (c) Indentation options change only leading whitespace. -/
theorem indentation_changes_only_leading_whitespace (A B : Bytes) (hA : AllWs A) (hB : AllWs B) (semis : Bool)
    (prog : StmtList) :
    nrmB true (prettyRaw A semis prog) = nrmB true (prettyRaw B semis prog) := by
  have h0 : IndRel { pretty := true, indentString := A, semis := semis } { pretty := true, indentString := B, semis := semis } :=
    ⟨rfl, rfl, rfl, rfl, rfl, rfl, rfl, Eqv.refl _, allWs_indentUnit A hA, allWs_indentUnit B hB, Or.inl rfl⟩
  exact (ind_writeProgramStmts prog true _ _ h0).out.1

/-- the indent strings the public options can produce are made of spaces / a tab -/
theorem option_indents_are_whitespace (n : Nat) : AllWs (List.replicate n 32) ∧ AllWs [9] := by
  constructor
  · intro c hc; rw [List.mem_replicate] at hc; rw [hc.2]; rfl
  · intro c hc; simp at hc; subst hc; rfl

/-- what `nrmB` keeps: everything except spaces/tabs that directly follow a line feed (or start the text) -/
example : nrmB true (strBytes "{\n    a;\n\t\tb; c\n}") = strBytes "{\na;\nb; c\n}" := by decide +kernel

/-! Non-vacuity: a block with one statement, two spaces vs a tab -/
private def demo : StmtList :=
  .cons (.block { type := .lbrace, lit := [123], sl := 0, sc := 0, el := 0, ec := 0 }
    (.cons (.exprS (.ident { tok := { type := .ident, lit := [97], sl := 0, sc := 2, el := 0, ec := 3 }, value := [97] })) .nil)
    { type := .rbrace, lit := [125], sl := 0, sc := 4, el := 0, ec := 4 }) .nil
example : prettyRaw [32, 32] true demo = [123, 10, 32, 32, 97, 59, 10, 125] ∧ prettyRaw [9] true demo = [123, 10, 9, 97, 59, 10, 125] := by decide

end Xjs.C06

#print axioms Xjs.C06.indentation_changes_only_leading_whitespace
#print axioms Xjs.C06.option_indents_are_whitespace
