import XjsModel.Proofs.RaTerm
import XjsModel.Proofs.LexPrintAll
import XjsModel.Proofs.LexPrintSane
import XjsModel.Proofs.LexPrintRound
import XjsModel.Props.TableObligations
/-
  C03 — Printed code parses back to the tree it was printed from.

  Quantifier of the theorems: ALL trees of the language — expressions (atoms, explicit parentheses, the four prefix
  operators, the thirteen binary operators, the two postfix operators, calls, member access (dot and computed),
  assignment and the two compound assignments, array literals, object literals, function expressions) and statements
  (expression statements, `let` with and without initialiser, `return` with and without value, `if` with and without
  `else`, `while`, `for` with any combination of clauses, blocks, function declarations), whole programs — of any depth
  and in any combination, whether the tree came from the parser or was assembled programmatically; parser in any mode
  (smart-semicolon mode: `(` / `[` of a call / index not first on its line), with the built-in tables.
  The restrictions on the shape (`wf`) are exactly the three known findings of this property plus ECMAScript's
  LeftHandSideExpression positions: callee, object and assignment target are call-level-or-tighter expressions; an
  expression statement does not start with `{` or `function` (finding stmt-start-object-or-function); the then-branch
  of an `if` with `else` does not end in an `if` without `else` (finding dangling-else).

  Proved here (`RA.main`, `RA.stmtMain`, `RA.program_round_trip`: the Pratt invariant for expressions, its statement
  counterpart, and the statement loops, by structural recursion over the seven mutually inductive spec-tree types):
    the token sequence the printer emits for a tree (`toks`: operands parenthesised by the printer's four precedence
    tests; `;` after expression, `let` and `return` statements; no separator after `}`) is parsed back to exactly that
    tree, the printer's parentheses appearing as grouping nodes (`tree`), without any error; for expressions the cursor
    stops on the last token.
  Tie to the code: the printer's and the parser's precedence tables are re-extracted from /repo on every run and
  compared by `decide` (TableObligations); `parenLeft … parenPostfix` are the comparisons of ast.go.
  Proved here too (`LP.compact_text_lexes`, `Proofs/LexPrint*.lean`): the BYTES the compact printer writes for such a tree
  lex to exactly `toks` (type and literal of every token, then end of input) — no token fusion (the class of the
  repaired defects ebb5d69, aca1392), for every tree whose tokens are lexically sane (`LP.saneB`: operators, delimiters
  and keywords carry their spelling, identifiers are identifiers, number / string / backtick literals re-lex as
  themselves — decidable sufficient conditions: `numOk_decimal`, `numOk_fraction`, `strOk_plain`, `rawOk_plain`; the property name of a
  member access does not start with a digit). The writer invariant `LP.WInv` carries a FOLLOW predicate (what may stand
  behind the text written so far without being drawn into its last token) and the fact that a sign which the predicate
  rejects is the last byte written, which is what `separateSigns` tests.
  The re-lexed tokens carry no line break and no comment (`compact_text_lexes_to_quiet_tokens`), parsing commutes with
  erasing token positions (`parsing_ignores_positions`, one more pass over the mutual block), and so the end-to-end
  statement holds: `compact_text_parses_back_to_the_tree`.
  Not proved: pretty mode (incl. `WithSemi(false)`), trees outside `wf`. Those are decided by the
  correspondence run (PRINTT stream: programmatic trees, exhaustive parent/child pairs) and the model-free re-parse oracle.
  Known findings there: stmt-start-object-or-function, dangling-else, printer-paren-function-indent, trim-in-literal.
-/
namespace Xjs.C03
open Xjs Xjs.RA

/-- PRINT → PARSE: for every such tree, parsing the printer's token sequence (followed by anything
    that cannot continue an expression, e.g. `;`, `)`, `,`, end of input) returns exactly that tree. -/
theorem printed_tokens_parse_back (cfg : PCfg) (hc : BaseCfg cfg) (s : SE) (hw : s.wf = true) (hterm : s.term = true)
    (st : PS) (rest : List Token) (hr : rest ≠ []) (ht : st.toks = s.toks ++ rest) (hstop : stops cfg LOWEST rest) :
    parseExpressionI cfg [] LOWEST st = some (s.tree, nextK (s.toks.length - 1) st) :=
  print_then_parse (tol := false) (sm := false) hc (fun h => by cases h) (fun h => by cases h) s hw (lay_of_term false false s hw hterm) LOWEST st rest hr ht
    (fits_lowest s hw) (stops_mono hstop (rbl_ge_one s hw)) hstop

/-- PRINT → PARSE for statements: any well-formed statement, followed by anything that is not an `else` after an open
    `if`, parses back to the statement; the cursor stops on its last token -/
theorem printed_statement_parses_back (cfg : PCfg) (hc : BaseCfg cfg) (s : SS) (hw : s.wf = true) (hterm : s.term = true)
    (st : PS) (rest : List Token) (hr : rest ≠ []) (ht : st.toks = s.toks ++ rest)
    (hopen : s.openIf = true → (rest.headD semiT).type ≠ .else_) :
    parseStatementI cfg cfg.stmtI st = some (s.tree, nextK (s.toks.length - 1) st) :=
  stmtMain (tol := false) (sm := false) hc (fun h => by cases h) (fun h => by cases h) s hw (layS_of_term false false s hw hterm)
    st rest hr ht (follow_of_term false false s hterm _ hopen)

/-- PRINT → PARSE for whole programs, every mode: the printed tokens of any well-formed program tree (every statement
    terminator written, as the compact printer does) parse to that tree without any error -/
theorem printed_program_parses_back (cfg : PCfg) (hc : BaseCfg cfg) (prog : SSList) (hw : prog.wf = true)
    (hterm : prog.term = true) (eofTok : Token) (he : eofTok.type = .eof) :
    ∃ r, parseProgram cfg (prog.toks ++ [eofTok]) = some r ∧ r.prog = prog.tree ∧ r.errors = [] ∧ r.hasErr = false :=
  printed_program_round_trip hc prog hw hterm eofTok he

/-- PRINT → LEX: the text the compiler emits in compact mode (any indent / semicolon setting, with or without a source
    map) for a well-formed program tree with lexically sane tokens is read by the lexer as exactly the printed token
    sequence `toks` — the same type and literal, token by token — followed by end of input -/
theorem compact_text_lexes_to_printed_tokens (ccfg : CompCfg) (hc : ccfg.pretty = false) (prog : SSList) (hw : prog.wf = true)
    (hterm : prog.term = true) (hs : LP.saneB prog) :
    (lexAll (compile ccfg prog.tree).code).map LP.keyOf = prog.toks.map LP.keyOf ++ [(.eof, [])] :=
  LP.compact_text_lexes ccfg hc prog hw hterm hs

/-- … and everything else the parser can see of the re-lexed tokens, positions apart: none of them stands after a line
    break, none carries a comment (`keyOf4` = type, literal, after-newline flag, leading comments) -/
theorem compact_text_lexes_to_quiet_tokens (ccfg : CompCfg) (hc : ccfg.pretty = false) (prog : SSList) (hw : prog.wf = true)
    (hterm : prog.term = true) (hs : LP.saneB prog) :
    (lexAll (compile ccfg prog.tree).code).map LP.keyOf4 = prog.toks.map LP.quietKey ++ [LP.eofKey] :=
  LP.compact_text_lexes4 ccfg hc prog hw hterm hs

/-- PRINT → LEX for one expression in any context: whatever was written before (`WInv`: compact mode, nothing pending,
    the text so far lexes to `ks` in front of anything the follow predicate `fc` admits, and `fc` admits everything an
    expression can start with), the text of the expression adds exactly its tokens, and anything that may follow a
    number may follow it -/
theorem expression_text_lexes (s : SE) (hw : s.wf = true) (hterm : s.term = true) (hs : LP.saneE s) (cw : CW) (ks : List LP.Key)
    (fc : Bytes → Bool) (h : LP.WInv cw ks fc) (hst : LP.StartOK fc) :
    ∃ fc', LP.WInv (writeExpr s.tree cw) (ks ++ s.toks.map LP.keyOf) fc' ∧ LP.EndOK fc' :=
  LP.lexE s hw hterm hs h hst

/-- the sign-separation rule: in front of a prefix `-`, `--`, `++` the writer puts a blank exactly when the byte
    written last is the same sign; afterwards the operator can be written without fusing with what precedes it -/
theorem separate_signs_is_enough (cw : CW) (ks : List LP.Key) (fc : Bytes → Bool) (h : LP.WInv cw ks fc) (hst : LP.StartOK fc)
    (c : Nat) (w : Bytes) (hc : c = 43 ∨ c = 45) :
    ∃ fc1, LP.WInv (cw.separateSigns (c :: w)) ks fc1 ∧ (∀ r, fc1 (c :: r) = true) ∧ LP.StartOK fc1 :=
  LP.sep_lex h hst c w hc

/-- PRINT → LEX → PARSE, compact mode, end to end: for every well-formed program tree with lexically sane tokens that
    carry no line-break flags / comments (programmatic trees; a parsed tree after erasing its trivia; positions are
    arbitrary), in each of the four parser modes and for every compact option set: the parser, run on the TEXT the compiler
    emits, returns — without any error — a tree that equals the original one up to the positions of its tokens
    (`stmtListZ` sets every position to zero).
    (`compact_text_lexes4` ∘ `Pos.pos_parseProgram`: parsing commutes with erasing positions ∘ `printed_program_round_trip`,
    and the parser terminates.) -/
theorem compact_text_parses_back_to_the_tree (tolerant smart : Bool) (ccfg : CompCfg) (hc : ccfg.pretty = false) (prog : SSList)
    (hw : prog.wf = true) (hterm : prog.term = true) (hs : LP.saneB prog) (hn : ∀ t ∈ prog.toks, LP.quietTok t) :
    ∃ r, parseSource { tolerant := tolerant, smart := smart } (compile ccfg prog.tree).code = some r ∧
      Pos.stmtListZ r.prog = Pos.stmtListZ prog.tree ∧ r.errors = [] ∧ r.hasErr = false :=
  LP.compact_round_trip tolerant smart ccfg hc prog hw hterm hs hn

/-- parsing commutes with erasing token positions: the parser reads of a token only its type, literal and after-newline
    flag; positions are copied into the tree, the error ranges and the trace -/
theorem parsing_ignores_positions (cfg : PCfg) (toks : List Token) (r : ParseResult) (h : parseProgram cfg toks = some r) :
    parseProgram cfg (toks.map Pos.tokZ) =
      some { prog := Pos.stmtListZ r.prog, errors := r.errors.map Pos.errZ, hasErr := r.hasErr, final := Pos.psZ r.final } :=
  Pos.pos_parseProgram toks r h

/-- for trees that come out of the parser the spelling part of the sanity hypothesis is automatic: whatever the lexer
    returns for a type with a fixed spelling (operators, delimiters, keywords) carries that spelling, and an IDENT token is
    a letter followed by letters and digits and no keyword — from any cursor, on any input -/
theorem tokens_from_the_lexer_are_spelled (s : LS) :
    (LP.canon (nextToken s).1.type ≠ [] → (nextToken s).1.lit = LP.canon (nextToken s).1.type) ∧
    ((nextToken s).1.type = .ident → LP.identOk (nextToken s).1.lit = true) :=
  LP.nextToken_sane s

/-- tie of the spelling table `LP.canon` to the Go source: every entry of the lexer's operator / delimiter dispatch
    (re-extracted on every run) other than ILLEGAL spells its token as `canon` says, and every operator / delimiter type
    of `canon` has an entry -/
theorem spelling_table_is_lexer_dispatch :
    (∀ e ∈ Gen.lexerDispatch, e.2.2 ≠ 0 → LP.canon (TokType.ofNat e.2.2) = (if e.2.1 = 0 then [e.1] else [e.1, e.2.1])) ∧
    (∀ t ∈ TokType.builtins, LP.canon t ≠ [] → isLetter ((LP.canon t).headD 0) = false →
      Gen.lexerDispatch.any (fun e => e.2.2 == t.toNat) = true) := by decide

/-- sufficient, decidable conditions for the literal hypotheses -/
theorem literal_sanity_conditions :
    (∀ w, LP.decimalLit w = true → LP.numOk w .int) ∧
    (∀ d1 d2, LP.fractionLit d1 d2 = true → LP.numOk (d1 ++ 46 :: d2) .float) ∧
    (∀ v, LP.plainStr v = true → LP.strOk v) ∧ (∀ v, LP.plainRaw v = true → LP.rawOk v) :=
  ⟨LP.numOk_decimal, LP.numOk_fraction, LP.strOk_plain, LP.rawOk_plain⟩

/-- the modes the theorems cover: the four combinations of strict / tolerant and smart semicolons -/
theorem all_modes_are_base (tolerant smart : Bool) : BaseCfg { tolerant := tolerant, smart := smart } :=
  ⟨rfl, rfl, rfl, rfl, rfl⟩

/-- the levels of `SE.toks` are the `Precedence()` values of the nodes of the tree -/
theorem prec_tree (s : SE) : s.tree.prec = s.level := by
  cases s with
  | atom t =>
    show (SE.tree (.atom t)).prec = precAtomic
    simp only [SE.tree]
    unfold atomTree; split <;> rfl
  | _ => simp [SE.tree, Expr.prec, SE.level]

/-- the printer's four parenthesisation tests, on the tree, are the ones `SE.toks` uses -/
theorem printer_tests (t : Token) (l r : SE) :
    (decide (l.tree.prec < operatorPrecedence t.type) = parenLeft (operatorPrecedence t.type) l) ∧
    (decide (r.tree.prec ≤ operatorPrecedence t.type) = parenRight (operatorPrecedence t.type) r) ∧
    (decide (r.tree.prec < precUnary) = parenUnary r) ∧
    (decide (l.tree.prec < precPostfix) = parenPostfix l) := by
  simp only [prec_tree, parenLeft, parenRight, parenUnary, parenPostfix, and_self]

/-- tie: the printer's precedence table equals the parser's binding-power table on every operator token
    (re-extracted from /repo on every run) -/
theorem tables_agree :
    ∀ kv ∈ Gen.precedences, ((Gen.operatorPrecedence.find? (fun x => x.1 == kv.1)).map (·.2)).getD Gen.operatorPrecedenceDefault = kv.2 :=
  Tables.printer_precedence_eq_parser_binding_power

/-! Non-vacuity: `(a + b) * -c` as a programmatic tree: `*` over `+` forces parentheses on the left -/
private def tk (ty : TokType) (lit : Bytes) : Token := { type := ty, lit := lit, sl := 0, sc := 0, el := 0, ec := 0 }
private def demo : SE :=
  .bin (tk .multiply [42]) (.bin (tk .plus [43]) (.atom (tk .ident [97])) (.atom (tk .ident [98])))
    (.un (tk .minus [45]) (.atom (tk .ident [99])))
example : demo.wf = true := by decide
example : demo.toks.map (·.type) = [.lparen, .ident, .plus, .ident, .rparen, .multiply, .minus, .ident] := by decide
/-- `x = f(a, b)[c].d += [a]` -/
private def demo2 : SE :=
  .asg (tk .assign [61]) (.atom (tk .ident [120]))
    (.casg (tk .plusAssign [43, 61])
      (.dot (tk .dot [46]) (.idx (tk .lbracket [91])
        (.call (tk .lparen [40]) (.atom (tk .ident [102])) (.cons (.atom (tk .ident [97])) (.cons (.atom (tk .ident [98])) .nil)))
        (.atom (tk .ident [99]))) (tk .ident [100]))
      (.arr (tk .lbracket [91]) (.cons (.atom (tk .ident [97])) .nil)))
example : demo2.wf = true := by decide
example : demo2.toks.map (·.type) = [.ident, .assign, .ident, .lparen, .ident, .comma, .ident, .rparen, .lbracket, .ident,
    .rbracket, .dot, .ident, .plusAssign, .lbracket, .ident, .rbracket] := by decide

/-- `function f(a) { if (a) return a; else { let x = [a]; } }  f(1);` as a programmatic tree -/
private def prog : SSList :=
  .cons (.funcD (tk .function [102]) (tk .ident [102]) [tk .ident [97]]
    (.cons (.ifElse (tk .if_ [105, 102]) (.atom (tk .ident [97])) (.ret (tk .return_ [114]) (.atom (tk .ident [97])) true) (tk .else_ [101])
      (.block (.cons (.letS (tk .let_ [108]) (tk .ident [120]) (.arr (tk .lbracket [91]) (.cons (.atom (tk .ident [97])) .nil)) true) .nil))) .nil))
  (.cons (.exprS (.call (tk .lparen [40]) (.atom (tk .ident [102])) (.cons (.atom (tk .int [49])) .nil)) true) .nil)
example : prog.wf = true ∧ prog.term = true := by decide
example : prog.toks.map (·.type) = [.function, .ident, .lparen, .ident, .rparen, .lbrace, .if_, .lparen, .ident, .rparen,
    .return_, .ident, .semicolon, .else_, .lbrace, .let_, .ident, .assign, .lbracket, .ident, .rbracket, .semicolon, .rbrace,
    .rbrace, .ident, .lparen, .int, .rparen, .semicolon] := by decide

/-! Non-vacuity of the byte-level theorem: `let x = 1; x = x - -x;` with properly spelled tokens -/
private def kw (ty : TokType) : Token := tk ty (LP.canon ty)
private def xT : Token := tk .ident [120]
private def prog2 : SSList :=
  .cons (.letS (kw .let_) xT (.atom (tk .int [49])) true)
  (.cons (.exprS (.asg (kw .assign) (.atom xT) (.bin (kw .minus) (.atom xT) (.un (kw .minus) (.atom xT)))) true) .nil)
example : prog2.wf = true ∧ prog2.term = true := by decide
example : LP.saneB prog2 := by
  have hx : LP.tokOk xT := by show LP.identOk [120] = true; decide
  have h1 : LP.tokOk (tk .int [49]) := LP.numOk_decimal [49] (by decide)
  have hk : ∀ ty, LP.canon ty ≠ [] → ty ≠ .ident → ty ≠ .int → ty ≠ .float → ty ≠ .string → ty ≠ .rawString → LP.tokOk (kw ty) := by
    intro ty hc _ _ _ _ _
    cases ty <;> first | exact absurd rfl hc | contradiction | exact ⟨hc, rfl⟩
  refine ⟨⟨hk _ (by decide) (by decide) (by decide) (by decide) (by decide) (by decide), hx, h1⟩,
    ⟨hk _ (by decide) (by decide) (by decide) (by decide) (by decide) (by decide), hx,
      hk _ (by decide) (by decide) (by decide) (by decide) (by decide) (by decide), hx,
      hk _ (by decide) (by decide) (by decide) (by decide) (by decide) (by decide), hx⟩, trivial⟩
example : ∀ t ∈ prog2.toks, LP.quietTok t := by decide
/-- the text is `let x=1;x=x- -x;` (the blank keeps the two signs apart) -/
example : (compile {} prog2.tree).code = [108, 101, 116, 32, 120, 61, 49, 59, 120, 61, 120, 45, 32, 45, 120, 59] := by decide +kernel

end Xjs.C03

#print axioms Xjs.C03.compact_text_lexes_to_printed_tokens
#print axioms Xjs.C03.compact_text_lexes_to_quiet_tokens
#print axioms Xjs.C03.compact_text_parses_back_to_the_tree
#print axioms Xjs.C03.parsing_ignores_positions
#print axioms Xjs.C03.expression_text_lexes
#print axioms Xjs.C03.separate_signs_is_enough
#print axioms Xjs.C03.tokens_from_the_lexer_are_spelled
#print axioms Xjs.C03.spelling_table_is_lexer_dispatch
#print axioms Xjs.C03.literal_sanity_conditions
#print axioms Xjs.C03.printed_tokens_parse_back
#print axioms Xjs.C03.printed_statement_parses_back
#print axioms Xjs.C03.printed_program_parses_back
#print axioms Xjs.C03.all_modes_are_base
#print axioms Xjs.C03.printer_tests
#print axioms Xjs.C03.tables_agree
