import XjsModel.Proofs.RaTerm
import XjsModel.Props.TableObligations
/-
  C03 — Printed code parses back to the tree it was printed from.

  Quantifier of the theorems: ALL trees of the language — expressions (atoms, explicit parentheses, the four prefix
  operators, the thirteen binary operators, the two postfix operators, calls, member access (dot and computed),
  assignment and the two compound assignments, array literals, object literals, function expressions) and statements
  (expression statements, `let` with and without initialiser, `return` with and without value, `if` with and without
  `else`, `while`, `for` with any combination of clauses, blocks, function declarations), whole programs — of any depth
  and in any combination, whether the tree came from the parser or was assembled programmatically; parser in any mode
  (smart-semicolon mode: `(` / `[` of a call / index not first on its line), with the built-in tables.
  The restrictions on the shape (`wf`) are exactly the three known findings of this property plus ECMAScript's
  LeftHandSideExpression positions: callee, object and assignment target are call-level-or-tighter expressions; an
  expression statement does not start with `{` or `function` (finding stmt-start-object-or-function); the then-branch
  of an `if` with `else` does not end in an `if` without `else` (finding dangling-else).

  Proved here (`RA.main`, `RA.stmtMain`, `RA.program_round_trip`: the Pratt invariant for expressions, its statement
  counterpart, and the statement loops, by structural recursion over the seven mutually inductive spec-tree types):
    the token sequence the printer emits for a tree (`toks`: operands parenthesised by the printer's four precedence
    tests; `;` after expression, `let` and `return` statements; no separator after `}`) is parsed back to exactly that
    tree, the printer's parentheses appearing as grouping nodes (`tree`), without any error; for expressions the cursor
    stops on the last token.
  Tie to the code: the printer's and the parser's precedence tables are re-extracted from /repo on every run and
  compared by `decide` (TableObligations); `parenLeft … parenPostfix` are the comparisons of ast.go.
  Decided by the correspondence run (PRINTT stream: programmatic trees, exhaustive parent/child pairs) and the
  model-free re-parse oracle: that the BYTES the printer writes lex to `toks` (no token fusion: fixes ebb5d69,
  aca1392), pretty mode (incl. `WithSemi(false)`), trees outside `wf`.
  Known findings there: stmt-start-object-or-function, dangling-else, printer-paren-function-indent, trim-in-literal.
-/
namespace Xjs.C03
open Xjs Xjs.RA

/-- PRINT → PARSE: for every such tree, parsing the printer's token sequence (followed by anything
    that cannot continue an expression, e.g. `;`, `)`, `,`, end of input) returns exactly that tree. -/
theorem printed_tokens_parse_back (cfg : PCfg) (hc : BaseCfg cfg) (s : SE) (hw : s.wf = true) (hterm : s.term = true)
    (st : PS) (rest : List Token) (hr : rest ≠ []) (ht : st.toks = s.toks ++ rest) (hstop : stops cfg LOWEST rest) :
    parseExpressionI cfg [] LOWEST st = some (s.tree, nextK (s.toks.length - 1) st) :=
  print_then_parse (tol := false) (sm := false) hc (fun h => by cases h) (fun h => by cases h) s hw (lay_of_term false false s hw hterm) LOWEST st rest hr ht
    (fits_lowest s hw) (stops_mono hstop (rbl_ge_one s hw)) hstop

/-- PRINT → PARSE for statements: any well-formed statement, followed by anything that is not an `else` after an open
    `if`, parses back to the statement; the cursor stops on its last token -/
theorem printed_statement_parses_back (cfg : PCfg) (hc : BaseCfg cfg) (s : SS) (hw : s.wf = true) (hterm : s.term = true)
    (st : PS) (rest : List Token) (hr : rest ≠ []) (ht : st.toks = s.toks ++ rest)
    (hopen : s.openIf = true → (rest.headD semiT).type ≠ .else_) :
    parseStatementI cfg cfg.stmtI st = some (s.tree, nextK (s.toks.length - 1) st) :=
  stmtMain (tol := false) (sm := false) hc (fun h => by cases h) (fun h => by cases h) s hw (layS_of_term false false s hw hterm)
    st rest hr ht (follow_of_term false false s hterm _ hopen)

/-- PRINT → PARSE for whole programs, every mode: the printed tokens of any well-formed program tree (every statement
    terminator written, as the compact printer does) parse to that tree without any error -/
theorem printed_program_parses_back (cfg : PCfg) (hc : BaseCfg cfg) (prog : SSList) (hw : prog.wf = true)
    (hterm : prog.term = true) (eofTok : Token) (he : eofTok.type = .eof) :
    ∃ r, parseProgram cfg (prog.toks ++ [eofTok]) = some r ∧ r.prog = prog.tree ∧ r.errors = [] ∧ r.hasErr = false :=
  printed_program_round_trip hc prog hw hterm eofTok he

/-- the modes the theorems cover: the four combinations of strict / tolerant and smart semicolons -/
theorem all_modes_are_base (tolerant smart : Bool) : BaseCfg { tolerant := tolerant, smart := smart } :=
  ⟨rfl, rfl, rfl, rfl, rfl⟩

/-- the levels of `SE.toks` are the `Precedence()` values of the nodes of the tree -/
theorem prec_tree (s : SE) : s.tree.prec = s.level := by
  cases s with
  | atom t =>
    show (SE.tree (.atom t)).prec = precAtomic
    simp only [SE.tree]
    unfold atomTree; split <;> rfl
  | _ => simp [SE.tree, Expr.prec, SE.level]

/-- the printer's four parenthesisation tests, on the tree, are the ones `SE.toks` uses -/
theorem printer_tests (t : Token) (l r : SE) :
    (decide (l.tree.prec < operatorPrecedence t.type) = parenLeft (operatorPrecedence t.type) l) ∧
    (decide (r.tree.prec ≤ operatorPrecedence t.type) = parenRight (operatorPrecedence t.type) r) ∧
    (decide (r.tree.prec < precUnary) = parenUnary r) ∧
    (decide (l.tree.prec < precPostfix) = parenPostfix l) := by
  simp only [prec_tree, parenLeft, parenRight, parenUnary, parenPostfix, and_self]

/-- tie: the printer's precedence table equals the parser's binding-power table on every operator token
    (re-extracted from /repo on every run) -/
theorem tables_agree :
    ∀ kv ∈ Gen.precedences, ((Gen.operatorPrecedence.find? (fun x => x.1 == kv.1)).map (·.2)).getD Gen.operatorPrecedenceDefault = kv.2 :=
  Tables.printer_precedence_eq_parser_binding_power

/-! Non-vacuity: `(a + b) * -c` as a programmatic tree: `*` over `+` forces parentheses on the left -/
private def tk (ty : TokType) (lit : Bytes) : Token := { type := ty, lit := lit, sl := 0, sc := 0, el := 0, ec := 0 }
private def demo : SE :=
  .bin (tk .multiply [42]) (.bin (tk .plus [43]) (.atom (tk .ident [97])) (.atom (tk .ident [98])))
    (.un (tk .minus [45]) (.atom (tk .ident [99])))
example : demo.wf = true := by decide
example : demo.toks.map (·.type) = [.lparen, .ident, .plus, .ident, .rparen, .multiply, .minus, .ident] := by decide
/-- `x = f(a, b)[c].d += [a]` -/
private def demo2 : SE :=
  .asg (tk .assign [61]) (.atom (tk .ident [120]))
    (.casg (tk .plusAssign [43, 61])
      (.dot (tk .dot [46]) (.idx (tk .lbracket [91])
        (.call (tk .lparen [40]) (.atom (tk .ident [102])) (.cons (.atom (tk .ident [97])) (.cons (.atom (tk .ident [98])) .nil)))
        (.atom (tk .ident [99]))) (tk .ident [100]))
      (.arr (tk .lbracket [91]) (.cons (.atom (tk .ident [97])) .nil)))
example : demo2.wf = true := by decide
example : demo2.toks.map (·.type) = [.ident, .assign, .ident, .lparen, .ident, .comma, .ident, .rparen, .lbracket, .ident,
    .rbracket, .dot, .ident, .plusAssign, .lbracket, .ident, .rbracket] := by decide

/-- `function f(a) { if (a) return a; else { let x = [a]; } }  f(1);` as a programmatic tree -/
private def prog : SSList :=
  .cons (.funcD (tk .function [102]) (tk .ident [102]) [tk .ident [97]]
    (.cons (.ifElse (tk .if_ [105, 102]) (.atom (tk .ident [97])) (.ret (tk .return_ [114]) (.atom (tk .ident [97])) true) (tk .else_ [101])
      (.block (.cons (.letS (tk .let_ [108]) (tk .ident [120]) (.arr (tk .lbracket [91]) (.cons (.atom (tk .ident [97])) .nil)) true) .nil))) .nil))
  (.cons (.exprS (.call (tk .lparen [40]) (.atom (tk .ident [102])) (.cons (.atom (tk .int [49])) .nil)) true) .nil)
example : prog.wf = true ∧ prog.term = true := by decide
example : prog.toks.map (·.type) = [.function, .ident, .lparen, .ident, .rparen, .lbrace, .if_, .lparen, .ident, .rparen,
    .return_, .ident, .semicolon, .else_, .lbrace, .let_, .ident, .assign, .lbracket, .ident, .rbracket, .semicolon, .rbrace,
    .rbrace, .ident, .lparen, .int, .rparen, .semicolon] := by decide

end Xjs.C03

#print axioms Xjs.C03.printed_tokens_parse_back
#print axioms Xjs.C03.printed_statement_parses_back
#print axioms Xjs.C03.printed_program_parses_back
#print axioms Xjs.C03.all_modes_are_base
#print axioms Xjs.C03.printer_tests
#print axioms Xjs.C03.tables_agree
