import XjsModel.Proofs.RtMain
import XjsModel.Props.TableObligations
/-
  C03 — Printed code parses back to the tree it was printed from.

  Quantifier of the theorem: ALL expression trees without function literals and object literals — atoms
  (identifiers, numbers, strings, back-quoted strings, booleans, null), explicit parentheses, the four prefix
  operators, the thirteen binary operators, the two postfix operators, calls with any number of arguments, member
  access (dot and computed), assignment and the two compound assignments, array literals — of any depth and in any
  combination, whether the tree came from the parser or was assembled programmatically; parser in any mode
  (smart-semicolon mode: `(` / `[` of a call / index not first on its line), with the built-in tables.
  The one restriction on the shape (`SE.wf`): callee, object and assignment target are call-level-or-tighter
  expressions (ECMAScript's LeftHandSideExpression) — the printer does not parenthesise those positions, so a tree
  with e.g. a unary callee prints text that denotes another tree (the oracle's directed families cover those).

  Proved here (`RTE.main`, the Pratt invariant by structural recursion over the mutually inductive trees):
    the token sequence that the printer's parenthesisation rule produces for a tree (`SE.toks`: left operand in
    parentheses iff its precedence is lower, right operand iff lower or equal, prefix-operator operand iff lower than
    UNARY, postfix operand iff lower than POSTFIX) is parsed back to exactly that tree, the printer's parentheses
    appearing as grouping nodes (`SE.tree`), and the cursor stops on the last token of the expression.
  Tie to the code: the printer's and the parser's precedence tables are re-extracted from /repo on every run and
  compared by `decide` (TableObligations); `parenLeft … parenPostfix` are the comparisons of ast.go.
  Decided by the correspondence run (PRINTT stream: programmatic trees, exhaustive parent/child pairs) and the
  model-free re-parse oracle: that the BYTES the printer writes lex to `SE.toks` (no token fusion: fixes ebb5d69,
  aca1392), function and object literals, statements, pretty mode.
  Known findings there: stmt-start-object-or-function, dangling-else, printer-paren-function-indent, trim-in-literal.
-/
namespace Xjs.C03
open Xjs Xjs.RTE

/-- PRINT → PARSE: for every such tree, parsing the printer's token sequence (followed by anything
    that cannot continue an expression, e.g. `;`, `)`, `,`, end of input) returns exactly that tree. -/
theorem printed_tokens_parse_back (cfg : PCfg) (hc : BaseCfg cfg) (s : SE) (hw : s.wf = true)
    (st : PS) (rest : List Token) (hr : rest ≠ []) (ht : st.toks = s.toks ++ rest) (hstop : stops cfg LOWEST rest) :
    parseExpressionI cfg [] LOWEST st = some (s.tree, nextK (s.toks.length - 1) st) :=
  print_then_parse hc s hw LOWEST st rest hr ht (fits_lowest s hw) (stops_mono hstop (rbl_ge_one s hw)) hstop

mutual
  /-- the parentheses of `SE.toks` are exactly the printer's: the levels are the `Precedence()` values of the nodes -/
  def _root_.Xjs.RTE.SE.bare : SE → Expr
    | .atom t => atomTree t
    | .grp e => .group lpT e.bare rpT
    | .un t r => .unary t t.lit r.bare
    | .bin t l r => .binary t l.bare t.lit r.bare
    | .post t l => .postfix t l.bare t.lit
    | .call t f args => .call t f.bare args.bare
    | .dot t o p => .member t o.bare (atomTree p) false
    | .idx t o p => .member t o.bare p.bare true
    | .asg t l v => .assign t l.bare v.bare
    | .casg t l v => .compound t l.bare (compoundOp t) v.bare
    | .arr t es => .array t es.bare rbT
  def _root_.Xjs.RTE.SEList.bare : SEList → ExprList
    | .nil => .nil
    | .cons e rest => .cons e.bare rest.bare
end

theorem prec_bare (s : SE) : (SE.bare s).prec = s.level := by
  cases s with
  | atom t =>
    show (SE.bare (.atom t)).prec = precAtomic
    simp only [SE.bare]
    unfold atomTree; split <;> rfl
  | _ => simp [SE.bare, Expr.prec, SE.level]

/-- the printer's four parenthesisation tests, on the bare tree, are the ones `SE.toks` uses -/
theorem printer_tests (t : Token) (l r : SE) :
    (decide ((SE.bare l).prec < operatorPrecedence t.type) = parenLeft (operatorPrecedence t.type) l) ∧
    (decide ((SE.bare r).prec ≤ operatorPrecedence t.type) = parenRight (operatorPrecedence t.type) r) ∧
    (decide ((SE.bare r).prec < precUnary) = parenUnary r) ∧
    (decide ((SE.bare l).prec < precPostfix) = parenPostfix l) := by
  simp only [prec_bare, parenLeft, parenRight, parenUnary, parenPostfix, and_self]

/-- tie: the printer's precedence table equals the parser's binding-power table on every operator token
    (re-extracted from /repo on every run) -/
theorem tables_agree :
    ∀ kv ∈ Gen.precedences, ((Gen.operatorPrecedence.find? (fun x => x.1 == kv.1)).map (·.2)).getD Gen.operatorPrecedenceDefault = kv.2 :=
  Tables.printer_precedence_eq_parser_binding_power

/-! Non-vacuity: `(a + b) * -c` as a programmatic tree: `*` over `+` forces parentheses on the left -/
private def tk (ty : TokType) (lit : Bytes) : Token := { type := ty, lit := lit, sl := 0, sc := 0, el := 0, ec := 0 }
private def demo : SE :=
  .bin (tk .multiply [42]) (.bin (tk .plus [43]) (.atom (tk .ident [97])) (.atom (tk .ident [98])))
    (.un (tk .minus [45]) (.atom (tk .ident [99])))
example : demo.wf = true := by decide
example : demo.toks.map (·.type) = [.lparen, .ident, .plus, .ident, .rparen, .multiply, .minus, .ident] := by decide
/-- `x = f(a, b)[c].d += [a]` -/
private def demo2 : SE :=
  .asg (tk .assign [61]) (.atom (tk .ident [120]))
    (.casg (tk .plusAssign [43, 61])
      (.dot (tk .dot [46]) (.idx (tk .lbracket [91])
        (.call (tk .lparen [40]) (.atom (tk .ident [102])) (.cons (.atom (tk .ident [97])) (.cons (.atom (tk .ident [98])) .nil)))
        (.atom (tk .ident [99]))) (tk .ident [100]))
      (.arr (tk .lbracket [91]) (.cons (.atom (tk .ident [97])) .nil)))
example : demo2.wf = true := by decide
example : demo2.toks.map (·.type) = [.ident, .assign, .ident, .lparen, .ident, .comma, .ident, .rparen, .lbracket, .ident,
    .rbracket, .dot, .ident, .plusAssign, .lbracket, .ident, .rbracket] := by decide

end Xjs.C03

#print axioms Xjs.C03.printed_tokens_parse_back
#print axioms Xjs.C03.printer_tests
#print axioms Xjs.C03.tables_agree
