import XjsModel.Proofs.RoundTrip4
import XjsModel.Props.TableObligations
/-
  C03 — Printed code parses back to the tree it was printed from.

  Quantifier of the theorem: ALL trees of the operator core of the expression grammar — atoms (identifiers, numbers,
  strings, back-quoted strings, booleans, null), explicit parentheses, the four prefix operators, the thirteen
  binary operators and the two postfix operators — of any depth and in any combination, whether the tree came from
  the parser or was assembled programmatically; parser in any mode, with the built-in tables.

  Proved here (`RT.main`, the Pratt invariant by induction on the tree):
    the token sequence that the printer's parenthesisation rule produces for a tree (`SE.toks`: left operand in
    parentheses iff its precedence is lower, right operand iff lower or equal, prefix-operator operand iff lower than
    UNARY, postfix operand iff lower than POSTFIX) is parsed back to exactly that tree, the printer's parentheses
    appearing as grouping nodes (`SE.tree`), and the cursor stops on the last token of the expression.
  Tie to the code: the printer's and the parser's precedence tables are re-extracted from /repo on every run and
  compared by `decide` (TableObligations); `parenLeft … parenPostfix` are the comparisons of ast.go.
  Decided by the correspondence run (PRINTT stream: programmatic trees, exhaustive parent/child pairs) and the
  model-free re-parse oracle: that the BYTES the printer writes lex to `SE.toks` (no token fusion: fix ebb5d69),
  the remaining node kinds (calls, member access, assignment, literals with children, statements), pretty mode.
  Known findings there: stmt-start-object-or-function, dangling-else, printer-paren-function-indent, trim-in-literal.
-/
namespace Xjs.C03
open Xjs Xjs.RT

/-- every operator binds tighter than the statement level, so any tree fits an expression position -/
theorem fits_lowest (s : SE) (hw : s.wf = true) : s.fits LOWEST :=
  fits_of_level s hw LOWEST (by have := level_ge_three s hw; unfold LOWEST; omega)

/-- PRINT → PARSE: for every tree of the operator core, parsing the printer's token sequence (followed by anything
    that cannot continue an expression, e.g. `;`, `)`, `,`, end of input) returns exactly that tree. -/
theorem printed_tokens_parse_back (cfg : PCfg) (hc : BaseCfg cfg) (s : SE) (hw : s.wf = true)
    (st : PS) (rest : List Token) (hr : rest ≠ []) (ht : st.toks = s.toks ++ rest) (hstop : stops cfg LOWEST rest) :
    parseExpressionI cfg [] LOWEST st = some (s.tree, nextK (s.toks.length - 1) st) :=
  eval_of_main s (main hc s hw) LOWEST st rest hr ht (fits_lowest s hw)
    (stops_mono hstop (by have := level_ge_three s hw; have := level_le_rbl s; unfold LOWEST; omega)) hstop

/-- the parentheses of `SE.toks` are exactly the printer's: the levels are the `Precedence()` values of the nodes -/
def _root_.Xjs.RT.SE.bare : SE → Expr
  | .atom t => atomTree t
  | .grp e => .group lpT e.bare rpT
  | .un t r => .unary t t.lit r.bare
  | .bin t l r => .binary t l.bare t.lit r.bare
  | .post t l => .postfix t l.bare t.lit

theorem prec_bare (s : SE) : (SE.bare s).prec = s.level := by
  cases s with
  | atom t =>
    show (atomTree t).prec = precAtomic
    unfold atomTree; split <;> rfl
  | grp e => rfl
  | un t r => rfl
  | bin t l r => rfl
  | post t l => rfl

/-- the printer's four parenthesisation tests, on the bare tree, are the ones `SE.toks` uses -/
theorem printer_tests (t : Token) (l r : SE) :
    (decide ((SE.bare l).prec < operatorPrecedence t.type) = parenLeft (operatorPrecedence t.type) l) ∧
    (decide ((SE.bare r).prec ≤ operatorPrecedence t.type) = parenRight (operatorPrecedence t.type) r) ∧
    (decide ((SE.bare r).prec < precUnary) = parenUnary r) ∧
    (decide ((SE.bare l).prec < precPostfix) = parenPostfix l) := by
  simp only [prec_bare, parenLeft, parenRight, parenUnary, parenPostfix, and_self]

/-- tie: the printer's precedence table equals the parser's binding-power table on every operator token
    (re-extracted from /repo on every run) -/
theorem tables_agree :
    ∀ kv ∈ Gen.precedences, ((Gen.operatorPrecedence.find? (fun x => x.1 == kv.1)).map (·.2)).getD Gen.operatorPrecedenceDefault = kv.2 :=
  Tables.printer_precedence_eq_parser_binding_power

/-! Non-vacuity: `(a + b) * -c` as a programmatic tree: `*` over `+` forces parentheses on the left -/
private def tk (ty : TokType) (lit : Bytes) : Token := { type := ty, lit := lit, sl := 0, sc := 0, el := 0, ec := 0 }
private def demo : SE :=
  .bin (tk .multiply [42]) (.bin (tk .plus [43]) (.atom (tk .ident [97])) (.atom (tk .ident [98])))
    (.un (tk .minus [45]) (.atom (tk .ident [99])))
example : demo.wf = true := by decide
example : demo.toks.map (·.type) = [.lparen, .ident, .plus, .ident, .rparen, .multiply, .minus, .ident] := by decide

end Xjs.C03

#print axioms Xjs.C03.printed_tokens_parse_back
#print axioms Xjs.C03.printer_tests
#print axioms Xjs.C03.tables_agree
