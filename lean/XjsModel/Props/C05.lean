import XjsModel.Model.Builder
import XjsModel.Props.TableObligations
import XjsModel.Proofs.ParserRenProg
/-
  C05 — Custom operators and token types integrate consistently.

  Quantifier: ALL histories of `RegisterTokenType` / `Register{Prefix,Infix,Postfix}Operator` calls on one builder
  (any length, any repeats, any token ids and levels).

  Proved here by induction over the history:
    * token ids: one stable id per name (asking again returns the same id and changes nothing), ids of
      different names differ, every id is ≥ 1000 (`DYNAMIC_TOKENS_START`, above every built-in type), ids are
      handed out in increasing order and never change later;
    * operators: a registration whose (role, token) is already present — seeded built-in or registered earlier —
      is refused and leaves the builder exactly as it was; a fresh one is accepted, recorded once, and touches
      nothing else; the per-role operator lists never hold a token twice.
  GROUPING (`parsing_commutes_with_renaming`, one pass `Ren.ren_mutual` over the parser's mutual block): the parser
  looks at an operator token's type only through its three tables. For ANY configuration and ANY map `f` of token types
  that moves only operator-like types and preserves the table entries (binding power, prefix role, infix role), parsing
  commutes with `f`: on every token list the parse of the renamed list is the renamed parse — same shape, same errors.
  Instance (`registered_infix_groups_like_builtin`): in the configuration a builder produces after
  `RegisterInfixOperator(tok, p)`, `p` one of the six binary levels, the registered token can be replaced everywhere
  by the built-in operator of that level (`||` `&&` `==` `<` `+` `*`): it groups — relative to every built-in operator,
  in every context, on valid and malformed input alike — exactly as that left-associative built-in does.
  Postfix operators (registered at CALL level, where no built-in operator lives) and several registered operators at
  once are instances of the general theorem too, but only the single-infix instance is spelled out; those cases are
  decided by the BUILD/PARSE correspondence and the grouping oracle. The seeds of the duplicate bookkeeping are tied to
  /repo by the regenerated table obligations.
-/
namespace Xjs.C05
open Xjs

inductive Op where
  | tokenType (name : Bytes)
  | pre (t : TokType)
  | inf (t : TokType) (level : Nat)
  | post (t : TokType)

def step (b : Builder) : Op → Builder
  | .tokenType n => (b.registerTokenType n).2
  | .pre t => (b.registerPrefix t).2
  | .inf t l => (b.registerInfix t l).2
  | .post t => (b.registerPostfix t).2

def run (h : List Op) : Builder := h.foldl step Builder.new

/-- the bookkeeping invariant -/
structure Inv (b : Builder) : Prop where
  ge : ∀ kv ∈ b.dynTokens, DYNAMIC_TOKENS_START ≤ kv.2 ∧ kv.2 < b.nextTokenID
  names : (b.dynTokens.map (·.1)).Nodup
  ids : (b.dynTokens.map (·.2)).Nodup
  next_ge : DYNAMIC_TOKENS_START ≤ b.nextTokenID
  pre_sub : ∀ t ∈ b.prefixOps, t ∈ b.regPrefix
  inf_sub : ∀ o ∈ b.infixOps, o.1 ∈ b.regInfix
  post_sub : ∀ t ∈ b.postfixOps, t ∈ b.regPostfix
  pre_nodup : b.prefixOps.Nodup
  inf_nodup : (b.infixOps.map (·.1)).Nodup
  post_nodup : b.postfixOps.Nodup

theorem inv_new : Inv Builder.new :=
  ⟨by simp [Builder.new], by simp [Builder.new], by simp [Builder.new], Nat.le_refl _,
   by simp [Builder.new], by simp [Builder.new], by simp [Builder.new],
   by simp [Builder.new], by simp [Builder.new], by simp [Builder.new]⟩

theorem find_name_mem {l : List (Bytes × Nat)} {n : Bytes} {kv} (h : l.find? (fun kv => kv.1 == n) = some kv) :
    kv ∈ l ∧ kv.1 = n := by
  have := List.find?_some h
  exact ⟨List.mem_of_find?_eq_some h, by simpa using this⟩

theorem find_name_none {l : List (Bytes × Nat)} {n : Bytes} (h : l.find? (fun kv => kv.1 == n) = none) :
    n ∉ l.map (·.1) := by
  intro hm
  rw [List.mem_map] at hm
  obtain ⟨kv, hkv, rfl⟩ := hm
  have := List.find?_eq_none.mp h kv hkv
  simp at this

theorem nodup_map_inj {α β : Type} {f : α → β} : ∀ {l : List α}, (l.map f).Nodup → ∀ {a b : α}, a ∈ l → b ∈ l → f a = f b → a = b
  | [], _, _, _, ha, _, _ => by simp at ha
  | x :: xs, h, a, b, ha, hb, e => by
    simp only [List.map_cons, List.nodup_cons, List.mem_map, not_exists, not_and] at h
    simp only [List.mem_cons] at ha hb
    rcases ha with rfl | ha <;> rcases hb with rfl | hb
    · rfl
    · exact absurd e.symm (h.1 b hb)
    · exact absurd e (h.1 a ha)
    · exact nodup_map_inj h.2 ha hb e

theorem inv_step (b : Builder) (op : Op) (hi : Inv b) : Inv (step b op) := by
  cases op with
  | tokenType n =>
    simp only [step, Builder.registerTokenType]
    split
    · exact hi
    · rename_i hnone
      have hn := find_name_none hnone
      refine ⟨?_, ?_, ?_, Nat.le_succ_of_le hi.next_ge, hi.pre_sub, hi.inf_sub, hi.post_sub, hi.pre_nodup, hi.inf_nodup, hi.post_nodup⟩
      · intro kv hkv
        simp only [List.mem_append, List.mem_singleton] at hkv
        rcases hkv with hkv | rfl
        · have := hi.ge kv hkv; exact ⟨this.1, Nat.lt_succ_of_lt this.2⟩
        · exact ⟨hi.next_ge, Nat.lt_succ_self _⟩
      · simp only [List.map_append, List.map_cons, List.map_nil]
        rw [List.nodup_append]
        refine ⟨hi.names, by simp, ?_⟩
        intro a ha b hb
        simp only [List.mem_singleton] at hb
        subst hb
        intro e; subst e; exact hn ha
      · simp only [List.map_append, List.map_cons, List.map_nil]
        rw [List.nodup_append]
        refine ⟨hi.ids, by simp, ?_⟩
        intro a ha c hc
        simp only [List.mem_singleton] at hc
        subst hc
        rw [List.mem_map] at ha
        obtain ⟨kv, hkv, rfl⟩ := ha
        have := (hi.ge kv hkv).2
        omega
  | pre t =>
    simp only [step, Builder.registerPrefix]
    split
    · exact hi
    · rename_i hc
      refine ⟨hi.ge, hi.names, hi.ids, hi.next_ge, ?_, hi.inf_sub, hi.post_sub, ?_, hi.inf_nodup, hi.post_nodup⟩
      · intro x hx
        simp only [List.mem_append, List.mem_singleton] at hx
        rcases hx with hx | rfl
        · exact List.mem_cons_of_mem _ (hi.pre_sub x hx)
        · exact List.mem_cons_self
      · rw [List.nodup_append]
        refine ⟨hi.pre_nodup, by simp, ?_⟩
        intro a ha c hc
        simp only [List.mem_singleton] at hc
        subst hc
        intro e; subst e
        exact hc (by simpa using hi.pre_sub a ha)
  | inf t l =>
    simp only [step, Builder.registerInfix]
    split
    · exact hi
    · rename_i hc
      refine ⟨hi.ge, hi.names, hi.ids, hi.next_ge, hi.pre_sub, ?_, hi.post_sub, hi.pre_nodup, ?_, hi.post_nodup⟩
      · intro x hx
        simp only [List.mem_append, List.mem_singleton] at hx
        rcases hx with hx | rfl
        · exact List.mem_cons_of_mem _ (hi.inf_sub x hx)
        · exact List.mem_cons_self
      · simp only [List.map_append, List.map_cons, List.map_nil]
        rw [List.nodup_append]
        refine ⟨hi.inf_nodup, by simp, ?_⟩
        intro a ha c hc
        simp only [List.mem_singleton] at hc
        subst hc
        rw [List.mem_map] at ha
        obtain ⟨o, ho, rfl⟩ := ha
        intro e
        exact hc (by rw [← e]; simpa using hi.inf_sub o ho)
  | post t =>
    simp only [step, Builder.registerPostfix]
    split
    · exact hi
    · rename_i hc
      refine ⟨hi.ge, hi.names, hi.ids, hi.next_ge, hi.pre_sub, hi.inf_sub, ?_, hi.pre_nodup, hi.inf_nodup, ?_⟩
      · intro x hx
        simp only [List.mem_append, List.mem_singleton] at hx
        rcases hx with hx | rfl
        · exact List.mem_cons_of_mem _ (hi.post_sub x hx)
        · exact List.mem_cons_self
      · rw [List.nodup_append]
        refine ⟨hi.post_nodup, by simp, ?_⟩
        intro a ha c hc
        simp only [List.mem_singleton] at hc
        subst hc
        intro e; subst e
        exact hc (by simpa using hi.post_sub a ha)

theorem inv_foldl (h : List Op) (b : Builder) (hi : Inv b) : Inv (h.foldl step b) := by
  induction h generalizing b with
  | nil => exact hi
  | cons op h ih => exact ih _ (inv_step b op hi)

/-- the invariant holds after EVERY registration history -/
theorem inv_run (h : List Op) : Inv (run h) := inv_foldl h _ inv_new

/-- token ids: every id handed out is ≥ 1000 (disjoint from the built-in types, which are < 1000) -/
theorem token_id_dynamic (h : List Op) (name : Bytes) :
    DYNAMIC_TOKENS_START ≤ ((run h).registerTokenType name).1 := by
  have hi := inv_run h
  simp only [Builder.registerTokenType]
  split
  · rename_i kv hf; exact (hi.ge kv (find_name_mem hf).1).1
  · exact hi.next_ge

/-- token ids: stable — registering the same name again, after any further history, returns the same id -/
theorem token_id_stable (h h' : List Op) (name : Bytes) :
    ((h'.foldl step ((run h).registerTokenType name).2).registerTokenType name).1 = ((run h).registerTokenType name).1 := by
  -- after the first registration the name is in the table with that id; later steps only append
  have key : ∀ (id : Nat) (hs : List Op) (b : Builder), (name, id) ∈ b.dynTokens → Inv b →
      ((hs.foldl step b).registerTokenType name).1 = id := by
    intro id hs
    induction hs with
    | nil =>
      intro b hm hi
      simp only [List.foldl_nil, Builder.registerTokenType]
      split
      · rename_i kv hf
        obtain ⟨hkv, hn⟩ := find_name_mem hf
        have : kv = (name, id) := nodup_map_inj hi.names hkv hm hn
        rw [this]
      · rename_i hnone
        exact absurd (List.mem_map.mpr ⟨_, hm, rfl⟩) (find_name_none hnone)
    | cons op hs ih =>
      intro b hm hi
      simp only [List.foldl_cons]
      refine ih _ ?_ (inv_step b op hi)
      cases op with
      | tokenType n =>
        simp only [step, Builder.registerTokenType]
        split
        · exact hm
        · exact List.mem_append_left _ hm
      | pre t => simp only [step, Builder.registerPrefix]; split <;> exact hm
      | inf t l => simp only [step, Builder.registerInfix]; split <;> exact hm
      | post t => simp only [step, Builder.registerPostfix]; split <;> exact hm
  refine key _ h' _ ?_ (inv_step (run h) (.tokenType name) (inv_run h))
  simp only [Builder.registerTokenType]
  split
  · rename_i kv hf
    obtain ⟨hkv, hn⟩ := find_name_mem hf
    have : kv = (name, kv.2) := by rw [← hn]
    rw [← this]; exact hkv
  · simp

/-- token ids: distinct names get distinct ids -/
theorem token_ids_injective (h : List Op) (kv1 kv2 : Bytes × Nat)
    (h1 : kv1 ∈ (run h).dynTokens) (h2 : kv2 ∈ (run h).dynTokens) (hid : kv1.2 = kv2.2) : kv1 = kv2 :=
  nodup_map_inj (inv_run h).ids h1 h2 hid

/-- operators: a registration for a (role, token) that is already present is refused and changes nothing -/
theorem duplicate_prefix_refused (b : Builder) (t : TokType) (h : t ∈ b.regPrefix) :
    b.registerPrefix t = (false, b) := by
  simp [Builder.registerPrefix, h]
theorem duplicate_infix_refused (b : Builder) (t : TokType) (l : Nat) (h : t ∈ b.regInfix) :
    b.registerInfix t l = (false, b) := by
  simp [Builder.registerInfix, h]
theorem duplicate_postfix_refused (b : Builder) (t : TokType) (h : t ∈ b.regPostfix) :
    b.registerPostfix t = (false, b) := by
  simp [Builder.registerPostfix, h]

/-- operators: once accepted, the same registration is refused for ever after, whatever happens in between -/
theorem accepted_then_refused (h : List Op) (b : Builder) (t : TokType) (l : Nat) :
    t ∈ ((h.foldl step (b.registerInfix t l).2)).regInfix := by
  have mono : ∀ (hs : List Op) (c : Builder), t ∈ c.regInfix → t ∈ (hs.foldl step c).regInfix := by
    intro hs
    induction hs with
    | nil => intro c hc; exact hc
    | cons op hs ih =>
      intro c hc
      refine ih _ ?_
      cases op with
      | tokenType n => simp only [step, Builder.registerTokenType]; split <;> exact hc
      | pre t' => simp only [step, Builder.registerPrefix]; split <;> exact hc
      | inf t' l' =>
        simp only [step, Builder.registerInfix]
        split
        · exact hc
        · exact List.mem_cons_of_mem _ hc
      | post t' => simp only [step, Builder.registerPostfix]; split <;> exact hc
  refine mono h _ ?_
  simp only [Builder.registerInfix]
  split
  · rename_i hc; simpa using hc
  · exact List.mem_cons_self

/-- built-in roles are seeded: every built-in prefix token, every token of the binding-power table and `++`/`--`
    are refused on a fresh builder -/
theorem builtins_are_seeded :
    (∀ t ∈ basePrefixFns.map (·.1), (Builder.new.registerPrefix t).1 = false) ∧
    (∀ t ∈ basePrecedences.map (·.1), ∀ l, (Builder.new.registerInfix t l).1 = false) ∧
    (∀ t ∈ [TokType.increment, TokType.decrement], (Builder.new.registerPostfix t).1 = false) := by
  refine ⟨?_, ?_, ?_⟩
  · intro t ht; exact congrArg Prod.fst (duplicate_prefix_refused Builder.new t ht)
  · intro t ht l; exact congrArg Prod.fst (duplicate_infix_refused Builder.new t l ht)
  · intro t ht; exact congrArg Prod.fst (duplicate_postfix_refused Builder.new t ht)

/-! Non-vacuity -/
example : (run [.tokenType [112, 111, 119], .tokenType [112, 105], .tokenType [112, 111, 119], .inf (.dyn 1000) 9,
    .inf (.dyn 1000) 3, .inf .plus 5]).dynTokens = [([112, 111, 119], 1000), ([112, 105], 1001)] := by decide
example : (run [.inf (.dyn 1000) 9, .inf (.dyn 1000) 3, .inf .plus 5]).infixOps = [(.dyn 1000, 9)] := by decide

/-- GROUPING, general form: parsing commutes with every renaming of operator token types that preserves the table
    entries — the parser cannot tell a registered operator from a built-in one of the same level and role -/
theorem parsing_commutes_with_renaming (cfg : PCfg) (ρ : Ren.Renaming cfg) (toks : List Token) (r : ParseResult)
    (h : parseProgram cfg toks = some r) :
    parseProgram cfg (toks.map (Ren.tokR ρ)) =
      some { prog := Ren.stmtListR ρ r.prog, errors := r.errors, hasErr := r.hasErr, final := Ren.psR ρ r.final } :=
  Ren.ren_parseProgram ρ toks r h

/-- GROUPING, instance: after `RegisterInfixOperator(dyn n, p)` on a fresh builder (accepted, configuration `cfgInfix`),
    replacing the registered token by the built-in operator of level `p` commutes with parsing, in all four modes -/
theorem registered_infix_groups_like_builtin (n p : Nat) (b : TokType) (hb : Ren.levelOp p = some b) (tolerant smart : Bool)
    (toks : List Token) (r : ParseResult) (h : parseProgram (Ren.cfgInfix n p tolerant smart) toks = some r) :
    (Builder.new.registerInfix (.dyn n) p).1 = true ∧
    (Builder.new.registerInfix (.dyn n) p).2.config = Ren.cfgInfix n p false false ∧
    ∃ ρ : Ren.Renaming (Ren.cfgInfix n p tolerant smart), ρ.f = Ren.swap n b ∧
      parseProgram (Ren.cfgInfix n p tolerant smart) (toks.map (Ren.tokR ρ)) =
        some { prog := Ren.stmtListR ρ r.prog, errors := r.errors, hasErr := r.hasErr, final := Ren.psR ρ r.final } := by
  obtain ⟨ρ, hρ⟩ := Ren.infixRenaming n p b hb tolerant smart
  exact ⟨(Ren.cfgInfix_is_builder n p).1, (Ren.cfgInfix_is_builder n p).2, ρ, hρ, Ren.ren_parseProgram ρ toks r h⟩

/-- the six levels and their built-in representatives really are binary operators of that level without a prefix role -/
example : ∀ p b, Ren.levelOp p = some b → lookup basePrecedences b = some p ∧ lookup baseInfixFns b = some .binary ∧
    lookup basePrefixFns b = none := by
  intro p b h
  unfold Ren.levelOp at h
  split at h <;> first | (cases h; decide) | cases h

end Xjs.C05

#print axioms Xjs.C05.inv_run
#print axioms Xjs.C05.token_id_dynamic
#print axioms Xjs.C05.token_id_stable
#print axioms Xjs.C05.token_ids_injective
#print axioms Xjs.C05.duplicate_prefix_refused
#print axioms Xjs.C05.duplicate_infix_refused
#print axioms Xjs.C05.duplicate_postfix_refused
#print axioms Xjs.C05.accepted_then_refused
#print axioms Xjs.C05.builtins_are_seeded
#print axioms Xjs.C05.parsing_commutes_with_renaming
#print axioms Xjs.C05.registered_infix_groups_like_builtin
