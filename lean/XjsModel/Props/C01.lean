import XjsModel.Props.C02
import XjsModel.Props.C11
import XjsModel.Props.C14
import XjsModel.Props.C15
import XjsModel.Proofs.LexPrintAll
import XjsModel.Proofs.LexPrintRound
/-
  C01 — Transpilation preserves program behaviour.

  Meta-level assumption (DESIGN.md §5, not formalised): a JavaScript engine's observable behaviour on a script is
  determined by the script's ECMAScript parse tree, parenthesised expressions being transparent and a literal
  contributing only its value. Under it, "the output behaves like the source" reduces to "the output is a spelling of
  the same tree". The Lean theorems below are the links of that chain that are proved; the remaining links
  (positions / flags of the re-lexed tokens; numeric and backtick literal values; pretty mode) are decided by the correspondence run and by the model-free behaviour
  oracle, which RUNS source and output in a JavaScript engine in every configuration.

  Proved (all inputs / all trees):
    (1) source → tree keeps every token: the tokens of the tree are the tokens of the accepted source (C12);
    (2) tree → compact output does not depend on trivia (comments, blank lines) nor on whether a source map is
        requested (C15, C14), and compiling is a function of (configuration, tree);
    (3) every tree of the language is printed (compact mode, token level) so that the printed tokens parse back to the
        same tree without error (C03, whole programs) — so source tree = tree of the output;
    (3b) the compact TEXT of such a tree (lexically sane tokens) is read by the lexer as exactly those printed tokens, none
        of them after a line break or with a comment (C03 byte level, `Proofs/LexPrint*.lean`);
    (3c) hence parsing the compact text returns the tree again, up to token positions (`compact_output_is_a_spelling_of_the_tree`);
    (4) an error-free tree is complete and compiles in every configuration without failing (C11).
  Known findings in the oracle: nosemi-hazard (D6), trim-in-literal (D5) (restricted productions: repaired, f7f7cd3).
-/
namespace Xjs.C01
open Xjs Xjs.RA

/-- (1)+(4): an accepted program's tree carries exactly the source tokens and compiles in every configuration -/
theorem accepted_source_is_faithfully_represented (cfg : PCfg) (toks : List Token) (r : ParseResult)
    (h : parseProgram cfg toks = some r) (hok : r.errors = []) :
    (∃ k, r.final.toks = Xjs.C12.nextN k toks ∧ F (Xjs.C12.spanL toks k) = F r.prog.flat) ∧
    r.prog.complete = true ∧ ∀ ccfg : CompCfg, (compile ccfg r.prog).ok = true := by
  obtain ⟨k, h1, h2, _⟩ := Xjs.C12.accepted_text_is_the_tree cfg toks r h hok
  exact ⟨⟨k, h1, h2⟩, Xjs.C11.error_free_tree_is_complete cfg toks r h hok,
    fun ccfg => Xjs.C11.error_free_tree_compiles cfg toks r h hok ccfg⟩

/-- (2): the compact output is a function of the trivia-free tree, with or without source map -/
theorem compact_output_depends_on_tree_only (prog : StmtList) (sm : Bool) :
    (compile { pretty := false, sourceMap := sm } prog).code = (compile { pretty := false, sourceMap := false } prog.erase).code := by
  have h1 := (Xjs.C15.compact_ignores_comments prog false).1
  have h2 := (Xjs.C14.source_map_does_not_change_code { pretty := false } prog).1
  cases sm with
  | false => exact h1.symm
  | true => exact h2.trans h1.symm

/-- (3): for expressions without function / object literals, the tree of the output tokens is the printed tree -/
theorem operator_core_round_trip (cfg : PCfg) (hc : BaseCfg cfg) (s : SE) (hw : s.wf = true) (hterm : s.term = true)
    (st : PS) (rest : List Token) (hr : rest ≠ []) (ht : st.toks = s.toks ++ rest) (hstop : stops cfg LOWEST rest) :
    parseExpressionI cfg [] LOWEST st = some (s.tree, nextK (s.toks.length - 1) st) :=
  Xjs.C03.printed_tokens_parse_back cfg hc s hw hterm st rest hr ht hstop

/-- (3) for whole programs: the tree of the output tokens is the printed tree, and no error is reported -/
theorem program_round_trip (cfg : PCfg) (hc : BaseCfg cfg) (prog : SSList) (hw : prog.wf = true) (hterm : prog.term = true)
    (eofTok : Token) (he : eofTok.type = .eof) :
    ∃ r, parseProgram cfg (prog.toks ++ [eofTok]) = some r ∧ r.prog = prog.tree ∧ r.errors = [] ∧ r.hasErr = false :=
  Xjs.C03.printed_program_parses_back cfg hc prog hw hterm eofTok he

/-- (3b): the text of the compact output lexes to the printed tokens of the tree -/
theorem compact_text_is_the_printed_tokens (ccfg : CompCfg) (hc : ccfg.pretty = false) (prog : SSList) (hw : prog.wf = true)
    (hterm : prog.term = true) (hs : LP.saneB prog) :
    (lexAll (compile ccfg prog.tree).code).map LP.keyOf4 = prog.toks.map LP.quietKey ++ [LP.eofKey] :=
  LP.compact_text_lexes4 ccfg hc prog hw hterm hs

/-- (3)+(3b) end to end: the compact output, read again by lexer and parser (any mode), is the same tree up to token
    positions — "the output is a spelling of the same tree" as one statement, for compact mode -/
theorem compact_output_is_a_spelling_of_the_tree (tolerant smart : Bool) (ccfg : CompCfg) (hc : ccfg.pretty = false) (prog : SSList)
    (hw : prog.wf = true) (hterm : prog.term = true) (hs : LP.saneB prog) (hn : ∀ t ∈ prog.toks, LP.quietTok t) :
    ∃ r, parseSource { tolerant := tolerant, smart := smart } (compile ccfg prog.tree).code = some r ∧
      Pos.stmtListZ r.prog = Pos.stmtListZ prog.tree ∧ r.errors = [] ∧ r.hasErr = false :=
  LP.compact_round_trip tolerant smart ccfg hc prog hw hterm hs hn

end Xjs.C01

#print axioms Xjs.C01.accepted_source_is_faithfully_represented
#print axioms Xjs.C01.compact_output_depends_on_tree_only
#print axioms Xjs.C01.operator_core_round_trip
#print axioms Xjs.C01.program_round_trip
#print axioms Xjs.C01.compact_text_is_the_printed_tokens
#print axioms Xjs.C01.compact_output_is_a_spelling_of_the_tree
