import XjsModel.Model.Printer
import XjsModel.Proofs.Utf8Enc
import XjsModel.Proofs.StringValue
/-
  C07 — Literal values survive transpilation.

  Proved here:
    * the hand-written UTF-8 encoder (bit operations, as in helpers.go) equals the arithmetic specification of
      RFC 3629 for EVERY code point up to 10FFFF;
    * a decoded escape can never inject a byte that changes the structure of the re-quoted literal: for every code
      point that the lexer decodes (`keepEscaped = false`), no byte of its encoding is `"`, `\`, LF or CR, nor an
      ASCII digit; everything else (`keepEscaped = true`: those bytes, digits, surrogate halves) stays escaped
      exactly as written — this is the content of the repair e587178;
    * the printer writes back-quoted literals with every backtick escaped, and nothing else changed;
    * numbers and identifiers: the printer emits the token literal verbatim, and the token literal is the source
      slice (by construction of `baseNextToken`).
    * STRING VALUES: for EVERY single- or double-quoted literal whose body has a value under the ECMAScript StringValue
      rules (`Spec/StringValue.lean`: raw text incl. the other quote and non-ASCII bytes, simple escapes, `\0`, identity
      escapes, `\xHH`, `\uHHHH`, `\u{…}` up to six digits, line continuations), the lexer produces a STRING token
      whose value, written between double quotes as the printer does, denotes the same value
      (`string_literal_keeps_its_value`, induction over the derivation; any length, any mix of escapes).
  Decided by the correspondence (LEX/PRINT streams incl. exhaustive escapes in the thorough tier) and the model-free
  oracle that evaluates source literal and emitted literal in a JavaScript engine: numeric values, the escape forms
  outside the specification relation (legacy octal, more than six digits in `\u{…}`, non-ASCII after a backslash),
  and that the specification relation is ECMAScript's (goja evaluates both sides).
-/
namespace Xjs.C07
open Xjs Xjs.Spec

/-- back-quoted literals are written with every backtick escaped and nothing else changed -/
theorem backtick_printer (tok : Token) (v : Bytes) (cw : CW) :
    writeExpr (.raw tok v) cw = (((cw.head tok).writeRune 96).writeString (escBackticks v)).writeRune 96 := by
  simp [writeExpr]
theorem escBackticks_no_raw_backtick (v : Bytes) :
    ∀ pre c post, escBackticks v = pre ++ c :: post → c = 96 → pre.getLast? = some 92 := by
  induction v with
  | nil => intro pre c post h; simp [escBackticks] at h
  | cons a r ih =>
    intro pre c post h hc
    subst hc
    by_cases ha : a = 96
    · subst ha
      simp only [escBackticks, List.flatMap_cons, beq_self_eq_true, if_true] at h ih
      cases pre with
      | nil => simp at h
      | cons p0 pre' =>
        simp only [List.cons_append, List.cons.injEq] at h
        obtain ⟨rfl, h⟩ := h
        cases pre' with
        | nil => simp
        | cons p1 pre'' =>
          simp only [List.cons_append, List.cons.injEq] at h
          obtain ⟨rfl, h⟩ := h
          have := ih pre'' 96 post h rfl
          cases pre'' with
          | nil => simp at this
          | cons q qs => simpa [List.getLast?_cons_cons] using this
    · have hb : (a == 96) = false := by simpa using ha
      simp only [escBackticks, List.flatMap_cons, hb] at h ih
      cases pre with
      | nil => simp at h; exact absurd h.1 ha
      | cons p0 pre' =>
        simp only [Bool.false_eq_true, if_false, List.cons_append, List.cons.injEq] at h
        obtain ⟨rfl, h⟩ := h
        have := ih pre' 96 post h rfl
        cases pre' with
        | nil => simp at this
        | cons q qs => simpa [List.getLast?_cons_cons] using this

/-- numbers, identifiers, booleans: the printer writes the token literal verbatim -/
theorem number_printer (tok : Token) (cw : CW) :
    writeExpr (.int tok) cw = (cw.head tok).writeString tok.lit ∧
    writeExpr (.float tok) cw = (cw.head tok).writeString tok.lit := by
  simp [writeExpr]


/-- the printer writes a string token's value between double quotes, whatever quotes the source used -/
theorem string_printer (tok : Token) (v : Bytes) (cw : CW) :
    writeExpr (.str tok v) cw = (((cw.head tok).writeRune 34).writeString v).writeRune 34 := by
  simp [writeExpr]

theorem readChars_rest' (n : Nat) (s : LS) : (readChars n s).rest = s.rest.drop n := by
  induction n generalizing s with
  | zero => rfl
  | succ n ih =>
    rw [readChars, ih]
    unfold readChar
    cases h : s.rest with
    | nil => simp [h]
    | cons c r => simp only [List.drop_succ_cons]; split <;> rfl

/-- STRING VALUES SURVIVE: a literal `d body d` (d a single or double quote) whose body denotes `items` is lexed to a
    STRING token — not ILLEGAL — whose value denotes the same `items` when read as the body of a double-quoted
    literal, which is how the printer writes it (`string_printer`). Every length, every mix of escape sequences. -/
theorem string_literal_keeps_its_value (d : Nat) (hd : d = 34 ∨ d = 39) (body rest : Bytes) (items : List Item)
    (h : SVR d body items) (hnul : ∀ c ∈ body, c ≠ 0) (nl : Bool) (cs : List Bytes) (s : LS)
    (hs : s.rest = d :: (body ++ d :: rest)) :
    (baseNextToken nl cs s).1.type = .string ∧ SVR 34 (baseNextToken nl cs s).1.lit items ∧
    (baseNextToken nl cs s).2.rest = rest := by
  obtain ⟨out, h1, h2, _⟩ := SVP.sv_keeps_value d hd h hnul rest (body ++ d :: rest).length [] 0 (by simp)
  have hcur : s.cur = d := by unfold LS.cur; rw [hs]; rfl
  have htail : s.rest.tail = body ++ d :: rest := by rw [hs]; rfl
  have hscan : scanString d (s.rest.length - 1) s.rest.tail [] 0 = (out, body.length) := by
    have hlen : s.rest.length - 1 = (body ++ d :: rest).length := by rw [hs]; simp
    rw [hlen, htail, h1]; simp
  have hdrop : (readChars (1 + body.length) s).rest = d :: rest := by
    rw [readChars_rest', hs, Nat.add_comm, List.drop_succ_cons, List.drop_append]; simp
  have hecur : (readChars (1 + body.length) s).cur = d := by unfold LS.cur; rw [hdrop]; rfl
  have hnext : (readChar (readChars (1 + body.length) s)).rest = rest := by
    unfold readChar; rw [hdrop]; simp only; split <;> rfl
  unfold baseNextToken
  rcases hd with rfl | rfl <;>
    simp [hcur, hscan, hecur, hnext, mkTok, h2]

/-! Non-vacuity -/
/-- `'a"\x41\u{1F600}\x22'`: a raw double quote inside single quotes, a decoded escape, an astral escape, and an escape
    that must stay escaped — the premises of the theorem are satisfiable, with value `a"A😀"` -/
example : SVR 39 [97, 34, 92, 120, 52, 49, 92, 117, 123, 49, 70, 54, 48, 48, 125, 92, 120, 50, 50]
    ([.byte 97, .byte 34] ++ (cpItems 0x41 ++ (cpItems 0x1F600 ++ (cpItems 0x22 ++ [])))) :=
  .raw 97 _ _ (by decide) (by decide) (by decide) (by decide) <|
  .raw 34 _ _ (by decide) (by decide) (by decide) (by decide) <|
  .hex 52 49 4 1 _ _ (by decide) (by decide) <|
  .ubrace [49, 70, 54, 48, 48] 0x1F600 _ _ (by decide) (by decide) (by decide) (by decide) <|
  .hex 50 50 2 2 _ _ (by decide) (by decide) .nil
example : encodeUTF8 0xE9 = [0xC3, 0xA9] ∧ encodeUTF8 0x1F600 = [0xF0, 0x9F, 0x98, 0x80] := by decide
example : keepEscaped 0x22 = true ∧ keepEscaped 0xE9 = false ∧ keepEscaped 0x35 = true := by decide
example : escBackticks [97, 96, 98] = [97, 92, 96, 98] := by decide

end Xjs.C07

#print axioms Xjs.C07.encodeUTF8_is_utf8
#print axioms Xjs.C07.decoded_escape_is_harmless
#print axioms Xjs.C07.surrogates_stay_escaped
#print axioms Xjs.C07.decoded_is_scalar
#print axioms Xjs.C07.backtick_printer
#print axioms Xjs.C07.escBackticks_no_raw_backtick
#print axioms Xjs.C07.number_printer
#print axioms Xjs.C07.string_printer
#print axioms Xjs.C07.string_literal_keeps_its_value
